/-
Helper lemmas for the shape logic of distance.py (Model/MeasuresX.lean, `NArr`): for the documented forms
(two 2-D arrays with `pair=False`; `pair=True`; two 1-D arrays promoted by `dmin=2`) `absolute_distance` is the
coordinate-wise absolute difference of the addressed pair of points, and the reductions along the coordinate axis are
the per-pair metrics of Model/Measures.lean.
-/
import MysticVerif.Proofs.MeasuresX

set_option linter.unusedSectionVars false

namespace MysticVerif.Meas
variable {K : Type} [Field K] [LinearOrder K] [IsStrictOrderedRing K]

@[simp] theorem bdim_self (a : Nat) : bdim a a = some a := by simp [bdim]
@[simp] theorem bdim_one_right (a : Nat) : bdim a 1 = some a := by
  unfold bdim; split <;> simp_all
@[simp] theorem bdim_one_left (b : Nat) : bdim 1 b = some b := by
  unfold bdim
  by_cases h : 1 = b
  · simp [h]
  · have h' : ¬ b = 1 := fun e => h e.symm
    simp [h, h']

theorem clip_lt (d c : Nat) (h : c < d) : (if d = 1 then 0 else c) = c := by
  split
  · omega
  · rfl

/-- the `i`-th point (row) of a 2-D array with `d` coordinates -/
def row (g : List Nat → K) (d i : Nat) : List K := (List.range d).map fun c => g [i, c]

/-- a 1-D array as one point -/
def vec (g : List Nat → K) (d : Nat) : List K := (List.range d).map fun c => g [c]

theorem absDist_matrix (gx gy : List Nat → K) (n m d dmin : Nat) (hd : dmin ≤ 2) :
    ∃ D, absoluteDistance ⟨[n, d], gx⟩ ⟨[m, d], gy⟩ false dmin = some D ∧ D.shape = [d, n, m] ∧
      ∀ c i j, c < d → i < n → j < m → D.get [c, i, j] = |gx [i, c] - gy [j, c]| := by
  have hk : max (max (2 : Nat) 2) dmin = 2 := by omega
  simp only [absoluteDistance, NArr.ndim, List.length_cons, List.length_nil, hk, NArr.promote]
  simp [NArr.T, NArr.newaxisAt, bzip, bshape, bshapeRev, bindex, absR_eq]
  intro c i j hc hi hj
  rw [clip_lt d c hc, clip_lt n i hi, clip_lt m j hj]

theorem absDist_pair (gx gy : List Nat → K) (n d dmin : Nat) (hd : dmin ≤ 2) :
    ∃ D, absoluteDistance ⟨[n, d], gx⟩ ⟨[n, d], gy⟩ true dmin = some D ∧ D.shape = [n, d] ∧
      ∀ i c, i < n → c < d → D.get [i, c] = |gx [i, c] - gy [i, c]| := by
  have hk : max (max (2 : Nat) 2) dmin = 2 := by omega
  simp only [absoluteDistance, NArr.ndim, List.length_cons, List.length_nil, hk, NArr.promote]
  simp [NArr.T, bzip, bshape, bshapeRev, bindex, absR_eq]
  intro i c hi hc
  rw [clip_lt d c hc, clip_lt n i hi]

/-- `pair=True` with ONE point on the right: it is broadcast against every point on the left -/
theorem absDist_pair_bcast (gx gy : List Nat → K) (n d dmin : Nat) (hd : dmin ≤ 2) :
    ∃ D, absoluteDistance ⟨[n, d], gx⟩ ⟨[1, d], gy⟩ true dmin = some D ∧ D.shape = [n, d] ∧
      ∀ i c, i < n → c < d → D.get [i, c] = |gx [i, c] - gy [0, c]| := by
  have hk : max (max (2 : Nat) 2) dmin = 2 := by omega
  simp only [absoluteDistance, NArr.ndim, List.length_cons, List.length_nil, hk, NArr.promote]
  simp [NArr.T, bzip, bshape, bshapeRev, bindex, absR_eq]
  intro i c hi hc
  rw [clip_lt d c hc, clip_lt n i hi]

/-- two 1-D arrays with `dmin=2`: each is promoted to ONE point -/
theorem absDist_dmin2 (gx gy : List Nat → K) (d : Nat) :
    ∃ D, absoluteDistance ⟨[d], gx⟩ ⟨[d], gy⟩ false 2 = some D ∧ D.shape = [d, 1, 1] ∧
      ∀ c, c < d → D.get [c, 0, 0] = |gx [c] - gy [c]| := by
  simp only [absoluteDistance, NArr.ndim, List.length_cons, List.length_nil, NArr.promote]
  simp [NArr.T, NArr.newaxisAt, NArr.newaxis0, bzip, bshape, bshapeRev, bindex, absR_eq, List.range_succ]
  intro c hc
  rw [clip_lt d c hc]

/-- a 2-D array of points against a single point given as a 1-D array (any `dmin ≤ 2`) -/
theorem absDist_mixed (gx gy : List Nat → K) (n d dmin : Nat) (hd : dmin ≤ 2) :
    ∃ D, absoluteDistance ⟨[n, d], gx⟩ ⟨[d], gy⟩ false dmin = some D ∧ D.shape = [d, n, 1] ∧
      ∀ c i, c < d → i < n → D.get [c, i, 0] = |gx [i, c] - gy [c]| := by
  have hk : max (max (2 : Nat) 1) dmin = 2 := by omega
  simp only [absoluteDistance, NArr.ndim, List.length_cons, List.length_nil, hk, NArr.promote]
  simp [NArr.T, NArr.newaxisAt, NArr.newaxis0, bzip, bshape, bshapeRev, bindex, absR_eq, List.range_succ]
  intro c i hc hi
  rw [clip_lt d c hc, clip_lt n i hi]

/-- two points given as 1-D arrays with `pair=True` (no promotion) -/
theorem absDist_points (gx gy : List Nat → K) (d dmin : Nat) (hd : dmin ≤ 1) :
    ∃ D, absoluteDistance ⟨[d], gx⟩ ⟨[d], gy⟩ true dmin = some D ∧ D.shape = [d] ∧
      ∀ c, c < d → D.get [c] = |gx [c] - gy [c]| := by
  have hk : max (max (1 : Nat) 1) dmin = 1 := by omega
  simp only [absoluteDistance, NArr.ndim, List.length_cons, List.length_nil, hk, NArr.promote]
  simp [NArr.T, bzip, bshape, bshapeRev, bindex, absR_eq]
  intro c hc
  rw [clip_lt d c hc]

/-! ### the reductions -/

theorem npmax2_eq (m x : K) : npmax2 m x = if m < x then x else m := by
  unfold npmax2; simp

theorem foldl_npmax2 (m : K) (l : List K) : l.foldl npmax2 m = pymaxFrom m l := by
  induction l generalizing m with
  | nil => rfl
  | cons x xs ih => simp only [List.foldl_cons, pymaxFrom, npmax2_eq, ih]

/-- the three per-lane operations of the metrics -/
def chebOf (l : List K) : K :=
  match l with
  | [] => 0
  | d :: ds => pymaxFrom d ds

theorem npmaxL_eq (l : List K) : npmaxL l = chebOf l := by
  cases l with
  | nil => rfl
  | cons x t => exact foldl_npmax2 x t

theorem zipWith_map_same {α : Type} (h : K → K → K) (f g : α → K) (l : List α) :
    List.zipWith h (l.map f) (l.map g) = l.map fun t => h (f t) (g t) := by
  induction l with
  | nil => rfl
  | cons a l ih => simp [ih]

theorem absdiff_maps {α : Type} (f g : α → K) (l : List α) :
    absdiff (l.map f) (l.map g) = l.map fun t => |f t - g t| := by
  unfold absdiff
  rw [zipWith_map_same]
  apply List.map_congr_left; intro t _; exact absR_eq _

theorem chebyshev_chebOf (x y : List K) : chebyshev x y = chebOf (absdiff x y) := rfl
theorem hamming_countNZ (x y : List K) : hamming x y = countNZ (absdiff x y) := rfl
theorem minkowski_lane (C : Consts K) (p : Nat) (x y : List K) :
    minkowski C p x y = C.root p (lsum ((absdiff x y).map (powN · p))) := rfl

theorem overflowed_false (fin : K → Bool) (hfin : ∀ x, fin x = true) (d t s : NArr K) :
    overflowed fin d t s = false := by
  unfold overflowed
  have h1 : (List.zipWith (fun a b => fin a && !fin b) d.ravel t.ravel).any id = false := by
    rw [List.any_eq_false]
    intro b hb
    obtain ⟨i, hi, rfl⟩ := List.mem_iff_getElem.mp hb
    simp [hfin]
  have h2 : (t.ravel.all fin && !s.ravel.all fin) = false := by
    have : s.ravel.all fin = true := by rw [List.all_eq_true]; intro x _; exact hfin x
    simp [this]
  rw [h1, h2]; rfl

/-- generic form of the three metrics once the distance array and the axis are known -/
theorem chebyshevA_of (x xp : NArr K) (pair : Bool) (dmin : Nat) (axis : Option Int) (D : NArr K) (ax : Nat)
    (hD : absoluteDistance x xp pair dmin = some D) (hax : resolveAxis D.ndim axis = some (some ax))
    (hne : emptyLane D (some ax) = false) :
    ∃ R, chebyshevA x xp pair dmin axis = DRes.ok R ∧ R.shape = D.shape.eraseIdx ax ∧
      ∀ ix, R.get ix = chebOf (lane D ax ix) := by
  unfold chebyshevA maxReduce
  rw [hD]; simp only [hax, hne]
  exact ⟨_, rfl, rfl, fun ix => npmaxL_eq _⟩

theorem hammingA_of (x xp : NArr K) (pair : Bool) (dmin : Nat) (axis : Option Int) (D : NArr K) (ax : Nat)
    (hD : absoluteDistance x xp pair dmin = some D) (hax : resolveAxis D.ndim axis = some (some ax)) :
    ∃ R, hammingA x xp pair dmin axis = DRes.ok R ∧ R.shape = D.shape.eraseIdx ax ∧
      ∀ ix, R.get ix = countNZ (lane D ax ix) := by
  unfold hammingA
  rw [hD]; simp only [hax]
  exact ⟨_, rfl, rfl, fun ix => rfl⟩

theorem minkowskiA_of (C : Consts K) (fin : K → Bool) (hfin : ∀ x, fin x = true) (x xp : NArr K) (pair : Bool)
    (dmin p : Nat) (hp : p ≠ 0) (axis : Option Int) (D : NArr K) (ax : Nat)
    (hD : absoluteDistance x xp pair dmin = some D) (hax : resolveAxis D.ndim axis = some (some ax)) :
    ∃ R, minkowskiA C fin x xp pair dmin p axis = DRes.ok R ∧ R.shape = D.shape.eraseIdx ax ∧
      ∀ ix, R.get ix = C.root p (lsum ((lane D ax ix).map (powN · p))) := by
  unfold minkowskiA
  rw [hD]; simp only [hax, if_neg hp, overflowed_false fin hfin]
  refine ⟨_, rfl, rfl, fun ix => ?_⟩
  simp [NArr.map, reduceWith, lane, List.map_map]
  rfl

/-! ### `axis=None` -/

theorem allIdx_one (d : Nat) : allIdx [d] = (List.range d).map fun i => [i] := by
  simp [allIdx, List.flatMap_eq_foldl]
  induction d with
  | zero => rfl
  | succ d ih => simp [List.range_succ, ih]

theorem chebyshevA_all (x xp : NArr K) (pair : Bool) (dmin : Nat) (D : NArr K)
    (hD : absoluteDistance x xp pair dmin = some D) (hne : D.ravel ≠ []) :
    ∃ R, chebyshevA x xp pair dmin none = DRes.ok R ∧ R.shape = [] ∧ ∀ ix, R.get ix = chebOf D.ravel := by
  unfold chebyshevA maxReduce
  rw [hD]
  have : emptyLane D none = false := by simp [emptyLane, hne]
  simp only [resolveAxis, this]
  exact ⟨_, rfl, rfl, fun ix => npmaxL_eq _⟩

theorem hammingA_all (x xp : NArr K) (pair : Bool) (dmin : Nat) (D : NArr K)
    (hD : absoluteDistance x xp pair dmin = some D) :
    ∃ R, hammingA x xp pair dmin none = DRes.ok R ∧ R.shape = [] ∧ ∀ ix, R.get ix = countNZ D.ravel := by
  unfold hammingA
  rw [hD]; simp only [resolveAxis]
  exact ⟨_, rfl, rfl, fun ix => rfl⟩

theorem minkowskiA_all (C : Consts K) (fin : K → Bool) (hfin : ∀ x, fin x = true) (x xp : NArr K) (pair : Bool)
    (dmin p : Nat) (hp : p ≠ 0) (D : NArr K) (hD : absoluteDistance x xp pair dmin = some D) :
    ∃ R, minkowskiA C fin x xp pair dmin p none = DRes.ok R ∧ R.shape = [] ∧
      ∀ ix, R.get ix = C.root p (lsum (D.ravel.map (powN · p))) := by
  unfold minkowskiA
  rw [hD]; simp only [resolveAxis, if_neg hp, overflowed_false fin hfin]
  refine ⟨_, rfl, rfl, fun ix => ?_⟩
  simp [NArr.map, reduceWith, NArr.ravel, List.map_map]
  rfl

end MysticVerif.Meas
