/- invariants of the Powell-in-S model (used by Props/C01-C04) -/
import MysticVerif.Model.PowellS
import MysticVerif.Proofs.NelderMead

namespace MysticVerif.PowellS
open MysticVerif.Solver

variable {R E : Type}

/-! ### the evaluation log only grows, and stays legitimate -/

theorem objK_log_prefix (o : Obj (Pt R) E) (x : Pt R) (log : List (Pt R × E)) : ∃ t, (o.objK x log).2 = log ++ t := by
  unfold Obj.objK Obj.objAt Obj.evalB
  split
  · exact ⟨[], by simp⟩
  · exact ⟨[(o.K x, o.raw (o.K x))], rfl⟩

/-- at most one record per call of the decorated cost -/
theorem objK_log_length (o : Obj (Pt R) E) (x : Pt R) (log : List (Pt R × E)) :
    (o.objK x log).2.length ≤ log.length + 1 := by
  unfold Obj.objK Obj.objAt Obj.evalB
  split <;> simp

theorem evalMany_log_prefix (o : Obj (Pt R) E) : ∀ (ps : List (Pt R)) (log : List (Pt R × E)), ∃ t, evalMany o ps log = log ++ t := by
  intro ps
  induction ps with
  | nil => intro log; exact ⟨[], by simp [evalMany]⟩
  | cons p ps ih =>
    intro log
    obtain ⟨t1, h1⟩ := objK_log_prefix o p log
    obtain ⟨t2, h2⟩ := ih (o.objK p log).2
    exact ⟨t1 ++ t2, by simp only [evalMany]; rw [h2, h1, List.append_assoc]⟩

theorem evalMany_log_sub (o : Obj (Pt R) E) (ps : List (Pt R)) (log : List (Pt R × E)) : ∀ q ∈ log, q ∈ evalMany o ps log := by
  obtain ⟨t, h⟩ := evalMany_log_prefix o ps log
  intro q hq; rw [h]; exact List.mem_append_left _ hq

theorem evalMany_logOK [LinearOrder E] {o : Obj (Pt R) E} (h : Hyp o) :
    ∀ (ps : List (Pt R)) (log : List (Pt R × E)), LogOK o log → LogOK o (evalMany o ps log) := by
  intro ps
  induction ps with
  | nil => intro log hl; exact hl
  | cons p ps ih => intro log hl; exact ih _ (objK_logOK h p log hl)

theorem lineSearch_log_prefix (o : Obj (Pt R) E) (r : LsRec R) (log : List (Pt R × E)) :
    ∃ t, (lineSearch o r log).2 = log ++ t := by
  unfold lineSearch
  obtain ⟨t1, h1⟩ := evalMany_log_prefix o r.pre log
  obtain ⟨t2, h2⟩ := objK_log_prefix o r.y (evalMany o r.pre log)
  obtain ⟨t3, h3⟩ := evalMany_log_prefix o r.post (o.objK r.y (evalMany o r.pre log)).2
  exact ⟨t1 ++ t2 ++ t3, by simp only; rw [h3, h2, h1]; simp⟩

theorem lineSearch_log_sub (o : Obj (Pt R) E) (r : LsRec R) (log : List (Pt R × E)) : ∀ q ∈ log, q ∈ (lineSearch o r log).2 := by
  obtain ⟨t, h⟩ := lineSearch_log_prefix o r log
  intro q hq; rw [h]; exact List.mem_append_left _ hq

theorem lineSearch_logOK [LinearOrder E] {o : Obj (Pt R) E} (h : Hyp o) (r : LsRec R) (log : List (Pt R × E))
    (hl : LogOK o log) : LogOK o (lineSearch o r log).2 := by
  unfold lineSearch
  exact evalMany_logOK h _ _ (objK_logOK h _ _ (evalMany_logOK h _ _ hl))

/-- the energy a line search returns is the decorated cost at the returned point -/
theorem lineSearch_fst (o : Obj (Pt R) E) (r : LsRec R) (log : List (Pt R × E)) :
    (lineSearch o r log).1 = o.energy (o.K r.y) := by
  unfold lineSearch Obj.objK
  simp only [objAt_fst]

/-- the CONSTRAINED returned point carries the returned energy legitimately (direction loop) -/
theorem lineSearch_good [LinearOrder E] {o : Obj (Pt R) E} (h : Hyp o) (r : LsRec R) (log : List (Pt R × E)) :
    Good o (lineSearch o r log).2 (o.K r.y) (lineSearch o r log).1 := by
  unfold lineSearch
  simp only
  have hg := objAt_good h r.y (evalMany o r.pre log)
  exact Good.mono hg (evalMany_log_sub o r.post _)

/-- the returned point itself carries the energy of its constrained image (extrapolation step) -/
theorem lineSearch_goodK [LinearOrder E] {o : Obj (Pt R) E} (h : Hyp o) (r : LsRec R) (log : List (Pt R × E)) :
    GoodK o (lineSearch o r log).2 (r.y, (lineSearch o r log).1) := by
  unfold lineSearch
  simp only
  have hg := objK_good h id (fun _ => rfl) r.y (evalMany o r.pre log)
  exact GoodK.mono hg (evalMany_log_sub o r.post _)

/-- `Good` implies `GoodK` (a K-fixed point) -/
theorem good_goodK {o : Obj (Pt R) E} {log : List (Pt R × E)} {y : Pt R} {e : E} (hg : Good o log y e) :
    GoodK o log (y, e) := by
  intro he
  obtain ⟨h1, h2, h3, h4⟩ := hg he
  simp only [h3]
  refine ⟨?_, h2, h4⟩
  rw [h1]
  unfold Obj.energy
  have hb : (o.useRange && !o.inBox y) = false := by
    cases hu : o.useRange
    · simp
    · simp [h4 hu]
  simp [hb]

/-! ### the invariants -/

/-- what holds between the two halves of an iteration (after the extrapolation step) and at every boundary -/
structure PwInvK [LinearOrder E] (o : Obj (Pt R) E) (s : Pw R E) : Prop where
  /-- the stored energy is the decorated cost at the stored point -/
  fvalEq : s.fval = o.energy (o.K s.x)
  bestK : GoodK o s.log (s.x, s.fval)
  logOK : LogOK o s.log
  recs : ∀ p ∈ s.stepLog, GoodK o s.log p
  dne : s.direc ≠ []

/-- what holds at every `_Step` boundary -/
structure PwInv [LinearOrder E] (o : Obj (Pt R) E) (s : Pw R E) : Prop extends PwInvK o s where
  best : Good o s.log s.x s.fval

theorem dirStep_inv [LinearOrder E] {o : Obj (Pt R) E} (h : Hyp o) (c : PwCfg R E) (ls : Nat → Pt R → Pt R → LsRec R)
    (d : Pt R) (i : Nat) (s : Pw R E) (hs : PwInvK o s) : PwInv o (dirStep o c ls d i s) := by
  have hsub := lineSearch_log_sub o (ls s.nls s.x d) s.log
  have hg := lineSearch_good h (ls s.nls s.x d) s.log
  refine ⟨⟨?_, good_goodK hg, lineSearch_logOK h _ _ hs.logOK, ?_, hs.dne⟩, hg⟩
  · simp only [dirStep, lineSearch_fst, h.idem]
  · intro p hp; exact (hs.recs p hp).mono hsub

theorem dirStep_direc (o : Obj (Pt R) E) (c : PwCfg R E) (ls : Nat → Pt R → Pt R → LsRec R) (d : Pt R) (i : Nat) (s : Pw R E) :
    (dirStep o c ls d i s).direc = s.direc ∧ (dirStep o c ls d i s).stepLog = s.stepLog ∧
      (dirStep o c ls d i s).pending = s.pending ∧ (dirStep o c ls d i s).x1 = s.x1 := ⟨rfl, rfl, rfl, rfl⟩

theorem dirLoop_frame (o : Obj (Pt R) E) (c : PwCfg R E) (ls : Nat → Pt R → Pt R → LsRec R) :
    ∀ (ds : List (Pt R)) (i : Nat) (s : Pw R E),
      (dirLoop o c ls ds i s).direc = s.direc ∧ (dirLoop o c ls ds i s).stepLog = s.stepLog ∧
        (dirLoop o c ls ds i s).pending = s.pending ∧ (dirLoop o c ls ds i s).x1 = s.x1 := by
  intro ds
  induction ds with
  | nil => intro i s; exact ⟨rfl, rfl, rfl, rfl⟩
  | cons d ds ih =>
    intro i s
    simp only [dirLoop]
    have := ih (i + 1) (dirStep o c ls d i s)
    simpa [dirStep] using this

/-- a direction loop over at least one direction ends in a boundary state -/
theorem dirLoop_inv [LinearOrder E] {o : Obj (Pt R) E} (h : Hyp o) (c : PwCfg R E) (ls : Nat → Pt R → Pt R → LsRec R) :
    ∀ (ds : List (Pt R)) (i : Nat) (s : Pw R E), ds ≠ [] → PwInvK o s → PwInv o (dirLoop o c ls ds i s) := by
  intro ds
  induction ds with
  | nil => intro i s hne; exact absurd rfl hne
  | cons d ds ih =>
    intro i s _ hs
    simp only [dirLoop]
    have h1 := dirStep_inv h c ls d i s hs
    cases ds with
    | nil => simpa [dirLoop] using h1
    | cons d' ds' => exact ih (i + 1) _ (by simp) h1.toPwInvK

theorem PwInvK.withInternals [LinearOrder E] {o : Obj (Pt R) E} {s : Pw R E} (hs : PwInvK o s) (x1 : Pt R) (fx : E) (b : Nat)
    (dl : E) (pend : Bool) : PwInvK o { s with x1 := x1, fx := fx, bigind := b, delta := dl, pending := pend } :=
  ⟨hs.fvalEq, hs.bestK, hs.logOK, hs.recs, hs.dne⟩

theorem sweep_inv [LinearOrder E] {o : Obj (Pt R) E} (h : Hyp o) (c : PwCfg R E) (ls : Nat → Pt R → Pt R → LsRec R)
    (s : Pw R E) (hs : PwInvK o s) : PwInv o (sweep o c ls s) := by
  unfold sweep
  have h1 := dirLoop_inv h c ls s.direc 0 { s with fx := s.fval, bigind := 0, delta := c.zeroE } hs.dne
    (hs.withInternals s.x1 s.fval 0 c.zeroE s.pending)
  exact ⟨⟨h1.fvalEq, h1.bestK, h1.logOK, h1.recs, h1.dne⟩, h1.best⟩

theorem gen0_inv [LinearOrder E] {o : Obj (Pt R) E} (h : Hyp o) (c : PwCfg R E) (record : Bool) (x0 : Pt R) (direc : List (Pt R))
    (hd : direc ≠ []) : PwInv o (gen0 o c record x0 direc) := by
  have hg : Good o (o.objK (o.K x0) []).2 (o.K x0) (o.objK (o.K x0) []).1 := by
    have := objAt_good h (o.K x0) []
    simpa [Obj.objK, h.idem] using this
  refine ⟨⟨?_, good_goodK hg, ?_, ?_, hd⟩, hg⟩
  · simp only [gen0, Obj.objK, objAt_fst]
  · exact objK_logOK h _ _ (by intro p hp; cases hp)
  · intro p hp
    simp only [gen0] at hp
    split at hp
    · simp only [List.mem_singleton] at hp; subst hp; exact good_goodK hg
    · cases hp

theorem gen1_inv [LinearOrder E] {o : Obj (Pt R) E} (h : Hyp o) (c : PwCfg R E) (ls : Nat → Pt R → Pt R → LsRec R)
    (s : Pw R E) (hs : PwInvK o s) : PwInv o (gen1 o c ls s) :=
  sweep_inv h c ls _ (hs.withInternals s.x s.fx s.bigind s.delta s.pending)

/-- the second half of an iteration keeps the weak invariant (the new point may be unconstrained) -/
theorem extrapolate_inv [Sub R] [Mul R] [LinearOrder E] {o : Obj (Pt R) E} (h : Hyp o) (c : PwCfg R E)
    (ls : Nat → Pt R → Pt R → LsRec R) (s : Pw R E) (hs : PwInvK o s) : PwInvK o (extrapolate o c ls s) := by
  have hsub2 := objK_log_sub o (vsub (vscale c.two s.x) s.x1) s.log
  have hok2 := objK_logOK h (vsub (vscale c.two s.x) s.x1) s.log hs.logOK
  unfold extrapolate
  simp only
  split
  · split
    · -- extrapolation line search taken
      have hsub := lineSearch_log_sub o (ls s.nls s.x (vsub s.x s.x1)) (o.objK (vsub (vscale c.two s.x) s.x1) s.log).2
      have hgk := lineSearch_goodK h (ls s.nls s.x (vsub s.x s.x1)) (o.objK (vsub (vscale c.two s.x) s.x1) s.log).2
      refine ⟨by simp only [lineSearch_fst], hgk, lineSearch_logOK h _ _ hok2, ?_, ?_⟩
      · intro p hp
        simp only [List.mem_append, List.mem_singleton] at hp
        rcases hp with hp | hp
        · exact ((hs.recs p hp).mono hsub2).mono hsub
        · subst hp; exact hgk
      · simp only [ne_eq]
        intro hnil
        have hlen : ((s.direc.set s.bigind (s.direc.getLast?.getD [])).set (s.direc.length - 1)
            (ls s.nls s.x (vsub s.x s.x1)).xi).length = s.direc.length := by simp
        rw [hnil] at hlen
        exact hs.dne (List.length_eq_zero_iff.mp hlen.symm)
    · refine ⟨hs.fvalEq, hs.bestK.mono hsub2, hok2, ?_, hs.dne⟩
      intro p hp
      simp only [List.mem_append, List.mem_singleton] at hp
      rcases hp with hp | hp
      · exact (hs.recs p hp).mono hsub2
      · subst hp; exact hs.bestK.mono hsub2
  · refine ⟨hs.fvalEq, hs.bestK.mono hsub2, hok2, ?_, hs.dne⟩
    intro p hp
    simp only [List.mem_append, List.mem_singleton] at hp
    rcases hp with hp | hp
    · exact (hs.recs p hp).mono hsub2
    · subst hp; exact hs.bestK.mono hsub2

theorem genN_inv [Sub R] [Mul R] [LinearOrder E] {o : Obj (Pt R) E} (h : Hyp o) (c : PwCfg R E)
    (ls : Nat → Pt R → Pt R → LsRec R) (s : Pw R E) (hs : PwInvK o s) : PwInv o (genN o c ls s) :=
  sweep_inv h c ls _ (extrapolate_inv h c ls s hs)

theorem run_inv [Sub R] [Mul R] [LinearOrder E] {o : Obj (Pt R) E} (h : Hyp o) (c : PwCfg R E)
    (ls : Nat → Pt R → Pt R → LsRec R) : ∀ (n : Nat) (s : Pw R E), PwInv o s → PwInv o (run o c ls n s) := by
  intro n
  induction n with
  | zero => intro s hs; exact hs
  | succ n ih => intro s hs; exact ih _ (genN_inv h c ls s hs.toPwInvK)

/-! ### the step record written in the middle of `_Step`: constrained unless the extrapolation search was taken -/

/-- if the extrapolation line search is NOT taken the record is the (constrained, evaluated) boundary point -/
theorem extrapolate_record_good [Sub R] [Mul R] [LinearOrder E] {o : Obj (Pt R) E} (c : PwCfg R E)
    (ls : Nat → Pt R → Pt R → LsRec R) (s : Pw R E) (hs : PwInv o s)
    (hno : ¬ ((o.objK (vsub (vscale c.two s.x) s.x1) s.log).1 < s.fx ∧
               c.tneg s.fx (o.objK (vsub (vscale c.two s.x) s.x1) s.log).1 s.fval s.delta = true)) :
    (extrapolate o c ls s).stepLog = s.stepLog ++ [(s.x, s.fval)] ∧
      Good o (extrapolate o c ls s).log s.x s.fval := by
  have hsub2 := objK_log_sub o (vsub (vscale c.two s.x) s.x1) s.log
  unfold extrapolate
  simp only
  split
  · rename_i h1
    split
    · rename_i h2; exact absurd ⟨h1, h2⟩ hno
    · exact ⟨rfl, hs.best.mono hsub2⟩
  · exact ⟨rfl, hs.best.mono hsub2⟩

/-! ### append-only evaluation log, one step record per iteration -/

theorem dirLoop_log_prefix (o : Obj (Pt R) E) (c : PwCfg R E) (ls : Nat → Pt R → Pt R → LsRec R) :
    ∀ (ds : List (Pt R)) (i : Nat) (s : Pw R E), ∃ t, (dirLoop o c ls ds i s).log = s.log ++ t := by
  intro ds
  induction ds with
  | nil => intro i s; exact ⟨[], by simp [dirLoop]⟩
  | cons d ds ih =>
    intro i s
    simp only [dirLoop]
    obtain ⟨t1, h1⟩ := lineSearch_log_prefix o (ls s.nls s.x d) s.log
    obtain ⟨t2, h2⟩ := ih (i + 1) (dirStep o c ls d i s)
    refine ⟨t1 ++ t2, ?_⟩
    rw [h2]
    simp only [dirStep]
    rw [h1, List.append_assoc]

theorem sweep_log_prefix (o : Obj (Pt R) E) (c : PwCfg R E) (ls : Nat → Pt R → Pt R → LsRec R) (s : Pw R E) :
    ∃ t, (sweep o c ls s).log = s.log ++ t := by
  unfold sweep
  exact dirLoop_log_prefix o c ls s.direc 0 _

theorem extrapolate_log_prefix [Sub R] [Mul R] [LinearOrder E] (o : Obj (Pt R) E) (c : PwCfg R E)
    (ls : Nat → Pt R → Pt R → LsRec R) (s : Pw R E) : ∃ t, (extrapolate o c ls s).log = s.log ++ t := by
  obtain ⟨t2, h2⟩ := objK_log_prefix o (vsub (vscale c.two s.x) s.x1) s.log
  unfold extrapolate
  simp only
  split
  · split
    · obtain ⟨t3, h3⟩ := lineSearch_log_prefix o (ls s.nls s.x (vsub s.x s.x1)) (o.objK (vsub (vscale c.two s.x) s.x1) s.log).2
      exact ⟨t2 ++ t3, by simp only; rw [h3, h2, List.append_assoc]⟩
    · exact ⟨t2, h2⟩
  · exact ⟨t2, h2⟩

theorem extrapolate_stepLog_length [Sub R] [Mul R] [LinearOrder E] (o : Obj (Pt R) E) (c : PwCfg R E)
    (ls : Nat → Pt R → Pt R → LsRec R) (s : Pw R E) :
    (extrapolate o c ls s).stepLog.length = s.stepLog.length + 1 ∧ (extrapolate o c ls s).pending = false := by
  unfold extrapolate
  simp only
  split
  · split <;> simp
  · simp

theorem sweep_stepLog (o : Obj (Pt R) E) (c : PwCfg R E) (ls : Nat → Pt R → Pt R → LsRec R) (s : Pw R E) :
    (sweep o c ls s).stepLog = s.stepLog ∧ (sweep o c ls s).pending = true := by
  unfold sweep
  exact ⟨(dirLoop_frame o c ls s.direc 0 _).2.1, rfl⟩

/-! ### the best-energy history under the oracle contract "a line search never returns a worse point than its start" -/

/-- Brent's bracket starts at `alpha = 0` and returns the best point it evaluated -/
def LsMono (o : Obj (Pt R) E) [LE E] (ls : Nat → Pt R → Pt R → LsRec R) : Prop :=
  ∀ k p xi, o.energy (o.K (ls k p xi).y) ≤ o.energy (o.K p)

structure HistInv [LinearOrder E] (s : Pw R E) : Prop where
  anti : s.hist.Pairwise (· ≥ ·)
  le : ∀ e ∈ s.hist, s.fval ≤ e

theorem dirStep_fval_le [LinearOrder E] {o : Obj (Pt R) E} (c : PwCfg R E) (ls : Nat → Pt R → Pt R → LsRec R)
    (hm : LsMono o ls) (d : Pt R) (i : Nat) (s : Pw R E) (hs : PwInvK o s) : (dirStep o c ls d i s).fval ≤ s.fval := by
  simp only [dirStep, lineSearch_fst]
  rw [hs.fvalEq]
  exact hm _ _ _

theorem dirLoop_fval_le [LinearOrder E] {o : Obj (Pt R) E} (h : Hyp o) (c : PwCfg R E) (ls : Nat → Pt R → Pt R → LsRec R)
    (hm : LsMono o ls) : ∀ (ds : List (Pt R)) (i : Nat) (s : Pw R E), PwInvK o s → (dirLoop o c ls ds i s).fval ≤ s.fval := by
  intro ds
  induction ds with
  | nil => intro i s _; exact le_refl _
  | cons d ds ih =>
    intro i s hs
    simp only [dirLoop]
    exact le_trans (ih (i + 1) _ (dirStep_inv h c ls d i s hs).toPwInvK) (dirStep_fval_le c ls hm d i s hs)

theorem sweep_fval_le [LinearOrder E] {o : Obj (Pt R) E} (h : Hyp o) (c : PwCfg R E) (ls : Nat → Pt R → Pt R → LsRec R)
    (hm : LsMono o ls) (s : Pw R E) (hs : PwInvK o s) : (sweep o c ls s).fval ≤ s.fval := by
  unfold sweep
  exact dirLoop_fval_le h c ls hm s.direc 0 _ (hs.withInternals s.x1 s.fval 0 c.zeroE s.pending)

theorem extrapolate_fval_le [Sub R] [Mul R] [LinearOrder E] {o : Obj (Pt R) E} (c : PwCfg R E)
    (ls : Nat → Pt R → Pt R → LsRec R) (hm : LsMono o ls) (s : Pw R E) (hs : PwInvK o s) :
    (extrapolate o c ls s).fval ≤ s.fval := by
  unfold extrapolate
  simp only
  split
  · split
    · simp only [lineSearch_fst]; rw [hs.fvalEq]; exact hm _ _ _
    · exact le_refl _
  · exact le_refl _

/-- a history whose entries all dominate `e`, extended by `e` -/
theorem pairwise_snoc_ge [LinearOrder E] (l : List E) (e : E) (hl : l.Pairwise (· ≥ ·)) (hle : ∀ a ∈ l, e ≤ a) :
    (l ++ [e]).Pairwise (· ≥ ·) := by
  rw [List.pairwise_append]
  refine ⟨hl, by simp, ?_⟩
  intro a ha b hb
  simp only [List.mem_singleton] at hb
  subst hb
  exact hle a ha

/-- the entries of the history that are step records (dropping the deferred one) -/
theorem hist_stepLog_le [LinearOrder E] {s : Pw R E} (hh : HistInv s) : ∀ e ∈ s.stepLog.map Prod.snd, s.fval ≤ e := by
  intro e he
  exact hh.le e (by unfold Pw.hist; exact List.mem_append_left _ he)

theorem hist_stepLog_anti [LinearOrder E] {s : Pw R E} (hh : HistInv s) : (s.stepLog.map Prod.snd).Pairwise (· ≥ ·) := by
  have := hh.anti
  unfold Pw.hist at this
  exact (List.pairwise_append.mp this).1

theorem extrapolate_hist [Sub R] [Mul R] [LinearOrder E] {o : Obj (Pt R) E} (c : PwCfg R E)
    (ls : Nat → Pt R → Pt R → LsRec R) (hm : LsMono o ls) (s : Pw R E) (hs : PwInvK o s) (hh : HistInv s) :
    HistInv (extrapolate o c ls s) := by
  have hle := extrapolate_fval_le c ls hm s hs
  have hsl : (extrapolate o c ls s).stepLog = s.stepLog ++ [((extrapolate o c ls s).x, (extrapolate o c ls s).fval)] := by
    unfold extrapolate
    simp only
    split
    · split <;> rfl
    · rfl
  have hp := (extrapolate_stepLog_length o c ls s).2
  have hhist : (extrapolate o c ls s).hist = s.stepLog.map Prod.snd ++ [(extrapolate o c ls s).fval] := by
    unfold Pw.hist
    rw [hp, hsl]
    simp
  constructor
  · rw [hhist]
    exact pairwise_snoc_ge _ _ (hist_stepLog_anti hh) (fun a ha => le_trans hle (hist_stepLog_le hh a ha))
  · intro e he
    rw [hhist] at he
    simp only [List.mem_append, List.mem_singleton] at he
    rcases he with he | he
    · exact le_trans hle (hist_stepLog_le hh e he)
    · rw [he]

theorem sweep_hist [LinearOrder E] {o : Obj (Pt R) E} (h : Hyp o) (c : PwCfg R E) (ls : Nat → Pt R → Pt R → LsRec R)
    (hm : LsMono o ls) (s : Pw R E) (hs : PwInvK o s) (hh : HistInv s) : HistInv (sweep o c ls s) := by
  have hle := sweep_fval_le h c ls hm s hs
  have hsl := sweep_stepLog o c ls s
  have hhist : (sweep o c ls s).hist = s.stepLog.map Prod.snd ++ [(sweep o c ls s).fval] := by
    unfold Pw.hist
    rw [hsl.1, hsl.2]
    simp
  constructor
  · rw [hhist]
    exact pairwise_snoc_ge _ _ (hist_stepLog_anti hh) (fun a ha => le_trans hle (hist_stepLog_le hh a ha))
  · intro e he
    rw [hhist] at he
    simp only [List.mem_append, List.mem_singleton] at he
    rcases he with he | he
    · exact le_trans hle (hist_stepLog_le hh e he)
    · rw [he]

theorem gen0_hist [LinearOrder E] (o : Obj (Pt R) E) (c : PwCfg R E) (record : Bool) (x0 : Pt R) (direc : List (Pt R)) :
    HistInv (gen0 o c record x0 direc) ∧ (gen0 o c record x0 direc).pending = false := by
  refine ⟨⟨?_, ?_⟩, rfl⟩
  · unfold Pw.hist gen0
    cases record <;> simp
  · intro e he
    unfold Pw.hist gen0 at he
    cases record
    · simp at he
    · simp only [↓reduceIte, List.map_cons, List.map_nil, Bool.false_eq_true, List.append_nil, List.mem_singleton] at he
      rw [he]; exact le_refl _

theorem genN_hist [Sub R] [Mul R] [LinearOrder E] {o : Obj (Pt R) E} (h : Hyp o) (c : PwCfg R E)
    (ls : Nat → Pt R → Pt R → LsRec R) (hm : LsMono o ls) (s : Pw R E) (hs : PwInvK o s) (hh : HistInv s) :
    HistInv (genN o c ls s) :=
  sweep_hist h c ls hm _ (extrapolate_inv h c ls s hs) (extrapolate_hist c ls hm s hs hh)

/-! ### every state a run reaches: generation 0, generation 1, then `n` further `_Step`s -/

def reach [Sub R] [Mul R] [LT E] [DecidableLT E] (o : Obj (Pt R) E) (c : PwCfg R E) (ls : Nat → Pt R → Pt R → LsRec R)
    (record : Bool) (x0 : Pt R) (direc : List (Pt R)) (n : Nat) : Pw R E :=
  run o c ls n (gen1 o c ls (gen0 o c record x0 direc))

theorem reach_inv [Sub R] [Mul R] [LinearOrder E] {o : Obj (Pt R) E} (h : Hyp o) (c : PwCfg R E)
    (ls : Nat → Pt R → Pt R → LsRec R) (record : Bool) (x0 : Pt R) (direc : List (Pt R)) (hd : direc ≠ []) (n : Nat) :
    PwInv o (reach o c ls record x0 direc n) :=
  run_inv h c ls n _ (gen1_inv h c ls _ (gen0_inv h c record x0 direc hd).toPwInvK)

theorem run_hist [Sub R] [Mul R] [LinearOrder E] {o : Obj (Pt R) E} (h : Hyp o) (c : PwCfg R E)
    (ls : Nat → Pt R → Pt R → LsRec R) (hm : LsMono o ls) :
    ∀ (n : Nat) (s : Pw R E), PwInv o s → HistInv s → HistInv (run o c ls n s) := by
  intro n
  induction n with
  | zero => intro s _ hh; exact hh
  | succ n ih => intro s hs hh; exact ih _ (genN_inv h c ls s hs.toPwInvK) (genN_hist h c ls hm s hs.toPwInvK hh)

theorem reach_hist [Sub R] [Mul R] [LinearOrder E] {o : Obj (Pt R) E} (h : Hyp o) (c : PwCfg R E)
    (ls : Nat → Pt R → Pt R → LsRec R) (hm : LsMono o ls) (record : Bool) (x0 : Pt R) (direc : List (Pt R))
    (hd : direc ≠ []) (n : Nat) : HistInv (reach o c ls record x0 direc n) := by
  have h0 := gen0_inv h c record x0 direc hd
  have hh0 := (gen0_hist o c record x0 direc).1
  have h1 := gen1_inv h c ls _ h0.toPwInvK
  have hh1 : HistInv (gen1 o c ls (gen0 o c record x0 direc)) :=
    sweep_hist h c ls hm _ (h0.toPwInvK.withInternals _ _ _ _ _) ⟨hh0.anti, hh0.le⟩
  exact run_hist h c ls hm n _ h1 hh1

theorem run_fval_le [Sub R] [Mul R] [LinearOrder E] {o : Obj (Pt R) E} (h : Hyp o) (c : PwCfg R E)
    (ls : Nat → Pt R → Pt R → LsRec R) (hm : LsMono o ls) :
    ∀ (n : Nat) (s : Pw R E), PwInv o s → (run o c ls n s).fval ≤ s.fval := by
  intro n
  induction n with
  | zero => intro s _; exact le_refl _
  | succ n ih =>
    intro s hs
    simp only [run]
    refine le_trans (ih _ (genN_inv h c ls s hs.toPwInvK)) ?_
    unfold genN
    exact le_trans (sweep_fval_le h c ls hm _ (extrapolate_inv h c ls s hs.toPwInvK))
      (extrapolate_fval_le c ls hm s hs.toPwInvK)

theorem run_log_prefix [Sub R] [Mul R] [LinearOrder E] (o : Obj (Pt R) E) (c : PwCfg R E)
    (ls : Nat → Pt R → Pt R → LsRec R) : ∀ (n : Nat) (s : Pw R E), ∃ t, (run o c ls n s).log = s.log ++ t := by
  intro n
  induction n with
  | zero => intro s; exact ⟨[], by simp [run]⟩
  | succ n ih =>
    intro s
    simp only [run]
    obtain ⟨t1, h1⟩ := extrapolate_log_prefix o c ls s
    obtain ⟨t2, h2⟩ := sweep_log_prefix o c ls (extrapolate o c ls s)
    obtain ⟨t3, h3⟩ := ih (genN o c ls s)
    refine ⟨t1 ++ t2 ++ t3, ?_⟩
    rw [h3]
    unfold genN
    rw [h2, h1]
    simp

theorem run_stepLog_length [Sub R] [Mul R] [LinearOrder E] (o : Obj (Pt R) E) (c : PwCfg R E)
    (ls : Nat → Pt R → Pt R → LsRec R) : ∀ (n : Nat) (s : Pw R E), (run o c ls n s).stepLog.length = s.stepLog.length + n := by
  intro n
  induction n with
  | zero => intro s; rfl
  | succ n ih =>
    intro s
    simp only [run]
    rw [ih]
    unfold genN
    rw [(sweep_stepLog o c ls _).1, (extrapolate_stepLog_length o c ls s).1]
    omega

end MysticVerif.PowellS
