/- helper lemmas for Props/C16/{Insert,Ties,Stats,Select}.lean (second round of C16: list targets, masked insertion,
synchronized, nearest member, statistics, index selections, random re-draws) -/
import MysticVerif.Proofs.Transforms

namespace MysticVerif.Trans

variable {R : Type}

/-! ### scatter: last write wins -/

/-- the last value `scatter ks vs` writes to slot `k`, if any -/
def lastScatter : List Nat → List R → Nat → Option R
  | k0 :: ks, v :: vs, k =>
    match lastScatter ks vs k with
    | some w => some w
    | none => if k0 = k then some v else none
  | _, _, _ => none

theorem scatter_getElem? (ks : List Nat) (vs : List R) (x : List R) (k : Nat) :
    (scatter ks vs x)[k]? = (x[k]?).map (fun a => (lastScatter ks vs k).getD a) := by
  induction ks generalizing vs x with
  | nil => simp [scatter, lastScatter]
  | cons k0 ks ih =>
    cases vs with
    | nil => simp [scatter, lastScatter]
    | cons v vs =>
      simp only [scatter, lastScatter]
      rw [ih]
      cases hl : lastScatter ks vs k with
      | some w =>
        by_cases h : k0 = k
        · subst h
          by_cases hlt : k0 < x.length
          · simp [List.getElem?_set, hlt, List.getElem?_eq_getElem hlt]
          · simp [List.getElem?_set, hlt, List.getElem?_eq_none (Nat.le_of_not_lt hlt)]
        · simp [List.getElem?_set, h]
      | none =>
        by_cases h : k0 = k
        · subst h
          by_cases hlt : k0 < x.length
          · simp [List.getElem?_set, hlt, List.getElem?_eq_getElem hlt]
          · simp [List.getElem?_set, hlt, List.getElem?_eq_none (Nat.le_of_not_lt hlt)]
        · simp [List.getElem?_set, h]

theorem lastScatter_not_mem (ks : List Nat) (vs : List R) (k : Nat) (hk : k ∉ ks) : lastScatter ks vs k = none := by
  induction ks generalizing vs with
  | nil => simp [lastScatter]
  | cons k0 ks ih =>
    cases vs with
    | nil => simp [lastScatter]
    | cons v vs =>
      simp only [lastScatter]
      rw [ih vs (fun h => hk (List.mem_cons_of_mem _ h))]
      have : k0 ≠ k := fun h => hk (h ▸ List.mem_cons_self)
      simp [this]

/-- with distinct slots the `r`-th slot receives the `r`-th value -/
theorem lastScatter_nodup (ks : List Nat) (vs : List R) (hnd : ks.Nodup) (r k : Nat) (v : R)
    (hk : ks[r]? = some k) (hv : vs[r]? = some v) : lastScatter ks vs k = some v := by
  induction ks generalizing vs r with
  | nil => simp at hk
  | cons k0 ks ih =>
    cases vs with
    | nil => simp at hv
    | cons v0 vs =>
      simp only [lastScatter]
      cases r with
      | zero =>
        simp at hk hv
        subst hk; subst hv
        rw [lastScatter_not_mem ks vs k0 (List.nodup_cons.mp hnd).1]
        simp
      | succ r =>
        simp at hk hv
        rw [ih vs (List.nodup_cons.mp hnd).2 r hk hv]

/-- writing the same values to the same slots a second time changes nothing -/
theorem scatter_scatter (ks : List Nat) (vs : List R) (x : List R) :
    scatter ks vs (scatter ks vs x) = scatter ks vs x := by
  apply List.ext_getElem?
  intro k
  rw [scatter_getElem?, scatter_getElem?]
  cases x[k]? with
  | none => rfl
  | some a => cases lastScatter ks vs k <;> simp

/-! ### gather after scatter -/

theorem gather_cons (k : Nat) (ks : List Nat) (x : List R) (a : R) (h : x[k]? = some a) :
    gather (k :: ks) x = a :: gather ks x := by
  simp [gather, List.filterMap_cons, h]

theorem gather_congr (ks : List Nat) (x y : List R) (h : ∀ k ∈ ks, x[k]? = y[k]?) : gather ks x = gather ks y := by
  induction ks with
  | nil => rfl
  | cons k ks ih =>
    simp only [gather, List.filterMap_cons]
    rw [h k List.mem_cons_self]
    have := ih (fun k' hk' => h k' (List.mem_cons_of_mem _ hk'))
    simp only [gather] at this
    rw [this]

theorem gather_length (ks : List Nat) (x : List R) (h : ∀ k ∈ ks, k < x.length) : (gather ks x).length = ks.length := by
  induction ks with
  | nil => rfl
  | cons k ks ih =>
    have hk := h k List.mem_cons_self
    rw [gather_cons k ks x x[k] (List.getElem?_eq_getElem hk)]
    simp [ih (fun k' hk' => h k' (List.mem_cons_of_mem _ hk'))]

/-- reading the written slots back gives the written values (distinct slots, all in range) -/
theorem gather_scatter (ks : List Nat) (vs : List R) (x : List R) (hnd : ks.Nodup) (hlt : ∀ k ∈ ks, k < x.length)
    (hlen : vs.length = ks.length) : gather ks (scatter ks vs x) = vs := by
  induction ks generalizing vs x with
  | nil =>
    have : vs = [] := List.eq_nil_of_length_eq_zero (by simpa using hlen)
    subst this; rfl
  | cons k ks ih =>
    cases vs with
    | nil => simp at hlen
    | cons v vs =>
      have hk := hlt k List.mem_cons_self
      have hnm := (List.nodup_cons.mp hnd).1
      have hget : (scatter (k :: ks) (v :: vs) x)[k]? = some v := by
        simp only [scatter]
        rw [scatter_not_mem _ _ _ _ hnm]
        simp [List.getElem?_set, hk]
      rw [gather_cons k ks _ v hget]
      simp only [scatter]
      rw [ih vs (x.set k v) (List.nodup_cons.mp hnd).2
        (fun k' hk' => by rw [List.length_set]; exact hlt k' (List.mem_cons_of_mem _ hk')) (by simpa using hlen)]

/-- writing back what was read changes nothing: a slot `scatter ks (gather ks x)` writes receives its own entry -/
theorem lastScatter_gather (ks : List Nat) (x : List R) (hlt : ∀ k ∈ ks, k < x.length) (k : Nat) (w a : R)
    (hl : lastScatter ks (gather ks x) k = some w) (hx : x[k]? = some a) : w = a := by
  induction ks with
  | nil => simp [gather, lastScatter] at hl
  | cons k0 ks ih =>
    have hk0 := hlt k0 List.mem_cons_self
    rw [gather_cons k0 ks x x[k0] (List.getElem?_eq_getElem hk0)] at hl
    simp only [lastScatter] at hl
    cases hr : lastScatter ks (gather ks x) k with
    | some w' =>
      rw [hr] at hl
      simp only [Option.some.injEq] at hl
      subst hl
      exact ih (fun k' hk' => hlt k' (List.mem_cons_of_mem _ hk')) hr
    | none =>
      rw [hr] at hl
      simp only at hl
      split at hl
      · rename_i h
        subst h
        rw [List.getElem?_eq_getElem hk0] at hx
        injection hl with hl; injection hx with hx
        rw [← hl, hx]
      · cases hl

/-! ### masked insertion -/

/-- the entries of `l` whose position (counted from `i`) is not in `S`, in order -/
def dropPos (S : List Nat) : List R → Nat → List R
  | [], _ => []
  | a :: t, i => if i ∈ S then dropPos S t (i + 1) else a :: dropPos S t (i + 1)

theorem dropPos_all_before (S : List Nat) (l : List R) (i : Nat) (h : ∀ s ∈ S, s < i) : dropPos S l i = l := by
  induction l generalizing i with
  | nil => rfl
  | cons a t ih =>
    simp only [dropPos]
    have : i ∉ S := fun hi => Nat.lt_irrefl _ (h i hi)
    rw [if_neg this, ih (i + 1) (fun s hs => Nat.lt_succ_of_lt (h s hs))]

theorem insertAt_zero (v : R) (l : List R) : insertAt 0 v l = v :: l := by simp [insertAt]

theorem insertAt_succ (j : Nat) (v a : R) (t : List R) : insertAt (j + 1) v (a :: t) = a :: insertAt j v t := by
  simp [insertAt]

theorem insertAt_length (k : Nat) (v : R) (l : List R) : (insertAt k v l).length = l.length + 1 := by
  simp only [insertAt, List.length_append, List.length_cons, List.length_take, List.length_drop]
  omega

theorem insertAt_getElem?_lt (k : Nat) (v : R) (l : List R) (j : Nat) (hj : j < k) (hk : k ≤ l.length) :
    (insertAt k v l)[j]? = l[j]? := by
  simp only [insertAt]
  rw [List.getElem?_append_left (by simp; omega), List.getElem?_take_of_lt hj]

theorem insertAt_getElem?_self (k : Nat) (v : R) (l : List R) (hk : k ≤ l.length) :
    (insertAt k v l)[k]? = some v := by
  simp only [insertAt]
  rw [List.getElem?_append_right (by simp [Nat.min_eq_left hk])]
  simp [Nat.min_eq_left hk]

/-- inserting at a position beyond every position of `S` and dropping it again -/
theorem dropPos_insertAt (S : List Nat) (k : Nat) (v : R) (l : List R) (i : Nat) (hS : ∀ s ∈ S, s < k) (hik : i ≤ k)
    (hk : k - i ≤ l.length) : dropPos (k :: S) (insertAt (k - i) v l) i = dropPos S l i := by
  induction l generalizing i with
  | nil =>
    have : k = i := by simp at hk; omega
    subst this
    simp [insertAt_zero, dropPos]
  | cons a t ih =>
    by_cases hki : k = i
    · subst hki
      rw [Nat.sub_self, insertAt_zero]
      have h1 : dropPos (k :: S) (v :: a :: t) k = dropPos (k :: S) (a :: t) (k + 1) := by
        rw [dropPos]; simp
      rw [h1, dropPos_all_before (k :: S) (a :: t) (k + 1) (fun s hs => by
        rcases List.mem_cons.mp hs with h | h
        · omega
        · exact Nat.lt_succ_of_lt (hS s h))]
      rw [dropPos_all_before S (a :: t) k hS]
    · have hlt : i < k := by omega
      have hsub : k - i = (k - (i + 1)) + 1 := by omega
      rw [hsub, insertAt_succ]
      simp only [dropPos]
      have hmem : (i ∈ k :: S) ↔ i ∈ S := by
        constructor
        · intro h
          rcases List.mem_cons.mp h with h | h
          · omega
          · exact h
        · exact List.mem_cons_of_mem _
      have hrec := ih (i + 1) (by omega) (by simp at hk; omega)
      by_cases hiS : i ∈ S
      · rw [if_pos (hmem.mpr hiS), if_pos hiS, hrec]
      · rw [if_neg (fun h => hiS (hmem.mp h)), if_neg hiS, hrec]

theorem dropPos_congr (S S' : List Nat) (l : List R) (i : Nat) (h : ∀ j, j ∈ S ↔ j ∈ S') :
    dropPos S l i = dropPos S' l i := by
  induction l generalizing i with
  | nil => rfl
  | cons a t ih =>
    simp only [dropPos]
    by_cases hi : i ∈ S
    · rw [if_pos hi, if_pos ((h i).mp hi), ih]
    · rw [if_neg hi, if_neg (fun h' => hi ((h i).mpr h')), ih]

/-- the insertion loop of `insert_missing` (tools.py l.536-538) over an already sorted key list -/
def maskedFold (mask : List (Int × R)) (ks : List Int) (x : List R) : List R :=
  ks.foldl (fun l k => match mask.find? (fun e => e.1 == k) with
    | some e => insertAt k.toNat e.2 l
    | none => l) x

/-- strictly ascending non-negative keys, the largest at most `len(x) + len(mask) - 1`: every value ends up at its
key, and the other positions are the input in its order -/
theorem maskedFold_spec (mask : List (Int × R)) (r : List Int) (x : List R)
    (hpw : r.reverse.Pairwise (· < ·)) (h0 : ∀ k ∈ r, 0 ≤ k)
    (hfind : ∀ k ∈ r, ∃ e, mask.find? (fun e => e.1 == k) = some e)
    (hub : ∀ k ∈ r, k ≤ ((x.length + r.length : Nat) : Int) - 1) :
    (maskedFold mask r.reverse x).length = x.length + r.length ∧
    (∀ k ∈ r, ∀ e, mask.find? (fun e => e.1 == k) = some e → (maskedFold mask r.reverse x)[k.toNat]? = some e.2) ∧
    dropPos (r.map Int.toNat) (maskedFold mask r.reverse x) 0 = x := by
  induction r with
  | nil => simp [maskedFold, dropPos_all_before]
  | cons k r ih =>
    rw [List.reverse_cons, List.pairwise_append] at hpw
    obtain ⟨hpw', _, hlt⟩ := hpw
    have hltk : ∀ k' ∈ r, k' < k := fun k' hk' => hlt k' (List.mem_reverse.mpr hk') k (by simp)
    have hk0 := h0 k List.mem_cons_self
    have hkub := hub k List.mem_cons_self
    simp only [List.length_cons] at hkub
    obtain ⟨ihl, ihv, ihd⟩ := ih hpw' (fun k' hk' => h0 k' (List.mem_cons_of_mem _ hk'))
      (fun k' hk' => hfind k' (List.mem_cons_of_mem _ hk'))
      (fun k' hk' => by have := hltk k' hk'; omega)
    obtain ⟨e, he⟩ := hfind k List.mem_cons_self
    have hstep : maskedFold mask (k :: r).reverse x = insertAt k.toNat e.2 (maskedFold mask r.reverse x) := by
      simp only [maskedFold, List.reverse_cons, List.foldl_append, List.foldl_cons, List.foldl_nil, he]
    have hkl : k.toNat ≤ (maskedFold mask r.reverse x).length := by rw [ihl]; omega
    rw [hstep]
    refine ⟨by rw [insertAt_length, ihl]; simp; omega, ?_, ?_⟩
    · intro k' hk' e' he'
      rcases List.mem_cons.mp hk' with h | h
      · subst h
        rw [he] at he'; injection he' with he'; subst he'
        exact insertAt_getElem?_self _ _ _ hkl
      · have h1 := hltk k' h
        have h2 := h0 k' (List.mem_cons_of_mem _ h)
        rw [insertAt_getElem?_lt _ _ _ _ (by omega) hkl]
        exact ihv k' h e' he'
    · simp only [List.map_cons]
      have := dropPos_insertAt (r.map Int.toNat) k.toNat e.2 (maskedFold mask r.reverse x) 0
        (fun s hs => by
          obtain ⟨k', hk', rfl⟩ := List.mem_map.mp hs
          have h1 := hltk k' hk'
          have h2 := h0 k' (List.mem_cons_of_mem _ hk')
          omega) (Nat.zero_le _) (by simpa using hkl)
      rw [Nat.sub_zero] at this
      rw [this, ihd]

theorem find?_key_of_nodup (mask : List (Int × R)) (hnd : (mask.map (·.1)).Nodup) (e : Int × R) (he : e ∈ mask) :
    mask.find? (fun e' => e'.1 == e.1) = some e := by
  induction mask with
  | nil => simp at he
  | cons a t ih =>
    simp only [List.map_cons, List.nodup_cons] at hnd
    rcases List.mem_cons.mp he with h | h
    · subst h; simp
    · have hne : a.1 ≠ e.1 := fun heq => hnd.1 (heq ▸ List.mem_map_of_mem (f := (·.1)) h)
      have hb : (a.1 == e.1) = false := by simpa using hne
      rw [List.find?_cons, hb]
      exact ih hnd.2 h

theorem foldl_min_le (keys : List Int) (a : Int) : keys.foldl min a ≤ a ∧ ∀ k ∈ keys, keys.foldl min a ≤ k := by
  induction keys generalizing a with
  | nil => simp
  | cons b t ih =>
    simp only [List.foldl_cons]
    obtain ⟨h1, h2⟩ := ih (min a b)
    refine ⟨by omega, fun k hk => ?_⟩
    rcases List.mem_cons.mp hk with h | h
    · subst h; omega
    · exact h2 k h

theorem le_foldl_min (keys : List Int) (a c : Int) (ha : c ≤ a) (h : ∀ k ∈ keys, c ≤ k) : c ≤ keys.foldl min a := by
  induction keys generalizing a with
  | nil => simpa
  | cons b t ih =>
    simp only [List.foldl_cons]
    exact ih (min a b) (by have := h b List.mem_cons_self; omega) (fun k hk => h k (List.mem_cons_of_mem _ hk))

theorem le_foldl_max (keys : List Int) (a : Int) : a ≤ keys.foldl max a ∧ ∀ k ∈ keys, k ≤ keys.foldl max a := by
  induction keys generalizing a with
  | nil => simp
  | cons b t ih =>
    simp only [List.foldl_cons]
    obtain ⟨h1, h2⟩ := ih (max a b)
    refine ⟨by omega, fun k hk => ?_⟩
    rcases List.mem_cons.mp hk with h | h
    · subst h; omega
    · exact h2 k h

theorem foldl_max_le (keys : List Int) (a c : Int) (ha : a ≤ c) (h : ∀ k ∈ keys, k ≤ c) : keys.foldl max a ≤ c := by
  induction keys generalizing a with
  | nil => simpa
  | cons b t ih =>
    simp only [List.foldl_cons]
    exact ih (max a b) (by have := h b List.mem_cons_self; omega) (fun k hk => h k (List.mem_cons_of_mem _ hk))

/-! ### maximum / minimum of a list -/

section extremes
variable {K : Type} [LinearOrder K]

theorem foldl_max_spec (t : List K) (a : K) :
    (t.foldl (fun m b => if m < b then b else m) a = a ∨ t.foldl (fun m b => if m < b then b else m) a ∈ t)
      ∧ a ≤ t.foldl (fun m b => if m < b then b else m) a
      ∧ ∀ b ∈ t, b ≤ t.foldl (fun m b => if m < b then b else m) a := by
  induction t generalizing a with
  | nil => simp
  | cons b t ih =>
    simp only [List.foldl_cons]
    obtain ⟨h1, h2, h3⟩ := ih (if a < b then b else a)
    refine ⟨?_, ?_, ?_⟩
    · rcases h1 with h | h
      · rw [h]; split
        · right; exact List.mem_cons_self
        · left; rfl
      · right; exact List.mem_cons_of_mem _ h
    · refine le_trans ?_ h2; split <;> order
    · intro c hc
      rcases List.mem_cons.mp hc with h | h
      · subst h; refine le_trans ?_ h2; split <;> order
      · exact h3 c h

theorem foldl_min_spec (t : List K) (a : K) :
    (t.foldl (fun m b => if b < m then b else m) a = a ∨ t.foldl (fun m b => if b < m then b else m) a ∈ t)
      ∧ t.foldl (fun m b => if b < m then b else m) a ≤ a
      ∧ ∀ b ∈ t, t.foldl (fun m b => if b < m then b else m) a ≤ b := by
  induction t generalizing a with
  | nil => simp
  | cons b t ih =>
    simp only [List.foldl_cons]
    obtain ⟨h1, h2, h3⟩ := ih (if b < a then b else a)
    refine ⟨?_, ?_, ?_⟩
    · rcases h1 with h | h
      · rw [h]; split
        · right; exact List.mem_cons_self
        · left; rfl
      · right; exact List.mem_cons_of_mem _ h
    · refine le_trans h2 ?_; split <;> order
    · intro c hc
      rcases List.mem_cons.mp hc with h | h
      · subst h; refine le_trans h2 ?_; split <;> order
      · exact h3 c h

theorem maxL_spec (l : List K) (m : K) (h : maxL l = some m) : m ∈ l ∧ ∀ b ∈ l, b ≤ m := by
  cases l with
  | nil => simp [maxL] at h
  | cons a t =>
    simp only [maxL, Option.some.injEq] at h
    obtain ⟨h1, h2, h3⟩ := foldl_max_spec t a
    rw [h] at h1 h2 h3
    refine ⟨?_, ?_⟩
    · rcases h1 with h | h
      · rw [h]; exact List.mem_cons_self
      · exact List.mem_cons_of_mem _ h
    · intro b hb
      rcases List.mem_cons.mp hb with h | h
      · rw [h]; exact h2
      · exact h3 b h

theorem minL_spec (l : List K) (m : K) (h : minL l = some m) : m ∈ l ∧ ∀ b ∈ l, m ≤ b := by
  cases l with
  | nil => simp [minL] at h
  | cons a t =>
    simp only [minL, Option.some.injEq] at h
    obtain ⟨h1, h2, h3⟩ := foldl_min_spec t a
    rw [h] at h1 h2 h3
    refine ⟨?_, ?_⟩
    · rcases h1 with h | h
      · rw [h]; exact List.mem_cons_self
      · exact List.mem_cons_of_mem _ h
    · intro b hb
      rcases List.mem_cons.mp hb with h | h
      · rw [h]; exact h2
      · exact h3 b h

theorem maxL_isSome (l : List K) (h : l ≠ []) : ∃ m, maxL l = some m := by
  cases l with
  | nil => exact absurd rfl h
  | cons a t => exact ⟨_, rfl⟩

theorem minL_isSome (l : List K) (h : l ≠ []) : ∃ m, minL l = some m := by
  cases l with
  | nil => exact absurd rfl h
  | cons a t => exact ⟨_, rfl⟩

theorem maxL_of (l : List K) (m : K) (hm : m ∈ l) (h : ∀ b ∈ l, b ≤ m) : maxL l = some m := by
  obtain ⟨m', hm'⟩ := maxL_isSome l (List.ne_nil_of_mem hm)
  obtain ⟨h1, h2⟩ := maxL_spec l m' hm'
  rw [hm', le_antisymm (h m' h1) (h2 m hm)]

theorem minL_of (l : List K) (m : K) (hm : m ∈ l) (h : ∀ b ∈ l, m ≤ b) : minL l = some m := by
  obtain ⟨m', hm'⟩ := minL_isSome l (List.ne_nil_of_mem hm)
  obtain ⟨h1, h2⟩ := minL_spec l m' hm'
  rw [hm', le_antisymm (h2 m hm) (h m' h1)]

/-- a monotone map carries the maximum to the maximum and the minimum to the minimum -/
theorem maxL_map_mono (g : K → K) (hg : ∀ a b, a ≤ b → g a ≤ g b) (l : List K) (m : K) (h : maxL l = some m) :
    maxL (l.map g) = some (g m) := by
  obtain ⟨h1, h2⟩ := maxL_spec l m h
  exact maxL_of _ _ (List.mem_map_of_mem h1) (fun b hb => by
    obtain ⟨a, ha, rfl⟩ := List.mem_map.mp hb
    exact hg a m (h2 a ha))

theorem minL_map_mono (g : K → K) (hg : ∀ a b, a ≤ b → g a ≤ g b) (l : List K) (m : K) (h : minL l = some m) :
    minL (l.map g) = some (g m) := by
  obtain ⟨h1, h2⟩ := minL_spec l m h
  exact minL_of _ _ (List.mem_map_of_mem h1) (fun b hb => by
    obtain ⟨a, ha, rfl⟩ := List.mem_map.mp hb
    exact hg m a (h2 a ha))

/-- an antitone map swaps them -/
theorem maxL_map_anti (g : K → K) (hg : ∀ a b, a ≤ b → g b ≤ g a) (l : List K) (m : K) (h : minL l = some m) :
    maxL (l.map g) = some (g m) := by
  obtain ⟨h1, h2⟩ := minL_spec l m h
  exact maxL_of _ _ (List.mem_map_of_mem h1) (fun b hb => by
    obtain ⟨a, ha, rfl⟩ := List.mem_map.mp hb
    exact hg m a (h2 a ha))

theorem minL_map_anti (g : K → K) (hg : ∀ a b, a ≤ b → g b ≤ g a) (l : List K) (m : K) (h : maxL l = some m) :
    minL (l.map g) = some (g m) := by
  obtain ⟨h1, h2⟩ := maxL_spec l m h
  exact minL_of _ _ (List.mem_map_of_mem h1) (fun b hb => by
    obtain ⟨a, ha, rfl⟩ := List.mem_map.mp hb
    exact hg a m (h2 a ha))

end extremes

/-! ### mean and variance under an affine map -/

section affine
variable {K : Type} [Field K] [LinearOrder K] [IsStrictOrderedRing K]

theorem sum_map_affine (x : List K) (c d : K) : (x.map (fun a => a * c + d)).sum = x.sum * c + (x.length : K) * d := by
  induction x with
  | nil => simp
  | cons a t ih => simp only [List.map_cons, List.sum_cons, List.length_cons, ih]; push_cast; ring

theorem length_cast_ne_zero (x : List K) (hx : x ≠ []) : (x.length : K) ≠ 0 := by
  have : x.length ≠ 0 := fun h => hx (List.eq_nil_of_length_eq_zero h)
  exact_mod_cast this

theorem mean_map_affine (x : List K) (hx : x ≠ []) (c d : K) :
    meanL List.sum Nat.cast (x.map (fun a => a * c + d)) = meanL List.sum Nat.cast x * c + d := by
  unfold meanL
  rw [sum_map_affine, List.length_map]
  have hn := length_cast_ne_zero x hx
  field_simp

theorem sum_map_sq_affine (x : List K) (c d mu : K) :
    (x.map (fun a => (a * c + d - (mu * c + d)) * (a * c + d - (mu * c + d)))).sum
      = c * c * (x.map (fun a => (a - mu) * (a - mu))).sum := by
  induction x with
  | nil => simp
  | cons a t ih => simp only [List.map_cons, List.sum_cons, ih]; ring

/-- `variance(c*x + d) = c^2 * variance(x)` -/
theorem variance_map_affine (x : List K) (hx : x ≠ []) (c d : K) :
    variance List.sum Nat.cast (x.map (fun a => a * c + d)) = c * c * variance List.sum Nat.cast x := by
  unfold variance
  simp only
  rw [mean_map_affine x hx c d]
  unfold meanL
  simp only [List.map_map, List.length_map, Function.comp_def]
  rw [sum_map_sq_affine]
  ring

theorem sum_sq_nonneg (x : List K) (mu : K) : 0 ≤ (x.map (fun a => (a - mu) * (a - mu))).sum := by
  induction x with
  | nil => simp
  | cons a t ih => simp only [List.map_cons, List.sum_cons]; exact add_nonneg (mul_self_nonneg _) ih

theorem variance_nonneg (x : List K) : 0 ≤ variance List.sum Nat.cast x := by
  unfold variance meanL
  simp only [List.length_map]
  exact div_nonneg (sum_sq_nonneg x _) (Nat.cast_nonneg _)

/-- `impose_mean(m, l)` is the shift by `m - mean(l)` -/
theorem imposeMean_eq_map (m : K) (l : List K) :
    imposeMean List.sum Nat.cast m l = l.map (fun a => a * 1 + (m - meanL List.sum Nat.cast l)) := by
  unfold imposeMean
  simp only
  apply List.map_congr_left
  intro a _; ring

end affine

/-! ### synchronized -/

section sync
variable {R : Type} [Mul R]

/-- the index a mask value reads -/
def Track.src : Track R → Int
  | .idx j => j
  | .scaled j0 _ => j0

/-- the value one mask entry assigns, read from `x` (`none`: the entry is skipped) -/
def syncVal (isArray : Bool) (x : List R) : Track R → Option R
  | .idx j => getPy x j
  | .scaled j0 c => if isArray = true then none else (getPy x j0).map (c * ·)

/-- one iteration of the loop of `synchronized` -/
def syncStep (isArray : Bool) (xp : List R) (e : Int × Track R) : List R :=
  match syncVal isArray xp e.2 with
  | some v => setPy xp e.1 v
  | none => xp

theorem synchronized_eq_foldl (isArray : Bool) (mask : List (Int × Track R)) (x : List R) :
    synchronized isArray mask x = mask.foldl (syncStep isArray) x := by
  unfold synchronized
  congr 1
  funext xp e
  unfold syncStep syncVal
  cases e.2 with
  | idx j => simp only; cases getPy xp j <;> rfl
  | scaled j0 c =>
    simp only
    by_cases h : isArray = true
    · simp [h]
    · simp only [h, if_false]
      cases getPy xp j0 <;> rfl

theorem syncStep_length (isArray : Bool) (xp : List R) (e : Int × Track R) :
    (syncStep isArray xp e).length = xp.length := by
  unfold syncStep; split
  · exact setPy_length _ _ _
  · rfl

theorem foldl_syncStep_length (isArray : Bool) (mask : List (Int × Track R)) (xp : List R) :
    (mask.foldl (syncStep isArray) xp).length = xp.length := by
  induction mask generalizing xp with
  | nil => rfl
  | cons e rest ih => simp only [List.foldl_cons]; rw [ih, syncStep_length]

theorem syncStep_getElem?_other (isArray : Bool) (xp : List R) (e : Int × Track R) (k : Nat)
    (h : wrapIdx xp.length e.1 ≠ some k) : (syncStep isArray xp e)[k]? = xp[k]? := by
  unfold syncStep; split
  · rw [setPy_getElem?, if_neg h]
  · rfl

/-- an entry no key addresses is never written -/
theorem foldl_syncStep_frame (isArray : Bool) (mask : List (Int × Track R)) (xp : List R) (k : Nat)
    (h : ∀ e ∈ mask, wrapIdx xp.length e.1 ≠ some k) : (mask.foldl (syncStep isArray) xp)[k]? = xp[k]? := by
  induction mask generalizing xp with
  | nil => rfl
  | cons e rest ih =>
    simp only [List.foldl_cons]
    rw [ih _ (fun e' he' => by rw [syncStep_length]; exact h e' (List.mem_cons_of_mem _ he'))]
    exact syncStep_getElem?_other isArray xp e k (h e List.mem_cons_self)

theorem getPy_congr (x y : List R) (i : Int) (hl : y.length = x.length)
    (h : ∀ k, wrapIdx x.length i = some k → y[k]? = x[k]?) : getPy y i = getPy x i := by
  unfold getPy
  rw [hl]
  cases hw : wrapIdx x.length i with
  | none => rfl
  | some k => simp only [Option.bind_some]; exact h k hw

theorem syncVal_congr (isArray : Bool) (x y : List R) (t : Track R) (h : getPy y t.src = getPy x t.src) :
    syncVal isArray y t = syncVal isArray x t := by
  cases t with
  | idx j => simpa [syncVal, Track.src] using h
  | scaled j0 c =>
    simp only [syncVal, Track.src] at h ⊢
    rw [h]

/-- the last value the mask assigns to slot `k`, every value read from the ORIGINAL `x` -/
def lastSync (isArray : Bool) (x : List R) : List (Int × Track R) → Nat → Option R
  | [], _ => none
  | e :: rest, k =>
    match lastSync isArray x rest k with
    | some v => some v
    | none => if wrapIdx x.length e.1 = some k then syncVal isArray x e.2 else none

/-- "keys and values should be different": no tracked index addresses a slot some key addresses -/
def SrcNotKey (n : Nat) (mask : List (Int × Track R)) : Prop :=
  ∀ e ∈ mask, ∀ e' ∈ mask, ∀ w, wrapIdx n e.1 = some w → wrapIdx n e'.2.src ≠ some w

theorem foldl_syncStep_spec (isArray : Bool) (x : List R) (mask : List (Int × Track R)) (xp : List R)
    (hl : xp.length = x.length)
    (hsrc : ∀ e' ∈ mask, getPy xp e'.2.src = getPy x e'.2.src)
    (hdis : ∀ e ∈ mask, ∀ e' ∈ mask, ∀ w, wrapIdx x.length e.1 = some w → wrapIdx x.length e'.2.src ≠ some w)
    (k : Nat) :
    (mask.foldl (syncStep isArray) xp)[k]? = (xp[k]?).map (fun a => (lastSync isArray x mask k).getD a) := by
  induction mask generalizing xp with
  | nil => simp [lastSync]
  | cons e rest ih =>
    simp only [List.foldl_cons]
    have hl' : (syncStep isArray xp e).length = x.length := by rw [syncStep_length, hl]
    have hsrc' : ∀ e' ∈ rest, getPy (syncStep isArray xp e) e'.2.src = getPy x e'.2.src := by
      intro e' he'
      rw [← hsrc e' (List.mem_cons_of_mem _ he')]
      apply getPy_congr _ _ _ (syncStep_length isArray xp e)
      intro w hw
      apply syncStep_getElem?_other
      intro hkey
      rw [hl] at hkey hw
      exact hdis e List.mem_cons_self e' (List.mem_cons_of_mem _ he') w hkey hw
    rw [ih _ hl' hsrc' (fun a ha b hb => hdis a (List.mem_cons_of_mem _ ha) b (List.mem_cons_of_mem _ hb))]
    simp only [lastSync]
    have hv : syncVal isArray xp e.2 = syncVal isArray x e.2 := syncVal_congr isArray x xp e.2 (hsrc e List.mem_cons_self)
    unfold syncStep
    rw [hv]
    cases hlast : lastSync isArray x rest k with
    | some v =>
      cases hs : syncVal isArray x e.2 with
      | none => rfl
      | some u =>
        simp only
        rw [setPy_getElem?]
        split
        · rename_i hw
          have := wrapIdx_lt hw
          simp [List.getElem?_eq_getElem this]
        · rfl
    | none =>
      cases hs : syncVal isArray x e.2 with
      | none => simp
      | some u =>
        simp only
        rw [setPy_getElem?, hl]
        split
        · rename_i hw
          have := wrapIdx_lt hw
          rw [← hl] at this
          simp [List.getElem?_eq_getElem this]
        · simp

end sync

end MysticVerif.Trans
