/- lemmas about Model/Strategy.lean (used by Props/C08) -/
import MysticVerif.Model.Strategy
import MysticVerif.Proofs.Solver
import MysticVerif.Proofs.NelderMead
import Mathlib.Tactic.SplitIfs

namespace MysticVerif.Strategy

variable {R : Type}

/-! ### the candidate pool -/

theorem pool_length (np excl : Nat) (h : excl < np) : (pool np excl).length = np - 1 := by
  simp [pool]; omega

/-- the pool is `0 .. NP-1` with `excl` skipped -/
theorem pool_getD (np excl p : Nat) (h : excl < np) (hp : p < np - 1) :
    (pool np excl).getD p 0 = if p < excl then p else p + 1 := by
  unfold pool
  rw [List.getD_eq_getElem?_getD, List.getElem?_append]
  simp only [List.length_range]
  split_ifs with h1
  · simp [h1]
  · have : p - excl < np - (excl + 1) := by omega
    simp [this]; omega

theorem candidates_length (np excl : Nat) (ps : List Nat) : (getRandomCandidates np excl ps).length = ps.length := by
  simp [getRandomCandidates]

theorem candidates_mem {np excl : Nat} {ps : List Nat} (h : excl < np) (hps : ∀ p ∈ ps, p < np - 1) :
    ∀ r ∈ getRandomCandidates np excl ps, r ≠ excl ∧ r < np := by
  intro r hr
  simp only [getRandomCandidates, List.mem_map] at hr
  obtain ⟨p, hp, rfl⟩ := hr
  rw [pool_getD np excl p h (hps p hp)]
  have := hps p hp
  split_ifs <;> omega

theorem nodup_map_on {α β : Type} (f : α → β) : ∀ (l : List α),
    (∀ a ∈ l, ∀ b ∈ l, f a = f b → a = b) → l.Nodup → (l.map f).Nodup := by
  intro l
  induction l with
  | nil => intro _ _; simp
  | cons a l ih =>
    intro hinj hnd
    rw [List.nodup_cons] at hnd
    rw [List.map_cons, List.nodup_cons]
    refine ⟨?_, ih (fun x hx y hy => hinj x (List.mem_cons_of_mem _ hx) y (List.mem_cons_of_mem _ hy)) hnd.2⟩
    intro hmem
    rw [List.mem_map] at hmem
    obtain ⟨b, hb, hfb⟩ := hmem
    have := hinj a List.mem_cons_self b (List.mem_cons_of_mem _ hb) hfb.symm
    exact hnd.1 (this ▸ hb)

theorem candidates_nodup {np excl : Nat} {ps : List Nat} (h : excl < np) (hps : ∀ p ∈ ps, p < np - 1)
    (hnd : ps.Nodup) : (getRandomCandidates np excl ps).Nodup := by
  unfold getRandomCandidates
  refine nodup_map_on _ ps ?_ hnd
  intro a ha b hb hab
  rw [pool_getD np excl a h (hps a ha), pool_getD np excl b h (hps b hb)] at hab
  split_ifs at hab <;> omega

/-! ### reading a list after `set` -/

theorem getD_set [Inhabited R] (t : List R) (n j : Nat) (v : R) (hn : n < t.length) :
    (t.set n v).getD j default = if j = n then v else t.getD j default := by
  simp only [List.getD_eq_getElem?_getD, List.getElem?_set]
  split_ifs with h1 h2 h3
  · subst h1; simp
  · subst h1; simp at h2
  · subst h3; simp at h1
  · rfl

/-! ### the exponential loop -/

theorem succ_mod_eq (n D : Nat) (h : n < D) : (n + 1) % D = if n + 1 = D then 0 else n + 1 := by
  split_ifs with h1
  · rw [h1, Nat.mod_self]
  · exact Nat.mod_eq_of_lt (by omega)

theorem offset_lt (n0 D j : Nat) (h0 : n0 < D) (hj : j < D) : offset n0 D j < D := by
  unfold offset; split_ifs <;> omega

theorem offset_inj (n0 D j k : Nat) (h0 : n0 < D) (hj : j < D) (hk : k < D) (h : offset n0 D j = offset n0 D k) :
    j = k := by
  unfold offset at h; split_ifs at h <;> omega

theorem offset_succ (n0 D n i : Nat) (h0 : n0 < D) (hn : n < D) (h : offset n0 D n = i) (hi : i + 1 < D) :
    offset n0 D ((n + 1) % D) = i + 1 := by
  rw [succ_mod_eq n D hn]
  unfold offset at *
  split_ifs at * <;> omega

/-- the state of the trial after `i` iterations of the exponential loop started at `n0`: the `i` positions
`n0, n0+1, ..` (cyclically) carry the mutant, every other position still the parent's value -/
def ExpInv [Inhabited R] (mu : R → Nat → R) (parent : List R) (n0 D : Nat) (i : Nat) (t : List R) : Prop :=
  t.length = D ∧ ∀ j, j < D → t.getD j default =
    if offset n0 D j < i then mu (parent.getD j default) j else parent.getD j default

theorem expLoop_inv [LE R] [DecidableLE R] [Inhabited R] (mu : R → Nat → R) (cr : R) (parent : List R)
    (n0 D : Nat) (h0 : n0 < D) :
    ∀ (us : List R) (n i : Nat) (t : List R) (used : Nat), i ≤ D → n < D → (i < D → offset n0 D n = i) →
      ExpInv mu parent n0 D i t →
      ExpInv mu parent n0 D (i + runLen cr us (D - i)) (expLoop mu cr D us n i t used).1 := by
  intro us
  induction us with
  | nil => intro n i t used _ _ _ hinv; simpa [expLoop, runLen] using hinv
  | cons u us ih =>
    intro n i t used hi hn hoff hinv
    unfold expLoop
    split_ifs with hc
    · -- break
      have : runLen cr (u :: us) (D - i) = 0 := by
        rcases hc with hc | hc
        · cases hD : D - i with
          | zero => simp [runLen]
          | succ c => simp [runLen, hc]
        · subst hc; simp [runLen]
      simpa [this] using hinv
    · have hcr : ¬ cr ≤ u := fun h => hc (Or.inl h)
      have hiD : i < D := by
        have : i ≠ D := fun h => hc (Or.inr h)
        omega
      obtain ⟨c, hcD⟩ : ∃ c, D - i = c + 1 := ⟨D - i - 1, by omega⟩
      have hrun : runLen cr (u :: us) (D - i) = 1 + runLen cr us (D - (i + 1)) := by
        rw [hcD]; simp only [runLen, hcr, if_false]; congr 2; omega
      have hoffn := hoff hiD
      have hlen := hinv.1
      have key : ExpInv mu parent n0 D (i + 1) (t.set n (mu (t.getD n default) n)) := by
        refine ⟨by simp [hlen], ?_⟩
        intro j hj
        rw [getD_set t n j _ (by omega)]
        have htn : t.getD n default = parent.getD n default := by
          rw [hinv.2 n hn, hoffn]; simp
        split_ifs with h1 h2 h3
        · subst h1; rw [htn]
        · subst h1; omega
        · rw [hinv.2 j hj]
          have hne : offset n0 D j ≠ i := fun h => h1 (offset_inj n0 D j n h0 hj hn (h.trans hoffn.symm))
          have : offset n0 D j < i := by omega
          simp [this]
        · rw [hinv.2 j hj]
          have : ¬ offset n0 D j < i := by omega
          simp [this]
      have := ih ((n + 1) % D) (i + 1) _ (used + 1) (by omega) (Nat.mod_lt _ (by omega))
        (fun h => offset_succ n0 D n i h0 hn hoffn h) key
      rw [hrun]
      have e : i + (1 + runLen cr us (D - (i + 1))) = i + 1 + runLen cr us (D - (i + 1)) := by omega
      rw [e]; exact this

theorem runLen_le [LE R] [DecidableLE R] (cr : R) : ∀ (us : List R) (c : Nat), runLen cr us c ≤ c := by
  intro us
  induction us with
  | nil => intro c; simp [runLen]
  | cons u us ih =>
    intro c
    cases c with
    | zero => simp [runLen]
    | succ c =>
      simp only [runLen]
      split_ifs
      · omega
      · have := ih c; omega

/-! ### the binomial loop -/

theorem binLoop_spec [LT R] [DecidableLT R] [Inhabited R] (mu : R → Nat → R) (cr : R) (n : Nat) :
    ∀ (us : List R) (i : Nat) (t : List R), i + us.length ≤ t.length →
      (binLoop mu cr n us i t).length = t.length ∧
      ∀ j, j < t.length → (binLoop mu cr n us i t).getD j default =
        if i ≤ j ∧ j < i + us.length ∧ (j = n ∨ us.getD (j - i) default < cr) then mu (t.getD j default) j
        else t.getD j default := by
  intro us
  induction us with
  | nil =>
    intro i t _
    simp only [binLoop, List.length_nil, Nat.add_zero, true_and]
    intro j _
    have : ¬ (i ≤ j ∧ j < i ∧ (j = n ∨ ([] : List R).getD (j - i) default < cr)) := by omega
    rw [if_neg this]
  | cons u us ih =>
    intro i t hlen
    simp only [List.length_cons] at hlen
    unfold binLoop
    have hl' : ∀ (c : Prop) [Decidable c], (if c then t.set i (mu (t.getD i default) i) else t).length = t.length := by
      intro c _; split_ifs <;> simp
    have := ih (i + 1) (if i = n ∨ u < cr then t.set i (mu (t.getD i default) i) else t) (by rw [hl']; omega)
    rw [hl'] at this
    refine ⟨this.1, ?_⟩
    intro j hj
    rw [this.2 j hj]
    by_cases hji : j = i
    · subst hji
      have h1 : ¬ (j + 1 ≤ j ∧ j < j + 1 + us.length ∧ (j = n ∨ us.getD (j - (j + 1)) default < cr)) := by omega
      rw [if_neg h1]
      simp only [Nat.sub_self, List.getD_cons_zero, List.length_cons]
      split_ifs with h2 h3 h3
      · rw [getD_set t j j _ (by omega)]; simp
      · exfalso; exact h3 ⟨Nat.le_refl _, by omega, h2⟩
      · exfalso; exact h2 h3.2.2
      · rfl
    · have hget : (if i = n ∨ u < cr then t.set i (mu (t.getD i default) i) else t).getD j default = t.getD j default := by
        split_ifs
        · rw [getD_set t i j _ (by omega)]; simp [hji]
        · rfl
      rw [hget]
      by_cases hlt : j < i
      · have h1 : ¬ (i + 1 ≤ j ∧ j < i + 1 + us.length ∧ (j = n ∨ us.getD (j - (i + 1)) default < cr)) := by omega
        have h2 : ¬ (i ≤ j ∧ j < i + (u :: us).length ∧ (j = n ∨ (u :: us).getD (j - i) default < cr)) := by omega
        rw [if_neg h1, if_neg h2]
      · obtain ⟨k, rfl⟩ : ∃ k, j = i + 1 + k := ⟨j - (i + 1), by omega⟩
        have e1 : i + 1 + k - (i + 1) = k := by omega
        have e2 : i + 1 + k - i = k + 1 := by omega
        simp only [e1, e2, List.getD_cons_succ, List.length_cons]
        have : (i + 1 ≤ i + 1 + k ∧ i + 1 + k < i + 1 + us.length ∧ (i + 1 + k = n ∨ us.getD k default < cr)) ↔
               (i ≤ i + 1 + k ∧ i + 1 + k < i + (us.length + 1) ∧ (i + 1 + k = n ∨ us.getD k default < cr)) := by
          constructor
          · rintro ⟨_, b, c⟩; exact ⟨by omega, by omega, c⟩
          · rintro ⟨_, b, c⟩; exact ⟨by omega, by omega, c⟩
        simp only [this]

end MysticVerif.Strategy

/-! ### selection (Model/Solver.lean `DE.select`, `DE.selectAll`) -/
namespace MysticVerif.Solver

variable {X E : Type}

/-- what one `select` does to every slot of the population and of the energies -/
theorem DE.select_slot [LT E] [DecidableLT E] (s : DE X E) (i : Nat) (y : X) (e : E) (j : Nat) :
    ((s.select i y e).pop[j]? = s.pop[j]? ∧ (s.select i y e).popE[j]? = s.popE[j]?) ∨
    (j = i ∧ ∃ ei, s.popE[i]? = some ei ∧ e < ei ∧ (s.select i y e).pop = s.pop.set i y ∧
      (s.select i y e).popE = s.popE.set i e) := by
  unfold DE.select
  split
  · exact Or.inl ⟨rfl, rfl⟩
  · rename_i ei hei
    split_ifs with h1 h2
    · by_cases hj : j = i
      · exact Or.inr ⟨hj, ei, hei, h1, rfl, rfl⟩
      · refine Or.inl ⟨?_, ?_⟩ <;> simp [Ne.symm hj]
    · by_cases hj : j = i
      · exact Or.inr ⟨hj, ei, hei, h1, rfl, rfl⟩
      · refine Or.inl ⟨?_, ?_⟩ <;> simp [Ne.symm hj]
    · exact Or.inl ⟨rfl, rfl⟩

theorem DE.select_lengths [LT E] [DecidableLT E] (s : DE X E) (i : Nat) (y : X) (e : E) :
    (s.select i y e).pop.length = s.pop.length ∧ (s.select i y e).popE.length = s.popE.length := by
  unfold DE.select
  split
  · exact ⟨rfl, rfl⟩
  · split_ifs <;> simp

/-- slots below the running index are not touched by the rest of the generation -/
theorem DE.selectAll_below [LT E] [DecidableLT E] :
    ∀ (ys : List (X × E)) (i0 : Nat) (s : DE X E) (j : Nat), j < i0 →
      (DE.selectAll ys i0 s).pop[j]? = s.pop[j]? ∧ (DE.selectAll ys i0 s).popE[j]? = s.popE[j]? := by
  intro ys
  induction ys with
  | nil => intro i0 s j _; exact ⟨rfl, rfl⟩
  | cons p ys ih =>
    intro i0 s j hj
    obtain ⟨y, e⟩ := p
    simp only [DE.selectAll]
    have h1 := ih (i0 + 1) (s.select i0 y e) j (by omega)
    rcases DE.select_slot s i0 y e j with h | h
    · exact ⟨h1.1.trans h.1, h1.2.trans h.2⟩
    · omega

/-- one generation of selections: a slot either keeps member and energy, or it was its own trial, strictly lower,
that replaced it (member := trial, energy := trial energy) -/
theorem DE.selectAll_slot [LT E] [DecidableLT E] :
    ∀ (ys : List (X × E)) (i0 : Nat) (s : DE X E) (j : Nat), s.pop.length = s.popE.length →
      ((DE.selectAll ys i0 s).pop[j]? = s.pop[j]? ∧ (DE.selectAll ys i0 s).popE[j]? = s.popE[j]?) ∨
      (i0 ≤ j ∧ ∃ y e ej, ys[j - i0]? = some (y, e) ∧ s.popE[j]? = some ej ∧ e < ej ∧
        (DE.selectAll ys i0 s).pop[j]? = some y ∧ (DE.selectAll ys i0 s).popE[j]? = some e) := by
  intro ys
  induction ys with
  | nil => intro i0 s j _; exact Or.inl ⟨rfl, rfl⟩
  | cons p ys ih =>
    intro i0 s j hlen
    obtain ⟨y, e⟩ := p
    simp only [DE.selectAll]
    have hl := DE.select_lengths s i0 y e
    have hlen' : (s.select i0 y e).pop.length = (s.select i0 y e).popE.length := by rw [hl.1, hl.2, hlen]
    by_cases hj : j = i0
    · subst hj
      have hb := DE.selectAll_below ys (j + 1) (s.select j y e) j (by omega)
      rcases DE.select_slot s j y e j with h | ⟨_, ei, hei, hlt, hp, hpe⟩
      · exact Or.inl ⟨hb.1.trans h.1, hb.2.trans h.2⟩
      · have hjl : j < s.popE.length := by
          rcases Nat.lt_or_ge j s.popE.length with h | h
          · exact h
          · rw [List.getElem?_eq_none h] at hei; cases hei
        refine Or.inr ⟨Nat.le_refl _, y, e, ei, by simp, hei, hlt, ?_, ?_⟩
        · rw [hb.1, hp, List.getElem?_set_self (by omega)]
        · rw [hb.2, hpe, List.getElem?_set_self hjl]
    · rcases ih (i0 + 1) (s.select i0 y e) j hlen' with h | ⟨hle, y', e', ej, hy, hej, hlt, hp, hpe⟩
      · rcases DE.select_slot s i0 y e j with h2 | h2
        · exact Or.inl ⟨h.1.trans h2.1, h.2.trans h2.2⟩
        · exact absurd h2.1 hj
      · rcases DE.select_slot s i0 y e j with h2 | h2
        · refine Or.inr ⟨by omega, y', e', ej, ?_, h2.2 ▸ hej, hlt, hp, hpe⟩
          have : j - i0 = (j - (i0 + 1)) + 1 := by omega
          rw [this, List.getElem?_cons_succ]; exact hy
        · exact absurd h2.1 hj

/-- the (constrained trial, energy) list DE2 builds: the energy of each is the decorated objective there -/
theorem DE.evalAll_fst (o : Obj X E) :
    ∀ (ts : List X) (log : List (X × E)), (DE.evalAll o ts log).1 = ts.map (fun t => (o.K t, o.energy (o.K t))) := by
  intro ts
  induction ts with
  | nil => intro log; rfl
  | cons t ts ih => intro log; simp only [DE.evalAll, List.map_cons, ih, objAt_fst]

end MysticVerif.Solver
