/- helper lemmas for Props/C17/Ext (core Lean only) -/
import MysticVerif.Model.CombinatorsX
import MysticVerif.Proofs.Combinators

namespace MysticVerif.CombX
open MysticVerif.Comb (lastAllEq cycHit dropOld dropOldAll Stats LenInv dropOld_length lastAllEq_get)

variable {X D : Type}

/-- `l = x[-1] :: older`, newest first; the entry `l[m]` was appended at global step `s - m`
(the input `x[0]` is step 0); the newest `links` adjacent pairs are genuine member applications. -/
def Linked (c : Nat → X → Out X) (s : Nat) (l : List X) (links : Nat) : Prop :=
  ∀ m, m < links → ∀ a b, l[m]? = some b → l[m + 1]? = some a → c (s - 1 - m) a = .ret b

theorem Linked.zero (c : Nat → X → Out X) (s : Nat) (l : List X) : Linked c s l 0 := by
  intro m hm; omega

theorem applyO_ret {o : Out X} {src last : X} {ye : X × Bool} (h : applyO o src last = some ye)
    (h2 : ye.2 = false) : o = .ret ye.1 := by
  unfold applyO at h
  split at h <;> simp_all
  all_goals (subst h; simp_all)

theorem applyM_ret {o : Out X} {x : X} {ye : X × Bool} (h : applyM o x = some ye)
    (h2 : ye.2 = false) : o = .ret ye.1 := applyO_ret h h2

theorem Linked.push {c : Nat → X → Out X} {s : Nat} {top : X} {h : List X} {links : Nat} {ye : X × Bool}
    (hl : Linked c s (top :: h) links) (hy : applyM (c s top) top = some ye) :
    Linked c (s + 1) (ye.1 :: top :: h) (if ye.2 = true then 0 else links + 1) := by
  split
  · exact Linked.zero _ _ _
  · rename_i he
    have he' : ye.2 = false := by simpa using he
    intro m hm a b hb ha
    cases m with
    | zero =>
      simp at hb ha
      subst hb ha
      simpa using applyM_ret hy he'
    | succ m =>
      simp at hb ha
      have := hl m (by omega) a b hb (by simpa using ha)
      have e : s + 1 - 1 - (m + 1) = s - 1 - m := by omega
      rw [e]; exact this

theorem Linked.take {c : Nat → X → Out X} {s : Nat} {l : List X} {links : Nat} (k : Nat)
    (hl : Linked c s l links) : Linked c s (l.take k) links := by
  intro m hm a b hb ha
  rw [List.getElem?_take] at hb ha
  split at hb
  · split at ha
    · exact hl m hm a b hb ha
    · simp at ha
  · simp at hb

theorem Linked.dropOld_tail {c : Nat → X → Out X} {n s j : Nat} {y : X} {l : List X} {links : Nat}
    (hl : Linked c s (y :: l) links) : Linked c s (y :: dropOld n j l) links := by
  unfold dropOld
  split
  · have := Linked.take (k := (l.length - n) + 1) hl
    simpa [List.take_succ_cons] using this
  · exact hl

/-! ### agreement with `Model/Combinators.lean` (deterministic members that return or raise `ZeroDivisionError`) -/

/-- a member outcome as the old model sees it: everything swallowed is `none` -/
def toOpt : Out X → Option X
  | .ret y => some y
  | _ => none

def liftRes : Comb.Res X → ResX X
  | .success y t l => .success y t l
  | .fail y => .fail y
  | .stuck => .stuck

def liftP (r : Comb.Res X × Stats) : ResX X × Stats := (liftRes r.1, r.2)

/-- forget the step index -/
def ResX.noT : ResX X → ResX X
  | .success y _ l => .success y 0 l
  | r => r

theorem applyM_agree (f : X → Out X) (x : X) (h : f x ≠ .raise) :
    applyM (f x) x = some (Comb.applyM (fun x => toOpt (f x)) x) := by
  unfold applyM applyO Comb.applyM
  cases hf : f x <;> simp_all [toOpt]

theorem applyO_agree (f : X → Out X) (src last : X) (h : f src ≠ .raise) (h2 : f src ≠ .tverr) :
    applyO (f src) src last = some (Comb.applyM (fun x => toOpt (f x)) src) := by
  unfold applyO Comb.applyM
  cases hf : f src <;> simp_all [toOpt]

theorem andFirst_agree (mem : Nat → X → Out X) (hnr : ∀ i x, mem i x ≠ .raise) (n : Nat) :
    ∀ (k i : Nat) (h : List X) (top : X) (e : Bool) (links : Nat),
      andFirst (detc mem n) k i h top e links
        = .ok (Comb.andFirst (fun i x => toOpt (mem i x)) n k i h top e links) := by
  intro k
  induction k with
  | zero => intros; rfl
  | succ k ih =>
    intro i h top e links
    unfold andFirst Comb.andFirst
    simp only [detc, applyM_agree (mem (i % n)) top (hnr (i % n) top)]
    exact ih _ _ _ _ _

theorem andCycle_agree [BEq X] (mem : Nat → X → Out X) (hnr : ∀ i x, mem i x ≠ .raise) (rand : D → X → X)
    (n cap : Nat) :
    ∀ (fuel j : Nat) (h : List X) (top : X) (links : Nat) (draws : List D) (st : Stats),
      andCycle (detc mem n) rand n cap fuel j h top links draws st
        = liftP (Comb.andCycle (fun i x => toOpt (mem i x)) rand n cap fuel j h top links draws st) := by
  intro fuel
  induction fuel with
  | zero => intros; rfl
  | succ fuel ih =>
    intro j h top links draws st
    unfold andCycle Comb.andCycle
    by_cases hc : cap ≤ j
    · rw [if_pos hc, if_pos hc]; rfl
    · rw [if_neg hc, if_neg hc]
      simp only [detc, applyM_agree (mem (j % n)) top (hnr (j % n) top)]
      generalize Comb.applyM (fun x => toOpt (mem (j % n) x)) top = ye
      by_cases h1 : (!ye.2 && lastAllEq (n - 1) (top :: h) ye.1) = true
      · rw [if_pos h1, if_pos h1]; rfl
      · rw [if_neg h1, if_neg h1]
        by_cases h2 : cycHit n (top :: h) ye.1 = true
        · rw [if_pos h2, if_pos h2]
          cases draws with
          | nil => rfl
          | cons d ds => exact ih _ _ _ _ _ _
        · rw [if_neg h2, if_neg h2]; exact ih _ _ _ _ _ _

/-- **agreement (and_)**: on deterministic members that never let an exception propagate, the extended model is
the original one (a swallowed `TypeError`/`ValueError` is handled exactly like a `ZeroDivisionError`) -/
theorem and_agree [BEq X] (mem : Nat → X → Out X) (hnr : ∀ i x, mem i x ≠ .raise) (rand : D → X → X)
    (n cap : Nat) (x : X) (draws : List D) :
    and_ (detc mem n) rand n cap x draws = liftP (Comb.and_ (fun i x => toOpt (mem i x)) rand n cap x draws) := by
  unfold and_ Comb.and_
  by_cases hn : n = 0
  · rw [if_pos hn, if_pos hn]; rfl
  · rw [if_neg hn, if_neg hn]
    simp only [andFirst_agree mem hnr n]
    generalize Comb.andFirst (fun i x => toOpt (mem i x)) n n 0 [] x false 0 = fp
    by_cases h1 : (!fp.2.2.1 && lastAllEq (n - 1) fp.1 fp.2.1) = true
    · rw [if_pos h1, if_pos h1]; rfl
    · rw [if_neg h1, if_neg h1]; exact andCycle_agree mem hnr rand n cap _ _ _ _ _ _ _

def liftFP : Option X × List X × Nat → OrFP X
  | (some y, _, c) => .succ y c
  | (none, h, c) => .cont h c

theorem orFirst_agree [BEq X] (mem : Nat → X → Out X) (hnr : ∀ i x, mem i x ≠ .raise ∧ mem i x ≠ .tverr)
    (n : Nat) (x0 : X) :
    ∀ (k i : Nat) (h : List X) (e : Bool) (calls : Nat), i + k ≤ n →
      orFirst (detc mem n) x0 k i h e calls
        = liftFP (Comb.orFirst (fun i x => toOpt (mem i x)) x0 k i h e calls) := by
  intro k
  induction k with
  | zero => intros; rfl
  | succ k ih =>
    intro i h e calls hik
    unfold orFirst Comb.orFirst
    have him : i % n = i := Nat.mod_eq_of_lt (by omega)
    simp only [detc, him, applyO_agree (mem i) x0 (h.headD x0) (hnr i x0).1 (hnr i x0).2]
    generalize Comb.applyM (fun x => toOpt (mem i x)) x0 = ye
    by_cases h1 : (ye.1 == x0 && !(e || ye.2)) = true
    · rw [if_pos h1, if_pos h1]; rfl
    · rw [if_neg h1, if_neg h1]; exact ih (i + 1) _ _ _ (by omega)

theorem orCycle_agree [BEq X] (mem : Nat → X → Out X) (hnr : ∀ i x, mem i x ≠ .raise ∧ mem i x ≠ .tverr)
    (pick : D → Nat) (n cap : Nat) :
    ∀ (fuel j : Nat) (h : List X) (draws : List D) (st : Stats),
      orCycle (detc mem n) pick n cap fuel j h draws st
        = liftP (Comb.orCycle (fun i x => toOpt (mem i x)) pick n cap fuel j h draws st) := by
  intro fuel
  induction fuel with
  | zero => intro j h draws st; cases h <;> rfl
  | succ fuel ih =>
    intro j h draws st
    cases h with
    | nil => rfl
    | cons top tl =>
      unfold orCycle Comb.orCycle
      simp only
      by_cases hc : cap ≤ j
      · rw [if_pos hc, if_pos hc]; rfl
      · rw [if_neg hc, if_neg hc]
        cases hsrc : (top :: tl)[n - 1]? with
        | none => rfl
        | some src =>
          simp only [detc, applyO_agree (mem (j % n)) src top (hnr (j % n) src).1 (hnr (j % n) src).2]
          generalize Comb.applyM (fun x => toOpt (mem (j % n) x)) src = ye
          by_cases h1 : (ye.1 == src && !ye.2) = true
          · rw [if_pos h1, if_pos h1]; rfl
          · rw [if_neg h1, if_neg h1]
            cases draws with
            | nil => rfl
            | cons d ds =>
              simp only
              cases hr : (ye.1 :: top :: tl)[pick d - 1]? with
              | none => rfl
              | some r => exact ih _ _ _ _

/-- **agreement (or_)**: deterministic members that return or raise `ZeroDivisionError` only -/
theorem or_agree [BEq X] (mem : Nat → X → Out X) (hnr : ∀ i x, mem i x ≠ .raise ∧ mem i x ≠ .tverr)
    (pick : D → Nat) (n cap : Nat) (x : X) (draws : List D) :
    or_ (detc mem n) pick n cap x draws = liftP (Comb.or_ (fun i x => toOpt (mem i x)) pick n cap x draws) := by
  unfold or_ Comb.or_
  rw [orFirst_agree mem hnr n x n 0 [x] false 0 (by omega)]
  generalize Comb.orFirst (fun i x => toOpt (mem i x)) x n 0 [x] false 0 = r
  obtain ⟨o, h, calls⟩ := r
  cases o with
  | some y => rfl
  | none => exact orCycle_agree mem hnr pick n cap _ _ _ _ _

theorem notLoop_agree [BEq X] (mem : X → Out X) (hnr : ∀ x, mem x ≠ .raise) (rand : D → X → X) :
    ∀ (fuel j : Nat) (x : X) (draws : List D) (st : Stats),
      ((notLoop (fun _ => mem) rand fuel j x draws st).1.noT, (notLoop (fun _ => mem) rand fuel j x draws st).2)
        = liftP (Comb.notLoop (fun x => toOpt (mem x)) rand fuel x draws st) := by
  intro fuel
  induction fuel with
  | zero => intros; rfl
  | succ fuel ih =>
    intro j x draws st
    unfold notLoop Comb.notLoop
    have hx := hnr x
    cases hm : mem x with
    | raise => exact absurd hm hx
    | ret y =>
      simp only [notMovedO, Comb.notMoved, toOpt, hm]
      by_cases hy : (y == x) = true
      · simp only [hy, Bool.not_true]
        cases draws with
        | nil => rfl
        | cons d ds => exact ih _ _ _ _
      · have hy' : (y == x) = false := by simpa using hy
        simp only [hy', Bool.not_false]; rfl
    | zdiv =>
      simp only [notMovedO, Comb.notMoved, toOpt, hm]
      cases draws with
      | nil => rfl
      | cons d ds => exact ih _ _ _ _
    | tverr =>
      simp only [notMovedO, Comb.notMoved, toOpt, hm]
      cases draws with
      | nil => rfl
      | cons d ds => exact ih _ _ _ _

/-- **agreement (not_)**, up to the step index the extended model reports with a success -/
theorem not_agree [BEq X] (mem : X → Out X) (hnr : ∀ x, mem x ≠ .raise) (rand : D → X → X)
    (maxiter : Nat) (x : X) (draws : List D) :
    ((not_ (fun _ => mem) rand maxiter x draws).1.noT, (not_ (fun _ => mem) rand maxiter x draws).2)
      = liftP (Comb.not_ (fun x => toOpt (mem x)) rand maxiter x draws) :=
  notLoop_agree mem hnr rand maxiter 0 x draws {}

end MysticVerif.CombX
