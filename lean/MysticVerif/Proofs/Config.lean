/- lemmas for C07 part 1: commutation of independent `Set*` calls (Model/Config.lean) -/
import MysticVerif.Model.Config

namespace MysticVerif.Config

variable {R : Type} [Add R] [Sub R] [Mul R] [Neg R] [OfNat R 0] [OfNat R 1] [BEq R] [LT R] [DecidableLT R]

/-- the state after `a` then `b` -/
def apply2 (u : Nat → R) (s : Cfg R) (a b : Op R) : Cfg R := (apply u (apply u s a).1 b).1

theorem commute_notPowell (u : Nat → R) (s : Cfg R) (a b : Op R) (hk : s.kind ≠ .powell)
    (h : Independent false s.kind a b = true) :
    apply2 u s a b = apply2 u s b a ∧ (apply u (apply u s a).1 b).2 = (apply u s b).2 := by
  cases a <;> cases b <;>
  simp [Independent, writes, reads, fin, finFp, disj] at h <;>
  simp [apply2, apply, Cfg.finalize, Cfg.setGenMon, Cfg.setEvalMon, Cfg.setStrictRanges, Cfg.setLimits,
    Cfg.setRandom, Cfg.setInitial, Cfg.gens, Cfg.pl, hk, h]


end MysticVerif.Config
