/- lemmas for C07 part 1: commutation of independent `Set*` calls (Model/Config.lean) -/
import MysticVerif.Model.Config

namespace MysticVerif.Config

variable {R : Type} [Add R] [Sub R] [Mul R] [Neg R] [OfNat R 0] [OfNat R 1] [BEq R] [LT R] [DecidableLT R]

/-- independence of the method bodies alone (without the trailing `Finalize`) -/
def OwnIndep (a b : Op R) : Bool :=
  disj (writes a) (writes b) && disj (writes a) (reads b) && disj (writes b) (reads a)

/-- (A) method bodies with independent footprints commute, and whether one raises does not depend on the other -/
theorem own_comm (u : Nat → R) (s : Cfg R) (a b : Op R) (h : OwnIndep a b = true) :
    (own u (own u s a).1 b).1 = (own u (own u s b).1 a).1 ∧ (own u (own u s a).1 b).2 = (own u s b).2 := by
  cases a <;> cases b <;>
  first
  | exact ⟨rfl, rfl⟩
  | (exfalso; revert h; simp [OwnIndep, writes, reads, disj]; done)
  | (simp [OwnIndep, writes, reads, disj] at h; subst h; exact ⟨rfl, rfl⟩)

omit [Add R] [Sub R] [Mul R] [Neg R] [OfNat R 0] [OfNat R 1] [BEq R] [LT R] [DecidableLT R] in
theorem disj_symm (a b : List Field) (h : disj a b = true) : disj b a = true := by
  simp only [disj, List.all_eq_true, Bool.not_eq_true', List.contains_eq_mem, decide_eq_false_iff_not] at *
  intro f hf hfa
  exact h f hfa hf

omit [Add R] [Sub R] [Mul R] [Neg R] [OfNat R 0] [OfNat R 1] [BEq R] [LT R] [DecidableLT R] in
theorem ownIndep_symm (a b : Op R) (h : OwnIndep a b = true) : OwnIndep b a = true := by
  simp only [OwnIndep, Bool.and_eq_true] at *
  exact ⟨⟨disj_symm _ _ h.1.1, h.2⟩, h.1.2⟩

/-- (B) `Finalize` commutes with a method body that neither reads nor writes what `Finalize` touches -/
theorem own_finalize (u : Nat → R) (s : Cfg R) (b : Op R)
    (h : disj (finFp s.pl) (writes b ++ reads b) = true) :
    own u s.finalize b = ((own u s b).1.finalize, (own u s b).2) := by
  unfold Cfg.finalize
  cases hpl : s.pl <;> rw [hpl] at h <;> cases b <;>
  first
  | (exfalso; revert h; simp [finFp, writes, reads, disj]; done)
  | (show own u (Cfg.finalizeWith _ s) _ = (Cfg.finalizeWith s.pl (own u s _).1, _)
     rw [hpl]; rfl)
  | (simp [finFp, writes, reads, disj] at h; subst h
     show own u (Cfg.finalizeWith _ s) _ = (Cfg.finalizeWith s.pl (own u s _).1, _)
     rw [hpl]; rfl)

omit [Add R] [Sub R] [Mul R] [Neg R] [OfNat R 0] [OfNat R 1] [BEq R] [LT R] [DecidableLT R] in
/-- (C) `Finalize` is idempotent -/
theorem finalize_idem (s : Cfg R) : s.finalize.finalize = s.finalize := by
  have h : s.finalize.pl = false := by simp [Cfg.pl, Cfg.finalize, Cfg.finalizeWith]
  show Cfg.finalizeWith s.finalize.pl s.finalize = s.finalize
  rw [h]
  rfl

omit [Add R] [Sub R] [Mul R] [Neg R] [OfNat R 0] [OfNat R 1] [BEq R] [LT R] [DecidableLT R] in
theorem finalize_kind (s : Cfg R) : s.finalize.kind = s.kind := rfl

/-- (D) no `Set*` changes the class of the solver, or makes a solver live -/
theorem own_kind (u : Nat → R) (s : Cfg R) (a : Op R) : (own u s a).1.kind = s.kind := by
  cases a <;> rfl

theorem own_pl (u : Nat → R) (s : Cfg R) (a : Op R) (h : (own u s a).1.pl = true) : s.pl = true := by
  cases a
  case setObjective c =>
    simp only [own, Cfg.pl, Bool.and_eq_true, decide_eq_true_eq] at h ⊢
    split at h
    · exact ⟨of_decide_eq_true h.1, h.2⟩
    · simp at h
  all_goals exact h

omit [Add R] [Sub R] [Mul R] [Neg R] [OfNat R 0] [OfNat R 1] [BEq R] [LT R] [DecidableLT R] in
theorem finFp_mono (pl : Bool) (x : List Field) (h : disj (finFp true) x = true) : disj (finFp pl) x = true := by
  cases pl
  · simp only [disj, finFp, List.all_eq_true] at *
    intro f hf
    apply h
    simp at hf ⊢
    left; exact hf
  · exact h

/-! ### assembling: `apply` = stub test, method body, optional `Finalize` -/

theorem apply_eq (u : Nat → R) (t : Cfg R) (k : Kind) (hk : t.kind = k) (op : Op R) :
    apply u t op = if blocked k op = true then (t, true)
      else if (fin k op && !(own u t op).2) = true then ((own u t op).1.finalize, (own u t op).2)
      else own u t op := by
  subst hk; rfl

theorem apply_kind (u : Nat → R) (s : Cfg R) (op : Op R) : (apply u s op).1.kind = s.kind := by
  unfold apply
  split
  · rfl
  · split
    · exact own_kind u s op
    · exact own_kind u s op

theorem apply_pl (u : Nat → R) (s : Cfg R) (op : Op R) (h : (apply u s op).1.pl = true) : s.pl = true := by
  unfold apply at h
  split at h
  · exact h
  · split at h
    · simp [Cfg.pl, Cfg.finalize, Cfg.finalizeWith] at h
    · exact own_pl u s op h

omit [Add R] [Sub R] [Mul R] [Neg R] [OfNat R 0] [OfNat R 1] [BEq R] [LT R] [DecidableLT R] in
theorem independent_symm (pl : Bool) (k : Kind) (a b : Op R) (h : Independent pl k a b = true) :
    Independent pl k b a = true := by
  simp only [Independent, Bool.and_eq_true] at *
  obtain ⟨⟨⟨⟨h1, h2⟩, h3⟩, h4⟩, h5⟩ := h
  exact ⟨⟨⟨⟨disj_symm _ _ h1, h3⟩, h2⟩, h5⟩, h4⟩

omit [Add R] [Sub R] [Mul R] [Neg R] [OfNat R 0] [OfNat R 1] [BEq R] [LT R] [DecidableLT R] in
theorem independent_mono (pl : Bool) (k : Kind) (a b : Op R) (h : Independent true k a b = true) :
    Independent pl k a b = true := by
  simp only [Independent, Bool.and_eq_true] at *
  obtain ⟨⟨⟨⟨h1, h2⟩, h3⟩, h4⟩, h5⟩ := h
  refine ⟨⟨⟨⟨h1, h2⟩, h3⟩, ?_⟩, ?_⟩
  · split
    · rename_i hf; rw [if_pos hf] at h4; exact finFp_mono pl _ h4
    · rfl
  · split
    · rename_i hf; rw [if_pos hf] at h5; exact finFp_mono pl _ h5
    · rfl

/-- the footprint hypothesis about `Finalize`, transported to the state after another method body -/
theorem finFp_after (u : Nat → R) (s : Cfg R) (a : Op R) (x : List Field)
    (h : disj (finFp s.pl) x = true) : disj (finFp (own u s a).1.pl) x = true := by
  cases hp : (own u s a).1.pl
  · cases hs : s.pl
    · rw [hs] at h; exact h
    · rw [hs] at h; exact finFp_mono false _ h
  · have := own_pl u s a hp
    rw [this] at h; exact h

/-- what a second call does after a first one, in terms of the method bodies -/
theorem apply_after (u : Nat → R) (s : Cfg R) (a b : Op R)
    (hown : OwnIndep a b = true)
    (hfa : fin s.kind a = true → disj (finFp s.pl) (writes b ++ reads b) = true)
    (hba : blocked s.kind a = false) (hbb : blocked s.kind b = false) :
    (apply u (apply u s a).1 b).2 = (own u s b).2 ∧
    (apply u (apply u s a).1 b).1 =
      (if (fin s.kind a && !(own u s a).2) = true ∨ (fin s.kind b && !(own u s b).2) = true
       then (own u (own u s a).1 b).1.finalize else (own u (own u s a).1 b).1) := by
  obtain ⟨_, c2⟩ := own_comm u s a b hown
  have nb : ¬ (blocked s.kind b = true) := by simp [hbb]
  have na : ¬ (blocked s.kind a = true) := by simp [hba]
  cases hfa' : (fin s.kind a && !(own u s a).2)
  · -- `a` does not finalise
    have ea : apply u s a = own u s a := by
      rw [apply_eq u s s.kind rfl a, if_neg na, if_neg (by simp [hfa'])]
    rw [ea, apply_eq u (own u s a).1 s.kind (own_kind u s a) b, if_neg nb, c2]
    cases hfb' : (fin s.kind b && !(own u s b).2)
    · simp [c2]
    · simp
  · -- `a` finalises
    have hf : fin s.kind a = true := by
      cases h : fin s.kind a
      · simp [h] at hfa'
      · rfl
    have ea : apply u s a = ((own u s a).1.finalize, (own u s a).2) := by
      rw [apply_eq u s s.kind rfl a, if_neg na, if_pos hfa']
    have hB := own_finalize u (own u s a).1 b (finFp_after u s a _ (hfa hf))
    rw [ea, apply_eq u (own u s a).1.finalize s.kind (own_kind u s a) b, if_neg nb, hB]
    simp only [c2]
    cases hfb' : (fin s.kind b && !(own u s b).2)
    · simp
    · simp [finalize_idem]

/-- **two independent `Set*` calls commute**; whether one of them raises does not depend on the other -/
theorem apply_comm (u : Nat → R) (s : Cfg R) (a b : Op R) (h : Independent s.pl s.kind a b = true) :
    (apply u (apply u s a).1 b).1 = (apply u (apply u s b).1 a).1 ∧
    (apply u (apply u s a).1 b).2 = (apply u s b).2 ∧ (apply u (apply u s b).1 a).2 = (apply u s a).2 := by
  have h' := h
  simp only [Independent, Bool.and_eq_true] at h'
  obtain ⟨⟨⟨⟨h1, h2⟩, h3⟩, h4⟩, h5⟩ := h'
  have hown : OwnIndep a b = true := by simp [OwnIndep, h1, h2, h3]
  have hown' := ownIndep_symm _ _ hown
  have h4' : fin s.kind a = true → disj (finFp s.pl) (writes b ++ reads b) = true := by
    intro hf; rw [if_pos hf] at h4; exact h4
  have h5' : fin s.kind b = true → disj (finFp s.pl) (writes a ++ reads a) = true := by
    intro hf; rw [if_pos hf] at h5; exact h5
  cases hba : blocked s.kind a
  case true =>
    -- `a` is a "must be overwritten" stub
    have e1 : apply u s a = (s, true) := by rw [apply_eq u s s.kind rfl a, if_pos hba]
    have e2 : apply u (apply u s b).1 a = ((apply u s b).1, true) := by
      rw [apply_eq u _ s.kind (apply_kind u s b) a, if_pos hba]
    rw [e1, e2]
    exact ⟨rfl, rfl, rfl⟩
  case false =>
    cases hbb : blocked s.kind b
    case true =>
      have e1 : apply u s b = (s, true) := by rw [apply_eq u s s.kind rfl b, if_pos hbb]
      have e2 : apply u (apply u s a).1 b = ((apply u s a).1, true) := by
        rw [apply_eq u _ s.kind (apply_kind u s a) b, if_pos hbb]
      rw [e1, e2]
      exact ⟨rfl, rfl, rfl⟩
    case false =>
      obtain ⟨f1, s1⟩ := apply_after u s a b hown h4' hba hbb
      obtain ⟨f2, s2⟩ := apply_after u s b a hown' h5' hbb hba
      obtain ⟨c1, _⟩ := own_comm u s a b hown
      have g : ∀ op : Op R, blocked s.kind op = false → (apply u s op).2 = (own u s op).2 := by
        intro op hb
        rw [apply_eq u s s.kind rfl op, if_neg (by simp [hb])]
        split <;> rfl
      refine ⟨?_, by rw [f1, g b hbb], by rw [f2, g a hba]⟩
      rw [s1, s2, c1]
      simp only [or_comm]

/-! ### permutations of a configuration phase -/

/-- the states reachable from a solver of kind `k` whose "live Powell" flag was `pl` at the start:
    the kind never changes and no `Set*` makes a solver live -/
def Below (pl : Bool) (k : Kind) (t : Cfg R) : Prop := t.kind = k ∧ (t.pl = true → pl = true)

theorem below_apply (u : Nat → R) (pl : Bool) (k : Kind) (t : Cfg R) (op : Op R) (h : Below pl k t) :
    Below pl k (apply u t op).1 :=
  ⟨by rw [apply_kind]; exact h.1, fun hp => h.2 (apply_pl u t op hp)⟩

omit [Add R] [Sub R] [Mul R] [Neg R] [OfNat R 0] [OfNat R 1] [BEq R] [LT R] [DecidableLT R] in
theorem independent_below (pl : Bool) (k : Kind) (t : Cfg R) (a b : Op R) (h : Below pl k t)
    (hi : Independent pl k a b = true) : Independent t.pl t.kind a b = true := by
  rw [h.1]
  cases hp : t.pl
  · cases pl
    · exact hi
    · exact independent_mono false k a b hi
  · rw [h.2 hp] at hi; exact hi

theorem cfgAfter_perm (u : Nat → R) (pl : Bool) (k : Kind) {l l' : List (Op R)} (hp : l.Perm l') :
    ∀ t : Cfg R, Below pl k t → l.Pairwise (fun a b => Independent pl k a b = true) →
      cfgAfter u t l = cfgAfter u t l' := by
  induction hp with
  | nil => intro t _ _; rfl
  | cons x _ ih =>
    intro t ht hpw
    rw [List.pairwise_cons] at hpw
    exact ih _ (below_apply u pl k t x ht) hpw.2
  | swap x y l =>
    intro t ht hpw
    rw [List.pairwise_cons] at hpw
    have hyx : Independent pl k y x = true := hpw.1 x (by simp)
    have := (apply_comm u t y x (independent_below pl k t y x ht hyx)).1
    show cfgAfter u (apply u (apply u t y).1 x).1 l = cfgAfter u (apply u (apply u t x).1 y).1 l
    rw [this]
  | trans h1 _ ih1 ih2 =>
    intro t ht hpw
    rw [ih1 t ht hpw]
    exact ih2 t ht ((h1.pairwise_iff (fun h => independent_symm pl k _ _ h)).mp hpw)

/-- whether a call raises does not depend on the independent calls made before it -/
theorem flag_after_prefix (u : Nat → R) (pl : Bool) (k : Kind) (b : Op R) :
    ∀ (pre : List (Op R)) (t : Cfg R), Below pl k t → (∀ a ∈ pre, Independent pl k a b = true) →
      (apply u (cfgAfter u t pre) b).2 = (apply u t b).2 := by
  intro pre
  induction pre with
  | nil => intro t _ _; rfl
  | cons a pre ih =>
    intro t ht hall
    show (apply u (cfgAfter u (apply u t a).1 pre) b).2 = (apply u t b).2
    rw [ih _ (below_apply u pl k t a ht) (fun a' ha' => hall a' (by simp [ha']))]
    exact (apply_comm u t a b (independent_below pl k t a b ht (hall a (by simp)))).2.1

theorem raisedAfter_eq (u : Nat → R) (pl : Bool) (k : Kind) :
    ∀ (l : List (Op R)) (t : Cfg R), Below pl k t → l.Pairwise (fun a b => Independent pl k a b = true) →
      ∀ (pre : List (Op R)), (∀ a ∈ pre, ∀ b ∈ l, Independent pl k a b = true) → ∀ t0 : Cfg R, Below pl k t0 →
        t = cfgAfter u t0 pre → raisedAfter u t l = l.map (fun op => (apply u t0 op).2) := by
  intro l
  induction l with
  | nil => intro _ _ _ _ _ _ _ _; rfl
  | cons b l ih =>
    intro t ht hpw pre hpre t0 ht0 het
    rw [List.pairwise_cons] at hpw
    show (apply u t b).2 :: raisedAfter u (apply u t b).1 l = (apply u t0 b).2 :: l.map _
    congr 1
    · rw [het]; exact flag_after_prefix u pl k b pre t0 ht0 (fun a ha => hpre a ha b (by simp))
    · apply ih _ (below_apply u pl k t b ht) hpw.2 (pre ++ [b]) _ t0 ht0
      · rw [het]; simp [cfgAfter]
      · intro a ha c hc
        rcases List.mem_append.mp ha with ha | ha
        · exact hpre a ha c (by simp [hc])
        · simp only [List.mem_singleton] at ha
          subst ha
          exact hpw.1 c hc

/-- a call that is not a random-number consumer leaves the population and the random stream alone -/
theorem apply_pop (u : Nat → R) (s : Cfg R) (op : Op R) (h : consumesRng op = false) :
    (apply u s op).1.pop = s.pop := by
  have ho : (own u s op).1.pop = s.pop := by
    cases op <;> first | rfl | (simp [consumesRng] at h)
  unfold apply
  split
  · rfl
  · split
    · exact ho
    · exact ho

theorem cfgAfter_pop (u : Nat → R) : ∀ (l : List (Op R)) (s : Cfg R), (∀ op ∈ l, consumesRng op = false) →
    (cfgAfter u s l).pop = s.pop := by
  intro l
  induction l with
  | nil => intro s _; rfl
  | cons a l ih =>
    intro s h
    show (cfgAfter u (apply u s a).1 l).pop = s.pop
    rw [ih _ (fun op hop => h op (by simp [hop])), apply_pop u s a (h a (by simp))]

/-! ### a `Set*` never decorates: the decoration is deferred to the next `Step` -/

theorem own_ndec (u : Nat → R) (s : Cfg R) (a : Op R) : (own u s a).1.ndec = s.ndec := by
  cases a <;> rfl

theorem apply_ndec (u : Nat → R) (s : Cfg R) (op : Op R) : (apply u s op).1.ndec = s.ndec := by
  unfold apply
  split
  · rfl
  · split
    · exact own_ndec u s op
    · exact own_ndec u s op

theorem cfgAfter_ndec (u : Nat → R) : ∀ (l : List (Op R)) (s : Cfg R), (cfgAfter u s l).ndec = s.ndec := by
  intro l
  induction l with
  | nil => intro s; rfl
  | cons a l ih =>
    intro s
    show (cfgAfter u (apply u s a).1 l).ndec = s.ndec
    rw [ih, apply_ndec]

theorem cfgAfter_kind (u : Nat → R) : ∀ (l : List (Op R)) (s : Cfg R), (cfgAfter u s l).kind = s.kind := by
  intro l
  induction l with
  | nil => intro s; rfl
  | cons a l ih =>
    intro s
    show (cfgAfter u (apply u s a).1 l).kind = s.kind
    rw [ih, apply_kind]

/-- no `Set*` makes a solver live -/
theorem own_live (u : Nat → R) (s : Cfg R) (a : Op R) (h : (own u s a).1.live = true) : s.live = true := by
  cases a
  case setObjective c =>
    simp only [own] at h
    split at h
    · exact h
    · cases h
  all_goals exact h

theorem apply_live (u : Nat → R) (s : Cfg R) (op : Op R) (h : (apply u s op).1.live = true) : s.live = true := by
  unfold apply at h
  split at h
  · exact h
  · split at h
    · simp [Cfg.finalize, Cfg.finalizeWith] at h
    · exact own_live u s op h

theorem cfgAfter_live (u : Nat → R) : ∀ (l : List (Op R)) (s : Cfg R), (cfgAfter u s l).live = true → s.live = true := by
  intro l
  induction l with
  | nil => intro s h; exact h
  | cons a l ih =>
    intro s h
    exact apply_live u s a (ih _ h)

/-- a finalising `Set*` that does not raise leaves the solver not live: the next `Step` has to re-decorate -/
theorem apply_fin_live (u : Nat → R) (s : Cfg R) (op : Op R) (hb : blocked s.kind op = false)
    (hf : fin s.kind op = true) (hr : (apply u s op).2 = false) : (apply u s op).1.live = false := by
  unfold apply at hr ⊢
  rw [if_neg (by simp [hb])] at hr ⊢
  by_cases h : (fin s.kind op && !(own u s op).2) = true
  · rw [if_pos h]; rfl
  · rw [if_neg h] at hr
    simp [hf, hr] at h

theorem bootstrap_ndec (u : Nat → R) (s : Cfg R) (c : Nat) :
    (bootstrap u s c).ndec = s.ndec + (if (decide (s.cost.raw = some c) && s.live) = true then 0 else 1) := by
  unfold bootstrap
  split
  · rfl
  · show (own u s (.setObjective c)).1.ndec + 1 = s.ndec + 1
    rw [own_ndec]

end MysticVerif.Config
