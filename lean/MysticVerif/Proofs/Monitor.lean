/- helper lemmas for Props/C20 (core Lean only) -/
import MysticVerif.Model.Monitor

namespace MysticVerif.Mon

variable {R : Type} {α : Type}

/-! ### PV.map -/

theorem PV.map_map (f g : R → R) (y : PV R) : (y.map f).map g = y.map (fun v => g (f v)) := by
  cases y <;> simp [PV.map, Function.comp_def]

theorem PV.map_id' (f : R → R) (hf : ∀ v, f v = v) (y : PV R) : y.map f = y := by
  have : f = fun v => v := funext hf
  subst this
  cases y <;> simp [PV.map]

/-! ### records -/

/-- one call of the monitor -/
structure Call (R : Type) where
  x : PV R
  y : PV R
  id : Option Int

/-- `for c in calls: m(c.x, c.y, c.id)` -/
def Mon.calls [Mul R] (m : Mon R) (cs : List (Call R)) : Mon R := cs.foldl (fun m c => m.call c.x c.y c.id) m

/-- the three lists have one length -/
def Mon.WF (m : Mon R) : Prop := m.y.length = m.x.length ∧ m.id.length = m.x.length

theorem calls_x [Mul R] (cs : List (Call R)) : ∀ (m : Mon R), (m.calls cs).x = m.x ++ cs.map (·.x) := by
  induction cs with
  | nil => intro m; simp [Mon.calls]
  | cons c cs ih => intro m; simp only [Mon.calls, List.foldl_cons] at ih ⊢; rw [ih]; simp [Mon.call]

theorem calls_id [Mul R] (cs : List (Call R)) : ∀ (m : Mon R), (m.calls cs).id = m.id ++ cs.map (·.id) := by
  induction cs with
  | nil => intro m; simp [Mon.calls]
  | cons c cs ih => intro m; simp only [Mon.calls, List.foldl_cons] at ih ⊢; rw [ih]; simp [Mon.call]

theorem calls_k [Mul R] (cs : List (Call R)) : ∀ (m : Mon R), (m.calls cs).k = m.k := by
  induction cs with
  | nil => intro m; simp [Mon.calls]
  | cons c cs ih => intro m; simp only [Mon.calls, List.foldl_cons] at ih ⊢; rw [ih]; simp [Mon.call]

theorem calls_y [Mul R] (cs : List (Call R)) :
    ∀ (m : Mon R), (m.calls cs).y = m.y ++ cs.map (fun c => cmul m.k c.y) := by
  induction cs with
  | nil => intro m; simp [Mon.calls]
  | cons c cs ih => intro m; simp only [Mon.calls, List.foldl_cons] at ih ⊢; rw [ih]; simp [Mon.call]

/-! ### python indices and slices -/

theorem pyIdx_lt {n : Nat} {i : Int} {j : Nat} (h : pyIdx n i = some j) : j < n := by
  unfold pyIdx at h
  split at h
  · split at h
    · simp at h; omega
    · simp at h
  · split at h
    · simp at h; omega
    · simp at h

theorem adjBound_range (n : Nat) (step v : Int) :
    (if step < 0 then (-1 : Int) else 0) ≤ adjBound n step v ∧
    adjBound n step v ≤ (if step < 0 then (n : Int) - 1 else (n : Int)) := by
  unfold adjBound
  simp only
  split <;> split <;> split <;> omega

theorem sliceStart_range (n : Nat) (s : Option Int) (step : Int) :
    (if step < 0 then (-1 : Int) else 0) ≤ sliceStart n s step ∧
    sliceStart n s step ≤ (if step < 0 then (n : Int) - 1 else (n : Int)) := by
  unfold sliceStart
  cases s with
  | none => simp only; split <;> omega
  | some v => exact adjBound_range n step v

theorem sliceStop_range (n : Nat) (s : Option Int) (step : Int) :
    (if step < 0 then (-1 : Int) else 0) ≤ sliceStop n s step ∧
    sliceStop n s step ≤ (if step < 0 then (n : Int) - 1 else (n : Int)) := by
  unfold sliceStop
  cases s with
  | none => simp only; split <;> omega
  | some v => exact adjBound_range n step v

theorem rangeUp_lt (n : Nat) (e step : Int) (hstep : 0 < step) (he : e ≤ n) :
    ∀ (fuel : Nat) (s : Int), 0 ≤ s → ∀ j ∈ rangeUp e step fuel s, j < n := by
  intro fuel
  induction fuel with
  | zero => intro s _ j hj; simp [rangeUp] at hj
  | succ fuel ih =>
    intro s hs j hj
    unfold rangeUp at hj
    split at hj
    · simp only [List.mem_cons] at hj
      rcases hj with rfl | hj
      · omega
      · exact ih (s + step) (by omega) j hj
    · simp at hj

theorem rangeDown_lt (n : Nat) (e step : Int) (hstep : step < 0) (he : -1 ≤ e) :
    ∀ (fuel : Nat) (s : Int), s ≤ (n : Int) - 1 → ∀ j ∈ rangeDown e step fuel s, j < n := by
  intro fuel
  induction fuel with
  | zero => intro s _ j hj; simp [rangeDown] at hj
  | succ fuel ih =>
    intro s hs j hj
    unfold rangeDown at hj
    split at hj
    · simp only [List.mem_cons] at hj
      rcases hj with rfl | hj
      · omega
      · exact ih (s + step) (by omega) j hj
    · simp at hj

/-- `range(a, b, 1)` -/
theorem rangeUp_one : ∀ (fuel a b : Nat), b - a ≤ fuel →
    rangeUp (b : Int) 1 fuel (a : Int) = List.range' a (b - a) := by
  intro fuel
  induction fuel with
  | zero => intro a b h; have : b - a = 0 := by omega
            simp [rangeUp, this]
  | succ fuel ih =>
    intro a b h
    unfold rangeUp
    split
    · rename_i hlt
      have hab : a < b := by omega
      have e : b - a = (b - (a + 1)) + 1 := by omega
      rw [e, List.range'_succ]
      have := ih (a + 1) b (by omega)
      have e2 : ((a + 1 : Nat) : Int) = (a : Int) + 1 := by omega
      rw [e2] at this
      rw [this]
      simp
    · rename_i hlt
      have : b - a = 0 := by omega
      simp [this]

theorem gather_range' (l : List α) : ∀ (c a : Nat), a + c ≤ l.length →
    gather l (List.range' a c) = (l.drop a).take c := by
  intro c
  induction c with
  | zero => intro a _; simp [gather]
  | succ c ih =>
    intro a h
    have ha : a < l.length := by omega
    rw [List.range'_succ, List.drop_eq_getElem_cons ha, List.take_succ_cons]
    have := ih (a + 1) (by omega)
    unfold gather at this ⊢
    rw [List.filterMap_cons, List.getElem?_eq_getElem ha]
    simp only
    rw [this]

/-! ### prepend -/

theorem insertAt_append (p l : List α) (v : α) : insertAt (p ++ l) p.length v = p ++ v :: l := by
  induction p with
  | nil => cases l <;> simp [insertAt]
  | cons h t ih => simp [insertAt, ih]

theorem insertAll_append (items : List α) : ∀ (p l : List α),
    insertAll (p ++ l) p.length items = p ++ items ++ l := by
  induction items with
  | nil => intro p l; simp [insertAll]
  | cons v vs ih =>
    intro p l
    unfold insertAll
    rw [insertAt_append]
    have := ih (p ++ [v]) l
    simp only [List.length_append, List.length_cons, List.length_nil, List.append_assoc,
      List.cons_append, List.nil_append] at this
    rw [this]
    simp

theorem insertAll_zero (items l : List α) : insertAll l 0 items = items ++ l := by
  have := insertAll_append items [] l
  simpa using this

/-! ### the log line -/

/-- the text of the current piece, pending spaces included -/
def cur (nsp : Nat) (acc : List Char) : List Char := (List.replicate nsp sp ++ acc).reverse

theorem splitGo_scan (rest : List Char) : ∀ (s : List Char) (nsp : Nat) (acc : List Char) (k : Nat),
    scan nsp s = some k →
    ∃ acc', splitGo nsp acc (s ++ rest) = splitGo k acc' rest ∧ cur k acc' = cur nsp acc ++ s := by
  intro s
  induction s with
  | nil =>
    intro nsp acc k h
    simp only [scan, Option.some.injEq] at h
    subst h
    exact ⟨acc, by simp, by simp⟩
  | cons c t ih =>
    intro nsp acc k h
    unfold scan at h
    by_cases hc : c = sp
    · rw [if_pos hc] at h
      by_cases h2 : nsp = 2
      · rw [if_pos h2] at h; simp at h
      · rw [if_neg h2] at h
        obtain ⟨acc', h1, h3⟩ := ih (nsp + 1) acc k h
        refine ⟨acc', ?_, ?_⟩
        · rw [List.cons_append, splitGo, if_pos hc, if_neg h2]; exact h1
        · rw [h3, hc]
          simp [cur, List.replicate_succ]
    · rw [if_neg hc] at h
      obtain ⟨acc', h1, h3⟩ := ih 0 (c :: (List.replicate nsp sp ++ acc)) k h
      refine ⟨acc', ?_, ?_⟩
      · rw [List.cons_append, splitGo, if_neg hc]; exact h1
      · rw [h3]
        simp [cur]

/-! ### `split3` against the meaning of `str.split` -/

theorem splitGo_ne_nil : ∀ (s : List Char) (nsp : Nat) (acc : List Char), splitGo nsp acc s ≠ [] := by
  intro s
  induction s with
  | nil => intro nsp acc; simp [splitGo]
  | cons c t ih =>
    intro nsp acc
    unfold splitGo
    split
    · split
      · simp
      · exact ih _ _
    · exact ih _ _

theorem intercalate_cons_of_ne_nil {α : Type} (sep a : List α) (l : List (List α)) (h : l ≠ []) :
    List.intercalate sep (a :: l) = a ++ sep ++ List.intercalate sep l := by
  cases l with
  | nil => exact absurd rfl h
  | cons b t => simp [List.intercalate]

theorem splitGo_join : ∀ (s : List Char) (nsp : Nat) (acc : List Char), nsp ≤ 2 →
    List.intercalate [sp, sp, sp] (splitGo nsp acc s) = cur nsp acc ++ s := by
  intro s
  induction s with
  | nil => intro nsp acc _; simp [splitGo, cur, List.intercalate]
  | cons c t ih =>
    intro nsp acc hn
    unfold splitGo
    by_cases hc : c = sp
    · rw [if_pos hc]
      by_cases h2 : nsp = 2
      · rw [if_pos h2, intercalate_cons_of_ne_nil _ _ _ (splitGo_ne_nil _ _ _), ih 0 [] (by omega)]
        subst h2
        simp [cur, List.replicate, hc]
      · rw [if_neg h2, ih (nsp + 1) acc (by omega)]
        simp [cur, List.replicate_succ, hc]
    · rw [if_neg hc, ih 0 _ (by omega)]
      simp [cur]


theorem scan_append : ∀ (a b : List Char) (n : Nat), scan n (a ++ b) = (scan n a).bind (fun k => scan k b) := by
  intro a
  induction a with
  | nil => intro b n; simp [scan]
  | cons c t ih =>
    intro b n
    simp only [List.cons_append, scan]
    split
    · split
      · simp
      · exact ih b _
    · exact ih b _

theorem splitGo_pieces : ∀ (s : List Char) (nsp : Nat) (acc : List Char), scan 0 (cur nsp acc) = some nsp →
    ∀ p ∈ splitGo nsp acc s, tailOK p = true := by
  intro s
  induction s with
  | nil =>
    intro nsp acc h p hp
    simp only [splitGo, List.mem_singleton] at hp
    subst hp
    simp only [tailOK]; simp only [cur] at h; rw [h]; rfl
  | cons c t ih =>
    intro nsp acc h p hp
    unfold splitGo at hp
    by_cases hc : c = sp
    · rw [if_pos hc] at hp
      by_cases h2 : nsp = 2
      · rw [if_pos h2] at hp
        simp only [List.mem_cons] at hp
        rcases hp with rfl | hp
        · subst h2
          have e : cur 2 acc = acc.reverse ++ [sp, sp] := by simp [cur, List.replicate]
          rw [e, scan_append] at h
          simp only [tailOK]
          cases hs : scan 0 acc.reverse with
          | none => rw [hs] at h; simp at h
          | some k => rfl
        · exact ih 0 [] (by simp [cur, scan]) p hp
      · rw [if_neg h2] at hp
        refine ih (nsp + 1) acc ?_ p hp
        have e : cur (nsp + 1) acc = cur nsp acc ++ [sp] := by simp [cur, List.replicate_succ]
        rw [e, scan_append, h]
        simp [scan, h2]
    · rw [if_neg hc] at hp
      refine ih 0 _ ?_ p hp
      have e : cur 0 (c :: (List.replicate nsp sp ++ acc)) = cur nsp acc ++ [c] := by simp [cur]
      rw [e, scan_append, h]
      simp [scan, hc]

/-! ### transposition (`zip(*rows)`) -/

/-- every row has length `c` -/
def Rect (M : List (List α)) (c : Nat) : Prop := ∀ r ∈ M, r.length = c

theorem heads?_drop (d : α) (j : Nat) : ∀ (M : List (List α)), (∀ r ∈ M, j < r.length) →
    heads? (M.map (·.drop j)) = some (M.map (·.getD j d)) := by
  intro M
  induction M with
  | nil => intro _; simp [heads?]
  | cons r rs ih =>
    intro h
    have hr : j < r.length := h r (by simp)
    have := ih (fun q hq => h q (by simp [hq]))
    simp only [List.map_cons]
    rw [List.drop_eq_getElem_cons hr, heads?, this]
    simp [List.getD_eq_getElem?_getD, List.getElem?_eq_getElem hr]

theorem zipStarGo_drop (d : α) (c : Nat) (M : List (List α)) (hM : Rect M c) :
    ∀ (f j : Nat), j + f ≤ c →
      zipStarGo f (M.map (·.drop j)) = (List.range' j f).map (fun j => M.map (·.getD j d)) := by
  intro f
  induction f with
  | zero => intro j _; simp [zipStarGo]
  | succ f ih =>
    intro j hj
    unfold zipStarGo
    rw [heads?_drop d j M (fun r hr => by have := hM r hr; omega)]
    simp only [List.map_map]
    have e : (List.tail ∘ fun x : List α => List.drop j x) = fun x => List.drop (j + 1) x := by
      funext x; simp [List.tail_drop]
    rw [e, ih (j + 1) (by omega), List.range'_succ]
    simp

/-- on a rectangular non-empty matrix `zip(*M)` is the index transpose -/
theorem zipStar_rect (d : α) (c : Nat) (M : List (List α)) (hM : Rect M c) (hne : M ≠ []) :
    zipStar M = (List.range c).map (fun j => M.map (·.getD j d)) := by
  cases M with
  | nil => exact absurd rfl hne
  | cons r rs =>
    have hr : r.length = c := hM r (by simp)
    unfold zipStar
    simp only
    have := zipStarGo_drop d c (r :: rs) hM c 0 (by omega)
    simp only [List.drop_zero, List.map_id'] at this
    rw [hr, this, List.range_eq_range']

theorem zipStar_zipStar (d : α) (c : Nat) (M : List (List α)) (hM : Rect M c) (hne : M ≠ []) (hc : 0 < c) :
    zipStar (zipStar M) = M := by
  have h1 := zipStar_rect d c M hM hne
  have hT : Rect (zipStar M) M.length := by
    intro r hr
    rw [h1] at hr
    simp only [List.mem_map, List.mem_range] at hr
    obtain ⟨j, _, rfl⟩ := hr
    simp
  have hTne : zipStar M ≠ [] := by
    rw [h1]
    intro h
    have := congrArg List.length h
    simp at this
    omega
  rw [zipStar_rect d M.length (zipStar M) hT hTne, h1]
  apply List.ext_getElem
  · simp
  · intro i h1' h2'
    simp only [List.getElem_map, List.getElem_range, List.map_map]
    have hi : i < M.length := by simpa using h1'
    have hrow : (M[i]).length = c := hM _ (List.getElem_mem hi)
    apply List.ext_getElem
    · simp [hrow]
    · intro j hj1 hj2
      simp only [List.getElem_map, List.getElem_range, Function.comp_apply]
      have hj : j < c := by simpa using hj1
      rw [List.getD_eq_getElem?_getD, List.getElem?_map, List.getElem?_eq_getElem hi]
      simp only [Option.map_some, Option.getD_some]
      rw [List.getD_eq_getElem?_getD, List.getElem?_eq_getElem (by omega)]
      simp

end MysticVerif.Mon
