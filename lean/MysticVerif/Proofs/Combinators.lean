/- helper lemmas for Props/C17 (core Lean only) -/
import MysticVerif.Model.Combinators

namespace MysticVerif.Comb

variable {X D : Type}

theorem succ_mod' (a b : Nat) (hb : 0 < b) :
    (a + 1) % b = if a % b + 1 = b then 0 else a % b + 1 := by
  have h1 := Nat.div_add_mod a b
  have h2 : a % b < b := Nat.mod_lt _ hb
  split
  · rename_i h
    have e : a + 1 = b * (a / b + 1) := by rw [Nat.mul_add]; omega
    rw [e]; exact Nat.mul_mod_right _ _
  · rename_i h
    have e : a + 1 = (a % b + 1) + b * (a / b) := by omega
    rw [e, Nat.add_mul_mod_self_left]; exact Nat.mod_eq_of_lt (by omega)

/-- `l = x[-1] :: older`, newest first; the entry `l[m]` was appended at global step `s - m`
(the input `x[0]` is step 0); the newest `links` adjacent pairs are genuine member applications. -/
def Linked (c : Nat → X → Option X) (n s : Nat) (l : List X) (links : Nat) : Prop :=
  ∀ m, m < links → ∀ a b, l[m]? = some b → l[m + 1]? = some a → c ((s - 1 - m) % n) a = some b

theorem Linked.zero (c : Nat → X → Option X) (n s : Nat) (l : List X) : Linked c n s l 0 := by
  intro m hm; omega

theorem applyM_some {c : X → Option X} {x : X} (h : (applyM c x).2 = false) :
    c x = some (applyM c x).1 := by
  unfold applyM at *
  split at h <;> simp_all

theorem Linked.push {c : Nat → X → Option X} {n s : Nat} {top : X} {h : List X} {links : Nat}
    (hl : Linked c n s (top :: h) links) :
    Linked c n (s + 1) ((applyM (c (s % n)) top).1 :: top :: h)
      (if (applyM (c (s % n)) top).2 = true then 0 else links + 1) := by
  split
  · exact Linked.zero _ _ _ _
  · rename_i he
    have he' : (applyM (c (s % n)) top).2 = false := by simpa using he
    intro m hm a b hb ha
    cases m with
    | zero =>
      simp at hb ha
      subst hb ha
      simpa using applyM_some he'
    | succ m =>
      simp at hb ha
      have := hl m (by omega) a b hb (by simpa using ha)
      have e : s + 1 - 1 - (m + 1) = s - 1 - m := by omega
      rw [e]; exact this

theorem Linked.take {c : Nat → X → Option X} {n s : Nat} {l : List X} {links : Nat} (k : Nat)
    (hl : Linked c n s l links) : Linked c n s (l.take k) links := by
  intro m hm a b hb ha
  rw [List.getElem?_take] at hb ha
  split at hb
  · split at ha
    · exact hl m hm a b hb ha
    · simp at ha
  · simp at hb

theorem Linked.dropOld_tail {c : Nat → X → Option X} {n s j : Nat} {y : X} {l : List X} {links : Nat}
    (hl : Linked c n s (y :: l) links) : Linked c n s (y :: dropOld n j l) links := by
  unfold dropOld
  split
  · have := Linked.take (k := (l.length - n) + 1) hl
    simpa [List.take_succ_cons] using this
  · exact hl

/-- length of `top :: h` at iteration `j` of the cycling phase (see the derivation in DESIGN C17) -/
def LenInv (n j L : Nat) : Prop :=
  (j < 2 * n → j + 1 ≤ L) ∧
  (2 * n ≤ j → (j % (2 * n) = 0 → 2 * n + 1 ≤ L) ∧ (j % (2 * n) ≠ 0 → n + 1 + j % (2 * n) ≤ L))

theorem LenInv.ge {n j L : Nat} (_hn : 0 < n) (hj : n ≤ j) (h : LenInv n j L) : n + 1 ≤ L := by
  obtain ⟨h1, h2⟩ := h
  by_cases hlt : j < 2 * n
  · have := h1 hlt; omega
  · have hge : 2 * n ≤ j := by omega
    obtain ⟨h3, h4⟩ := h2 hge
    by_cases h0 : j % (2 * n) = 0
    · have := h3 h0; omega
    · have := h4 h0; omega

theorem LenInv.step {n j L : Nat} (hn : 0 < n) (hj : n ≤ j) (h : LenInv n j L) :
    LenInv n (j + 1) ((if j % (2 * n) = 0 then L - n else L) + 1) := by
  have hm := succ_mod' j (2 * n) (by omega)
  have hlt : j % (2 * n) < 2 * n := Nat.mod_lt _ (by omega)
  obtain ⟨h1, h2⟩ := h
  by_cases hj2 : j < 2 * n
  · have hL := h1 hj2
    have hmod : j % (2 * n) = j := Nat.mod_eq_of_lt hj2
    have hne : ¬ (j % (2 * n) = 0) := by omega
    rw [if_neg hne]
    refine ⟨fun _ => by omega, fun hge => ?_⟩
    have hj' : j + 1 = 2 * n := by omega
    have : (j + 1) % (2 * n) = 0 := by rw [hj']; exact Nat.mod_self _
    exact ⟨fun _ => by omega, fun hc => absurd this hc⟩
  · have hge : 2 * n ≤ j := by omega
    obtain ⟨h3, h4⟩ := h2 hge
    refine ⟨fun _ => by omega, fun _ => ?_⟩
    by_cases h0 : j % (2 * n) = 0
    · have hL := h3 h0
      rw [if_pos h0]
      rw [h0] at hm
      have h1n : ¬ (0 + 1 = 2 * n) := by omega
      rw [if_neg h1n] at hm
      refine ⟨fun hc => by omega, fun _ => by omega⟩
    · have hL := h4 h0
      rw [if_neg h0]
      by_cases hw : j % (2 * n) + 1 = 2 * n
      · rw [if_pos hw] at hm
        exact ⟨fun _ => by omega, fun hc => absurd hm hc⟩
      · rw [if_neg hw] at hm
        exact ⟨fun hc => by omega, fun _ => by omega⟩

theorem dropOld_length (n j : Nat) (l : List X) :
    (dropOld n j l).length = if j % (2 * n) = 0 then l.length - n else l.length := by
  unfold dropOld; split <;> simp

/-- every entry the window check looks at exists and equals `y` -/
theorem lastAllEq_get [BEq X] [LawfulBEq X] {k : Nat} {l : List X} {y : X}
    (h : lastAllEq k l y = true) {m : Nat} (hm : m < k) {a : X} (ha : l[m]? = some a) : a = y := by
  unfold lastAllEq at h
  rw [List.all_eq_true] at h
  have : a ∈ l.take k := by
    rw [List.mem_iff_getElem?]
    exact ⟨m, by rw [List.getElem?_take]; simp [hm, ha]⟩
  simpa using h a this

end MysticVerif.Comb
