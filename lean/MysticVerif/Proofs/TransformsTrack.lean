/- helper lemmas for Props/C16/Track.lean: the offset rounds of `impose_as` (constraints.py l.1667-1675), `set(trac)`,
`tools.connected` and the tie phase on masks in which several partners share one tracker -/
import MysticVerif.Proofs.Transforms

namespace MysticVerif.Trans

variable {R : Type}

/-! ### Python item access -/

theorem getPy_of_wrap (x : List R) (i : Int) (k : Nat) (h : wrapIdx x.length i = some k) : getPy x i = x[k]? := by
  simp [getPy, h]

theorem getPy_of_wrap_none (x : List R) (i : Int) (h : wrapIdx x.length i = none) : getPy x i = none := by
  simp [getPy, h]

/-- a non-negative in-range index addresses its own slot -/
theorem wrapIdx_nat (n k : Nat) (h : k < n) : wrapIdx n (k : Int) = some k := by
  unfold wrapIdx
  rw [if_pos (by omega), if_pos (by omega)]
  simp

/-- distinct index VALUES of `l` address distinct entries (`-1` and `n-1` are not both listed) -/
def NoAlias (n : Nat) (l : List Int) : Prop :=
  ∀ a ∈ l, ∀ b ∈ l, ∀ k, wrapIdx n a = some k → wrapIdx n b = some k → a = b

theorem NoAlias.tail {n : Nat} {a : Int} {l : List Int} (h : NoAlias n (a :: l)) : NoAlias n l :=
  fun b hb c hc k h1 h2 => h b (List.mem_cons_of_mem _ hb) c (List.mem_cons_of_mem _ hc) k h1 h2

theorem filterMap_wrap_nodup (n : Nat) : ∀ (l : List Int), l.Nodup → NoAlias n l → (l.filterMap (wrapIdx n)).Nodup
  | [], _, _ => by simp
  | a :: rest, hnd, hna => by
    have hnd' := List.nodup_cons.mp hnd
    have ih := filterMap_wrap_nodup n rest hnd'.2 hna.tail
    cases hw : wrapIdx n a with
    | none => simpa [List.filterMap_cons, hw] using ih
    | some k =>
      simp only [List.filterMap_cons, hw]
      refine List.nodup_cons.mpr ⟨?_, ih⟩
      intro hmem
      obtain ⟨b, hb, hbk⟩ := List.mem_filterMap.mp hmem
      have := hna a (List.mem_cons_self ..) b (List.mem_cons_of_mem _ hb) k hw hbk
      subst this
      exact hnd'.1 hb

/-! ### `set(trac)` -/

theorem dedupFold_spec : ∀ (l acc : List Int), acc.Nodup →
    (l.foldl (fun acc a => if acc.contains a then acc else acc ++ [a]) acc).Nodup ∧
    ∀ a, a ∈ l.foldl (fun acc a => if acc.contains a then acc else acc ++ [a]) acc ↔ a ∈ acc ∨ a ∈ l
  | [], acc, h => by simp [h]
  | b :: rest, acc, h => by
    simp only [List.foldl_cons]
    by_cases hb : acc.contains b = true
    · rw [if_pos hb]
      have ih := dedupFold_spec rest acc h
      refine ⟨ih.1, fun a => ?_⟩
      rw [ih.2 a]
      have hb' : b ∈ acc := by simpa using hb
      constructor
      · rintro (h1 | h1)
        · exact Or.inl h1
        · exact Or.inr (List.mem_cons_of_mem _ h1)
      · rintro (h1 | h1)
        · exact Or.inl h1
        · rcases List.mem_cons.mp h1 with h2 | h2
          · subst h2; exact Or.inl hb'
          · exact Or.inr h2
    · rw [if_neg hb]
      have hb' : b ∉ acc := by simpa using hb
      have hnd : (acc ++ [b]).Nodup := by
        rw [List.nodup_append]
        refine ⟨h, by simp, ?_⟩
        intro a ha c hc
        have : c = b := by simpa using hc
        subst this
        intro hac; subst hac; exact hb' ha
      have ih := dedupFold_spec rest (acc ++ [b]) hnd
      refine ⟨ih.1, fun a => ?_⟩
      rw [ih.2 a]
      simp only [List.mem_append, List.mem_cons]
      tauto

/-- `set(l)` lists every index once -/
theorem dedupInt_nodup (l : List Int) : (dedupInt l).Nodup := (dedupFold_spec l [] List.nodup_nil).1

theorem mem_dedupInt (l : List Int) (a : Int) : a ∈ dedupInt l ↔ a ∈ l := by
  have := (dedupFold_spec l [] List.nodup_nil).2 a
  simpa [dedupInt] using this

/-! ### one round of offsets -/

theorem offsetRound_nil [Add R] (off : R) (x : List R) : offsetRound off [] x = x := rfl

theorem offsetRound_cons [Add R] (off : R) (i : Int) (rest : List Int) (x : List R) :
    offsetRound off (i :: rest) x =
      offsetRound off rest (match getPy x i with | some v => setPy x i (v + off) | none => x) := rfl

theorem offsetRound_length [Add R] (off : R) : ∀ (trac : List Int) (x : List R), (offsetRound off trac x).length = x.length
  | [], x => rfl
  | i :: rest, x => by
    rw [offsetRound_cons, offsetRound_length off rest]
    split
    · exact setPy_length ..
    · rfl

/-- when the listed indices address pairwise distinct entries, a round adds the offset ONCE to every addressed entry
and leaves every other entry alone -/
theorem offsetRound_getElem? [Add R] (off : R) : ∀ (trac : List Int) (x : List R),
    (trac.filterMap (wrapIdx x.length)).Nodup → ∀ k : Nat,
    (offsetRound off trac x)[k]? =
      (x[k]?).map (fun a => if k ∈ trac.filterMap (wrapIdx x.length) then a + off else a)
  | [], x, _, k => by simp [offsetRound_nil]
  | i :: rest, x, hnd, k => by
    rw [offsetRound_cons]
    cases hw : wrapIdx x.length i with
    | none =>
      rw [getPy_of_wrap_none x i hw]
      have hnd' : (rest.filterMap (wrapIdx x.length)).Nodup := by simpa [List.filterMap_cons, hw] using hnd
      rw [offsetRound_getElem? off rest x hnd' k]
      simp [hw]
    | some k0 =>
      have hlt := wrapIdx_lt hw
      rw [getPy_of_wrap x i k0 hw]
      have hx : x[k0]? = some x[k0] := List.getElem?_eq_getElem hlt
      rw [hx]
      simp only
      have hnd0 : (k0 :: rest.filterMap (wrapIdx x.length)).Nodup := by simpa [List.filterMap_cons, hw] using hnd
      have hnd' := List.nodup_cons.mp hnd0
      have hlen : (setPy x i (x[k0] + off)).length = x.length := setPy_length ..
      have hnd'' : (rest.filterMap (wrapIdx (setPy x i (x[k0] + off)).length)).Nodup := by rw [hlen]; exact hnd'.2
      rw [offsetRound_getElem? off rest _ hnd'' k, hlen, setPy_getElem?, hw]
      by_cases hk : k0 = k
      · subst hk
        simp [hw, hnd'.1, hx]
      · have : ¬ (some k0 = some k) := by simpa using hk
        rw [if_neg this]
        cases hxk : x[k]? with
        | none => simp
        | some a =>
          simp only [Option.map_some, List.filterMap_cons, hw, List.mem_cons]
          have hk' : ¬ k = k0 := fun h => hk h.symm
          simp [hk']

/-! ### the round over the trackers of a list of pairs -/

theorem NoAlias.dedup {n : Nat} {l : List Int} (h : NoAlias n l) : NoAlias n (dedupInt l) :=
  fun a ha b hb k h1 h2 => h a ((mem_dedupInt l a).mp ha) b ((mem_dedupInt l b).mp hb) k h1 h2

theorem mem_filterMap_dedup (n : Nat) (l : List Int) (k : Nat) :
    k ∈ (dedupInt l).filterMap (wrapIdx n) ↔ ∃ a ∈ l, wrapIdx n a = some k := by
  rw [List.mem_filterMap]
  constructor
  · rintro ⟨a, ha, h⟩; exact ⟨a, (mem_dedupInt l a).mp ha, h⟩
  · rintro ⟨a, ha, h⟩; exact ⟨a, (mem_dedupInt l a).mpr ha, h⟩

/-- a round over `set(trackers)`: an entry that ANY number of pairs name as their tracker receives the offset once -/
theorem offsetRound_tracker [Add R] (off : R) (pairs : List (Int × Int)) (x : List R)
    (hna : NoAlias x.length (pairs.map (·.2))) (k : Nat) (a : R)
    (hk : ∃ p ∈ pairs, wrapIdx x.length p.2 = some k) (ha : x[k]? = some a) :
    (offsetRound off (dedupInt (pairs.map (·.2))) x)[k]? = some (a + off) := by
  have hnd := filterMap_wrap_nodup x.length _ (dedupInt_nodup (pairs.map (·.2))) hna.dedup
  rw [offsetRound_getElem? off _ x hnd k, ha]
  have : k ∈ (dedupInt (pairs.map (·.2))).filterMap (wrapIdx x.length) := by
    rw [mem_filterMap_dedup]
    obtain ⟨p, hp, h⟩ := hk
    exact ⟨p.2, List.mem_map.mpr ⟨p, hp, rfl⟩, h⟩
  simp [this]

/-- ... and an entry that no pair names as its tracker is left alone -/
theorem offsetRound_other [Add R] (off : R) (pairs : List (Int × Int)) (x : List R)
    (hna : NoAlias x.length (pairs.map (·.2))) (k : Nat)
    (hk : ∀ p ∈ pairs, wrapIdx x.length p.2 ≠ some k) :
    (offsetRound off (dedupInt (pairs.map (·.2))) x)[k]? = x[k]? := by
  have hnd := filterMap_wrap_nodup x.length _ (dedupInt_nodup (pairs.map (·.2))) hna.dedup
  rw [offsetRound_getElem? off _ x hnd k]
  have : ¬ k ∈ (dedupInt (pairs.map (·.2))).filterMap (wrapIdx x.length) := by
    rw [mem_filterMap_dedup]
    rintro ⟨b, hb, h⟩
    obtain ⟨p, hp, rfl⟩ := List.mem_map.mp hb
    exact hk p hp h
  cases hx : x[k]? with
  | none => simp
  | some a => simp [this]

/-! ### the loop on a mask in which no tracker is a partner: ONE round -/

theorem offsetLoop_nil [Add R] (off : R) (fuel : Nat) (x : List R) : offsetLoop off fuel [] x = .ok x := by
  cases fuel <;> simp [offsetLoop]

theorem offsetLoop_flat [Add R] (off : R) (fuel : Nat) (pairs : List (Int × Int)) (x : List R)
    (hflat : ∀ p ∈ pairs, ∀ q ∈ pairs, q.2 ≠ p.1) :
    offsetLoop off (fuel + 1) pairs x = .ok (offsetRound off (dedupInt (pairs.map (·.2))) x) := by
  cases pairs with
  | nil => simp [offsetLoop, dedupInt, offsetRound_nil]
  | cons p rest =>
    have hindx : (dedupInt ((p :: rest).map (·.2))).filter (fun t => ((p :: rest).map (·.1)).contains t) = [] := by
      rw [List.filter_eq_nil_iff]
      intro t ht hc
      have ht' := (mem_dedupInt _ t).mp ht
      obtain ⟨q, hq, rfl⟩ := List.mem_map.mp ht'
      have hc' : q.2 ∈ (p :: rest).map (·.1) := by simpa using hc
      obtain ⟨r, hr, hrq⟩ := List.mem_map.mp hc'
      exact hflat r hr q hq hrq.symm
    simp only [offsetLoop, List.isEmpty_cons, Bool.false_eq_true, if_false]
    rw [hindx]
    simp [offsetLoop_nil]

/-! ### several partners of ONE tracker: `tools.connected` and the tie phase -/

theorem wrapIdx_nonneg (n : Nat) (a : Int) (h0 : 0 ≤ a) (h1 : a < n) : wrapIdx n a = some a.toNat := by
  unfold wrapIdx
  rw [if_pos h0, if_pos (by omega)]

/-- the fold of `tools.connected` (tools.py l.781-790) -/
def connectedFold (coll : List (Int × List Int)) (pairs : List (Int × Int)) : List (Int × List Int) :=
  pairs.foldl (fun coll p =>
    let r := connectedStep coll p.1 p.2
    if r.2 = true then r.1 else coll ++ [(p.1, [p.2])]) coll

theorem connected_eq_fold (pairs : List (Int × Int)) : connected pairs = connectedFold [] pairs := rfl

theorem connectedFold_cons (coll : List (Int × List Int)) (p : Int × Int) (rest : List (Int × Int)) :
    connectedFold coll (p :: rest) =
      connectedFold (if (connectedStep coll p.1 p.2).2 = true then (connectedStep coll p.1 p.2).1 else coll ++ [(p.1, [p.2])]) rest := rfl

/-- pairs `(p, t)` that all name the tracker `t`, met by a single group keyed `p0` that already holds `t`: the group
stays the only one, keeps its key, and collects exactly the partners other than the key -/
theorem connectedFold_star (p0 t : Int) : ∀ (ps : List Int) (v : List Int), t ∈ v →
    ∃ v', connectedFold [(p0, v)] (ps.map (fun p => (p, t))) = [(p0, v')] ∧ t ∈ v' ∧
      ∀ a, a ∈ v' ↔ a ∈ v ∨ (a ∈ ps ∧ a ≠ p0)
  | [], v, ht => ⟨v, rfl, ht, fun a => by simp⟩
  | p :: ps, v, ht => by
    rw [List.map_cons, connectedFold_cons]
    have htc : v.contains t = true := by simpa using ht
    by_cases h1 : (p == p0 || v.contains p) = true
    · have hstep : connectedStep [(p0, v)] p t = ([(p0, v)], true) := by
        simp only [connectedStep, h1, if_true, htc]
      simp only [hstep, if_true]
      obtain ⟨v', hv', ht', hmem⟩ := connectedFold_star p0 t ps v ht
      refine ⟨v', hv', ht', fun a => ?_⟩
      rw [hmem a]
      have h1' : p = p0 ∨ p ∈ v := by simpa using h1
      constructor
      · rintro (h | ⟨h, hne⟩)
        · exact Or.inl h
        · exact Or.inr ⟨List.mem_cons_of_mem _ h, hne⟩
      · rintro (h | ⟨h, hne⟩)
        · exact Or.inl h
        · rcases List.mem_cons.mp h with h2 | h2
          · subst h2
            rcases h1' with h3 | h3
            · exact absurd h3 hne
            · exact Or.inl h3
          · exact Or.inr ⟨h2, hne⟩
    · have h1' : ¬ p = p0 ∧ ¬ p ∈ v := by simpa using h1
      have hpc : v.contains p = false := by simpa using h1'.2
      have h2 : (t == p0 || v.contains t) = true := by rw [htc]; simp
      have hstep : connectedStep [(p0, v)] p t = ([(p0, v ++ [p])], true) := by
        simp only [connectedStep]
        rw [if_neg h1, if_pos h2, hpc]
        simp
      simp only [hstep, if_true]
      obtain ⟨v', hv', ht', hmem⟩ := connectedFold_star p0 t ps (v ++ [p]) (List.mem_append_left _ ht)
      refine ⟨v', hv', ht', fun a => ?_⟩
      rw [hmem a]
      simp only [List.mem_append, List.mem_cons, List.not_mem_nil, or_false]
      constructor
      · rintro ((h | h) | ⟨h, hne⟩)
        · exact Or.inl h
        · subst h; exact Or.inr ⟨Or.inl rfl, h1'.1⟩
        · exact Or.inr ⟨Or.inr h, hne⟩
      · rintro (h | ⟨h | h, hne⟩)
        · exact Or.inl (Or.inl h)
        · exact Or.inl (Or.inr h)
        · exact Or.inr ⟨h, hne⟩

/-- `tools.connected` on the mask `[(p0,t), (p1,t), ...]`: ONE group, keyed by the first partner, holding the tracker
and every other partner (a partner listed twice, or equal to the key, is not added again) -/
theorem connected_star (p0 t : Int) (ps : List Int) :
    ∃ v, connected ((p0 :: ps).map (fun p => (p, t))) = [(p0, v)] ∧ t ∈ v ∧
      ∀ a, a ∈ v ↔ a = t ∨ (a ∈ ps ∧ a ≠ p0) := by
  rw [connected_eq_fold, List.map_cons, connectedFold_cons]
  have : (if (connectedStep [] p0 t).2 = true then (connectedStep [] p0 t).1 else [] ++ [(p0, [t])]) = [(p0, [t])] := by
    simp [connectedStep]
  rw [this]
  obtain ⟨v, hv, ht, hmem⟩ := connectedFold_star p0 t ps [t] (by simp)
  exact ⟨v, hv, ht, fun a => by rw [hmem a]; simp⟩

/-- the tie phase over ONE group `(p0, v)`: `for k in v: try: x[k] = x[p0] except IndexError: pass` -/
def tieKey (p0 : Int) (v : List Int) (x : List R) : List R :=
  v.foldl (fun xq k => match getPy xq p0 with
    | some a => setPy xq k a
    | none => xq) x

theorem tieAll_single (p0 : Int) (v : List Int) (x : List R) : tieAll [(p0, v)] x = tieKey p0 v x := rfl

theorem tieKey_cons (p0 a : Int) (rest : List Int) (x : List R) :
    tieKey p0 (a :: rest) x = tieKey p0 rest (match getPy x p0 with | some b => setPy x a b | none => x) := rfl

/-- the tie phase over one group whose key is in range and not among its members (all members in range, listed by
non-negative index): every member receives the ORIGINAL value at the key, nothing else moves -/
theorem tieGroup_getElem? (p0 : Nat) : ∀ (v : List Int) (x : List R), p0 < x.length → (p0 : Int) ∉ v →
    (∀ a ∈ v, 0 ≤ a ∧ a < x.length) → ∀ k : Nat,
    (tieKey (p0 : Int) v x)[k]? = if (k : Int) ∈ v then (x[k]?).bind (fun _ => x[p0]?) else x[k]?
  | [], x, _, _, _, k => by simp [tieKey]
  | a :: rest, x, hp0, hnot, hin, k => by
    rw [tieKey_cons]
    have ha := hin a (List.mem_cons_self ..)
    have hwa : wrapIdx x.length a = some a.toNat := wrapIdx_nonneg _ _ ha.1 ha.2
    have hgp : getPy x (p0 : Int) = some x[p0] := by
      rw [getPy_of_wrap x _ p0 (wrapIdx_nat _ _ hp0)]; exact List.getElem?_eq_getElem hp0
    rw [hgp]
    simp only
    have hlen : (setPy x a x[p0]).length = x.length := setPy_length ..
    have hne : a.toNat ≠ p0 := by
      intro h; apply hnot; rw [← h]; simp [Int.toNat_of_nonneg ha.1]
    have hp0' : (setPy x a x[p0])[p0]? = x[p0]? := by
      rw [setPy_getElem?, hwa]; simp [hne]
    have ih := tieGroup_getElem? p0 rest (setPy x a x[p0]) (by rw [hlen]; exact hp0)
      (fun h => hnot (List.mem_cons_of_mem _ h))
      (fun b hb => by rw [hlen]; exact hin b (List.mem_cons_of_mem _ hb)) k
    rw [ih, hp0', setPy_getElem?, hwa]
    by_cases hk : a.toNat = k
    · subst hk
      have hka : ((a.toNat : Nat) : Int) = a := Int.toNat_of_nonneg ha.1
      have hlt : a.toNat < x.length := by omega
      simp [hka, List.getElem?_eq_getElem hlt, List.getElem?_eq_getElem hp0]
    · have hka : ¬ (k : Int) = a := by
        intro h; apply hk; rw [← h]; simp
      have : ¬ (some a.toNat = some k) := by simpa using hk
      simp [this, hka]

theorem tieGroup_length (p0 : Int) : ∀ (v : List Int) (x : List R), (tieKey p0 v x).length = x.length
  | [], x => rfl
  | a :: rest, x => by
    rw [tieKey_cons, tieGroup_length p0 rest]
    split
    · exact setPy_length ..
    · rfl

end MysticVerif.Trans
