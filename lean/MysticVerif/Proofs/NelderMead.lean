/- invariants of the Nelder-Mead model (used by Props/C01-C04) -/
import MysticVerif.Model.NelderMead
import MysticVerif.Proofs.Solver
import Mathlib.Tactic.SplitIfs

namespace MysticVerif.Solver

variable {X E R : Type}

/-- the energy the decorated objective assigns to an already constrained point (independent of the log) -/
def Obj.energy (o : Obj X E) (y : X) : E :=
  o.add (if (o.useRange && !o.inBox y) = true then o.top else o.raw y) (o.pen y)

theorem objAt_fst (o : Obj X E) (y : X) (log : List (X × E)) : (o.objAt y log).1 = o.energy y := by
  unfold Obj.objAt Obj.evalB Obj.energy
  split <;> rfl

/-- a (stored vertex, energy) pair is legitimate: the energy is the objective at `K vertex`, which was evaluated -/
def GoodK (o : Obj X E) (log : List (X × E)) (p : X × E) : Prop :=
  p.2 ≠ o.top → p.2 = o.energy (o.K p.1) ∧ (o.K p.1, o.raw (o.K p.1)) ∈ log ∧
    (o.useRange = true → o.inBox (o.K p.1) = true)

theorem GoodK.mono {o : Obj X E} {log log' : List (X × E)} {p : X × E}
    (h : GoodK o log p) (hsub : ∀ q ∈ log, q ∈ log') : GoodK o log' p := by
  intro he
  obtain ⟨h1, h2, h3⟩ := h he
  exact ⟨h1, hsub _ h2, h3⟩

theorem GoodK.applyK [LinearOrder E] {o : Obj X E} (h : Hyp o) {log : List (X × E)} {x : X} {e : E}
    (hg : GoodK o log (x, e)) : GoodK o log (o.K x, e) := by
  intro he
  have := hg he
  simp only [h.idem] at this ⊢
  exact this

theorem objK_log_sub (o : Obj X E) (x : X) (log : List (X × E)) : ∀ p ∈ log, p ∈ (o.objK x log).2 :=
  objAt_log_sub o _ log

theorem objK_logOK [LinearOrder E] {o : Obj X E} (h : Hyp o) (x : X) (log : List (X × E)) (hl : LogOK o log) :
    LogOK o (o.objK x log).2 := objAt_logOK h x log hl

/-- evaluating at `x` and storing `st x` (`st = id`, or `st = K` for in-place constraints) is legitimate -/
theorem objK_good [LinearOrder E] {o : Obj X E} (h : Hyp o) (st : X → X) (hst : ∀ x, o.K (st x) = o.K x)
    (x : X) (log : List (X × E)) : GoodK o (o.objK x log).2 (st x, (o.objK x log).1) := by
  intro he
  simp only [hst]
  have hg := objAt_good h x log
  unfold Obj.objK at *
  have := hg he
  refine ⟨by rw [objAt_fst], this.2.1, this.2.2.2⟩

/-! ### sorting -/

theorem mem_insertByE [LinearOrder E] (p q : Pt R × E) (l : List (Pt R × E)) :
    q ∈ insertByE p l ↔ q = p ∨ q ∈ l := by
  induction l with
  | nil => simp [insertByE]
  | cons a l ih =>
    unfold insertByE
    split
    · simp
    · simp only [List.mem_cons, ih]
      constructor
      · rintro (h | h | h)
        · exact Or.inr (Or.inl h)
        · exact Or.inl h
        · exact Or.inr (Or.inr h)
      · rintro (h | h | h)
        · exact Or.inr (Or.inl h)
        · exact Or.inl h
        · exact Or.inr (Or.inr h)

theorem mem_foldl_insert [LinearOrder E] (l acc : List (Pt R × E)) (q : Pt R × E) :
    q ∈ l.foldl (fun acc p => insertByE p acc) acc ↔ q ∈ l ∨ q ∈ acc := by
  induction l generalizing acc with
  | nil => simp
  | cons a l ih =>
    simp only [List.foldl_cons, ih, mem_insertByE, List.mem_cons]
    constructor
    · rintro (h | h | h)
      · exact Or.inl (Or.inr h)
      · exact Or.inl (Or.inl h)
      · exact Or.inr h
    · rintro ((h | h) | h)
      · exact Or.inr (Or.inl h)
      · exact Or.inl h
      · exact Or.inr (Or.inr h)

theorem mem_sortByE [LinearOrder E] (l : List (Pt R × E)) (q : Pt R × E) : q ∈ sortByE l ↔ q ∈ l := by
  unfold sortByE
  rw [mem_foldl_insert]; simp

def SortedE [LinearOrder E] (l : List (Pt R × E)) : Prop := l.Pairwise (fun a b => a.2 ≤ b.2)

theorem sorted_insertByE [LinearOrder E] (p : Pt R × E) (l : List (Pt R × E)) (hl : SortedE l) :
    SortedE (insertByE p l) := by
  induction l with
  | nil => simp [insertByE, SortedE]
  | cons a l ih =>
    unfold insertByE
    unfold SortedE at hl ih ⊢
    rw [List.pairwise_cons] at hl
    split
    · rename_i hlt
      rw [List.pairwise_cons]
      refine ⟨?_, List.pairwise_cons.mpr hl⟩
      intro b hb
      rcases List.mem_cons.mp hb with rfl | hb
      · exact le_of_lt hlt
      · exact le_trans (le_of_lt hlt) (hl.1 b hb)
    · rename_i hnl
      rw [List.pairwise_cons]
      refine ⟨?_, ih hl.2⟩
      intro b hb
      rcases (mem_insertByE p b l).mp hb with rfl | hb
      · exact not_lt.mp hnl
      · exact hl.1 b hb

theorem sorted_sortByE [LinearOrder E] (l : List (Pt R × E)) : SortedE (sortByE l) := by
  unfold sortByE
  suffices ∀ acc : List (Pt R × E), SortedE acc → SortedE (l.foldl (fun acc p => insertByE p acc) acc) from
    this [] (by simp [SortedE])
  induction l with
  | nil => intro acc h; exact h
  | cons a l ih => intro acc h; exact ih _ (sorted_insertByE a acc h)

/-- the head of the sorted simplex is at most every energy of the unsorted one -/
theorem sortByE_head_le [LinearOrder E] (l : List (Pt R × E)) (b : Pt R × E) (rest : List (Pt R × E))
    (hs : sortByE l = b :: rest) : ∀ q ∈ l, b.2 ≤ q.2 := by
  intro q hq
  have hq' : q ∈ sortByE l := (mem_sortByE l q).mpr hq
  have hsorted := sorted_sortByE l
  rw [hs] at hq' hsorted
  unfold SortedE at hsorted
  rw [List.pairwise_cons] at hsorted
  rcases List.mem_cons.mp hq' with rfl | h
  · exact le_refl _
  · exact hsorted.1 q h

/-! ### the Nelder-Mead invariant -/

structure NMInv [LinearOrder E] (o : Obj (Pt R) E) (s : NM R E) : Prop where
  good : ∀ p ∈ s.simplex, GoodK o s.log p
  logOK : LogOK o s.log
  sorted : SortedE s.simplex
  hist : (s.stepLog.map Prod.snd).Pairwise (· ≥ ·)
  histLe : ∀ b ∈ s.simplex.head?, ∀ e ∈ s.stepLog.map Prod.snd, b.2 ≤ e
  lastIsBest : s.stepLog.getLast? = s.simplex.head?

/-- all pairs of `shrinkAll` are legitimate w.r.t. the final log, which extends the initial one -/
theorem shrinkAll_spec [Add R] [Sub R] [Mul R] [LinearOrder E] {o : Obj (Pt R) E} (h : Hyp o) (c : Coef R)
    (st : Pt R → Pt R) (hst : ∀ x, o.K (st x) = o.K x) (x0 : Pt R) :
    ∀ (l : List (Pt R × E)) (log : List (Pt R × E)), LogOK o log →
      (∀ p ∈ (shrinkAll o c st x0 l log).1, GoodK o (shrinkAll o c st x0 l log).2 p) ∧
      (∀ q ∈ log, q ∈ (shrinkAll o c st x0 l log).2) ∧ LogOK o (shrinkAll o c st x0 l log).2 := by
  intro l
  induction l with
  | nil => intro log hl; exact ⟨by simp [shrinkAll], fun q hq => hq, hl⟩
  | cons a l ih =>
    intro log hl
    obtain ⟨xj, ej⟩ := a
    simp only [shrinkAll]
    have hy := objK_good h st hst (shrinkPt c x0 xj) log
    have hsub := objK_log_sub o (shrinkPt c x0 xj) log
    have hok := objK_logOK h (shrinkPt c x0 xj) log hl
    obtain ⟨i1, i2, i3⟩ := ih (o.objK (shrinkPt c x0 xj) log).2 hok
    refine ⟨?_, fun q hq => i2 q (hsub q hq), i3⟩
    intro p hp
    rcases List.mem_cons.mp hp with rfl | hp
    · exact hy.mono i2
    · exact i1 p hp

theorem buildRows_spec [LinearOrder E] {o : Obj (Pt R) E} (h : Hyp o) (x0 : Pt R) :
    ∀ (vs : List R) (k : Nat) (log : List (Pt R × E)), LogOK o log →
      (∀ p ∈ (buildRows o x0 vs k log).1, GoodK o (buildRows o x0 vs k log).2 p) ∧
      (∀ q ∈ log, q ∈ (buildRows o x0 vs k log).2) ∧ LogOK o (buildRows o x0 vs k log).2 := by
  intro vs
  induction vs with
  | nil => intro k log hl; exact ⟨by simp [buildRows], fun q hq => hq, hl⟩
  | cons v vs ih =>
    intro k log hl
    simp only [buildRows]
    have hy := objK_good h id (fun _ => rfl) (x0.set k v) log
    have hsub := objK_log_sub o (x0.set k v) log
    have hok := objK_logOK h (x0.set k v) log hl
    obtain ⟨i1, i2, i3⟩ := ih (k + 1) (o.objK (x0.set k v) log).2 hok
    refine ⟨?_, fun q hq => i2 q (hsub q hq), i3⟩
    intro p hp
    rcases List.mem_cons.mp hp with rfl | hp
    · exact hy.mono i2
    · exact i1 p hp

/-- the unsorted result of the update step: every pair legitimate, log extended, the old best pair kept -/
theorem core_spec [Add R] [Sub R] [Mul R] [Div R] [LinearOrder E] {o : Obj (Pt R) E} (h : Hyp o) (c : Coef R)
    (st : Pt R → Pt R) (hst : ∀ x, o.K (st x) = o.K x) (x0 : Pt R) (f0 : E) (tl : List (Pt R × E))
    (xw : Pt R) (fw fsw : E) (log : List (Pt R × E)) (hl : LogOK o log)
    (hgood : ∀ p ∈ (x0, f0) :: tl, GoodK o log p) (hne : tl ≠ []) :
    (∀ p ∈ (NM.core o c st x0 f0 tl xw fw fsw log).1, GoodK o (NM.core o c st x0 f0 tl xw fw fsw log).2.1 p) ∧
    (∀ q ∈ log, q ∈ (NM.core o c st x0 f0 tl xw fw fsw log).2.1) ∧
    LogOK o (NM.core o c st x0 f0 tl xw fw fsw log).2.1 ∧
    (x0, f0) ∈ (NM.core o c st x0 f0 tl xw fw fsw log).1 := by
  have hhead : (x0, f0) ∈ ((x0, f0) :: tl).dropLast := by
    cases tl with
    | nil => exact absurd rfl hne
    | cons a t => simp [List.dropLast]
  have hdl : ∀ p ∈ ((x0, f0) :: tl).dropLast, p ∈ (x0, f0) :: tl := fun p hp => List.dropLast_subset _ hp
  -- generic step: replace the worst vertex by a freshly evaluated candidate
  have repl : ∀ (y : Pt R) (lg : List (Pt R × E)), LogOK o lg → (∀ q ∈ log, q ∈ lg) →
      (∀ p ∈ ((x0, f0) :: tl).dropLast ++ [(st y, (o.objK y lg).1)], GoodK o (o.objK y lg).2 p) ∧
      (∀ q ∈ log, q ∈ (o.objK y lg).2) ∧ LogOK o (o.objK y lg).2 := by
    intro y lg hlg hsub
    have hs2 := objK_log_sub o y lg
    refine ⟨?_, fun q hq => hs2 q (hsub q hq), objK_logOK h y lg hlg⟩
    intro p hp
    rcases List.mem_append.mp hp with hp | hp
    · exact (hgood p (hdl p hp)).mono (fun q hq => hs2 q (hsub q hq))
    · simp only [List.mem_singleton] at hp; subst hp
      exact objK_good h st hst y lg
  have keep : ∀ (z : Pt R × E), (x0, f0) ∈ ((x0, f0) :: tl).dropLast ++ [z] :=
    fun z => List.mem_append.mpr (Or.inl hhead)
  generalize hr : NM.core o c st x0 f0 tl xw fw fsw log = r
  unfold NM.core at hr
  simp only at hr
  -- abbreviations for the successive logs
  generalize hxbar : vdiv (vsumRows (((x0, f0) :: tl).dropLast.map Prod.fst)) c.n = xbar at hr
  have l1ok := objK_logOK h (reflectPt c xbar xw) log hl
  have l1sub := objK_log_sub o (reflectPt c xbar xw) log
  have l2okE := objK_logOK h (expandPt c xbar xw) _ l1ok
  have l2subE := objK_log_sub o (expandPt c xbar xw) (o.objK (reflectPt c xbar xw) log).2
  have shr : ∀ (y : Pt R),
      (∀ p ∈ (x0, f0) :: (shrinkAll o c st x0 tl (o.objK y (o.objK (reflectPt c xbar xw) log).2).2).1,
        GoodK o (shrinkAll o c st x0 tl (o.objK y (o.objK (reflectPt c xbar xw) log).2).2).2 p) ∧
      (∀ q ∈ log, q ∈ (shrinkAll o c st x0 tl (o.objK y (o.objK (reflectPt c xbar xw) log).2).2).2) ∧
      LogOK o (shrinkAll o c st x0 tl (o.objK y (o.objK (reflectPt c xbar xw) log).2).2).2 := by
    intro y
    have l2ok := objK_logOK h y _ l1ok
    have l2sub := objK_log_sub o y (o.objK (reflectPt c xbar xw) log).2
    obtain ⟨i1, i2, i3⟩ := shrinkAll_spec h c st hst x0 tl _ l2ok
    refine ⟨?_, fun q hq => i2 q (l2sub q (l1sub q hq)), i3⟩
    intro p hp
    rcases List.mem_cons.mp hp with rfl | hp
    · exact (hgood _ (by simp)).mono (fun q hq => i2 q (l2sub q (l1sub q hq)))
    · exact i1 p hp
  by_cases h1 : (o.objK (reflectPt c xbar xw) log).1 < f0
  · rw [if_pos h1] at hr
    by_cases h2 : (o.objK (expandPt c xbar xw) (o.objK (reflectPt c xbar xw) log).2).1 < (o.objK (reflectPt c xbar xw) log).1
    · rw [if_pos h2] at hr
      subst hr
      obtain ⟨a, b, d⟩ := repl (expandPt c xbar xw) (o.objK (reflectPt c xbar xw) log).2 l1ok l1sub
      exact ⟨a, b, d, keep _⟩
    · rw [if_neg h2] at hr
      subst hr
      refine ⟨?_, fun q hq => l2subE q (l1sub q hq), l2okE, keep _⟩
      intro p hp
      rcases List.mem_append.mp hp with hp | hp
      · exact (hgood p (hdl p hp)).mono (fun q hq => l2subE q (l1sub q hq))
      · simp only [List.mem_singleton] at hp; subst hp
        exact (objK_good h st hst (reflectPt c xbar xw) log).mono l2subE
  · rw [if_neg h1] at hr
    by_cases h3 : (o.objK (reflectPt c xbar xw) log).1 < fsw
    · rw [if_pos h3] at hr
      subst hr
      obtain ⟨a, b, d⟩ := repl (reflectPt c xbar xw) log hl (fun q hq => hq)
      exact ⟨a, b, d, keep _⟩
    · rw [if_neg h3] at hr
      by_cases h4 : (o.objK (reflectPt c xbar xw) log).1 < fw
      · rw [if_pos h4] at hr
        by_cases h5 : (o.objK (contractOutPt c xbar xw) (o.objK (reflectPt c xbar xw) log).2).1 ≤ (o.objK (reflectPt c xbar xw) log).1
        · rw [if_pos h5] at hr
          subst hr
          obtain ⟨a, b, d⟩ := repl (contractOutPt c xbar xw) (o.objK (reflectPt c xbar xw) log).2 l1ok l1sub
          exact ⟨a, b, d, keep _⟩
        · rw [if_neg h5] at hr
          subst hr
          obtain ⟨a, b, d⟩ := shr (contractOutPt c xbar xw)
          exact ⟨a, b, d, by simp⟩
      · rw [if_neg h4] at hr
        by_cases h5 : (o.objK (contractInPt c xbar xw) (o.objK (reflectPt c xbar xw) log).2).1 < fw
        · rw [if_pos h5] at hr
          subst hr
          obtain ⟨a, b, d⟩ := repl (contractInPt c xbar xw) (o.objK (reflectPt c xbar xw) log).2 l1ok l1sub
          exact ⟨a, b, d, keep _⟩
        · rw [if_neg h5] at hr
          subst hr
          obtain ⟨a, b, d⟩ := shr (contractInPt c xbar xw)
          exact ⟨a, b, d, by simp⟩

/-- `finish` re-establishes the invariant from an unsorted legitimate simplex that still contains a pair
whose energy bounds the history from below -/
theorem finish_inv [LinearOrder E] {o : Obj (Pt R) E} {s : NM R E} (hs : NMInv o s)
    (sx log : List (Pt R × E)) (hgood : ∀ p ∈ sx, GoodK o log p) (hlog : LogOK o log)
    (hkeep : ∀ b ∈ s.simplex.head?, ∃ q ∈ sx, q.2 ≤ b.2) (hne : sx ≠ []) :
    NMInv o (NM.finish s sx log) := by
  unfold NM.finish
  split
  · rename_i hnil
    exfalso
    cases sx with
    | nil => exact hne rfl
    | cons a t =>
      have : a ∈ sortByE (a :: t) := (mem_sortByE _ a).mpr (by simp)
      rw [hnil] at this; cases this
  · rename_i bst rest hsort
    have hle := sortByE_head_le sx bst rest hsort
    refine ⟨?_, hlog, ?_, ?_, ?_, by simp⟩
    · intro p hp
      exact hgood p ((mem_sortByE sx p).mp (hsort ▸ hp))
    · have := sorted_sortByE sx; rw [hsort] at this; exact this
    · -- history: the new best is at most the previous best, which bounds the history
      simp only [List.map_append, List.map_cons, List.map_nil]
      rw [List.pairwise_append]
      refine ⟨hs.hist, by simp, ?_⟩
      intro a ha b hb
      simp only [List.mem_singleton] at hb; subst hb
      cases hh : s.simplex.head? with
      | none =>
        -- no previous best: the history is empty by `lastIsBest`
        have := hs.lastIsBest; rw [hh] at this
        have hnil : s.stepLog = [] := List.getLast?_eq_none_iff.mp this
        rw [hnil] at ha; simp at ha
      | some b0 =>
        obtain ⟨q, hq, hqle⟩ := hkeep b0 (by simp [hh])
        exact le_trans (le_trans (hle q hq) hqle) (hs.histLe b0 (by simp [hh]) a ha)
    · intro b hb e he
      simp only [List.head?_cons, Option.mem_def, Option.some.injEq] at hb; subst hb
      simp only [List.map_append, List.map_cons, List.map_nil, List.mem_append, List.mem_singleton] at he
      rcases he with he | he
      · cases hh : s.simplex.head? with
        | none =>
          have := hs.lastIsBest; rw [hh] at this
          have hnil : s.stepLog = [] := List.getLast?_eq_none_iff.mp this
          rw [hnil] at he; simp at he
        | some b0 =>
          obtain ⟨q, hq, hqle⟩ := hkeep b0 (by simp [hh])
          exact le_trans (le_trans (hle q hq) hqle) (hs.histLe b0 (by simp [hh]) e he)
      · rw [he]

theorem NM.update_inv [Add R] [Sub R] [Mul R] [Div R] [LinearOrder E] {o : Obj (Pt R) E} (h : Hyp o) (c : Coef R)
    (st : Pt R → Pt R) (hst : ∀ x, o.K (st x) = o.K x) (s : NM R E) (hs : NMInv o s) :
    NMInv o (NM.update o c st s).1 := by
  unfold NM.update
  split
  · exact hs
  · rename_i x0' f0 tl hsx
    simp only
    split
    · rename_i xw fw _ fsw hlast hlast2
      have htl : tl ≠ [] := by
        intro hnil; subst hnil
        simp at hlast2
      have hgood0 : ∀ p ∈ (o.K x0', f0) :: tl, GoodK o s.log p := by
        intro p hp
        rcases List.mem_cons.mp hp with rfl | hp
        · exact (hs.good (x0', f0) (by rw [hsx]; simp)).applyK h
        · exact hs.good p (by rw [hsx]; simp [hp])
      obtain ⟨c1, _, c3, c4⟩ := core_spec h c st hst (o.K x0') f0 tl xw fw fsw s.log hs.logOK hgood0 htl
      apply finish_inv hs _ _ c1 c3
      · intro b hb
        rw [hsx] at hb
        simp only [List.head?_cons, Option.mem_def, Option.some.injEq] at hb; subst hb
        exact ⟨(o.K x0', f0), c4, le_refl _⟩
      · intro hnil; rw [hnil] at c4; cases c4
    · exact hs

theorem NM.gen0_inv [LinearOrder E] {o : Obj (Pt R) E} (h : Hyp o) (zero : R) (x0 : Pt R) :
    NMInv o (NM.gen0 o zero x0) := by
  unfold NM.gen0
  simp only
  refine ⟨?_, ?_, ?_, by simp, ?_, by simp⟩
  · intro p hp
    rcases List.mem_cons.mp hp with rfl | hp
    · -- the guess was constrained before it was stored: K (K x0) = K x0
      have := objK_good h id (fun _ => rfl) (o.K x0) []
      simp only [id] at this
      exact this
    · simp only [List.mem_map] at hp
      obtain ⟨_, _, rfl⟩ := hp
      intro hne; exact absurd rfl hne
  · exact objK_logOK h (o.K x0) [] (by intro p hp; cases hp)
  · unfold SortedE
    rw [List.pairwise_cons]
    refine ⟨?_, ?_⟩
    · intro b hb
      simp only [List.mem_map] at hb
      obtain ⟨_, _, rfl⟩ := hb
      exact h.leTop _
    · rw [List.pairwise_map]
      exact List.pairwise_of_forall (fun _ _ => le_refl _)
  · intro b hb e he
    simp only [List.head?_cons, Option.mem_def, Option.some.injEq] at hb; subst hb
    simp at he; rw [he]

theorem NM.gen1_inv [LinearOrder E] {o : Obj (Pt R) E} (h : Hyp o) (clip0 mkVal : Pt R → Pt R)
    (s : NM R E) (hs : NMInv o s)
    (hhead : ∀ x0' f0 tl, s.simplex = (x0', f0) :: tl → f0 ≠ o.top → clip0 x0' = x0') :
    NMInv o (NM.gen1 o clip0 mkVal s) := by
  unfold NM.gen1
  split
  · exact hs
  · rename_i x0' f0 tl hsx
    simp only
    obtain ⟨b1, b2, b3⟩ := buildRows_spec h (clip0 x0') (mkVal (clip0 x0')) 0 s.log hs.logOK
    apply finish_inv hs _ _ _ b3
    · intro b hb
      rw [hsx] at hb
      simp only [List.head?_cons, Option.mem_def, Option.some.injEq] at hb; subst hb
      exact ⟨(clip0 x0', f0), by simp, le_refl _⟩
    · simp
    · intro p hp
      rcases List.mem_cons.mp hp with rfl | hp
      · intro he
        have hc := hhead x0' f0 tl hsx he
        have := (hs.good (x0', f0) (by rw [hsx]; simp)).mono b2 he
        simp only [hc] at this ⊢
        exact this
      · exact b1 p hp

end MysticVerif.Solver
