/- helper lemmas for Props/C19: `unflatten` / `update` for EVERY parameter length and every shape
   (short parameter vectors, shapes with empty factors) -/
import MysticVerif.Proofs.Discrete
import Mathlib.Algebra.BigOperators.Group.List.Basic

set_option linter.unusedSectionVars false
set_option linter.unusedSimpArgs false
set_option linter.unusedVariables false

namespace MysticVerif.Discrete

variable {α : Type}

/-- what `unflatten(params, npts)` builds for ANY parameter length: factor `i` pairs the weights block
    `params[o:o+n]` with the positions block `params[o+n:o+2n]` (`o = 2*sum(npts[:i])`), as far as the positions go -/
def unflat (params : List α) : List Nat → PM α
  | [] => []
  | n :: ns =>
    List.zipWith (fun w x => (⟨w, x⟩ : PtMass α)) (params.take n) ((params.drop n).take n)
      :: unflat (params.drop (n + n)) ns

theorem zipMeasure_eq_zipWith (xs ws : List α) (h : xs.length ≤ ws.length) :
    zipMeasure xs ws = some (List.zipWith (fun w x => (⟨w, x⟩ : PtMass α)) ws xs) := by
  induction xs generalizing ws with
  | nil => cases ws <;> simp [zipMeasure]
  | cons x xs ih =>
    cases ws with
    | nil => simp at h
    | cons w ws =>
      simp only [List.length_cons, Nat.add_le_add_iff_right] at h
      simp [zipMeasure, ih ws h]

theorem zipWith_fst' {β γ : Type} (l1 : List β) (l2 : List γ) (h : l1.length ≤ l2.length) :
    List.zipWith (fun a _ => a) l1 l2 = l1 := by
  induction l1 generalizing l2 with
  | nil => simp
  | cons a l1 ih =>
    cases l2 with
    | nil => simp at h
    | cons b l2 => simp only [List.length_cons, Nat.add_le_add_iff_right] at h; simp [ih l2 h]

theorem zipWith_snd' {β γ : Type} (l1 : List β) (l2 : List γ) (h : l2.length ≤ l1.length) :
    List.zipWith (fun _ b => b) l1 l2 = l2 := by
  induction l2 generalizing l1 with
  | nil => simp
  | cons b l2 ih =>
    cases l1 with
    | nil => simp at h
    | cons a l1 => simp only [List.length_cons, Nat.add_le_add_iff_right] at h; simp [ih l1 h]

/-- `unflatten` never raises -/
theorem unflatten_eq (params : List α) (npts : List Nat) : unflatten params npts = some (unflat params npts) := by
  induction npts generalizing params with
  | nil => simp [unflatten, nestedSplit, compose, listOfMeasures, unflat]
  | cons n ns ih =>
    have h := ih (params.drop (n + n))
    simp only [unflatten, compose] at h
    simp only [unflatten, compose, nestedSplit, listOfMeasures, unflat]
    rw [zipMeasure_eq_zipWith _ _ (by simp; omega), h]

theorem unflat_length (params : List α) (npts : List Nat) : (unflat params npts).length = npts.length := by
  induction npts generalizing params with
  | nil => rfl
  | cons n ns ih => simp [unflat, ih]

/-- the number of points factor `i` receives -/
theorem unflat_getElem_length (params : List α) (npts : List Nat) (i : Nat) (hi : i < npts.length) :
    ((unflat params npts)[i]?).map List.length
      = some (min npts[i] (params.length - (2 * (npts.take i).sum + npts[i]))) := by
  induction npts generalizing params i with
  | nil => simp at hi
  | cons n ns ih =>
    cases i with
    | zero =>
      simp only [unflat, List.getElem?_cons_zero, Option.map_some, List.length_zipWith, List.length_take,
        List.length_drop, List.take_zero, List.sum_nil, List.getElem_cons_zero]
      congr 1; omega
    | succ i =>
      simp only [List.length_cons, Nat.add_lt_add_iff_right] at hi
      simp only [unflat, List.getElem?_cons_succ, List.take_succ_cons, List.sum_cons, List.getElem_cons_succ]
      rw [ih (params.drop (n + n)) i hi, List.length_drop]
      congr 2; omega

/-- the factors the parameters cover completely carry exactly those parameters -/
theorem unflat_take (params : List α) (npts : List Nat) (j : Nat) (hj : j ≤ npts.length)
    (hlen : 2 * (npts.take j).sum ≤ params.length) :
    pts ((unflat params npts).take j) = npts.take j ∧
    flatten ((unflat params npts).take j) = params.take (2 * (npts.take j).sum) := by
  induction npts generalizing params j with
  | nil => simp [unflat, pts, flatten]
  | cons n ns ih =>
    cases j with
    | zero => simp [pts, flatten]
    | succ j =>
      simp only [List.length_cons, Nat.add_le_add_iff_right] at hj
      simp only [List.take_succ_cons, List.sum_cons] at hlen ⊢
      obtain ⟨h1, h2⟩ := ih (params.drop (n + n)) j hj (by simp; omega)
      simp only [unflat, List.take_succ_cons]
      have hw : (params.take n).length = n := by simp; omega
      have hx : ((params.drop n).take n).length = n := by simp; omega
      constructor
      · simp only [pts, List.map_cons, List.length_zipWith, hw, hx, Nat.min_self] at h1 ⊢
        rw [h1]
      · simp only [flatten, List.flatMap_cons] at h2 ⊢
        rw [h2]
        have e1 : mweights (List.zipWith (fun w x => (⟨w, x⟩ : PtMass α)) (params.take n) ((params.drop n).take n))
            = params.take n := by
          unfold mweights
          rw [List.map_zipWith]
          have : (List.zipWith (fun w x => w) (params.take n) ((params.drop n).take n)) = params.take n := by
            exact zipWith_fst' _ _ (by omega)
          exact this
        have e2 : mpositions (List.zipWith (fun w x => (⟨w, x⟩ : PtMass α)) (params.take n) ((params.drop n).take n))
            = (params.drop n).take n := by
          unfold mpositions
          rw [List.map_zipWith]
          have : (List.zipWith (fun w x => x) (params.take n) ((params.drop n).take n)) = (params.drop n).take n := by
            exact zipWith_snd' _ _ (by omega)
          exact this
        rw [e1, e2]
        have e3 : 2 * (n + (ns.take j).sum) = (n + n) + 2 * (ns.take j).sum := by omega
        rw [e3, List.take_add, List.take_add, List.append_assoc]

/-! ### a predicate that is upward closed along a list -/

theorem countP_upward {β : Type} (P : β → Bool) (l : List β) (h : l.Pairwise fun a b => P a = true → P b = true) :
    (∀ a ∈ l.take (l.length - l.countP P), P a = false) ∧ (∀ a ∈ l.drop (l.length - l.countP P), P a = true) := by
  induction l with
  | nil => simp
  | cons a t ih =>
    rw [List.pairwise_cons] at h
    by_cases ha : P a = true
    · have hall : ∀ b ∈ t, P b = true := fun b hb => h.1 b hb ha
      have hc : t.countP P = t.length := List.countP_eq_length.mpr hall
      simp only [List.countP_cons_of_pos ha, hc, List.length_cons, Nat.sub_self, List.take_zero, List.drop_zero]
      refine ⟨by simp, ?_⟩
      intro b hb
      rcases List.mem_cons.mp hb with rfl | hb
      · exact ha
      · exact hall b hb
    · have hle : t.countP P ≤ t.length := List.countP_le_length
      have e : (a :: t).length - (a :: t).countP P = (t.length - t.countP P) + 1 := by
        rw [List.countP_cons_of_neg ha, List.length_cons]; omega
      rw [e, List.take_succ_cons, List.drop_succ_cons]
      obtain ⟨i1, i2⟩ := ih h.2
      refine ⟨?_, i2⟩
      intro b hb
      rcases List.mem_cons.mp hb with rfl | hb
      · simpa using ha
      · exact i1 b hb

/-! ### prefix sums of a shape -/

theorem sum_take_mono (ns : List Nat) (i j : Nat) (h : i ≤ j) : (ns.take i).sum ≤ (ns.take j).sum := by
  induction ns generalizing i j with
  | nil => simp
  | cons n ns ih =>
    cases i with
    | zero => simp
    | succ i =>
      cases j with
      | zero => omega
      | succ j =>
        simp only [List.take_succ_cons, List.sum_cons]
        have := ih i j (by omega)
        omega

theorem sum_take_succ' (ns : List Nat) (i : Nat) (hi : i < ns.length) :
    (ns.take (i + 1)).sum = (ns.take i).sum + ns[i] := by
  induction ns generalizing i with
  | nil => simp at hi
  | cons n ns ih =>
    cases i with
    | zero => simp
    | succ i =>
      simp only [List.length_cons, Nat.add_lt_add_iff_right] at hi
      simp only [List.take_succ_cons, List.sum_cons, List.getElem_cons_succ, ih i hi]
      omega

theorem sum_take_le_sum (ns : List Nat) (i : Nat) : (ns.take i).sum ≤ ns.sum := by
  induction ns generalizing i with
  | nil => simp
  | cons n ns ih =>
    cases i with
    | zero => simp
    | succ i =>
      simp only [List.take_succ_cons, List.sum_cons]
      have := ih i
      omega

/-! ### `update` for every parameter length -/

theorem truncParams_eq_take (params : List α) (ns : List Nat) :
    truncParams params ns = params.take (2 * ns.sum) := by
  unfold truncParams
  split
  · rfl
  · rw [List.take_of_length_le (by omega)]

theorem truncParams_length' (params : List α) (ns : List Nat) :
    (truncParams params ns).length = min (2 * ns.sum) params.length := by
  rw [truncParams_eq_take, List.length_take]

/-- the measure `update` builds from the parameters before splicing -/
def updU (self : PM α) (params : List α) : PM α := unflat (truncParams params (pts self)) (pts self)

theorem updU_length (self : PM α) (params : List α) : (updU self params).length = self.length := by
  simp [updU, unflat_length, pts]

/-- `update` never raises; `zo` counts the factors that received no position -/
theorem update_eq (self : PM α) (params : List α) :
    update self params = some
      ((updU self params).take (self.length - (updU self params).countP List.isEmpty)
        ++ self.drop (self.length - (updU self params).countP List.isEmpty)) := by
  have h := updU_length self params
  simp only [update, unflatten_eq, Option.map_some]
  unfold updU at h ⊢
  rw [h]

theorem updU_isEmpty_iff (self : PM α) (params : List α) (hne : ∀ m ∈ self, m ≠ []) (i : Nat)
    (hi : i < self.length) (hi' : i < (pts self).length) (m : Measure α) (hm : (updU self params)[i]? = some m) :
    m.isEmpty = true ↔
      min (2 * (pts self).sum) params.length ≤ 2 * ((pts self).take i).sum + (pts self)[i] := by
  have h := unflat_getElem_length (truncParams params (pts self)) (pts self) i hi'
  unfold updU at hm
  rw [hm, truncParams_length'] at h
  simp only [Option.map_some, Option.some.injEq] at h
  have hpos : 0 < (pts self)[i] := by
    have : (pts self)[i] = self[i].length := by simp [pts]
    rw [this]
    exact List.length_pos_iff.mpr (hne _ (List.getElem_mem hi))
  rw [List.isEmpty_iff_length_eq_zero, h]
  omega

theorem updU_upward (self : PM α) (params : List α) (hne : ∀ m ∈ self, m ≠ []) :
    (updU self params).Pairwise fun a b => a.isEmpty = true → b.isEmpty = true := by
  rw [List.pairwise_iff_getElem]
  intro i j hi hj hij ha
  have hl := updU_length self params
  have hpl : (pts self).length = self.length := by simp [pts]
  have e1 := (updU_isEmpty_iff self params hne i (by omega) (by omega) _ (List.getElem?_eq_getElem hi)).mp ha
  apply (updU_isEmpty_iff self params hne j (by omega) (by omega) _ (List.getElem?_eq_getElem hj)).mpr
  have h1 := sum_take_succ' (pts self) i (by omega)
  have h2 := sum_take_mono (pts self) (i + 1) j (by omega)
  omega

/-- **update, every parameter length** (factors of at least one point).  `update` always returns; there is a cut
`k` such that the first `k` factors are the ones built from the parameters (`updU`), each of them non-empty, and
every factor from `k` on is UNCHANGED; factor `i` is before the cut exactly when the parameters reach past its
weights block; and whenever the parameters cover the first `j` factors completely, those `j` factors have their
old sizes and carry exactly the first `2*sum(pts[:j])` parameters. -/
theorem update_every_prefix (self : PM α) (params : List α) (hne : ∀ m ∈ self, m ≠ []) :
    ∃ k r, update self params = some r ∧ r.length = self.length ∧ k ≤ self.length ∧
      r = (updU self params).take k ++ self.drop k ∧
      (∀ i, k ≤ i → r[i]? = self[i]?) ∧
      (∀ i, i < k → ∃ m, r[i]? = some m ∧ m ≠ []) ∧
      (∀ i (hi : i < (pts self).length),
        (i < k ↔ 2 * ((pts self).take i).sum + (pts self)[i] < params.length)) ∧
      (∀ j, j ≤ self.length → 2 * ((pts self).take j).sum ≤ params.length →
        j ≤ k ∧ pts (r.take j) = (pts self).take j ∧
          flatten (r.take j) = params.take (2 * ((pts self).take j).sum)) := by
  have hl := updU_length self params
  have hpl : (pts self).length = self.length := by simp [pts]
  have hcl : (updU self params).countP List.isEmpty ≤ (updU self params).length := List.countP_le_length
  obtain ⟨hA, hB⟩ := countP_upward List.isEmpty (updU self params) (updU_upward self params hne)
  rw [hl] at hA hB
  generalize hk : self.length - (updU self params).countP List.isEmpty = k at hA hB
  have hkle : k ≤ self.length := by omega
  have htk : ((updU self params).take k).length = k := by rw [List.length_take, hl]; omega
  -- which factors are before the cut
  have hcut : ∀ i (hi : i < (pts self).length),
      (i < k ↔ 2 * ((pts self).take i).sum + (pts self)[i] < params.length) := by
    intro i hi
    have hiU : i < (updU self params).length := by omega
    have hiff := updU_isEmpty_iff self params hne i (by omega) hi _ (List.getElem?_eq_getElem hiU)
    have hpos : 0 < (pts self)[i] := by
      have : (pts self)[i] = self[i].length := by simp [pts]
      rw [this]
      exact List.length_pos_iff.mpr (hne _ (List.getElem_mem (by omega)))
    have h1 := sum_take_succ' (pts self) i hi
    have h2 := sum_take_le_sum (pts self) (i + 1)
    constructor
    · intro hik
      have hmem : (updU self params)[i] ∈ (updU self params).take k := by
        rw [List.mem_take_iff_getElem]
        exact ⟨i, by rw [hl]; omega, rfl⟩
      have := hA _ hmem
      have hn : ¬ ((updU self params)[i].isEmpty = true) := by simp [this]
      rw [hiff] at hn
      omega
    · intro hlt
      by_contra hik
      have hmem : (updU self params)[i] ∈ (updU self params).drop k := by
        rw [List.mem_drop_iff_getElem]
        exact ⟨i - k, by omega, by congr 1; omega⟩
      have := (hiff.mp (hB _ hmem))
      omega
  refine ⟨k, _, by rw [update_eq, hk], ?_, hkle, rfl, ?_, ?_, hcut, ?_⟩
  · rw [List.length_append, htk, List.length_drop]; omega
  · intro i hi
    rw [List.getElem?_append_right (by omega), htk, List.getElem?_drop]
    congr 1; omega
  · intro i hi
    have hiU : i < (updU self params).length := by omega
    refine ⟨(updU self params)[i], ?_, ?_⟩
    · rw [List.getElem?_append_left (by omega), List.getElem?_take_of_lt hi, List.getElem?_eq_getElem hiU]
    · have hmem : (updU self params)[i] ∈ (updU self params).take k := by
        rw [List.mem_take_iff_getElem]
        exact ⟨i, by rw [hl]; omega, rfl⟩
      have := hA _ hmem
      intro h0; rw [h0] at this; simp at this
  · intro j hj hcov
    have hjk : j ≤ k := by
      cases j with
      | zero => omega
      | succ i =>
        have hi : i < (pts self).length := by omega
        have h1 := sum_take_succ' (pts self) i hi
        have hpos : 0 < (pts self)[i] := by
          have : (pts self)[i] = self[i].length := by simp [pts]
          rw [this]
          exact List.length_pos_iff.mpr (hne _ (List.getElem_mem (by omega)))
        have := (hcut i hi).mpr (by omega)
        omega
    refine ⟨hjk, ?_⟩
    have htake : ((updU self params).take k ++ self.drop k).take j = (updU self params).take j := by
      rw [List.take_append_of_le_length (by omega), List.take_take, Nat.min_eq_left hjk]
    rw [htake]
    have h2 := sum_take_le_sum (pts self) j
    obtain ⟨u1, u2⟩ := unflat_take (truncParams params (pts self)) (pts self) j (by omega)
      (by rw [truncParams_length']; omega)
    unfold updU
    refine ⟨u1, ?_⟩
    rw [u2, truncParams_eq_take, List.take_take, Nat.min_eq_left (by omega)]

/-- **update, every shape** (parameters long enough).  With `z` empty factors in the shape, the first
`len - z` factors become exactly the ones described by the parameters and the LAST `z` factors are unchanged
(`zo = pm.count([])` also counts the factors that are empty by shape). -/
theorem update_any_shape (self : PM α) (params : List α) (hlen : 2 * (pts self).sum ≤ params.length) :
    ∃ c, unflatten (params.take (2 * (pts self).sum)) (pts self) = some c ∧ pts c = pts self ∧
      flatten c = params.take (2 * (pts self).sum) ∧
      update self params = some (c.take (self.length - (pts self).count 0) ++
        self.drop (self.length - (pts self).count 0)) := by
  obtain ⟨ht, hl⟩ := truncParams_length params (pts self) hlen
  obtain ⟨c, hc1, hc2, hc3⟩ := unflatten_of_length _ _ hl
  rw [ht] at hc1 hc3
  refine ⟨c, hc1, hc2, hc3, ?_⟩
  have hcl : c.length = self.length := by
    have := congrArg List.length hc2
    simpa [pts] using this
  have hcount : c.countP List.isEmpty = (pts self).count 0 := by
    rw [← hc2]
    unfold pts
    rw [List.count, List.countP_map]
    apply List.countP_congr
    intro m _
    simp [List.isEmpty_iff_length_eq_zero]
  simp only [update, ht, hc1, Option.map_some, hcount, hcl]

end MysticVerif.Discrete
