/- invariants of the differential-evolution model (used by Props/C01-C04, C07, C08) -/
import MysticVerif.Model.Solver
import Mathlib.Order.Basic
import Mathlib.Order.Lattice
import Mathlib.Data.List.Basic

namespace MysticVerif.Solver

variable {X E : Type}

/-- hypotheses on the user functions / energies that the properties themselves state -/
structure Hyp [LinearOrder E] (o : Obj X E) : Prop where
  /-- constraints (coupled with the bounds) are idempotent -/
  idem : ∀ x, o.K (o.K x) = o.K x
  /-- `inf + p = inf` -/
  addTop : ∀ p, o.add o.top p = o.top
  /-- no energy exceeds `inf` (in particular: no NaN) -/
  leTop : ∀ e : E, e ≤ o.top

/-- "this point carries this energy legitimately" -/
def Good (o : Obj X E) (log : List (X × E)) (y : X) (e : E) : Prop :=
  e ≠ o.top → e = o.add (o.raw y) (o.pen y) ∧ (y, o.raw y) ∈ log ∧ o.K y = y ∧ (o.useRange = true → o.inBox y = true)

theorem Good.mono {o : Obj X E} {log log' : List (X × E)} {y : X} {e : E}
    (h : Good o log y e) (hsub : ∀ p ∈ log, p ∈ log') : Good o log' y e := by
  intro he
  obtain ⟨h1, h2, h3, h4⟩ := h he
  exact ⟨h1, hsub _ h2, h3, h4⟩

theorem evalB_log_sub (o : Obj X E) (y : X) (log : List (X × E)) : ∀ p ∈ log, p ∈ (o.evalB y log).2 := by
  intro p hp
  unfold Obj.evalB
  split
  · exact hp
  · simp [hp]

/-- the objective at a K-fixed point yields a legitimate (point, energy) pair -/
theorem objAt_good [LinearOrder E] {o : Obj X E} (h : Hyp o) (t : X) (log : List (X × E)) :
    Good o (o.objAt (o.K t) log).2 (o.K t) (o.objAt (o.K t) log).1 := by
  intro he
  unfold Obj.objAt Obj.evalB at *
  split at he
  · simp only at he; exact absurd (h.addTop _) he
  · rename_i hb
    split
    · rename_i hb'; exact absurd hb' hb
    · refine ⟨rfl, by simp, h.idem t, ?_⟩
      intro hu
      simp only [hu, Bool.true_and, Bool.not_eq_true', Bool.not_eq_false] at hb
      exact hb

/-- every entry of the evaluation log is a K-fixed point inside the box, logged with the user's cost -/
def LogOK (o : Obj X E) (log : List (X × E)) : Prop :=
  ∀ p ∈ log, p.2 = o.raw p.1 ∧ o.K p.1 = p.1 ∧ (o.useRange = true → o.inBox p.1 = true)

theorem objAt_logOK [LinearOrder E] {o : Obj X E} (h : Hyp o) (t : X) (log : List (X × E)) (hl : LogOK o log) :
    LogOK o (o.objAt (o.K t) log).2 := by
  unfold Obj.objAt Obj.evalB
  split
  · exact hl
  · rename_i hb
    intro p hp
    simp only [List.mem_append, List.mem_singleton] at hp
    rcases hp with hp | hp
    · exact hl p hp
    · subst hp
      refine ⟨rfl, h.idem t, ?_⟩
      intro hu
      simp only [hu, Bool.true_and, Bool.not_eq_true', Bool.not_eq_false] at hb
      exact hb

/-- the DE invariant (C01 member/best clauses, C02 best-in-box, C03 reported-constrained, C04 history) -/
structure DEInv [LinearOrder E] (o : Obj X E) (s : DE X E) : Prop where
  len : s.pop.length = s.popE.length
  mem : ∀ (i : Nat) (y : X) (e : E), s.pop[i]? = some y → s.popE[i]? = some e → Good o s.log y e
  best : Good o s.log s.best s.bestE
  bestLe : ∀ e ∈ s.popE, s.bestE ≤ e
  logOK : LogOK o s.log
  hist : (s.stepLog.map Prod.snd).Pairwise (· ≥ ·)
  histLe : ∀ e ∈ s.stepLog.map Prod.snd, s.bestE ≤ e

theorem DE.select_log [LinearOrder E] (s : DE X E) (i : Nat) (y : X) (e : E) : (s.select i y e).log = s.log := by
  unfold DE.select
  split
  · rfl
  · split
    · split <;> rfl
    · rfl

theorem DE.select_stepLog [LinearOrder E] (s : DE X E) (i : Nat) (y : X) (e : E) :
    (s.select i y e).stepLog = s.stepLog := by
  unfold DE.select
  split
  · rfl
  · split
    · split <;> rfl
    · rfl

theorem DE.select_bestE_le [LinearOrder E] (s : DE X E) (i : Nat) (y : X) (e : E) :
    (s.select i y e).bestE ≤ s.bestE := by
  unfold DE.select
  split
  · exact le_refl _
  · split
    · split
      · rename_i h; exact le_of_lt h
      · exact le_refl _
    · exact le_refl _

theorem DE.select_inv [LinearOrder E] {o : Obj X E} {s : DE X E} (hs : DEInv o s) (i : Nat) (y : X) (e : E)
    (hg : Good o s.log y e) : DEInv o (s.select i y e) := by
  unfold DE.select
  split
  · exact hs
  · rename_i ei hei
    split
    · rename_i hlt
      have hi : i < s.popE.length := by
        rcases Nat.lt_or_ge i s.popE.length with h | h
        · exact h
        · rw [List.getElem?_eq_none h] at hei; cases hei
      have hmem : ∀ (j : Nat) (y' : X) (e' : E), (s.pop.set i y)[j]? = some y' → (s.popE.set i e)[j]? = some e' →
          Good o s.log y' e' := by
        intro j y' e' hy' he'
        by_cases hji : i = j
        · subst hji
          rw [List.getElem?_set_self (by rw [hs.len]; exact hi)] at hy'
          rw [List.getElem?_set_self hi] at he'
          cases hy'; cases he'; exact hg
        · rw [List.getElem?_set_ne hji] at hy' he'
          exact hs.mem j y' e' hy' he'
      have hle : ∀ e' ∈ s.popE.set i e, min e s.bestE ≤ e' := by
        intro e' he'
        rcases List.mem_or_eq_of_mem_set he' with h | h
        · exact le_trans (min_le_right _ _) (hs.bestLe e' h)
        · rw [h]; exact min_le_left _ _
      split
      · rename_i hb
        refine ⟨by simp [hs.len], hmem, hg, ?_, hs.logOK, hs.hist, ?_⟩
        · intro e' he'; have := hle e' he'; rwa [min_eq_left (le_of_lt hb)] at this
        · intro e' he'; exact le_trans (le_of_lt hb) (hs.histLe e' he')
      · rename_i hb
        refine ⟨by simp [hs.len], hmem, hs.best, ?_, hs.logOK, hs.hist, hs.histLe⟩
        intro e' he'; have := hle e' he'; rwa [min_eq_right (not_lt.mp hb)] at this
    · exact hs

theorem DEInv.withLog [LinearOrder E] {o : Obj X E} {s : DE X E} (hs : DEInv o s) (log' : List (X × E))
    (hsub : ∀ p ∈ s.log, p ∈ log') (hok : LogOK o log') : DEInv o { s with log := log' } :=
  ⟨hs.len, fun i y e hy he => (hs.mem i y e hy he).mono hsub, hs.best.mono hsub, hs.bestLe, hok, hs.hist, hs.histLe⟩

theorem objAt_log_sub (o : Obj X E) (y : X) (log : List (X × E)) : ∀ p ∈ log, p ∈ (o.objAt y log).2 :=
  evalB_log_sub o y log

theorem DE.candidates1_inv [LinearOrder E] {o : Obj X E} (h : Hyp o) :
    ∀ (ts : List X) (i : Nat) (s : DE X E), DEInv o s → DEInv o (DE.candidates1 o ts i s) := by
  intro ts
  induction ts with
  | nil => intro i s hs; exact hs
  | cons t ts ih =>
    intro i s hs
    unfold DE.candidates1
    apply ih
    have hs' := hs.withLog (o.objAt (o.K t) s.log).2 (objAt_log_sub o _ _) (objAt_logOK h t s.log hs.logOK)
    exact DE.select_inv hs' i (o.K t) _ (objAt_good h t s.log)

theorem DE.candidates1_bestE_le [LinearOrder E] (o : Obj X E) :
    ∀ (ts : List X) (i : Nat) (s : DE X E), (DE.candidates1 o ts i s).bestE ≤ s.bestE := by
  intro ts
  induction ts with
  | nil => intro i s; exact le_refl _
  | cons t ts ih =>
    intro i s
    unfold DE.candidates1
    exact le_trans (ih _ _) (DE.select_bestE_le _ _ _ _)

theorem DE.candidates1_stepLog [LinearOrder E] (o : Obj X E) :
    ∀ (ts : List X) (i : Nat) (s : DE X E), (DE.candidates1 o ts i s).stepLog = s.stepLog := by
  intro ts
  induction ts with
  | nil => intro i s; rfl
  | cons t ts ih =>
    intro i s
    unfold DE.candidates1
    rw [ih, DE.select_stepLog]

/-- appending the current best to the step monitor keeps the history invariant -/
theorem DEInv.logStep [LinearOrder E] {o : Obj X E} {s : DE X E} (hs : DEInv o s) :
    DEInv o { s with stepLog := s.stepLog ++ [(s.best, s.bestE)] } := by
  refine ⟨hs.len, hs.mem, hs.best, hs.bestLe, hs.logOK, ?_, ?_⟩
  · simp only [List.map_append, List.map_cons, List.map_nil]
    rw [List.pairwise_append]
    refine ⟨hs.hist, by simp, ?_⟩
    intro a ha b hb
    simp only [List.mem_singleton] at hb
    subst hb
    exact hs.histLe a ha
  · intro e he
    simp only [List.map_append, List.map_cons, List.map_nil, List.mem_append, List.mem_singleton] at he
    rcases he with he | he
    · exact hs.histLe e he
    · rw [he]

theorem DE.step1_inv [LinearOrder E] {o : Obj X E} (h : Hyp o) (trials : List X) (s : DE X E) (hs : DEInv o s) :
    DEInv o (DE.step1 o trials s) := by
  unfold DE.step1
  have h1 := DE.candidates1_inv h trials 0 s hs
  have hle := DE.candidates1_bestE_le o trials 0 s
  have hsl := DE.candidates1_stepLog o trials 0 s
  -- the history bound must be re-established against the (possibly lower) new best
  exact (show DEInv o (DE.candidates1 o trials 0 s) from h1).logStep

theorem DE.init_inv [LinearOrder E] {o : Obj X E} (pop : List X) (x0 : X) : DEInv o (DE.init o pop x0) := by
  refine ⟨by simp [DE.init], ?_, ?_, ?_, ?_, by simp [DE.init], by simp [DE.init]⟩
  · intro i y e _ he hne
    simp only [DE.init, List.getElem?_map, Option.map_eq_some_iff] at he
    obtain ⟨_, _, rfl⟩ := he
    exact absurd rfl hne
  · intro hne; exact absurd rfl hne
  · intro e he
    simp only [DE.init, List.mem_map] at he
    obtain ⟨_, _, rfl⟩ := he
    exact le_refl _
  · intro p hp; simp [DE.init] at hp

/-- any number of DE1 steps with ANY trial vectors (any strategy, any random draws) -/
def DE.run1 [LT E] [DecidableLT E] (o : Obj X E) (trialss : List (List X)) (s : DE X E) : DE X E :=
  trialss.foldl (fun s ts => DE.step1 o ts s) s

theorem DE.run1_inv [LinearOrder E] {o : Obj X E} (h : Hyp o) :
    ∀ (trialss : List (List X)) (s : DE X E), DEInv o s → DEInv o (DE.run1 o trialss s) := by
  intro trialss
  induction trialss with
  | nil => intro s hs; exact hs
  | cons ts tss ih => intro s hs; exact ih _ (DE.step1_inv h ts s hs)

/-! ### DE2 = DE1 on everything observable when the map returns results in input order -/

theorem DE.evalAll_eq [LinearOrder E] (o : Obj X E) :
    ∀ (ts : List X) (i : Nat) (s : DE X E),
      DE.selectAll (DE.evalAll o ts s.log).1 i { s with log := (DE.evalAll o ts s.log).2 }
        = DE.candidates1 o ts i s := by
  intro ts
  induction ts with
  | nil => intro i s; rfl
  | cons t ts ih =>
    intro i s
    simp only [DE.evalAll, DE.selectAll, DE.candidates1]
    have hl := DE.select_log { s with log := (o.objAt (o.K t) s.log).2 } i (o.K t) (o.objAt (o.K t) s.log).1
    have := ih (i + 1) (DE.select { s with log := (o.objAt (o.K t) s.log).2 } i (o.K t) (o.objAt (o.K t) s.log).1)
    rw [hl] at this
    rw [← this]
    -- selection commutes with replacing the log (it never reads or writes it)
    congr 1
    unfold DE.select
    simp only
    split
    · rfl
    · split
      · split <;> rfl
      · rfl

theorem DE.step2_eq_step1 [LinearOrder E] (o : Obj X E) (trials : List X) (s : DE X E) :
    DE.step2 o trials s = DE.step1 o trials s := by
  unfold DE.step2 DE.step1
  simp only
  rw [DE.evalAll_eq]

end MysticVerif.Solver
