/- helper lemmas for Props/C16 -/
import MysticVerif.Model.Transforms
import Mathlib.Tactic.Linarith
import Mathlib.Tactic.Ring
import Mathlib.Tactic.FieldSimp
import Mathlib.Tactic.Order
import Mathlib.Order.Basic
import Mathlib.Algebra.Order.Field.Basic
import Mathlib.Data.Rat.Floor

namespace MysticVerif.Trans

variable {R : Type}

theorem maskMap_getElem? (g : R → R) (sel : Nat → Bool) (x : List R) (k : Nat) :
    (maskMap g sel x)[k]? = (x[k]?).map (fun a => if sel k = true then g a else a) := by
  simp [maskMap, List.getElem?_mapIdx]

theorem wrapIdx_none (n : Nat) (i : Int) (h : (n : Int) ≤ i ∨ i < -(n : Int)) : wrapIdx n i = none := by
  unfold wrapIdx
  split
  · rename_i h0
    rw [if_neg]; omega
  · rw [if_neg]; omega

theorem wrapIdx_some (n : Nat) (i : Int) (h : -(n : Int) ≤ i ∧ i < n) :
    ∃ k, wrapIdx n i = some k ∧ k < n ∧ ((k : Int) = i ∨ (k : Int) - n = i) := by
  unfold wrapIdx
  split
  · rename_i h0
    refine ⟨i.toNat, ?_, by omega, Or.inl (by omega)⟩
    rw [if_pos]; omega
  · refine ⟨n - (-i).toNat, ?_, by omega, Or.inr (by omega)⟩
    rw [if_pos]; omega

theorem wrapAll_none_of_mem (n : Nat) (is : List Int) (i : Int) (hi : i ∈ is) (h : wrapIdx n i = none) :
    wrapAll n is = none := by
  induction is with
  | nil => simp at hi
  | cons j js ih =>
    simp only [wrapAll]
    rcases List.mem_cons.mp hi with rfl | hj
    · rw [h]
    · rw [ih hj]
      cases wrapIdx n j <;> rfl

theorem wrapAll_some (n : Nat) (is : List Int) (hin : ∀ i ∈ is, -(n : Int) ≤ i ∧ i < n) :
    ∃ ks, wrapAll n is = some ks ∧ ∀ k, k < n → (k ∈ ks ↔ ((k : Int) ∈ is ∨ (k : Int) - n ∈ is)) := by
  induction is with
  | nil => exact ⟨[], rfl, by simp⟩
  | cons j js ih =>
    obtain ⟨ks, hks, hmem⟩ := ih (fun i hi => hin i (List.mem_cons_of_mem _ hi))
    obtain ⟨kj, hkj, hlt, hor⟩ := wrapIdx_some n j (hin j List.mem_cons_self)
    refine ⟨kj :: ks, by simp [wrapAll, hkj, hks], ?_⟩
    intro k hk
    simp only [List.mem_cons, hmem k hk]
    constructor
    · rintro (rfl | h)
      · rcases hor with h | h
        · left; left; exact h
        · right; left; exact h
      · rcases h with h | h
        · left; right; exact h
        · right; right; exact h
    · rintro ((h | h) | (h | h))
      · left; omega
      · right; left; exact h
      · left; omega
      · right; right; exact h

theorem wrapIdx_lt {n : Nat} {i : Int} {k : Nat} (h : wrapIdx n i = some k) : k < n := by
  unfold wrapIdx at h
  split at h
  · split at h
    · simp at h; omega
    · simp at h
  · split at h
    · simp at h; omega
    · simp at h

theorem wrapAll_length (n : Nat) (is : List Int) (ks : List Nat) (h : wrapAll n is = some ks) :
    is.length = ks.length := by
  induction is generalizing ks with
  | nil => simp [wrapAll] at h; subst h; rfl
  | cons i is ih =>
    simp only [wrapAll] at h
    cases hi : wrapIdx n i with
    | none => simp [hi] at h
    | some k =>
      cases ha : wrapAll n is with
      | none => simp [hi, ha] at h
      | some ks' =>
        simp [hi, ha] at h; subst h
        simp [ih ks' ha]

theorem wrapAll_lt (n : Nat) (is : List Int) (ks : List Nat) (h : wrapAll n is = some ks) :
    ∀ k ∈ ks, k < n := by
  induction is generalizing ks with
  | nil => simp [wrapAll] at h; subst h; simp
  | cons i is ih =>
    simp only [wrapAll] at h
    cases hi : wrapIdx n i with
    | none => simp [hi] at h
    | some k =>
      cases ha : wrapAll n is with
      | none => simp [hi, ha] at h
      | some ks' =>
        simp [hi, ha] at h; subst h
        intro k' hk'
        rcases List.mem_cons.mp hk' with rfl | hk'
        · exact wrapIdx_lt hi
        · exact ih ks' ha k' hk'

theorem clipOpt_some {K : Type} [LinearOrder K] (lo hi a : K) :
    clipOpt (some lo) (some hi) a = clipAt lo hi a := by
  unfold clipOpt clipAt; simp only
  split <;> split <;> split <;> split <;> order

/-! ### scatter / gather -/

theorem scatter_length (ks : List Nat) (vs : List R) (x : List R) : (scatter ks vs x).length = x.length := by
  induction ks generalizing vs x with
  | nil => simp [scatter]
  | cons k ks ih =>
    cases vs with
    | nil => simp [scatter]
    | cons v vs => simp [scatter, ih]

theorem scatter_not_mem (ks : List Nat) (vs : List R) (x : List R) (k : Nat) (hk : k ∉ ks) :
    (scatter ks vs x)[k]? = x[k]? := by
  induction ks generalizing vs x with
  | nil => simp [scatter]
  | cons k0 ks ih =>
    cases vs with
    | nil => simp [scatter]
    | cons v vs =>
      simp only [scatter]
      rw [ih _ _ (fun h => hk (List.mem_cons_of_mem _ h))]
      have : k0 ≠ k := fun h => hk (h ▸ List.mem_cons_self)
      simp [List.getElem?_set, this]

theorem scatter_replicate_mem (ks : List Nat) (t : R) (x : List R) (k : Nat) (hk : k ∈ ks) (hlt : k < x.length) :
    (scatter ks (List.replicate ks.length t) x)[k]? = some t := by
  induction ks generalizing x with
  | nil => simp at hk
  | cons k0 ks ih =>
    simp only [List.length_cons, List.replicate_succ, scatter]
    by_cases hmem : k ∈ ks
    · exact ih _ hmem (by simpa using hlt)
    · have : k = k0 := by
        rcases List.mem_cons.mp hk with h | h
        · exact h
        · exact absurd h hmem
      subst this
      rw [scatter_not_mem _ _ _ _ hmem]
      simp [List.getElem?_set, hlt]

/-! ### Python item assignment -/

/-- the slot a Python index addresses -/
def slot (n : Nat) (i : Int) : Option Nat := wrapIdx n i

theorem setPy_length (x : List R) (i : Int) (v : R) : (setPy x i v).length = x.length := by
  unfold setPy; split <;> simp

theorem setPy_getElem? (x : List R) (i : Int) (v : R) (k : Nat) :
    (setPy x i v)[k]? = if wrapIdx x.length i = some k then some v else x[k]? := by
  unfold setPy
  cases h : wrapIdx x.length i with
  | none => simp
  | some k0 =>
    have hlt := wrapIdx_lt h
    by_cases hk : k0 = k
    · subst hk; simp [List.getElem?_set, hlt]
    · simp [List.getElem?_set, hk]

/-- the last value written to slot `k` by a `partial` mask, if any -/
def lastWrite (n : Nat) : List (Int × R) → Nat → Option R
  | [], _ => none
  | e :: rest, k =>
    match lastWrite n rest k with
    | some v => some v
    | none => if wrapIdx n e.1 = some k then some e.2 else none

theorem partialMask_length (mask : List (Int × R)) (x : List R) : (partialMask mask x).length = x.length := by
  unfold partialMask
  induction mask generalizing x with
  | nil => rfl
  | cons e rest ih => simp only [List.foldl_cons]; rw [ih, setPy_length]

theorem partialMask_getElem? (mask : List (Int × R)) (x : List R) (k : Nat) :
    (partialMask mask x)[k]? = (x[k]?).map (fun a => (lastWrite x.length mask k).getD a) := by
  unfold partialMask
  induction mask generalizing x with
  | nil => simp [lastWrite]
  | cons e rest ih =>
    simp only [List.foldl_cons]
    rw [ih, setPy_length, setPy_getElem?]
    simp only [lastWrite]
    cases hl : lastWrite x.length rest k with
    | some v =>
      split
      · rename_i hw
        have := wrapIdx_lt hw
        simp [List.getElem?_eq_getElem this]
      · rfl
    | none =>
      split
      · rename_i hw
        have := wrapIdx_lt hw
        simp [List.getElem?_eq_getElem this]
      · simp

theorem absR_eq_abs {K : Type} [Field K] [LinearOrder K] [IsStrictOrderedRing K] (a : K) : absR a = |a| := by
  unfold absR
  split
  · rename_i h; rw [abs_of_neg h]
  · rename_i h; rw [abs_of_nonneg (not_lt.mp h)]

theorem eqR_iff {K : Type} [LinearOrder K] (a b : K) : eqR a b = true ↔ a = b := by
  unfold eqR
  simp only [Bool.and_eq_true, decide_eq_true_eq]
  constructor
  · rintro ⟨h1, h2⟩; exact le_antisymm h1 h2
  · rintro rfl; exact ⟨le_refl _, le_refl _⟩

/-! ### insertion sort / running extreme -/

section sort
variable {K : Type} [LinearOrder K]

/-- in order: ascending (`asc`) or descending -/
def Ordered (asc : Bool) (l : List K) : Prop := l.Pairwise (fun a b => if asc = true then a ≤ b else b ≤ a)

theorem ins_perm (asc : Bool) (a : K) (l : List K) : (ins asc a l).Perm (a :: l) := by
  induction l with
  | nil => simp [ins]
  | cons b t ih =>
    unfold ins
    by_cases hc : (if asc = true then a < b else b < a)
    · rw [if_pos hc]
    · rw [if_neg hc]; exact (List.Perm.cons b ih).trans (List.Perm.swap a b t)

theorem ins_ordered (asc : Bool) (a : K) (l : List K) (h : Ordered asc l) : Ordered asc (ins asc a l) := by
  induction l with
  | nil => simp [ins, Ordered]
  | cons b t ih =>
    unfold ins
    have hb : ∀ c ∈ t, (if asc = true then b ≤ c else c ≤ b) := fun c hc => List.rel_of_pairwise_cons h hc
    have ht := List.Pairwise.of_cons h
    by_cases hab : (if asc = true then a < b else b < a)
    · rw [if_pos hab]
      refine List.Pairwise.cons ?_ h
      intro c hc
      rcases List.mem_cons.mp hc with rfl | hc
      · cases asc <;> simp at hab ⊢ <;> exact le_of_lt hab
      · have := hb c hc
        cases asc <;> simp at hab this ⊢ <;> order
    · rw [if_neg hab]
      refine List.Pairwise.cons ?_ (ih ht)
      intro c hc
      rcases List.mem_cons.mp ((ins_perm asc a t).subset hc) with rfl | hc
      · cases asc <;> simp at hab ⊢ <;> order
      · exact hb c hc

theorem foldl_ins_perm (asc : Bool) (l acc : List K) :
    (l.foldl (fun acc a => ins asc a acc) acc).Perm (acc ++ l) := by
  induction l generalizing acc with
  | nil => simp
  | cons a t ih =>
    simp only [List.foldl_cons]
    refine (ih _).trans ?_
    refine ((ins_perm asc a acc).append_right t).trans ?_
    simp only [List.cons_append]
    exact (List.perm_middle (a := a) (l₁ := acc) (l₂ := t)).symm

theorem foldl_ins_ordered (asc : Bool) (l acc : List K) (h : Ordered asc acc) :
    Ordered asc (l.foldl (fun acc a => ins asc a acc) acc) := by
  induction l generalizing acc with
  | nil => exact h
  | cons a t ih => exact ih _ (ins_ordered asc a acc h)

theorem sortBy_perm (asc : Bool) (x : List K) : (sortBy asc x).Perm x := by
  simpa [sortBy] using foldl_ins_perm asc x []

theorem sortBy_ordered (asc : Bool) (x : List K) : Ordered asc (sortBy asc x) :=
  foldl_ins_ordered asc x [] (by simp [Ordered])

/-- inserting an element that is not before any member appends it -/
theorem ins_append (asc : Bool) (a : K) (l : List K)
    (h : ∀ b ∈ l, if asc = true then b ≤ a else a ≤ b) : ins asc a l = l ++ [a] := by
  induction l with
  | nil => rfl
  | cons b t ih =>
    unfold ins
    have hb := h b List.mem_cons_self
    rw [if_neg]
    · simp [ih (fun c hc => h c (List.mem_cons_of_mem _ hc))]
    · cases asc <;> simp at hb ⊢ <;> exact hb

theorem foldl_ins_fix (asc : Bool) (l acc : List K) (h : Ordered asc (acc ++ l)) :
    l.foldl (fun acc a => ins asc a acc) acc = acc ++ l := by
  induction l generalizing acc with
  | nil => simp
  | cons a t ih =>
    simp only [List.foldl_cons]
    have hins : ins asc a acc = acc ++ [a] := by
      apply ins_append
      intro b hb
      have := List.pairwise_append.mp h
      exact this.2.2 b hb a List.mem_cons_self
    rw [hins, ih (acc ++ [a]) (by simpa using h)]
    simp

theorem sortBy_fix (asc : Bool) (x : List K) (h : Ordered asc x) : sortBy asc x = x := by
  simpa [sortBy] using foldl_ins_fix asc x [] (by simpa using h)

/-! running maximum / minimum -/

/-- `b` is at least as far along as `m` -/
def Beyond (asc : Bool) (m b : K) : Prop := if asc = true then m ≤ b else b ≤ m

theorem accumGo_spec (asc : Bool) (l : List K) (m : K) :
    Ordered asc (accumGo asc m l) ∧ ∀ b ∈ accumGo asc m l, Beyond asc m b := by
  induction l generalizing m with
  | nil => simp [accumGo, Ordered]
  | cons b t ih =>
    simp only [accumGo]
    obtain ⟨h1, h2⟩ := ih (if (if asc = true then b < m else m < b) then m else b)
    have hm : Beyond asc m (if (if asc = true then b < m else m < b) then m else b) := by
      unfold Beyond; cases asc <;> simp <;> split <;> order
    refine ⟨List.Pairwise.cons ?_ h1, ?_⟩
    · intro c hc
      have := h2 c hc
      unfold Beyond at this
      exact this
    · intro c hc
      rcases List.mem_cons.mp hc with rfl | hc
      · exact hm
      · have := h2 c hc
        unfold Beyond at this hm ⊢
        cases asc <;> simp at this hm ⊢ <;> order

theorem accum_ordered (asc : Bool) (x : List K) : Ordered asc (accum asc x) := by
  cases x with
  | nil => simp [accum, Ordered]
  | cons a t =>
    simp only [accum]
    obtain ⟨h1, h2⟩ := accumGo_spec asc t a
    exact List.Pairwise.cons (fun c hc => h2 c hc) h1

theorem accumGo_fix (asc : Bool) (l : List K) (m : K) (h : Ordered asc (m :: l)) : accumGo asc m l = l := by
  induction l generalizing m with
  | nil => rfl
  | cons b t ih =>
    simp only [accumGo]
    have hmb := List.rel_of_pairwise_cons h (List.mem_cons_self (a := b) (l := t))
    have : (if (if asc = true then b < m else m < b) then m else b) = b := by
      cases asc <;> simp at hmb ⊢ <;> intro hlt <;> order
    rw [this, ih b (List.Pairwise.of_cons h)]

theorem accum_fix (asc : Bool) (x : List K) (h : Ordered asc x) : accum asc x = x := by
  cases x with
  | nil => rfl
  | cons a t => simp only [accum]; rw [accumGo_fix asc t a h]

theorem accumGo_dominates (asc : Bool) (l : List K) (m : K) (k : Nat) (a b : K) (ha : l[k]? = some a)
    (hb : (accumGo asc m l)[k]? = some b) : Beyond asc a b := by
  induction l generalizing m k with
  | nil => simp at ha
  | cons c t ih =>
    simp only [accumGo] at hb
    cases k with
    | zero =>
      simp at ha hb; subst ha; subst hb
      unfold Beyond; cases asc <;> simp <;> split <;> order
    | succ k =>
      simp at ha hb
      exact ih _ k ha hb

theorem accum_dominates (asc : Bool) (x : List K) (k : Nat) (a b : K) (ha : x[k]? = some a)
    (hb : (accum asc x)[k]? = some b) : if asc = true then a ≤ b else b ≤ a := by
  cases x with
  | nil => simp at ha
  | cons c t =>
    simp only [accum] at hb
    cases k with
    | zero => simp at ha hb; subst ha; subst hb; cases asc <;> simp
    | succ k =>
      simp at ha hb
      exact accumGo_dominates asc t c k a b ha hb

end sort

/-! ### statistics -/

section stats
variable {K : Type} [Field K] [LinearOrder K] [IsStrictOrderedRing K]

theorem close_iff (atol rtol a b : K) : close atol rtol a b = true ↔ |a - b| ≤ atol + rtol * |b| := by
  simp [close, absR_eq_abs]

theorem close_self (atol rtol a : K) (h0 : 0 ≤ atol) (h1 : 0 ≤ rtol) : close atol rtol a a = true := by
  rw [close_iff, sub_self, abs_zero]
  have := mul_nonneg h1 (abs_nonneg a)
  linarith

theorem sum_map_add_const (x : List K) (s : K) : (x.map (· + s)).sum = x.sum + (x.length : K) * s := by
  induction x with
  | nil => simp
  | cons a t ih => simp only [List.map_cons, List.sum_cons, List.length_cons, ih]; push_cast; ring

theorem mean_imposeMean (m : K) (x : List K) (hx : x ≠ []) :
    meanL List.sum Nat.cast (imposeMean List.sum Nat.cast m x) = m := by
  unfold imposeMean meanL
  simp only [List.length_map]
  rw [sum_map_add_const]
  have hn : (x.length : K) ≠ 0 := by
    have : x.length ≠ 0 := fun h => hx (List.eq_nil_of_length_eq_zero h)
    exact_mod_cast this
  field_simp
  ring

theorem sum_map_div (x : List K) (w : K) : (x.map (· / w)).sum = x.sum / w := by
  induction x with
  | nil => simp
  | cons a t ih => simp only [List.map_cons, List.sum_cons, ih]; ring

theorem sum_map_mul_div (x : List K) (c d : K) : (x.map (fun a => c * a / d)).sum = c * x.sum / d := by
  induction x with
  | nil => simp
  | cons a t ih => simp only [List.map_cons, List.sum_cons, ih]; ring

theorem abs_sum_le (x : List K) : |x.sum| ≤ (x.map absR).sum := by
  induction x with
  | nil => simp
  | cons a t ih =>
    simp only [List.map_cons, List.sum_cons, absR_eq_abs]
    exact le_trans (abs_add_le a t.sum) (by linarith)

theorem sum_abs_ne_zero (x : List K) (hs : x.sum ≠ 0) : (x.map absR).sum ≠ 0 := by
  intro h
  have := abs_sum_le x
  rw [h] at this
  exact hs (abs_eq_zero.mp (le_antisymm this (abs_nonneg _)))

end stats

/-! ### discrete: the sorted sample array -/

section disc
variable {K : Type} [LinearOrder K]

/-- in an ascending list the entries `< xi` are exactly the first `countLt s xi` ones -/
theorem countLt_prefix (s : List K) (hs : Ordered true s) (xi : K) :
    (∀ i v, i < countLt s xi → s[i]? = some v → v < xi) ∧ (∀ i v, countLt s xi ≤ i → s[i]? = some v → xi ≤ v) := by
  induction s with
  | nil => simp [countLt]
  | cons b t ih =>
    have hb : ∀ c ∈ t, b ≤ c := fun c hc => by simpa using List.rel_of_pairwise_cons hs hc
    obtain ⟨ih1, ih2⟩ := ih (List.Pairwise.of_cons hs)
    by_cases hlt : b < xi
    · have hc : countLt (b :: t) xi = countLt t xi + 1 := by simp [countLt, List.filter_cons, hlt]
      rw [hc]
      constructor
      · intro i v hi hv
        cases i with
        | zero => simp at hv; subst hv; exact hlt
        | succ i => simp at hv; exact ih1 i v (by omega) hv
      · intro i v hi hv
        cases i with
        | zero => omega
        | succ i => simp at hv; exact ih2 i v (by omega) hv
    · have hall : ∀ c ∈ t, ¬ c < xi := fun c hc h => hlt (lt_of_le_of_lt (hb c hc) h)
      have hc : countLt (b :: t) xi = 0 := by
        simp only [countLt, List.filter_cons, hlt, decide_false, Bool.false_eq_true, if_false]
        rw [List.length_eq_zero_iff, List.filter_eq_nil_iff]
        intro c hc; simpa using hall c hc
      rw [hc]
      constructor
      · intro i v hi; omega
      · intro i v _ hv
        cases i with
        | zero => simp at hv; subst hv; exact not_lt.mp hlt
        | succ i =>
          simp at hv
          exact not_lt.mp (hall v (List.mem_of_getElem? hv))

end disc

/-! ### unique -/

section uniq
variable {R : Type} [BEq R] [LawfulBEq R]

theorem uniqueGo_spec : ∀ (x seen new y : List R), uniqueGo x seen new = .ok y → new.Nodup →
    (∀ v ∈ new, v ∉ seen ∧ v ∉ x) →
    y.Nodup ∧ (∀ b ∈ y, b ∉ seen) ∧ (∀ b ∈ y, b ∈ x ∨ b ∈ new) := by
  intro x
  induction x with
  | nil => intro seen new y hy _ _; simp [uniqueGo] at hy; subst hy; simp
  | cons a t ih =>
    intro seen new y hy hnd hnew
    unfold uniqueGo at hy
    split at hy
    · rename_i hseen
      split at hy
      · cases hy
      · rename_i v rest hrev
        have hnewe : new = rest.reverse ++ [v] := by
          have := congrArg List.reverse hrev; simpa using this
        cases hr : uniqueGo t seen rest.reverse with
        | error e => simp [hr, Except.map] at hy
        | ok y' =>
          simp [hr, Except.map] at hy; subst hy
          subst hnewe
          have hnd' : rest.reverse.Nodup := (List.nodup_append.mp hnd).1
          have hv : v ∉ rest.reverse := by
            intro h
            have := (List.nodup_append.mp hnd).2.2 v h v (by simp)
            exact this rfl
          obtain ⟨i1, i2, i3⟩ := ih seen rest.reverse y' hr hnd'
            (fun w hw => ⟨(hnew w (by simp [List.mem_reverse.mp hw] )).1,
              fun h => (hnew w (by simp [List.mem_reverse.mp hw])).2 (List.mem_cons_of_mem _ h)⟩)
          have hvn := hnew v (by simp)
          refine ⟨List.nodup_cons.mpr ⟨?_, i1⟩, ?_, ?_⟩
          · intro h
            rcases i3 v h with h | h
            · exact hvn.2 (List.mem_cons_of_mem _ h)
            · exact hv h
          · intro b hb
            rcases List.mem_cons.mp hb with rfl | hb
            · exact hvn.1
            · exact i2 b hb
          · intro b hb
            rcases List.mem_cons.mp hb with rfl | hb
            · right; simp
            · rcases i3 b hb with h | h
              · left; exact List.mem_cons_of_mem _ h
              · right; simp [List.mem_reverse.mp h]
    · rename_i hseen
      cases hr : uniqueGo t (a :: seen) new with
      | error e => simp [hr, Except.map] at hy
      | ok y' =>
        simp [hr, Except.map] at hy; subst hy
        have hseen' : a ∉ seen := by simpa using hseen
        obtain ⟨i1, i2, i3⟩ := ih (a :: seen) new y' hr hnd
          (fun w hw => ⟨fun h => by
              rcases List.mem_cons.mp h with rfl | h
              · exact (hnew w hw).2 List.mem_cons_self
              · exact (hnew w hw).1 h,
            fun h => (hnew w hw).2 (List.mem_cons_of_mem _ h)⟩)
        refine ⟨List.nodup_cons.mpr ⟨fun h => i2 a h List.mem_cons_self, i1⟩, ?_, ?_⟩
        · intro b hb
          rcases List.mem_cons.mp hb with rfl | hb
          · exact hseen'
          · exact fun h => i2 b hb (List.mem_cons_of_mem _ h)
        · intro b hb
          rcases List.mem_cons.mp hb with rfl | hb
          · left; exact List.mem_cons_self
          · rcases i3 b hb with h | h
            · left; exact List.mem_cons_of_mem _ h
            · right; exact h

end uniq

/-! ### argmin (first minimum) -/

section argmin
variable {K : Type} [LinearOrder K]

theorem getElem?_snoc (pre : List K) (d : K) (j : Nat) (v : K) (h : (pre ++ [d])[j]? = some v) :
    (j < pre.length ∧ pre[j]? = some v) ∨ (j = pre.length ∧ v = d) := by
  rcases Nat.lt_or_ge j pre.length with hj | hj
  · left; rw [List.getElem?_append_left hj] at h; exact ⟨hj, h⟩
  · right
    rw [List.getElem?_append_right hj] at h
    rcases Nat.eq_zero_or_pos (j - pre.length) with h0 | hp
    · rw [h0] at h; simp at h; exact ⟨by omega, h.symm⟩
    · have : (j - pre.length) = (j - pre.length - 1) + 1 := by omega
      rw [this] at h; simp at h

theorem argminGo_spec (t : List K) : ∀ (pre : List K) (best : K) (bi : Nat),
    pre[bi]? = some best → (∀ (j : Nat) (v : K), pre[j]? = some v → best ≤ v) → (∀ (j : Nat) (v : K), j < bi → pre[j]? = some v → best < v) →
    ∃ b, (pre ++ t)[argminGo t pre.length best bi]? = some b ∧ (∀ (j : Nat) (v : K), (pre ++ t)[j]? = some v → b ≤ v)
      ∧ (∀ (j : Nat) (v : K), j < argminGo t pre.length best bi → (pre ++ t)[j]? = some v → b < v) := by
  induction t with
  | nil =>
    intro pre best bi h1 h2 h3
    simp only [argminGo, List.append_nil]
    exact ⟨best, h1, h2, h3⟩
  | cons d t ih =>
    intro pre best bi h1 h2 h3
    have hbi : bi < pre.length := by
      by_contra h
      rw [List.getElem?_eq_none (by omega)] at h1; cases h1
    unfold argminGo
    by_cases hd : d < best
    · rw [if_pos hd]
      have := ih (pre ++ [d]) d pre.length (by simp)
        (fun (j : Nat) (v : K) hv => by
          rcases getElem?_snoc pre d j v hv with ⟨_, h⟩ | ⟨_, h⟩
          · exact le_of_lt (lt_of_lt_of_le hd (h2 j v h))
          · rw [h])
        (fun (j : Nat) (v : K) hj hv => by
          rcases getElem?_snoc pre d j v hv with ⟨_, h⟩ | ⟨h, _⟩
          · exact lt_of_lt_of_le hd (h2 j v h)
          · omega)
      rw [List.length_append, List.length_singleton, List.append_assoc, List.singleton_append] at this
      exact this
    · rw [if_neg hd]
      have := ih (pre ++ [d]) best bi (by rw [List.getElem?_append_left hbi]; exact h1)
        (fun (j : Nat) (v : K) hv => by
          rcases getElem?_snoc pre d j v hv with ⟨_, h⟩ | ⟨_, h⟩
          · exact h2 j v h
          · rw [h]; exact not_lt.mp hd)
        (fun (j : Nat) (v : K) hj hv => by
          rcases getElem?_snoc pre d j v hv with ⟨_, h⟩ | ⟨h, _⟩
          · exact h3 j v hj h
          · omega)
      rw [List.length_append, List.length_singleton, List.append_assoc, List.singleton_append] at this
      exact this

/-- `argminFirst l` is the FIRST index of a minimum of `l` -/
theorem argminFirst_spec (l : List K) (hl : l ≠ []) :
    ∃ b, l[argminFirst l]? = some b ∧ (∀ (j : Nat) (v : K), l[j]? = some v → b ≤ v)
      ∧ (∀ (j : Nat) (v : K), j < argminFirst l → l[j]? = some v → b < v) := by
  cases l with
  | nil => exact absurd rfl hl
  | cons d t =>
    have := argminGo_spec t [d] d 0 (by simp)
      (fun (j : Nat) (v : K) hv => by
        cases j with
        | zero => simp at hv; rw [hv]
        | succ j => simp at hv)
      (fun (j : Nat) (v : K) hj _ => by omega)
    simpa [argminFirst] using this

end argmin
end MysticVerif.Trans
