/- helper definitions and lemmas for Props/C15 -/
import MysticVerif.Model.Penalty
import Mathlib.Tactic.Linarith
import Mathlib.Tactic.Ring
import Mathlib.Tactic.FieldSimp
import Mathlib.Algebra.Order.Field.Basic
import Mathlib.Algebra.Order.Ring.Abs
import Mathlib.Algebra.BigOperators.Group.Finset.Basic

set_option linter.unusedSectionVars false

namespace MysticVerif.C15
open MysticVerif.Pen

/-- the idealisation under which the theorems read the scalar operations of the code:
`pow(h, n)` is the integer power, `x**2` is `x*x`, `abs` is the absolute value -/
class LawfulPenOps (K : Type) [Field K] [LinearOrder K] [PenOps K] : Prop where
  powi_eq : ∀ (a : K) (n : Int), PenOps.powi a n = a ^ n
  sq_eq : ∀ a : K, PenOps.sq a = a * a
  abs_eq : ∀ a : K, PenOps.abs a = |a|

/-- `x**0.5` is the non-negative square root (needed by the `error` theorems only) -/
class LawfulRoot (K : Type) [Field K] [LinearOrder K] [PenOps K] : Prop where
  root_nonneg : ∀ a : K, 0 ≤ a → 0 ≤ PenOps.root a
  root_mul_self : ∀ a : K, 0 ≤ a → PenOps.root a * PenOps.root a = a

variable {K : Type} [Field K] [LinearOrder K] [IsStrictOrderedRing K] [PenOps K] [LawfulPenOps K]

/-- the condition is satisfied: `== 0` for equality types, `<= 0` for inequality types -/
def satisfied (t : PType) (c : K) : Prop := if t.isEq = true then c = 0 else c ≤ 0

/-- the six types whose documented formula adds nothing on the feasible set -/
def conforming (t : PType) : Prop :=
  t = .qEq ∨ t = .lEq ∨ t = .uEq ∨ t = .uIneq ∨ t = .qIneq ∨ t = .lIneq

theorem pyMax_eq (a b : K) : pyMax a b = max a b := by
  unfold pyMax
  split
  · rename_i h; exact (max_eq_right (le_of_lt h)).symm
  · rename_i h; exact (max_eq_left (not_lt.mp h)).symm

theorem pyMin_eq (a b : K) : pyMin a b = min a b := by
  unfold pyMin
  split
  · rename_i h; exact (min_eq_right (le_of_lt h)).symm
  · rename_i h; exact (min_eq_left (not_lt.mp h)).symm

theorem pyPow_ok (h : K) (n : Int) (hp : ¬ (h = 0 ∧ n < 0)) : pyPow h n = .ok (h ^ n) := by
  unfold pyPow
  rw [if_neg (by simpa using hp), LawfulPenOps.powi_eq]

theorem pyPow_err (h : K) (n : Int) (hp : h = 0 ∧ n < 0) : pyPow h n = .error .zerodiv := by
  unfold pyPow
  rw [if_pos (by simpa using hp)]

theorem pyDiv_ok (a b : K) (hb : b ≠ 0) : pyDiv a b = .ok (a / b) := by
  unfold pyDiv
  rw [if_neg (by simpa using hb)]

theorem pyDiv_err (a : K) : pyDiv a (0 : K) = .error .zerodiv := by
  unfold pyDiv
  rw [if_pos (by simp)]

/-! ### one level on top of a stack -/

theorem evalStack_cons_add {l : Level K} {c a : K} (rest : List (Level K × Option K)) (fx : K)
    (ht : term l c = .ok (.add a)) :
    evalStack ((l, some c) :: rest) fx =
      (match evalStack rest fx with | .error e => .error e | .ok v => .ok (a + v)) := by
  simp only [evalStack, ht]
  cases evalStack rest fx <;> rfl

theorem evalStack_single_add {l : Level K} {c a : K} (fx : K) (ht : term l c = .ok (.add a)) :
    evalStack [(l, some c)] fx = .ok (a + fx) := by
  simp only [evalStack, ht]

/-! ### the added amount, per type -/

theorem term_qEq (k h : K) (n : Int) (y : List K) (c : K) (hp : ¬ (h = 0 ∧ n < 0)) :
    term { t := .qEq, k := k, h := h, n := n, y := y } c = .ok (.add (k * h ^ n * c ^ 2)) := by
  simp only [term, pyPow_ok h n hp, LawfulPenOps.sq_eq]
  congr 2; ring

theorem term_lEq (k h : K) (n : Int) (y : List K) (c : K) (hp : ¬ (h = 0 ∧ n < 0)) :
    term { t := .lEq, k := k, h := h, n := n, y := y } c = .ok (.add (k * h ^ n * |c|)) := by
  simp only [term, pyPow_ok h n hp, LawfulPenOps.abs_eq]

theorem term_uEq_zero (k h : K) (n : Int) (y : List K) :
    term { t := .uEq, k := k, h := h, n := n, y := y } (0 : K) = .ok (.add 0) := by
  simp [term]

theorem term_uEq_ne (k h : K) (n : Int) (y : List K) (c : K) (hc : c ≠ 0) (hp : ¬ (h = 0 ∧ n < 0)) :
    term { t := .uEq, k := k, h := h, n := n, y := y } c = .ok (.add (k * h ^ n)) := by
  simp [term, pyPow_ok h n hp, hc]

theorem term_uIneq_le (k h : K) (n : Int) (y : List K) (c : K) (hc : c ≤ 0) :
    term { t := .uIneq, k := k, h := h, n := n, y := y } c = .ok (.add 0) := by
  simp [term, not_lt.mpr hc]

theorem term_uIneq_gt (k h : K) (n : Int) (y : List K) (c : K) (hc : 0 < c) (hp : ¬ (h = 0 ∧ n < 0)) :
    term { t := .uIneq, k := k, h := h, n := n, y := y } c = .ok (.add (k * h ^ n)) := by
  simp [term, pyPow_ok h n hp, hc]

theorem term_qIneq (k h : K) (n : Int) (y : List K) (c : K) (hp : ¬ (h = 0 ∧ n < 0)) :
    term { t := .qIneq, k := k, h := h, n := n, y := y } c = .ok (.add (2 * k * h ^ n * (max 0 c) ^ 2)) := by
  simp only [term, pyPow_ok h n hp, LawfulPenOps.sq_eq, pyMax_eq]
  congr 2; ring

theorem term_lIneq (k h : K) (n : Int) (y : List K) (c : K) (hp : ¬ (h = 0 ∧ n < 0)) :
    term { t := .lIneq, k := k, h := h, n := n, y := y } c = .ok (.add (2 * k * h ^ n * max 0 c)) := by
  simp only [term, pyPow_ok h n hp, LawfulPenOps.abs_eq, pyMax_eq]
  rw [abs_of_nonneg (le_max_left 0 c)]
  congr 2; ring

theorem term_barrier_viol (k h : K) (n : Int) (y : List K) (c : K) (hc : 0 < c) :
    term { t := .barrier, k := k, h := h, n := n, y := y } c = .ok (.stop PenOps.inf) := by
  simp [term, hc]

theorem term_barrier_sat (k h : K) (n : Int) (y : List K) (c : K) (hc : c ≤ 0) (hp : ¬ (h = 0 ∧ n < 0))
    (hk : k * h ^ n ≠ 0) :
    term { t := .barrier, k := k, h := h, n := n, y := y } c =
      .ok (.add (-(1 / 2) / (k * h ^ n) * PenOps.log (-c))) := by
  simp only [term, not_lt.mpr hc, if_false, pyPow_ok h n hp, pyDiv_ok _ _ hk]

/-! ### the Lagrange loops -/

/-- `Σ_{j<m} 2*(k*h^j)*stored(i+j)` added to `lam`, and `k*h^m` -/
theorem lagEqLoop_eq (h : K) (y : List K) :
    ∀ (m i : Nat) (lam k : K),
      lagEqLoop h y m i lam k =
        (lam + ∑ j ∈ Finset.range m, 2 * (k * h ^ j) * storedAt y ((i + j : Nat) : Int), k * h ^ m) := by
  intro m
  induction m with
  | zero => intro i lam k; simp [lagEqLoop]
  | succ m ih =>
    intro i lam k
    rw [lagEqLoop, ih, Finset.sum_range_succ']
    refine Prod.ext ?_ ?_
    · simp only [Nat.add_zero, pow_zero, mul_one]
      have : ∀ j, 2 * (k * h * h ^ j) * storedAt y ((i + 1 + j : Nat) : Int)
          = 2 * (k * h ^ (j + 1)) * storedAt y ((i + (j + 1) : Nat) : Int) := by
        intro j; rw [pow_succ]; congr 2
        · ring
        · congr 1; omega
      simp only [this]
      ring
    · simp only [pow_succ]; ring

/-- the closed form of the inequality multiplier loop: the accumulated multiplier is clipped at 0 -/
def betaLoop (h : K) (y : List K) : (m : Nat) → (i : Nat) → (beta : K) → (k : K) → K × K
  | 0, _, beta, k => (beta, k)
  | m + 1, i, beta, k => betaLoop h y m (i + 1) (max 0 (beta + 2 * k * storedAt y (i : Int))) (k * h)

theorem lagIneq_step (beta k s : K) (hk : 0 < k) :
    beta + 2 * k * max (-beta / (2 * k)) s = max 0 (beta + 2 * k * s) := by
  have h2 : (0 : K) < 2 * k := by linarith
  rcases le_total (-beta / (2 * k)) s with hle | hle
  · rw [max_eq_right hle]
    have : -beta ≤ s * (2 * k) := (div_le_iff₀ h2).mp hle
    rw [max_eq_right (by linarith)]
  · rw [max_eq_left hle]
    have : s * (2 * k) ≤ -beta := (le_div_iff₀ h2).mp hle
    rw [max_eq_left (by linarith)]
    field_simp
    ring

theorem lagIneqLoop_eq (h : K) (y : List K) (hh : 0 < h) :
    ∀ (m i : Nat) (beta k : K), 0 < k →
      lagIneqLoop h y m i beta k = .ok (betaLoop h y m i beta k) := by
  intro m
  induction m with
  | zero => intro i beta k _; simp [lagIneqLoop, betaLoop]
  | succ m ih =>
    intro i beta k hk
    have h2 : (2 * k) ≠ 0 := by positivity
    rw [lagIneqLoop, pyDiv_ok _ _ h2]
    simp only
    rw [ih _ _ _ (mul_pos hk hh), betaLoop, pyMax_eq, lagIneq_step beta k _ hk]

theorem betaLoop_snd (h : K) (y : List K) : ∀ (m i : Nat) (beta k : K), (betaLoop h y m i beta k).2 = k * h ^ m := by
  intro m
  induction m with
  | zero => intro i beta k; simp [betaLoop]
  | succ m ih => intro i beta k; rw [betaLoop, ih, pow_succ]; ring

theorem betaLoop_nonneg (h : K) (y : List K) : ∀ (m i : Nat) (beta k : K), 0 ≤ beta → 0 ≤ (betaLoop h y m i beta k).1 := by
  intro m
  induction m with
  | zero => intro i beta k hb; simpa [betaLoop] using hb
  | succ m ih => intro i beta k _; rw [betaLoop]; exact ih _ _ _ (le_max_left _ _)

/-! ### square roots -/

theorem root_sq_eq_abs [LawfulRoot K] (v : K) : PenOps.root (PenOps.sq v) = |v| := by
  rw [LawfulPenOps.sq_eq]
  have h0 : (0 : K) ≤ v * v := mul_self_nonneg v
  have h1 := LawfulRoot.root_nonneg (v * v) h0
  have h2 := LawfulRoot.root_mul_self (v * v) h0
  have h3 : PenOps.root (v * v) * PenOps.root (v * v) = |v| * |v| := by rw [h2, abs_mul_abs_self]
  exact (mul_self_inj_of_nonneg h1 (abs_nonneg v)).mp h3

theorem term_lagEq (k h : K) (n : Int) (y : List K) (c : K) :
    term { t := .lagEq, k := k, h := h, n := n, y := y } c =
      .ok (.add (k * h ^ n.toNat * c ^ 2 + (∑ i ∈ Finset.range n.toNat, 2 * k * h ^ i * storedAt y (i : Int)) * c)) := by
  simp only [term, lagEqLoop_eq, LawfulPenOps.sq_eq, zero_add]
  have : ∑ j ∈ Finset.range n.toNat, 2 * (k * h ^ j) * storedAt y (j : Int)
      = ∑ i ∈ Finset.range n.toNat, 2 * k * h ^ i * storedAt y (i : Int) :=
    Finset.sum_congr rfl (fun i _ => by ring)
  rw [this]
  congr 2; ring

theorem term_lagIneq (k h : K) (n : Int) (y : List K) (c : K) (hk : 0 < k) (hh : 0 < h) :
    term { t := .lagIneq, k := k, h := h, n := n, y := y } c =
      .ok (.add (k * h ^ n.toNat * (max (-(betaLoop h y n.toNat 0 0 k).1 / (2 * (k * h ^ n.toNat))) c) ^ 2
        + (betaLoop h y n.toNat 0 0 k).1 * max (-(betaLoop h y n.toNat 0 0 k).1 / (2 * (k * h ^ n.toNat))) c)) := by
  have hK : 0 < k * h ^ n.toNat := mul_pos hk (pow_pos hh _)
  have h2 : 2 * (k * h ^ n.toNat) ≠ 0 := by positivity
  simp only [term, lagIneqLoop_eq h y hh _ _ _ _ hk, betaLoop_snd, pyDiv_ok _ _ h2, pyMax_eq, LawfulPenOps.sq_eq]
  congr 2; ring

/-! ### sums of squares (as_penalty's rnorm), python `sum` as a fold -/

theorem rnorm_fold (l : List (K × K)) : ∀ a : K,
    l.foldl (fun acc p => acc + PenOps.sq (p.1 - p.2)) a = a + (l.map fun p => (p.1 - p.2) * (p.1 - p.2)).sum := by
  induction l with
  | nil => intro a; simp
  | cons p l ih =>
    intro a
    rw [List.foldl_cons, ih, LawfulPenOps.sq_eq, List.map_cons, List.sum_cons]; ring

theorem sumsq_nonneg (l : List (K × K)) : 0 ≤ (l.map fun p => (p.1 - p.2) * (p.1 - p.2)).sum := by
  induction l with
  | nil => simp
  | cons p l ih => simp only [List.map_cons, List.sum_cons]; exact add_nonneg (mul_self_nonneg _) ih

theorem sumsq_zero_iff (l : List (K × K)) :
    (l.map fun p => (p.1 - p.2) * (p.1 - p.2)).sum = 0 ↔ ∀ p ∈ l, p.1 = p.2 := by
  induction l with
  | nil => simp
  | cons p l ih =>
    simp only [List.map_cons, List.sum_cons, List.mem_cons, forall_eq_or_imp]
    have h1 := mul_self_nonneg (p.1 - p.2)
    have h2 := sumsq_nonneg l
    constructor
    · intro h
      have ha : (p.1 - p.2) * (p.1 - p.2) = 0 := by linarith
      have hb : (l.map fun p => (p.1 - p.2) * (p.1 - p.2)).sum = 0 := by linarith
      exact ⟨sub_eq_zero.mp (mul_self_eq_zero.mp ha), ih.mp hb⟩
    · rintro ⟨ha, hb⟩
      rw [ih.mpr hb, ha]; simp

theorem zip_eq_iff : ∀ (cx x : List K), cx.length = x.length → ((∀ p ∈ List.zip cx x, p.1 = p.2) ↔ cx = x)
  | [], [], _ => by simp
  | [], _ :: _, h => by simp at h
  | _ :: _, [], h => by simp at h
  | a :: cx, b :: x, h => by
    have := zip_eq_iff cx x (by simpa using h)
    simp only [List.zip_cons_cons, List.mem_cons, forall_eq_or_imp, this, List.cons.injEq]

theorem foldl_add_eq (l : List K) : ∀ a : K, l.foldl (· + ·) a = a + l.sum := by
  induction l with
  | nil => intro a; simp
  | cons b l ih => intro a; rw [List.foldl_cons, ih, List.sum_cons]; ring

end MysticVerif.C15
