/-
Helper lemmas for the "applied measure collapse" part of C11 (Model/CollapseMeasure.lean): the groups that
`tools.connected` builds from the pairs of a `CollapsePosition` collapse satisfy what the lemmas about
`impose_collapse` (Proofs/DiscreteImpose.lean, written for C19) need, and the two facts about one `impose_measure`
call in the order of the code (tracked positions coincide, also after the weight removals; removed weights are 0).
-/
import MysticVerif.Model.CollapseMeasure
import MysticVerif.Proofs.CollapseApply
import MysticVerif.Proofs.DiscreteImpose

set_option linter.unusedSectionVars false
set_option linter.unusedVariables false

namespace MysticVerif.Clps
open MysticVerif.Discrete

theorem connected_eq (pairs : List (Nat × Nat)) : connected pairs = pairs.foldl connAdd [] := rfl

theorem inGroup_iff_inGrp (g : Grp) (p : Nat) : Discrete.inGroup g p ↔ inGrp g p = true :=
  (inGrp_iff g p).symm

/-- the groups of `connected` on pairs that never join two existing groups, are in range, and whose keys are not
among their own members: well formed, pairwise disjoint, every pair inside one group -/
theorem connected_groups_ok (n : Nat) (pairs : List (Nat × Nat)) (hb : noBridge pairs = true)
    (hr : ∀ p ∈ pairs, p.1 < n ∧ p.2 < n) (hk : keyFree (connected pairs) = true) :
    (∀ g ∈ connected pairs, GroupOK n g) ∧
    (connected pairs).Pairwise (fun a b => ∀ p, Discrete.inGroup a p → ¬ Discrete.inGroup b p) ∧
    (∀ p ∈ pairs, ∃ g ∈ connected pairs, Discrete.inGroup g p.1 ∧ Discrete.inGroup g p.2) := by
  have inv := foldl_connAdd_inv n pairs [] List.Pairwise.nil (fun g hg => by cases hg) hb hr
  rw [← connected_eq] at inv
  refine ⟨?_, ?_, ?_⟩
  · intro g hg
    refine ⟨inv.2.1 g hg g.1 (inGrp_key g), ?_⟩
    have := List.all_eq_true.mp hk g hg
    simpa using this
  · refine List.Pairwise.imp ?_ inv.1
    intro a b hab p hpa hpb
    have h1 := hab p ((inGroup_iff_inGrp a p).1 hpa)
    have h2 := (inGroup_iff_inGrp b p).1 hpb
    rw [h1] at h2
    cases h2
  · intro p hp
    obtain ⟨g, hg, h1, h2⟩ := inv.2.2.2 p hp
    exact ⟨g, hg, (inGroup_iff_inGrp g p.1).2 h1, (inGroup_iff_inGrp g p.2).2 h2⟩

/-- for EVERY iteration order: the groups of in-range pairs whose keys are not among their own members are well
formed (what the weight part needs; no `noBridge`) -/
theorem connected_groups_wf (n : Nat) (pairs : List (Nat × Nat))
    (hr : ∀ p ∈ pairs, p.1 < n ∧ p.2 < n) (hk : keyFree (connected pairs) = true) :
    ∀ g ∈ connected pairs, GroupOK n g := by
  intro g hg
  refine ⟨?_, ?_⟩
  · rcases foldl_connAdd_sub pairs [] g hg g.1 (inGrp_key g) with ⟨g0, h0, _⟩ | ⟨p, hp, h | h⟩
    · cases h0
    · exact h ▸ (hr p hp).1
    · exact h ▸ (hr p hp).2
  · have := List.all_eq_true.mp hk g hg
    simpa using this

/-- flattening and re-reading a product measure with its own shape gives it back -/
theorem unflatten_flatten' {α : Type} (c : PM α) : unflatten (flatten c) (pts c) = some c := by
  have h := nestedSplit_flatten c []
  simp only [List.append_nil] at h
  simp only [unflatten, compose, h]
  exact listOfMeasures_self c

theorem trackGroups_keys (tr : List (Nat × List (Nat × Nat))) :
    (trackGroups tr).map (·.1) = tr.map (·.1) := by
  simp [trackGroups, List.map_map, Function.comp_def]

theorem mem_trackGroups {tr : List (Nat × List (Nat × Nat))} {kv : Nat × List (Nat × Nat)} (h : kv ∈ tr) :
    (kv.1, connected kv.2) ∈ trackGroups tr :=
  List.mem_map.2 ⟨kv, h, rfl⟩

theorem of_mem_trackGroups {tr : List (Nat × List (Nat × Nat))} {t : Nat × Groups} (h : t ∈ trackGroups tr) :
    ∃ kv ∈ tr, t = (kv.1, connected kv.2) := by
  obtain ⟨kv, hkv, rfl⟩ := List.mem_map.1 h
  exact ⟨kv, hkv, rfl⟩

variable {K : Type} [Field K] [LinearOrder K] [IsStrictOrderedRing K]

/-- `impose_measure` keeps the size of every factor -/
theorem imposeOn_factor_length (inf : K) (tr : List (Nat × List (Nat × List Nat))) (nw : List (Nat × List Nat))
    (c : PM K) (k : Nat) (m : Measure K) (hm : c[k]? = some m) :
    ∃ m', (imposeOn inf tr nw c)[k]? = some m' ∧ m'.length = m.length := by
  have h := congrArg (fun l => l[k]?) (imposeOn_pts inf tr nw c)
  simp only [pts, List.getElem?_map, hm, Option.map_some] at h
  cases hc : (imposeOn inf tr nw c)[k]? with
  | none => rw [hc] at h; simp at h
  | some m' =>
    rw [hc] at h
    simp only [Option.map_some, Option.some.injEq] at h
    exact ⟨m', rfl, h⟩

/-- one `impose_measure` call, the order of the code: a member `p` of a group with key `g.1` of the tracked item
`(k, groups)` shares the key's position in the result - also after ALL `noweight` items, because `impose_unweighted`
shifts every position of a factor by the same amount (one `tracking` dict: distinct factor keys) -/
theorem imposeOn_member_pos (inf : K) (tr : List (Nat × List (Nat × List Nat))) (nw : List (Nat × List Nat))
    (c : PM K) (hnd : (tr.map (·.1)).Nodup) (kv : Nat × List (Nat × List Nat)) (hkv : kv ∈ tr) (m : Measure K)
    (hm : c[kv.1]? = some m) (hok : ∀ g ∈ kv.2, GroupOK m.length g)
    (hdis : kv.2.Pairwise fun a b => ∀ p, Discrete.inGroup a p → ¬ Discrete.inGroup b p)
    (g : Nat × List Nat) (hg : g ∈ kv.2) (p : Nat) (hp : p ∈ g.2) (hpn : p < m.length) :
    ∃ m', (imposeOn inf tr nw c)[kv.1]? = some m' ∧ m'.length = m.length ∧
      (mpositions m')[p]? = (mpositions m')[g.1]? := by
  have h1 : (applyOps (collapseM inf) tr c)[kv.1]? = some (collapseM inf kv.2 m) := by
    rw [applyOps_nodup (collapseM inf) tr c hnd kv hkv, hm]; rfl
  obtain ⟨hpos', _⟩ := collapseM_member inf kv.2 m hok hdis g hg p hp hpn
  rw [imposeOn_eq]
  have hlt : kv.1 < (applyOps (unweightM inf) nw (applyOps (collapseM inf) tr c)).length := by
    rw [applyOps_length, applyOps_length]; exact (List.getElem?_eq_some_iff.mp hm).1
  refine ⟨_, List.getElem?_eq_getElem hlt, ?_, ?_⟩
  · apply applyOps_inv (unweightM inf) nw kv.1 (fun a => a.length = m.length)
      (fun t _ _ a ha => by rw [unweightM_length]; exact ha) _ _ _ (List.getElem?_eq_getElem hlt)
    intro a ha
    rw [h1] at ha
    rw [← Option.some.inj ha, collapseM_length]
  · apply applyOps_inv (unweightM inf) nw kv.1 (fun a => (mpositions a)[p]? = (mpositions a)[g.1]?)
      (fun t _ _ a ha => unweightM_samepos inf t.2 a p g.1 ha) _ _ _ (List.getElem?_eq_getElem hlt)
    intro a ha
    rw [h1] at ha
    rw [← Option.some.inj ha]; exact hpos'

/-- one `impose_measure` call, the order of the code: the indices of the `noweight` item `(k, idx)` have weight
exactly 0 in the result, whatever the `tracking` items did before (one `noweight` dict: distinct factor keys; the
factor has non-negative weights of positive total, well-formed groups, a point outside `idx`) -/
theorem imposeOn_noweight_zero (inf : K) (tr : List (Nat × List (Nat × List Nat))) (nw : List (Nat × List Nat))
    (c : PM K) (hnd : (nw.map (·.1)).Nodup) (kv : Nat × List Nat) (hkv : kv ∈ nw)
    (m : Measure K) (hm : c[kv.1]? = some m) (hnn : ∀ w ∈ mweights m, 0 ≤ w) (hpos : 0 < (mweights m).sum)
    (htr : ∀ t ∈ tr, t.1 = kv.1 → ∀ g ∈ t.2, GroupOK m.length g)
    (hout : ∃ i, i < m.length ∧ i ∉ kv.2) :
    ∃ m', (imposeOn inf tr nw c)[kv.1]? = some m' ∧ m'.length = m.length ∧
      ∀ p ∈ kv.2, p < m.length → (mweights m')[p]? = some 0 := by
  obtain ⟨m1, h1, hk⟩ := imposeOn_kept inf tr [] c kv.1 m hm hnn hpos htr (by simp)
  have e1 : imposeOn inf tr [] c = applyOps (collapseM inf) tr c := rfl
  rw [e1] at h1
  refine ⟨unweightM inf kv.2 m1, ?_, ?_, ?_⟩
  · rw [imposeOn_eq, applyOps_nodup (unweightM inf) nw _ hnd kv hkv, h1]; rfl
  · rw [unweightM_length, hk.len]
  · intro p hp hpn
    rw [(unweightM_parts inf kv.2 m1).2]
    have hl : (mpositions m1).length = (mweights m1).length := by simp
    obtain ⟨_, _, _, _, _, h6⟩ := imposeUnweighted_spec inf kv.2 (mpositions m1) (mweights m1) hl hk.nonneg
      (by rw [hk.mass]; exact hpos) (by rw [length_mweights, hk.len]; exact hout)
    exact h6 p hp (by rw [length_mweights, hk.len]; exact hpn)

/-! ### several rounds: the oldest round runs last -/

theorem applyRounds_snoc (inf : K) (npts : List Nat) (rs : List MRound) (r : MRound) (x : List K) :
    applyRounds inf npts (rs ++ [r]) x = (applyRounds inf npts rs x).bind (applyMeasure inf npts r) := by
  induction rs generalizing x with
  | nil => simp [applyRounds]
  | cons r0 rs ih =>
    simp only [List.cons_append, applyRounds]
    cases applyMeasure inf npts r0 x with
    | none => rfl
    | some y => simpa using ih y

/-- every round returns exactly `2*sum(npts)` numbers (surplus parameters are dropped by the first one) -/
theorem applyMeasure_length (inf : K) (npts : List Nat) (r : MRound) (x y : List K) (hlen : 2 * npts.sum ≤ x.length)
    (h : applyMeasure inf npts r x = some y) : y.length = 2 * npts.sum := by
  obtain ⟨c, _, h2, _, h4⟩ := imposeMeasure_eq inf npts (trackGroups r.tracking) r.noweight x hlen
  unfold applyMeasure at h
  rw [h4] at h
  rw [← Option.some.inj h, length_flatten, imposeOn_pts, h2]

theorem applyRounds_length (inf : K) (npts : List Nat) (rs : List MRound) (x y : List K)
    (hlen : 2 * npts.sum ≤ x.length) (h : applyRounds inf npts rs x = some y) : 2 * npts.sum ≤ y.length := by
  induction rs generalizing x with
  | nil => simp only [applyRounds, Option.some.injEq] at h; rw [← h]; exact hlen
  | cons r rs ih =>
    simp only [applyRounds] at h
    cases hx : applyMeasure inf npts r x with
    | none => rw [hx] at h; simp at h
    | some x' =>
      rw [hx] at h
      exact ih x' (by rw [applyMeasure_length inf npts r x x' hlen hx]) (by simpa using h)

end MysticVerif.Clps
