/- Nelder-Mead: every iteration only APPENDS records made under its own objective (no invariant of the simplex needed,
   so this survives re-decorations that leave stale energies behind) -/
import MysticVerif.Proofs.Reconfig
import MysticVerif.Model.NelderMead

namespace MysticVerif.Solver

variable {R E : Type}

theorem objK_appended [LinearOrder E] {o : Obj (Pt R) E} (h : Hyp o) (x : Pt R) (log : List (Pt R × E)) :
    Appended o log (o.objK x log).2 := objAt_appended h x log

theorem shrinkAll_appended [Add R] [Sub R] [Mul R] [LinearOrder E] {o : Obj (Pt R) E} (h : Hyp o) (c : Coef R)
    (st : Pt R → Pt R) (x0 : Pt R) : ∀ (l : List (Pt R × E)) (log : List (Pt R × E)),
    Appended o log (shrinkAll o c st x0 l log).2 := by
  intro l
  induction l with
  | nil => intro log; exact Appended.refl o log
  | cons a l ih =>
    intro log
    obtain ⟨xj, ej⟩ := a
    simp only [shrinkAll]
    exact Appended.trans (objK_appended h _ log) (ih _)

theorem buildRows_appended [LinearOrder E] {o : Obj (Pt R) E} (h : Hyp o) (x0 : Pt R) :
    ∀ (vs : List R) (k : Nat) (log : List (Pt R × E)), Appended o log (buildRows o x0 vs k log).2 := by
  intro vs
  induction vs with
  | nil => intro k log; exact Appended.refl o log
  | cons v vs ih =>
    intro k log
    simp only [buildRows]
    exact Appended.trans (objK_appended h _ log) (ih _ _)

theorem core_appended [Add R] [Sub R] [Mul R] [Div R] [LinearOrder E] {o : Obj (Pt R) E} (h : Hyp o) (c : Coef R)
    (st : Pt R → Pt R) (x0 : Pt R) (f0 : E) (tl : List (Pt R × E)) (xw : Pt R) (fw fsw : E) (log : List (Pt R × E)) :
    Appended o log (NM.core o c st x0 f0 tl xw fw fsw log).2.1 := by
  unfold NM.core
  simp only
  have a1 := objK_appended h (reflectPt c (vdiv (vsumRows (((x0, f0) :: tl).dropLast.map Prod.fst)) c.n) xw) log
  split
  · have a2 := objK_appended h (expandPt c (vdiv (vsumRows (((x0, f0) :: tl).dropLast.map Prod.fst)) c.n) xw) (o.objK (reflectPt c (vdiv (vsumRows (((x0, f0) :: tl).dropLast.map Prod.fst)) c.n) xw) log).2
    split
    · exact Appended.trans a1 a2
    · exact Appended.trans a1 a2
  · split
    · exact a1
    · split
      · have a2 := objK_appended h (contractOutPt c (vdiv (vsumRows (((x0, f0) :: tl).dropLast.map Prod.fst)) c.n) xw) (o.objK (reflectPt c (vdiv (vsumRows (((x0, f0) :: tl).dropLast.map Prod.fst)) c.n) xw) log).2
        split
        · exact Appended.trans a1 a2
        · exact Appended.trans (Appended.trans a1 a2) (shrinkAll_appended h c st x0 tl _)
      · have a2 := objK_appended h (contractInPt c (vdiv (vsumRows (((x0, f0) :: tl).dropLast.map Prod.fst)) c.n) xw) (o.objK (reflectPt c (vdiv (vsumRows (((x0, f0) :: tl).dropLast.map Prod.fst)) c.n) xw) log).2
        split
        · exact Appended.trans a1 a2
        · exact Appended.trans (Appended.trans a1 a2) (shrinkAll_appended h c st x0 tl _)

theorem NM.finish_log [LT E] [DecidableLT E] (s : NM R E) (sx log : List (Pt R × E)) (hne : sx ≠ []) :
    (NM.finish s sx log).log = log := by
  unfold NM.finish
  split
  · rename_i hnil
    exfalso
    -- sortByE of a non-empty list is non-empty
    have : ∀ (l acc : List (Pt R × E)), acc ≠ [] → l.foldl (fun acc p => insertByE p acc) acc ≠ [] := by
      intro l
      induction l with
      | nil => intro acc ha; exact ha
      | cons p l ih =>
        intro acc _
        apply ih
        cases acc with
        | nil => simp [insertByE]
        | cons q qs => simp only [insertByE]; split <;> simp
    cases sx with
    | nil => exact hne rfl
    | cons a t =>
      unfold sortByE at hnil
      simp only [List.foldl_cons] at hnil
      exact this t (insertByE a []) (by simp [insertByE]) hnil
  · rfl

theorem NM.update_appended [Add R] [Sub R] [Mul R] [Div R] [LinearOrder E] {o : Obj (Pt R) E} (h : Hyp o) (c : Coef R)
    (st : Pt R → Pt R) (s : NM R E) : Appended o s.log (NM.update o c st s).1.log := by
  unfold NM.update
  split
  · exact Appended.refl o _
  · rename_i x0' f0 tl hsx
    simp only
    split
    · rename_i xw fw _ fsw _ _
      have hc := core_appended h c st (o.K x0') f0 tl xw fw fsw s.log
      by_cases hne : (NM.core o c st (o.K x0') f0 tl xw fw fsw s.log).1 = []
      · -- `finish` keeps the state when the new simplex is empty
        unfold NM.finish
        rw [hne]
        simp only [sortByE, List.foldl_nil]
        exact Appended.refl o _
      · rw [NM.finish_log _ _ _ hne]
        exact hc
    · exact Appended.refl o _

theorem NM.gen1_appended [LinearOrder E] {o : Obj (Pt R) E} (h : Hyp o) (clip0 mkVal : Pt R → Pt R) (s : NM R E) :
    Appended o s.log (NM.gen1 o clip0 mkVal s).log := by
  unfold NM.gen1
  split
  · exact Appended.refl o _
  · rename_i x0' f0 _ _
    simp only
    rw [NM.finish_log _ _ _ (by simp)]
    exact buildRows_appended h (clip0 x0') (mkVal (clip0 x0')) 0 s.log

end MysticVerif.Solver
