/- lemmas for C07 part 2 (Model/Schedule.lean): evaluation order of the map, member schedules of an ensemble -/
import MysticVerif.Model.Schedule
import MysticVerif.Proofs.Solver
import MysticVerif.Proofs.NelderMead
import Mathlib.Logic.Function.Iterate

namespace MysticVerif.Sched
open MysticVerif.Solver MysticVerif.Config

variable {X E : Type}

/-- what one evaluation appends to the evaluation monitor: nothing when the point is outside the strict ranges -/
def logged (o : Obj X E) (y : X) : Option (X × E) :=
  if (o.useRange && !o.inBox y) = true then none else some (y, o.raw y)

theorem objAt_snd (o : Obj X E) (y : X) (log : List (X × E)) :
    (o.objAt y log).2 = log ++ (logged o y).toList := by
  unfold Obj.objAt Obj.evalB logged
  split <;> simp

/-- the value the map computes for position `i` -/
def valAt (o : Obj X E) (ys : List X) (i : Nat) : Option (Nat × E) := (ys[i]?).map (fun y => (i, o.energy y))

/-- what evaluating position `i` logs -/
def logAt (o : Obj X E) (ys : List X) (i : Nat) : Option (X × E) := (ys[i]?).bind (logged o)

theorem evalOrder_fst (o : Obj X E) (ys : List X) : ∀ (π : List Nat) (log : List (X × E)),
    (evalOrder o ys π log).1 = π.filterMap (valAt o ys) := by
  intro π
  induction π with
  | nil => intro log; rfl
  | cons i π ih =>
    intro log
    unfold evalOrder
    cases h : ys[i]? with
    | none => simp [ih, valAt, h]
    | some y => simp [ih, valAt, h, objAt_fst]

theorem evalOrder_snd (o : Obj X E) (ys : List X) : ∀ (π : List Nat) (log : List (X × E)),
    (evalOrder o ys π log).2 = log ++ π.filterMap (logAt o ys) := by
  intro π
  induction π with
  | nil => intro log; simp [evalOrder]
  | cons i π ih =>
    intro log
    unfold evalOrder
    cases h : ys[i]? with
    | none => simp [ih, logAt, h]
    | some y =>
      simp only [ih, objAt_snd, List.filterMap_cons, logAt, h, Option.bind_some]
      cases logged o y <;> simp

theorem evalAll_fst (o : Obj X E) : ∀ (ts : List X) (log : List (X × E)),
    (DE.evalAll o ts log).1 = (ts.map o.K).map (fun y => (y, o.energy y)) := by
  intro ts
  induction ts with
  | nil => intro log; rfl
  | cons t ts ih => intro log; simp [DE.evalAll, ih, objAt_fst]

theorem evalAll_snd (o : Obj X E) : ∀ (ts : List X) (log : List (X × E)),
    (DE.evalAll o ts log).2 = log ++ (ts.map o.K).filterMap (logged o) := by
  intro ts
  induction ts with
  | nil => intro log; simp [DE.evalAll]
  | cons t ts ih =>
    intro log
    simp only [DE.evalAll, ih, objAt_snd, List.map_cons, List.filterMap_cons]
    cases logged o (o.K t) <;> simp

/-- looking up position `i` among the results of an order that contains `i` -/
theorem find_valAt (o : Obj X E) (ys : List X) (i : Nat) (y : X) (hy : ys[i]? = some y) :
    ∀ π : List Nat, i ∈ π → (∀ j ∈ π, j < ys.length) →
      (π.filterMap (valAt o ys)).find? (fun p => p.1 == i) = some (i, o.energy y) := by
  intro π
  induction π with
  | nil => intro h; cases h
  | cons j π ih =>
    intro hi hlt
    have hj : j < ys.length := hlt j (by simp)
    have hv : valAt o ys j = some (j, o.energy ys[j]) := by simp [valAt, List.getElem?_eq_getElem hj]
    simp only [List.filterMap_cons, hv]
    rw [List.find?_cons]
    by_cases hji : j = i
    · subst hji
      rw [List.getElem?_eq_getElem hj] at hy
      cases hy
      simp
    · have hi' : i ∈ π := by
        rcases List.mem_cons.mp hi with h | h
        · exact absurd h.symm hji
        · exact h
      have hb : (j == i) = false := by simp [hji]
      simp only [hb]
      exact ih hi' (fun k hk => hlt k (by simp [hk]))

/-- the map returns exactly the energies of its work items, whatever the order of evaluation -/
theorem gather_perm (o : Obj X E) (ys : List X) (π : List Nat) (hπ : π.Perm (List.range ys.length)) :
    gather o.top ys.length (π.filterMap (valAt o ys)) = ys.map o.energy := by
  apply List.ext_getElem
  · simp [gather]
  · intro i h1 h2
    have hi : i < ys.length := by simpa [gather] using h1
    have hmem : i ∈ π := hπ.mem_iff.mpr (List.mem_range.mpr hi)
    have hlt : ∀ j ∈ π, j < ys.length := fun j hj => List.mem_range.mp (hπ.mem_iff.mp hj)
    have := find_valAt o ys i ys[i] (List.getElem?_eq_getElem hi) π hmem hlt
    simp only [gather, List.getElem_map, List.getElem_range, this]

theorem zip_map_self (f : X → E) : ∀ ys : List X, ys.zip (ys.map f) = ys.map (fun y => (y, f y)) := by
  intro ys
  induction ys with
  | nil => rfl
  | cons y ys ih => simp [ih]

/-- selection never reads or writes the evaluation monitor -/
theorem select_log_irrel [LT E] [DecidableLT E] (s : DE X E) (i : Nat) (y : X) (e : E) (L : List (X × E)) :
    DE.select { s with log := L } i y e = { DE.select s i y e with log := L } := by
  unfold DE.select
  simp only
  split
  · rfl
  · split
    · split <;> rfl
    · rfl

theorem selectAll_log_irrel [LT E] [DecidableLT E] : ∀ (ps : List (X × E)) (i : Nat) (s : DE X E) (L : List (X × E)),
    DE.selectAll ps i { s with log := L } = { DE.selectAll ps i s with log := L } := by
  intro ps
  induction ps with
  | nil => intro i s L; rfl
  | cons p ps ih =>
    intro i s L
    obtain ⟨y, e⟩ := p
    simp only [DE.selectAll]
    rw [select_log_irrel, ih]

theorem selectAll_log [LT E] [DecidableLT E] : ∀ (ps : List (X × E)) (i : Nat) (s : DE X E),
    (DE.selectAll ps i s).log = s.log := by
  intro ps
  induction ps with
  | nil => intro i s; rfl
  | cons p ps ih =>
    intro i s
    obtain ⟨y, e⟩ := p
    simp only [DE.selectAll]
    rw [ih]
    unfold DE.select
    split
    · rfl
    · split
      · split <;> rfl
      · rfl

/-- closed form of a DE2 step with evaluation order `π` (a permutation of the positions) -/
theorem step2With_eq [LT E] [DecidableLT E] (o : Obj X E) (π : List Nat) (trials : List X) (s : DE X E)
    (hπ : π.Perm (List.range trials.length)) :
    step2With o π trials s =
      { DE.selectAll ((trials.map o.K).map (fun y => (y, o.energy y))) 0 s with
        log := s.log ++ π.filterMap (logAt o (trials.map o.K)),
        stepLog := (DE.selectAll ((trials.map o.K).map (fun y => (y, o.energy y))) 0 s).stepLog ++
          [((DE.selectAll ((trials.map o.K).map (fun y => (y, o.energy y))) 0 s).best,
            (DE.selectAll ((trials.map o.K).map (fun y => (y, o.energy y))) 0 s).bestE)] } := by
  have hπ' : π.Perm (List.range (trials.map o.K).length) := by simpa using hπ
  unfold step2With
  simp only [evalOrder_fst, evalOrder_snd, gather_perm o _ π hπ', zip_map_self, selectAll_log_irrel]

/-- closed form of the in-order DE2 step of Model/Solver.lean -/
theorem step2_eq [LT E] [DecidableLT E] (o : Obj X E) (trials : List X) (s : DE X E) :
    DE.step2 o trials s =
      { DE.selectAll ((trials.map o.K).map (fun y => (y, o.energy y))) 0 s with
        log := s.log ++ (trials.map o.K).filterMap (logged o),
        stepLog := (DE.selectAll ((trials.map o.K).map (fun y => (y, o.energy y))) 0 s).stepLog ++
          [((DE.selectAll ((trials.map o.K).map (fun y => (y, o.energy y))) 0 s).best,
            (DE.selectAll ((trials.map o.K).map (fun y => (y, o.energy y))) 0 s).bestE)] } := by
  unfold DE.step2
  simp only [evalAll_fst, evalAll_snd, selectAll_log_irrel]

theorem filterMap_logAt_take (o : Obj X E) (ys : List X) : ∀ n : Nat,
    (List.range n).filterMap (logAt o ys) = (ys.take n).filterMap (logged o) := by
  intro n
  induction n with
  | zero => rfl
  | succ n ih =>
    rw [List.range_succ, List.filterMap_append, ih, List.take_add_one, List.filterMap_append]
    congr 1
    cases h : ys[n]? <;> simp [logAt, h, List.filterMap_cons]

theorem filterMap_logAt_range (o : Obj X E) (ys : List X) :
    (List.range ys.length).filterMap (logAt o ys) = ys.filterMap (logged o) := by
  rw [filterMap_logAt_take, List.take_length]

/-! ### mutable work items -/

/-- `wrap_penalty` hands its callees a copy: whatever the user's cost and penalty write, the decorated objective
    leaves the vector it was handed as it was -/
theorem decorated2_keeps (useRange : Bool) (inBox : X → Bool) (top : E) (add : E → E → E) (cost pen : Proc X E) (y : X) :
    (decorated2 useRange inBox top add cost pen y).2 = y := rfl

/-- the value of the decorated procedure is the energy of the objective record -/
theorem decorated2_val (K : X → X) (useRange : Bool) (inBox : X → Bool) (top : E) (add : E → E → E)
    (cost pen : Proc X E) (y : X) :
    (decorated2 useRange inBox top add cost pen y).1 = (objOfProcs K inBox useRange top add cost pen).energy y := by
  unfold decorated2 wrapPenaltyP wrapBoundsP objOfProcs Obj.energy
  by_cases h : (useRange && !inBox y) = true
  · simp only [h, if_true]
  · simp only [h]
    rfl

theorem itemsAfter_id (f : Proc X E) (sh : Nat → Bool) (hf : ∀ y, (f y).2 = y) : ∀ ys : List X,
    itemsAfter f sh ys = ys := by
  intro ys
  unfold itemsAfter
  apply List.ext_getElem
  · simp
  · intro i h1 h2
    simp [hf]

theorem evalOrderP_eq (o : Obj X E) (f : Proc X E) (hf : ∀ y, (f y).1 = o.energy y) (ys : List X) :
    ∀ π : List Nat, evalOrderP f ys π = π.filterMap (valAt o ys) := by
  intro π
  induction π with
  | nil => rfl
  | cons i π ih =>
    unfold evalOrderP
    cases h : ys[i]? with
    | none => simp [ih, valAt, h]
    | some y => simp [ih, valAt, h, hf]

/-- with the pinned `wrap_penalty` the step on mutable work items IS the step of Model/Schedule `step2With`,
    for every procedure pair, sharing discipline and evaluation order (a permutation or not) -/
theorem step2Proc_eq [LT E] [DecidableLT E] (K : X → X) (inBox : X → Bool) (useRange : Bool) (top : E)
    (add : E → E → E) (cost pen : Proc X E) (sh : Nat → Bool) (π : List Nat) (trials : List X) (s : DE X E) :
    step2Proc K inBox useRange top add cost pen sh π trials s =
      step2With (objOfProcs K inBox useRange top add cost pen) π trials s := by
  unfold step2Proc step2ProcWith step2With
  simp only [evalOrder_fst, evalOrder_snd]
  rw [itemsAfter_id _ sh (decorated2_keeps useRange inBox top add cost pen),
    evalOrderP_eq (objOfProcs K inBox useRange top add cost pen) _
      (decorated2_val K useRange inBox top add cost pen)]
  rfl

/-! ### ensembles -/

variable {M : Type}

theorem runToEnd_iter (step : M → M) (done : M → Bool) : ∀ (n : Nat) (m : M),
    runToEnd step done n m = (stepIfLive step done)^[n] m := by
  intro n
  induction n with
  | zero => intro m; rfl
  | succ n ih => intro m; rw [runToEnd, ih, Function.iterate_succ_apply]

theorem stepIfLive_done (step : M → M) (done : M → Bool) (m : M) (h : done m = true) :
    stepIfLive step done m = m := by
  simp [stepIfLive, h]

/-- once a member has terminated, further `Step` calls leave it alone -/
theorem iter_stable (step : M → M) (done : M → Bool) (m : M) (T : Nat)
    (h : done ((stepIfLive step done)^[T] m) = true) : ∀ k, T ≤ k → (stepIfLive step done)^[k] m = (stepIfLive step done)^[T] m := by
  intro k hk
  obtain ⟨d, rfl⟩ := Nat.exists_eq_add_of_le hk
  induction d with
  | zero => rfl
  | succ d ih =>
    rw [← Nat.add_assoc, Function.iterate_succ_apply', ih (Nat.le_add_right _ _)]
    exact stepIfLive_done step done _ h

theorem stepAt_get (step : M → M) (done : M → Bool) (ms : List M) (j i : Nat) :
    (stepAt step done ms j)[i]? = if i = j then (ms[i]?).map (stepIfLive step done) else ms[i]? := by
  unfold stepAt
  cases h : ms[j]? with
  | none =>
    by_cases hij : i = j
    · subst hij; simp [h]
    · simp [hij]
  | some m =>
    by_cases hij : i = j
    · subst hij
      have hlt : i < ms.length := by
        rcases Nat.lt_or_ge i ms.length with hl | hl
        · exact hl
        · rw [List.getElem?_eq_none hl] at h; cases h
      simp [List.getElem?_set_self hlt, h]
    · have : j ≠ i := fun e => hij e.symm
      simp [List.getElem?_set_ne this, hij]

/-- after any schedule, member `i` has been stepped exactly as often as it occurs in the schedule -/
theorem runSched_get (step : M → M) (done : M → Bool) : ∀ (sched : List Nat) (ms : List M) (i : Nat),
    (runSched step done ms sched)[i]? = (ms[i]?).map ((stepIfLive step done)^[sched.count i]) := by
  intro sched
  induction sched with
  | nil => intro ms i; simp [runSched]
  | cons j sched ih =>
    intro ms i
    show (runSched step done (stepAt step done ms j) sched)[i]? = _
    rw [ih, stepAt_get]
    by_cases hij : i = j
    · subst hij
      simp only [if_true, List.count_cons_self, Option.map_map]
      congr 1
    · have : (j == i) = false := by simp; exact fun e => hij e.symm
      simp [hij, List.count_cons, this]

theorem ensembleStep_iter (step : M → M) (done : M → Bool) : ∀ (k : Nat) (ms : List M),
    (ensembleStep step done)^[k] ms = ms.map ((stepIfLive step done)^[k]) := by
  intro k
  induction k with
  | zero => intro ms; simp
  | succ k ih =>
    intro ms
    rw [Function.iterate_succ_apply, ih]
    simp [ensembleStep, Function.iterate_succ]

/-! ### ensembles: the `_live` flag and the deferred decoration -/

variable {S : Type}

theorem bootstrapM_live (a : MAlg S) (m : Mem S) : (bootstrapM a m).live = true := by
  unfold bootstrapM; split <;> simp_all

theorem bootstrapM_of_live (a : MAlg S) (m : Mem S) (h : m.live = true) : bootstrapM a m = m := by
  simp [bootstrapM, h]

/-- a live member that is terminated and has a step record: `Step` stops at its own stop test -/
theorem mStep_of_stopped (a : MAlg S) (m : Mem S) (hl : m.live = true) (hs : a.started m.st = true)
    (ht : a.term m.st = true) : mStep a m = (m, true) := by
  simp [mStep, bootstrapM_of_live a m hl, hs, ht]

/-- **a finished member is left alone by the ensemble's mapped `_step`** - whatever a decoration would do -/
theorem ensMemberStep_finished (a : MAlg S) (m : Mem S) (h : Finished a m) : ensMemberStep a m = m := by
  obtain ⟨hl, ht, hs⟩ := h
  cases m with
  | mk st live ndec niter =>
    simp only at hl ht hs
    subst hl
    simp [ensMemberStep, toggled, ht, mStep_of_stopped a { st := st, live := true, ndec := ndec, niter := niter } rfl hs ht]

/-- ... and by the mapped `_solve` of a run-to-completion `Solve` -/
theorem ensMemberSolve_finished (a : MAlg S) (fuel : Nat) (m : Mem S) (h : Finished a m) :
    ensMemberSolve a (fuel + 1) m = (m, true) := by
  obtain ⟨hl, ht, hs⟩ := h
  cases m with
  | mk st live ndec niter =>
    simp only at hl ht hs
    subst hl
    simp [ensMemberSolve, toggled, ht, mSolve,
      mStep_of_stopped a { st := st, live := true, ndec := ndec, niter := niter } rfl hs ht]

/-- the toggle does not fire: the member is live or not terminated -/
def Plain (a : MAlg S) (m : Mem S) : Prop := (!m.live && a.term m.st) = false

/-- the members an ensemble call may meet: the toggle does not fire, or the member is finished -/
def Regular (a : MAlg S) (m : Mem S) : Prop := Plain a m ∨ Finished a m

theorem ensMemberStep_plain (a : MAlg S) (m : Mem S) (h : Plain a m) : ensMemberStep a m = (mStep a m).1 := by
  unfold Plain at h
  simp [ensMemberStep, toggled, h]

theorem ensMemberSolve_plain (a : MAlg S) (fuel : Nat) (m : Mem S) (h : Plain a m) :
    ensMemberSolve a fuel m = mSolve a fuel m := by
  unfold Plain at h
  simp [ensMemberSolve, toggled, h]

/-- the three exits of `Step` -/
theorem mStep_cases (a : MAlg S) (m : Mem S) :
    (mStep a m = (bootstrapM a m, true) ∧ a.started (bootstrapM a m).st = true ∧ a.term (bootstrapM a m).st = true) ∨
    (mStep a m = ({ bootstrapM a m with st := a.fin (a.iter (bootstrapM a m).st), live := false,
                                        niter := (bootstrapM a m).niter + 1 },
                  a.term (a.fin (a.iter (bootstrapM a m).st))) ∧ a.term (a.iter (bootstrapM a m).st) = true) ∨
    (mStep a m = ({ bootstrapM a m with st := a.iter (bootstrapM a m).st, niter := (bootstrapM a m).niter + 1 }, false) ∧
      a.term (a.iter (bootstrapM a m).st) = false) := by
  unfold mStep
  by_cases h1 : (a.started (bootstrapM a m).st && a.term (bootstrapM a m).st) = true
  · left
    simp only [h1, if_true, true_and]
    simpa using h1
  · by_cases h2 : a.term (a.iter (bootstrapM a m).st) = true
    · right; left
      simp [h1, h2]
    · right; right
      simp [h1, h2]

/-- a `Step` that returns a message leaves a fixed point of the ensemble's `_step`, provided an iteration that
    stops leaves a step record -/
theorem mStep_stop_fixed (a : MAlg S) (hrec : ∀ s, a.term (a.iter s) = true → a.started (a.fin (a.iter s)) = true)
    (m : Mem S) (h : (mStep a m).2 = true) : ensMemberStep a (mStep a m).1 = (mStep a m).1 := by
  rcases mStep_cases a m with ⟨e, hs, ht⟩ | ⟨e, ht⟩ | ⟨e, _⟩
  · rw [e]
    have hl := bootstrapM_live a m
    rw [ensMemberStep_plain a _ (by simp [Plain, hl]), mStep_of_stopped a _ hl hs ht]
  · rw [e] at h ⊢
    exact ensMemberStep_finished a _ ⟨rfl, h, hrec _ ht⟩
  · rw [e] at h; cases h

/-- a `Step` that returns no message leaves a member on which the toggle does not fire -/
theorem mStep_go_plain (a : MAlg S) (m : Mem S) (h : (mStep a m).2 = false) : Plain a (mStep a m).1 := by
  rcases mStep_cases a m with ⟨e, _, _⟩ | ⟨e, _⟩ | ⟨e, _⟩
  · rw [e] at h; cases h
  · rw [e] at h ⊢
    simp only at h
    simp [Plain, h]
  · rw [e]
    simp [Plain, bootstrapM_live a m]

theorem iterate_fixed' {α : Type} (f : α → α) (x : α) (h : f x = x) : ∀ k, f^[k] x = x := by
  intro k
  induction k with
  | zero => rfl
  | succ k ih => rw [Function.iterate_succ_apply, h, ih]

/-- `Solve` on a member on which the toggle does not fire = as many ensemble `Step`s as one likes, once `Solve` has
    come back with a message -/
theorem plain_steps_eq_solve (a : MAlg S) (hrec : ∀ s, a.term (a.iter s) = true → a.started (a.fin (a.iter s)) = true) :
    ∀ (fuel : Nat) (m : Mem S), Plain a m → (mSolve a fuel m).2 = true →
      ∀ k, fuel ≤ k → (ensMemberStep a)^[k] m = (mSolve a fuel m).1 := by
  intro fuel
  induction fuel with
  | zero => intro m _ h; simp [mSolve] at h
  | succ fuel ih =>
    intro m hp h k hk
    obtain ⟨k', rfl⟩ : ∃ k', k = k' + 1 := ⟨k - 1, by omega⟩
    rw [Function.iterate_succ_apply, ensMemberStep_plain a m hp]
    by_cases hs : (mStep a m).2 = true
    · simp only [mSolve, hs, if_true]
      exact iterate_fixed' _ _ (mStep_stop_fixed a hrec m hs) k'
    · have hs' : (mStep a m).2 = false := by simpa using hs
      simp only [mSolve, hs', Bool.false_eq_true, if_false] at h ⊢
      exact ih _ (mStep_go_plain a m hs') h k' (by omega)

/-- member level: the mapped `_solve` = any sufficient number of mapped `_step`s -/
theorem member_steps_eq_solve (a : MAlg S) (hrec : ∀ s, a.term (a.iter s) = true → a.started (a.fin (a.iter s)) = true)
    (fuel : Nat) (m : Mem S) (hr : Regular a m) (h : (ensMemberSolve a fuel m).2 = true) (k : Nat) (hk : fuel ≤ k) :
    (ensMemberStep a)^[k] m = (ensMemberSolve a fuel m).1 := by
  rcases hr with hp | hf
  · rw [ensMemberSolve_plain a fuel m hp] at h ⊢
    exact plain_steps_eq_solve a hrec fuel m hp h k hk
  · cases fuel with
    | zero =>
      exfalso
      obtain ⟨hl, ht, _⟩ := hf
      simp [ensMemberSolve, toggled, hl, ht, mSolve] at h
    | succ fuel =>
      rw [ensMemberSolve_finished a fuel m hf]
      exact iterate_fixed' _ _ (ensMemberStep_finished a m hf) k

/-- the ensemble's `_step` keeps members regular -/
theorem regular_step (a : MAlg S) (hrec : ∀ s, a.term (a.iter s) = true → a.started (a.fin (a.iter s)) = true)
    (m : Mem S) (hr : Regular a m) : Regular a (ensMemberStep a m) := by
  rcases hr with hp | hf
  · rw [ensMemberStep_plain a m hp]
    rcases mStep_cases a m with ⟨e, _, _⟩ | ⟨e, ht⟩ | ⟨e, _⟩
    · rw [e]; left; simp [Plain, bootstrapM_live a m]
    · rw [e]
      by_cases h2 : a.term (a.fin (a.iter (bootstrapM a m).st)) = true
      · right; exact ⟨rfl, h2, hrec _ ht⟩
      · left; simp [Plain, h2]
    · rw [e]; left; simp [Plain, bootstrapM_live a m]
  · rw [ensMemberStep_finished a m hf]; exact Or.inr hf

theorem regular_steps (a : MAlg S) (hrec : ∀ s, a.term (a.iter s) = true → a.started (a.fin (a.iter s)) = true)
    (m : Mem S) (hr : Regular a m) : ∀ j, Regular a ((ensMemberStep a)^[j] m) := by
  intro j
  induction j with
  | zero => exact hr
  | succ j ih => rw [Function.iterate_succ_apply']; exact regular_step a hrec _ ih

theorem ensStepL_iter (a : MAlg S) : ∀ (k : Nat) (ms : List (Mem S)),
    (ensStepL a)^[k] ms = ms.map ((ensMemberStep a)^[k]) := by
  intro k
  induction k with
  | zero => intro ms; simp
  | succ k ih =>
    intro ms
    rw [Function.iterate_succ_apply, ih]
    simp [ensStepL, Function.iterate_succ]

/-- live, or finished: the states in which no decoration is pending -/
def Settled (a : MAlg S) (m : Mem S) : Prop := m.live = true ∨ Finished a m

theorem settled_step (a : MAlg S)
    (hfin : ∀ s, a.term (a.iter s) = true → a.term (a.fin (a.iter s)) = true ∧ a.started (a.fin (a.iter s)) = true)
    (m : Mem S) (h : Settled a m) : Settled a (ensMemberStep a m) ∧ (ensMemberStep a m).ndec = m.ndec := by
  rcases h with hl | hf
  · rw [ensMemberStep_plain a m (by simp [Plain, hl])]
    have hb := bootstrapM_of_live a m hl
    rcases mStep_cases a m with ⟨e, _, _⟩ | ⟨e, ht⟩ | ⟨e, _⟩
    · rw [e, hb]; exact ⟨Or.inl hl, rfl⟩
    · rw [e, hb]
      rw [hb] at ht
      exact ⟨Or.inr ⟨rfl, (hfin _ ht).1, (hfin _ ht).2⟩, rfl⟩
    · rw [e, hb]; exact ⟨Or.inl hl, rfl⟩
  · rw [ensMemberStep_finished a m hf]; exact ⟨Or.inr hf, rfl⟩

theorem settled_steps (a : MAlg S)
    (hfin : ∀ s, a.term (a.iter s) = true → a.term (a.fin (a.iter s)) = true ∧ a.started (a.fin (a.iter s)) = true)
    (m : Mem S) (h : Settled a m) : ∀ k, Settled a ((ensMemberStep a)^[k] m) ∧ ((ensMemberStep a)^[k] m).ndec = m.ndec := by
  intro k
  induction k with
  | zero => exact ⟨h, rfl⟩
  | succ k ih =>
    rw [Function.iterate_succ_apply']
    have := settled_step a hfin _ ih.1
    exact ⟨this.1, this.2.trans ih.2⟩

/-- the first `_step` of a member that is neither live nor terminated decorates once and settles it -/
theorem fresh_step (a : MAlg S)
    (hfin : ∀ s, a.term (a.iter s) = true → a.term (a.fin (a.iter s)) = true ∧ a.started (a.fin (a.iter s)) = true)
    (m : Mem S) (hl : m.live = false) (ht : a.term m.st = false) :
    Settled a (ensMemberStep a m) ∧ (ensMemberStep a m).ndec = m.ndec + 1 := by
  rw [ensMemberStep_plain a m (by simp [Plain, ht])]
  have hb : (bootstrapM a m).ndec = m.ndec + 1 := by simp [bootstrapM, hl]
  have hbl := bootstrapM_live a m
  rcases mStep_cases a m with ⟨e, _, _⟩ | ⟨e, ht'⟩ | ⟨e, _⟩
  · rw [e]; exact ⟨Or.inl hbl, hb⟩
  · rw [e]; exact ⟨Or.inr ⟨rfl, (hfin _ ht').1, (hfin _ ht').2⟩, hb⟩
  · rw [e]; exact ⟨Or.inl hbl, hb⟩

end MysticVerif.Sched
