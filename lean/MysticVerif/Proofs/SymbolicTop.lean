/-
Helper lemmas for the top level of `simplify` (Model/SymbolicTop.lean).
-/
import MysticVerif.Model.SymbolicTop

namespace MysticVerif.Sym

variable {T U : Type}

/-- both branches of l.807-809 compute the same thing: the elements of `simple ci` for every case text, in order -/
theorem topEqns_eq_flatMap (cons : Ret T) (simple : T → Ret U) :
    topEqns cons simple = cons.texts.flatMap fun c => (simple c).elems := by
  cases cons with
  | none => simp [topEqns, Ret.texts]
  | many cs => simp [topEqns, Ret.texts]
  | one c =>
    simp only [topEqns, Ret.texts, List.flatMap_cons, List.flatMap_nil, List.append_nil]
    cases simple c <;> simp [Ret.elems]

/-- with `all=True` nothing is selected away -/
theorem selectTop_all_cases (r : Nat) (eqns : List (Option U)) : (selectTop true r eqns).cases = eqns := by
  unfold selectTop
  split
  · simp [TopRet.cases]
  · rename_i h
    match eqns, h with
    | [], _ => simp [TopRet.cases]
    | [a], _ => simp [TopRet.cases]
    | a :: b :: l, h => simp at h

/-- whatever is selected is an element of the list, or `None` -/
theorem selectTop_cases_sub (all : Bool) (r : Nat) (eqns : List (Option U)) :
    ∀ u, some u ∈ (selectTop all r eqns).cases → some u ∈ eqns := by
  intro u hu
  unfold selectTop at hu
  split at hu
  · split at hu
    · simpa [TopRet.cases] using hu
    · simp only [TopRet.cases, List.mem_singleton] at hu
      rw [List.getD_eq_getElem?_getD] at hu
      cases hg : eqns[r]? with
      | none => simp [hg] at hu
      | some v =>
        simp only [hg, Option.getD_some] at hu
        rw [hu]
        exact List.mem_of_getElem? hg
  · match eqns with
    | [] => simp [TopRet.cases] at hu
    | a :: l =>
      simp only [TopRet.cases, List.mem_singleton] at hu
      rw [hu]; exact List.mem_cons_self

/-- with `all=False` and a proper draw the answer is ONE element of the list -/
theorem selectTop_single (r : Nat) (eqns : List (Option U)) (hr : r < eqns.length) :
    ∃ a ∈ eqns, selectTop false r eqns = .single a := by
  unfold selectTop
  split
  · refine ⟨eqns[r], List.getElem_mem hr, ?_⟩
    simp [List.getD_eq_getElem?_getD, List.getElem?_eq_getElem hr]
  · match eqns with
    | [] => simp at hr
    | a :: l => exact ⟨a, List.mem_cons_self, rfl⟩

end MysticVerif.Sym
