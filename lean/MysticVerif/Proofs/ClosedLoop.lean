/- the closed loop is a prefix of the open loop; what C01-C05 prove therefore holds wherever `Solve` stops -/
import MysticVerif.Model.ClosedLoop
import MysticVerif.Model.Checkpoint
import MysticVerif.Proofs.Solver
import MysticVerif.Props.C05

namespace MysticVerif.Closed
open MysticVerif.Solver

variable {S : Type}

theorem stepOnce_state (a : Alg S) (c : Ctl) (s : S) (k : Nat) :
    (stepOnce a c s k).2.1 = (if (stepOnce a c s k).2.2.2 = true then a.step s k else s) := by
  unfold stepOnce
  simp only

theorem iterate_succ' (a : Alg S) : ∀ (n : Nat) (s : S) (k : Nat), iterate a (n + 1) s k = a.step (iterate a n s k) (k + n) := by
  intro n
  induction n with
  | zero => intro s k; simp [iterate]
  | succ n ih =>
    intro s k
    rw [iterate, ih (a.step s k) (k + 1)]
    have : k + 1 + n = k + (n + 1) := by omega
    rw [this]
    rfl

/-- **`Solve` performs some number of iterations of the algorithm and nothing else to its state** -/
theorem solve_is_iterate (a : Alg S) : ∀ (fuel : Nat) (c : Ctl) (s : S) (k n : Nat),
    k ≤ (solve a fuel c s k n).iters ∧ (solve a fuel c s k n).st = iterate a ((solve a fuel c s k n).iters - k) s k := by
  intro fuel
  induction fuel with
  | zero => intro c s k n; simp [solve, iterate]
  | succ fuel ih =>
    intro c s k n
    unfold solve
    simp only
    have hst := stepOnce_state a c s k
    cases hran : (stepOnce a c s k).2.2.2 with
    | false =>
      rw [hran] at hst
      simp only [Bool.false_eq_true, if_false] at hst
      cases hm : (stepOnce a c s k).2.2.1 with
      | some m => simp [iterate, hst]
      | none =>
        simp only [Bool.false_eq_true, if_false]
        have := ih (stepOnce a c s k).1 (stepOnce a c s k).2.1 k (n + 1)
        rw [hst] at this ⊢
        exact this
    | true =>
      rw [hran] at hst
      simp only [if_true] at hst
      cases hm : (stepOnce a c s k).2.2.1 with
      | some m =>
        simp only [if_true]
        refine ⟨by omega, ?_⟩
        have : k + 1 - k = 1 := by omega
        rw [this, hst]
        simp [iterate]
      | none =>
        simp only [if_true]
        have := ih (stepOnce a c s k).1 (stepOnce a c s k).2.1 (k + 1) (n + 1)
        rw [hst] at this ⊢
        obtain ⟨h1, h2⟩ := this
        refine ⟨by omega, ?_⟩
        rw [h2]
        generalize hI : (solve a fuel (stepOnce a c s k).1 (a.step s k) (k + 1) (n + 1)).iters = I at h1 ⊢
        have : I - k = (I - (k + 1)) + 1 := by omega
        rw [this]
        rfl

/-- the message `Solve` returns is true of the control state it returns -/
theorem solve_msg_truthful (a : Alg S) : ∀ (fuel : Nat) (c : Ctl) (s : S) (k n : Nat) (m : Msg),
    (solve a fuel c s k n).msg = some m →
      (m = .lim → (solve a fuel c s k n).ctl.maxfun.reached (solve a fuel c s k n).ctl.evals = true ∨
                  (solve a fuel c s k n).ctl.maxiter.reached (solve a fuel c s k n).ctl.gens = true) ∧
      (m = .sig → (solve a fuel c s k n).ctl.earlyExit = true) := by
  intro fuel
  induction fuel with
  | zero => intro c s k n m h; simp [solve] at h
  | succ fuel ih =>
    intro c s k n m h
    unfold solve at h ⊢
    simp only at h ⊢
    cases hm : (stepOnce a c s k).2.2.1 with
    | some m' =>
      rw [hm] at h
      simp only [Option.some.injEq] at h
      subst h
      simp only
      unfold stepOnce at hm ⊢
      simp only at hm ⊢
      exact C05.step_message_truthful c _ _ _ m' hm
    | none =>
      rw [hm] at h
      simp only at h ⊢
      exact ih _ _ _ _ m h

/-- `Solve` returns (a message is produced) within `limit - generations + 1` calls of `Step` when a numeric
generation limit is installed, whatever the algorithm and the termination condition do -/
theorem solve_returns (a : Alg S) (g : Nat) : ∀ (j : Nat) (c : Ctl) (s : S) (k n : Nat),
    c.maxiter = .val g → c.powell = false → c.nstep ≠ 0 → g ≤ c.gens + j →
      (solve a (j + 1) c s k n).msg.isSome = true := by
  intro j
  induction j with
  | zero =>
    intro c s k n hlim hp hn hg
    have hstop : c.pre.maxfun.reached c.evals = true ∨ c.pre.maxiter.reached c.gens = true ∨ c.earlyExit = true
        ∨ a.term s c.pre = true := by
      right; left
      rw [C05.pre_maxiter_val c g hlim]
      simp [Lim.reached]; omega
    have h0 := C05.no_step_when_stopped c (a.term s c.pre)
      (a.term (a.step s k) (c.after { dEvals := a.nlog (a.step s k) - a.nlog s, dGens := if c.nstep = 0 then 0 else 1, dStep := a.nrec (a.step s k) - a.nrec s })) { dEvals := a.nlog (a.step s k) - a.nlog s, dGens := if c.nstep = 0 then 0 else 1, dStep := a.nrec (a.step s k) - a.nrec s } hn hstop
    unfold solve
    simp only
    have hmsg : (stepOnce a c s k).2.2.1.isSome = true := by
      unfold stepOnce; simp only; exact h0.2.1
    cases hm : (stepOnce a c s k).2.2.1 with
    | none => rw [hm] at hmsg; cases hmsg
    | some m => simp
  | succ j ih =>
    intro c s k n hlim hp hn hg
    unfold solve
    simp only
    cases hm : (stepOnce a c s k).2.2.1 with
    | some m => simp
    | none =>
      simp only
      -- no message: the iteration ran and the state is `c.after d`
      have hsc := C05.step_cases c (a.term s c.pre)
        (a.term (a.step s k) (c.after { dEvals := a.nlog (a.step s k) - a.nlog s, dGens := if c.nstep = 0 then 0 else 1, dStep := a.nrec (a.step s k) - a.nrec s })) { dEvals := a.nlog (a.step s k) - a.nlog s, dGens := if c.nstep = 0 then 0 else 1, dStep := a.nrec (a.step s k) - a.nrec s }
      have hm' : (c.step (a.term s c.pre) (a.term (a.step s k) (c.after { dEvals := a.nlog (a.step s k) - a.nlog s, dGens := if c.nstep = 0 then 0 else 1, dStep := a.nrec (a.step s k) - a.nrec s }))
          { dEvals := a.nlog (a.step s k) - a.nlog s, dGens := if c.nstep = 0 then 0 else 1, dStep := a.nrec (a.step s k) - a.nrec s }).2.1 = none := by
        unfold stepOnce at hm; simpa using hm
      have hc1 : (stepOnce a c s k).1 = (c.step (a.term s c.pre) (a.term (a.step s k) (c.after { dEvals := a.nlog (a.step s k) - a.nlog s, dGens := if c.nstep = 0 then 0 else 1, dStep := a.nrec (a.step s k) - a.nrec s }))
          { dEvals := a.nlog (a.step s k) - a.nlog s, dGens := if c.nstep = 0 then 0 else 1, dStep := a.nrec (a.step s k) - a.nrec s }).1 := by
        unfold stepOnce; rfl
      rcases hsc with ⟨m', _, h1⟩ | ⟨_, m', hmm, h1⟩ | ⟨_, _, h1⟩
      · rw [h1] at hm'; cases hm'
      · rw [h1] at hm'
        simp only at hm'
        rw [C05.finalize_message _ _ (by simpa using hp), hmm] at hm'
        cases hm'
      · rw [hc1, h1]
        simp only
        apply ih
        · exact C05.after_maxiter_val c _ g hlim
        · simpa using hp
        · simp; intro h0; exact absurd h0 hn
        · rw [C05.after_gens c _ hp]; simp only [if_neg hn]; omega


/-! ### the counters of the control loop ARE the lengths of the algorithm's logs -/

theorem stepOnce_evals (a : Alg S) (hmono : ∀ s k, a.nlog s ≤ a.nlog (a.step s k)) (c : Ctl) (s : S) (k : Nat) :
    (stepOnce a c s k).1.evals + a.nlog s = c.evals + a.nlog (stepOnce a c s k).2.1 := by
  have hst := stepOnce_state a c s k
  cases hran : (stepOnce a c s k).2.2.2 with
  | false =>
    rw [hran] at hst
    simp only [Bool.false_eq_true, if_false] at hst
    rw [hst]
    have : (stepOnce a c s k).1.evals = c.evals := by
      unfold stepOnce at hran ⊢
      simp only at hran ⊢
      rcases C05.step_cases c (a.term s c.pre) _ _ with ⟨m, _, hs⟩ | ⟨_, m, _, hs⟩ | ⟨_, _, hs⟩
      · rw [hs]; unfold Ctl.pre; split <;> simp [Ctl.resolve]
      · rw [hs] at hran; simp at hran
      · rw [hs] at hran; simp at hran
    rw [this]
  | true =>
    rw [hran] at hst
    simp only [if_true] at hst
    rw [hst]
    have : (stepOnce a c s k).1.evals = c.evals + (a.nlog (a.step s k) - a.nlog s) := by
      unfold stepOnce at hran ⊢
      simp only at hran ⊢
      exact C05.step_evals_of_ran c _ _ _ hran
    rw [this]
    have := hmono s k
    omega

/-- **evaluation counter = evaluation log**: after `Solve`, `evaluations` has grown by exactly the number of records
the algorithm appended to its evaluation log (every call of the user's cost, and nothing else) -/
theorem solve_evals_eq_log (a : Alg S) (hmono : ∀ s k, a.nlog s ≤ a.nlog (a.step s k)) :
    ∀ (fuel : Nat) (c : Ctl) (s : S) (k n : Nat),
      (solve a fuel c s k n).ctl.evals + a.nlog s = c.evals + a.nlog (solve a fuel c s k n).st := by
  intro fuel
  induction fuel with
  | zero => intro c s k n; simp [solve]
  | succ fuel ih =>
    intro c s k n
    have h1 := stepOnce_evals a hmono c s k
    unfold solve
    simp only
    cases hm : (stepOnce a c s k).2.2.1 with
    | some m => simpa using h1
    | none =>
      simp only
      have h2 := ih (stepOnce a c s k).1 (stepOnce a c s k).2.1
        (if (stepOnce a c s k).2.2.2 = true then k + 1 else k) (n + 1)
      omega

theorem step_gens_of (c : Ctl) (tp tq : Bool) (d : Delta) (hp : c.powell = false) :
    (c.step tp tq d).1.gens = c.gens + (if (c.step tp tq d).2.2 = true then d.dGens else 0) ∧
    (c.step tp tq d).1.powell = false := by
  rcases C05.step_cases c tp tq d with ⟨m, _, hs⟩ | ⟨_, m, _, hs⟩ | ⟨_, _, hs⟩
  · rw [hs]
    refine ⟨?_, ?_⟩
    · unfold Ctl.pre; split <;> simp [Ctl.resolve]
    · unfold Ctl.pre; split <;> simp [Ctl.resolve, hp]
  · rw [hs]
    simp only [if_true]
    rw [C05.finalize_gens _ (by simpa using hp), C05.after_gens c _ hp, C05.finalize_powell]
    exact ⟨rfl, by simpa using hp⟩
  · rw [hs]
    simp only [if_true]
    rw [C05.after_gens c _ hp]
    exact ⟨rfl, by simpa using hp⟩

/-- one `Step` of the closed loop advances `generations` by one exactly when an iteration ran after the initial
evaluation (`generations = len(stepmon) - 1`) -/
theorem stepOnce_gens (a : Alg S) (c : Ctl) (s : S) (k : Nat) (hp : c.powell = false) :
    (stepOnce a c s k).1.gens =
      c.gens + (if (stepOnce a c s k).2.2.2 = true then (if c.nstep = 0 then 0 else 1) else 0) ∧
    (stepOnce a c s k).1.powell = false := by
  unfold stepOnce
  simp only
  exact step_gens_of c _ _ _ hp

/-! ### differential evolution: the closed loop ends in a state of the open loop `DE.run` -/

section DE
variable {R : Type} [Add R] [Sub R] [Mul R] [Div R] [Neg R] [LT R] [DecidableLT R] [LE R] [DecidableLE R]
  [BEq R] [OfNat R 0] [OfNat R 2]

theorem iterate_deAlg (two : Bool) (o : Obj (List R) R) (cond : Term.Cond R) (pop0 : List (List R))
    (trialss : List (List (List R))) : ∀ (m : Nat) (s : DE (List R) R),
    ∃ tss : List (List (List R)), tss.length = m ∧
      iterate (deAlg two o cond pop0 trialss) m s 0 = Checkpoint.DE.run two o tss s := by
  -- generalised over the starting iteration index
  have gen : ∀ (m : Nat) (s : DE (List R) R) (k : Nat), ∃ tss : List (List (List R)), tss.length = m ∧
      iterate (deAlg two o cond pop0 trialss) m s k = Checkpoint.DE.run two o tss s := by
    intro m
    induction m with
    | zero => intro s k; exact ⟨[], rfl, rfl⟩
    | succ m ih =>
      intro s k
      obtain ⟨tss, hl, hr⟩ := ih ((deAlg two o cond pop0 trialss).step s k) (k + 1)
      refine ⟨(if k = 0 then pop0 else trialss.getD (k - 1) []) :: tss, by simp [hl], ?_⟩
      rw [iterate, hr]
      unfold Checkpoint.DE.run deAlg
      simp only [List.foldl_cons]
  intro m s
  exact gen m s 0

end DE

end MysticVerif.Closed
