/- the closed loops of Nelder-Mead and Powell end in a state of their open loops (`Nat.iterate NM.update`,
   `PowellS.reach`), so that what C01-C04 prove about every number of iterations holds wherever `Solve` stops -/
import MysticVerif.Proofs.ClosedLoop
import MysticVerif.Proofs.PowellS

namespace MysticVerif.Closed
open MysticVerif.Solver

variable {S : Type}

/-- an algorithm whose iteration 0 builds its state from nothing, whose iteration 1 is `g1` and whose later
    iterations are all `f`: `n + 2` iterations from ANY starting state give `f^[n] (g1 g0)` -/
theorem iterate_three_phase (a : Alg S) (g0 : S) (g1 f : S → S) (h0 : ∀ s, a.step s 0 = g0)
    (h1 : ∀ s, a.step s 1 = g1 s) (h2 : ∀ s k, 2 ≤ k → a.step s k = f s) :
    ∀ (n : Nat) (s : S), iterate a (n + 2) s 0 = f^[n] (g1 g0) := by
  intro n
  induction n with
  | zero =>
    intro s
    simp only [iterate, Function.iterate_zero, id]
    rw [h0, h1]
  | succ n ih =>
    intro s
    rw [iterate_succ', ih s, Function.iterate_succ_apply']
    exact h2 _ _ (by omega)

theorem iterate_one (a : Alg S) (s : S) : iterate a 1 s 0 = a.step s 0 := rfl

section NM
variable {R : Type} [Add R] [Sub R] [Mul R] [Div R] [Neg R] [LT R] [DecidableLT R] [LE R] [DecidableLE R]
  [BEq R] [OfNat R 0] [OfNat R 2]

theorem iterate_nmAlg (o : Obj (Pt R) R) (coef : Coef R) (st clip0 mkVal : Pt R → Pt R) (cond : Term.Cond R)
    (x0 : Pt R) (n : Nat) (s : NM R R) :
    iterate (nmAlg o coef st clip0 mkVal cond x0) (n + 2) s 0
      = (fun s => (NM.update o coef st s).1)^[n] (NM.gen1 o clip0 mkVal (NM.gen0 o 0 (clip0 x0))) := by
  apply iterate_three_phase
  · intro s; simp [nmAlg]
  · intro s; simp [nmAlg]
  · intro s k hk
    have h0 : k ≠ 0 := by omega
    have h1 : k ≠ 1 := by omega
    simp [nmAlg, h0, h1]

theorem iterate_nmAlg_one (o : Obj (Pt R) R) (coef : Coef R) (st clip0 mkVal : Pt R → Pt R) (cond : Term.Cond R)
    (x0 : Pt R) (s : NM R R) :
    iterate (nmAlg o coef st clip0 mkVal cond x0) 1 s 0 = NM.gen0 o 0 (clip0 x0) := by
  simp [iterate, nmAlg]

end NM

section PW
variable {R : Type} [Add R] [Sub R] [Mul R] [Div R] [Neg R] [LT R] [DecidableLT R] [LE R] [DecidableLE R]
  [BEq R] [OfNat R 0] [OfNat R 2]

omit [Add R] [Div R] [Neg R] [LE R] [DecidableLE R] [BEq R] [OfNat R 0] [OfNat R 2] in
theorem run_eq_iterate (o : Obj (Pt R) R) (cfg : PowellS.PwCfg R R) (ls : Nat → Pt R → Pt R → PowellS.LsRec R) :
    ∀ (n : Nat) (s : PowellS.Pw R R), PowellS.run o cfg ls n s = (PowellS.genN o cfg ls)^[n] s := by
  intro n
  induction n with
  | zero => intro s; rfl
  | succ n ih => intro s; rw [PowellS.run, ih, Function.iterate_succ_apply]

theorem iterate_pwAlg (o : Obj (Pt R) R) (cfg : PowellS.PwCfg R R) (ls : Nat → Pt R → Pt R → PowellS.LsRec R)
    (cond : Term.Cond R) (record : Bool) (x0 : Pt R) (direc : List (Pt R)) (n : Nat) (s : PowellS.Pw R R) :
    iterate (pwAlg o cfg ls cond record x0 direc) (n + 2) s 0 = PowellS.reach o cfg ls record x0 direc n := by
  unfold PowellS.reach
  rw [run_eq_iterate]
  apply iterate_three_phase
  · intro s; simp [pwAlg]
  · intro s; simp [pwAlg]
  · intro s k hk
    have h0 : k ≠ 0 := by omega
    have h1 : k ≠ 1 := by omega
    simp [pwAlg, h0, h1]

theorem iterate_pwAlg_one (o : Obj (Pt R) R) (cfg : PowellS.PwCfg R R) (ls : Nat → Pt R → Pt R → PowellS.LsRec R)
    (cond : Term.Cond R) (record : Bool) (x0 : Pt R) (direc : List (Pt R)) (s : PowellS.Pw R R) :
    iterate (pwAlg o cfg ls cond record x0 direc) 1 s 0 = PowellS.gen0 o cfg record x0 direc := by
  simp [iterate, pwAlg]

end PW

end MysticVerif.Closed
