/- helper lemmas for Props/C19: the numeric part over a linearly ordered field -/
import MysticVerif.Proofs.DiscretePack
import MysticVerif.Proofs.Discrete
import Mathlib.Tactic.Ring
import Mathlib.Tactic.Linarith
import Mathlib.Tactic.FieldSimp
import Mathlib.Algebra.Order.Field.Basic
import Mathlib.Algebra.BigOperators.Group.List.Basic
import Mathlib.Algebra.BigOperators.Ring.List

set_option linter.unusedSectionVars false
set_option linter.unusedSimpArgs false

namespace MysticVerif.Discrete

variable {K : Type} [Field K] [LinearOrder K] [IsStrictOrderedRing K]

/-! ### sequential folds are `List.sum` / `List.prod` -/

theorem foldl_add_eq (l : List K) (a : K) : l.foldl (· + ·) a = a + l.sum := by
  induction l generalizing a with
  | nil => simp
  | cons x l ih => simp only [List.foldl_cons, List.sum_cons, ih]; ring

theorem foldl_mul_eq' (l : List K) (a : K) : l.foldl (· * ·) a = a * l.prod := by
  induction l generalizing a with
  | nil => simp
  | cons x l ih => simp only [List.foldl_cons, List.prod_cons, ih]; ring

theorem sumL_eq_sum (l : List K) : sumL l = l.sum := by
  simp [sumL, foldl_add_eq]

theorem prodL_eq_prod (l : List K) : prodL l = l.prod := by
  simp [prodL, foldl_mul_eq']

theorem prodL_cons (x : K) (t : List K) : prodL (x :: t) = x * prodL t := by
  simp [prodL_eq_prod]

/-! ### product weights -/

theorem weights_cons (m : Measure K) (c : PM K) :
    weights (m :: c) = ((pack (wts c)).flatMap fun t => (mweights m).map fun x => x :: t).map prodL := by
  simp [weights, wts, pack]

theorem weights_getElem? (m : Measure K) (c : PM K) (k : Nat) (h0 : 0 < m.length) :
    (weights (m :: c))[k]? =
      (weights c)[k / m.length]?.bind (fun wr => (mweights m)[k % m.length]?.map (· * wr)) := by
  have hw : 0 < (mweights m).length := by simpa using h0
  have h := pack_getElem?_divmod (mweights m) (wts c) k hw
  simp only [length_mweights] at h
  have e : wts (m :: c) = mweights m :: wts c := by simp [wts]
  simp only [weights, e, List.getElem?_map, h]
  cases (pack (wts c))[k / m.length]? with
  | none => simp
  | some t =>
    cases (mweights m)[k % m.length]? with
    | none => simp
    | some x => simp [prodL_cons]

theorem sum_flatMap_cons_prodL (s : List K) (P : List (List K)) :
    ((P.flatMap fun t => s.map fun x => x :: t).map prodL).sum = s.sum * (P.map prodL).sum := by
  induction P with
  | nil => simp
  | cons t P ih =>
    simp only [List.flatMap_cons, List.map_append, List.sum_append, ih, List.map_cons, List.sum_cons,
      List.map_map]
    have : (List.map (prodL ∘ fun x => x :: t) s).sum = s.sum * prodL t := by
      have e : (prodL ∘ fun x => x :: t) = fun x => x * prodL t := by
        funext x; simp [prodL_cons]
      rw [e, List.sum_map_mul_right]
      simp
    rw [this]; ring

theorem weights_sum_eq (c : PM K) : (weights c).sum = (mass c).prod := by
  induction c with
  | nil => simp [weights, wts, pack, prodL, mass]
  | cons m c ih =>
    rw [weights_cons, sum_flatMap_cons_prodL]
    simp only [mass, List.map_cons, List.prod_cons, sumL_eq_sum]
    simp only [weights, mass, sumL_eq_sum] at ih
    rw [ih]

/-! ### `mean` -/

theorem absR_eq_abs (x : K) : absR x = |x| := by
  unfold absR
  split
  · rename_i h; rw [abs_of_neg h]
  · rename_i h; rw [abs_of_nonneg (not_lt.mp h)]

theorem truthy_eq (x : K) : truthy x = true ↔ x ≠ 0 := by
  simp [truthy]

theorem truthy_false (x : K) : truthy x = false ↔ x = 0 := by
  simp [truthy]

/-- weighted sum `Σ x_i w_i` -/
def wsum (xs ws : List K) : K := (List.zipWith (· * ·) xs ws).sum

theorem mean_eq (inf : K) (xs ws : List K) (hw : ws.sum ≠ 0) :
    mean inf xs ws = wsum xs ws / ws.sum := by
  unfold mean wsum
  simp only [sumL_eq_sum]
  rw [if_pos ((truthy_eq _).mpr hw)]
  split
  · rename_i h
    rw [absR_eq_abs] at h
    have : |(List.zipWith (· * ·) xs ws).sum / ws.sum| = 0 := le_antisymm h (abs_nonneg _)
    rw [abs_eq_zero] at this
    rw [this]
  · rfl

theorem wsum_map_affine (xs ws : List K) (a b : K) (hl : xs.length = ws.length) :
    wsum (xs.map fun x => x * a + b) ws = a * wsum xs ws + b * ws.sum := by
  unfold wsum
  induction xs generalizing ws with
  | nil => cases ws with
    | nil => simp
    | cons _ _ => simp at hl
  | cons x xs ih =>
    cases ws with
    | nil => simp at hl
    | cons w ws =>
      simp only [List.length_cons, Nat.add_right_cancel_iff] at hl
      simp only [List.map_cons, List.zipWith_cons_cons, List.sum_cons, ih ws hl]
      ring

theorem mean_affine (inf : K) (xs ws : List K) (a b : K) (hl : xs.length = ws.length) (hw : ws.sum ≠ 0) :
    mean inf (xs.map fun x => x * a + b) ws = mean inf xs ws * a + b := by
  rw [mean_eq inf _ ws hw, mean_eq inf xs ws hw, wsum_map_affine xs ws a b hl]
  field_simp

theorem moment2_eq (inf : K) (xs ws : List K) (hw : ws.sum ≠ 0) :
    moment2 inf xs ws =
      wsum (xs.map fun s => (s - mean inf xs ws) * (s - mean inf xs ws)) ws / ws.sum := by
  unfold moment2
  exact mean_eq inf _ ws hw

theorem moment2_affine (inf : K) (xs ws : List K) (a b : K) (hl : xs.length = ws.length) (hw : ws.sum ≠ 0) :
    moment2 inf (xs.map fun x => x * a + b) ws = a * a * moment2 inf xs ws := by
  rw [moment2_eq inf _ ws hw, moment2_eq inf xs ws hw, mean_affine inf xs ws a b hl hw]
  have e : ((xs.map fun x => x * a + b).map fun s =>
      (s - (mean inf xs ws * a + b)) * (s - (mean inf xs ws * a + b)))
      = (xs.map fun s => (s - mean inf xs ws) * (s - mean inf xs ws)).map fun y => y * (a * a) + 0 := by
    simp only [List.map_map]
    apply List.map_congr_left
    intro x _
    simp only [Function.comp]
    ring
  rw [e, wsum_map_affine _ ws (a * a) 0 (by simpa using hl)]
  field_simp
  ring

/-! ### expectation / expected variance -/

section expect
variable (h : List K → K)

theorem filter_nz_sums (L : List (List K × K)) :
    (((L.filter fun xw => decide (0 < absR xw.2)).map fun xw => xw.2 * h xw.1).sum
        = (L.map fun xw => xw.2 * h xw.1).sum) ∧
    (((L.filter fun xw => decide (0 < absR xw.2)).map (·.2)).sum = (L.map (·.2)).sum) := by
  induction L with
  | nil => simp
  | cons a L ih =>
    by_cases hz : a.2 = 0
    · have hnot : ¬ (decide (0 < absR a.2) = true) := by rw [absR_eq_abs, hz]; simp
      rw [List.filter_cons_of_neg (p := fun xw : List K × K => decide (0 < absR xw.2)) hnot]
      simp only [List.map_cons, List.sum_cons, hz, zero_mul, zero_add]
      exact ih
    · have hpos : decide (0 < absR a.2) = true := by
        rw [absR_eq_abs]; simpa using abs_pos.mpr hz
      rw [List.filter_cons_of_pos (p := fun xw : List K × K => decide (0 < absR xw.2)) hpos]
      simp only [List.map_cons, List.sum_cons]
      rw [ih.1, ih.2]
      exact ⟨rfl, rfl⟩

theorem zipWith_map_map {β : Type} (k : List β) (a b : β → K) :
    List.zipWith (· * ·) (k.map a) (k.map b) = k.map fun x => a x * b x := by
  induction k with
  | nil => rfl
  | cons x k ih => simp [ih]

/-- the weighted mean of `g ∘ f` over the kept pairs equals the weighted mean over all pairs -/
theorem kept_mean (inf : K) (f : List K → K) (g : K → K) (P : List (List K)) (ws : List K)
    (hlen : P.length = ws.length) (hw : ws.sum ≠ 0) :
    mean inf (((keptYW f P ws).map (·.1)).map g) ((keptYW f P ws).map (·.2))
      = ((List.zip P ws).map fun xw => xw.2 * g (f xw.1)).sum / ws.sum := by
  have hsnd : (List.zip P ws).map (·.2) = ws := List.map_snd_zip (by omega)
  obtain ⟨hA, hW⟩ := filter_nz_sums (fun x => g (f x)) (List.zip P ws)
  rw [hsnd] at hW
  have hne : ((List.zip P ws).filter fun xw => decide (0 < absR xw.2)).isEmpty = false := by
    cases hk : ((List.zip P ws).filter fun xw => decide (0 < absR xw.2)) with
    | nil => rw [hk] at hW; simp at hW; exact absurd hW.symm hw
    | cons _ _ => rfl
  unfold keptYW
  simp only [hne]
  simp only [List.map_map, Bool.false_eq_true, if_false]
  have hw' : ((List.map ((fun x => x.2) ∘ fun xw => (f xw.1, xw.2))
      (List.filter (fun xw => decide (0 < absR xw.2)) (P.zip ws)))).sum ≠ 0 := by
    have e : ((fun x : K × K => x.2) ∘ fun xw : List K × K => (f xw.1, xw.2)) = fun xw => xw.2 := rfl
    rw [e, hW]; exact hw
  rw [mean_eq inf _ _ hw']
  unfold wsum
  rw [zipWith_map_map]
  have e : ((fun x : K × K => x.2) ∘ fun xw : List K × K => (f xw.1, xw.2)) = fun xw => xw.2 := rfl
  rw [e, hW]
  congr 1
  rw [← hA]
  congr 1
  apply List.map_congr_left
  intro xw _
  simp only [Function.comp]
  ring

end expect

theorem expectation_eq (inf : K) (f : List K → K) (P : List (List K)) (ws : List K)
    (hlen : P.length = ws.length) (hw : ws.sum ≠ 0) :
    expectation inf f P ws = ((List.zip P ws).map fun xw => xw.2 * f xw.1).sum / ws.sum := by
  have := kept_mean inf f id P ws hlen hw
  simpa [expectation] using this

theorem expectedVariance_eq (inf : K) (f : List K → K) (P : List (List K)) (ws : List K)
    (hlen : P.length = ws.length) (hw : ws.sum ≠ 0) :
    expectedVariance inf f P ws =
      ((List.zip P ws).map fun xw =>
        xw.2 * ((f xw.1 - expectation inf f P ws) * (f xw.1 - expectation inf f P ws))).sum / ws.sum := by
  have := kept_mean inf f (fun s => (s - expectation inf f P ws) * (s - expectation inf f P ws)) P ws hlen hw
  rw [← this]
  rfl

/-! ### pof / support -/

theorem pof_foldl (f : List K → K) (L : List (List K × K)) (a : K) :
    L.foldl (fun u xw => if f xw.1 ≤ 0 then u + xw.2 else u) a
      = a + ((L.filter fun xw => decide (f xw.1 ≤ 0)).map (·.2)).sum := by
  induction L generalizing a with
  | nil => simp
  | cons x L ih =>
    simp only [List.foldl_cons, List.filter_cons, decide_eq_true_eq]
    split
    · simp only [ih, List.map_cons, List.sum_cons]; ring
    · simp only [ih]

theorem pofL_eq (f : List K → K) (P : List (List K)) (ws : List K) :
    pofL f P ws = (((List.zip P ws).filter fun xw => decide (f xw.1 ≤ 0)).map (·.2)).sum := by
  unfold pofL
  rw [pof_foldl]; simp

theorem supportL_eq {β : Type} (samples : List β) (ws : List K) (tol : K) (hl : samples.length = ws.length) :
    supportL samples ws tol
      = some (((List.zip samples ws).filter fun xw => decide (tol < xw.2)).map (·.1)) := by
  induction samples generalizing ws with
  | nil => cases ws with
    | nil => simp [supportL]
    | cons _ _ => simp at hl
  | cons x xs ih =>
    cases ws with
    | nil => simp at hl
    | cons w ws =>
      simp only [List.length_cons, Nat.add_right_cancel_iff] at hl
      simp only [supportL, List.zip_cons_cons, List.filter_cons, decide_eq_true_eq]
      split
      · simp [ih ws hl]
      · simp [ih ws hl]

theorem mem_supportIndexL (ws : List K) (tol : K) (i : Nat) :
    i ∈ supportIndexL ws tol ↔ ∃ w, ws[i]? = some w ∧ tol < w := by
  unfold supportIndexL
  simp only [List.mem_filter, List.mem_range]
  constructor
  · rintro ⟨hi, h2⟩
    refine ⟨ws[i], by simp [hi], ?_⟩
    simpa [List.getElem?_eq_getElem hi] using h2
  · rintro ⟨w, hw, ht⟩
    have hi : i < ws.length := by
      by_contra hc
      rw [List.getElem?_eq_none (by omega)] at hw
      exact absurd hw (by simp)
    refine ⟨hi, ?_⟩
    rw [hw]; simpa using ht

/-! ### setters of one measure -/

theorem mweights_withPositions (m : Measure K) (p : List K) (hl : p.length = m.length) :
    mweights (withPositions m p) = mweights m := by
  unfold withPositions mweights
  induction m generalizing p with
  | nil => simp
  | cons a m ih =>
    cases p with
    | nil => simp at hl
    | cons x p =>
      simp only [List.length_cons, Nat.add_right_cancel_iff] at hl
      simp [ih p hl]

theorem mpositions_withPositions (m : Measure K) (p : List K) (hl : p.length = m.length) :
    mpositions (withPositions m p) = p := by
  unfold withPositions mpositions
  induction m generalizing p with
  | nil => cases p with
    | nil => simp
    | cons _ _ => simp at hl
  | cons a m ih =>
    cases p with
    | nil => simp at hl
    | cons x p =>
      simp only [List.length_cons, Nat.add_right_cancel_iff] at hl
      simp [ih p hl]

theorem imposeMean_eq (inf : K) (v : K) (xs ws : List K) :
    imposeMean inf v xs ws = xs.map fun x => x * 1 + (v - mean inf xs ws) := by
  unfold imposeMean
  apply List.map_congr_left
  intro x _; ring

theorem mean_imposeMean (inf : K) (v : K) (xs ws : List K) (hl : xs.length = ws.length) (hw : ws.sum ≠ 0) :
    mean inf (imposeMean inf v xs ws) ws = v := by
  rw [imposeMean_eq, mean_affine inf xs ws 1 _ hl hw]; ring

theorem setCenterMass_spec (inf : K) (m : Measure K) (v : K) (hw : (mweights m).sum ≠ 0) :
    centerMass inf (setCenterMass inf m v) = v ∧ mweights (setCenterMass inf m v) = mweights m := by
  have hl : (imposeMean inf v (mpositions m) (mweights m)).length = m.length := by
    simp [imposeMean]
  unfold centerMass setCenterMass
  rw [mweights_withPositions m _ hl, mpositions_withPositions m _ hl]
  exact ⟨mean_imposeMean inf v _ _ (by simp) hw, rfl⟩

/-- scaling then re-centering is one affine map -/
theorem imposeMean_scale (inf : K) (m0 scale : K) (xs ws : List K) :
    imposeMean inf m0 (xs.map (· * scale)) ws
      = xs.map fun x => x * scale + (m0 - mean inf (xs.map (· * scale)) ws) := by
  unfold imposeMean
  simp only [List.map_map]
  rfl

theorem mean_imposeMean_scale (inf : K) (scale : K) (xs ws : List K) (hl : xs.length = ws.length)
    (hw : ws.sum ≠ 0) :
    mean inf (imposeMean inf (mean inf xs ws) (xs.map (· * scale)) ws) ws = mean inf xs ws :=
  mean_imposeMean inf _ _ ws (by simpa using hl) hw

/-! #### max / min under a monotone map -/

theorem foldl_max_mono (g : K → K) (hg : Monotone g) (l : List K) (a : K) :
    (l.map g).foldl (fun m x => if m < x then x else m) (g a)
      = g (l.foldl (fun m x => if m < x then x else m) a) := by
  induction l generalizing a with
  | nil => rfl
  | cons x l ih =>
    simp only [List.map_cons, List.foldl_cons]
    have : (if g a < g x then g x else g a) = g (if a < x then x else a) := by
      by_cases h : a < x
      · rw [if_pos h]
        have := hg (le_of_lt h)
        rcases lt_or_eq_of_le this with h2 | h2
        · rw [if_pos h2]
        · rw [if_neg (by rw [h2]; exact lt_irrefl _), h2]
      · rw [if_neg h]
        have := hg (not_lt.mp h)
        rw [if_neg (not_lt.mpr this)]
    rw [this, ih]

theorem foldl_min_mono (g : K → K) (hg : Monotone g) (l : List K) (a : K) :
    (l.map g).foldl (fun m x => if x < m then x else m) (g a)
      = g (l.foldl (fun m x => if x < m then x else m) a) := by
  induction l generalizing a with
  | nil => rfl
  | cons x l ih =>
    simp only [List.map_cons, List.foldl_cons]
    have : (if g x < g a then g x else g a) = g (if x < a then x else a) := by
      by_cases h : x < a
      · rw [if_pos h]
        have := hg (le_of_lt h)
        rcases lt_or_eq_of_le this with h2 | h2
        · rw [if_pos h2]
        · rw [if_neg (by rw [h2]; exact lt_irrefl _), h2]
      · rw [if_neg h]
        have := hg (not_lt.mp h)
        rw [if_neg (not_lt.mpr this)]
    rw [this, ih]

theorem le_foldl_max (l : List K) (a : K) : a ≤ l.foldl (fun m x => if m < x then x else m) a := by
  induction l generalizing a with
  | nil => exact le_refl _
  | cons x l ih =>
    simp only [List.foldl_cons]
    refine le_trans ?_ (ih _)
    split
    · rename_i h; exact le_of_lt h
    · exact le_refl _

theorem foldl_min_le (l : List K) (a : K) : l.foldl (fun m x => if x < m then x else m) a ≤ a := by
  induction l generalizing a with
  | nil => exact le_refl _
  | cons x l ih =>
    simp only [List.foldl_cons]
    refine le_trans (ih _) ?_
    split
    · rename_i h; exact le_of_lt h
    · exact le_refl _

theorem spread_nonneg (l : List K) (sr : K) (h : spread l = some sr) : 0 ≤ sr := by
  cases l with
  | nil => simp [spread, maxL, minL] at h
  | cons a l =>
    simp only [spread, maxL, minL, Option.some.injEq] at h
    rw [← h]
    have h1 := le_foldl_max l a
    have h2 := foldl_min_le l a
    linarith

theorem spread_map_mono (g : K → K) (hg : Monotone g) (l : List K) :
    spread (l.map g) = match maxL l, minL l with
      | some a, some b => some (g a - g b)
      | _, _ => none := by
  cases l with
  | nil => simp [spread, maxL, minL]
  | cons a l =>
    simp only [spread, maxL, minL, List.map_cons, foldl_max_mono g hg, foldl_min_mono g hg]

theorem setRange_spec (inf nan : K) (m : Measure K) (r sr : K) (hw : (mweights m).sum ≠ 0)
    (hsr : range m = some sr) (hsr0 : sr ≠ 0) (hr : 0 ≤ r) :
    ∃ m', setRange inf nan m r = some m' ∧ range m' = some r ∧
      centerMass inf m' = centerMass inf m ∧ mweights m' = mweights m := by
  unfold range at hsr
  have hpos : 0 < sr := lt_of_le_of_ne (spread_nonneg _ _ hsr) (Ne.symm hsr0)
  have hscale : 0 ≤ r / sr := div_nonneg hr (le_of_lt hpos)
  set xs := mpositions m with hxs
  set ws := mweights m with hws
  have hlx : xs.length = ws.length := by simp [hxs, hws]
  set res := imposeMean inf (mean inf xs ws) (xs.map (· * (r / sr))) ws with hres
  have hlen : res.length = m.length := by simp [hres, imposeMean, hxs]
  refine ⟨withPositions m res, ?_, ?_, ?_, mweights_withPositions m res hlen⟩
  · unfold setRange imposeSpread
    simp only [← hxs, ← hws, hsr]
    rw [if_neg (by rw [(truthy_eq sr).mpr hsr0]; simp)]
    rfl
  · unfold range
    rw [mpositions_withPositions m res hlen, hres, imposeMean_scale]
    have hg : Monotone fun x : K => x * (r / sr) + (mean inf xs ws - mean inf (xs.map (· * (r / sr))) ws) := by
      intro a b hab
      have := mul_le_mul_of_nonneg_right hab hscale
      linarith
    rw [spread_map_mono _ hg]
    cases hM : maxL xs with
    | none => simp [spread, hM] at hsr
    | some a =>
      cases hN : minL xs with
      | none => simp [spread, hM, hN] at hsr
      | some b =>
        simp only [spread, hM, hN, Option.some.injEq] at hsr
        simp only [Option.some.injEq]
        have : (a - b) * (r / sr) = r := by rw [hsr]; field_simp
        linarith
  · unfold centerMass
    rw [mpositions_withPositions m res hlen, mweights_withPositions m res hlen, hres]
    exact mean_imposeMean_scale inf _ xs ws hlx hw

theorem setVar_spec (inf nan : K) (sqrt : K → K) (m : Measure K) (v : K) (hw : (mweights m).sum ≠ 0)
    (hv0 : variance inf m ≠ 0)
    (hsqrt : sqrt (v / variance inf m) * sqrt (v / variance inf m) = v / variance inf m) :
    variance inf (setVar inf nan sqrt m v) = v ∧
      centerMass inf (setVar inf nan sqrt m v) = centerMass inf m ∧
      mweights (setVar inf nan sqrt m v) = mweights m := by
  unfold variance at hv0 hsqrt
  set xs := mpositions m with hxs
  set ws := mweights m with hws
  have hlx : xs.length = ws.length := by simp [hxs, hws]
  set sc := sqrt (v / moment2 inf xs ws) with hsc
  set res := imposeMean inf (mean inf xs ws) (xs.map (· * sc)) ws with hres
  have hlen : res.length = m.length := by simp [hres, imposeMean, hxs]
  have hset : setVar inf nan sqrt m v = withPositions m res := by
    unfold setVar imposeVariance
    simp only [← hxs, ← hws]
    rw [if_neg (by rw [(truthy_eq _).mpr hv0]; simp)]
  rw [hset]
  refine ⟨?_, ?_, mweights_withPositions m res hlen⟩
  · unfold variance
    rw [mpositions_withPositions m res hlen, mweights_withPositions m res hlen, hres, imposeMean_scale,
      moment2_affine inf xs ws sc _ hlx hw, hsqrt]
    field_simp
  · unfold centerMass
    rw [mpositions_withPositions m res hlen, mweights_withPositions m res hlen, hres]
    exact mean_imposeMean_scale inf _ xs ws hlx hw

end MysticVerif.Discrete
