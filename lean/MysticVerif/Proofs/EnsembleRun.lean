/- lemmas for the runtime part of C09 (Model/EnsembleRun.lean): members as closed loops, evaluation logs, step-wise mode -/
import MysticVerif.Model.EnsembleRun
import MysticVerif.Proofs.ClosedLoop
import MysticVerif.Proofs.NelderMead

set_option linter.unusedSectionVars false
set_option linter.unusedSimpArgs false
set_option linter.unusedVariables false

namespace MysticVerif.Ens
open MysticVerif.Solver MysticVerif.Closed

section Run
variable {P S X E : Type}

/-! ### the members of a run-to-completion solve, slot by slot -/

theorem solveMembers_eq_map (nd : Nested P S X E) (fuel : Nat) (c0 : Ctl) (at_ : Nat) : ∀ (pts : List P) (i : Nat),
    solveMembers nd fuel c0 at_ i pts =
      (pts.zipIdx i).map fun q => memberOf nd (memberRun nd fuel c0 q.1).ctl (memberRun nd fuel c0 q.1).st (q.2 + at_) := by
  intro pts
  induction pts with
  | nil => intro i; simp [solveMembers]
  | cons p ps ih => intro i; simp [solveMembers, ih (i + 1), List.zipIdx_cons]

theorem solveMembers_length (nd : Nested P S X E) (fuel : Nat) (c0 : Ctl) (at_ : Nat) (pts : List P) (i : Nat) :
    (solveMembers nd fuel c0 at_ i pts).length = pts.length := by
  rw [solveMembers_eq_map]; simp

theorem solveMembers_get (nd : Nested P S X E) (fuel : Nat) (c0 : Ctl) (at_ : Nat) (pts : List P) (i j : Nat) :
    (solveMembers nd fuel c0 at_ i pts)[j]? =
      pts[j]?.map fun p => memberOf nd (memberRun nd fuel c0 p).ctl (memberRun nd fuel c0 p).st (i + j + at_) := by
  rw [solveMembers_eq_map, List.getElem?_map, List.getElem?_zipIdx]
  cases pts[j]? <;> simp

theorem solveMembers_evals (nd : Nested P S X E) (fuel : Nat) (c0 : Ctl) (at_ : Nat) : ∀ (pts : List P) (i : Nat),
    (solveMembers nd fuel c0 at_ i pts).map (·.evals) = pts.map fun p => (memberRun nd fuel c0 p).ctl.evals := by
  intro pts
  induction pts with
  | nil => intro i; simp [solveMembers]
  | cons p ps ih => intro i; simp [solveMembers, ih (i + 1), memberOf]

theorem solveMembers_bestE (nd : Nested P S X E) (fuel : Nat) (c0 : Ctl) (at_ : Nat) : ∀ (pts : List P) (i : Nat),
    (solveMembers nd fuel c0 at_ i pts).map (·.bestE) = pts.map fun p => nd.bestE (memberRun nd fuel c0 p).st := by
  intro pts
  induction pts with
  | nil => intro i; simp [solveMembers]
  | cons p ps ih => intro i; simp [solveMembers, ih (i + 1), memberOf]

theorem solveMembers_bestX (nd : Nested P S X E) (fuel : Nat) (c0 : Ctl) (at_ : Nat) : ∀ (pts : List P) (i : Nat),
    (solveMembers nd fuel c0 at_ i pts).map (·.bestX) = pts.map fun p => nd.bestX (memberRun nd fuel c0 p).st := by
  intro pts
  induction pts with
  | nil => intro i; simp [solveMembers]
  | cons p ps ih => intro i; simp [solveMembers, ih (i + 1), memberOf]

theorem solveMembers_gens (nd : Nested P S X E) (fuel : Nat) (c0 : Ctl) (at_ : Nat) : ∀ (pts : List P) (i : Nat),
    (solveMembers nd fuel c0 at_ i pts).map (·.gens) = pts.map fun p => (memberRun nd fuel c0 p).ctl.gens := by
  intro pts
  induction pts with
  | nil => intro i; simp [solveMembers]
  | cons p ps ih => intro i; simp [solveMembers, ih (i + 1), memberOf]

theorem foldl_add_start (l : List Nat) (a : Nat) : l.foldl (· + ·) a = a + l.sum := by
  induction l generalizing a with
  | nil => simp
  | cons b l ih => simp [List.foldl_cons, ih, List.sum_cons, Nat.add_assoc]

/-! ### evaluation counter = evaluation log, with an invariant on the reachable (state, iteration number) pairs -/

theorem stepOnce_evals_at (a : Alg S) (c : Ctl) (s : S) (k : Nat) (h : a.nlog s ≤ a.nlog (a.step s k)) :
    (stepOnce a c s k).1.evals + a.nlog s = c.evals + a.nlog (stepOnce a c s k).2.1 := by
  have hst := stepOnce_state a c s k
  cases hran : (stepOnce a c s k).2.2.2 with
  | false =>
    rw [hran] at hst
    simp only [Bool.false_eq_true, if_false] at hst
    rw [hst]
    have : (stepOnce a c s k).1.evals = c.evals := by
      unfold stepOnce at hran ⊢
      simp only at hran ⊢
      rcases C05.step_cases c (a.term s c.pre) _ _ with ⟨m, _, hs⟩ | ⟨_, m, _, hs⟩ | ⟨_, _, hs⟩
      · rw [hs]; unfold Ctl.pre; split <;> simp [Ctl.resolve]
      · rw [hs] at hran; simp at hran
      · rw [hs] at hran; simp at hran
    rw [this]
  | true =>
    rw [hran] at hst
    simp only [if_true] at hst
    rw [hst]
    have : (stepOnce a c s k).1.evals = c.evals + (a.nlog (a.step s k) - a.nlog s) := by
      unfold stepOnce at hran ⊢
      simp only at hran ⊢
      exact C05.step_evals_of_ran c _ _ _ hran
    rw [this]
    omega

/-- `Closed.solve_evals_eq_log` for algorithms whose log only grows ON THE STATES A RUN REACHES (`I`: an invariant of
(state, number of iterations performed) preserved by the algorithm's step) -/
theorem solve_evals_eq_log_inv (a : Alg S) (I : S → Nat → Prop) (hI : ∀ s k, I s k → I (a.step s k) (k + 1))
    (hmono : ∀ s k, I s k → a.nlog s ≤ a.nlog (a.step s k)) :
    ∀ (fuel : Nat) (c : Ctl) (s : S) (k n : Nat), I s k →
      (solve a fuel c s k n).ctl.evals + a.nlog s = c.evals + a.nlog (solve a fuel c s k n).st := by
  intro fuel
  induction fuel with
  | zero => intro c s k n _; simp [solve]
  | succ fuel ih =>
    intro c s k n hi
    have h1 := stepOnce_evals_at a c s k (hmono s k hi)
    have hst := stepOnce_state a c s k
    unfold solve
    simp only
    cases hm : (stepOnce a c s k).2.2.1 with
    | some m => simpa using h1
    | none =>
      simp only
      have hi' : I (stepOnce a c s k).2.1 (if (stepOnce a c s k).2.2.2 = true then k + 1 else k) := by
        cases hran : (stepOnce a c s k).2.2.2 with
        | false => rw [hran] at hst; simp only [Bool.false_eq_true, if_false] at hst ⊢; rw [hst]; exact hi
        | true => rw [hran] at hst; simp only [if_true] at hst ⊢; rw [hst]; exact hI s k hi
      have h2 := ih (stepOnce a c s k).1 (stepOnce a c s k).2.1
        (if (stepOnce a c s k).2.2.2 = true then k + 1 else k) (n + 1) hi'
      omega

end Run

/-! ### Nelder-Mead: the evaluation log only grows (after the initial evaluation, which starts it) -/
section NMLog
variable {R E : Type}

theorem objK_len (o : Obj (Pt R) E) (x : Pt R) (log : List (Pt R × E)) : log.length ≤ (o.objK x log).2.length := by
  unfold Obj.objK Obj.objAt Obj.evalB
  simp only
  split <;> simp

theorem buildRows_len (o : Obj (Pt R) E) (x0 : Pt R) : ∀ (vs : List R) (k : Nat) (log : List (Pt R × E)),
    log.length ≤ (buildRows o x0 vs k log).2.length := by
  intro vs
  induction vs with
  | nil => intro k log; simp [buildRows]
  | cons v vs ih =>
    intro k log
    simp only [buildRows]
    exact le_trans (objK_len o _ log) (ih _ _)

theorem shrinkAll_len [Add R] [Sub R] [Mul R] (o : Obj (Pt R) E) (c : Coef R) (st : Pt R → Pt R) (x0 : Pt R) :
    ∀ (l : List (Pt R × E)) (log : List (Pt R × E)), log.length ≤ (shrinkAll o c st x0 l log).2.length := by
  intro l
  induction l with
  | nil => intro log; simp [shrinkAll]
  | cons p l ih =>
    intro log
    obtain ⟨xj, e⟩ := p
    simp only [shrinkAll]
    exact le_trans (objK_len o _ log) (ih _)

theorem finish_log [LT E] [DecidableLT E] (s : NM R E) (sx : List (Pt R × E)) (log : List (Pt R × E)) :
    (NM.finish s sx log).log = log ∨ NM.finish s sx log = s := by
  unfold NM.finish
  split
  · right; rfl
  · left; rfl

theorem core_len [Add R] [Sub R] [Mul R] [Div R] [LT E] [DecidableLT E] [LE E] [DecidableLE E]
    (o : Obj (Pt R) E) (c : Coef R) (st : Pt R → Pt R) (x0 : Pt R) (f0 : E) (tl : List (Pt R × E))
    (xw : Pt R) (fw fsw : E) (log : List (Pt R × E)) :
    log.length ≤ (NM.core o c st x0 f0 tl xw fw fsw log).2.1.length := by
  unfold NM.core
  simp only
  have h1 := fun x => objK_len o x log
  split
  · split
    · exact le_trans (h1 _) (objK_len o _ _)
    · exact le_trans (h1 _) (objK_len o _ _)
  · split
    · exact h1 _
    · split
      · split
        · exact le_trans (h1 _) (objK_len o _ _)
        · exact le_trans (h1 _) (le_trans (objK_len o _ _) (shrinkAll_len o c st x0 tl _))
      · split
        · exact le_trans (h1 _) (objK_len o _ _)
        · exact le_trans (h1 _) (le_trans (objK_len o _ _) (shrinkAll_len o c st x0 tl _))

theorem update_len [Add R] [Sub R] [Mul R] [Div R] [LT E] [DecidableLT E] [LE E] [DecidableLE E]
    (o : Obj (Pt R) E) (c : Coef R) (st : Pt R → Pt R) (s : NM R E) :
    s.log.length ≤ (NM.update o c st s).1.log.length := by
  unfold NM.update
  split
  · exact le_refl _
  · simp only
    split
    · simp only
      rcases finish_log s (NM.core o c st _ _ _ _ _ _ s.log).1 (NM.core o c st _ _ _ _ _ _ s.log).2.1 with h | h
      · rw [h]; exact core_len o c st _ _ _ _ _ _ _
      · rw [h]
    · exact le_refl _

theorem gen1_len [LT E] [DecidableLT E] (o : Obj (Pt R) E) (clip0 mkVal : Pt R → Pt R) (s : NM R E) :
    s.log.length ≤ (NM.gen1 o clip0 mkVal s).log.length := by
  unfold NM.gen1
  split
  · exact le_refl _
  · simp only
    rcases finish_log s ((_, _) :: (buildRows o _ _ 0 s.log).1) (buildRows o _ _ 0 s.log).2 with h | h
    · rw [h]; exact buildRows_len o _ _ _ _
    · rw [h]

end NMLog

section NMAlg
variable {R : Type} [Add R] [Sub R] [Mul R] [Div R] [Neg R] [LT R] [DecidableLT R] [LE R] [DecidableLE R]
  [BEq R] [OfNat R 0] [OfNat R 2]

/-- the invariant of a Nelder-Mead run: before the initial evaluation (`k = 0`) the evaluation log is empty -/
def nmFresh (s : NM R R) (k : Nat) : Prop := k = 0 → s.log.length = 0

theorem nmAlg_mono (o : Obj (Pt R) R) (coef : Coef R) (st clip0 mkVal : Pt R → Pt R) (cond : Term.Cond R) (x0 : Pt R)
    (s : NM R R) (k : Nat) (h : nmFresh s k) :
    (nmAlg o coef st clip0 mkVal cond x0).nlog s ≤
      (nmAlg o coef st clip0 mkVal cond x0).nlog ((nmAlg o coef st clip0 mkVal cond x0).step s k) := by
  simp only [nmAlg]
  by_cases h0 : k = 0
  · simp [h0, h h0]
  · by_cases h1 : k = 1
    · simp only [h0, h1, if_false, if_true]
      simpa using gen1_len o clip0 mkVal s
    · simp only [h0, h1, if_false]
      exact update_len o coef st s

theorem nmAlg_fresh (o : Obj (Pt R) R) (coef : Coef R) (st clip0 mkVal : Pt R → Pt R) (cond : Term.Cond R) (x0 : Pt R)
    (s : NM R R) (k : Nat) (h : nmFresh s k) : nmFresh ((nmAlg o coef st clip0 mkVal cond x0).step s k) (k + 1) := by
  intro h0; omega

end NMAlg

/-! ### step-wise mode -/
section Steps
variable {P S X E : Type}

/-- `n` member `Step()`s -/
def memberSteps (a : Alg S) : Nat → MState S → MState S
  | 0, m => m
  | n + 1, m => memberSteps a n (memberStep a m)

theorem memberSteps_add (a : Alg S) : ∀ (i j : Nat) (m : MState S),
    memberSteps a (j + i) m = memberSteps a i (memberSteps a j m) := by
  intro i j
  induction j with
  | zero => intro m; simp [memberSteps]
  | succ j ih =>
    intro m
    have : j + 1 + i = (j + i) + 1 := by omega
    rw [this]
    simp only [memberSteps]
    exact ih (memberStep a m)

theorem ensSteps_eq_map (nd : Nested P S X E) : ∀ (n : Nat) (ms : List (P × MState S)),
    ensSteps nd n ms = ms.map fun pm => (pm.1, memberSteps (nd.alg pm.1) n pm.2) := by
  intro n
  induction n with
  | zero => intro ms; simp [ensSteps, memberSteps]
  | succ n ih =>
    intro ms
    simp only [ensSteps, ih, ensStep, List.map_map]
    apply List.map_congr_left
    intro pm _
    simp [memberSteps]

theorem viewMembers_eq_map (nd : Nested P S X E) (at_ : Nat) : ∀ (ms : List (P × MState S)) (i : Nat),
    viewMembers nd at_ i ms = (ms.zipIdx i).map fun q => memberOf nd q.1.2.ctl q.1.2.st (q.2 + at_) := by
  intro ms
  induction ms with
  | nil => intro i; simp [viewMembers]
  | cons p ps ih => intro i; simp [viewMembers, ih (i + 1), List.zipIdx_cons]

/-- `_live = True` and nothing else -/
def relive (c : Ctl) : Ctl := { c with live := true }

/-- both limits are numbers (`_SetEvaluationLimits` has run) -/
def Resolved (c : Ctl) : Prop := (∃ g, c.maxiter = .val g) ∧ ∃ e, c.maxfun = .val e

theorem resolve_resolved (c : Ctl) : Resolved c.resolve := by
  unfold Ctl.resolve Resolved
  constructor
  · cases c.maxiter <;> simp
  · cases c.maxfun <;> simp

theorem resolve_of_resolved (c : Ctl) (h : Resolved c) : c.resolve = c := by
  obtain ⟨⟨g, hg⟩, ⟨e, he⟩⟩ := h
  unfold Ctl.resolve
  rw [hg, he]
  cases c
  simp_all

theorem pre_of_resolved (c : Ctl) (h : Resolved c) (hn : c.nstep ≠ 0) : c.pre = relive c := by
  unfold Ctl.pre
  rw [if_neg hn]
  exact resolve_of_resolved _ h

theorem pre_resolved (c : Ctl) (hn : c.nstep ≠ 0) : Resolved c.pre := by
  unfold Ctl.pre
  rw [if_neg hn]
  exact resolve_resolved _

theorem after_resolved (c : Ctl) (d : Delta) : Resolved (c.after d) := by
  unfold Ctl.after
  exact resolve_resolved _

/-- what one `_Step` does to the counters, as `stepOnce` computes it -/
def dOf (a : Alg S) (c : Ctl) (s : S) (k : Nat) : Delta :=
  { dEvals := a.nlog (a.step s k) - a.nlog s, dGens := if c.nstep = 0 then 0 else 1, dStep := a.nrec (a.step s k) - a.nrec s }

/-- the three ways a member's `Step()` can end -/
theorem memberStep_cases (a : Alg S) (m : MState S) :
    (∃ msg, m.ctl.preMsg (a.term m.st m.ctl.pre) = some msg ∧
      memberStep a m = { ctl := m.ctl.pre, st := m.st, k := m.k, msg := some msg }) ∨
    (m.ctl.preMsg (a.term m.st m.ctl.pre) = none ∧
      ∃ msg, (m.ctl.after (dOf a m.ctl m.st m.k)).message (a.term (a.step m.st m.k) (m.ctl.after (dOf a m.ctl m.st m.k))) = some msg ∧
      memberStep a m = { ctl := (m.ctl.after (dOf a m.ctl m.st m.k)).finalize, st := a.step m.st m.k, k := m.k + 1,
                         msg := (m.ctl.after (dOf a m.ctl m.st m.k)).finalize.message
                                  (a.term (a.step m.st m.k) (m.ctl.after (dOf a m.ctl m.st m.k))) }) ∨
    (m.ctl.preMsg (a.term m.st m.ctl.pre) = none ∧
      (m.ctl.after (dOf a m.ctl m.st m.k)).message (a.term (a.step m.st m.k) (m.ctl.after (dOf a m.ctl m.st m.k))) = none ∧
      memberStep a m = { ctl := m.ctl.after (dOf a m.ctl m.st m.k), st := a.step m.st m.k, k := m.k + 1, msg := none }) := by
  have hdef : memberStep a m =
      { ctl := (m.ctl.step (a.term m.st m.ctl.pre) (a.term (a.step m.st m.k) (m.ctl.after (dOf a m.ctl m.st m.k))) (dOf a m.ctl m.st m.k)).1,
        st := if (m.ctl.step (a.term m.st m.ctl.pre) (a.term (a.step m.st m.k) (m.ctl.after (dOf a m.ctl m.st m.k))) (dOf a m.ctl m.st m.k)).2.2 = true
              then a.step m.st m.k else m.st,
        k := if (m.ctl.step (a.term m.st m.ctl.pre) (a.term (a.step m.st m.k) (m.ctl.after (dOf a m.ctl m.st m.k))) (dOf a m.ctl m.st m.k)).2.2 = true
             then m.k + 1 else m.k,
        msg := (m.ctl.step (a.term m.st m.ctl.pre) (a.term (a.step m.st m.k) (m.ctl.after (dOf a m.ctl m.st m.k))) (dOf a m.ctl m.st m.k)).2.1 } := rfl
  rcases C05.step_cases m.ctl (a.term m.st m.ctl.pre) (a.term (a.step m.st m.k) (m.ctl.after (dOf a m.ctl m.st m.k)))
      (dOf a m.ctl m.st m.k) with ⟨msg, hpm, hs⟩ | ⟨hpm, msg, hpost, hs⟩ | ⟨hpm, hpost, hs⟩
  · left; refine ⟨msg, hpm, ?_⟩; rw [hdef, hs]; simp
  · right; left; refine ⟨hpm, msg, hpost, ?_⟩; rw [hdef, hs]; simp
  · right; right; refine ⟨hpm, hpost, ?_⟩; rw [hdef, hs]; simp

/-- the member has stopped: its step monitor is not empty, its limits are resolved, and `Terminated(info=True)` gives
`msg` on its present state -/
structure Stopped (a : Alg S) (m : MState S) (msg : Msg) : Prop where
  nstep : m.ctl.nstep ≠ 0
  res : Resolved m.ctl
  msgNow : (relive m.ctl).message (a.term m.st (relive m.ctl)) = some msg

/-- **a stopped member is not advanced**: its next `Step()` stops at the pre-check - no `_Step`, same algorithm state,
same counters, the same message -/
theorem memberStep_of_stopped (a : Alg S) (m : MState S) (msg : Msg) (h : Stopped a m msg) :
    memberStep a m = { ctl := relive m.ctl, st := m.st, k := m.k, msg := some msg } := by
  have hpre := pre_of_resolved m.ctl h.res h.nstep
  have hpm : m.ctl.preMsg (a.term m.st m.ctl.pre) = some msg := by
    unfold Ctl.preMsg
    rw [if_neg h.nstep, hpre]
    exact h.msgNow
  rcases memberStep_cases a m with ⟨msg', hpm', e⟩ | ⟨hpm', _⟩ | ⟨hpm', _⟩
  · rw [hpm] at hpm'; cases hpm'; rw [e, hpre]
  · rw [hpm] at hpm'; cases hpm'
  · rw [hpm] at hpm'; cases hpm'

theorem stopped_memberStep (a : Alg S) (m : MState S) (msg : Msg) (h : Stopped a m msg) :
    Stopped a (memberStep a m) msg := by
  rw [memberStep_of_stopped a m msg h]
  exact ⟨h.nstep, h.res, h.msgNow⟩

theorem stopped_memberSteps (a : Alg S) (msg : Msg) : ∀ (j : Nat) (m : MState S), Stopped a m msg →
    Stopped a (memberSteps a j m) msg ∧ (memberSteps a j m).st = m.st ∧ (memberSteps a j m).k = m.k ∧
    relive (memberSteps a j m).ctl = relive m.ctl ∧ (1 ≤ j → (memberSteps a j m).msg = some msg) := by
  intro j
  induction j with
  | zero => intro m h; exact ⟨h, rfl, rfl, rfl, by omega⟩
  | succ j ih =>
    intro m h
    have h' := stopped_memberStep a m msg h
    obtain ⟨i1, i2, i3, i4, i5⟩ := ih (memberStep a m) h'
    have e := memberStep_of_stopped a m msg h
    simp only [memberSteps]
    refine ⟨i1, ?_, ?_, ?_, ?_⟩
    · rw [i2, e]
    · rw [i3, e]
    · rw [i4, e]; rfl
    · intro _
      rcases Nat.eq_zero_or_pos j with hj | hj
      · subst hj; simp only [memberSteps]; rw [e]
      · exact i5 hj

theorem pre_powell (c : Ctl) : c.pre.powell = c.powell := by
  unfold Ctl.pre; split <;> simp [Ctl.resolve]

theorem pre_live (c : Ctl) : c.pre.live = true := by
  unfold Ctl.pre; split <;> simp [Ctl.resolve]

theorem after_powell (c : Ctl) (d : Delta) : (c.after d).powell = c.powell := by
  unfold Ctl.after; simp [Ctl.resolve, pre_powell]

theorem after_live (c : Ctl) (d : Delta) : (c.after d).live = true := by
  unfold Ctl.after; simp [Ctl.resolve, pre_live]

theorem relive_of_live (c : Ctl) (h : c.live = true) : relive c = c := by
  cases c; simp_all [relive]

theorem memberStep_powell (a : Alg S) (m : MState S) : (memberStep a m).ctl.powell = m.ctl.powell := by
  rcases memberStep_cases a m with ⟨_, _, e⟩ | ⟨_, _, _, e⟩ | ⟨_, _, e⟩
  · rw [e]; exact pre_powell _
  · rw [e]; simp only; rw [C05.finalize_powell, after_powell]
  · rw [e]; exact after_powell _ _

/-- whenever a member's `Step()` returns a message (at the pre-check or after its iteration), the member is `Stopped`
from then on - for every solver but Powell (whose `Finalize` moves `generations`), provided its step monitor is not
empty afterwards -/
theorem stopped_after_message (a : Alg S) (m : MState S) (msg : Msg) (hp : m.ctl.powell = false)
    (hmsg : (memberStep a m).msg = some msg) (hn : (memberStep a m).ctl.nstep ≠ 0) :
    Stopped a (memberStep a m) msg := by
  rcases memberStep_cases a m with ⟨msg', hpm, e⟩ | ⟨hpm, msg', hpost, e⟩ | ⟨hpm, hpost, e⟩
  · -- stopped at the pre-check
    rw [e] at hmsg hn ⊢
    simp only at hmsg hn ⊢
    cases hmsg
    have hn0 : m.ctl.nstep ≠ 0 := by
      intro h0
      unfold Ctl.preMsg at hpm
      rw [if_pos h0] at hpm
      cases hpm
    refine ⟨hn, pre_resolved m.ctl hn0, ?_⟩
    simp only
    rw [relive_of_live _ (pre_live _)]
    unfold Ctl.preMsg at hpm
    rw [if_neg hn0] at hpm
    exact hpm
  · -- stopped after the iteration
    rw [e] at hmsg hn ⊢
    simp only at hmsg hn ⊢
    have hpa : (m.ctl.after (dOf a m.ctl m.st m.k)).powell = false := by rw [after_powell]; exact hp
    have hfin0 : ∀ c : Ctl, c.powell = false → c.finalize = { c with live := false } := by
      intro c hc; unfold Ctl.finalize; simp [hc]
    have hfin := hfin0 _ hpa
    have hrl : relive (m.ctl.after (dOf a m.ctl m.st m.k)).finalize = m.ctl.after (dOf a m.ctl m.st m.k) := by
      rw [hfin]
      have := after_live m.ctl (dOf a m.ctl m.st m.k)
      generalize m.ctl.after (dOf a m.ctl m.st m.k) = c at this ⊢
      cases c; simp_all [relive]
    refine ⟨hn, ?_, ?_⟩
    · rw [hfin]; exact after_resolved m.ctl _
    · simp only
      rw [hrl]
      rw [C05.finalize_message _ _ hpa] at hmsg
      exact hmsg
  · rw [e] at hmsg
    simp at hmsg

/-- the closed loop `solve` is `memberStep` repeated until a message comes back -/
theorem solve_eq_memberSteps (a : Alg S) : ∀ (fuel : Nat) (m : MState S) (n : Nat),
    (solve a fuel m.ctl m.st m.k n).msg.isSome = true →
    ∃ j, 1 ≤ j ∧ j ≤ fuel ∧ (solve a fuel m.ctl m.st m.k n).steps = n + j ∧
      (memberSteps a j m).ctl = (solve a fuel m.ctl m.st m.k n).ctl ∧
      (memberSteps a j m).st = (solve a fuel m.ctl m.st m.k n).st ∧
      (memberSteps a j m).msg = (solve a fuel m.ctl m.st m.k n).msg ∧
      (memberSteps a j m).k = (solve a fuel m.ctl m.st m.k n).iters ∧
      ∃ m', memberSteps a j m = memberStep a m' ∧ m'.ctl.powell = m.ctl.powell := by
  intro fuel
  induction fuel with
  | zero => intro m n h; simp [solve] at h
  | succ fuel ih =>
    intro m n h
    have e : memberStep a m = MState.mk (stepOnce a m.ctl m.st m.k).1 (stepOnce a m.ctl m.st m.k).2.1
        (if (stepOnce a m.ctl m.st m.k).2.2.2 = true then m.k + 1 else m.k) (stepOnce a m.ctl m.st m.k).2.2.1 := rfl
    unfold solve at h ⊢
    simp only at h ⊢
    cases hm : (stepOnce a m.ctl m.st m.k).2.2.1 with
    | some msg =>
      simp only [hm] at h ⊢
      refine ⟨1, le_refl _, by omega, rfl, ?_, ?_, ?_, ?_, m, rfl, rfl⟩ <;> simp [memberSteps, e, hm]
    | none =>
      simp only [hm] at h ⊢
      have h0 := ih (memberStep a m) (n + 1)
      rw [e] at h0
      simp only at h0
      obtain ⟨j, hj1, hj2, h1, h2, h3, h4, h5, m', h6, h7⟩ := h0 h
      have hpw := memberStep_powell a m
      refine ⟨j + 1, by omega, by omega, by omega, ?_, ?_, ?_, ?_, m', ?_, ?_⟩
      · simp only [memberSteps]; rw [e]; exact h2
      · simp only [memberSteps]; rw [e]; exact h3
      · simp only [memberSteps]; rw [e]; exact h4
      · simp only [memberSteps]; rw [e]; exact h5
      · simp only [memberSteps]; rw [e]; exact h6
      · rw [h7]; rw [e] at hpw; exact hpw

/-! ### `Step`s followed by `Solve()` -/

/-- the count of `Step()` calls handed to `solve` only shows in its own `steps` field -/
theorem solve_calls_irrelevant (a : Alg S) : ∀ (fuel : Nat) (c : Ctl) (s : S) (k n n' : Nat),
    (solve a fuel c s k n).ctl = (solve a fuel c s k n').ctl ∧ (solve a fuel c s k n).st = (solve a fuel c s k n').st ∧
    (solve a fuel c s k n).msg = (solve a fuel c s k n').msg ∧ (solve a fuel c s k n).iters = (solve a fuel c s k n').iters := by
  intro fuel
  induction fuel with
  | zero => intro c s k n n'; simp [solve]
  | succ fuel ih =>
    intro c s k n n'
    simp only [solve]
    cases hm : (stepOnce a c s k).2.2.1 with
    | some m => simp
    | none => exact ih _ _ _ _ _

/-- a `Solve()` that ran out of budget without a message has made exactly that many `Step()` calls -/
theorem memberSteps_of_solve_none (a : Alg S) : ∀ (n : Nat) (m : MState S) (c : Nat),
    (solve a n m.ctl m.st m.k c).msg = none →
    (memberSteps a n m).ctl = (solve a n m.ctl m.st m.k c).ctl ∧ (memberSteps a n m).st = (solve a n m.ctl m.st m.k c).st ∧
    (memberSteps a n m).k = (solve a n m.ctl m.st m.k c).iters := by
  intro n
  induction n with
  | zero => intro m c _; simp [solve, memberSteps]
  | succ n ih =>
    intro m c h
    have e : memberStep a m = MState.mk (stepOnce a m.ctl m.st m.k).1 (stepOnce a m.ctl m.st m.k).2.1
        (if (stepOnce a m.ctl m.st m.k).2.2.2 = true then m.k + 1 else m.k) (stepOnce a m.ctl m.st m.k).2.2.1 := rfl
    unfold solve at h ⊢
    simp only at h ⊢
    cases hm : (stepOnce a m.ctl m.st m.k).2.2.1 with
    | some msg => simp only [hm] at h; cases h
    | none =>
      simp only [hm] at h ⊢
      have h0 := ih (memberStep a m) (c + 1)
      rw [e] at h0
      simp only at h0
      simp only [memberSteps]
      rw [e]
      exact h0 h

/-- `Solve()` cut short by its budget (no message yet) and called again = one `Solve()` with the whole budget -/
theorem solve_resume' (a : Alg S) : ∀ (f1 f2 : Nat) (c : Ctl) (s : S) (k n : Nat),
    (solve a f1 c s k n).msg = none →
    solve a (f1 + f2) c s k n =
      solve a f2 (solve a f1 c s k n).ctl (solve a f1 c s k n).st (solve a f1 c s k n).iters (solve a f1 c s k n).steps := by
  intro f1
  induction f1 with
  | zero => intro f2 c s k n _; simp [solve]
  | succ f1 ih =>
    intro f2 c s k n h
    have e : f1 + 1 + f2 = (f1 + f2) + 1 := by omega
    rw [e]
    simp only [solve] at h ⊢
    split at h
    · cases h
    · exact ih f2 _ _ _ _ h

/-- once `Solve()` has returned a message, more budget changes nothing -/
theorem solve_stable' (a : Alg S) : ∀ (f1 f2 : Nat) (c : Ctl) (s : S) (k n : Nat),
    (solve a f1 c s k n).msg.isSome = true → solve a (f1 + f2) c s k n = solve a f1 c s k n := by
  intro f1
  induction f1 with
  | zero => intro f2 c s k n h; simp [solve] at h
  | succ f1 ih =>
    intro f2 c s k n h
    have e : f1 + 1 + f2 = (f1 + f2) + 1 := by omega
    rw [e]
    simp only [solve] at h ⊢
    split
    · rfl
    · rename_i hm
      split at h
      · rename_i m' hm'
        rw [hm] at hm'
        cases hm'
      · exact ih f2 _ _ _ _ h

/-- a member whose next `Step()` returns a message: its `Solve()` is that one `Step()` -/
theorem memberContinue_of_message (a : Alg S) (fuel : Nat) (m : MState S) (h : (memberStep a m).msg.isSome = true) :
    memberContinue a (fuel + 1) m = memberStep a m := by
  have e : memberStep a m = MState.mk (stepOnce a m.ctl m.st m.k).1 (stepOnce a m.ctl m.st m.k).2.1
      (if (stepOnce a m.ctl m.st m.k).2.2.2 = true then m.k + 1 else m.k) (stepOnce a m.ctl m.st m.k).2.2.1 := rfl
  rw [e] at h
  simp only at h
  obtain ⟨msg, hm⟩ := Option.isSome_iff_exists.mp h
  rw [e]
  unfold memberContinue solve
  simp only [hm]

end Steps

end MysticVerif.Ens
