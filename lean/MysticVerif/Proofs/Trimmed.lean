/-
Helper lemmas for the trimmed / winsorised statistics of C18 (Model/Trimmed.lean) over a linearly ordered field:
CPython's compensated `sum` is the plain sum; `_sort` sorts and commutes with shifts and with positive scalings of
the samples, so the trimmed weights (`_k` of the sorted weights) do not change; `tmean` is the weighted mean and
`tvariance` the weighted variance of the sorted samples under the trimmed weights; at the default cut `k = 0` (strictly
positive weights) `_k` returns the weights and the trimmed mean / variance are the weighted mean / variance.
-/
import MysticVerif.Model.Trimmed
import MysticVerif.Proofs.Measures

set_option linter.unusedSectionVars false

namespace MysticVerif.Meas
variable {K : Type} [Field K] [LinearOrder K] [IsStrictOrderedRing K]

/-! ### CPython's compensated summation is the sum -/

theorem neumaier_fold (l : List K) (f : K) : l.foldl neumaierStep (f, 0) = (f + l.sum, 0) := by
  induction l generalizing f with
  | nil => simp
  | cons x xs ih =>
    have e : neumaierStep (f, 0) x = (f + x, 0) := by
      unfold neumaierStep
      simp only
      split
      · congr 1; ring
      · congr 1; ring
    rw [List.foldl_cons, e, ih, List.sum_cons, add_assoc]

theorem pysum_eq (T : TConsts K) (l : List K) : pysum T l = l.sum := by
  unfold pysum
  rw [neumaier_fold]
  simp [truthy]

theorem meanL_eq (C : Consts K) (T : TConsts K) (ys w : List K) (h : w.sum ≠ 0) :
    meanL C T ys w = wsum ys w / w.sum := by
  unfold meanL wsum
  simp only [pysum_eq, lsum_eq]
  rw [if_pos ((truthy_iff _).mpr h), cut_zero]

/-! ### lengths -/

theorem kReset_length (w : List K) (klo khi : K) (lo hi : Int) (clip : Bool) :
    (kReset w klo khi lo hi clip).length = w.length := by
  unfold kReset
  simp only
  split
  · split <;> simp
  · split
    · simp
    · split <;> simp

theorem kCrop_length (w : List K) (lo hi : Int) : (kCrop w lo hi).length = w.length := by
  unfold kCrop; exact mapIdx_length _ _

theorem kTrim_length (T : TConsts K) (ws : List K) (klo khi : K) (clip norm : Bool) :
    (kTrim T ws klo khi clip norm).length = ws.length := by
  unfold kTrim
  simp only
  split <;> simp [kCrop_length, kReset_length]

theorem insertBy_length (p : K × K) (l : List (K × K)) : (insertBy p l).length = l.length + 1 := by
  induction l with
  | nil => rfl
  | cons q qs ih =>
    simp only [insertBy]
    split
    · simp [ih]
    · simp

theorem sortPairs_length (l : List (K × K)) : (sortPairs l).length = l.length := by
  induction l with
  | nil => rfl
  | cons p l ih => simp [sortPairs, insertBy_length, ih]

theorem trimW_length (T : TConsts K) (xs : List K) (ws : Option (List K)) (klo khi : K) (clip : Bool) :
    (trimW T xs ws klo khi clip).length = (sortedX xs ws).length := by
  unfold trimW sortedX
  rw [kTrim_length]; simp

/-! ### `_sort` sorts -/

theorem insertBy_perm (p : K × K) (l : List (K × K)) : (insertBy p l).Perm (p :: l) := by
  induction l with
  | nil => exact List.Perm.refl _
  | cons q qs ih =>
    simp only [insertBy]
    split
    · exact (List.Perm.cons q ih).trans (List.Perm.swap p q qs)
    · exact List.Perm.refl _

theorem sortPairs_perm (l : List (K × K)) : (sortPairs l).Perm l := by
  induction l with
  | nil => exact List.Perm.refl _
  | cons p l ih => exact (insertBy_perm p _).trans (List.Perm.cons p ih)

theorem insertBy_sorted (p : K × K) (l : List (K × K)) (h : l.Pairwise fun a b => a.1 ≤ b.1) :
    (insertBy p l).Pairwise fun a b => a.1 ≤ b.1 := by
  induction l with
  | nil => simp [insertBy]
  | cons q qs ih =>
    simp only [insertBy]
    rw [List.pairwise_cons] at h
    split
    · rename_i hlt
      rw [List.pairwise_cons]
      refine ⟨?_, ih h.2⟩
      intro a ha
      rcases List.mem_cons.mp ((insertBy_perm p qs).subset ha) with rfl | ha'
      · exact le_of_lt hlt
      · exact h.1 a ha'
    · rename_i hge
      rw [List.pairwise_cons]
      refine ⟨?_, List.pairwise_cons.mpr h⟩
      intro a ha
      rcases List.mem_cons.mp ha with rfl | ha'
      · exact not_lt.mp hge
      · exact le_trans (not_lt.mp hge) (h.1 a ha')

theorem sortPairs_sorted (l : List (K × K)) : (sortPairs l).Pairwise fun a b => a.1 ≤ b.1 := by
  induction l with
  | nil => simp [sortPairs]
  | cons p l ih => exact insertBy_sorted p _ ih

/-! ### `_sort` under a shift and under a positive scaling of the samples -/

/-- scaling of the sample component of a (sample, weight) pair -/
def scaleP (s : K) (q : K × K) : K × K := (q.1 * s, q.2)

theorem insertBy_scale (s : K) (hs : 0 < s) (p : K × K) (l : List (K × K)) :
    insertBy (scaleP s p) (l.map (scaleP s)) = (insertBy p l).map (scaleP s) := by
  induction l with
  | nil => rfl
  | cons q qs ih =>
    simp only [List.map_cons, insertBy, scaleP, mul_lt_mul_iff_left₀ hs]
    split
    · simp only [List.map_cons]; rw [← ih]; rfl
    · rfl

theorem sortPairs_scale (s : K) (hs : 0 < s) (l : List (K × K)) :
    sortPairs (l.map (scaleP s)) = (sortPairs l).map (scaleP s) := by
  induction l with
  | nil => rfl
  | cons p l ih => simp only [List.map_cons, sortPairs, ih, insertBy_scale s hs]

theorem pairsOf_scale (s : K) (xs : List K) (ws : Option (List K)) :
    pairsOf (xs.map (· * s)) ws = (pairsOf xs ws).map (scaleP s) := by
  cases ws with
  | none => simp [pairsOf, scaleP, Function.comp]
  | some w =>
    simp only [pairsOf]
    induction xs generalizing w with
    | nil => simp
    | cons x xs ih =>
      cases w with
      | nil => simp
      | cons a w => simp [ih w, scaleP]

theorem sortedOf_shift (c : K) (xs : List K) (ws : Option (List K)) :
    sortedOf (xs.map (· + c)) ws = (sortedOf xs ws).map (shiftP c) := by
  unfold sortedOf; rw [pairsOf_shift, sortPairs_shift]

theorem sortedOf_scale (s : K) (hs : 0 < s) (xs : List K) (ws : Option (List K)) :
    sortedOf (xs.map (· * s)) ws = (sortedOf xs ws).map (scaleP s) := by
  unfold sortedOf; rw [pairsOf_scale, sortPairs_scale s hs]

theorem sortedX_shift (c : K) (xs : List K) (ws : Option (List K)) :
    sortedX (xs.map (· + c)) ws = (sortedX xs ws).map (· + c) := by
  unfold sortedX; rw [sortedOf_shift, List.map_map, List.map_map]; rfl

theorem sortedX_scale (s : K) (hs : 0 < s) (xs : List K) (ws : Option (List K)) :
    sortedX (xs.map (· * s)) ws = (sortedX xs ws).map (· * s) := by
  unfold sortedX; rw [sortedOf_scale s hs, List.map_map, List.map_map]; rfl

theorem trimW_shift (T : TConsts K) (c : K) (xs : List K) (ws : Option (List K)) (klo khi : K) (clip : Bool) :
    trimW T (xs.map (· + c)) ws klo khi clip = trimW T xs ws klo khi clip := by
  unfold trimW; rw [sortedOf_shift, List.map_map]; rfl

theorem trimW_scale (T : TConsts K) (s : K) (hs : 0 < s) (xs : List K) (ws : Option (List K)) (klo khi : K)
    (clip : Bool) : trimW T (xs.map (· * s)) ws klo khi clip = trimW T xs ws klo khi clip := by
  unfold trimW; rw [sortedOf_scale s hs, List.map_map]; rfl

/-! ### tmean / tvariance are the weighted mean / variance of the sorted samples under the trimmed weights -/

theorem tmean_eq (T : TConsts K) (xs : List K) (ws : Option (List K)) (klo khi : K) (clip : Bool) :
    tmean T xs ws klo khi clip = gmean (sortedX xs ws) (some (trimW T xs ws klo khi clip)) := by
  unfold tmean gmean wsum
  rw [lsum_eq, pysum_eq]

theorem trim_valid (T : TConsts K) (xs : List K) (ws : Option (List K)) (klo khi : K) (clip : Bool)
    (h : (trimW T xs ws klo khi clip).sum ≠ 0) : Valid (sortedX xs ws) (some (trimW T xs ws klo khi clip)) :=
  ⟨(trimW_length T xs ws klo khi clip).symm, h⟩

theorem tvariance_eq (C : Consts K) (T : TConsts K) (xs : List K) (ws : Option (List K)) (klo khi : K) (clip : Bool)
    (h : (trimW T xs ws klo khi clip).sum ≠ 0) :
    tvariance C T xs ws klo khi clip = gmom (sortedX xs ws) (some (trimW T xs ws klo khi clip)) 2 := by
  unfold tvariance gmom
  rw [meanL_eq C T _ _ h, tmean_eq]
  simp only [gmean]
  congr 2
  apply List.map_congr_left; intro x _
  rw [powN_eq, absR_eq, sq_abs]

/-! ### `_k` with nothing to cut -/

theorem cumsumFrom_length (a : K) (l : List K) : (cumsumFrom a l).length = l.length := by
  induction l generalizing a with
  | nil => rfl
  | cons x xs ih => simp [cumsumFrom, ih]

theorem cumsumFrom_pos (a : K) (l : List K) (ha : 0 ≤ a) (hl : ∀ x ∈ l, 0 < x) : ∀ c ∈ cumsumFrom a l, 0 < c := by
  induction l generalizing a with
  | nil => intro c hc; simp [cumsumFrom] at hc
  | cons x xs ih =>
    intro c hc
    have hx := hl x (by simp)
    simp only [cumsumFrom, List.mem_cons] at hc
    rcases hc with rfl | hc
    · linarith
    · exact ih (a + x) (by linarith) (fun y hy => hl y (by simp [hy])) c hc

theorem cumsum_head (l : List K) : (cumsumFrom 0 l).getD 0 0 = l.getD 0 0 := by
  cases l with
  | nil => rfl
  | cons x xs => simp [cumsumFrom]

theorem set_getD_self (l : List K) (i : Nat) : l.set i (l.getD i 0) = l := by
  by_cases h : i < l.length
  · rw [List.getD_eq_getElem?_getD, List.getElem?_eq_getElem h]; simp
  · exact List.set_eq_of_length_le (not_lt.mp h)

theorem pymax0_of_nonneg (x : K) (h : 0 ≤ x) : pymax0 x = x := by
  unfold pymax0; rw [if_neg (not_lt.mpr h)]

theorem count_all (T : TConsts K) (hr : ∀ x : K, 0 < T.rnd x ↔ 0 < x) (l : List K) (h : ∀ c ∈ l, 0 < c) :
    (l.filter fun c => decide (0 < T.rnd (c - 0))).length = l.length := by
  rw [List.filter_eq_self.mpr]
  intro c hc
  simp [hr, h c hc]

theorem kIdx_zero (T : TConsts K) (hr : ∀ x : K, 0 < T.rnd x ↔ 0 < x) (w : List K) (hw : ∀ x ∈ w, 0 < x)
    (hne : w ≠ []) : kIdx T w 0 0 = (0, (w.length : Int) - 1) := by
  unfold kIdx
  simp only
  rw [count_all T hr _ (cumsumFrom_pos 0 w (le_refl _) hw),
    count_all T hr _ (cumsumFrom_pos 0 w.reverse (le_refl _) (fun x hx => hw x (List.mem_reverse.mp hx))),
    cumsumFrom_length, cumsumFrom_length, List.length_reverse]
  have : 0 < w.length := List.length_pos_iff.mpr hne
  rw [if_neg (by omega)]
  simp

theorem pyPos_nat (n i : Nat) : pyPos n (i : Int) = i := by
  unfold pyPos; rw [if_neg (by omega)]; simp

theorem pyBound_nat (n i : Nat) : pyBound n (i : Int) = min i n := by
  unfold pyBound; rw [if_neg (by omega)]; simp

theorem kCrop_full (w : List K) : kCrop w 0 ((w.length : Int) - 1) = w := by
  unfold kCrop
  have e1 : pyBound w.length 0 = 0 := by simpa using pyBound_nat w.length 0
  have e2 : pyBound w.length ((w.length : Int) - 1 + 1) = w.length := by
    have : ((w.length : Int) - 1 + 1) = ((w.length : Nat) : Int) := by omega
    rw [this, pyBound_nat]; simp
  rw [e1, e2]
  apply List.ext_getElem?
  intro i
  rw [mapIdx_getElem?]
  by_cases h : i < w.length
  · rw [List.getElem?_eq_getElem h]
    simp [h]
  · rw [List.getElem?_eq_none (not_lt.mp h)]; rfl

theorem reverse_getD_zero (w : List K) : w.reverse.getD 0 0 = w.getD (w.length - 1) 0 := by
  by_cases h : w = []
  · subst h; rfl
  · have hn : 0 < w.length := List.length_pos_iff.mpr h
    rw [List.getD_eq_getElem?_getD, List.getD_eq_getElem?_getD, List.getElem?_reverse hn]
    simp

/-- with all normalised weights positive and nothing to cut, `_k` resets both boundary samples to themselves -/
theorem kReset_full (w : List K) (hw : ∀ x ∈ w, 0 < x) (hne : w ≠ []) (hsum : w.sum = 1) (clip : Bool) :
    kReset w 0 0 0 ((w.length : Int) - 1) clip = w := by
  have hn : 0 < w.length := List.length_pos_iff.mpr hne
  have hlast : ((w.length : Int) - 1) = ((w.length - 1 : Nat) : Int) := by omega
  have hpos : ∀ i, 0 ≤ w.getD i 0 := by
    intro i
    by_cases h : i < w.length
    · rw [List.getD_eq_getElem?_getD, List.getElem?_eq_getElem h]
      exact le_of_lt (hw _ (List.getElem_mem h))
    · rw [List.getD_eq_getElem?_getD, List.getElem?_eq_none (not_lt.mp h)]; simp
  unfold kReset
  simp only
  have p0 : pyPos w.length 0 = 0 := by simpa using pyPos_nat w.length 0
  have b0 : pyBound w.length 0 = 0 := by simpa using pyBound_nat w.length 0
  rw [hlast, pyPos_nat, p0, b0]
  have bn : pyBound w.length (((w.length - 1 : Nat) : Int) + 1) = w.length := by
    have : (((w.length - 1 : Nat) : Int) + 1) = ((w.length : Nat) : Int) := by omega
    rw [this, pyBound_nat]; simp
  rw [bn]
  by_cases h1 : w.length = 1
  · -- a single sample
    have hcast : (0 : Int) = ((w.length - 1 : Nat) : Int) := by omega
    rw [if_pos hcast, if_pos hcast]
    obtain ⟨a, rfl⟩ : ∃ a, w = [a] := List.length_eq_one_iff.mp h1
    have ha : a = 1 := by simpa using hsum
    subst ha
    cases clip
    · simp [pymax0_of_nonneg]
    · simp [lsum_eq]
  · have hcast : ¬ ((0 : Int) = ((w.length - 1 : Nat) : Int)) := by omega
    rw [if_neg hcast, if_neg hcast]
    cases clip
    · simp only [Bool.false_eq_true, if_false, add_zero]
      rw [if_neg (by simp)]
      have e1 : pymax0 ((cumsumFrom 0 w).getD 0 0 - 0) = w.getD 0 0 := by
        rw [cumsum_head, sub_zero, pymax0_of_nonneg _ (hpos 0)]
      have e2 : pyPos w.length (((w.length - 1 : Nat) : Int) - ((w.length - 1 : Nat) : Int)) = 0 := by
        rw [sub_self]; exact p0
      rw [e1, set_getD_self, e2, cumsum_head, reverse_getD_zero, sub_zero, pymax0_of_nonneg _ (hpos _), set_getD_self]
    · simp only [if_true, List.take_zero]
      have z : lsum ([] : List K) = 0 := by simp [lsum_eq]
      rw [z, add_zero, set_getD_self, List.drop_length, z, add_zero, set_getD_self]

theorem sum_pos_of_pos (l : List K) (h : ∀ x ∈ l, 0 < x) (hne : l ≠ []) : 0 < l.sum := by
  induction l with
  | nil => exact absurd rfl hne
  | cons x xs ih =>
    rw [List.sum_cons]
    have hx := h x (by simp)
    by_cases hxs : xs = []
    · subst hxs; simpa using hx
    · have := ih (fun y hy => h y (by simp [hy])) hxs
      linarith

/-- **`_k` with nothing to cut** (`k = 0`, strictly positive weights; `round` keeps the sign): the weights are
returned unchanged, trimming or winsorising. -/
theorem kTrim_zero (T : TConsts K) (hr : ∀ x : K, 0 < T.rnd x ↔ 0 < x) (ws : List K) (hpos : ∀ x ∈ ws, 0 < x)
    (hne : ws ≠ []) (clip : Bool) : kTrim T ws 0 0 clip false = ws := by
  have htot := sum_pos_of_pos ws hpos hne
  have hw : ∀ x ∈ ws.map (· / ws.sum), 0 < x := by
    intro x hx
    obtain ⟨y, hy, rfl⟩ := List.mem_map.mp hx
    exact div_pos (hpos y hy) htot
  have hne' : ws.map (· / ws.sum) ≠ [] := by simpa using hne
  have hsum : (ws.map (· / ws.sum)).sum = 1 := by rw [sum_map_div_right]; exact div_self (ne_of_gt htot)
  unfold kTrim
  simp only [lsum_eq, mul_zero]
  rw [kIdx_zero T hr _ hw hne']
  simp only
  rw [kReset_full _ hw hne' hsum, kCrop_full, if_neg (by simp), List.map_map]
  conv_rhs => rw [← List.map_id ws]
  apply List.map_congr_left; intro x _
  simp only [Function.comp, id]
  field_simp

/-! ### the default cut `k = 0`: trimmed mean / variance are the weighted mean / variance -/

/-- the inputs of the trimmed statistics at `k = 0`: a non-empty sample, and (if given) equally many strictly
positive weights -/
def PosValid (xs : List K) : Option (List K) → Prop
  | none => xs ≠ []
  | some w => xs.length = w.length ∧ xs ≠ [] ∧ ∀ x ∈ w, 0 < x

theorem wsum_pairs (f : K → K) (l : List (K × K)) :
    wsum ((l.map (·.1)).map f) (l.map (·.2)) = (l.map fun p => f p.1 * p.2).sum := by
  unfold wsum
  induction l with
  | nil => rfl
  | cons p l ih => simp only [List.map_cons, List.zipWith_cons_cons, List.sum_cons, ih]

theorem wsum_zip (f : K → K) (xs w : List K) :
    ((xs.zip w).map fun p => f p.1 * p.2).sum = wsum (xs.map f) w := by
  unfold wsum
  induction xs generalizing w with
  | nil => simp
  | cons x xs ih =>
    cases w with
    | nil => simp
    | cons a w => simp only [List.zip_cons_cons, List.map_cons, List.zipWith_cons_cons, List.sum_cons, ih w]

theorem pairsOf_ne_nil (xs : List K) (ws : Option (List K)) (h : PosValid xs ws) : pairsOf xs ws ≠ [] := by
  cases ws with
  | none =>
    have h' : xs ≠ [] := h
    simpa [pairsOf] using h'
  | some w =>
    obtain ⟨hl, hne, _⟩ := h
    cases xs with
    | nil => exact absurd rfl hne
    | cons x xs =>
      cases w with
      | nil => simp at hl
      | cons a w => simp [pairsOf]

theorem pairsOf_pos (xs : List K) (ws : Option (List K)) (h : PosValid xs ws) : ∀ p ∈ pairsOf xs ws, 0 < p.2 := by
  cases ws with
  | none =>
    intro p hp
    simp only [pairsOf, List.mem_map] at hp
    obtain ⟨x, _, rfl⟩ := hp
    exact one_pos
  | some w =>
    intro p hp
    exact h.2.2 p.2 (List.of_mem_zip hp).2

/-- weighted sums over the sorted pairs are weighted sums over the samples as given -/
theorem gmean_pairs (f : K → K) (xs : List K) (ws : Option (List K)) (h : PosValid xs ws) :
    ((pairsOf xs ws).map fun p => f p.1 * p.2).sum / ((pairsOf xs ws).map (·.2)).sum = gmean (xs.map f) ws := by
  cases ws with
  | none =>
    simp only [pairsOf, List.map_map, gmean, List.length_map]
    congr 1
    · congr 1; apply List.map_congr_left; intro x _; simp
    · have : ((fun x : K × K => x.2) ∘ fun x : K => (x, (1 : K))) = fun _ => (1 : K) := by funext x; rfl
      rw [this]; simp
  | some w =>
    simp only [pairsOf, gmean]
    rw [wsum_zip]
    have : (xs.zip w).map (fun x => x.2) = w := by
      have := List.map_snd_zip (l₁ := xs) (l₂ := w) (le_of_eq h.1.symm)
      simpa using this
    rw [this]

theorem trimW_k0 (T : TConsts K) (hr : ∀ x : K, 0 < T.rnd x ↔ 0 < x) (xs : List K) (ws : Option (List K))
    (h : PosValid xs ws) (clip : Bool) : trimW T xs ws 0 0 clip = (sortedOf xs ws).map (·.2) := by
  unfold trimW
  apply kTrim_zero T hr
  · intro x hx
    obtain ⟨p, hp, rfl⟩ := List.mem_map.mp hx
    exact pairsOf_pos xs ws h p ((sortPairs_perm _).subset hp)
  · intro h0
    have : sortedOf xs ws = [] := by simpa using h0
    have hp := (sortPairs_perm (pairsOf xs ws)).length_eq
    unfold sortedOf at this
    rw [this] at hp
    exact pairsOf_ne_nil xs ws h (List.length_eq_zero_iff.mp hp.symm)

theorem gmean_sorted (f : K → K) (xs : List K) (ws : Option (List K)) (h : PosValid xs ws) :
    gmean ((sortedX xs ws).map f) (some ((sortedOf xs ws).map (·.2))) = gmean (xs.map f) ws := by
  rw [← gmean_pairs f xs ws h]
  unfold sortedX
  simp only [gmean]
  rw [wsum_pairs]
  have hp := sortPairs_perm (pairsOf xs ws)
  unfold sortedOf
  rw [(hp.map _).sum_eq, (hp.map _).sum_eq]

theorem sortedW_sum_pos (xs : List K) (ws : Option (List K)) (h : PosValid xs ws) :
    0 < ((sortedOf xs ws).map (·.2)).sum := by
  apply sum_pos_of_pos
  · intro x hx
    obtain ⟨p, hp, rfl⟩ := List.mem_map.mp hx
    exact pairsOf_pos xs ws h p ((sortPairs_perm _).subset hp)
  · intro h0
    have : sortedOf xs ws = [] := by simpa using h0
    have hp := (sortPairs_perm (pairsOf xs ws)).length_eq
    unfold sortedOf at this
    rw [this] at hp
    exact pairsOf_ne_nil xs ws h (List.length_eq_zero_iff.mp hp.symm)

theorem tmean_k0_eq (T : TConsts K) (hr : ∀ x : K, 0 < T.rnd x ↔ 0 < x) (xs : List K) (ws : Option (List K))
    (h : PosValid xs ws) (clip : Bool) : tmean T xs ws 0 0 clip = gmean xs ws := by
  rw [tmean_eq, trimW_k0 T hr xs ws h clip]
  have := gmean_sorted (fun x => x) xs ws h
  simpa using this

theorem tvariance_k0_eq (C : Consts K) (T : TConsts K) (hr : ∀ x : K, 0 < T.rnd x ↔ 0 < x) (xs : List K)
    (ws : Option (List K)) (h : PosValid xs ws) (clip : Bool) : tvariance C T xs ws 0 0 clip = gmom xs ws 2 := by
  have hw := trimW_k0 T hr xs ws h clip
  rw [tvariance_eq C T xs ws 0 0 clip (by rw [hw]; exact ne_of_gt (sortedW_sum_pos xs ws h)), hw]
  unfold gmom
  have hm := gmean_sorted (fun x => x) xs ws h
  simp only [List.map_id'] at hm
  rw [hm]
  exact gmean_sorted (fun x => (x - gmean xs ws) ^ 2) xs ws h

end MysticVerif.Meas
