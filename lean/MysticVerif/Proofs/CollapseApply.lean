/-
Helper lemmas for the "applied pair collapse" part of C11 (Model/CollapseApply.lean): invariants of
`tools.connected` (groups stay pairwise disjoint as long as no pair joins two existing groups, every processed pair
lies inside one group) and of the tie phase of `impose_as` (every member of a group receives the ORIGINAL value at
the group's key when the groups are disjoint).
-/
import MysticVerif.Model.CollapseApply

namespace MysticVerif.Clps

/-- two groups share no index -/
def DisjG (a b : Grp) : Prop := ∀ m, inGrp a m = true → inGrp b m = false

/-- the groups of a dict are pairwise disjoint (as `{key} ∪ members`) -/
def Disj (coll : Groups) : Prop := coll.Pairwise DisjG

/-- every index mentioned by the dict is a position of a vector of length `n` -/
def InR (n : Nat) (coll : Groups) : Prop := ∀ g ∈ coll, ∀ m, inGrp g m = true → m < n

theorem DisjG.symm {a b : Grp} (h : DisjG a b) : DisjG b a := by
  intro m hm
  cases hb : inGrp a m with
  | false => rfl
  | true => have := h m hb; simp [hm] at this

theorem inGrp_addTo (k : Nat) (v : List Nat) (a m : Nat) :
    inGrp (k, addTo v a) m = (inGrp (k, v) m || m == a) := by
  unfold inGrp addTo
  by_cases hc : a ∈ v
  · by_cases hma : m = a
    · subst hma; simp [hc]
    · simp [hc, hma]
  · by_cases hma : m = a
    · simp [hc, hma]
    · have hb : (m == a) = false := by simpa using hma
      simp [hc, hb, hma]

theorem inGrp_iff (g : Grp) (m : Nat) : inGrp g m = true ↔ m = g.1 ∨ m ∈ g.2 := by simp [inGrp]

theorem inGrp_key (g : Grp) : inGrp g g.1 = true := by simp [inGrp]

theorem inGrp_of_mem {g : Grp} {m : Nat} (h : m ∈ g.2) : inGrp g m = true := (inGrp_iff g m).2 (.inr h)

theorem inGrp_addTo_old {g : Grp} {a m : Nat} (h : inGrp g m = true) : inGrp (g.1, addTo g.2 a) m = true := by
  rw [inGrp_addTo]; simp [show inGrp (g.1, g.2) m = true from h]

theorem inGrp_addTo_new (g : Grp) (a : Nat) : inGrp (g.1, addTo g.2 a) a = true := by
  rw [inGrp_addTo]; simp

theorem inGrp_addTo_cases {g : Grp} {a m : Nat} (h : inGrp (g.1, addTo g.2 a) m = true) :
    inGrp g m = true ∨ m = a := by
  rw [inGrp_addTo] at h
  rcases Bool.or_eq_true_iff.1 h with h | h
  · exact .inl h
  · exact .inr (by simpa using h)

/-! ### `connStep` -/

theorem connStep_cons_i {g : Grp} {rest : Groups} {i j : Nat} (h : inGrp g i = true) :
    connStep (g :: rest) i j = ((g.1, addTo g.2 j) :: rest, true) := by simp [connStep, h]

theorem connStep_cons_j {g : Grp} {rest : Groups} {i j : Nat} (h1 : inGrp g i = false) (h2 : inGrp g j = true) :
    connStep (g :: rest) i j = ((g.1, addTo g.2 i) :: rest, true) := by simp [connStep, h1, h2]

theorem connStep_cons_skip {g : Grp} {rest : Groups} {i j : Nat} (h1 : inGrp g i = false) (h2 : inGrp g j = false) :
    connStep (g :: rest) i j = (g :: (connStep rest i j).1, (connStep rest i j).2) := by simp [connStep, h1, h2]

theorem connStep_notfound : ∀ (coll : Groups) (i j : Nat), (connStep coll i j).2 = false →
    (connStep coll i j).1 = coll ∧ ∀ g ∈ coll, inGrp g i = false ∧ inGrp g j = false
  | [], _, _, _ => by simp [connStep]
  | g :: rest, i, j, h => by
    cases h1 : inGrp g i with
    | true => rw [connStep_cons_i h1] at h; cases h
    | false =>
      cases h2 : inGrp g j with
      | true => rw [connStep_cons_j h1 h2] at h; cases h
      | false =>
        rw [connStep_cons_skip h1 h2] at h ⊢
        have ih := connStep_notfound rest i j h
        refine ⟨by simp only; rw [ih.1], ?_⟩
        intro g' hg'
        rcases List.mem_cons.1 hg' with rfl | hr
        · exact ⟨h1, h2⟩
        · exact ih.2 g' hr

theorem connStep_mono : ∀ (coll : Groups) (i j : Nat), ∀ g ∈ coll,
    ∃ g' ∈ (connStep coll i j).1, ∀ m, inGrp g m = true → inGrp g' m = true
  | [], _, _, g, hg => by cases hg
  | g0 :: rest, i, j, g, hg => by
    cases h1 : inGrp g0 i with
    | true =>
      rw [connStep_cons_i h1]
      rcases List.mem_cons.1 hg with rfl | hr
      · exact ⟨_, List.mem_cons_self, fun m hm => inGrp_addTo_old hm⟩
      · exact ⟨g, List.mem_cons_of_mem _ hr, fun _ hm => hm⟩
    | false =>
      cases h2 : inGrp g0 j with
      | true =>
        rw [connStep_cons_j h1 h2]
        rcases List.mem_cons.1 hg with rfl | hr
        · exact ⟨_, List.mem_cons_self, fun m hm => inGrp_addTo_old hm⟩
        · exact ⟨g, List.mem_cons_of_mem _ hr, fun _ hm => hm⟩
      | false =>
        rw [connStep_cons_skip h1 h2]
        rcases List.mem_cons.1 hg with rfl | hr
        · exact ⟨g, List.mem_cons_self, fun _ hm => hm⟩
        · obtain ⟨g', hg', hm⟩ := connStep_mono rest i j g hr
          exact ⟨g', List.mem_cons_of_mem _ hg', hm⟩

theorem connStep_pair : ∀ (coll : Groups) (i j : Nat), (connStep coll i j).2 = true →
    ∃ g' ∈ (connStep coll i j).1, inGrp g' i = true ∧ inGrp g' j = true
  | [], _, _, h => by simp [connStep] at h
  | g0 :: rest, i, j, h => by
    cases h1 : inGrp g0 i with
    | true =>
      rw [connStep_cons_i h1]
      exact ⟨_, List.mem_cons_self, inGrp_addTo_old h1, inGrp_addTo_new g0 j⟩
    | false =>
      cases h2 : inGrp g0 j with
      | true =>
        rw [connStep_cons_j h1 h2]
        exact ⟨_, List.mem_cons_self, inGrp_addTo_new g0 i, inGrp_addTo_old h2⟩
      | false =>
        rw [connStep_cons_skip h1 h2] at h ⊢
        obtain ⟨g', hg', hm⟩ := connStep_pair rest i j h
        exact ⟨g', List.mem_cons_of_mem _ hg', hm⟩

theorem connStep_sub : ∀ (coll : Groups) (i j : Nat), ∀ g' ∈ (connStep coll i j).1, ∀ m, inGrp g' m = true →
    m = i ∨ m = j ∨ ∃ g ∈ coll, inGrp g m = true
  | [], _, _, g', hg' => by simp [connStep] at hg'
  | g0 :: rest, i, j, g', hg' => by
    intro m hm
    cases h1 : inGrp g0 i with
    | true =>
      rw [connStep_cons_i h1] at hg'
      rcases List.mem_cons.1 hg' with rfl | hr
      · rcases inGrp_addTo_cases hm with h | h
        · exact .inr (.inr ⟨g0, List.mem_cons_self, h⟩)
        · exact .inr (.inl h)
      · exact .inr (.inr ⟨g', List.mem_cons_of_mem _ hr, hm⟩)
    | false =>
      cases h2 : inGrp g0 j with
      | true =>
        rw [connStep_cons_j h1 h2] at hg'
        rcases List.mem_cons.1 hg' with rfl | hr
        · rcases inGrp_addTo_cases hm with h | h
          · exact .inr (.inr ⟨g0, List.mem_cons_self, h⟩)
          · exact .inl h
        · exact .inr (.inr ⟨g', List.mem_cons_of_mem _ hr, hm⟩)
      | false =>
        rw [connStep_cons_skip h1 h2] at hg'
        rcases List.mem_cons.1 hg' with rfl | hr
        · exact .inr (.inr ⟨g', List.mem_cons_self, hm⟩)
        · rcases connStep_sub rest i j g' hr m hm with h | h | ⟨g, hg, h⟩
          · exact .inl h
          · exact .inr (.inl h)
          · exact .inr (.inr ⟨g, List.mem_cons_of_mem _ hg, h⟩)

theorem bridges_cons_skip {g : Grp} {rest : Groups} {i j : Nat} (h1 : inGrp g i = false) (h2 : inGrp g j = false) :
    bridges (g :: rest) i j = bridges rest i j := by
  simp [bridges, h1, h2]

theorem connStep_disj : ∀ (coll : Groups) (i j : Nat), Disj coll → bridges coll i j = false →
    Disj (connStep coll i j).1
  | [], _, _, _, _ => by simp [connStep, Disj]
  | g0 :: rest, i, j, hd, hb => by
    have hd' := List.pairwise_cons.1 hd
    cases h1 : inGrp g0 i with
    | true =>
      rw [connStep_cons_i h1]
      refine List.pairwise_cons.2 ⟨?_, hd'.2⟩
      intro h hh m hm
      rcases inGrp_addTo_cases hm with hm | hmj
      · exact hd'.1 h hh m hm
      · subst hmj
        cases hhj : inGrp h m with
        | false => rfl
        | true =>
          exfalso
          cases hgj : inGrp g0 m with
          | true => have := hd'.1 h hh m hgj; simp [hhj] at this
          | false =>
            have : bridges (g0 :: rest) i m = true := by
              simp only [bridges, List.any_cons, h1, hgj, Bool.not_false, Bool.and_self, Bool.true_or, Bool.true_and,
                Bool.false_or]
              exact List.any_eq_true.2 ⟨h, hh, hhj⟩
            simp [this] at hb
    | false =>
      cases h2 : inGrp g0 j with
      | true =>
        rw [connStep_cons_j h1 h2]
        refine List.pairwise_cons.2 ⟨?_, hd'.2⟩
        intro h hh m hm
        rcases inGrp_addTo_cases hm with hm | hmi
        · exact hd'.1 h hh m hm
        · subst hmi
          cases hhi : inGrp h m with
          | false => rfl
          | true =>
            exfalso
            have hhj : inGrp h j = false := hd'.1 h hh j h2
            have : bridges (g0 :: rest) m j = true := by
              simp only [bridges, List.any_cons, h1, h2, Bool.false_and, Bool.false_or, Bool.true_or, Bool.and_true]
              exact List.any_eq_true.2 ⟨h, hh, by simp [hhi, hhj]⟩
            simp [this] at hb
      | false =>
        rw [connStep_cons_skip h1 h2]
        rw [bridges_cons_skip h1 h2] at hb
        refine List.pairwise_cons.2 ⟨?_, connStep_disj rest i j hd'.2 hb⟩
        intro h' hh' m hm
        cases hh'm : inGrp h' m with
        | false => rfl
        | true =>
          exfalso
          rcases connStep_sub rest i j h' hh' m hh'm with h | h | ⟨g, hg, h⟩
          · subst h; simp [h1] at hm
          · subst h; simp [h2] at hm
          · have := hd'.1 g hg m hm; simp [h] at this

/-! ### `connAdd` and the fold -/

theorem connAdd_found {coll : Groups} {p : Nat × Nat} (h : (connStep coll p.1 p.2).2 = true) :
    connAdd coll p = (connStep coll p.1 p.2).1 := by simp [connAdd, h]

theorem connAdd_notfound {coll : Groups} {p : Nat × Nat} (h : ¬ (connStep coll p.1 p.2).2 = true) :
    connAdd coll p = coll ++ [(p.1, [p.2])] := by simp [connAdd, h]

theorem connAdd_disj (coll : Groups) (p : Nat × Nat) (hd : Disj coll) (hb : bridges coll p.1 p.2 = false) :
    Disj (connAdd coll p) := by
  by_cases hf : (connStep coll p.1 p.2).2 = true
  · rw [connAdd_found hf]; exact connStep_disj coll p.1 p.2 hd hb
  · rw [connAdd_notfound hf]
    have hn := (connStep_notfound coll p.1 p.2 (by simpa using hf)).2
    refine List.pairwise_append.2 ⟨hd, List.pairwise_singleton _ _, ?_⟩
    intro g hg g' hg' m hm
    have : g' = (p.1, [p.2]) := by simpa using hg'
    subst this
    cases hx : inGrp (p.1, [p.2]) m with
    | false => rfl
    | true =>
      exfalso
      have : m = p.1 ∨ m = p.2 := by simpa [inGrp] using hx
      rcases this with h | h
      · subst h; simp [(hn g hg).1] at hm
      · subst h; simp [(hn g hg).2] at hm

theorem connAdd_mono (coll : Groups) (p : Nat × Nat) : ∀ g ∈ coll,
    ∃ g' ∈ connAdd coll p, ∀ m, inGrp g m = true → inGrp g' m = true := by
  intro g hg
  by_cases hf : (connStep coll p.1 p.2).2 = true
  · rw [connAdd_found hf]; exact connStep_mono coll p.1 p.2 g hg
  · rw [connAdd_notfound hf]; exact ⟨g, List.mem_append_left _ hg, fun _ h => h⟩

theorem connAdd_pair (coll : Groups) (p : Nat × Nat) :
    ∃ g' ∈ connAdd coll p, inGrp g' p.1 = true ∧ inGrp g' p.2 = true := by
  by_cases hf : (connStep coll p.1 p.2).2 = true
  · rw [connAdd_found hf]; exact connStep_pair coll p.1 p.2 hf
  · rw [connAdd_notfound hf]
    exact ⟨(p.1, [p.2]), List.mem_append_right _ (by simp), by simp [inGrp], by simp [inGrp]⟩

theorem connAdd_inR (n : Nat) (coll : Groups) (p : Nat × Nat) (hr : InR n coll) (h1 : p.1 < n) (h2 : p.2 < n) :
    InR n (connAdd coll p) := by
  by_cases hf : (connStep coll p.1 p.2).2 = true
  · rw [connAdd_found hf]
    intro g' hg' m hm
    rcases connStep_sub coll p.1 p.2 g' hg' m hm with h | h | ⟨g, hg, h⟩
    · omega
    · omega
    · exact hr g hg m h
  · rw [connAdd_notfound hf]
    intro g' hg' m hm
    rcases List.mem_append.1 hg' with h | h
    · exact hr g' h m hm
    · have : g' = (p.1, [p.2]) := by simpa using h
      subst this
      have : m = p.1 ∨ m = p.2 := by simpa [inGrp] using hm
      omega

/-- the invariants of `connected` along the iteration -/
theorem foldl_connAdd_inv (n : Nat) : ∀ (pairs : List (Nat × Nat)) (coll : Groups), Disj coll → InR n coll →
    noBridgeFrom coll pairs = true → (∀ p ∈ pairs, p.1 < n ∧ p.2 < n) →
    Disj (pairs.foldl connAdd coll) ∧ InR n (pairs.foldl connAdd coll)
      ∧ (∀ g ∈ coll, ∃ g' ∈ pairs.foldl connAdd coll, ∀ m, inGrp g m = true → inGrp g' m = true)
      ∧ (∀ p ∈ pairs, ∃ g' ∈ pairs.foldl connAdd coll, inGrp g' p.1 = true ∧ inGrp g' p.2 = true)
  | [], coll, hd, hr, _, _ => ⟨hd, hr, fun g hg => ⟨g, hg, fun _ h => h⟩, fun p hp => by cases hp⟩
  | p :: ps, coll, hd, hr, hb, hn => by
    simp only [noBridgeFrom, Bool.and_eq_true, Bool.not_eq_true'] at hb
    have hp := hn p List.mem_cons_self
    have ih := foldl_connAdd_inv n ps (connAdd coll p) (connAdd_disj coll p hd hb.1)
      (connAdd_inR n coll p hr hp.1 hp.2) hb.2 (fun q hq => hn q (List.mem_cons_of_mem _ hq))
    simp only [List.foldl_cons]
    refine ⟨ih.1, ih.2.1, ?_, ?_⟩
    · intro g hg
      obtain ⟨g1, hg1, h1⟩ := connAdd_mono coll p g hg
      obtain ⟨g2, hg2, h2⟩ := ih.2.2.1 g1 hg1
      exact ⟨g2, hg2, fun m hm => h2 m (h1 m hm)⟩
    · intro q hq
      rcases List.mem_cons.1 hq with rfl | hq
      · obtain ⟨g1, hg1, h1⟩ := connAdd_pair coll q
        obtain ⟨g2, hg2, h2⟩ := ih.2.2.1 g1 hg1
        exact ⟨g2, hg2, h2 _ h1.1, h2 _ h1.2⟩
      · exact ih.2.2.2 q hq

/-- for EVERY iteration order: each processed pair lies inside one group (groups only grow) -/
theorem foldl_connAdd_pair : ∀ (pairs : List (Nat × Nat)) (coll : Groups),
    (∀ g ∈ coll, ∃ g' ∈ pairs.foldl connAdd coll, ∀ m, inGrp g m = true → inGrp g' m = true)
      ∧ (∀ p ∈ pairs, ∃ g' ∈ pairs.foldl connAdd coll, inGrp g' p.1 = true ∧ inGrp g' p.2 = true)
  | [], coll => ⟨fun g hg => ⟨g, hg, fun _ h => h⟩, fun p hp => by cases hp⟩
  | p :: ps, coll => by
    have ih := foldl_connAdd_pair ps (connAdd coll p)
    simp only [List.foldl_cons]
    refine ⟨?_, ?_⟩
    · intro g hg
      obtain ⟨g1, hg1, h1⟩ := connAdd_mono coll p g hg
      obtain ⟨g2, hg2, h2⟩ := ih.1 g1 hg1
      exact ⟨g2, hg2, fun m hm => h2 m (h1 m hm)⟩
    · intro q hq
      rcases List.mem_cons.1 hq with rfl | hq
      · obtain ⟨g1, hg1, h1⟩ := connAdd_pair coll q
        obtain ⟨g2, hg2, h2⟩ := ih.1 g1 hg1
        exact ⟨g2, hg2, h2 _ h1.1, h2 _ h1.2⟩
      · exact ih.2 q hq

/-- for EVERY iteration order: the groups mention nothing but members of the pairs (and of the initial dict) -/
theorem foldl_connAdd_sub : ∀ (pairs : List (Nat × Nat)) (coll : Groups), ∀ g' ∈ pairs.foldl connAdd coll,
    ∀ m, inGrp g' m = true → (∃ g ∈ coll, inGrp g m = true) ∨ ∃ p ∈ pairs, m = p.1 ∨ m = p.2
  | [], coll, g', hg', m, hm => .inl ⟨g', hg', hm⟩
  | p :: ps, coll, g', hg', m, hm => by
    simp only [List.foldl_cons] at hg'
    rcases foldl_connAdd_sub ps (connAdd coll p) g' hg' m hm with ⟨g1, hg1, h1⟩ | ⟨q, hq, h⟩
    · by_cases hf : (connStep coll p.1 p.2).2 = true
      · rw [connAdd_found hf] at hg1
        rcases connStep_sub coll p.1 p.2 g1 hg1 m h1 with h | h | ⟨g, hg, h⟩
        · exact .inr ⟨p, List.mem_cons_self, .inl h⟩
        · exact .inr ⟨p, List.mem_cons_self, .inr h⟩
        · exact .inl ⟨g, hg, h⟩
      · rw [connAdd_notfound hf] at hg1
        rcases List.mem_append.1 hg1 with h | h
        · exact .inl ⟨g1, h, h1⟩
        · have : g1 = (p.1, [p.2]) := by simpa using h
          subst this
          have : m = p.1 ∨ m = p.2 := by simpa [inGrp] using h1
          exact .inr ⟨p, List.mem_cons_self, this⟩
    · exact .inr ⟨q, List.mem_cons_of_mem _ hq, h⟩

/-! ### the tie phase -/

variable {R : Type}

theorem tieFold_length (k : Nat) : ∀ (v : List Nat) (x : List R),
    (v.foldl (fun xq m => match xq[k]? with
      | some a => xq.set m a
      | none => xq) x).length = x.length
  | [], x => rfl
  | m :: v, x => by
    simp only [List.foldl_cons]
    rw [tieFold_length k v]
    cases x[k]? <;> simp

theorem tieGrp_length (g : Grp) (x : List R) : (tieGrp g x).length = x.length := tieFold_length g.1 g.2 x

theorem tieAll_length : ∀ (coll : Groups) (x : List R), (tieAll coll x).length = x.length
  | [], x => rfl
  | g :: rest, x => by
    simp only [tieAll, List.foldl_cons]
    have := tieAll_length rest (tieGrp g x)
    simp only [tieAll] at this
    rw [this, tieGrp_length]

theorem tieFold_get (k : Nat) : ∀ (v : List Nat) (x : List R), k < x.length → ∀ p, p < x.length →
    (v.foldl (fun xq m => match xq[k]? with
      | some a => xq.set m a
      | none => xq) x)[p]? = if p ∈ v then x[k]? else x[p]?
  | [], x, _, p, _ => by simp
  | m :: v, x, hk, p, hp => by
    simp only [List.foldl_cons]
    have hxk : x[k]? = some x[k] := List.getElem?_eq_getElem hk
    rw [hxk]
    simp only
    have hl : (x.set m x[k]).length = x.length := by simp
    rw [tieFold_get k v (x.set m x[k]) (by omega) p (by omega)]
    have hkk : (x.set m x[k])[k]? = some x[k] := by
      rw [List.getElem?_set]
      by_cases hmk : m = k
      · subst hmk; simp [hk]
      · simp [hmk]
    rw [hkk]
    by_cases hc : p ∈ v
    · rw [if_pos hc, if_pos (List.mem_cons_of_mem _ hc)]
    · rw [if_neg hc, List.getElem?_set]
      by_cases hmp : m = p
      · subst hmp
        rw [if_pos rfl, if_pos hp, if_pos List.mem_cons_self]
      · rw [if_neg hmp, if_neg (by simp only [List.mem_cons, not_or]; exact ⟨fun h => hmp h.symm, hc⟩)]

theorem tieGrp_get (g : Grp) (x : List R) (hk : g.1 < x.length) (p : Nat) (hp : p < x.length) :
    (tieGrp g x)[p]? = if p ∈ g.2 then x[g.1]? else x[p]? := tieFold_get g.1 g.2 x hk p hp

/-- positions that are a member of no group keep their value -/
theorem tieAll_frame : ∀ (coll : Groups) (x : List R), InR x.length coll → ∀ p, p < x.length →
    (∀ g ∈ coll, p ∉ g.2) → (tieAll coll x)[p]? = x[p]?
  | [], x, _, p, _, _ => rfl
  | g :: rest, x, hr, p, hp, hn => by
    simp only [tieAll, List.foldl_cons]
    have hk : g.1 < x.length := hr g List.mem_cons_self g.1 (inGrp_key g)
    have hl := tieGrp_length g x
    have ih := tieAll_frame rest (tieGrp g x)
      (by rw [hl]; exact fun h hh => hr h (List.mem_cons_of_mem _ hh)) p (by omega)
      (fun h hh => hn h (List.mem_cons_of_mem _ hh))
    simp only [tieAll] at ih
    rw [ih, tieGrp_get g x hk p hp, if_neg (hn g List.mem_cons_self)]

/-- disjoint groups, all indices in range: every member of a group ends with the ORIGINAL value at the group's key -/
theorem tieAll_group : ∀ (coll : Groups) (x : List R), Disj coll → InR x.length coll →
    ∀ g ∈ coll, ∀ m, inGrp g m = true → (tieAll coll x)[m]? = x[g.1]?
  | [], _, _, _, g, hg, _, _ => by cases hg
  | g0 :: rest, x, hd, hr, g, hg, m, hm => by
    have hd' := List.pairwise_cons.1 hd
    have hk0 : g0.1 < x.length := hr g0 List.mem_cons_self g0.1 (inGrp_key g0)
    have hl := tieGrp_length g0 x
    have hr' : InR (tieGrp g0 x).length rest := by
      rw [hl]; exact fun h hh => hr h (List.mem_cons_of_mem _ hh)
    have hmr : m < x.length := hr g hg m hm
    simp only [tieAll, List.foldl_cons]
    rcases List.mem_cons.1 hg with rfl | hgr
    · -- the first group: later groups do not touch its members
      have hfr := tieAll_frame rest (tieGrp g x) hr' m (by omega) (fun h hh hc => by
        have := hd'.1 h hh m hm
        simp [inGrp_of_mem hc] at this)
      simp only [tieAll] at hfr
      rw [hfr, tieGrp_get g x hk0 m hmr]
      by_cases hc : m ∈ g.2
      · rw [if_pos hc]
      · rw [if_neg hc]
        have : m = g.1 := ((inGrp_iff g m).1 hm).resolve_right hc
        rw [this]
    · -- a later group: the first group does not touch its key
      have ih := tieAll_group rest (tieGrp g0 x) hd'.2 hr' g hgr m hm
      simp only [tieAll] at ih
      rw [ih, tieGrp_get g0 x hk0 g.1 (hr g hg g.1 (inGrp_key g))]
      have : g.1 ∉ g0.2 := fun hc => by
        have := (hd'.1 g hgr).symm g.1 (inGrp_key g)
        simp [inGrp_of_mem hc] at this
      rw [if_neg this]

/-! ### orders that never bridge: one component grown pair by pair -/

theorem bridges_single (g : Grp) (i j : Nat) : bridges [g] i j = false := by
  simp only [bridges, List.any_cons, List.any_nil, Bool.or_false]
  cases inGrp g i <;> cases inGrp g j <;> rfl

theorem connAdd_single (g : Grp) (p : Nat × Nat) (h : inGrp g p.1 = true ∨ inGrp g p.2 = true) :
    ∃ g', connAdd [g] p = [g'] ∧ inGrp g' p.1 = true ∧ inGrp g' p.2 = true
      ∧ ∀ m, inGrp g m = true → inGrp g' m = true := by
  unfold connAdd connStep
  by_cases h1 : inGrp g p.1 = true
  · simp only [h1, if_true]
    refine ⟨_, rfl, ?_, ?_, ?_⟩
    · rw [inGrp_addTo]; simp [show inGrp (g.1, g.2) p.1 = true from h1]
    · rw [inGrp_addTo]; simp
    · intro m hm; rw [inGrp_addTo]; simp [show inGrp (g.1, g.2) m = true from hm]
  · have h2 : inGrp g p.2 = true := h.resolve_left h1
    simp only [h1, h2, if_true]
    refine ⟨_, rfl, ?_, ?_, ?_⟩
    · rw [inGrp_addTo]; simp
    · rw [inGrp_addTo]; simp [show inGrp (g.1, g.2) p.2 = true from h2]
    · intro m hm; rw [inGrp_addTo]; simp [show inGrp (g.1, g.2) m = true from hm]

theorem grown_noBridgeFrom : ∀ (ps : List (Nat × Nat)) (g : Grp) (seen : List Nat),
    (∀ a ∈ seen, inGrp g a = true) → grown seen ps = true → noBridgeFrom [g] ps = true
  | [], _, _, _, _ => rfl
  | p :: ps, g, seen, hs, hg => by
    simp only [grown, Bool.and_eq_true, Bool.or_eq_true, List.contains_eq_mem, decide_eq_true_eq] at hg
    have ht : inGrp g p.1 = true ∨ inGrp g p.2 = true := hg.1.imp (hs _) (hs _)
    obtain ⟨g', he, h1, h2, hmono⟩ := connAdd_single g p ht
    simp only [noBridgeFrom, bridges_single, Bool.not_false, Bool.true_and, he]
    refine grown_noBridgeFrom ps g' (p.1 :: p.2 :: seen) ?_ hg.2
    intro a ha
    rcases List.mem_cons.1 ha with rfl | ha
    · exact h1
    · rcases List.mem_cons.1 ha with rfl | ha
      · exact h2
      · exact hmono a (hs a ha)

theorem grown_of_star (c : Nat) : ∀ (ps : List (Nat × Nat)) (seen : List Nat), c ∈ seen →
    (∀ p ∈ ps, p.1 = c ∨ p.2 = c) → grown seen ps = true
  | [], _, _, _ => rfl
  | p :: ps, seen, hc, hs => by
    simp only [grown, Bool.and_eq_true, Bool.or_eq_true, List.contains_eq_mem, decide_eq_true_eq]
    refine ⟨?_, grown_of_star c ps _ (List.mem_cons_of_mem _ (List.mem_cons_of_mem _ hc))
      (fun q hq => hs q (List.mem_cons_of_mem _ hq))⟩
    rcases hs p List.mem_cons_self with h | h
    · exact .inl (h ▸ hc)
    · exact .inr (h ▸ hc)

end MysticVerif.Clps
