/- Helper lemmas for the argument shapes of generate_penalty (model: Model/EmittedPShape.lean). -/
import MysticVerif.Model.EmittedPShape
import MysticVerif.Proofs.EmittedShape

set_option linter.unusedSectionVars false
set_option linter.unusedVariables false

namespace MysticVerif.Emitted

variable {α : Type}

/-! ## `Nest`: the flattening is the concatenation of the flattenings of the top-level items -/

namespace Nest

theorem flat_eq_flatL_top (t : Nest α) : flat t = flatL t.top := by
  cases t with
  | leaf a => simp only [top]; rw [flat_leaf, flatL_cons, flat_leaf, flatL_nil]; rfl
  | node ts => simp only [top]; rw [flat_node]

theorem flatL_eq_flatten (ts : List (Nest α)) : flatL ts = (ts.map fun t => flatL t.top).flatten := by
  induction ts with
  | nil => rw [flatL_nil]; rfl
  | cons t ts ih => rw [flatL_cons, List.map_cons, List.flatten_cons, ← ih, flat_eq_flatL_top]

theorem mem_flatL_iff (ts : List (Nest α)) (a : α) : a ∈ flatL ts ↔ ∃ t ∈ ts, a ∈ flatL t.top := by
  rw [flatL_eq_flatten, List.mem_flatten]
  constructor
  · rintro ⟨l, hl, ha⟩
    obtain ⟨t, ht, rfl⟩ := List.mem_map.mp hl
    exact ⟨t, ht, ha⟩
  · rintro ⟨t, ht, ha⟩
    exact ⟨_, List.mem_map.mpr ⟨t, ht, rfl⟩, ha⟩

end Nest

/-! ## the type list and the `zip` -/

/-- `ptype` has a type for each of `n` conditions: always for `None` / one type (they are sized by the flattened
length), for a list when its flattening is long enough -/
def PArg.covers (pt : PArg) (n : Nat) : Prop :=
  match pt with
  | .many ts => n ≤ (Nest.flatL ts).length
  | _ => True

instance (pt : PArg) (n : Nat) : Decidable (pt.covers n) := by
  cases pt <;> simp only [PArg.covers] <;> infer_instance

theorem ptypeList_length_of_covers (pt : PArg) (cs : List (Kind × α)) (h : pt.covers cs.length) :
    cs.length ≤ (ptypeList pt cs).length := by
  cases pt with
  | none => simp [ptypeList]
  | one p => simp [ptypeList]
  | many ts => simpa [ptypeList, PArg.covers] using h

/-- every condition of the flattening takes part when `ptype` covers it -/
theorem gpItems_snd (conds : Nest (Kind × α)) (pt : PArg) (h : pt.covers (Nest.flatL conds.top).length) :
    (gpItems conds pt).map (·.2) = Nest.flatL conds.top := by
  unfold gpItems
  exact map_snd_zip_of_le _ _ (ptypeList_length_of_covers pt _ h)

/-- nothing but conditions of the flattening takes part, whatever `ptype` is -/
theorem gpItems_snd_mem (conds : Nest (Kind × α)) (pt : PArg) (w : PType × (Kind × α)) (h : w ∈ gpItems conds pt) :
    w.2 ∈ Nest.flatL conds.top := snd_mem_of_mem_zip _ _ w h

theorem zip_map_self {β : Type} (f : α → β) : ∀ l : List α, (l.map f).zip l = l.map fun a => (f a, a)
  | [] => rfl
  | a :: l => by simp [zip_map_self f l]

/-- `ptype=None`: every condition is paired with the quadratic type of its own kind -/
theorem gpItems_none (conds : Nest (Kind × α)) :
    gpItems conds .none = (Nest.flatL conds.top).map fun c => (c.1.default, c) := by
  unfold gpItems ptypeList
  exact zip_map_self _ _

theorem default_kind (k : Kind) : k.default.kind = k := by cases k <;> rfl

theorem gpItems_none_conform (conds : Nest (Kind × α)) : ∀ w ∈ gpItems conds .none, w.1.kind = w.2.1 := by
  intro w hw
  rw [gpItems_none] at hw
  obtain ⟨c, _, rfl⟩ := List.mem_map.mp hw
  exact default_kind c.1

theorem mem_stackOf {ws : List (PType × (Kind × α))} {te : PType × α} :
    te ∈ stackOf ws ↔ ∃ w ∈ ws, (w.1, w.2.2) = te := by
  unfold stackOf; exact List.mem_map

/-- the nesting plays no role: the pairs are those of the flat list of the same conditions -/
theorem gpItems_flat (conds : Nest (Kind × α)) (pt : PArg) :
    gpItems conds pt = gpItems (.node ((Nest.flatL conds.top).map .leaf)) pt := by
  unfold gpItems
  simp only [Nest.top, Nest.flatL_leaves]

/-! ## members of a joined penalty -/

theorem gpMembers_none (conds : Nest (Kind × α)) :
    gpMembers conds .none = some (conds.top.map fun c => gpItems c .none) := rfl

theorem gpMembers_one (conds : Nest (Kind × α)) (p : PType) :
    gpMembers conds (.one p) = some (conds.top.map fun c => gpItems c (.one p)) := rfl

/-- the members with `ptype=None`: one per top-level item, holding exactly that item's conditions -/
theorem gpMembers_none_snd (conds : Nest (Kind × α)) :
    (conds.top.map fun c => gpItems c .none).map (fun g => g.map (·.2)) = conds.top.map fun c => Nest.flatL c.top := by
  rw [List.map_map]
  apply List.map_congr_left
  intro c _
  exact gpItems_snd c .none trivial

theorem zipMembersP_length : ∀ (cs : List (Nest (Kind × α))) (ts : List (Nest PType)) ms,
    zipMembersP cs ts = some ms → ms.length = cs.length
  | [], _, ms, h => by simp only [zipMembersP, Option.some.injEq] at h; rw [← h]; rfl
  | _ :: _, [], ms, h => by simp [zipMembersP] at h
  | c :: cs, t :: ts, ms, h => by
    simp only [zipMembersP, Option.map_eq_some_iff] at h
    obtain ⟨r, hr, rfl⟩ := h
    simp [zipMembersP_length cs ts r hr]

/-- fewer entries than members: `next(p)` raises inside the generator (python's RuntimeError) -/
theorem zipMembersP_short : ∀ (cs : List (Nest (Kind × α))) (ts : List (Nest PType)),
    ts.length < cs.length → zipMembersP cs ts = none
  | [], _, h => by simp at h
  | _ :: _, [], _ => rfl
  | c :: cs, t :: ts, h => by
    simp only [zipMembersP, Option.map_eq_none_iff]
    exact zipMembersP_short cs ts (by simpa using h)

end MysticVerif.Emitted
