/- lemmas about the object-graph model Model/DiscreteHeap: allocation only extends the heap, so what python shows
   for every EXISTING measure object is unchanged, and the fresh measures show exactly the values they were built from -/
import MysticVerif.Model.DiscreteHeap

namespace MysticVerif.DiscreteHeap
open MysticVerif.Discrete

variable {α : Type}

/-- `h'` extends `h`: the old cells / measure objects are a prefix, the collections are the same -/
def Ext (h h' : Heap α) : Prop :=
  (∃ cs, h'.cells = h.cells ++ cs) ∧ (∃ ms, h'.meas = h.meas ++ ms) ∧ h'.colls = h.colls ∧ h'.vals = h.vals ∧
    h'.scen = h.scen

theorem Ext.refl (h : Heap α) : Ext h h := ⟨⟨[], by simp⟩, ⟨[], by simp⟩, rfl, rfl, rfl⟩

theorem Ext.trans {a b c : Heap α} (h1 : Ext a b) (h2 : Ext b c) : Ext a c := by
  obtain ⟨⟨c1, e1⟩, ⟨m1, e2⟩, e3, e4, e5⟩ := h1
  obtain ⟨⟨c2, f1⟩, ⟨m2, f2⟩, f3, f4, f5⟩ := h2
  refine ⟨⟨c1 ++ c2, by rw [f1, e1, List.append_assoc]⟩, ⟨m1 ++ m2, by rw [f2, e2, List.append_assoc]⟩, ?_, ?_, ?_⟩
  · rw [f3, e3]
  · rw [f4, e4]
  · rw [f5, e5]

theorem filterMap_congr' {β γ : Type} {f g : β → Option γ} :
    ∀ {l : List β}, (∀ x ∈ l, f x = g x) → l.filterMap f = l.filterMap g := by
  intro l
  induction l with
  | nil => intro _; rfl
  | cons a t ih =>
    intro hx
    rw [List.filterMap_cons, List.filterMap_cons, hx a (by simp), ih (fun x hx' => hx x (by simp [hx']))]

theorem obsM_ext {h h' : Heap α} (hw : WF h) (he : Ext h h') {mid : Nat} (hm : mid < h.meas.length) :
    obsM h' mid = obsM h mid := by
  obtain ⟨⟨cs, e1⟩, ⟨ms, e2⟩, _, _, _⟩ := he
  unfold obsM
  have hg : h'.meas.getD mid [] = h.meas.getD mid [] := by
    rw [e2]; simp [List.getD, List.getElem?_append_left hm]
  rw [hg]
  apply filterMap_congr'
  intro i hi
  have hmem : h.meas.getD mid [] ∈ h.meas := by
    simp [List.getD, List.getElem?_eq_getElem hm]
  have := hw.1 _ hmem i hi
  rw [e1, List.getElem?_append_left this]

theorem filterMap_range_getElem? {β : Type} (m : List β) :
    (List.range m.length).filterMap (fun i => m[i]?) = m := by
  induction m with
  | nil => simp
  | cons a t ih =>
    rw [List.length_cons, List.range_succ_eq_map, List.filterMap_cons]
    simp only [List.getElem?_cons_zero, List.filterMap_map]
    congr 1

theorem allocM_ext (h : Heap α) (m : Measure α) : Ext h (allocM h m) :=
  ⟨⟨m, rfl⟩, ⟨_, rfl⟩, rfl, rfl, rfl⟩

theorem allocM_wf {h : Heap α} (hw : WF h) (m : Measure α) : WF (allocM h m) := by
  constructor
  · intro ids hids i hi
    simp only [allocM, List.mem_append, List.mem_singleton] at hids
    simp only [allocM, List.length_append]
    rcases hids with hids | hids
    · have := hw.1 ids hids i hi; omega
    · subst hids
      simp only [List.mem_map, List.mem_range] at hi
      obtain ⟨j, hj, rfl⟩ := hi
      omega
  · intro f hf mm hmm
    have := hw.2 f hf mm hmm
    simp only [allocM, List.length_append, List.length_singleton]
    omega

theorem obsM_allocM_new (h : Heap α) (m : Measure α) : obsM (allocM h m) h.meas.length = m := by
  unfold obsM allocM
  simp only [List.getD, List.getElem?_append_right (Nat.le_refl _), Nat.sub_self, List.getElem?_cons_zero,
    Option.getD_some, List.filterMap_map]
  have : ((fun x : Nat => (h.cells ++ m)[x]?) ∘ fun x => x + h.cells.length) = fun i => m[i]? := by
    funext i
    simp [Function.comp, List.getElem?_append_right (Nat.le_add_left _ _)]
  rw [this]
  exact filterMap_range_getElem? m

theorem allocPM_spec (c : PM α) : ∀ {h : Heap α}, WF h →
    Ext h (allocPM h c).1 ∧ WF (allocPM h c).1 ∧ (allocPM h c).2.map (obsM (allocPM h c).1) = c ∧
      (allocPM h c).2.length = c.length := by
  induction c with
  | nil => intro h hw; exact ⟨Ext.refl h, hw, rfl, rfl⟩
  | cons m c ih =>
    intro h hw
    have hw1 := allocM_wf hw m
    obtain ⟨e2, w2, o2, l2⟩ := ih hw1
    refine ⟨(allocM_ext h m).trans e2, w2, ?_, ?_⟩
    · simp only [allocPM, List.map_cons]
      rw [o2]
      congr 1
      rw [obsM_ext hw1 e2 (by simp [allocM]), obsM_allocM_new]
    · simp [allocPM, l2]

theorem obsM_setColl (h : Heap α) (cid : Nat) (f : List Nat) (mid : Nat) : obsM (setColl h cid f) mid = obsM h mid := rfl

theorem factors_lt {h : Heap α} (hw : WF h) (cid : Nat) : ∀ m ∈ factors h cid, m < h.meas.length := by
  intro m hm
  unfold factors at hm
  by_cases hc : cid < h.colls.length
  · have hmem : h.colls.getD cid [] ∈ h.colls := by simp [List.getD, List.getElem?_eq_getElem hc]
    exact hw.2 _ hmem m hm
  · simp [List.getD, List.getElem?_eq_none (Nat.le_of_not_lt hc)] at hm

/-- what the factors that stay show after an allocation -/
theorem map_obsM_ext {h h' : Heap α} (hw : WF h) (he : Ext h h') (cid : Nat) :
    (factors h cid).map (obsM h') = obsC h cid := by
  unfold obsC
  apply List.map_congr_left
  intro m hm
  exact obsM_ext hw he (factors_lt hw cid m hm)

theorem obsC_setColl_same {h : Heap α} {cid : Nat} (hc : cid < h.colls.length) (f : List Nat) :
    obsC (setColl h cid f) cid = f.map (obsM h) := by
  unfold obsC factors setColl
  simp [List.getD, hc, obsM]

theorem obsC_setColl_other {h : Heap α} {cid cid' : Nat} (hne : cid' ≠ cid) (f : List Nat) :
    obsC (setColl h cid f) cid' = obsC h cid' := by
  unfold obsC factors setColl
  simp [List.getD, List.getElem?_set_ne (Ne.symm hne), obsM]

theorem obsC_ext {h h' : Heap α} (hw : WF h) (he : Ext h h') (cid : Nat) : obsC h' cid = obsC h cid := by
  have hf : factors h' cid = factors h cid := by unfold factors; rw [he.2.2.1]
  unfold obsC
  rw [hf]
  exact map_obsM_ext hw he cid

end MysticVerif.DiscreteHeap
