/- helper lemmas for Props/C19: `constraints.impose_measure` (load -> impose_collapse / impose_unweighted per
   factor -> flatten) over a linearly ordered field -/
import MysticVerif.Proofs.DiscreteNum
import Mathlib.Algebra.Order.BigOperators.Group.List

set_option linter.unusedSectionVars false
set_option linter.unusedSimpArgs false
set_option linter.unusedVariables false

namespace MysticVerif.Discrete

variable {K : Type} [Field K] [LinearOrder K] [IsStrictOrderedRing K]

/-! ### `rebuild` -/

theorem length_rebuild (xs ws : List K) (h : xs.length = ws.length) : (rebuild (xs, ws)).length = xs.length := by
  simp [rebuild, h]

theorem mweights_rebuild (xs ws : List K) (h : xs.length = ws.length) : mweights (rebuild (xs, ws)) = ws := by
  unfold rebuild mweights
  induction xs generalizing ws with
  | nil => cases ws with
    | nil => rfl
    | cons _ _ => simp at h
  | cons x xs ih =>
    cases ws with
    | nil => simp at h
    | cons w ws =>
      simp only [List.length_cons, Nat.add_right_cancel_iff] at h
      simp only [List.zipWith_cons_cons, List.map_cons, List.cons.injEq, true_and]
      exact ih ws h

theorem mpositions_rebuild (xs ws : List K) (h : xs.length = ws.length) : mpositions (rebuild (xs, ws)) = xs := by
  unfold rebuild mpositions
  induction xs generalizing ws with
  | nil => cases ws with
    | nil => rfl
    | cons _ _ => simp at h
  | cons x xs ih =>
    cases ws with
    | nil => simp at h
    | cons w ws =>
      simp only [List.length_cons, Nat.add_right_cancel_iff] at h
      simp only [List.zipWith_cons_cons, List.map_cons, List.cons.injEq, true_and]
      exact ih ws h

/-! ### `List.set` and sums -/

theorem sum_set (l : List K) (k : Nat) (a : K) (hk : k < l.length) :
    (l.set k a).sum = l.sum - l[k] + a := by
  induction l generalizing k with
  | nil => simp at hk
  | cons x l ih =>
    cases k with
    | zero => simp; ring
    | succ k =>
      simp only [List.length_cons, Nat.add_lt_add_iff_right] at hk
      simp only [List.set_cons_succ, List.sum_cons, List.getElem_cons_succ, ih k hk]
      ring

theorem nonneg_set (l : List K) (k : Nat) (a : K) (hl : ∀ w ∈ l, 0 ≤ w) (ha : 0 ≤ a) : ∀ w ∈ l.set k a, 0 ≤ w := by
  intro w hw
  rcases List.mem_or_eq_of_mem_set hw with h | h
  · exact hl w h
  · rw [h]; exact ha

/-! ### the inner loop of `impose_collapse` -/

theorem collapseStep_in (xi : K) (v : K) (X W : List K) (k : Nat) (hk : k < W.length) :
    collapseStep xi (v, X, W) k = (v + W[k], X.set k xi, W.set k 0) := by
  simp [collapseStep, List.getElem?_eq_getElem hk]

theorem collapseStep_out (xi : K) (v : K) (X W : List K) (k : Nat) (hk : W.length ≤ k) :
    collapseStep xi (v, X, W) k = (v, X, W) := by
  simp [collapseStep, List.getElem?_eq_none hk]

/-- lengths, the conserved quantity `v + Σ w`, and non-negativity along the loop -/
theorem collapseFold_basic (xi : K) (js : List Nat) (v : K) (X W : List K) :
    (js.foldl (collapseStep xi) (v, X, W)).2.1.length = X.length ∧
    (js.foldl (collapseStep xi) (v, X, W)).2.2.length = W.length ∧
    (js.foldl (collapseStep xi) (v, X, W)).1 + (js.foldl (collapseStep xi) (v, X, W)).2.2.sum = v + W.sum ∧
    ((∀ w ∈ W, 0 ≤ w) → 0 ≤ v →
      (∀ w ∈ (js.foldl (collapseStep xi) (v, X, W)).2.2, 0 ≤ w) ∧ 0 ≤ (js.foldl (collapseStep xi) (v, X, W)).1) := by
  induction js generalizing v X W with
  | nil => simp; exact fun h1 h2 => ⟨h1, h2⟩
  | cons k js ih =>
    simp only [List.foldl_cons]
    by_cases hk : k < W.length
    · rw [collapseStep_in xi v X W k hk]
      obtain ⟨h1, h2, h3, h4⟩ := ih (v + W[k]) (X.set k xi) (W.set k 0)
      refine ⟨by simpa using h1, by simpa using h2, ?_, ?_⟩
      · rw [h3, sum_set W k 0 hk]; ring
      · intro hW hv
        exact h4 (nonneg_set W k 0 hW (le_refl 0)) (add_nonneg hv (hW _ (List.getElem_mem hk)))
    · rw [collapseStep_out xi v X W k (by omega)]
      exact ih v X W

/-- entries outside the group are untouched by the loop -/
theorem collapseFold_frame (xi : K) (js : List Nat) (v : K) (X W : List K) (p : Nat) (hp : p ∉ js) :
    (js.foldl (collapseStep xi) (v, X, W)).2.1[p]? = X[p]? ∧
    (js.foldl (collapseStep xi) (v, X, W)).2.2[p]? = W[p]? := by
  induction js generalizing v X W with
  | nil => simp
  | cons k js ih =>
    simp only [List.mem_cons, not_or] at hp
    simp only [List.foldl_cons]
    by_cases hk : k < W.length
    · rw [collapseStep_in xi v X W k hk]
      obtain ⟨h1, h2⟩ := ih (v + W[k]) (X.set k xi) (W.set k 0) hp.2
      rw [h1, h2]
      constructor
      · rw [List.getElem?_set_ne (Ne.symm hp.1)]
      · rw [List.getElem?_set_ne (Ne.symm hp.1)]
    · rw [collapseStep_out xi v X W k (by omega)]
      exact ih v X W hp.2

/-- every in-range member of the group ends with the key's position and weight zero -/
theorem collapseFold_member (xi : K) (js : List Nat) (v : K) (X W : List K) (hl : X.length = W.length)
    (p : Nat) (hp : p ∈ js) (hpn : p < W.length) :
    (js.foldl (collapseStep xi) (v, X, W)).2.1[p]? = some xi ∧
    (js.foldl (collapseStep xi) (v, X, W)).2.2[p]? = some 0 := by
  induction js generalizing v X W with
  | nil => simp at hp
  | cons k js ih =>
    simp only [List.foldl_cons]
    by_cases hk : k < W.length
    · rw [collapseStep_in xi v X W k hk]
      by_cases hpj : p ∈ js
      · exact ih (v + W[k]) (X.set k xi) (W.set k 0) (by simp [hl]) hpj (by simpa using hpn)
      · have hpk : p = k := by
          rcases List.mem_cons.mp hp with h | h
          · exact h
          · exact absurd h hpj
        obtain ⟨h1, h2⟩ := collapseFold_frame xi js (v + W[k]) (X.set k xi) (W.set k 0) p hpj
        rw [h1, h2, hpk]
        constructor
        · rw [List.getElem?_set_self (by omega)]
        · rw [List.getElem?_set_self hk]
    · have hpj : p ∈ js := by
        rcases List.mem_cons.mp hp with h | h
        · omega
        · exact h
      rw [collapseStep_out xi v X W k (by omega)]
      exact ih v X W hl hpj hpn

/-! ### one group -/

/-- the documented shape of a group `i: {k..}`: the key is a valid index and not among its own members
    (`tools.connected` violates this for cyclic pair sets: C18's recorded finding) -/
def GroupOK (n : Nat) (g : Nat × List Nat) : Prop := g.1 < n ∧ g.1 ∉ g.2

theorem collapseGroup_eq (X W : List K) (g : Nat × List Nat) (hl : X.length = W.length) (hg : g.1 < W.length) :
    collapseGroup (X, W) g =
      ((g.2.foldl (collapseStep X[g.1]) (W[g.1], X, W)).2.1,
       (g.2.foldl (collapseStep X[g.1]) (W[g.1], X, W)).2.2.set g.1
         (g.2.foldl (collapseStep X[g.1]) (W[g.1], X, W)).1) := by
  have hx : g.1 < X.length := by omega
  simp [collapseGroup, List.getElem?_eq_getElem hx, List.getElem?_eq_getElem hg]

theorem collapseGroup_length (X W : List K) (g : Nat × List Nat) (hl : X.length = W.length) :
    (collapseGroup (X, W) g).1.length = X.length ∧ (collapseGroup (X, W) g).2.length = W.length := by
  by_cases hg : g.1 < W.length
  · rw [collapseGroup_eq X W g hl hg]
    obtain ⟨h1, h2, _, _⟩ := collapseFold_basic X[g.1] g.2 W[g.1] X W
    simp [h1, h2]
  · have hx : X[g.1]? = none := List.getElem?_eq_none (by omega)
    simp [collapseGroup, hx]

theorem collapseGroup_sum (X W : List K) (g : Nat × List Nat) (hl : X.length = W.length)
    (hok : GroupOK W.length g) : (collapseGroup (X, W) g).2.sum = W.sum := by
  obtain ⟨hg, hni⟩ := hok
  rw [collapseGroup_eq X W g hl hg]
  obtain ⟨_, h2, h3, _⟩ := collapseFold_basic X[g.1] g.2 W[g.1] X W
  obtain ⟨_, hf⟩ := collapseFold_frame X[g.1] g.2 W[g.1] X W g.1 hni
  simp only
  rw [sum_set _ _ _ (by rw [h2]; exact hg)]
  have hi : (g.2.foldl (collapseStep X[g.1]) (W[g.1], X, W)).2.2[g.1]'(by rw [h2]; exact hg) = W[g.1] := by
    have := hf
    rw [List.getElem?_eq_getElem (by rw [h2]; exact hg), List.getElem?_eq_getElem hg] at this
    exact Option.some.inj this
  rw [hi]
  linarith

theorem collapseGroup_nonneg (X W : List K) (g : Nat × List Nat) (hl : X.length = W.length)
    (hW : ∀ w ∈ W, 0 ≤ w) : ∀ w ∈ (collapseGroup (X, W) g).2, 0 ≤ w := by
  by_cases hg : g.1 < W.length
  · rw [collapseGroup_eq X W g hl hg]
    obtain ⟨_, _, _, h4⟩ := collapseFold_basic X[g.1] g.2 W[g.1] X W
    obtain ⟨h5, h6⟩ := h4 hW (hW _ (List.getElem_mem hg))
    exact nonneg_set _ _ _ h5 h6
  · have hx : X[g.1]? = none := List.getElem?_eq_none (by omega)
    simpa [collapseGroup, hx] using hW

/-- entries outside the group (neither key nor member) are untouched; the key keeps its position -/
theorem collapseGroup_frame (X W : List K) (g : Nat × List Nat) (hl : X.length = W.length) (p : Nat)
    (hp : p ∉ g.2) :
    (collapseGroup (X, W) g).1[p]? = X[p]? ∧ (p ≠ g.1 → (collapseGroup (X, W) g).2[p]? = W[p]?) := by
  by_cases hg : g.1 < W.length
  · rw [collapseGroup_eq X W g hl hg]
    obtain ⟨h1, h2⟩ := collapseFold_frame X[g.1] g.2 W[g.1] X W p hp
    refine ⟨h1, fun hne => ?_⟩
    simp only
    rw [List.getElem?_set_ne (Ne.symm hne), h2]
  · have hx : X[g.1]? = none := List.getElem?_eq_none (by omega)
    simp [collapseGroup, hx]

/-- a member of a well-formed group ends at the key's position with weight zero -/
theorem collapseGroup_member (X W : List K) (g : Nat × List Nat) (hl : X.length = W.length)
    (hok : GroupOK W.length g) (p : Nat) (hp : p ∈ g.2) (hpn : p < W.length) :
    (collapseGroup (X, W) g).1[p]? = (collapseGroup (X, W) g).1[g.1]? ∧
    (collapseGroup (X, W) g).2[p]? = some 0 := by
  obtain ⟨hg, hni⟩ := hok
  have hkey := (collapseGroup_frame X W g hl g.1 hni).1
  rw [hkey]
  rw [collapseGroup_eq X W g hl hg]
  obtain ⟨h1, h2⟩ := collapseFold_member X[g.1] g.2 W[g.1] X W hl p hp hpn
  have hne : p ≠ g.1 := fun h => hni (h ▸ hp)
  refine ⟨?_, ?_⟩
  · rw [h1, List.getElem?_eq_getElem (by omega)]
  · simp only
    rw [List.getElem?_set_ne (Ne.symm hne), h2]

/-! ### all groups of one `impose_collapse` call -/

theorem collapseGroups_length (groups : List (Nat × List Nat)) (X W : List K) (hl : X.length = W.length) :
    (groups.foldl collapseGroup (X, W)).1.length = X.length ∧
    (groups.foldl collapseGroup (X, W)).2.length = W.length := by
  induction groups generalizing X W with
  | nil => simp
  | cons g gs ih =>
    simp only [List.foldl_cons]
    obtain ⟨h1, h2⟩ := collapseGroup_length X W g hl
    obtain ⟨h3, h4⟩ := ih (collapseGroup (X, W) g).1 (collapseGroup (X, W) g).2 (by omega)
    exact ⟨by rw [h3, h1], by rw [h4, h2]⟩

theorem collapseGroups_sum (groups : List (Nat × List Nat)) (X W : List K) (hl : X.length = W.length)
    (hok : ∀ g ∈ groups, GroupOK W.length g) : (groups.foldl collapseGroup (X, W)).2.sum = W.sum := by
  induction groups generalizing X W with
  | nil => simp
  | cons g gs ih =>
    simp only [List.foldl_cons]
    obtain ⟨h1, h2⟩ := collapseGroup_length X W g hl
    rw [ih (collapseGroup (X, W) g).1 (collapseGroup (X, W) g).2 (by omega)
      (fun g' hg' => by rw [h2]; exact hok g' (List.mem_cons_of_mem _ hg'))]
    exact collapseGroup_sum X W g hl (hok g List.mem_cons_self)

theorem collapseGroups_nonneg (groups : List (Nat × List Nat)) (X W : List K) (hl : X.length = W.length)
    (hW : ∀ w ∈ W, 0 ≤ w) : ∀ w ∈ (groups.foldl collapseGroup (X, W)).2, 0 ≤ w := by
  induction groups generalizing X W with
  | nil => simpa using hW
  | cons g gs ih =>
    simp only [List.foldl_cons]
    obtain ⟨h1, h2⟩ := collapseGroup_length X W g hl
    exact ih (collapseGroup (X, W) g).1 (collapseGroup (X, W) g).2 (by omega) (collapseGroup_nonneg X W g hl hW)

/-- `p` belongs to group `g` (as key or member) -/
def inGroup (g : Nat × List Nat) (p : Nat) : Prop := p = g.1 ∨ p ∈ g.2

theorem collapseGroups_frame (groups : List (Nat × List Nat)) (X W : List K) (hl : X.length = W.length)
    (p : Nat) (hp : ∀ g ∈ groups, ¬ inGroup g p) :
    (groups.foldl collapseGroup (X, W)).1[p]? = X[p]? ∧ (groups.foldl collapseGroup (X, W)).2[p]? = W[p]? := by
  induction groups generalizing X W with
  | nil => simp
  | cons g gs ih =>
    simp only [List.foldl_cons]
    obtain ⟨h1, h2⟩ := collapseGroup_length X W g hl
    have hg := hp g List.mem_cons_self
    simp only [inGroup, not_or] at hg
    obtain ⟨h3, h4⟩ := ih (collapseGroup (X, W) g).1 (collapseGroup (X, W) g).2 (by omega)
      (fun g' hg' => hp g' (List.mem_cons_of_mem _ hg'))
    obtain ⟨h5, h6⟩ := collapseGroup_frame X W g hl p hg.2
    exact ⟨by rw [h3, h5], by rw [h4, h6 hg.1]⟩

/-- with pairwise disjoint well-formed groups every in-range member of every group ends at its key's
    position with weight zero -/
theorem collapseGroups_member (groups : List (Nat × List Nat)) (X W : List K) (hl : X.length = W.length)
    (hok : ∀ g ∈ groups, GroupOK W.length g)
    (hdis : groups.Pairwise fun a b => ∀ p, inGroup a p → ¬ inGroup b p)
    (g : Nat × List Nat) (hg : g ∈ groups) (p : Nat) (hp : p ∈ g.2) (hpn : p < W.length) :
    (groups.foldl collapseGroup (X, W)).1[p]? = (groups.foldl collapseGroup (X, W)).1[g.1]? ∧
    (groups.foldl collapseGroup (X, W)).2[p]? = some 0 := by
  induction groups generalizing X W with
  | nil => simp at hg
  | cons g0 gs ih =>
    simp only [List.foldl_cons]
    obtain ⟨h1, h2⟩ := collapseGroup_length X W g0 hl
    rw [List.pairwise_cons] at hdis
    rcases List.mem_cons.mp hg with rfl | hgs
    · obtain ⟨m1, m2⟩ := collapseGroup_member X W g hl (hok g List.mem_cons_self) p hp hpn
      obtain ⟨f1, f2⟩ := collapseGroups_frame gs (collapseGroup (X, W) g).1 (collapseGroup (X, W) g).2 (by omega) p
        (fun g' hg' => hdis.1 g' hg' p (Or.inr hp))
      obtain ⟨k1, _⟩ := collapseGroups_frame gs (collapseGroup (X, W) g).1 (collapseGroup (X, W) g).2 (by omega) g.1
        (fun g' hg' => hdis.1 g' hg' g.1 (Or.inl rfl))
      exact ⟨by rw [f1, k1, m1], by rw [f2, m2]⟩
    · exact ih (collapseGroup (X, W) g0).1 (collapseGroup (X, W) g0).2 (by omega)
        (fun g' hg' => by rw [h2]; exact hok g' (List.mem_cons_of_mem _ hg')) hdis.2 hgs (by rw [h2]; exact hpn)

/-! ### `impose_mean` entrywise -/

theorem imposeMean_getElem? (inf v : K) (xs ws : List K) (p : Nat) :
    (imposeMean inf v xs ws)[p]? = xs[p]?.map (· + (v - mean inf xs ws)) := by
  simp [imposeMean]

theorem imposeMean_length (inf v : K) (xs ws : List K) : (imposeMean inf v xs ws).length = xs.length := by
  simp [imposeMean]

/-! ### `impose_collapse` -/

theorem imposeCollapse_length (inf : K) (groups : List (Nat × List Nat)) (xs ws : List K)
    (hl : xs.length = ws.length) :
    (imposeCollapse inf groups xs ws).1.length = xs.length ∧ (imposeCollapse inf groups xs ws).2.length = ws.length := by
  obtain ⟨h1, h2⟩ := collapseGroups_length groups xs ws hl
  simp [imposeCollapse, imposeMean_length, h1, h2]

theorem imposeCollapse_weights (inf : K) (groups : List (Nat × List Nat)) (xs ws : List K) :
    (imposeCollapse inf groups xs ws).2 = (groups.foldl collapseGroup (xs, ws)).2 := rfl

/-- `impose_collapse` is norm-preserving and mean-preserving (well-formed groups, non-zero total weight) -/
theorem imposeCollapse_sum_mean (inf : K) (groups : List (Nat × List Nat)) (xs ws : List K)
    (hl : xs.length = ws.length) (hok : ∀ g ∈ groups, GroupOK ws.length g) (hw : ws.sum ≠ 0) :
    (imposeCollapse inf groups xs ws).2.sum = ws.sum ∧
    mean inf (imposeCollapse inf groups xs ws).1 (imposeCollapse inf groups xs ws).2 = mean inf xs ws := by
  have hs := collapseGroups_sum groups xs ws hl hok
  obtain ⟨h1, h2⟩ := collapseGroups_length groups xs ws hl
  refine ⟨hs, ?_⟩
  simp only [imposeCollapse]
  exact mean_imposeMean inf _ _ _ (by omega) (by rw [hs]; exact hw)

/-! ### `normalize(weights, mass)` and `impose_unweighted` -/

theorem sum_map_abs_nonneg (ws : List K) (h : ∀ w ∈ ws, 0 ≤ w) : (ws.map absR).sum = ws.sum := by
  have : ws.map absR = ws.map id :=
    List.map_congr_left (fun w hw => by rw [absR_eq_abs, abs_of_nonneg (h w hw)]; rfl)
  rw [this, List.map_id]

theorem sum_map_div (ws : List K) (a : K) : (ws.map (· / a)).sum = ws.sum / a := by
  induction ws with
  | nil => simp
  | cons w ws ih => simp only [List.map_cons, List.sum_cons, ih]; ring

theorem sum_map_mul_left' (ws : List K) (a : K) : (ws.map (a * ·)).sum = a * ws.sum := by
  induction ws with
  | nil => simp
  | cons w ws ih => simp only [List.map_cons, List.sum_cons, ih]; ring

theorem normalizeMass_length (mass : K) (ws : List K) : (normalizeMass mass ws).length = ws.length := by
  unfold normalizeMass
  simp only
  split
  · simp
  · split <;> simp

/-- a zero weight stays zero under `normalize` -/
theorem normalizeMass_zero (mass : K) (ws : List K) (p : Nat) (hp : ws[p]? = some 0) :
    (normalizeMass mass ws)[p]? = some 0 := by
  have hpn : p < ws.length := (List.getElem?_eq_some_iff.mp hp).1
  unfold normalizeMass
  simp only
  split
  · simp [hp, hpn]
  · split
    · simp [hp, hpn]
    · simp [hp]

/-- non-negative weights with positive total: `normalize(w, mass)` has sum `mass`, stays non-negative for
    `mass ≥ 0` -/
theorem normalizeMass_sum (mass : K) (ws : List K) (hnn : ∀ w ∈ ws, 0 ≤ w) (hpos : 0 < ws.sum) :
    (normalizeMass mass ws).sum = mass ∧ (0 ≤ mass → ∀ w ∈ normalizeMass mass ws, 0 ≤ w) := by
  have ha : sumL (ws.map absR) = ws.sum := by rw [sumL_eq_sum, sum_map_abs_nonneg ws hnn]
  have hm : sumL (ws.map (· / ws.sum)) = 1 := by
    rw [sumL_eq_sum, sum_map_div]; exact div_self (ne_of_gt hpos)
  unfold normalizeMass
  simp only [ha, hm]
  rw [if_neg (by rw [(truthy_eq _).mpr (ne_of_gt hpos)]; simp),
    if_neg (by rw [(truthy_eq (1 : K)).mpr one_ne_zero]; simp)]
  constructor
  · rw [sum_map_div, sum_map_mul_left', sum_map_div, div_self (ne_of_gt hpos)]; ring
  · intro hmass w hw
    simp only [List.map_map, List.mem_map, Function.comp] at hw
    obtain ⟨a, ha', rfl⟩ := hw
    have := hnn a ha'
    have h1 : 0 ≤ a / ws.sum := div_nonneg this (le_of_lt hpos)
    have h2 : 0 ≤ mass * (a / ws.sum) := mul_nonneg hmass h1
    simpa using h2

/-- the weights `impose_unweighted` hands to `normalize` (l.1756-1758) -/
def unweightPre (index : List Nat) (ws : List K) : List K :=
  let w1 := ws.mapIdx fun i w => if index.contains i then 0 else w
  if truthy (sumL w1) = false then ws.mapIdx (fun i _ => if index.contains i then 0 else 1) else w1

theorem imposeUnweighted_eq (inf : K) (index : List Nat) (xs ws : List K) :
    imposeUnweighted inf index xs ws =
      (imposeMean inf (mean inf xs ws) xs (normalizeMass (sumL ws) (unweightPre index ws)),
       normalizeMass (sumL ws) (unweightPre index ws)) := rfl

theorem unweightPre_length (index : List Nat) (ws : List K) : (unweightPre index ws).length = ws.length := by
  unfold unweightPre
  simp only
  split <;> simp

theorem unweightPre_index (index : List Nat) (ws : List K) (p : Nat) (hp : p ∈ index) (hpn : p < ws.length) :
    (unweightPre index ws)[p]? = some 0 := by
  have hc : index.contains p = true := by simpa using hp
  unfold unweightPre
  simp only
  split
  · simp [List.getElem?_mapIdx, List.getElem?_eq_getElem hpn, hc, hp]
  · simp [List.getElem?_mapIdx, List.getElem?_eq_getElem hpn, hc, hp]

theorem unweightPre_nonneg (index : List Nat) (ws : List K) (hnn : ∀ w ∈ ws, 0 ≤ w) :
    ∀ w ∈ unweightPre index ws, 0 ≤ w := by
  intro w hw
  unfold unweightPre at hw
  simp only at hw
  split at hw
  · rw [List.mem_mapIdx] at hw
    obtain ⟨i, hi, rfl⟩ := hw
    split
    · exact le_refl 0
    · exact zero_le_one
  · rw [List.mem_mapIdx] at hw
    obtain ⟨i, hi, rfl⟩ := hw
    split
    · exact le_refl 0
    · exact hnn _ (List.getElem_mem hi)

/-- if some point is left outside `index`, the weights handed to `normalize` have positive total -/
theorem unweightPre_pos (index : List Nat) (ws : List K) (hnn : ∀ w ∈ ws, 0 ≤ w)
    (hout : ∃ i, i < ws.length ∧ i ∉ index) : 0 < (unweightPre index ws).sum := by
  have hnn' := unweightPre_nonneg index ws hnn
  unfold unweightPre at hnn' ⊢
  simp only at hnn' ⊢
  split
  · rename_i h0
    rw [if_pos h0] at hnn'
    obtain ⟨i, hi, hni⟩ := hout
    have hc : index.contains i = false := by simpa using hni
    have hmem : (1 : K) ∈ ws.mapIdx (fun i _ => if index.contains i then (0 : K) else 1) := by
      rw [List.mem_mapIdx]
      exact ⟨i, hi, by simp [hc, hni]⟩
    exact lt_of_lt_of_le zero_lt_one (List.single_le_sum hnn' 1 hmem)
  · rename_i h0
    rw [if_neg h0] at hnn'
    have hne : sumL (ws.mapIdx fun i w => if index.contains i then 0 else w) ≠ 0 := by
      rw [← truthy_eq]; simpa using h0
    rw [sumL_eq_sum] at hne
    exact lt_of_le_of_ne (List.sum_nonneg hnn') (Ne.symm hne)

/-- `impose_unweighted(index, x, w, nullable=False)` on non-negative weights with positive total, leaving at
    least one point outside `index`: the indexed weights are zero, the total weight and the weighted mean are
    kept, the weights stay non-negative, every position is shifted by the same amount -/
theorem imposeUnweighted_spec (inf : K) (index : List Nat) (xs ws : List K) (hl : xs.length = ws.length)
    (hnn : ∀ w ∈ ws, 0 ≤ w) (hpos : 0 < ws.sum) (hout : ∃ i, i < ws.length ∧ i ∉ index) :
    (imposeUnweighted inf index xs ws).1.length = xs.length ∧
    (imposeUnweighted inf index xs ws).2.length = ws.length ∧
    (imposeUnweighted inf index xs ws).2.sum = ws.sum ∧
    (∀ w ∈ (imposeUnweighted inf index xs ws).2, 0 ≤ w) ∧
    mean inf (imposeUnweighted inf index xs ws).1 (imposeUnweighted inf index xs ws).2 = mean inf xs ws ∧
    (∀ p ∈ index, p < ws.length → (imposeUnweighted inf index xs ws).2[p]? = some 0) := by
  rw [imposeUnweighted_eq, sumL_eq_sum]
  obtain ⟨h1, h2⟩ := normalizeMass_sum ws.sum (unweightPre index ws) (unweightPre_nonneg index ws hnn)
    (unweightPre_pos index ws hnn hout)
  have hlen : (normalizeMass ws.sum (unweightPre index ws)).length = ws.length := by
    rw [normalizeMass_length, unweightPre_length]
  refine ⟨imposeMean_length _ _ _ _, hlen, h1, h2 (le_of_lt hpos), ?_, ?_⟩
  · simp only
    exact mean_imposeMean inf _ xs _ (by omega) (by rw [h1]; exact ne_of_gt hpos)
  · intro p hp hpn
    simp only
    exact normalizeMass_zero _ _ p (unweightPre_index index ws p hp hpn)

/-! ### a sequence of `c[k] = F v c[k]` steps on a list -/

section modify
variable {α β : Type}

/-- `for (k, v) in ops: c[k] = F v c[k]` -/
def applyOps (F : β → α → α) (ops : List (Nat × β)) (c : List α) : List α :=
  ops.foldl (fun c kv => c.modify kv.1 (F kv.2)) c

theorem applyOps_cons (F : β → α → α) (o : Nat × β) (ops : List (Nat × β)) (c : List α) :
    applyOps F (o :: ops) c = applyOps F ops (c.modify o.1 (F o.2)) := rfl

theorem applyOps_length (F : β → α → α) (ops : List (Nat × β)) (c : List α) :
    (applyOps F ops c).length = c.length := by
  induction ops generalizing c with
  | nil => rfl
  | cons o ops ih => rw [applyOps_cons, ih, List.length_modify]

/-- an entry no step addresses is unchanged -/
theorem applyOps_frame (F : β → α → α) (ops : List (Nat × β)) (c : List α) (k : Nat)
    (hk : ∀ kv ∈ ops, kv.1 ≠ k) : (applyOps F ops c)[k]? = c[k]? := by
  induction ops generalizing c with
  | nil => rfl
  | cons o ops ih =>
    rw [applyOps_cons, ih _ (fun kv h => hk kv (List.mem_cons_of_mem _ h)),
      List.getElem?_modify_ne _ _ (hk o List.mem_cons_self)]

/-- an invariant of entry `k` that every step addressing `k` preserves -/
theorem applyOps_inv (F : β → α → α) (ops : List (Nat × β)) (k : Nat) (P : α → Prop)
    (hF : ∀ kv ∈ ops, kv.1 = k → ∀ a, P a → P (F kv.2 a)) (c : List α)
    (h0 : ∀ a, c[k]? = some a → P a) : ∀ a, (applyOps F ops c)[k]? = some a → P a := by
  induction ops generalizing c with
  | nil => exact h0
  | cons o ops ih =>
    rw [applyOps_cons]
    apply ih (fun kv h => hF kv (List.mem_cons_of_mem _ h))
    intro a ha
    rw [List.getElem?_modify] at ha
    cases hc : c[k]? with
    | none => rw [hc] at ha; simp at ha
    | some b =>
      rw [hc] at ha
      simp only [Option.map_eq_map, Option.map_some, Option.some.injEq] at ha
      by_cases hok : o.1 = k
      · rw [if_pos hok] at ha
        rw [← ha]
        exact hF o List.mem_cons_self hok b (h0 b hc)
      · rw [if_neg hok] at ha
        rw [← ha]; exact h0 b hc

/-- with distinct keys (one python dict) the step for key `k` is applied exactly once -/
theorem applyOps_nodup (F : β → α → α) (ops : List (Nat × β)) (c : List α)
    (hnd : (ops.map (·.1)).Nodup) (kv : Nat × β) (hkv : kv ∈ ops) :
    (applyOps F ops c)[kv.1]? = c[kv.1]?.map (F kv.2) := by
  induction ops generalizing c with
  | nil => simp at hkv
  | cons o ops ih =>
    simp only [List.map_cons, List.nodup_cons] at hnd
    rw [applyOps_cons]
    rcases List.mem_cons.mp hkv with rfl | h
    · rw [applyOps_frame F ops _ kv.1 (fun kv' h' hEq => hnd.1 (List.mem_map.mpr ⟨kv', h', hEq⟩)),
        List.getElem?_modify_eq]
      rfl
    · have hne : o.1 ≠ kv.1 := fun hEq => hnd.1 (List.mem_map.mpr ⟨kv, h, hEq.symm⟩)
      rw [ih _ hnd.2 h, List.getElem?_modify_ne _ _ hne]

theorem applyOps_map_length {γ : Type} (F : β → List γ → List γ) (hF : ∀ v a, (F v a).length = a.length)
    (ops : List (Nat × β)) (c : List (List γ)) :
    (applyOps F ops c).map List.length = c.map List.length := by
  apply List.ext_getElem?
  intro k
  simp only [List.getElem?_map]
  cases hc : c[k]? with
  | none =>
    have : (applyOps F ops c)[k]? = none := by
      rw [List.getElem?_eq_none_iff, applyOps_length]
      exact List.getElem?_eq_none_iff.mp hc
    rw [this]
  | some a =>
    have hlt : k < (applyOps F ops c).length := by
      rw [applyOps_length]; exact (List.getElem?_eq_some_iff.mp hc).1
    have := applyOps_inv F ops k (fun b => b.length = a.length) (fun kv _ _ b hb => by rw [hF, hb]) c
      (fun b hb => by rw [hc] at hb; rw [← Option.some.inj hb])
    rw [List.getElem?_eq_getElem hlt]
    simp only [Option.map_some]
    rw [this _ (List.getElem?_eq_getElem hlt)]

end modify

/-! ### the two kinds of steps of `impose_measure` on one factor -/

def collapseM (inf : K) (gs : List (Nat × List Nat)) (m : Measure K) : Measure K :=
  rebuild (imposeCollapse inf gs (mpositions m) (mweights m))
def unweightM (inf : K) (idx : List Nat) (m : Measure K) : Measure K :=
  rebuild (imposeUnweighted inf idx (mpositions m) (mweights m))

theorem imposeOn_eq (inf : K) (tr : List (Nat × List (Nat × List Nat))) (nw : List (Nat × List Nat)) (c : PM K) :
    imposeOn inf tr nw c = applyOps (unweightM inf) nw (applyOps (collapseM inf) tr c) := rfl

theorem collapseM_length (inf : K) (gs : List (Nat × List Nat)) (m : Measure K) :
    (collapseM inf gs m).length = m.length := by
  obtain ⟨h1, h2⟩ := imposeCollapse_length inf gs (mpositions m) (mweights m) (by simp)
  unfold collapseM
  rw [show imposeCollapse inf gs (mpositions m) (mweights m)
    = ((imposeCollapse inf gs (mpositions m) (mweights m)).1, (imposeCollapse inf gs (mpositions m) (mweights m)).2) from rfl,
    length_rebuild _ _ (by rw [h1, h2]; simp), h1]
  simp

theorem unweightM_length (inf : K) (idx : List Nat) (m : Measure K) :
    (unweightM inf idx m).length = m.length := by
  unfold unweightM
  rw [imposeUnweighted_eq, length_rebuild _ _ (by
    rw [imposeMean_length, normalizeMass_length, unweightPre_length]; simp), imposeMean_length]
  simp

theorem collapseM_parts (inf : K) (gs : List (Nat × List Nat)) (m : Measure K) :
    mpositions (collapseM inf gs m) = (imposeCollapse inf gs (mpositions m) (mweights m)).1 ∧
    mweights (collapseM inf gs m) = (imposeCollapse inf gs (mpositions m) (mweights m)).2 := by
  obtain ⟨h1, h2⟩ := imposeCollapse_length inf gs (mpositions m) (mweights m) (by simp)
  have hl : (imposeCollapse inf gs (mpositions m) (mweights m)).1.length
      = (imposeCollapse inf gs (mpositions m) (mweights m)).2.length := by rw [h1, h2]; simp
  exact ⟨mpositions_rebuild _ _ hl, mweights_rebuild _ _ hl⟩

theorem unweightM_parts (inf : K) (idx : List Nat) (m : Measure K) :
    mpositions (unweightM inf idx m) = (imposeUnweighted inf idx (mpositions m) (mweights m)).1 ∧
    mweights (unweightM inf idx m) = (imposeUnweighted inf idx (mpositions m) (mweights m)).2 := by
  have hl : (imposeUnweighted inf idx (mpositions m) (mweights m)).1.length
      = (imposeUnweighted inf idx (mpositions m) (mweights m)).2.length := by
    rw [imposeUnweighted_eq, imposeMean_length, normalizeMass_length, unweightPre_length]; simp
  exact ⟨mpositions_rebuild _ _ hl, mweights_rebuild _ _ hl⟩

/-- what `impose_measure` keeps of a factor `m` (non-negative weights): number of points, total weight,
    centre of mass -/
structure Kept (inf : K) (m m' : Measure K) : Prop where
  len : m'.length = m.length
  nonneg : ∀ w ∈ mweights m', 0 ≤ w
  mass : (mweights m').sum = (mweights m).sum
  cm : centerMass inf m' = centerMass inf m

theorem Kept.refl (inf : K) (m : Measure K) (h : ∀ w ∈ mweights m, 0 ≤ w) : Kept inf m m :=
  ⟨rfl, h, rfl, rfl⟩

theorem kept_collapse (inf : K) (m m' : Measure K) (hk : Kept inf m m') (hpos : 0 < (mweights m).sum)
    (gs : List (Nat × List Nat)) (hok : ∀ g ∈ gs, GroupOK m.length g) : Kept inf m (collapseM inf gs m') := by
  obtain ⟨hp, hw⟩ := collapseM_parts inf gs m'
  have hl : (mpositions m').length = (mweights m').length := by simp
  have hok' : ∀ g ∈ gs, GroupOK (mweights m').length g := by
    intro g hg; rw [length_mweights, hk.len]; exact hok g hg
  obtain ⟨h1, h2⟩ := imposeCollapse_sum_mean inf gs (mpositions m') (mweights m') hl hok'
    (by rw [hk.mass]; exact ne_of_gt hpos)
  refine ⟨by rw [collapseM_length, hk.len], ?_, by rw [hw, h1, hk.mass], ?_⟩
  · rw [hw, imposeCollapse_weights]
    exact collapseGroups_nonneg gs _ _ hl hk.nonneg
  · unfold centerMass
    rw [hp, hw, h2]
    exact hk.cm

theorem kept_unweight (inf : K) (m m' : Measure K) (hk : Kept inf m m') (hpos : 0 < (mweights m).sum)
    (idx : List Nat) (hout : ∃ i, i < m.length ∧ i ∉ idx) : Kept inf m (unweightM inf idx m') := by
  obtain ⟨hp, hw⟩ := unweightM_parts inf idx m'
  have hl : (mpositions m').length = (mweights m').length := by simp
  obtain ⟨_, _, h3, h4, h5, _⟩ := imposeUnweighted_spec inf idx (mpositions m') (mweights m') hl hk.nonneg
    (by rw [hk.mass]; exact hpos) (by rw [length_mweights, hk.len]; exact hout)
  refine ⟨by rw [unweightM_length, hk.len], by rw [hw]; exact h4, by rw [hw, h3, hk.mass], ?_⟩
  unfold centerMass
  rw [hp, hw, h5]
  exact hk.cm

/-- `impose_unweighted` shifts every position by the same amount: coinciding positions keep coinciding -/
theorem unweightM_samepos (inf : K) (idx : List Nat) (m : Measure K) (p q : Nat)
    (h : (mpositions m)[p]? = (mpositions m)[q]?) :
    (mpositions (unweightM inf idx m))[p]? = (mpositions (unweightM inf idx m))[q]? := by
  rw [(unweightM_parts inf idx m).1, imposeUnweighted_eq]
  simp only [imposeMean_getElem?, h]

/-- well-formed, pairwise disjoint groups: each in-range member of each group ends at the key's position
    with weight zero -/
theorem collapseM_member (inf : K) (gs : List (Nat × List Nat)) (m : Measure K)
    (hok : ∀ g ∈ gs, GroupOK m.length g)
    (hdis : gs.Pairwise fun a b => ∀ p, inGroup a p → ¬ inGroup b p)
    (g : Nat × List Nat) (hg : g ∈ gs) (p : Nat) (hp : p ∈ g.2) (hpn : p < m.length) :
    (mpositions (collapseM inf gs m))[p]? = (mpositions (collapseM inf gs m))[g.1]? ∧
    (mweights (collapseM inf gs m))[p]? = some 0 := by
  obtain ⟨hpp, hw⟩ := collapseM_parts inf gs m
  have hl : (mpositions m).length = (mweights m).length := by simp
  obtain ⟨h1, h2⟩ := collapseGroups_member gs (mpositions m) (mweights m) hl
    (fun g hg => by rw [length_mweights]; exact hok g hg) hdis g hg p hp (by simpa using hpn)
  rw [hpp, hw, imposeCollapse_weights]
  refine ⟨?_, h2⟩
  simp only [imposeCollapse, imposeMean_getElem?, h1]

/-! ### `impose_measure` -/

theorem imposeOn_pts (inf : K) (tr : List (Nat × List (Nat × List Nat))) (nw : List (Nat × List Nat)) (c : PM K) :
    pts (imposeOn inf tr nw c) = pts c := by
  rw [imposeOn_eq]
  unfold pts
  rw [applyOps_map_length _ (unweightM_length inf), applyOps_map_length _ (collapseM_length inf)]

/-- a factor that neither `tracking` nor `noweight` addresses is unchanged -/
theorem imposeOn_frame (inf : K) (tr : List (Nat × List (Nat × List Nat))) (nw : List (Nat × List Nat)) (c : PM K)
    (k : Nat) (h1 : ∀ kv ∈ tr, kv.1 ≠ k) (h2 : ∀ kv ∈ nw, kv.1 ≠ k) : (imposeOn inf tr nw c)[k]? = c[k]? := by
  rw [imposeOn_eq, applyOps_frame _ _ _ k h2, applyOps_frame _ _ _ k h1]

/-- every factor keeps its size, total weight and centre of mass -/
theorem imposeOn_kept (inf : K) (tr : List (Nat × List (Nat × List Nat))) (nw : List (Nat × List Nat)) (c : PM K)
    (k : Nat) (m : Measure K) (hm : c[k]? = some m)
    (hnn : ∀ w ∈ mweights m, 0 ≤ w) (hpos : 0 < (mweights m).sum)
    (htr : ∀ kv ∈ tr, kv.1 = k → ∀ g ∈ kv.2, GroupOK m.length g)
    (hnw : ∀ kv ∈ nw, kv.1 = k → ∃ i, i < m.length ∧ i ∉ kv.2) :
    ∃ m', (imposeOn inf tr nw c)[k]? = some m' ∧ Kept inf m m' := by
  rw [imposeOn_eq]
  have hlt : k < (applyOps (unweightM inf) nw (applyOps (collapseM inf) tr c)).length := by
    rw [applyOps_length, applyOps_length]; exact (List.getElem?_eq_some_iff.mp hm).1
  refine ⟨_, List.getElem?_eq_getElem hlt, ?_⟩
  apply applyOps_inv (unweightM inf) nw k (Kept inf m)
    (fun kv hkv hk a ha => kept_unweight inf m a ha hpos kv.2 (hnw kv hkv hk)) _ _ _ (List.getElem?_eq_getElem hlt)
  apply applyOps_inv (collapseM inf) tr k (Kept inf m)
    (fun kv hkv hk a ha => kept_collapse inf m a ha hpos kv.2 (htr kv hkv hk))
  intro a ha
  rw [hm] at ha
  rw [← Option.some.inj ha]
  exact Kept.refl inf m hnn

/-- `impose_measure` on a parameter vector that is long enough: the measure it loads, and what it returns -/
theorem imposeMeasure_eq (inf : K) (npts : List Nat) (tr : List (Nat × List (Nat × List Nat)))
    (nw : List (Nat × List Nat)) (x : List K) (hlen : 2 * npts.sum ≤ x.length) :
    ∃ c, unflatten (x.take (2 * npts.sum)) npts = some c ∧ pts c = npts ∧ flatten c = x.take (2 * npts.sum) ∧
      imposeMeasure inf npts tr nw x = some (flatten (imposeOn inf tr nw c)) := by
  obtain ⟨ht, hl⟩ := truncParams_length x npts hlen
  obtain ⟨c, hc1, hc2, hc3⟩ := unflatten_of_length _ _ hl
  rw [ht] at hc1 hc3
  refine ⟨c, hc1, hc2, hc3, ?_⟩
  simp [imposeMeasure, load, ht, hc1]

end MysticVerif.Discrete
