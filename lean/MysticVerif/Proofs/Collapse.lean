/-
Helper lemmas for C11 (Model/Collapse.lean): the numpy reductions over a linear order, the window slice,
`allSome`, list unions.
-/
import MysticVerif.Model.Collapse
import Mathlib.Tactic.Linarith
import Mathlib.Algebra.Order.Field.Basic
import Mathlib.Order.MinMax

namespace MysticVerif.Clps

set_option linter.unusedSectionVars false

section Order
variable {K : Type} [Field K] [LinearOrder K] [IsStrictOrderedRing K]

theorem maxStep_eq_max (m y : K) : maxStep m y = max m y := by
  unfold maxStep
  by_cases h : m < y
  · simp [h, max_eq_right (le_of_lt h)]
  · simp [h, max_eq_left (not_lt.mp h)]

theorem minStep_eq_min (m y : K) : minStep m y = min m y := by
  unfold minStep
  by_cases h : y < m
  · simp [h, min_eq_right (le_of_lt h)]
  · simp [h, min_eq_left (not_lt.mp h)]

theorem foldl_maxStep_le_iff (xs : List K) (x t : K) :
    xs.foldl maxStep x ≤ t ↔ x ≤ t ∧ ∀ y ∈ xs, y ≤ t := by
  induction xs generalizing x with
  | nil => simp
  | cons y ys ih =>
    simp only [List.foldl_cons, ih, maxStep_eq_max, max_le_iff, List.mem_cons, forall_eq_or_imp]
    tauto

theorem le_foldl_minStep_iff (xs : List K) (x t : K) :
    t ≤ xs.foldl minStep x ↔ t ≤ x ∧ ∀ y ∈ xs, t ≤ y := by
  induction xs generalizing x with
  | nil => simp
  | cons y ys ih =>
    simp only [List.foldl_cons, ih, minStep_eq_min, le_min_iff, List.mem_cons, forall_eq_or_imp]
    tauto

theorem foldl_maxStep_mem (xs : List K) (x : K) : xs.foldl maxStep x ∈ x :: xs := by
  induction xs generalizing x with
  | nil => simp
  | cons y ys ih =>
    simp only [List.foldl_cons, maxStep_eq_max]
    have := ih (max x y)
    rcases List.mem_cons.mp this with h | h
    · rw [h]
      rcases max_choice x y with hc | hc <;> simp [hc]
    · simp [h]

theorem foldl_minStep_mem (xs : List K) (x : K) : xs.foldl minStep x ∈ x :: xs := by
  induction xs generalizing x with
  | nil => simp
  | cons y ys ih =>
    simp only [List.foldl_cons, minStep_eq_min]
    have := ih (min x y)
    rcases List.mem_cons.mp this with h | h
    · rw [h]
      rcases min_choice x y with hc | hc <;> simp [hc]
    · simp [h]

/-- `a.max(axis=0) <= t` iff every record is `<= t` -/
theorem maxL_le_iff' (c : List K) (v t : K) (h : maxL c = some v) : v ≤ t ↔ ∀ x ∈ c, x ≤ t := by
  cases c with
  | nil => simp [maxL] at h
  | cons x xs =>
    simp only [maxL, Option.some.injEq] at h
    subst h
    simp [foldl_maxStep_le_iff]

theorem maxL_mem (c : List K) (v : K) (h : maxL c = some v) : v ∈ c := by
  cases c with
  | nil => simp [maxL] at h
  | cons x xs =>
    simp only [maxL, Option.some.injEq] at h
    subst h
    exact foldl_maxStep_mem xs x

theorem minL_mem (c : List K) (v : K) (h : minL c = some v) : v ∈ c := by
  cases c with
  | nil => simp [minL] at h
  | cons x xs =>
    simp only [minL, Option.some.injEq] at h
    subst h
    exact foldl_minStep_mem xs x

theorem le_maxL (c : List K) (v : K) (h : maxL c = some v) : ∀ x ∈ c, x ≤ v :=
  (maxL_le_iff' c v v h).mp (le_refl v)

theorem minL_le (c : List K) (v : K) (h : minL c = some v) : ∀ x ∈ c, v ≤ x := by
  cases c with
  | nil => simp [minL] at h
  | cons x xs =>
    simp only [minL, Option.some.injEq] at h
    subst h
    have := (le_foldl_minStep_iff xs x (xs.foldl minStep x)).mp (le_refl _)
    intro y hy
    rcases List.mem_cons.mp hy with rfl | hy
    · exact this.1
    · exact this.2 y hy

theorem maxL_isSome (c : List K) (h : c ≠ []) : ∃ v, maxL c = some v := by
  cases c with
  | nil => exact absurd rfl h
  | cons x xs => exact ⟨_, rfl⟩

theorem minL_isSome (c : List K) (h : c ≠ []) : ∃ v, minL c = some v := by
  cases c with
  | nil => exact absurd rfl h
  | cons x xs => exact ⟨_, rfl⟩

/-- `ptp(column) <= t` iff any two records differ by at most `t` -/
theorem ptp_le_iff' (c : List K) (v t : K) (h : ptp c = some v) : v ≤ t ↔ ∀ x ∈ c, ∀ y ∈ c, x - y ≤ t := by
  unfold ptp at h
  cases hM : maxL c with
  | none => simp [hM] at h
  | some a =>
    cases hm : minL c with
    | none => simp [hM, hm] at h
    | some b =>
      simp only [hM, hm, Option.some.injEq] at h
      subst h
      constructor
      · intro hab x hx y hy
        have h1 := le_maxL c a hM x hx
        have h2 := minL_le c b hm y hy
        linarith
      · intro hall
        exact hall a (maxL_mem c a hM) b (minL_mem c b hm)

theorem absR_eq_abs (x : K) : absR x = |x| := by
  unfold absR
  by_cases h : x < 0
  · simp [h, abs_of_neg h]
  · simp [h, abs_of_nonneg (not_lt.mp h)]

end Order

/-! ### the window -/

/-- a positive look-back `g` keeps exactly the last `min g len` records -/
theorem lastN_pos {α : Type} (xs : List α) (g : Nat) (hg : 0 < g) :
    lastN (some (g : Int)) xs = xs.drop (xs.length - g) := by
  unfold lastN
  simp only
  have h1 : (-(g : Int) < 0) := by omega
  simp only [h1, if_true]
  by_cases h2 : -(g : Int) + (xs.length : Int) < 0
  · simp only [h2, if_true]
    have : xs.length - g = 0 := by omega
    simp [this]
  · simp only [h2, if_false]
    have : (-(g : Int) + (xs.length : Int)).toNat = xs.length - g := by omega
    rw [this]

theorem lastN_none {α : Type} (xs : List α) : lastN none xs = xs := rfl

/-- `generations = 0` is the slice `x[-0:] = x[0:]`: the WHOLE history -/
theorem lastN_zero {α : Type} (xs : List α) : lastN (some 0) xs = xs := by
  unfold lastN
  have : ¬ ((xs.length : Int) < 0) := by omega
  simp [this]

/-! ### `allSome` -/
theorem allSome_some_mem {α : Type} (l : List (Option α)) (r : List α) (h : allSome l = some r) (a : α) :
    a ∈ r ↔ some a ∈ l := by
  induction l generalizing r with
  | nil => simp [allSome] at h; subst h; simp
  | cons x xs ih =>
    cases x with
    | none => simp [allSome] at h
    | some b =>
      simp only [allSome] at h
      cases hr : allSome xs with
      | none => simp [hr] at h
      | some r' =>
        simp only [hr, Option.some.injEq] at h
        subst h
        simp [ih r' hr]

/-! ### index sets, unions, dict merge, `Forall₂`, filter lengths (moved out of Props/C11) -/
section Lists
variable {E : Type} [DecidableEq E]

/-- the candidate pairs are exactly the pairs `i < j` of parameters -/
theorem mem_pairsOf (n i j : Nat) : (i, j) ∈ pairsOf n ↔ i < j ∧ j < n := by
  simp only [pairsOf, List.mem_flatMap, List.mem_range, List.mem_map, List.mem_filter, decide_eq_true_eq,
    Prod.mk.injEq]
  constructor
  · rintro ⟨a, _, b, ⟨hb, hab⟩, rfl, rfl⟩
    exact ⟨hab, hb⟩
  · rintro ⟨h1, h2⟩
    exact ⟨i, by omega, j, ⟨h2, h1⟩, rfl, rfl⟩

theorem mem_cellsOf (m k a i : Nat) : (a, i) ∈ cellsOf m k ↔ a < m ∧ i < k := by
  simp only [cellsOf, List.mem_flatMap, List.mem_range, List.mem_map, Prod.mk.injEq]
  constructor
  · rintro ⟨a', ha, i', hi, rfl, rfl⟩
    exact ⟨ha, hi⟩
  · rintro ⟨h1, h2⟩
    exact ⟨a, h1, i, h2, rfl, rfl⟩

theorem mem_zip_map_inj {α β γ : Type} (f : β → γ) (hf : Function.Injective f) (ms : List α) (ps : List β)
    (a : α) (q : β) : (a, f q) ∈ ms.zip (ps.map f) ↔ (a, q) ∈ ms.zip ps := by
  induction ms generalizing ps with
  | nil => simp
  | cons m ms ih =>
    cases ps with
    | nil => simp
    | cons p ps => simp [List.zip_cons_cons, ih, hf.eq_iff]

theorem mem_pcellsOf (m k a i j : Nat) : (a, i, j) ∈ pcellsOf m k ↔ a < m ∧ i < j ∧ j < k := by
  simp only [pcellsOf, List.mem_flatMap, List.mem_range, List.mem_map, Prod.mk.injEq]
  constructor
  · rintro ⟨a', ha, ⟨i', j'⟩, hp, rfl, rfl, rfl⟩
    exact ⟨ha, (mem_pairsOf k _ _).mp hp⟩
  · rintro ⟨h1, h2⟩
    exact ⟨a, h1, (i, j), (mem_pairsOf k i j).mpr h2, rfl, rfl, rfl⟩

theorem mem_unionL (a b : List E) (e : E) : e ∈ unionL a b ↔ e ∈ a ∨ e ∈ b := by
  simp only [unionL, List.mem_append, List.mem_filter, Bool.not_eq_true', List.contains_eq_mem, decide_eq_false_iff_not]
  by_cases h : e ∈ a <;> simp [h]

/-- membership under a key of a dict mask -/
def dictHas (d : List (Int × List E)) (key : Int) (e : E) : Prop := ∃ kv ∈ d, kv.1 = key ∧ e ∈ kv.2

theorem dict_has_iff (d : List (Int × List E)) (key : Int) (e : E) :
    (MaskV.dict d).has key e = true ↔ dictHas d key e := by
  simp [MaskV.has, dictHas, List.any_eq_true]

theorem dictStep_has (old : List (Int × List E)) (k : Int) (v : List E) (key : Int) (e : E)
    (h : dictHas old key e ∨ (k = key ∧ e ∈ v)) :
    dictHas (if old.any (fun e => e.1 == k) = true
             then old.map (fun e => if e.1 == k then (e.1, unionL e.2 v) else e)
             else old ++ [(k, v)]) key e := by
  by_cases hk : old.any (fun e => e.1 == k) = true
  · rw [if_pos hk]
    rcases h with ⟨kv, hkv, h1, h2⟩ | ⟨h1, h2⟩
    · by_cases hq : kv.1 = k
      · exact ⟨(kv.1, unionL kv.2 v), List.mem_map.mpr ⟨kv, hkv, by simp [hq]⟩, h1, (mem_unionL _ _ _).mpr (Or.inl h2)⟩
      · exact ⟨kv, List.mem_map.mpr ⟨kv, hkv, by simp [hq]⟩, h1, h2⟩
    · obtain ⟨kv, hkv, hq⟩ := List.any_eq_true.mp hk
      refine ⟨(kv.1, unionL kv.2 v), List.mem_map.mpr ⟨kv, hkv, by simp [hq]⟩, ?_⟩
      simp only [beq_iff_eq] at hq
      simp [hq, h1, mem_unionL, h2]
  · rw [if_neg hk]
    rcases h with ⟨kv, hkv, h1, h2⟩ | ⟨h1, h2⟩
    · exact ⟨kv, List.mem_append_left _ hkv, h1, h2⟩
    · exact ⟨(k, v), by simp, h1, h2⟩

theorem dictMerge_has (old new : List (Int × List E)) (key : Int) (e : E)
    (h : dictHas old key e ∨ dictHas new key e) : dictHas (dictMerge old new) key e := by
  induction new generalizing old with
  | nil =>
    rcases h with h | ⟨kv, hkv, _⟩
    · exact h
    · simp at hkv
  | cons kv rest ih =>
    obtain ⟨k, v⟩ := kv
    simp only [dictMerge]
    apply ih
    rcases h with h | ⟨kv', hkv', h1, h2⟩
    · exact Or.inl (dictStep_has old k v key e (Or.inl h))
    · rcases List.mem_cons.mp hkv' with rfl | hr
      · exact Or.inl (dictStep_has old k v key e (Or.inr ⟨h1, h2⟩))
      · exact Or.inr ⟨kv', hr, h1, h2⟩

theorem mem_zip_append_left {α β : Type} (a a' : List α) (b b' : List β) (x : α × β) (h : x ∈ a.zip b) :
    x ∈ (a ++ a').zip (b ++ b') := by
  induction a generalizing b with
  | nil => simp at h
  | cons y ys ih =>
    cases b with
    | nil => simp at h
    | cons z zs =>
      simp only [List.cons_append, List.zip_cons_cons, List.mem_cons] at h ⊢
      rcases h with h | h
      · exact Or.inl h
      · exact Or.inr (ih zs h)

theorem forall₂_append {α : Type} {R : α → α → Prop} {a b c d : List α}
    (h1 : List.Forall₂ R a b) (h2 : List.Forall₂ R c d) : List.Forall₂ R (a ++ c) (b ++ d) := by
  induction h1 with
  | nil => exact h2
  | cons hab _ ih => exact List.Forall₂.cons hab ih

theorem forall₂_refl {α : Type} {R : α → α → Prop} (hr : ∀ a, R a a) (l : List α) : List.Forall₂ R l l := by
  induction l with
  | nil => exact List.Forall₂.nil
  | cons a as ih => exact List.Forall₂.cons (hr a) ih

theorem forall₂_mono {α : Type} {R S : α → α → Prop} (hRS : ∀ a b, R a b → S a b) {l1 l2 : List α}
    (h : List.Forall₂ R l1 l2) : List.Forall₂ S l1 l2 := by
  induction h with
  | nil => exact List.Forall₂.nil
  | cons hab _ ih => exact List.Forall₂.cons (hRS _ _ hab) ih

theorem forall₂_trans {α : Type} {R : α → α → Prop} (htr : ∀ a b c, R a b → R b c → R a c) {l1 l2 l3 : List α}
    (h1 : List.Forall₂ R l1 l2) (h2 : List.Forall₂ R l2 l3) : List.Forall₂ R l1 l3 := by
  induction h1 generalizing l3 with
  | nil => cases h2; exact List.Forall₂.nil
  | cons hab _ ih =>
    cases h2 with
    | cons hbc h2' => exact List.Forall₂.cons (htr _ _ _ hab hbc) (ih h2')

/-- members of the universe `0..n-1` that are not masked yet -/
def free (n : Nat) (mask : List Nat) : Nat := ((List.range n).filter (fun i => !(mask.contains i))).length

theorem filter_len_le {α : Type} (p q : α → Bool) (l : List α) (hpq : ∀ x, q x = true → p x = true) :
    (l.filter q).length ≤ (l.filter p).length := by
  induction l with
  | nil => simp
  | cons a as ih =>
    by_cases hq : q a = true
    · simp [List.filter_cons, hq, hpq a hq, ih]
    · by_cases hp : p a = true
      · simp [List.filter_cons, hq, hp]; omega
      · simp [List.filter_cons, hq, hp, ih]

theorem filter_len_lt {α : Type} (p q : α → Bool) (l : List α) (hpq : ∀ x, q x = true → p x = true)
    (f : α) (hf : f ∈ l) (hpf : p f = true) (hqf : q f = false) :
    (l.filter q).length < (l.filter p).length := by
  induction l with
  | nil => simp at hf
  | cons a as ih =>
    rcases List.mem_cons.mp hf with rfl | hf'
    · have := filter_len_le p q as hpq
      simp [List.filter_cons, hpf, hqf]; omega
    · have := ih hf'
      by_cases hq : q a = true
      · simp [List.filter_cons, hq, hpq a hq]; omega
      · by_cases hp : p a = true
        · simp [List.filter_cons, hq, hp]; omega
        · simp [List.filter_cons, hq, hp]; omega

theorem free_le (n : Nat) (mask : List Nat) : free n mask ≤ n := by
  unfold free
  calc ((List.range n).filter _).length ≤ (List.range n).length := List.length_filter_le _ _
    _ = n := List.length_range

/-- adding a fresh member of the universe to the mask strictly decreases what is left -/
theorem free_lt (n : Nat) (a b : List Nat) (hsub : ∀ x ∈ a, x ∈ b) (f : Nat) (hf : f < n) (hfa : f ∉ a) (hfb : f ∈ b) :
    free n b < free n a := by
  unfold free
  apply filter_len_lt _ _ _ _ f (List.mem_range.mpr hf)
  · simp [hfa]
  · simp [hfb]
  · intro x hx
    simp only [Bool.not_eq_true', List.contains_eq_mem, decide_eq_false_iff_not] at hx ⊢
    exact fun h => hx (hsub x h)

end Lists

end MysticVerif.Clps
