/-
Helper lemmas for C12 (Model/Symbolic.lean) over an arbitrary linearly ordered field.
-/
import MysticVerif.Model.Symbolic
import Mathlib.Tactic.Linarith
import Mathlib.Tactic.Ring
import Mathlib.Tactic.FieldSimp
import Mathlib.Algebra.Order.Field.Basic

namespace MysticVerif.Sym

set_option linter.unusedSectionVars false

variable {K : Type} [Field K] [LinearOrder K] [IsStrictOrderedRing K]

/-! ### comparators -/

theorem Cmp.test_iff (c : Cmp) (a b : K) : c.test a b = true ↔ c.holds a b := by
  cases c <;> simp [Cmp.test, Cmp.holds]

theorem Cmp.holds_sub (c : Cmp) (a b : K) : c.holds a b ↔ c.holds (a - b) 0 := by
  cases c <;> simp [Cmp.holds, sub_eq_zero]

theorem Cmp.holds_div_pos (c : Cmp) (v a : K) (ha : 0 < a) : c.holds v 0 ↔ c.holds (v / a) 0 := by
  have hne : a ≠ 0 := ne_of_gt ha
  cases c <;> simp only [Cmp.holds]
  · rw [div_lt_iff₀ ha, zero_mul]
  · rw [div_le_iff₀ ha, zero_mul]
  · rw [lt_div_iff₀ ha, zero_mul]
  · rw [le_div_iff₀ ha, zero_mul]
  · rw [div_eq_zero_iff]; simp [hne]
  · rw [Ne, Ne, div_eq_zero_iff]; simp [hne]

theorem Cmp.holds_div_neg (c : Cmp) (v a : K) (ha : a < 0) : c.holds v 0 ↔ c.flip.holds (v / a) 0 := by
  have hne : a ≠ 0 := ne_of_lt ha
  cases c <;> simp only [Cmp.holds, Cmp.flip]
  · rw [lt_div_iff_of_neg ha, zero_mul]
  · rw [le_div_iff_of_neg ha, zero_mul]
  · rw [div_lt_iff_of_neg ha, zero_mul]
  · rw [div_le_iff_of_neg ha, zero_mul]
  · rw [div_eq_zero_iff]; simp [hne]
  · rw [Ne, Ne, div_eq_zero_iff]; simp [hne]

/-- the sign-case rule for a quotient -/
theorem Cmp.signcase (c : Cmp) (p q r : K) (hq : q ≠ 0) :
    c.holds (p / q) r ↔ (0 < q ∧ c.holds p (r * q)) ∨ (q < 0 ∧ c.flip.holds p (r * q)) := by
  rcases lt_or_gt_of_ne hq with h | h
  · have hn : ¬ (0 < q) := not_lt.mpr (le_of_lt h)
    cases c <;> simp only [Cmp.holds, Cmp.flip, hn, h, false_and, true_and, false_or]
    · exact div_lt_iff_of_neg h
    · exact div_le_iff_of_neg h
    · exact lt_div_iff_of_neg h
    · exact le_div_iff_of_neg h
    · exact div_eq_iff hq
    · exact not_congr (div_eq_iff hq)
  · have hn : ¬ (q < 0) := not_lt.mpr (le_of_lt h)
    cases c <;> simp only [Cmp.holds, Cmp.flip, hn, h, false_and, true_and, or_false]
    · exact div_lt_iff₀ h
    · exact div_le_iff₀ h
    · exact lt_div_iff₀ h
    · exact le_div_iff₀ h
    · exact div_eq_iff hq
    · exact not_congr (div_eq_iff hq)

theorem Cmp.eqcase (c : Cmp) (hc : c = .eq ∨ c = .ne) (p q r : K) (hq : q ≠ 0) :
    c.holds (p / q) r ↔ c.holds p (r * q) := by
  rcases hc with rfl | rfl <;> simp only [Cmp.holds]
  · exact div_eq_iff hq
  · exact not_congr (div_eq_iff hq)

/-! ### linear forms -/

theorem dot_map_neg (l : List K) (x : Nat → K) (i : Nat) : dot (l.map fun y => -y) x i = - dot l x i := by
  induction l generalizing i with
  | nil => simp [dot]
  | cons a as ih => simp only [List.map, dot, ih]; ring

theorem dot_subL (a b : List K) (x : Nat → K) (i : Nat) : dot (subL a b) x i = dot a x i - dot b x i := by
  induction a generalizing b i with
  | nil => simp [subL, dot, dot_map_neg]
  | cons u us ih =>
    cases b with
    | nil => simp [subL, dot]
    | cons v vs => simp only [subL, dot, ih]; ring

theorem dot_addL (a b : List K) (x : Nat → K) (i : Nat) : dot (addL a b) x i = dot a x i + dot b x i := by
  induction a generalizing b i with
  | nil => simp [addL, dot]
  | cons u us ih =>
    cases b with
    | nil => simp [addL, dot]
    | cons v vs => simp only [addL, dot, ih]; ring

theorem dot_map_mul (a : K) (l : List K) (x : Nat → K) (i : Nat) :
    dot (l.map fun t => a * t) x i = a * dot l x i := by
  induction l generalizing i with
  | nil => simp [dot]
  | cons u us ih => simp only [List.map, dot, ih]; ring

theorem dot_map_div (a : K) (l : List K) (x : Nat → K) (i : Nat) :
    dot (l.map fun t => t / a) x i = dot l x i / a := by
  induction l generalizing i with
  | nil => simp [dot]
  | cons u us ih => simp only [List.map, dot, ih]; ring

theorem dot_stripZ (l : List K) (x : Nat → K) (i : Nat) : dot (stripZ l) x i = dot l x i := by
  induction l generalizing i with
  | nil => simp [stripZ]
  | cons a as ih =>
    simp only [stripZ]
    split
    · rename_i h
      have h0 : dot as x (i + 1) = 0 := by rw [← ih, h]; simp [dot]
      split
      · rename_i ha; simp [dot, ha, h0]
      · simp [dot, h0]
    · rename_i t ts h
      simp only [dot]
      have := ih (i + 1)
      rw [h] at this
      simp only [dot] at this
      rw [this]

theorem lead_none (l : List K) (h : lead l = none) (x : Nat → K) (i : Nat) : dot l x i = 0 := by
  induction l generalizing i with
  | nil => simp [dot]
  | cons a as ih =>
    simp only [lead] at h
    split at h
    · rename_i ha; simp [dot, ha, ih h]
    · simp at h

theorem lead_some (l : List K) (a : K) (h : lead l = some a) : a ≠ 0 := by
  induction l with
  | nil => simp [lead] at h
  | cons u us ih =>
    simp only [lead] at h
    split at h
    · exact ih h
    · rename_i hu; simp only [Option.some.injEq] at h; rw [← h]; exact hu

theorem Form.eval_sub (f g : Form K) (x : Nat → K) : (f.sub g).eval x = f.eval x - g.eval x := by
  simp only [Form.eval, Form.sub, dot_subL]; ring

theorem Form.eval_add (f g : Form K) (x : Nat → K) : (f.add g).eval x = f.eval x + g.eval x := by
  simp only [Form.eval, Form.add, dot_addL]; ring

theorem Form.eval_smul (a : K) (f : Form K) (x : Nat → K) : (f.smul a).eval x = a * f.eval x := by
  simp only [Form.eval, Form.smul, dot_map_mul]; ring

theorem Form.eval_zero (x : Nat → K) : (Form.zero : Form K).eval x = 0 := by
  simp [Form.eval, Form.zero, dot]

theorem Form.eval_const (v : K) (x : Nat → K) : (Form.const v).eval x = v := by
  simp [Form.eval, Form.const, dot]

/-! ### canonical lines -/

theorem falsum_not_sat (x : Nat → K) : ¬ (falsum : CLine K).sat x := by
  simp only [falsum, CLine.sat, Cmp.holds, dot, zero_add]
  exact not_lt.mpr zero_le_one

theorem normLine_sound (ln : Line K) (x : Nat → K) :
    (∀ c ∈ normLine ln, c.sat x) ↔ ln.sat x := by
  have hp : dot (stripZ (ln.l.sub ln.r).co) x 0 + (ln.l.sub ln.r).c = ln.l.eval x - ln.r.eval x := by
    rw [dot_stripZ, ← Form.eval_sub]; rfl
  unfold normLine
  simp only
  rw [Line.sat, Cmp.holds_sub, ← hp]
  split
  · rename_i h
    rw [lead_none _ h, zero_add]
    split
    · rename_i ht; simp [(Cmp.test_iff _ _ _).mp ht]
    · rename_i ht
      have : ¬ ln.cmp.holds (ln.l.sub ln.r).c 0 := fun hh => ht ((Cmp.test_iff _ _ _).mpr hh)
      simp [this, falsum_not_sat]
  · rename_i a h
    have ha := lead_some _ a h
    simp only [List.mem_singleton, forall_eq, CLine.sat]
    rw [dot_map_div, ← add_div]
    rcases lt_or_gt_of_ne ha with hneg | hpos
    · rw [if_neg (not_lt.mpr (le_of_lt hneg))]
      exact (Cmp.holds_div_neg _ _ _ hneg).symm
    · rw [if_pos hpos]
      exact (Cmp.holds_div_pos _ _ _ hpos).symm

theorem splitEq_sound (l : CLine K) (x : Nat → K) : (∀ c ∈ splitEq l, c.sat x) ↔ l.sat x := by
  unfold splitEq
  split
  · rename_i h
    simp only [List.mem_cons, List.mem_nil_iff, or_false, forall_eq_or_imp, forall_eq, CLine.sat, h, Cmp.holds]
    constructor
    · rintro ⟨h1, h2⟩; exact le_antisymm h2 h1
    · intro h; exact ⟨le_of_eq h.symm, le_of_eq h⟩
  · simp

theorem canonLine_sat (ln : Line K) (x : Nat → K) : (∀ c ∈ canonLine ln, c.sat x) ↔ ln.sat x := by
  rw [← normLine_sound]
  unfold canonLine
  simp only [List.mem_flatMap]
  constructor
  · intro h l hl; exact (splitEq_sound l x).mp fun c hc => h c ⟨l, hl, hc⟩
  · rintro h c ⟨l, hl, hc⟩; exact (splitEq_sound l x).mpr (h l hl) c hc

theorem canonSys_sat (s : List (Line K)) (x : Nat → K) :
    (∀ c ∈ canonSys s, c.sat x) ↔ ∀ ln ∈ s, ln.sat x := by
  unfold canonSys
  simp only [List.mem_flatMap]
  constructor
  · intro h ln hln; exact (canonLine_sat ln x).mp fun c hc => h c ⟨ln, hln, hc⟩
  · rintro h c ⟨ln, hln, hc⟩; exact (canonLine_sat ln x).mpr (h ln hln) c hc

/-! ### sets of canonical lines -/

theorem subsetL_mem {α : Type} [DecidableEq α] {a b : List α} (h : subsetL a b = true) :
    ∀ c ∈ a, c ∈ b := by
  simpa [subsetL, List.all_eq_true] using h

theorem sameSet_mem {α : Type} [DecidableEq α] {a b : List α} (h : sameSet a b = true) :
    ∀ c, c ∈ a ↔ c ∈ b := by
  simp only [sameSet, Bool.and_eq_true] at h
  exact fun c => ⟨subsetL_mem h.1 c, subsetL_mem h.2 c⟩

theorem contra_sound {c1 c2 : Cmp} (h : contra c1 c2 = true) (v : K) : ¬ (c1.holds v 0 ∧ c2.holds v 0) := by
  cases c1 <;> cases c2 <;> simp only [contra, Bool.false_eq_true] at h <;>
    simp only [Cmp.holds] <;> intro ⟨h1, h2⟩ <;>
    first | exact absurd h1 (not_lt.mpr (le_of_lt h2)) | exact absurd h1 (not_lt.mpr h2) | exact absurd h2 (not_lt.mpr h1)

theorem emptyCase_sound {s : List (CLine K)} (h : emptyCase s = true) (x : Nat → K) :
    ¬ ∀ c ∈ s, c.sat x := by
  intro hall
  simp only [emptyCase, List.any_eq_true, Bool.or_eq_true, decide_eq_true_eq, Bool.and_eq_true] at h
  obtain ⟨a, ha, h⟩ := h
  rcases h with h | ⟨b, hb, ⟨hco, hc⟩, hcon⟩
  · exact falsum_not_sat x (h ▸ hall a ha)
  · have h1 := hall a ha
    have h2 := hall b hb
    simp only [CLine.sat] at h1 h2
    rw [← hco, ← hc] at h2
    exact contra_sound hcon _ ⟨h1, h2⟩

theorem covered_sound {A B : List (List (CLine K))} (h : covered A B = true) (x : Nat → K) :
    (∃ a ∈ A, ∀ c ∈ a, c.sat x) → ∃ b ∈ B, ∀ c ∈ b, c.sat x := by
  rintro ⟨a, ha, hs⟩
  simp only [covered, List.all_eq_true, Bool.or_eq_true, List.any_eq_true] at h
  rcases h a ha with he | ⟨b, hb, hsame⟩
  · exact absurd hs (emptyCase_sound he x)
  · exact ⟨b, hb, fun c hc => hs c ((sameSet_mem hsame c).mpr hc)⟩

theorem dnfEquiv_sound {A B : List (List (CLine K))} (h : dnfEquiv A B = true) (x : Nat → K) :
    (∃ a ∈ A, ∀ c ∈ a, c.sat x) ↔ ∃ b ∈ B, ∀ c ∈ b, c.sat x := by
  simp only [dnfEquiv, Bool.and_eq_true] at h
  exact ⟨covered_sound h.1 x, covered_sound h.2 x⟩

/-! ### sign-case expansion -/

theorem expandItem_sound (it : Item K) (x : Nat → K) :
    it.sat x ↔ ∃ s ∈ expandItem it, ∀ ln ∈ s, ln.sat x := by
  cases it with
  | lin ln => simp [expandItem, Item.sat]
  | rat p q cmp r =>
    simp only [expandItem, Item.sat]
    split
    · rename_i hc
      simp only [exists_eq_left, List.mem_cons, List.mem_nil_iff, or_false,
        forall_eq_or_imp, forall_eq, Line.sat, Form.eval_zero, Form.eval_smul]
      constructor
      · rintro ⟨hq, hh⟩; exact ⟨hq, (Cmp.eqcase cmp hc _ _ _ hq).mp hh⟩
      · rintro ⟨hq, hh⟩
        have hq' : q.eval x ≠ 0 := hq
        exact ⟨hq', (Cmp.eqcase cmp hc _ _ _ hq').mpr hh⟩
    · simp only [List.mem_cons, List.mem_nil_iff, or_false, exists_eq_or_imp, exists_eq_left,
        forall_eq_or_imp, forall_eq, Line.sat, Form.eval_zero, Form.eval_smul, Cmp.holds]
      constructor
      · rintro ⟨hq, hh⟩; exact (Cmp.signcase cmp _ _ _ hq).mp hh
      · intro h
        have hq : q.eval x ≠ 0 := by
          rcases h with ⟨h, _⟩ | ⟨h, _⟩
          · exact ne_of_gt h
          · exact ne_of_lt h
        exact ⟨hq, (Cmp.signcase cmp _ _ _ hq).mpr h⟩

theorem expand_sound (items : List (Item K)) (x : Nat → K) :
    (∀ it ∈ items, it.sat x) ↔ ∃ s ∈ expand items, ∀ ln ∈ s, ln.sat x := by
  induction items with
  | nil => simp [expand]
  | cons it rest ih =>
    simp only [List.mem_cons, forall_eq_or_imp, expand, List.mem_flatMap, List.mem_map]
    rw [ih, expandItem_sound]
    constructor
    · rintro ⟨⟨a, ha, hsa⟩, ⟨s, hs, hss⟩⟩
      refine ⟨a ++ s, ⟨a, ha, s, hs, rfl⟩, ?_⟩
      intro ln hln
      rcases List.mem_append.mp hln with h | h
      · exact hsa ln h
      · exact hss ln h
    · rintro ⟨t, ⟨a, ha, s, hs, rfl⟩, ht⟩
      exact ⟨⟨a, ha, fun ln h => ht ln (List.mem_append.mpr (Or.inl h))⟩,
             ⟨s, hs, fun ln h => ht ln (List.mem_append.mpr (Or.inr h))⟩⟩

/-! ### certificates -/

theorem lincomb_zero (row : List K) (fs : List (Form K)) (x : Nat → K) (h : ∀ f ∈ fs, f.eval x = 0) :
    (lincomb row fs).eval x = 0 := by
  induction row generalizing fs with
  | nil => simp [lincomb, Form.eval_zero]
  | cons a as ih =>
    cases fs with
    | nil => simp [lincomb, Form.eval_zero]
    | cons f fs =>
      simp only [lincomb, Form.eval_add, Form.eval_smul]
      rw [h f (by simp), ih fs (fun g hg => h g (by simp [hg]))]
      ring

theorem formEq_eval {f g : Form K} (h : formEq f g = true) (x : Nat → K) : f.eval x = g.eval x := by
  simp only [formEq, Bool.and_eq_true, decide_eq_true_eq] at h
  simp only [Form.eval]
  rw [← dot_stripZ f.co, ← dot_stripZ g.co, h.1, h.2]

theorem combOK_sound (rows : List (List K)) (fs gs : List (Form K)) (h : combOK rows fs gs = true)
    (x : Nat → K) (hz : ∀ f ∈ fs, f.eval x = 0) : ∀ g ∈ gs, g.eval x = 0 := by
  induction rows generalizing gs with
  | nil =>
    cases gs with
    | nil => simp
    | cons g gs => simp [combOK] at h
  | cons row rows ih =>
    cases gs with
    | nil => simp
    | cons g gs =>
      simp only [combOK, Bool.and_eq_true] at h
      intro g' hg'
      rcases List.mem_cons.mp hg' with rfl | hg'
      · rw [← formEq_eval h.1 x]; exact lincomb_zero row fs x hz
      · exact ih gs h.2 g' hg'

theorem eqForms_sat (s : List (Line K)) (fs : List (Form K)) (h : eqForms s = some fs) (x : Nat → K) :
    (∀ ln ∈ s, ln.sat x) ↔ ∀ f ∈ fs, f.eval x = 0 := by
  induction s generalizing fs with
  | nil => simp only [eqForms, Option.some.injEq] at h; subst h; simp
  | cons ln rest ih =>
    simp only [eqForms] at h
    split at h
    · rename_i f fs' hf hfs
      simp only [Option.some.injEq] at h; subst h
      simp only [List.mem_cons, forall_eq_or_imp, ih fs' hfs]
      have : ln.sat x ↔ f.eval x = 0 := by
        simp only [eqForm] at hf
        split at hf
        · rename_i hc
          simp only [Option.some.injEq] at hf; subst hf
          rw [Line.sat, Cmp.holds_sub, hc, Form.eval_sub]; rfl
        · simp at hf
      rw [this]
    · simp at h

/-! ### matrix rows and bound rows -/

theorem eqRows_sat (A : List (List K)) (b : List K) (x : Nat → K) :
    (∀ ln ∈ eqRows A b, ln.sat x) ↔ ∀ p ∈ A.zip b, dot p.1 x 0 = p.2 := by
  induction A generalizing b with
  | nil => simp [eqRows]
  | cons row rows ih =>
    cases b with
    | nil => simp [eqRows]
    | cons v vs =>
      simp only [eqRows, List.zip_cons_cons, List.mem_cons, forall_eq_or_imp, ih vs]
      simp [Line.sat, Cmp.holds, Form.eval, Form.const, dot]

theorem leRows_sat (G : List (List K)) (h : List K) (x : Nat → K) :
    (∀ ln ∈ leRows G h, ln.sat x) ↔ ∀ p ∈ G.zip h, dot p.1 x 0 ≤ p.2 := by
  induction G generalizing h with
  | nil => simp [leRows]
  | cons row rows ih =>
    cases h with
    | nil => simp [leRows]
    | cons v vs =>
      simp only [leRows, List.zip_cons_cons, List.mem_cons, forall_eq_or_imp, ih vs]
      simp [Line.sat, Cmp.holds, Form.eval, Form.const, dot]

theorem dot_unit (i k : Nat) (x : Nat → K) : dot (List.replicate i (0 : K) ++ [1]) x k = x (k + i) := by
  induction i generalizing k with
  | zero => simp [dot]
  | succ i ih =>
    simp only [List.replicate_succ, List.cons_append, dot, ih]
    rw [show k + 1 + i = k + (i + 1) by omega]; ring

theorem loRows_sat (k : Nat) (lo : List (Option K)) (x : Nat → K) :
    (∀ ln ∈ loRows k lo, ln.sat x) ↔ ∀ j v, lo[j]? = some (some v) → v ≤ x (k + j) := by
  induction lo generalizing k with
  | nil => simp [loRows]
  | cons o rest ih =>
    have step : (∀ j v, (o :: rest)[j]? = some (some v) → v ≤ x (k + j)) ↔
        (∀ v, o = some v → v ≤ x k) ∧ ∀ j v, rest[j]? = some (some v) → v ≤ x (k + 1 + j) := by
      constructor
      · intro h
        refine ⟨fun v hv => by simpa [hv] using h 0 v, fun j v hv => ?_⟩
        have := h (j + 1) v (by simpa using hv)
        rwa [show k + (j + 1) = k + 1 + j by omega] at this
      · rintro ⟨h0, hr⟩ j v hv
        cases j with
        | zero => simp only [List.getElem?_cons_zero, Option.some.injEq] at hv; simpa using h0 v hv
        | succ j =>
          have := hr j v (by simpa using hv)
          rwa [show k + 1 + j = k + (j + 1) by omega] at this
    rw [step]
    cases o with
    | none => simp only [loRows, ih]; simp
    | some w =>
      simp only [loRows, List.mem_cons, forall_eq_or_imp, ih]
      simp [Line.sat, Cmp.holds, Form.eval, Form.const, unitForm, dot, dot_unit]

theorem hiRows_sat (k : Nat) (hi : List (Option K)) (x : Nat → K) :
    (∀ ln ∈ hiRows k hi, ln.sat x) ↔ ∀ j v, hi[j]? = some (some v) → x (k + j) ≤ v := by
  induction hi generalizing k with
  | nil => simp [hiRows]
  | cons o rest ih =>
    have step : (∀ j v, (o :: rest)[j]? = some (some v) → x (k + j) ≤ v) ↔
        (∀ v, o = some v → x k ≤ v) ∧ ∀ j v, rest[j]? = some (some v) → x (k + 1 + j) ≤ v := by
      constructor
      · intro h
        refine ⟨fun v hv => by simpa [hv] using h 0 v, fun j v hv => ?_⟩
        have := h (j + 1) v (by simpa using hv)
        rwa [show k + (j + 1) = k + 1 + j by omega] at this
      · rintro ⟨h0, hr⟩ j v hv
        cases j with
        | zero => simp only [List.getElem?_cons_zero, Option.some.injEq] at hv; simpa using h0 v hv
        | succ j =>
          have := hr j v (by simpa using hv)
          rwa [show k + 1 + j = k + (j + 1) by omega] at this
    rw [step]
    cases o with
    | none => simp only [hiRows, ih]; simp
    | some w =>
      simp only [hiRows, List.mem_cons, forall_eq_or_imp, ih]
      simp [Line.sat, Cmp.holds, Form.eval, Form.const, unitForm, dot, dot_unit]

/-! ### `merge` on abstract text lines -/

/-- a valuation gives every line text its two sides' values at the point under consideration -/
def TLine.holds {E : Type} (v : E → K × K) (l : TLine E) : Prop := l.cmp.holds (v l.e).1 (v l.e).2

theorem mem_dedup {α : Type} [DecidableEq α] (a : α) (l : List α) : a ∈ dedup l ↔ a ∈ l := by
  induction l with
  | nil => simp [dedup]
  | cons b bs ih =>
    simp only [dedup]
    split
    · rename_i h
      rw [ih]
      constructor
      · exact fun h' => List.mem_cons_of_mem _ h'
      · intro h'
        rcases List.mem_cons.mp h' with rfl | h'
        · exact h
        · exact h'
    · simp [ih]

/-- first pass of `merge(inclusive=False)` -/
def exclStep {E : Type} [DecidableEq E] (eqs : List (TLine E)) (i : TLine E) : TLine E :=
  if i.cmp.isWeak = true ∧ i.flip ∈ eqs then ⟨i.e, .eq⟩ else i

theorem exclStep_iff {E : Type} [DecidableEq E] (v : E → K × K) (eqs : List (TLine E)) :
    (∀ i ∈ eqs, i.holds v) ↔ ∀ i ∈ eqs, (exclStep eqs i).holds v := by
  constructor
  · intro h i hi
    unfold exclStep
    split
    · rename_i hc
      have h1 := h i hi
      have h2 := h _ hc.2
      obtain ⟨e, c⟩ := i
      cases c <;> simp [Cmp.isWeak] at hc <;>
        simp only [TLine.holds, TLine.flip, Cmp.flip, Cmp.holds] at h1 h2 ⊢ <;> exact le_antisymm (by assumption) (by assumption)
    · exact h i hi
  · intro h i hi
    have := h i hi
    unfold exclStep at this
    split at this
    · rename_i hc
      obtain ⟨e, c⟩ := i
      cases c <;> simp [Cmp.isWeak] at hc <;>
        simp only [TLine.holds, Cmp.holds] at this ⊢ <;> first | exact le_of_eq this | exact le_of_eq this.symm
    · exact this

theorem mem_exclStep_of_ne_eq {E : Type} [DecidableEq E] {eqs : List (TLine E)} {l : TLine E}
    (hl : l ∈ eqs.map (exclStep eqs)) (hne : l.cmp ≠ .eq) :
    l ∈ eqs ∧ ¬ (l.cmp.isWeak = true ∧ l.flip ∈ eqs) := by
  obtain ⟨j, hj, rfl⟩ := List.mem_map.mp hl
  unfold exclStep at hne ⊢
  split
  · rename_i hc; rw [if_pos hc] at hne; exact absurd rfl hne
  · rename_i hc; exact ⟨hj, hc⟩

theorem mergeExcl_some {E : Type} [DecidableEq E] (v : E → K × K) (eqs out : List (TLine E))
    (h : mergeExcl eqs = some out) : (∀ l ∈ eqs, l.holds v) ↔ ∀ l ∈ out, l.holds v := by
  unfold mergeExcl at h
  simp only at h
  split at h
  · simp at h
  · simp only [Option.some.injEq] at h
    subst h
    rw [exclStep_iff v eqs]
    simp only [mem_dedup]
    constructor
    · intro hh l hl
      obtain ⟨j, hj, rfl⟩ := List.mem_map.mp hl
      exact hh j hj
    · intro hh i hi
      exact hh _ (List.mem_map.mpr ⟨i, hi, rfl⟩)

theorem mergeExcl_none {E : Type} [DecidableEq E] (v : E → K × K) (eqs : List (TLine E))
    (h : mergeExcl eqs = none) : ¬ ∀ l ∈ eqs, l.holds v := by
  intro hall
  unfold mergeExcl at h
  simp only at h
  split at h
  · rename_i hany
    have hs1 : ∀ l ∈ eqs.map (exclStep eqs), l.holds v := by
      intro l hl
      obtain ⟨j, hj, rfl⟩ := List.mem_map.mp hl
      exact (exclStep_iff v eqs).mp hall j hj
    simp only [List.any_eq_true, Bool.and_eq_true, Bool.or_eq_true, decide_eq_true_eq] at hany
    obtain ⟨i, hi, hineq, hf⟩ := hany
    have hi' : i ∈ eqs.map (exclStep eqs) := hi
    have h1 := hs1 i hi'
    rcases hf with hf | hf
    · have hf' : i.flip ∈ eqs.map (exclStep eqs) := hf
      have h2 := hs1 _ hf'
      obtain ⟨e, c⟩ := i
      cases c <;> simp [Cmp.isIneq] at hineq
      · simp only [TLine.holds, TLine.flip, Cmp.flip, Cmp.holds] at h1 h2
        exact absurd h1 (not_lt.mpr (le_of_lt h2))
      · -- (e, <=) and (e, >=) cannot both survive the first pass
        have a := mem_exclStep_of_ne_eq hi' (by simp)
        have b := mem_exclStep_of_ne_eq hf' (by simp [TLine.flip, Cmp.flip])
        exact a.2 ⟨by simp [Cmp.isWeak], b.1⟩
      · simp only [TLine.holds, TLine.flip, Cmp.flip, Cmp.holds] at h1 h2
        exact absurd h1 (not_lt.mpr (le_of_lt h2))
      · have a := mem_exclStep_of_ne_eq hi' (by simp)
        have b := mem_exclStep_of_ne_eq hf' (by simp [TLine.flip, Cmp.flip])
        exact a.2 ⟨by simp [Cmp.isWeak], b.1⟩
    · have hf' : i.flipB ∈ eqs.map (exclStep eqs) := hf
      have h2 := hs1 _ hf'
      obtain ⟨e, c⟩ := i
      cases c <;> simp [Cmp.isIneq] at hineq <;>
        simp only [TLine.holds, TLine.flipB, Cmp.flipB, Cmp.holds] at h1 h2
      · exact absurd h1 (not_lt.mpr h2)
      · exact absurd h2 (not_lt.mpr h1)
      · exact absurd h1 (not_lt.mpr h2)
      · exact absurd h2 (not_lt.mpr h1)
  · simp at h

/-- `merge(inclusive=True)` only weakens a conjunction -/
theorem mergeIncl_weakens {E : Type} [DecidableEq E] (v : E → K × K) (eqs : List (TLine E))
    (hall : ∀ l ∈ eqs, l.holds v) : ∀ l ∈ mergeIncl eqs, l.holds v := by
  intro l hl
  unfold mergeIncl at hl
  simp only [mem_dedup, List.mem_filter, List.mem_map] at hl
  obtain ⟨⟨i, hi, rfl⟩, _⟩ := hl
  have h1 := hall i hi
  split
  · rename_i hc
    obtain ⟨e, c⟩ := i
    cases c <;> simp [Cmp.isStrict] at hc <;> simp only [TLine.holds, Cmp.holds] at h1 ⊢
    · exact ne_of_lt h1
    · exact ne_of_gt h1
  · exact h1

end MysticVerif.Sym
