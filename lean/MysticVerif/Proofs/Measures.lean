/-
Helper lemmas for C18: the model functions of Model/Measures.lean, instantiated at a linearly ordered
field, equal the textbook (weighted) sums; algebra of weighted means under affine maps.
-/
import MysticVerif.Model.Measures
import Mathlib.Tactic.Linarith
import Mathlib.Tactic.Ring
import Mathlib.Tactic.FieldSimp
import Mathlib.Algebra.Order.Field.Basic
import Mathlib.Algebra.BigOperators.Group.List.Basic
import Mathlib.Algebra.Order.Ring.Abs

set_option linter.unusedSectionVars false

namespace MysticVerif.Meas
variable {K : Type} [Field K] [LinearOrder K] [IsStrictOrderedRing K]

/-! ### textbook quantities -/

/-- `∑ xᵢ wᵢ` -/
def wsum (xs ws : List K) : K := (List.zipWith (· * ·) xs ws).sum

/-- textbook mean: `(∑ xᵢ)/n` without weights, `(∑ xᵢ wᵢ)/(∑ wᵢ)` with weights -/
def gmean (xs : List K) : Option (List K) → K
  | none => xs.sum / (xs.length : K)
  | some w => wsum xs w / w.sum

/-- textbook central moment of order `n` -/
def gmom (xs : List K) (ws : Option (List K)) (n : Nat) : K :=
  gmean (xs.map fun x => (x - gmean xs ws) ^ n) ws

/-- the inputs for which the (weighted) statistics are defined -/
def Valid (xs : List K) : Option (List K) → Prop
  | none => xs ≠ []
  | some w => xs.length = w.length ∧ w.sum ≠ 0

/-! ### model primitives in a field -/

theorem foldl_add (a : K) (l : List K) : l.foldl (· + ·) a = a + l.sum := by
  induction l generalizing a with
  | nil => simp
  | cons x xs ih => simp [ih, add_assoc]

theorem lsum_eq (l : List K) : lsum l = l.sum := by
  unfold lsum; rw [foldl_add]; simp

theorem truthy_iff (x : K) : truthy x = true ↔ x ≠ 0 := by
  unfold truthy; simp

theorem truthy_false_iff (x : K) : ¬ (truthy x = true) ↔ x = 0 := by
  rw [truthy_iff]; simp

theorem absR_eq (x : K) : absR x = |x| := by
  unfold absR
  split
  · rename_i h; rw [abs_of_neg h]
  · rename_i h; rw [abs_of_nonneg (not_lt.mp h)]

theorem powN_eq (x : K) (n : Nat) : powN x n = x ^ n := by
  induction n with
  | zero => simp [powN]
  | succ n ih => simp [powN, ih, pow_succ]

/-- with `tol = 0` the cut `0.0 if abs(s) <= tol else s` is the identity -/
theorem cut_zero (s : K) : (if absR s ≤ 0 then 0 else s) = s := by
  split
  · rename_i h0
    rw [absR_eq] at h0
    exact (abs_nonpos_iff.mp h0).symm
  · rfl

theorem mean_weighted (C : Consts K) (xs ws : List K) (h : ws.sum ≠ 0) :
    mean C xs (some ws) 0 = wsum xs ws / ws.sum := by
  unfold mean wsum
  simp only [lsum_eq]
  rw [if_pos ((truthy_iff _).mpr h), cut_zero]

theorem mean_plain (C : Consts K) (xs : List K) :
    mean C xs none 0 = xs.sum / (xs.length : K) := by
  unfold mean
  simp only [lsum_eq]
  rw [if_pos ((truthy_iff _).mpr one_ne_zero), cut_zero, div_one]

theorem mean_eq (C : Consts K) (xs : List K) (ws : Option (List K)) (h : Valid xs ws) :
    mean C xs ws 0 = gmean xs ws := by
  cases ws with
  | none => exact mean_plain C xs
  | some w => exact mean_weighted C xs w h.2

theorem Valid.map {xs : List K} {ws : Option (List K)} (h : Valid xs ws) (f : K → K) : Valid (xs.map f) ws := by
  cases ws with
  | none => simpa [Valid] using h
  | some w => simpa [Valid] using h

theorem moment_eq (C : Consts K) (xs : List K) (ws : Option (List K)) (n : Nat) (h : Valid xs ws) (hn : 2 ≤ n) :
    moment C xs ws n 0 = gmom xs ws n := by
  unfold moment gmom
  rw [if_neg (by omega), if_neg (by omega), mean_eq C _ ws (h.map _), mean_eq C xs ws h]
  simp only [powN_eq]

/-! ### sums under affine maps -/

theorem sum_map_add_const (xs : List K) (c : K) : (xs.map (· + c)).sum = xs.sum + (xs.length : K) * c := by
  induction xs with
  | nil => simp
  | cons x xs ih => simp [ih]; ring

theorem sum_map_mul_left (xs : List K) (f : K → K) (a : K) : (xs.map fun x => a * f x).sum = a * (xs.map f).sum := by
  induction xs with
  | nil => simp
  | cons x xs ih => simp [ih]; ring

theorem sum_map_div_right (xs : List K) (a : K) : (xs.map (· / a)).sum = xs.sum / a := by
  induction xs with
  | nil => simp
  | cons x xs ih => simp [ih]; ring

theorem wsum_map_add_const (xs ws : List K) (c : K) (h : xs.length = ws.length) :
    wsum (xs.map (· + c)) ws = wsum xs ws + c * ws.sum := by
  unfold wsum
  induction xs generalizing ws with
  | nil => cases ws with
    | nil => simp
    | cons w ws => simp at h
  | cons x xs ih => cases ws with
    | nil => simp at h
    | cons w ws =>
      simp only [List.length_cons, Nat.add_right_cancel_iff] at h
      simp only [List.map_cons, List.zipWith_cons_cons, List.sum_cons, ih ws h]; ring

theorem wsum_map_mul_left (xs ws : List K) (f : K → K) (a : K) :
    wsum (xs.map fun x => a * f x) ws = a * wsum (xs.map f) ws := by
  unfold wsum
  induction xs generalizing ws with
  | nil => simp
  | cons x xs ih => cases ws with
    | nil => simp
    | cons w ws => simp only [List.map_cons, List.zipWith_cons_cons, List.sum_cons, ih ws]; ring

theorem gmean_map_add_const (xs : List K) (ws : Option (List K)) (c : K) (h : Valid xs ws) :
    gmean (xs.map (· + c)) ws = gmean xs ws + c := by
  cases ws with
  | none =>
    have hl : (xs.length : K) ≠ 0 := by
      have : xs.length ≠ 0 := by simpa [Valid] using h
      exact_mod_cast this
    simp only [gmean, sum_map_add_const, List.length_map]
    field_simp
  | some w =>
    have hw : w.sum ≠ 0 := h.2
    simp only [gmean, wsum_map_add_const xs w c h.1]
    field_simp

theorem gmean_map_mul_left (xs : List K) (ws : Option (List K)) (f : K → K) (a : K) :
    gmean (xs.map fun x => a * f x) ws = a * gmean (xs.map f) ws := by
  cases ws with
  | none => simp only [gmean, sum_map_mul_left, List.length_map]; ring
  | some w => simp only [gmean, wsum_map_mul_left]; ring

theorem gmean_map_mul_const (xs : List K) (ws : Option (List K)) (s : K) :
    gmean (xs.map (· * s)) ws = gmean xs ws * s := by
  have := gmean_map_mul_left xs ws (fun x => x) s
  rw [List.map_id'] at this
  have e : (xs.map (· * s)) = xs.map (fun x => s * x) := by
    apply List.map_congr_left; intro x _; ring
  rw [e, this]; ring

theorem gmom_map_add_const (xs : List K) (ws : Option (List K)) (c : K) (n : Nat) (h : Valid xs ws) :
    gmom (xs.map (· + c)) ws n = gmom xs ws n := by
  unfold gmom
  rw [gmean_map_add_const xs ws c h, List.map_map]
  congr 1
  apply List.map_congr_left; intro x _
  simp only [Function.comp]; ring

theorem gmom_map_mul_const (xs : List K) (ws : Option (List K)) (s : K) (n : Nat) :
    gmom (xs.map (· * s)) ws n = s ^ n * gmom xs ws n := by
  unfold gmom
  rw [gmean_map_mul_const, List.map_map, ← gmean_map_mul_left]
  congr 1
  apply List.map_congr_left; intro x _
  simp only [Function.comp]
  rw [← mul_pow]; congr 1; ring

/-! ### builtin `max` / `min` and `spread` -/

theorem pymaxFrom_eq (m : K) (l : List K) : pymaxFrom m l = l.foldl max m := by
  induction l generalizing m with
  | nil => rfl
  | cons x xs ih =>
    simp only [pymaxFrom, List.foldl_cons, ih]
    congr 1
    split
    · rename_i h; exact (max_eq_right (le_of_lt h)).symm
    · rename_i h; exact (max_eq_left (not_lt.mp h)).symm

theorem pyminFrom_eq (m : K) (l : List K) : pyminFrom m l = l.foldl min m := by
  induction l generalizing m with
  | nil => rfl
  | cons x xs ih =>
    simp only [pyminFrom, List.foldl_cons, ih]
    congr 1
    split
    · rename_i h; exact (min_eq_right (le_of_lt h)).symm
    · rename_i h; exact (min_eq_left (not_lt.mp h)).symm

theorem foldl_max_map {f : K → K} (hf : Monotone f) (m : K) (l : List K) :
    (l.map f).foldl max (f m) = f (l.foldl max m) := by
  induction l generalizing m with
  | nil => rfl
  | cons x xs ih => simp only [List.map_cons, List.foldl_cons, ← hf.map_max, ih]

theorem foldl_min_map {f : K → K} (hf : Monotone f) (m : K) (l : List K) :
    (l.map f).foldl min (f m) = f (l.foldl min m) := by
  induction l generalizing m with
  | nil => rfl
  | cons x xs ih => simp only [List.map_cons, List.foldl_cons, ← hf.map_min, ih]

theorem foldl_max_ge (m : K) (l : List K) : m ≤ l.foldl max m ∧ ∀ x ∈ l, x ≤ l.foldl max m := by
  induction l generalizing m with
  | nil => simp
  | cons y ys ih =>
    simp only [List.foldl_cons, List.mem_cons]
    have h := ih (max m y)
    refine ⟨le_trans (le_max_left _ _) h.1, ?_⟩
    rintro x (rfl | hx)
    · exact le_trans (le_max_right _ _) h.1
    · exact h.2 x hx

theorem foldl_max_mem (m : K) (l : List K) : l.foldl max m = m ∨ l.foldl max m ∈ l := by
  induction l generalizing m with
  | nil => simp
  | cons y ys ih =>
    simp only [List.foldl_cons, List.mem_cons]
    rcases ih (max m y) with h | h
    · rw [h]; rcases max_choice m y with h2 | h2 <;> simp [h2]
    · exact Or.inr (Or.inr h)

theorem foldl_min_le (m : K) (l : List K) : l.foldl min m ≤ m ∧ ∀ x ∈ l, l.foldl min m ≤ x := by
  induction l generalizing m with
  | nil => simp
  | cons y ys ih =>
    simp only [List.foldl_cons, List.mem_cons]
    have h := ih (min m y)
    refine ⟨le_trans h.1 (min_le_left _ _), ?_⟩
    rintro x (rfl | hx)
    · exact le_trans h.1 (min_le_right _ _)
    · exact h.2 x hx

theorem foldl_min_mem (m : K) (l : List K) : l.foldl min m = m ∨ l.foldl min m ∈ l := by
  induction l generalizing m with
  | nil => simp
  | cons y ys ih =>
    simp only [List.foldl_cons, List.mem_cons]
    rcases ih (min m y) with h | h
    · rw [h]; rcases min_choice m y with h2 | h2 <;> simp [h2]
    · exact Or.inr (Or.inr h)

theorem spread_map_add_const (xs : List K) (c : K) : spread (xs.map (· + c)) = spread xs := by
  cases xs with
  | nil => rfl
  | cons x xs =>
    have hm : Monotone (fun t : K => t + c) := fun a b h => add_le_add_left h c
    simp only [List.map_cons, spread, pymaxFrom_eq, pyminFrom_eq]
    rw [foldl_max_map hm, foldl_min_map hm]; ring

theorem spread_map_mul_const (xs : List K) (s : K) (hs : 0 ≤ s) : spread (xs.map (· * s)) = spread xs * s := by
  cases xs with
  | nil => simp [spread]
  | cons x xs =>
    have hm : Monotone (fun t : K => t * s) := fun a b h => mul_le_mul_of_nonneg_right h hs
    simp only [List.map_cons, spread, pymaxFrom_eq, pyminFrom_eq]
    rw [foldl_max_map hm, foldl_min_map hm]; ring

/-! ### `normalize` -/

theorem abs_sum_le (ws : List K) : |ws.sum| ≤ (ws.map fun x => |x|).sum := by
  induction ws with
  | nil => simp
  | cons w ws ih =>
    simp only [List.sum_cons, List.map_cons]
    exact le_trans (abs_add_le _ _) (by linarith)

theorem sum_abs_ne_zero (ws : List K) (h : ws.sum ≠ 0) : (ws.map absR).sum ≠ 0 := by
  intro h0
  apply h
  have e : ws.map absR = ws.map (fun x => |x|) := List.map_congr_left (fun x _ => absR_eq x)
  rw [e] at h0
  have := abs_sum_le ws
  rw [h0] at this
  exact abs_nonpos_iff.mp this

theorem normalize_eq (C : Consts K) (ws : List K) (mass zmass : K) (zsum : Bool)
    (hs : ws.sum ≠ 0) (hz : mass ≠ 0 ∨ zsum = false) :
    normalize C ws mass zsum zmass = ws.map (fun w => mass * w / ws.sum) := by
  have hW := sum_abs_ne_zero ws hs
  unfold normalize
  simp only [lsum_eq]
  rw [if_pos ((truthy_iff _).mpr hW)]
  have hc : (truthy mass || !zsum) = true := by
    rcases hz with h | h
    · simp [(truthy_iff mass).mpr h]
    · simp [h]
  rw [if_pos hc]
  have hM : (ws.map (· / (ws.map absR).sum)).sum ≠ 0 := by
    rw [sum_map_div_right]; exact div_ne_zero hs hW
  rw [if_pos ((truthy_iff _).mpr hM), List.map_map, List.map_map]
  apply List.map_congr_left; intro w _
  simp only [Function.comp, sum_map_div_right]
  field_simp

theorem normalize_sum (C : Consts K) (ws : List K) (mass zmass : K) (zsum : Bool)
    (hs : ws.sum ≠ 0) (hz : mass ≠ 0 ∨ zsum = false) :
    (normalize C ws mass zsum zmass).sum = mass := by
  rw [normalize_eq C ws mass zmass zsum hs hz]
  have : (ws.map fun w => mass * w / ws.sum) = (ws.map fun w => (mass / ws.sum) * (fun x => x) w) := by
    apply List.map_congr_left; intro w _; ring
  rw [this, sum_map_mul_left, List.map_id']; field_simp

theorem normalize_zsum_sum (C : Consts K) (ws : List K) (zmass : K) (hW : (ws.map absR).sum ≠ 0) :
    (normalize C ws 0 true zmass).sum = 0 := by
  unfold normalize
  simp only [lsum_eq]
  rw [if_pos ((truthy_iff _).mpr hW)]
  have hc : ¬ ((truthy (0 : K) || !true) = true) := by simp [truthy]
  rw [if_neg hc]
  have hne : ws ≠ [] := by rintro rfl; simp at hW
  have e : (ws.dropLast ++ [-(ws.sum - ws.getLastD 0)]).map (fun x => zmass * x / (ws.map absR).sum)
      = (ws.dropLast ++ [-(ws.sum - ws.getLastD 0)]).map (fun x => (zmass / (ws.map absR).sum) * (fun t => t) x) := by
    apply List.map_congr_left; intro w _; ring
  rw [e, sum_map_mul_left, List.map_id']
  have hsum : ws.sum = ws.dropLast.sum + ws.getLastD 0 := by
    conv_lhs => rw [← List.dropLast_append_getLast hne]
    rw [List.sum_append]
    simp [List.getLastD_eq_getLast?, List.getLast?_eq_some_getLast hne]
  rw [List.sum_append, List.sum_singleton, hsum]; ring
/-! ### support surgery -/

theorem mapIdx_length (ws : List K) (g : Nat → K → K) : (mapIdx ws g).length = ws.length := by
  simp [mapIdx]

theorem mapIdx_getElem? (ws : List K) (g : Nat → K → K) (i : Nat) :
    (mapIdx ws g)[i]? = (ws[i]?).map (g i) := by
  unfold mapIdx
  by_cases h : i < ws.length
  · have h1 : i < ((List.range ws.length).zip ws).length := by simp [h]
    rw [List.getElem?_map, List.getElem?_eq_getElem h1, List.getElem?_eq_getElem h]
    simp
  · have h1 : ¬ i < ((List.range ws.length).zip ws).length := by simp [h]
    rw [List.getElem?_map, List.getElem?_eq_none (not_lt.mp h1), List.getElem?_eq_none (not_lt.mp h)]
    simp

theorem mapIdx_map (ws : List K) (g : Nat → K → K) (h : K → K) :
    (mapIdx ws g).map h = mapIdx ws (fun i w => h (g i w)) := by
  simp [mapIdx, List.map_map, Function.comp]

theorem normalize_length (C : Consts K) (ws : List K) (mass zmass : K) (zsum : Bool)
    (hs : ws.sum ≠ 0) (hz : mass ≠ 0 ∨ zsum = false) : (normalize C ws mass zsum zmass).length = ws.length := by
  rw [normalize_eq C ws mass zmass zsum hs hz]; simp

/-- the weights kept by `impose_support` before rescaling -/
def keptW (index : List Int) (ws : List K) : List K :=
  mapIdx ws fun i w => if inIndex ws.length index i = true then w else 0

/-- the weights kept by `impose_unweighted` before rescaling -/
def droppedW (index : List Int) (ws : List K) : List K :=
  mapIdx ws fun i w => if inIndex ws.length index i = true then 0 else w

theorem imposeSupport_weights (C : Consts K) (index : List Int) (xs ws : List K)
    (hk : (keptW index ws).sum ≠ 0) :
    (imposeSupport C index xs ws).2 =
      mapIdx ws fun i w => if inIndex ws.length index i = true then ws.sum * w / (keptW index ws).sum else 0 := by
  unfold imposeSupport
  simp only [lsum_eq]
  rw [show (mapIdx ws fun i w => if inIndex ws.length index i = true then w else 0) = keptW index ws from rfl,
    normalize_eq C _ _ _ _ hk (Or.inr rfl)]
  unfold keptW
  rw [mapIdx_map]
  unfold mapIdx
  apply List.map_congr_left; intro p _
  simp only
  split
  · rfl
  · simp

theorem imposeUnweighted_weights (C : Consts K) (index : List Int) (xs ws : List K) (nullable : Bool)
    (hk : (droppedW index ws).sum ≠ 0) :
    (imposeUnweighted C index xs ws nullable).2 =
      mapIdx ws fun i w => if inIndex ws.length index i = true then 0 else ws.sum * w / (droppedW index ws).sum := by
  unfold imposeUnweighted
  simp only [lsum_eq]
  rw [show (mapIdx ws fun i w => if inIndex ws.length index i = true then 0 else w) = droppedW index ws from rfl]
  have hc : ¬ ((!nullable && !truthy (droppedW index ws).sum) = true) := by
    simp [(truthy_iff _).mpr hk]
  rw [if_neg hc, normalize_eq C _ _ _ _ hk (Or.inr rfl)]
  unfold droppedW
  rw [mapIdx_map]
  unfold mapIdx
  apply List.map_congr_left; intro p _
  simp only
  split
  · simp
  · rfl

/-! ### `impose_collapse` -/

theorem sum_set (l : List K) (k : Nat) (a : K) (h : k < l.length) :
    (l.set k a).sum = l.sum - l.getD k 0 + a := by
  induction l generalizing k with
  | nil => simp at h
  | cons x xs ih =>
    cases k with
    | zero => simp; ring
    | succ k =>
      simp only [List.length_cons, Nat.add_lt_add_iff_right] at h
      simp only [List.set_cons_succ, List.sum_cons, ih k h, List.getD_cons_succ]; ring

/-- a group of `connected` that `impose_collapse` handles as intended: indices in range, key not a member -/
def GroupOK (n : Nat) (g : Nat × List Nat) : Prop := g.1 < n ∧ ∀ k ∈ g.2, k < n ∧ k ≠ g.1

theorem getD_set_ne (l : List K) (i k : Nat) (a : K) (h : k ≠ i) : (l.set k a).getD i 0 = l.getD i 0 := by
  simp [List.getD_eq_getElem?_getD, List.getElem?_set_ne h]

theorem collapse_fold_inv (i n : Nat) (T : K) (J : List Nat) (s : CState K)
    (hJ : ∀ k ∈ J, k < n ∧ k ≠ i) (hlen : s.ws.length = n) (hx : s.xs.length = n)
    (hinv : s.v + s.ws.sum - s.ws.getD i 0 = T) :
    (J.foldl (collapseStep i) s).ws.length = n ∧ (J.foldl (collapseStep i) s).xs.length = n ∧
    (J.foldl (collapseStep i) s).v + (J.foldl (collapseStep i) s).ws.sum - (J.foldl (collapseStep i) s).ws.getD i 0 = T := by
  induction J generalizing s with
  | nil => exact ⟨hlen, hx, hinv⟩
  | cons k J ih =>
    simp only [List.foldl_cons]
    have hk := hJ k (by simp)
    apply ih
    · intro k' hk'; exact hJ k' (by simp [hk'])
    · simp [collapseStep, hlen]
    · simp [collapseStep, hx]
    · simp only [collapseStep]
      rw [sum_set _ _ _ (by omega), getD_set_ne _ _ _ _ hk.2]
      linarith

theorem collapseGroup_total (xs ws : List K) (g : Nat × List Nat) (hl : xs.length = ws.length)
    (hok : GroupOK ws.length g) :
    (collapseGroup (xs, ws) g).2.sum = ws.sum ∧ (collapseGroup (xs, ws) g).2.length = ws.length ∧
    (collapseGroup (xs, ws) g).1.length = ws.length := by
  unfold collapseGroup
  have h := collapse_fold_inv g.1 ws.length ws.sum g.2 { v := ws.getD g.1 0, ws := ws, xs := xs } hok.2 rfl hl
    (by simp)
  simp only
  refine ⟨?_, by rw [List.length_set]; exact h.1, h.2.1⟩
  rw [sum_set _ _ _ (by rw [h.1]; exact hok.1)]
  linarith [h.2.2]

theorem collapse_groups_total (gs : List (Nat × List Nat)) (xs ws : List K) (hl : xs.length = ws.length)
    (hok : ∀ g ∈ gs, GroupOK ws.length g) :
    (gs.foldl collapseGroup (xs, ws)).2.sum = ws.sum ∧ (gs.foldl collapseGroup (xs, ws)).2.length = ws.length ∧
    (gs.foldl collapseGroup (xs, ws)).1.length = ws.length := by
  induction gs generalizing xs ws with
  | nil => exact ⟨rfl, rfl, hl⟩
  | cons g gs ih =>
    simp only [List.foldl_cons]
    have h1 := collapseGroup_total xs ws g hl (hok g (by simp))
    have := ih (collapseGroup (xs, ws) g).1 (collapseGroup (xs, ws) g).2 (by rw [h1.2.1, h1.2.2])
      (by intro g' hg'; rw [h1.2.1]; exact hok g' (by simp [hg']))
    rw [h1.1, h1.2.1] at this
    exact this

/-! ### `impose_collapse`: what every group looks like afterwards -/

theorem getD_set_self (l : List K) (k : Nat) (a : K) (h : k < l.length) : (l.set k a).getD k 0 = a := by
  simp [List.getD_eq_getElem?_getD, h]

/-- the collapse loop of one group `i -> J` (members in range, different from the key, listed once): the running
weight collects the members' weights, exactly the members are zeroed and moved onto position `i` -/
theorem collapse_fold_spec (i n : Nat) (J : List Nat) (s : CState K)
    (hJ : ∀ k ∈ J, k < n ∧ k ≠ i) (hnd : J.Nodup) (hlen : s.ws.length = n) (hx : s.xs.length = n) :
    (J.foldl (collapseStep i) s).v = s.v + (J.map (s.ws.getD · 0)).sum ∧
    (∀ t, (J.foldl (collapseStep i) s).ws.getD t 0 = if t ∈ J then 0 else s.ws.getD t 0) ∧
    (∀ t, (J.foldl (collapseStep i) s).xs.getD t 0 = if t ∈ J then s.xs.getD i 0 else s.xs.getD t 0) := by
  induction J generalizing s with
  | nil => simp
  | cons k J ih =>
    have hk := hJ k (by simp)
    have hnd' := (List.nodup_cons.mp hnd)
    have ih' := ih (collapseStep i s k) (fun k' hk' => hJ k' (by simp [hk'])) hnd'.2
      (by simp [collapseStep, hlen]) (by simp [collapseStep, hx])
    simp only [List.foldl_cons]
    refine ⟨?_, ?_, ?_⟩
    · rw [ih'.1]
      simp only [collapseStep, List.map_cons, List.sum_cons]
      have e : J.map (fun t => (s.ws.set k 0).getD t 0) = J.map (fun t => s.ws.getD t 0) := by
        apply List.map_congr_left; intro t ht
        exact getD_set_ne _ _ _ _ (fun h => hnd'.1 (h ▸ ht))
      rw [e]; ring
    · intro t
      rw [ih'.2.1 t]
      by_cases htJ : t ∈ J
      · simp [htJ]
      · by_cases htk : t = k
        · subst htk
          simp only [htJ, if_false, List.mem_cons, true_or, if_true, collapseStep]
          exact getD_set_self _ _ _ (by omega)
        · simp only [htJ, if_false, List.mem_cons, htk, false_or, collapseStep]
          exact getD_set_ne _ _ _ _ (fun h => htk h.symm)
    · intro t
      rw [ih'.2.2 t]
      have hi : (collapseStep i s k).xs.getD i 0 = s.xs.getD i 0 := by
        simp only [collapseStep]
        exact getD_set_ne _ _ _ _ hk.2
      by_cases htJ : t ∈ J
      · rw [if_pos htJ, if_pos (List.mem_cons_of_mem _ htJ), hi]
      · by_cases htk : t = k
        · subst htk
          simp only [htJ, if_false, List.mem_cons, true_or, if_true, collapseStep]
          exact getD_set_self _ _ _ (by omega)
        · simp only [htJ, if_false, List.mem_cons, htk, false_or, collapseStep]
          exact getD_set_ne _ _ _ _ (fun h => htk h.symm)

theorem collapseGroup_spec (xs ws : List K) (g : Nat × List Nat) (hl : xs.length = ws.length)
    (hok : GroupOK ws.length g) (hnd : g.2.Nodup) :
    (collapseGroup (xs, ws) g).2.getD g.1 0 = ws.getD g.1 0 + (g.2.map (ws.getD · 0)).sum ∧
    (∀ k ∈ g.2, (collapseGroup (xs, ws) g).2.getD k 0 = 0 ∧ (collapseGroup (xs, ws) g).1.getD k 0 = xs.getD g.1 0) ∧
    (∀ t, t ≠ g.1 → t ∉ g.2 → (collapseGroup (xs, ws) g).2.getD t 0 = ws.getD t 0) ∧
    (∀ t, t ∉ g.2 → (collapseGroup (xs, ws) g).1.getD t 0 = xs.getD t 0) := by
  have h := collapse_fold_spec g.1 ws.length g.2 { v := ws.getD g.1 0, ws := ws, xs := xs } hok.2 hnd rfl hl
  have hinv := collapse_fold_inv g.1 ws.length ws.sum g.2 { v := ws.getD g.1 0, ws := ws, xs := xs } hok.2 rfl hl
    (by simp)
  unfold collapseGroup
  simp only
  refine ⟨?_, ?_, ?_, ?_⟩
  · rw [getD_set_self _ _ _ (by rw [hinv.1]; exact hok.1), h.1]
  · intro k hk
    refine ⟨?_, ?_⟩
    · rw [getD_set_ne _ _ _ _ (fun e => (hok.2 k hk).2 e.symm), h.2.1 k]; simp [hk]
    · rw [h.2.2 k]; simp [hk]
  · intro t ht htJ
    rw [getD_set_ne _ _ _ _ (fun e => ht e.symm), h.2.1 t]; simp [htJ]
  · intro t htJ
    rw [h.2.2 t]; simp [htJ]

/-- the nodes of a group -/
def gnodes (g : Nat × List Nat) : List Nat := g.1 :: g.2

theorem collapse_groups_untouched (gs : List (Nat × List Nat)) (xs ws : List K) (hl : xs.length = ws.length)
    (hok : ∀ g ∈ gs, GroupOK ws.length g) (hnd : ∀ g ∈ gs, g.2.Nodup) (t : Nat)
    (ht : ∀ g ∈ gs, t ∉ gnodes g) :
    (gs.foldl collapseGroup (xs, ws)).2.getD t 0 = ws.getD t 0 ∧
    (gs.foldl collapseGroup (xs, ws)).1.getD t 0 = xs.getD t 0 := by
  induction gs generalizing xs ws with
  | nil => exact ⟨rfl, rfl⟩
  | cons g gs ih =>
    simp only [List.foldl_cons]
    have hg := ht g (by simp)
    simp only [gnodes, List.mem_cons, not_or] at hg
    have h1 := collapseGroup_total xs ws g hl (hok g (by simp))
    have h2 := collapseGroup_spec xs ws g hl (hok g (by simp)) (hnd g (by simp))
    have := ih (collapseGroup (xs, ws) g).1 (collapseGroup (xs, ws) g).2 (by rw [h1.2.1, h1.2.2])
      (by intro g' hg'; rw [h1.2.1]; exact hok g' (by simp [hg'])) (fun g' hg' => hnd g' (by simp [hg']))
      (fun g' hg' => ht g' (by simp [hg']))
    rw [this.1, this.2, h2.2.2.1 t hg.1 hg.2, h2.2.2.2 t hg.2]
    exact ⟨rfl, rfl⟩

/-- all groups of a collapse, pairwise without common nodes: every group's key carries the group's weight, every
other member is exactly zero and sits on the key's (pre-shift) position; nodes outside all groups are untouched -/
theorem collapse_groups_spec (gs : List (Nat × List Nat)) (xs ws : List K) (hl : xs.length = ws.length)
    (hok : ∀ g ∈ gs, GroupOK ws.length g) (hnd : ∀ g ∈ gs, g.2.Nodup)
    (hdis : gs.Pairwise fun a b => ∀ t ∈ gnodes a, t ∉ gnodes b) :
    ∀ g ∈ gs,
      (gs.foldl collapseGroup (xs, ws)).2.getD g.1 0 = ws.getD g.1 0 + (g.2.map (ws.getD · 0)).sum ∧
      (gs.foldl collapseGroup (xs, ws)).1.getD g.1 0 = xs.getD g.1 0 ∧
      ∀ k ∈ g.2, (gs.foldl collapseGroup (xs, ws)).2.getD k 0 = 0 ∧
        (gs.foldl collapseGroup (xs, ws)).1.getD k 0 = xs.getD g.1 0 := by
  induction gs generalizing xs ws with
  | nil => intro g hg; simp at hg
  | cons g0 gs ih =>
    intro g hg
    simp only [List.foldl_cons]
    have h1 := collapseGroup_total xs ws g0 hl (hok g0 (by simp))
    have h2 := collapseGroup_spec xs ws g0 hl (hok g0 (by simp)) (hnd g0 (by simp))
    have hd := List.pairwise_cons.mp hdis
    have hok' : ∀ g' ∈ gs, GroupOK (collapseGroup (xs, ws) g0).2.length g' := by
      intro g' hg'; rw [h1.2.1]; exact hok g' (by simp [hg'])
    have hl' : (collapseGroup (xs, ws) g0).1.length = (collapseGroup (xs, ws) g0).2.length := by rw [h1.2.1, h1.2.2]
    rcases List.mem_cons.mp hg with rfl | hg'
    · -- the first group: later groups do not touch its nodes
      have hun : ∀ t ∈ gnodes g, ∀ g' ∈ gs, t ∉ gnodes g' := fun t ht g' hg' => hd.1 g' hg' t ht
      have un := fun t ht => collapse_groups_untouched gs (collapseGroup (xs, ws) g).1 (collapseGroup (xs, ws) g).2 hl' hok'
        (fun g' hg' => hnd g' (by simp [hg'])) t (hun t ht)
      refine ⟨?_, ?_, ?_⟩
      · rw [(un g.1 (by simp [gnodes])).1, h2.1]
      · rw [(un g.1 (by simp [gnodes])).2, h2.2.2.2 g.1 (fun h => ((hok g (by simp)).2 g.1 h).2 rfl)]
      · intro k hk
        rw [(un k (by simp [gnodes, hk])).1, (un k (by simp [gnodes, hk])).2]
        exact h2.2.1 k hk
    · -- a later group: the first group did not touch its nodes
      have hng : ∀ t ∈ gnodes g, t ∉ gnodes g0 := fun t ht h0 => hd.1 g hg' t h0 ht
      have key := ih (collapseGroup (xs, ws) g0).1 (collapseGroup (xs, ws) g0).2 hl' hok'
        (fun g' hg' => hnd g' (by simp [hg'])) hd.2 g hg'
      have same : ∀ t ∈ gnodes g, (collapseGroup (xs, ws) g0).2.getD t 0 = ws.getD t 0 ∧
          (collapseGroup (xs, ws) g0).1.getD t 0 = xs.getD t 0 := by
        intro t ht
        have := hng t ht
        simp only [gnodes, List.mem_cons, not_or] at this
        exact ⟨h2.2.2.1 t this.1 this.2, h2.2.2.2 t this.2⟩
      have e : g.2.map (fun t => (collapseGroup (xs, ws) g0).2.getD t 0) = g.2.map (fun t => ws.getD t 0) := by
        apply List.map_congr_left; intro t ht
        exact (same t (by simp [gnodes, ht])).1
      refine ⟨?_, ?_, ?_⟩
      · rw [key.1, e, (same g.1 (by simp [gnodes])).1]
      · rw [key.2.1, (same g.1 (by simp [gnodes])).2]
      · intro k hk
        rw [(key.2.2 k hk).1, (key.2.2 k hk).2, (same g.1 (by simp [gnodes])).2]
        exact ⟨rfl, rfl⟩
/-! ### extrema, support, heavy points -/

/-- `max(l)` for a non-empty list is a greatest element -/
theorem pymax_spec (x : K) (l : List K) :
    pymaxFrom x l ∈ x :: l ∧ ∀ y ∈ x :: l, y ≤ pymaxFrom x l := by
  rw [pymaxFrom_eq]
  refine ⟨?_, ?_⟩
  · rcases foldl_max_mem x l with h | h
    · rw [h]; simp
    · exact List.mem_cons_of_mem _ h
  · intro y hy
    rcases List.mem_cons.mp hy with rfl | h
    · exact (foldl_max_ge _ l).1
    · exact (foldl_max_ge x l).2 y h

theorem pymin_spec (x : K) (l : List K) :
    pyminFrom x l ∈ x :: l ∧ ∀ y ∈ x :: l, pyminFrom x l ≤ y := by
  rw [pyminFrom_eq]
  refine ⟨?_, ?_⟩
  · rcases foldl_min_mem x l with h | h
    · rw [h]; simp
    · exact List.mem_cons_of_mem _ h
  · intro y hy
    rcases List.mem_cons.mp hy with rfl | h
    · exact (foldl_min_le _ l).1
    · exact (foldl_min_le x l).2 y h

theorem supportIndex_mem (ws : List K) (tol : K) (i : Nat) :
    i ∈ supportIndex ws tol ↔ ∃ h : i < ws.length, tol < ws[i] := by
  unfold supportIndex
  simp only [List.mem_filterMap]
  constructor
  · rintro ⟨⟨j, w⟩, hmem, hp⟩
    simp only at hp
    split at hp
    · rename_i hlt
      simp only [Option.some.injEq] at hp
      subst hp
      obtain ⟨k, hk, hget⟩ := List.mem_iff_getElem.mp hmem
      simp only [List.getElem_zip, List.getElem_range, Prod.mk.injEq] at hget
      obtain ⟨rfl, rfl⟩ := hget
      simp at hk
      exact ⟨hk, hlt⟩
    · simp at hp
  · rintro ⟨h, hlt⟩
    refine ⟨(i, ws[i]), ?_, by simp [hlt]⟩
    apply List.mem_iff_getElem.mpr
    exact ⟨i, by simp [h], by simp⟩

theorem support_eq {X : Type} (xs : List X) (ws : List K) (tol : K) :
    support xs ws tol = ((xs.zip ws).filter fun p => decide (tol < p.2)).map Prod.fst := by
  unfold support
  induction xs.zip ws with
  | nil => rfl
  | cons p l ih =>
    simp only [List.filterMap_cons, List.filter_cons]
    by_cases h : tol < p.2
    · simp [h, ih]
    · simp [h, ih]

theorem heavy_nil_of_filter {X : Type} (xs : List X) (w : List K) (tol : K)
    (h : (w.filter fun wi => decide (tol < absR wi)).length = 0) : heavy xs w tol = [] := by
  unfold heavy
  rw [List.filter_eq_nil_iff]
  intro p hp
  have hw : p.2 ∈ w := (List.of_mem_zip hp).2
  have := List.filter_eq_nil_iff.mp (List.length_eq_zero_iff.mp h) p.2 hw
  simpa using this

/-! ### median under a shift -/

/-- shift of the sample component of a (sample, weight) pair -/
def shiftP (c : K) (q : K × K) : K × K := (q.1 + c, q.2)

theorem insertBy_shift (c : K) (p : K × K) (l : List (K × K)) :
    insertBy (shiftP c p) (l.map (shiftP c)) = (insertBy p l).map (shiftP c) := by
  induction l with
  | nil => rfl
  | cons q qs ih =>
    simp only [List.map_cons, insertBy, shiftP, add_lt_add_iff_right]
    split
    · simp only [List.map_cons]; rw [← ih]; rfl
    · rfl

theorem sortPairs_shift (c : K) (l : List (K × K)) :
    sortPairs (l.map (shiftP c)) = (sortPairs l).map (shiftP c) := by
  induction l with
  | nil => rfl
  | cons p l ih => simp only [List.map_cons, sortPairs, ih, insertBy_shift]

theorem pairsOf_shift (c : K) (xs : List K) (ws : Option (List K)) :
    pairsOf (xs.map (· + c)) ws = (pairsOf xs ws).map (shiftP c) := by
  cases ws with
  | none => simp [pairsOf, shiftP, Function.comp]
  | some w =>
    simp only [pairsOf]
    induction xs generalizing w with
    | nil => simp
    | cons x xs ih =>
      cases w with
      | nil => simp
      | cons a w => simp [ih w, shiftP]

theorem sel_shift (c : K) (P : K → Bool) (a b : List K) :
    ((((a.map (· + c)).zip b).filter (fun p => P p.2)).map (·.1)) =
      (((a.zip b).filter (fun p => P p.2)).map (·.1)).map (· + c) := by
  induction a generalizing b with
  | nil => rfl
  | cons x a ih =>
    cases b with
    | nil => rfl
    | cons y b =>
      simp only [List.map_cons, List.zip_cons_cons, List.filter_cons]
      split
      · simp only [List.map_cons, ih b]
      · exact ih b

theorem medianSel_shift (c : K) (xs : List K) (ws : Option (List K)) :
    medianSel (xs.map (· + c)) ws = (medianSel xs ws).map (· + c) := by
  unfold medianSel
  rw [pairsOf_shift, sortPairs_shift]
  have e2 : ((sortPairs (pairsOf xs ws)).map (shiftP c)).map (·.2) = (sortPairs (pairsOf xs ws)).map (·.2) := by
    rw [List.map_map]; rfl
  have e1 : ((sortPairs (pairsOf xs ws)).map (shiftP c)).map (·.1) = ((sortPairs (pairsOf xs ws)).map (·.1)).map (· + c) := by
    rw [List.map_map, List.map_map]; rfl
  rw [e1, e2, List.length_map,
    sel_shift c (fun t => decide (lsum ((sortPairs (pairsOf xs ws)).map (·.2)) / 2 - t ≤ 0)), List.map_take]

theorem meanUpTo2_shift (C : Consts K) (c : K) (l : List K) (h : l ≠ []) :
    meanUpTo2 C (l.map (· + c)) = meanUpTo2 C l + c := by
  match l, h with
  | [a], _ => rfl
  | a :: b :: t, _ => simp only [List.map_cons, meanUpTo2]; ring

theorem median_shift (C : Consts K) (c : K) (xs : List K) (ws : Option (List K)) (h : medianSel xs ws ≠ []) :
    median C (xs.map (· + c)) ws = median C xs ws + c := by
  unfold median
  rw [medianSel_shift, meanUpTo2_shift C c _ h]

end MysticVerif.Meas
