/-
Helper lemmas for C09 (ensemble solvers): the loops of `gridpts` compute the lexicographic Cartesian product,
lattice bin centres and sample points over an ordered field, strided products / stable key sort / trial-division
factorisation behind `randomly_bin`.  The property theorems are in Props/C09.lean.
-/
import MysticVerif.Model.Ensemble
import Mathlib.Data.List.Forall2
import Mathlib.Data.List.Basic
import Mathlib.Data.List.Nodup
import Mathlib.Data.List.Perm.Basic
import Mathlib.Algebra.BigOperators.Group.List.Basic
import Mathlib.Algebra.Order.Field.Basic
import Mathlib.Data.Nat.Prime.Basic
import Mathlib.Tactic.Ring
import Mathlib.Tactic.Linarith
import Mathlib.Tactic.FieldSimp
import Mathlib.Tactic.Positivity

set_option linter.unusedSectionVars false
set_option linter.unusedSimpArgs false

/-! ## gridpts -/
namespace MysticVerif.Ens
variable {α : Type}

theorem appendRange_block (a : α) (P W rest : List (List α)) :
    appendRange a P.length (P.length + W.length) (P ++ W ++ rest) = P ++ W.map (· ++ [a]) ++ rest := by
  simp [appendRange, List.take_append, List.drop_append]

/-- the `k` loop on `P ++ replicate |as| copies of W`, starting at block `k0`, with `L = n*m` -/
theorem appendBinFrom_blocks (n m : Nat) (hn : 0 < n) (W : List (List α)) (hW : W.length = m) :
    ∀ (as : List α) (k0 : Nat) (P : List (List α)), P.length = k0 * m →
      appendBinFrom (n * m) n k0 as (P ++ (List.replicate as.length W).flatten)
        = P ++ as.flatMap (fun a => W.map (· ++ [a])) := by
  intro as
  induction as with
  | nil => intro k0 P _; simp [appendBinFrom]
  | cons a as ih =>
    intro k0 P hP
    have e1 : k0 * (n * m) / n = P.length := by
      rw [hP, Nat.mul_left_comm, Nat.mul_div_cancel_left _ hn]
    have e2 : (k0 + 1) * (n * m) / n = P.length + W.length := by
      rw [hP, hW, Nat.mul_left_comm, Nat.mul_div_cancel_left _ hn, Nat.add_mul, Nat.one_mul]
    simp only [appendBinFrom, List.length_cons, List.replicate_succ, List.flatten_cons, List.flatMap_cons]
    rw [e1, e2, ← List.append_assoc, appendRange_block]
    have := ih (k0 + 1) (P ++ W.map (· ++ [a])) (by simp [hP, hW, Nat.add_mul])
    rw [this, List.append_assoc]

end MysticVerif.Ens

namespace MysticVerif.Ens
variable {α : Type}

theorem length_flatten_replicate (n : Nat) (W : List (List α)) :
    (List.replicate n W).flatten.length = n * W.length := by
  induction n with
  | zero => simp
  | succ n ih => simp [List.replicate_succ, ih, Nat.add_mul, Nat.add_comm]

theorem appendBin_blocks (b : List α) (W : List (List α)) :
    appendBin b (List.replicate b.length W).flatten = b.flatMap (fun a => W.map (· ++ [a])) := by
  cases b with
  | nil => simp [appendBin, appendBinFrom]
  | cons a as =>
    have h := appendBinFrom_blocks (α := α) (as.length + 1) W.length (Nat.succ_pos _) W rfl (a :: as) 0 [] (by simp)
    simp only [appendBin, length_flatten_replicate]
    simpa using h

theorem cartesianLex_cons_reverse (b : List α) (s : List (List α)) :
    b.flatMap (fun a => ((cartesianLex s).map List.reverse).map (· ++ [a])) = (cartesianLex (b :: s)).map List.reverse := by
  simp [cartesianLex, List.map_flatMap, List.map_map, Function.comp_def]

theorem extend_cons (w : List (List α)) (b' : List α) (rest : List (List α)) (h : b' ≠ []) :
    extend w (b' :: rest) = (List.replicate b'.length w).flatten := by
  cases b' with
  | nil => exact absurd rfl h
  | cons x xs => simp [extend, List.replicate_succ]

/-- invariant of the `j` loop (`rpre` = the bins still to come, in the order the loop visits them) -/
theorem gridLoop_spec : ∀ (rpre : List (List α)) (b : List α) (suf : List (List α)),
    (∀ c ∈ rpre, c ≠ []) →
    gridLoop (b :: rpre) (List.replicate b.length ((cartesianLex suf).map List.reverse)).flatten
      = (cartesianLex (rpre.reverse ++ b :: suf)).map List.reverse := by
  intro rpre
  induction rpre with
  | nil =>
    intro b suf _
    simp only [List.reverse_nil, List.nil_append, gridLoop, extend, appendBin_blocks, cartesianLex_cons_reverse]
  | cons b' rpre ih =>
    intro b suf hne
    have hb' : b' ≠ [] := hne b' (by simp)
    have hpre : ∀ c ∈ rpre, c ≠ [] := fun c hc => hne c (by simp [hc])
    have := ih b' (b :: suf) hpre
    rw [gridLoop, appendBin_blocks, cartesianLex_cons_reverse, extend_cons _ _ _ hb', this]
    simp

end MysticVerif.Ens

namespace MysticVerif.Ens
variable {α : Type}

theorem flatten_replicate_singleton (n : Nat) (x : List α) :
    (List.replicate n [x]).flatten = List.replicate n x := by
  induction n with
  | zero => simp
  | succ n ih => simp [List.replicate_succ, ih]

/-- `gridpts` on `pre ++ [last]` -/
theorem gridpts_snoc (pre : List (List α)) (last : List α) (h : ∀ c ∈ pre, c ≠ []) :
    gridpts (pre ++ [last]) = some (cartesianLex (pre ++ [last])) := by
  have hne : ∀ c ∈ pre.reverse, c ≠ [] := fun c hc => h c (List.mem_reverse.mp hc)
  have := gridLoop_spec pre.reverse last [] hne
  simp only [cartesianLex, List.map_cons, List.map_nil, List.reverse_nil, flatten_replicate_singleton,
    List.reverse_reverse] at this
  simp only [gridpts, List.getLast?_append, List.getLast?_singleton, Option.some_or, List.reverse_append,
    List.reverse_singleton, List.singleton_append, this, List.map_map]
  congr 1
  simp [Function.comp_def]

theorem gridpts_eq (q : List (List α)) (hq : q ≠ []) (h : ∀ c ∈ q.dropLast, c ≠ []) :
    gridpts q = some (cartesianLex q) := by
  have e := List.dropLast_concat_getLast hq
  rw [← e]
  exact gridpts_snoc _ _ h

theorem gridpts_nil : gridpts ([] : List (List α)) = none := rfl

theorem cartesianLex_length (q : List (List α)) :
    (cartesianLex q).length = (q.map List.length).foldr (· * ·) 1 := by
  induction q with
  | nil => rfl
  | cons b rest ih =>
    simp only [cartesianLex, List.map_cons, List.foldr_cons, ← ih]
    induction b with
    | nil => simp
    | cons a as iha => simp [List.flatMap_cons, iha, Nat.add_mul, Nat.add_comm]

theorem cartesianLex_mem (q : List (List α)) (p : List α) :
    p ∈ cartesianLex q ↔ List.Forall₂ (fun x b => x ∈ b) p q := by
  induction q generalizing p with
  | nil => cases p <;> simp [cartesianLex]
  | cons b rest ih =>
    simp only [cartesianLex, List.mem_flatMap, List.mem_map]
    constructor
    · rintro ⟨a, ha, t, ht, rfl⟩
      exact List.Forall₂.cons ha ((ih t).mp ht)
    · intro hp
      cases hp with
      | cons ha ht => exact ⟨_, ha, _, (ih _).mpr ht, rfl⟩

theorem cartesianLex_point_length (q : List (List α)) (p : List α) (hp : p ∈ cartesianLex q) :
    p.length = q.length := ((cartesianLex_mem q p).mp hp).length_eq

end MysticVerif.Ens

namespace MysticVerif.Ens
variable {α : Type}
theorem cartesianLex_nodup (q : List (List α)) (h : ∀ b ∈ q, b.Nodup) : (cartesianLex q).Nodup := by
  induction q with
  | nil => simp [cartesianLex]
  | cons b rest ih =>
    have hb : b.Nodup := h b (by simp)
    have hr := ih (fun c hc => h c (by simp [hc]))
    simp only [cartesianLex]
    rw [List.nodup_flatMap]
    refine ⟨fun a _ => hr.map (List.cons_injective), ?_⟩
    refine hb.imp ?_
    intro a a' hne
    simp only [Function.onFun, List.disjoint_left, List.mem_map]
    rintro p ⟨t, _, rfl⟩ ⟨t', _, h'⟩
    exact hne (List.cons_eq_cons.mp h').1.symm
end MysticVerif.Ens

/-! ## lattice bins, samples -/
namespace MysticVerif.Ens
variable {K : Type} [Field K] [LinearOrder K] [IsStrictOrderedRing K]

theorem absR_eq (x : K) : absR x = |x| := by
  unfold absR
  split
  · rw [abs_of_neg ‹_›]
  · rw [abs_of_nonneg (not_lt.mp ‹_›)]

theorem latticeBin_length (lo hi : K) (n : Nat) : (latticeBin lo hi n).length = n := by
  simp [latticeBin]

theorem latticeBin_get (lo hi : K) (n j : Nat) (hj : j < n) (h : lo ≤ hi) :
    (latticeBin lo hi n)[j]? = some (lo + ((j : K) + 1 / 2) * ((hi - lo) / (n : K))) := by
  simp [latticeBin, hj, absR_eq, abs_of_nonneg (sub_nonneg.mpr h)]

/-- cell `j` of `n` equal cells of `[lo, hi]` -/
def cellLo (lo hi : K) (n j : Nat) : K := lo + (j : K) * ((hi - lo) / (n : K))
def cellHi (lo hi : K) (n j : Nat) : K := lo + ((j : K) + 1) * ((hi - lo) / (n : K))

theorem centre_facts (lo hi : K) (n j : Nat) (hj : j < n) (h : lo ≤ hi) :
    let c := lo + ((j : K) + 1 / 2) * ((hi - lo) / (n : K))
    c = (cellLo lo hi n j + cellHi lo hi n j) / 2 ∧ cellLo lo hi n j ≤ c ∧ c ≤ cellHi lo hi n j ∧
    lo ≤ cellLo lo hi n j ∧ cellHi lo hi n j ≤ hi ∧ (lo < hi → cellLo lo hi n j < c ∧ c < cellHi lo hi n j) := by
  intro c
  have hn : (0 : K) < n := by exact_mod_cast (Nat.zero_lt_of_lt hj)
  have hw : 0 ≤ (hi - lo) / (n : K) := div_nonneg (sub_nonneg.mpr h) hn.le
  have hj0 : (0 : K) ≤ j := by exact_mod_cast Nat.zero_le j
  have hjn : (j : K) + 1 ≤ n := by exact_mod_cast hj
  refine ⟨by simp only [c, cellLo, cellHi]; ring, ?_, ?_, ?_, ?_, ?_⟩
  · simp only [c, cellLo]; nlinarith
  · simp only [c, cellHi]; nlinarith
  · simp only [cellLo]; nlinarith [mul_nonneg hj0 hw]
  · simp only [cellHi]
    have : ((j : K) + 1) * ((hi - lo) / n) ≤ n * ((hi - lo) / n) := mul_le_mul_of_nonneg_right hjn hw
    have e : (n : K) * ((hi - lo) / n) = hi - lo := by field_simp
    linarith
  · intro hlt
    have hw' : 0 < (hi - lo) / (n : K) := div_pos (sub_pos.mpr hlt) hn
    simp only [c, cellLo, cellHi]
    constructor <;> nlinarith

end MysticVerif.Ens

namespace MysticVerif.Ens
variable {K : Type} [Field K] [LinearOrder K] [IsStrictOrderedRing K]

theorem samplePt_range (u lb ub : K) (h : lb ≤ ub) (h0 : 0 ≤ u) (h1 : u ≤ 1) :
    lb ≤ samplePt u lb ub ∧ samplePt u lb ub ≤ ub := by
  simp only [samplePt, absR_eq, abs_of_nonneg (sub_nonneg.mpr h)]
  have hw := sub_nonneg.mpr h
  constructor
  · nlinarith [mul_nonneg h0 hw]
  · nlinarith [mul_le_mul_of_nonneg_right h1 hw]

theorem samplePt_lt (u lb ub : K) (h : lb < ub) (h1 : u < 1) : samplePt u lb ub < ub := by
  simp only [samplePt, absR_eq, abs_of_nonneg (sub_nonneg.mpr h.le)]
  nlinarith [mul_lt_mul_of_pos_right h1 (sub_pos.mpr h)]

/-- column `j` of the sample matrix -/
theorem randomSamples_col (j : Nat) : ∀ (lb ub : List K) (us q : List (List K)),
    randomSamples lb ub us = .ok q → (∀ row ∈ us, j < row.length) →
    (q.filterMap (·[j]?)).length = lb.length ∧
    ∀ (i : Nat) (v : K), (q.filterMap (·[j]?))[i]? = some v →
      ∃ l u t, lb[i]? = some l ∧ ub[i]? = some u ∧ (us[i]?.bind (·[j]?)) = some t ∧ v = samplePt t l u := by
  intro lb
  induction lb with
  | nil =>
    intro ub us q h _
    simp only [randomSamples] at h
    cases h
    simp
  | cons l lb ih =>
    intro ub us q h hrows
    cases us with
    | nil => simp [randomSamples] at h
    | cons row us =>
      cases ub with
      | nil => simp [randomSamples] at h
      | cons u ub =>
        simp only [randomSamples] at h
        cases hr : randomSamples lb ub us with
        | error e => simp [hr] at h
        | ok rest =>
          simp only [hr] at h
          cases h
          have hj : j < row.length := hrows row (by simp)
          have ⟨ihl, ihe⟩ := ih ub us rest hr (fun r hr' => hrows r (by simp [hr']))
          have e0 : (row.map (fun t => samplePt t l u))[j]? = some (samplePt row[j] l u) := by
            simp [hj]
          simp only [List.filterMap_cons, e0, List.length_cons, ihl, true_and]
          intro i v hv
          cases i with
          | zero =>
            simp only [List.getElem?_cons_zero, Option.some.injEq] at hv
            exact ⟨l, u, row[j], by simp, by simp, by simp [hj], hv.symm⟩
          | succ i =>
            simp only [List.getElem?_cons_succ] at hv ⊢
            exact ihe i v hv

theorem samplepts_entries (lb ub : List K) (npts : Nat) (us pts : List (List K))
    (h : samplepts lb ub npts us = .ok pts) (hrows : ∀ row ∈ us, row.length = npts) :
    pts.length = npts ∧ ∀ (j : Nat) (p : List K), pts[j]? = some p → p.length = lb.length ∧
      ∀ (i : Nat) (v : K), p[i]? = some v →
        ∃ l u t, lb[i]? = some l ∧ ub[i]? = some u ∧ (us[i]?.bind (·[j]?)) = some t ∧ v = samplePt t l u := by
  simp only [samplepts] at h
  cases hr : randomSamples lb ub us with
  | error e => simp [hr] at h
  | ok q =>
    simp only [hr] at h
    cases h
    refine ⟨by simp [transposeN], ?_⟩
    intro j p hp
    simp only [transposeN, List.getElem?_map, List.getElem?_range', Option.map_eq_some_iff] at hp
    obtain ⟨j', hj', rfl⟩ := hp
    have hjlt : j < npts := by
      by_contra hc
      simp [List.getElem?_range, hc] at hj'
    have : j' = j := by
      simp [List.getElem?_range, hjlt] at hj'
      exact hj'.symm
    subst this
    exact randomSamples_col j' lb ub us q hr (fun row hrow => by rw [hrows row hrow]; exact hjlt)

end MysticVerif.Ens

/-! ## randomly_bin -/
namespace MysticVerif.Ens

theorem foldl_mul_eq_prod (l : List Nat) : l.foldl (· * ·) 1 = l.prod := (List.prod_eq_foldl).symm

theorem strideAux_prod (d' : Nat) : ∀ l : List Nat,
    ((List.range (d' + 1)).map fun i => (strideAux (d' + 1) l i).prod).prod = l.prod := by
  intro l
  induction l with
  | nil => simp [strideAux]
  | cons a as ih =>
    rw [List.range_succ_eq_map, List.map_cons, List.prod_cons, List.map_map]
    have h0 : (strideAux (d' + 1) (a :: as) 0).prod = a * (strideAux (d' + 1) as d').prod := by
      simp [strideAux]
    have hs : ((fun i => (strideAux (d' + 1) (a :: as) i).prod) ∘ Nat.succ)
        = fun c => (strideAux (d' + 1) as c).prod := by
      funext c; simp [strideAux]
    rw [h0, hs]
    rw [List.range_succ, List.map_append, List.prod_append] at ih
    simp only [List.map_cons, List.map_nil, List.prod_cons, List.prod_nil, mul_one] at ih
    rw [List.prod_cons, ← ih]
    ring

theorem stridedProducts_prod (l : List Nat) (d : Nat) (hd : 0 < d) : (stridedProducts l d).prod = l.prod := by
  obtain ⟨d', rfl⟩ := Nat.exists_eq_succ_of_ne_zero (Nat.pos_iff_ne_zero.mp hd)
  simp only [stridedProducts, stride, foldl_mul_eq_prod]
  exact strideAux_prod d' l

theorem stridedProducts_length (l : List Nat) (d : Nat) : (stridedProducts l d).length = d := by
  simp [stridedProducts]

variable {κ : Type} [LT κ] [DecidableLT κ]

theorem insertKey_perm (x : κ × Nat) (l : List (κ × Nat)) : (insertKey x l).Perm (x :: l) := by
  induction l with
  | nil => simp [insertKey]
  | cons y t ih =>
    simp only [insertKey]
    split
    · exact List.Perm.refl _
    · exact (List.Perm.cons y ih).trans (List.Perm.swap x y t)

theorem foldl_insertKey_perm (xs init : List (κ × Nat)) :
    (xs.foldl (fun acc x => insertKey x acc) init).Perm (xs ++ init) := by
  induction xs generalizing init with
  | nil => simp
  | cons x xs ih =>
    simp only [List.foldl_cons]
    refine (ih _).trans ?_
    refine (List.Perm.append_left xs (insertKey_perm x init)).trans ?_
    simp only [List.cons_append]
    exact List.perm_middle

theorem sortByKeys_perm (key : Nat → κ) (off : Nat) (l : List Nat) : (sortByKeys key off l).Perm l := by
  unfold sortByKeys
  have h := (foldl_insertKey_perm ((l.zipIdx off).map fun vi => (key vi.2, vi.1)) []).map (·.2)
  simp only [List.append_nil, List.map_map] at h
  refine h.trans ?_
  have : ((fun x : κ × Nat => x.2) ∘ fun vi : Nat × Nat => (key vi.2, vi.1)) = Prod.fst := by
    funext vi; rfl
  rw [this, List.zipIdx_map_fst]

theorem sortByKeys_prod (key : Nat → κ) (off : Nat) (l : List Nat) : (sortByKeys key off l).prod = l.prod :=
  (sortByKeys_perm key off l).prod_eq

theorem sortByKeys_length (key : Nat → κ) (off : Nat) (l : List Nat) : (sortByKeys key off l).length = l.length :=
  (sortByKeys_perm key off l).length_eq

/-! factors -/
theorem divOut_spec (i : Nat) : ∀ (f n s : Nat),
    (divOut i f n s).1 * i ^ ((divOut i f n s).2 - s) = n ∧ s ≤ (divOut i f n s).2 := by
  intro f
  induction f with
  | zero => intro n s; simp [divOut]
  | succ f ih =>
    intro n s
    simp only [divOut]
    split
    · rename_i hmod
      obtain ⟨h1, h2⟩ := ih (n / i) (s + 1)
      refine ⟨?_, by omega⟩
      have e : (divOut i f (n / i) (s + 1)).2 - s = ((divOut i f (n / i) (s + 1)).2 - (s + 1)) + 1 := by omega
      rw [e, pow_succ, ← mul_assoc, h1]
      exact Nat.div_mul_cancel (Nat.dvd_of_mod_eq_zero hmod)
    · simp

theorem factorsLoop_prod : ∀ (cands : List Nat) (n : Nat) (acc fs : List Nat),
    factorsLoop cands n acc = some fs → fs.prod = acc.prod * n := by
  intro cands
  induction cands with
  | nil => intro n acc fs h; simp [factorsLoop] at h
  | cons i cands ih =>
    intro n acc fs h
    simp only [factorsLoop] at h
    have hs := (divOut_spec i n n 0).1
    simp only [Nat.sub_zero] at hs
    split at h
    · rename_i h1
      cases h
      rw [List.prod_append, List.prod_replicate]
      rw [h1, one_mul] at hs
      rw [hs]
    · have := ih _ _ _ h
      rw [this, List.prod_append, List.prod_replicate, mul_assoc]
      congr 1
      rw [mul_comm]; exact hs

theorem factors_prod (n : Nat) (fs : List Nat) (h : factors n = some fs) : fs.prod = n := by
  have := factorsLoop_prod _ _ _ _ h
  simpa using this

end MysticVerif.Ens

namespace MysticVerif.Ens
variable {κ : Type} [LT κ] [DecidableLT κ]

theorem prod_erase_one (l : List Nat) (h : l.contains 1 = true) : (l.erase 1).prod = l.prod := by
  have hm : 1 ∈ l := by simpa using h
  have := List.prod_erase hm
  simpa using this

/-- one pass: the product of the bins is `N`; with `ndim = some d` there are exactly `d` bins -/
theorem randomlyBinPass_spec (key : Nat → κ) (off N : Nat) (ndim : Option Nat) (ones : Bool) (o : BinOut)
    (hnd : ndim ≠ some 0) (h : randomlyBinPass key off N ndim ones = some o) :
    o.bins.prod = N ∧ (∀ d, ndim = some d → o.bins.length = d) := by
  unfold randomlyBinPass at h
  cases hf : factors N with
  | none => simp [hf] at h
  | some fs =>
    have hp := factors_prod N fs hf
    simp only [hf] at h
    -- `result` and `dim`
    cases ndim with
    | some d =>
      have hd : 0 < d := Nat.pos_of_ne_zero (fun e => hnd (by rw [e]))
      have hres : (fs ++ List.replicate (d - fs.length / d) 1).prod = N := by simp [hp]
      cases ones with
      | true =>
        simp only [if_true, Option.isNone_some, Bool.false_and, Bool.false_eq_true, if_false, Option.some.injEq] at h
        subst h
        refine ⟨?_, ?_⟩
        · simp only []
          rw [stridedProducts_prod _ _ hd, sortByKeys_prod, hres]
        · intro d' hd'; cases hd'; simp [stridedProducts_length]
      | false =>
        simp only [Bool.false_eq_true, if_false, Option.some.injEq] at h
        subst h
        refine ⟨?_, ?_⟩
        · simp only []
          rw [sortByKeys_prod, stridedProducts_prod _ _ hd, List.prod_append, sortByKeys_prod, ← List.prod_append,
            List.take_append_drop, hres]
        · intro d' hd'; cases hd'; simp [sortByKeys_length, stridedProducts_length]
    | none =>
      refine ⟨?_, by intro d hd; cases hd⟩
      cases ones with
      | true =>
        simp only [if_true, Option.isNone_none, Bool.true_and, Option.some.injEq] at h
        subst h
        simp only []
        by_cases hz : fs.length = 0
        · have : fs = [] := List.length_eq_zero_iff.mp hz
          subst this
          simp [stridedProducts] at hp ⊢
          exact hp
        · have hd : 0 < fs.length := Nat.pos_of_ne_zero hz
          split
          · rename_i hc
            rw [prod_erase_one _ hc, stridedProducts_prod _ _ hd, sortByKeys_prod]; simp [hp]
          · rw [stridedProducts_prod _ _ hd, sortByKeys_prod]; simp [hp]
      | false =>
        simp only [Bool.false_eq_true, if_false, Option.some.injEq] at h
        subst h
        simp only []
        by_cases hz : fs.length = 0
        · have : fs = [] := List.length_eq_zero_iff.mp hz
          subst this
          simp [stridedProducts, sortByKeys] at hp ⊢
          exact hp
        · have hd : 0 < fs.length := Nat.pos_of_ne_zero hz
          rw [sortByKeys_prod, stridedProducts_prod _ _ hd, List.prod_append, sortByKeys_prod, ← List.prod_append,
            List.take_append_drop, hp]

end MysticVerif.Ens

/-! ## factors is total -/
namespace MysticVerif.Ens

theorem divOut_fst_dvd (i : Nat) : ∀ (f n s : Nat), (divOut i f n s).1 ∣ n := by
  intro f
  induction f with
  | zero => intro n s; simp [divOut]
  | succ f ih =>
    intro n s
    simp only [divOut]
    split
    · exact Nat.dvd_trans (ih _ _) (Nat.div_dvd_of_dvd (Nat.dvd_of_mod_eq_zero ‹_›))
    · simp

theorem divOut_fst_pos (i : Nat) : ∀ (f n s : Nat), 0 < n → 0 < (divOut i f n s).1 := by
  intro f
  induction f with
  | zero => intro n s h; simpa [divOut] using h
  | succ f ih =>
    intro n s h
    simp only [divOut]
    split
    · rename_i hm
      have hd : i ∣ n := Nat.dvd_of_mod_eq_zero hm
      have hi : 0 < i := Nat.pos_of_dvd_of_pos hd h
      exact ih _ _ (Nat.div_pos (Nat.le_of_dvd h hd) hi)
    · simpa using h

/-- with enough fuel the loop really ends because `i` no longer divides -/
theorem divOut_not_dvd (i : Nat) (hi : 2 ≤ i) : ∀ (f n s : Nat), 0 < n → n < 2 ^ f → ¬ i ∣ (divOut i f n s).1 := by
  intro f
  induction f with
  | zero => intro n s h0 h1; simp at h1; omega
  | succ f ih =>
    intro n s h0 h1
    simp only [divOut]
    split
    · rename_i hm
      have hd : i ∣ n := Nat.dvd_of_mod_eq_zero hm
      have hpos : 0 < n / i := Nat.div_pos (Nat.le_of_dvd h0 hd) (by omega)
      have hlt : n / i < 2 ^ f := by
        have : n / i ≤ n / 2 := Nat.div_le_div_left hi (by norm_num)
        have : n / 2 < 2 ^ f := by
          rw [Nat.div_lt_iff_lt_mul (by norm_num)]; rw [pow_succ] at h1; exact h1
        omega
      exact ih _ _ hpos hlt
    · rename_i hm
      intro hd
      exact hm (Nat.mod_eq_zero_of_dvd hd)

theorem factorsLoop_isSome : ∀ (cands : List Nat) (i n : Nat) (acc : List Nat),
    0 < n → (∀ c ∈ i :: cands, 2 ≤ c) → (∀ p, p.Prime → p ∣ n → p ∈ i :: cands) →
    (factorsLoop (i :: cands) n acc).isSome = true := by
  intro cands
  induction cands with
  | nil =>
    intro i n acc hn h2 hp
    simp only [factorsLoop]
    split
    · rfl
    · rename_i h1
      exfalso
      obtain ⟨p, pp, pd⟩ := Nat.exists_prime_and_dvd h1
      have hpn : p ∣ n := Nat.dvd_trans pd (divOut_fst_dvd i n n 0)
      have hpi : p = i := by simpa using hp p pp hpn
      subst hpi
      exact divOut_not_dvd p (h2 p (by simp)) n n 0 hn (Nat.lt_two_pow_self) pd
  | cons j cands ih =>
    intro i n acc hn h2 hp
    rw [factorsLoop]
    split
    · rfl
    · rename_i h1
      apply ih
      · exact divOut_fst_pos i n n 0 hn
      · intro c hc; exact h2 c (List.mem_cons_of_mem _ hc)
      · intro p pp pd
        have hpn : p ∣ n := Nat.dvd_trans pd (divOut_fst_dvd i n n 0)
        have hmem := hp p pp hpn
        rcases List.mem_cons.mp hmem with rfl | h
        · exact absurd pd (divOut_not_dvd p (h2 p (by simp)) n n 0 hn (Nat.lt_two_pow_self))
        · exact h

theorem factors_isSome (n : Nat) (hn : 0 < n) : (factors n).isSome = true := by
  unfold factors
  apply factorsLoop_isSome _ _ _ _ hn
  · intro c hc
    rcases List.mem_cons.mp hc with rfl | h
    · exact le_refl 2
    · obtain ⟨t, _, rfl⟩ := List.mem_range'.mp h; omega
  · intro p pp pd
    have hle : p ≤ n := Nat.le_of_dvd hn pd
    rcases pp.eq_two_or_odd with rfl | hodd
    · simp
    · refine List.mem_cons_of_mem _ (List.mem_range'.mpr ⟨(p - 3) / 2, ?_, ?_⟩)
      · have := pp.two_le; omega
      · have := pp.two_le; omega

end MysticVerif.Ens
