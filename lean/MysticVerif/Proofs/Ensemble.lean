/-
Helper lemmas for C09 (ensemble solvers): the loops of `gridpts` compute the lexicographic Cartesian product,
lattice bin centres and sample points over an ordered field, strided products / stable key sort / trial-division
factorisation behind `randomly_bin`.  The property theorems are in Props/C09.lean.
-/
import MysticVerif.Model.Ensemble
import Mathlib.Data.List.Forall2
import Mathlib.Data.List.Basic
import Mathlib.Data.List.Nodup
import Mathlib.Data.List.Perm.Basic
import Mathlib.Algebra.BigOperators.Group.List.Basic
import Mathlib.Algebra.Order.Field.Basic
import Mathlib.Data.Nat.Prime.Basic
import Mathlib.Tactic.Ring
import Mathlib.Tactic.Linarith
import Mathlib.Tactic.FieldSimp
import Mathlib.Tactic.Positivity
import Mathlib.Tactic.SplitIfs
import Mathlib.Tactic.Order

set_option linter.unusedSectionVars false
set_option linter.unusedSimpArgs false

/-! ## gridpts -/
namespace MysticVerif.Ens
variable {α : Type}

theorem appendRange_block (a : α) (P W rest : List (List α)) :
    appendRange a P.length (P.length + W.length) (P ++ W ++ rest) = P ++ W.map (· ++ [a]) ++ rest := by
  simp [appendRange, List.take_append, List.drop_append]

/-- the `k` loop on `P ++ replicate |as| copies of W`, starting at block `k0`, with `L = n*m` -/
theorem appendBinFrom_blocks (n m : Nat) (hn : 0 < n) (W : List (List α)) (hW : W.length = m) :
    ∀ (as : List α) (k0 : Nat) (P : List (List α)), P.length = k0 * m →
      appendBinFrom (n * m) n k0 as (P ++ (List.replicate as.length W).flatten)
        = P ++ as.flatMap (fun a => W.map (· ++ [a])) := by
  intro as
  induction as with
  | nil => intro k0 P _; simp [appendBinFrom]
  | cons a as ih =>
    intro k0 P hP
    have e1 : k0 * (n * m) / n = P.length := by
      rw [hP, Nat.mul_left_comm, Nat.mul_div_cancel_left _ hn]
    have e2 : (k0 + 1) * (n * m) / n = P.length + W.length := by
      rw [hP, hW, Nat.mul_left_comm, Nat.mul_div_cancel_left _ hn, Nat.add_mul, Nat.one_mul]
    simp only [appendBinFrom, List.length_cons, List.replicate_succ, List.flatten_cons, List.flatMap_cons]
    rw [e1, e2, ← List.append_assoc, appendRange_block]
    have := ih (k0 + 1) (P ++ W.map (· ++ [a])) (by simp [hP, hW, Nat.add_mul])
    rw [this, List.append_assoc]

end MysticVerif.Ens

namespace MysticVerif.Ens
variable {α : Type}

theorem length_flatten_replicate (n : Nat) (W : List (List α)) :
    (List.replicate n W).flatten.length = n * W.length := by
  induction n with
  | zero => simp
  | succ n ih => simp [List.replicate_succ, ih, Nat.add_mul, Nat.add_comm]

theorem appendBin_blocks (b : List α) (W : List (List α)) :
    appendBin b (List.replicate b.length W).flatten = b.flatMap (fun a => W.map (· ++ [a])) := by
  cases b with
  | nil => simp [appendBin, appendBinFrom]
  | cons a as =>
    have h := appendBinFrom_blocks (α := α) (as.length + 1) W.length (Nat.succ_pos _) W rfl (a :: as) 0 [] (by simp)
    simp only [appendBin, length_flatten_replicate]
    simpa using h

theorem cartesianLex_cons_reverse (b : List α) (s : List (List α)) :
    b.flatMap (fun a => ((cartesianLex s).map List.reverse).map (· ++ [a])) = (cartesianLex (b :: s)).map List.reverse := by
  simp [cartesianLex, List.map_flatMap, List.map_map, Function.comp_def]

theorem extend_cons (w : List (List α)) (b' : List α) (rest : List (List α)) (h : b' ≠ []) :
    extend w (b' :: rest) = (List.replicate b'.length w).flatten := by
  cases b' with
  | nil => exact absurd rfl h
  | cons x xs => simp [extend, List.replicate_succ]

/-- invariant of the `j` loop (`rpre` = the bins still to come, in the order the loop visits them) -/
theorem gridLoop_spec : ∀ (rpre : List (List α)) (b : List α) (suf : List (List α)),
    (∀ c ∈ rpre, c ≠ []) →
    gridLoop (b :: rpre) (List.replicate b.length ((cartesianLex suf).map List.reverse)).flatten
      = (cartesianLex (rpre.reverse ++ b :: suf)).map List.reverse := by
  intro rpre
  induction rpre with
  | nil =>
    intro b suf _
    simp only [List.reverse_nil, List.nil_append, gridLoop, extend, appendBin_blocks, cartesianLex_cons_reverse]
  | cons b' rpre ih =>
    intro b suf hne
    have hb' : b' ≠ [] := hne b' (by simp)
    have hpre : ∀ c ∈ rpre, c ≠ [] := fun c hc => hne c (by simp [hc])
    have := ih b' (b :: suf) hpre
    rw [gridLoop, appendBin_blocks, cartesianLex_cons_reverse, extend_cons _ _ _ hb', this]
    simp

end MysticVerif.Ens

namespace MysticVerif.Ens
variable {α : Type}

theorem flatten_replicate_singleton (n : Nat) (x : List α) :
    (List.replicate n [x]).flatten = List.replicate n x := by
  induction n with
  | zero => simp
  | succ n ih => simp [List.replicate_succ, ih]

/-- `gridpts` on `pre ++ [last]` -/
theorem gridpts_snoc (pre : List (List α)) (last : List α) (h : ∀ c ∈ pre, c ≠ []) :
    gridpts (pre ++ [last]) = some (cartesianLex (pre ++ [last])) := by
  have hne : ∀ c ∈ pre.reverse, c ≠ [] := fun c hc => h c (List.mem_reverse.mp hc)
  have := gridLoop_spec pre.reverse last [] hne
  simp only [cartesianLex, List.map_cons, List.map_nil, List.reverse_nil, flatten_replicate_singleton,
    List.reverse_reverse] at this
  simp only [gridpts, List.getLast?_append, List.getLast?_singleton, Option.some_or, List.reverse_append,
    List.reverse_singleton, List.singleton_append, this, List.map_map]
  congr 1
  simp [Function.comp_def]

theorem gridpts_eq (q : List (List α)) (hq : q ≠ []) (h : ∀ c ∈ q.dropLast, c ≠ []) :
    gridpts q = some (cartesianLex q) := by
  have e := List.dropLast_concat_getLast hq
  rw [← e]
  exact gridpts_snoc _ _ h

theorem gridpts_nil : gridpts ([] : List (List α)) = none := rfl

theorem cartesianLex_length (q : List (List α)) :
    (cartesianLex q).length = (q.map List.length).foldr (· * ·) 1 := by
  induction q with
  | nil => rfl
  | cons b rest ih =>
    simp only [cartesianLex, List.map_cons, List.foldr_cons, ← ih]
    induction b with
    | nil => simp
    | cons a as iha => simp [List.flatMap_cons, iha, Nat.add_mul, Nat.add_comm]

theorem cartesianLex_mem (q : List (List α)) (p : List α) :
    p ∈ cartesianLex q ↔ List.Forall₂ (fun x b => x ∈ b) p q := by
  induction q generalizing p with
  | nil => cases p <;> simp [cartesianLex]
  | cons b rest ih =>
    simp only [cartesianLex, List.mem_flatMap, List.mem_map]
    constructor
    · rintro ⟨a, ha, t, ht, rfl⟩
      exact List.Forall₂.cons ha ((ih t).mp ht)
    · intro hp
      cases hp with
      | cons ha ht => exact ⟨_, ha, _, (ih _).mpr ht, rfl⟩

theorem cartesianLex_point_length (q : List (List α)) (p : List α) (hp : p ∈ cartesianLex q) :
    p.length = q.length := ((cartesianLex_mem q p).mp hp).length_eq

end MysticVerif.Ens

namespace MysticVerif.Ens
variable {α : Type}
theorem cartesianLex_nodup (q : List (List α)) (h : ∀ b ∈ q, b.Nodup) : (cartesianLex q).Nodup := by
  induction q with
  | nil => simp [cartesianLex]
  | cons b rest ih =>
    have hb : b.Nodup := h b (by simp)
    have hr := ih (fun c hc => h c (by simp [hc]))
    simp only [cartesianLex]
    rw [List.nodup_flatMap]
    refine ⟨fun a _ => hr.map (List.cons_injective), ?_⟩
    refine hb.imp ?_
    intro a a' hne
    simp only [Function.onFun, List.disjoint_left, List.mem_map]
    rintro p ⟨t, _, rfl⟩ ⟨t', _, h'⟩
    exact hne (List.cons_eq_cons.mp h').1.symm
end MysticVerif.Ens

/-! ## lattice bins, samples -/
namespace MysticVerif.Ens
variable {K : Type} [Field K] [LinearOrder K] [IsStrictOrderedRing K]

theorem absR_eq (x : K) : absR x = |x| := by
  unfold absR
  split
  · rw [abs_of_neg ‹_›]
  · rw [abs_of_nonneg (not_lt.mp ‹_›)]

theorem latticeBin_length (lo hi : K) (n : Nat) : (latticeBin lo hi n).length = n := by
  simp [latticeBin]

theorem latticeBin_get (lo hi : K) (n j : Nat) (hj : j < n) (h : lo ≤ hi) :
    (latticeBin lo hi n)[j]? = some (lo + ((j : K) + 1 / 2) * ((hi - lo) / (n : K))) := by
  simp [latticeBin, hj, absR_eq, abs_of_nonneg (sub_nonneg.mpr h)]

/-- cell `j` of `n` equal cells of `[lo, hi]` -/
def cellLo (lo hi : K) (n j : Nat) : K := lo + (j : K) * ((hi - lo) / (n : K))
def cellHi (lo hi : K) (n j : Nat) : K := lo + ((j : K) + 1) * ((hi - lo) / (n : K))

theorem centre_facts (lo hi : K) (n j : Nat) (hj : j < n) (h : lo ≤ hi) :
    let c := lo + ((j : K) + 1 / 2) * ((hi - lo) / (n : K))
    c = (cellLo lo hi n j + cellHi lo hi n j) / 2 ∧ cellLo lo hi n j ≤ c ∧ c ≤ cellHi lo hi n j ∧
    lo ≤ cellLo lo hi n j ∧ cellHi lo hi n j ≤ hi ∧ (lo < hi → cellLo lo hi n j < c ∧ c < cellHi lo hi n j) := by
  intro c
  have hn : (0 : K) < n := by exact_mod_cast (Nat.zero_lt_of_lt hj)
  have hw : 0 ≤ (hi - lo) / (n : K) := div_nonneg (sub_nonneg.mpr h) hn.le
  have hj0 : (0 : K) ≤ j := by exact_mod_cast Nat.zero_le j
  have hjn : (j : K) + 1 ≤ n := by exact_mod_cast hj
  refine ⟨by simp only [c, cellLo, cellHi]; ring, ?_, ?_, ?_, ?_, ?_⟩
  · simp only [c, cellLo]; nlinarith
  · simp only [c, cellHi]; nlinarith
  · simp only [cellLo]; nlinarith [mul_nonneg hj0 hw]
  · simp only [cellHi]
    have : ((j : K) + 1) * ((hi - lo) / n) ≤ n * ((hi - lo) / n) := mul_le_mul_of_nonneg_right hjn hw
    have e : (n : K) * ((hi - lo) / n) = hi - lo := by field_simp
    linarith
  · intro hlt
    have hw' : 0 < (hi - lo) / (n : K) := div_pos (sub_pos.mpr hlt) hn
    simp only [c, cellLo, cellHi]
    constructor <;> nlinarith

end MysticVerif.Ens

namespace MysticVerif.Ens
variable {K : Type} [Field K] [LinearOrder K] [IsStrictOrderedRing K]

theorem samplePt_range (u lb ub : K) (h : lb ≤ ub) (h0 : 0 ≤ u) (h1 : u ≤ 1) :
    lb ≤ samplePt u lb ub ∧ samplePt u lb ub ≤ ub := by
  simp only [samplePt, absR_eq, abs_of_nonneg (sub_nonneg.mpr h)]
  have hw := sub_nonneg.mpr h
  constructor
  · nlinarith [mul_nonneg h0 hw]
  · nlinarith [mul_le_mul_of_nonneg_right h1 hw]

theorem samplePt_lt (u lb ub : K) (h : lb < ub) (h1 : u < 1) : samplePt u lb ub < ub := by
  simp only [samplePt, absR_eq, abs_of_nonneg (sub_nonneg.mpr h.le)]
  nlinarith [mul_lt_mul_of_pos_right h1 (sub_pos.mpr h)]

/-- column `j` of the sample matrix -/
theorem randomSamples_col (j : Nat) : ∀ (lb ub : List K) (us q : List (List K)),
    randomSamples lb ub us = .ok q → (∀ row ∈ us, j < row.length) →
    (q.filterMap (·[j]?)).length = lb.length ∧
    ∀ (i : Nat) (v : K), (q.filterMap (·[j]?))[i]? = some v →
      ∃ l u t, lb[i]? = some l ∧ ub[i]? = some u ∧ (us[i]?.bind (·[j]?)) = some t ∧ v = samplePt t l u := by
  intro lb
  induction lb with
  | nil =>
    intro ub us q h _
    simp only [randomSamples] at h
    cases h
    simp
  | cons l lb ih =>
    intro ub us q h hrows
    cases us with
    | nil => simp [randomSamples] at h
    | cons row us =>
      cases ub with
      | nil => simp [randomSamples] at h
      | cons u ub =>
        simp only [randomSamples] at h
        cases hr : randomSamples lb ub us with
        | error e => simp [hr] at h
        | ok rest =>
          simp only [hr] at h
          cases h
          have hj : j < row.length := hrows row (by simp)
          have ⟨ihl, ihe⟩ := ih ub us rest hr (fun r hr' => hrows r (by simp [hr']))
          have e0 : (row.map (fun t => samplePt t l u))[j]? = some (samplePt row[j] l u) := by
            simp [hj]
          simp only [List.filterMap_cons, e0, List.length_cons, ihl, true_and]
          intro i v hv
          cases i with
          | zero =>
            simp only [List.getElem?_cons_zero, Option.some.injEq] at hv
            exact ⟨l, u, row[j], by simp, by simp, by simp [hj], hv.symm⟩
          | succ i =>
            simp only [List.getElem?_cons_succ] at hv ⊢
            exact ihe i v hv

theorem samplepts_entries (lb ub : List K) (npts : Nat) (us pts : List (List K))
    (h : samplepts lb ub npts us = .ok pts) (hrows : ∀ row ∈ us, row.length = npts) :
    pts.length = npts ∧ ∀ (j : Nat) (p : List K), pts[j]? = some p → p.length = lb.length ∧
      ∀ (i : Nat) (v : K), p[i]? = some v →
        ∃ l u t, lb[i]? = some l ∧ ub[i]? = some u ∧ (us[i]?.bind (·[j]?)) = some t ∧ v = samplePt t l u := by
  simp only [samplepts] at h
  cases hr : randomSamples lb ub us with
  | error e => simp [hr] at h
  | ok q =>
    simp only [hr] at h
    cases h
    refine ⟨by simp [transposeN], ?_⟩
    intro j p hp
    simp only [transposeN, List.getElem?_map, List.getElem?_range', Option.map_eq_some_iff] at hp
    obtain ⟨j', hj', rfl⟩ := hp
    have hjlt : j < npts := by
      by_contra hc
      simp [List.getElem?_range, hc] at hj'
    have : j' = j := by
      simp [List.getElem?_range, hjlt] at hj'
      exact hj'.symm
    subst this
    exact randomSamples_col j' lb ub us q hr (fun row hrow => by rw [hrows row hrow]; exact hjlt)

end MysticVerif.Ens

/-! ## randomly_bin -/
namespace MysticVerif.Ens

theorem foldl_mul_eq_prod (l : List Nat) : l.foldl (· * ·) 1 = l.prod := (List.prod_eq_foldl).symm

theorem strideAux_prod (d' : Nat) : ∀ l : List Nat,
    ((List.range (d' + 1)).map fun i => (strideAux (d' + 1) l i).prod).prod = l.prod := by
  intro l
  induction l with
  | nil => simp [strideAux]
  | cons a as ih =>
    rw [List.range_succ_eq_map, List.map_cons, List.prod_cons, List.map_map]
    have h0 : (strideAux (d' + 1) (a :: as) 0).prod = a * (strideAux (d' + 1) as d').prod := by
      simp [strideAux]
    have hs : ((fun i => (strideAux (d' + 1) (a :: as) i).prod) ∘ Nat.succ)
        = fun c => (strideAux (d' + 1) as c).prod := by
      funext c; simp [strideAux]
    rw [h0, hs]
    rw [List.range_succ, List.map_append, List.prod_append] at ih
    simp only [List.map_cons, List.map_nil, List.prod_cons, List.prod_nil, mul_one] at ih
    rw [List.prod_cons, ← ih]
    ring

theorem stridedProducts_prod (l : List Nat) (d : Nat) (hd : 0 < d) : (stridedProducts l d).prod = l.prod := by
  obtain ⟨d', rfl⟩ := Nat.exists_eq_succ_of_ne_zero (Nat.pos_iff_ne_zero.mp hd)
  simp only [stridedProducts, stride, foldl_mul_eq_prod]
  exact strideAux_prod d' l

theorem stridedProducts_length (l : List Nat) (d : Nat) : (stridedProducts l d).length = d := by
  simp [stridedProducts]

variable {κ : Type} [LT κ] [DecidableLT κ]

theorem insertKey_perm (x : κ × Nat) (l : List (κ × Nat)) : (insertKey x l).Perm (x :: l) := by
  induction l with
  | nil => simp [insertKey]
  | cons y t ih =>
    simp only [insertKey]
    split
    · exact List.Perm.refl _
    · exact (List.Perm.cons y ih).trans (List.Perm.swap x y t)

theorem foldl_insertKey_perm (xs init : List (κ × Nat)) :
    (xs.foldl (fun acc x => insertKey x acc) init).Perm (xs ++ init) := by
  induction xs generalizing init with
  | nil => simp
  | cons x xs ih =>
    simp only [List.foldl_cons]
    refine (ih _).trans ?_
    refine (List.Perm.append_left xs (insertKey_perm x init)).trans ?_
    simp only [List.cons_append]
    exact List.perm_middle

theorem sortByKeys_perm (key : Nat → κ) (off : Nat) (l : List Nat) : (sortByKeys key off l).Perm l := by
  unfold sortByKeys
  have h := (foldl_insertKey_perm ((l.zipIdx off).map fun vi => (key vi.2, vi.1)) []).map (·.2)
  simp only [List.append_nil, List.map_map] at h
  refine h.trans ?_
  have : ((fun x : κ × Nat => x.2) ∘ fun vi : Nat × Nat => (key vi.2, vi.1)) = Prod.fst := by
    funext vi; rfl
  rw [this, List.zipIdx_map_fst]

theorem sortByKeys_prod (key : Nat → κ) (off : Nat) (l : List Nat) : (sortByKeys key off l).prod = l.prod :=
  (sortByKeys_perm key off l).prod_eq

theorem sortByKeys_length (key : Nat → κ) (off : Nat) (l : List Nat) : (sortByKeys key off l).length = l.length :=
  (sortByKeys_perm key off l).length_eq

/-! factors -/
theorem divOut_spec (i : Nat) : ∀ (f n s : Nat),
    (divOut i f n s).1 * i ^ ((divOut i f n s).2 - s) = n ∧ s ≤ (divOut i f n s).2 := by
  intro f
  induction f with
  | zero => intro n s; simp [divOut]
  | succ f ih =>
    intro n s
    simp only [divOut]
    split
    · rename_i hmod
      obtain ⟨h1, h2⟩ := ih (n / i) (s + 1)
      refine ⟨?_, by omega⟩
      have e : (divOut i f (n / i) (s + 1)).2 - s = ((divOut i f (n / i) (s + 1)).2 - (s + 1)) + 1 := by omega
      rw [e, pow_succ, ← mul_assoc, h1]
      exact Nat.div_mul_cancel (Nat.dvd_of_mod_eq_zero hmod)
    · simp

theorem factorsLoop_prod : ∀ (cands : List Nat) (n : Nat) (acc fs : List Nat),
    factorsLoop cands n acc = some fs → fs.prod = acc.prod * n := by
  intro cands
  induction cands with
  | nil => intro n acc fs h; simp [factorsLoop] at h
  | cons i cands ih =>
    intro n acc fs h
    simp only [factorsLoop] at h
    have hs := (divOut_spec i n n 0).1
    simp only [Nat.sub_zero] at hs
    split at h
    · rename_i h1
      cases h
      rw [List.prod_append, List.prod_replicate]
      rw [h1, one_mul] at hs
      rw [hs]
    · have := ih _ _ _ h
      rw [this, List.prod_append, List.prod_replicate, mul_assoc]
      congr 1
      rw [mul_comm]; exact hs

theorem factors_prod (n : Nat) (fs : List Nat) (h : factors n = some fs) : fs.prod = n := by
  have := factorsLoop_prod _ _ _ _ h
  simpa using this

end MysticVerif.Ens

namespace MysticVerif.Ens
variable {κ : Type} [LT κ] [DecidableLT κ]

theorem prod_erase_one (l : List Nat) (h : l.contains 1 = true) : (l.erase 1).prod = l.prod := by
  have hm : 1 ∈ l := by simpa using h
  have := List.prod_erase hm
  simpa using this

/-- one pass: the product of the bins is `N`; with `ndim = some d` there are exactly `d` bins -/
theorem randomlyBinPass_spec (key : Nat → κ) (off N : Nat) (ndim : Option Nat) (ones : Bool) (o : BinOut)
    (hnd : ndim ≠ some 0) (h : randomlyBinPass key off N ndim ones = some o) :
    o.bins.prod = N ∧ (∀ d, ndim = some d → o.bins.length = d) := by
  unfold randomlyBinPass at h
  cases hf : factors N with
  | none => simp [hf] at h
  | some fs =>
    have hp := factors_prod N fs hf
    simp only [hf] at h
    -- `result` and `dim`
    cases ndim with
    | some d =>
      have hd : 0 < d := Nat.pos_of_ne_zero (fun e => hnd (by rw [e]))
      have hres : (fs ++ List.replicate (d - fs.length / d) 1).prod = N := by simp [hp]
      cases ones with
      | true =>
        simp only [if_true, Option.isNone_some, Bool.false_and, Bool.false_eq_true, if_false, Option.some.injEq] at h
        subst h
        refine ⟨?_, ?_⟩
        · simp only []
          rw [stridedProducts_prod _ _ hd, sortByKeys_prod, hres]
        · intro d' hd'; cases hd'; simp [stridedProducts_length]
      | false =>
        simp only [Bool.false_eq_true, if_false, Option.some.injEq] at h
        subst h
        refine ⟨?_, ?_⟩
        · simp only []
          rw [sortByKeys_prod, stridedProducts_prod _ _ hd, List.prod_append, sortByKeys_prod, ← List.prod_append,
            List.take_append_drop, hres]
        · intro d' hd'; cases hd'; simp [sortByKeys_length, stridedProducts_length]
    | none =>
      refine ⟨?_, by intro d hd; cases hd⟩
      cases ones with
      | true =>
        simp only [if_true, Option.isNone_none, Bool.true_and, Option.some.injEq] at h
        subst h
        simp only []
        by_cases hz : fs.length = 0
        · have : fs = [] := List.length_eq_zero_iff.mp hz
          subst this
          simp [stridedProducts] at hp ⊢
          exact hp
        · have hd : 0 < fs.length := Nat.pos_of_ne_zero hz
          split
          · rename_i hc
            rw [prod_erase_one _ hc, stridedProducts_prod _ _ hd, sortByKeys_prod]; simp [hp]
          · rw [stridedProducts_prod _ _ hd, sortByKeys_prod]; simp [hp]
      | false =>
        simp only [Bool.false_eq_true, if_false, Option.some.injEq] at h
        subst h
        simp only []
        by_cases hz : fs.length = 0
        · have : fs = [] := List.length_eq_zero_iff.mp hz
          subst this
          simp [stridedProducts, sortByKeys] at hp ⊢
          exact hp
        · have hd : 0 < fs.length := Nat.pos_of_ne_zero hz
          rw [sortByKeys_prod, stridedProducts_prod _ _ hd, List.prod_append, sortByKeys_prod, ← List.prod_append,
            List.take_append_drop, hp]

end MysticVerif.Ens

/-! ## factors is total -/
namespace MysticVerif.Ens

theorem divOut_fst_dvd (i : Nat) : ∀ (f n s : Nat), (divOut i f n s).1 ∣ n := by
  intro f
  induction f with
  | zero => intro n s; simp [divOut]
  | succ f ih =>
    intro n s
    simp only [divOut]
    split
    · exact Nat.dvd_trans (ih _ _) (Nat.div_dvd_of_dvd (Nat.dvd_of_mod_eq_zero ‹_›))
    · simp

theorem divOut_fst_pos (i : Nat) : ∀ (f n s : Nat), 0 < n → 0 < (divOut i f n s).1 := by
  intro f
  induction f with
  | zero => intro n s h; simpa [divOut] using h
  | succ f ih =>
    intro n s h
    simp only [divOut]
    split
    · rename_i hm
      have hd : i ∣ n := Nat.dvd_of_mod_eq_zero hm
      have hi : 0 < i := Nat.pos_of_dvd_of_pos hd h
      exact ih _ _ (Nat.div_pos (Nat.le_of_dvd h hd) hi)
    · simpa using h

/-- with enough fuel the loop really ends because `i` no longer divides -/
theorem divOut_not_dvd (i : Nat) (hi : 2 ≤ i) : ∀ (f n s : Nat), 0 < n → n < 2 ^ f → ¬ i ∣ (divOut i f n s).1 := by
  intro f
  induction f with
  | zero => intro n s h0 h1; simp at h1; omega
  | succ f ih =>
    intro n s h0 h1
    simp only [divOut]
    split
    · rename_i hm
      have hd : i ∣ n := Nat.dvd_of_mod_eq_zero hm
      have hpos : 0 < n / i := Nat.div_pos (Nat.le_of_dvd h0 hd) (by omega)
      have hlt : n / i < 2 ^ f := by
        have : n / i ≤ n / 2 := Nat.div_le_div_left hi (by norm_num)
        have : n / 2 < 2 ^ f := by
          rw [Nat.div_lt_iff_lt_mul (by norm_num)]; rw [pow_succ] at h1; exact h1
        omega
      exact ih _ _ hpos hlt
    · rename_i hm
      intro hd
      exact hm (Nat.mod_eq_zero_of_dvd hd)

theorem factorsLoop_isSome : ∀ (cands : List Nat) (i n : Nat) (acc : List Nat),
    0 < n → (∀ c ∈ i :: cands, 2 ≤ c) → (∀ p, p.Prime → p ∣ n → p ∈ i :: cands) →
    (factorsLoop (i :: cands) n acc).isSome = true := by
  intro cands
  induction cands with
  | nil =>
    intro i n acc hn h2 hp
    simp only [factorsLoop]
    split
    · rfl
    · rename_i h1
      exfalso
      obtain ⟨p, pp, pd⟩ := Nat.exists_prime_and_dvd h1
      have hpn : p ∣ n := Nat.dvd_trans pd (divOut_fst_dvd i n n 0)
      have hpi : p = i := by simpa using hp p pp hpn
      subst hpi
      exact divOut_not_dvd p (h2 p (by simp)) n n 0 hn (Nat.lt_two_pow_self) pd
  | cons j cands ih =>
    intro i n acc hn h2 hp
    rw [factorsLoop]
    split
    · rfl
    · rename_i h1
      apply ih
      · exact divOut_fst_pos i n n 0 hn
      · intro c hc; exact h2 c (List.mem_cons_of_mem _ hc)
      · intro p pp pd
        have hpn : p ∣ n := Nat.dvd_trans pd (divOut_fst_dvd i n n 0)
        have hmem := hp p pp hpn
        rcases List.mem_cons.mp hmem with rfl | h
        · exact absurd pd (divOut_not_dvd p (h2 p (by simp)) n n 0 hn (Nat.lt_two_pow_self))
        · exact h

theorem factors_isSome (n : Nat) (hn : 0 < n) : (factors n).isSome = true := by
  unfold factors
  apply factorsLoop_isSome _ _ _ _ hn
  · intro c hc
    rcases List.mem_cons.mp hc with rfl | h
    · exact le_refl 2
    · obtain ⟨t, _, rfl⟩ := List.mem_range'.mp h; omega
  · intro p pp pd
    have hle : p ≤ n := Nat.le_of_dvd hn pd
    rcases pp.eq_two_or_odd with rfl | hodd
    · simp
    · refine List.mem_cons_of_mem _ (List.mem_range'.mpr ⟨(p - 3) / 2, ?_, ?_⟩)
      · have := pp.two_le; omega
      · have := pp.two_le; omega

end MysticVerif.Ens

/-! ## `random_samples` with a distribution: the resample loop -/
namespace MysticVerif.Ens
section DistSamples
variable {K : Type} [LinearOrder K]

theorem clipPt_range (x lo hi : K) (h : lo ≤ hi) : lo ≤ clipPt x lo hi ∧ clipPt x lo hi ≤ hi := by
  unfold clipPt npMin npMax
  split_ifs <;> constructor <;> order

theorem onBound_false (x lo hi : K) : onBound x lo hi = false ↔ x ≠ lo ∧ x ≠ hi := by
  simp only [onBound, decide_eq_false_iff_not, not_or, not_and, not_lt]
  constructor
  · rintro ⟨h1, h2⟩
    constructor
    · rintro rfl; exact h1 le_rfl le_rfl
    · rintro rfl; exact h2 le_rfl le_rfl
  · rintro ⟨h1, h2⟩
    exact ⟨fun h h' => h1 (le_antisymm h' h), fun h h' => h2 (le_antisymm h' h)⟩

/-- the three lists in lockstep -/
def AllRows (P : K → K → List K → Prop) : List K → List K → List (List K) → Prop
  | l :: lb, u :: ub, row :: rows => P l u row ∧ AllRows P lb ub rows
  | _, _, _ => True

def BoundsOk : List K → List K → Prop
  | l :: lb, u :: ub => l ≤ u ∧ BoundsOk lb ub
  | _, _ => True

theorem AllRows.and {P Q : K → K → List K → Prop} : ∀ (lb ub : List K) (rows : List (List K)),
    AllRows P lb ub rows → AllRows Q lb ub rows → AllRows (fun l u r => P l u r ∧ Q l u r) lb ub rows := by
  intro lb ub rows
  fun_induction AllRows P lb ub rows with
  | case1 l lb u ub row rows ih => intro h1 h2; exact ⟨⟨h1.1, h2.1⟩, ih h1.2 h2.2⟩
  | case2 => intros; simp [AllRows]

def InR (l u : K) (row : List K) : Prop := ∀ x ∈ row, l ≤ x ∧ x ≤ u
def OffB (l u : K) (row : List K) : Prop := ∀ x ∈ row, onBound x l u = false

theorem clipRows_all : ∀ (lb ub : List K) (rows : List (List K)), BoundsOk lb ub →
    AllRows InR lb ub (clipRows lb ub rows) := by
  intro lb ub rows
  fun_induction clipRows lb ub rows with
  | case1 l lb u ub row rows ih =>
    intro hb
    refine ⟨?_, ih hb.2⟩
    intro x hx
    simp only [List.mem_map] at hx
    obtain ⟨y, _, rfl⟩ := hx
    exact clipPt_range y l u hb.1
  | case2 => intros; simp [AllRows]

theorem clipRows_map_length : ∀ (lb ub : List K) (rows : List (List K)),
    rows.length ≤ lb.length → rows.length ≤ ub.length →
    (clipRows lb ub rows).map List.length = rows.map List.length := by
  intro lb ub rows
  fun_induction clipRows lb ub rows with
  | case1 l lb u ub row rows ih =>
    intro h1 h2
    simp only [List.length_cons, Nat.add_le_add_iff_right] at h1 h2
    simp [ih h1 h2]
  | case2 lb ub rows hne =>
    intro h1 h2
    cases rows with
    | nil => rfl
    | cons row rows =>
      cases lb with
      | nil => simp at h1
      | cons l lb =>
        cases ub with
        | nil => simp at h2
        | cons u ub => exact (hne l lb u ub row rows rfl rfl rfl).elim

theorem fillRow_length (vals : Nat → K) (lo hi : K) : ∀ (row : List K) (k : Nat),
    (fillRow vals lo hi k row).length = row.length := by
  intro row
  induction row with
  | nil => intro k; rfl
  | cons x xs ih =>
    intro k
    simp only [fillRow]
    split <;> simp [ih]

theorem redrawRows_map_length (draw : Nat → Nat → K) : ∀ (c : Nat) (lb ub : List K) (rows : List (List K)),
    rows.length ≤ lb.length → rows.length ≤ ub.length →
    (redrawRows draw c lb ub rows).2.map List.length = rows.map List.length := by
  intro c lb ub rows
  fun_induction redrawRows draw c lb ub rows with
  | case1 c l lb u ub row rows h0 ih =>
    intro h1 h2
    simp only [List.length_cons, Nat.add_le_add_iff_right] at h1 h2
    simp [ih h1 h2]
  | case2 c l lb u ub row rows h0 ih =>
    intro h1 h2
    simp only [List.length_cons, Nat.add_le_add_iff_right] at h1 h2
    simp [ih h1 h2, fillRow_length]
  | case3 lb c ub rows hne =>
    intro h1 h2
    cases rows with
    | nil => rfl
    | cons row rows =>
      cases lb with
      | nil => simp at h1
      | cons l lb =>
        cases ub with
        | nil => simp at h2
        | cons u ub => exact (hne l lb u ub row rows rfl rfl rfl).elim

theorem countBad_zero (lo hi : K) : ∀ row : List K, countBad lo hi row = 0 → OffB lo hi row := by
  intro row
  induction row with
  | nil => intro _ x hx; simp at hx
  | cons y ys ih =>
    intro h x hx
    simp only [countBad] at h
    have hy : onBound y lo hi = false := by
      cases hb : onBound y lo hi with
      | false => rfl
      | true => simp [hb] at h
    have h' : countBad lo hi ys = 0 := by omega
    simp only [List.mem_cons] at hx
    rcases hx with rfl | hx
    · exact hy
    · exact ih h' x hx

theorem anyBad_false : ∀ (lb ub : List K) (rows : List (List K)), anyBad lb ub rows = false →
    AllRows OffB lb ub rows := by
  intro lb ub rows
  fun_induction anyBad lb ub rows with
  | case1 l lb u ub row rows ih =>
    intro h
    simp only [Bool.or_eq_false_iff, decide_eq_false_iff_not, ne_eq, not_not] at h
    exact ⟨countBad_zero l u row h.1, ih h.2⟩
  | case2 => intros; simp [AllRows]

/-- whatever the draws: when the loop returns, every row is a clipped row (or the clipped input) without entries
on a bound, and the shape is unchanged -/
theorem resampleLoop_spec (draw : Nat → Nat → K) (lb ub : List K) (hb : BoundsOk lb ub) :
    ∀ (fuel c : Nat) (rows : List (List K)) (c' : Nat) (r : List (List K)),
    rows.length ≤ lb.length → rows.length ≤ ub.length → AllRows InR lb ub rows →
    resampleLoop draw lb ub fuel c rows = .ok (c', r) →
    AllRows InR lb ub r ∧ AllRows OffB lb ub r ∧ r.map List.length = rows.map List.length := by
  intro fuel
  induction fuel with
  | zero =>
    intro c rows c' r h1 h2 hin h
    simp only [resampleLoop] at h
    split at h
    · cases h
    · rename_i hbad
      simp only [Except.ok.injEq, Prod.mk.injEq] at h
      obtain ⟨_, rfl⟩ := h
      exact ⟨hin, anyBad_false lb ub _ (by simpa using hbad), rfl⟩
  | succ fuel ih =>
    intro c rows c' r h1 h2 hin h
    simp only [resampleLoop] at h
    split at h
    · have hl := redrawRows_map_length draw c lb ub rows h1 h2
      have hlen : (redrawRows draw c lb ub rows).2.length = rows.length := by
        have := congrArg List.length hl; simpa using this
      have hl2 := clipRows_map_length lb ub (redrawRows draw c lb ub rows).2 (by omega) (by omega)
      have hlen2 : (clipRows lb ub (redrawRows draw c lb ub rows).2).length = rows.length := by
        have := congrArg List.length hl2; simp only [List.length_map] at this; omega
      obtain ⟨a1, a2, a3⟩ := ih _ _ c' r (by omega) (by omega) (clipRows_all lb ub _ hb) h
      exact ⟨a1, a2, by rw [a3, hl2, hl]⟩
    · rename_i hbad
      simp only [Except.ok.injEq, Prod.mk.injEq] at h
      obtain ⟨_, rfl⟩ := h
      exact ⟨hin, anyBad_false lb ub _ (by simpa using hbad), rfl⟩

/-- lockstep statement -> index statement -/
theorem AllRows.index {P : K → K → List K → Prop} : ∀ (lb ub : List K) (rows : List (List K)),
    AllRows P lb ub rows → rows.length ≤ lb.length → rows.length ≤ ub.length →
    ∀ (i : Nat) (row : List K), rows[i]? = some row → ∃ l u, lb[i]? = some l ∧ ub[i]? = some u ∧ P l u row := by
  intro lb ub rows
  fun_induction AllRows P lb ub rows with
  | case1 l lb u ub row rows ih =>
    intro h h1 h2 i r hi
    simp only [List.length_cons, Nat.add_le_add_iff_right] at h1 h2
    cases i with
    | zero =>
      simp only [List.getElem?_cons_zero, Option.some.injEq] at hi
      subst hi
      exact ⟨l, u, by simp, by simp, h.1⟩
    | succ i =>
      simp only [List.getElem?_cons_succ] at hi ⊢
      exact ih h.2 h1 h2 i r hi
  | case2 lb ub rows hne =>
    intro _ h1 h2 i r hi
    cases rows with
    | nil => simp at hi
    | cons row rows =>
      cases lb with
      | nil => simp at h1
      | cons l lb =>
        cases ub with
        | nil => simp at h2
        | cons u ub => exact (hne l lb u ub row rows rfl rfl rfl).elim

theorem BoundsOk.of_index : ∀ (lb ub : List K),
    (∀ (i : Nat) (l u : K), lb[i]? = some l → ub[i]? = some u → l ≤ u) → BoundsOk lb ub := by
  intro lb ub
  fun_induction BoundsOk lb ub with
  | case1 l lb u ub ih =>
    intro h
    exact ⟨h 0 l u (by simp) (by simp), ih (fun i a b ha hb => h (i + 1) a b (by simpa using ha) (by simpa using hb))⟩
  | case2 => intros; simp [BoundsOk]

/-- `random_samples` with a distribution, all draw streams -/
theorem randomSamplesDist_spec (draw : Nat → Nat → K) (lb ub : List K) (init : List (List K)) (clip : Bool) (n c : Nat)
    (pts : List (List K)) (h : randomSamplesDist draw lb ub init clip n = .ok (c, pts))
    (hb : ∀ (i : Nat) (l u : K), lb[i]? = some l → ub[i]? = some u → l ≤ u) :
    pts.map List.length = init.map List.length ∧ pts.length = lb.length ∧
    ∀ (i : Nat) (row : List K), pts[i]? = some row → ∃ l u, lb[i]? = some l ∧ ub[i]? = some u ∧
      ∀ x ∈ row, l ≤ x ∧ x ≤ u ∧ (clip = false → l < x ∧ x < u) := by
  have hB := BoundsOk.of_index lb ub hb
  simp only [randomSamplesDist] at h
  split at h
  · cases h
  · rename_i hs
    have hs1 : init.length = lb.length := by omega
    have hs2 : ub.length = lb.length := by omega
    have hl0 := clipRows_map_length lb ub init (by omega) (by omega)
    have hlen0 : (clipRows lb ub init).length = init.length := by
      have := congrArg List.length hl0; simpa using this
    split at h
    · rename_i hc
      simp only [Except.ok.injEq, Prod.mk.injEq] at h
      obtain ⟨_, rfl⟩ := h
      refine ⟨hl0, by omega, ?_⟩
      intro i row hi
      obtain ⟨l, u, a1, a2, a3⟩ := AllRows.index lb ub _ (clipRows_all lb ub init hB) (by omega) (by omega) i row hi
      exact ⟨l, u, a1, a2, fun x hx => ⟨(a3 x hx).1, (a3 x hx).2, fun hf => by simp [hc] at hf⟩⟩
    · obtain ⟨a1, a2, a3⟩ := resampleLoop_spec draw lb ub hB _ _ _ c pts (by omega) (by omega)
        (clipRows_all lb ub init hB) h
      have hlen : pts.length = init.length := by
        have := congrArg List.length (a3.trans hl0); simpa using this
      refine ⟨a3.trans hl0, by omega, ?_⟩
      intro i row hi
      obtain ⟨l, u, b1, b2, b3⟩ := AllRows.index lb ub _ (AllRows.and lb ub _ a1 a2) (by omega) (by omega) i row hi
      refine ⟨l, u, b1, b2, fun x hx => ?_⟩
      have hr := b3.1 x hx
      have ho := (onBound_false x l u).mp (b3.2 x hx)
      exact ⟨hr.1, hr.2, fun _ => ⟨lt_of_le_of_ne hr.1 (Ne.symm ho.1), lt_of_le_of_ne hr.2 ho.2⟩⟩

/-- column `j` of a matrix all of whose rows are longer than `j` -/
theorem filterMap_col (j : Nat) : ∀ (q : List (List K)), (∀ row ∈ q, j < row.length) →
    (q.filterMap (·[j]?)).length = q.length ∧
    ∀ (i : Nat), (q.filterMap (·[j]?))[i]? = q[i]?.bind (·[j]?) := by
  intro q
  induction q with
  | nil => intro _; simp
  | cons row q ih =>
    intro h
    have hj : j < row.length := h row (by simp)
    obtain ⟨i1, i2⟩ := ih (fun r hr => h r (by simp [hr]))
    have e0 : row[j]? = some row[j] := by simp [hj]
    simp only [List.filterMap_cons, e0, List.length_cons, i1, true_and]
    intro i
    cases i with
    | zero => simp [hj]
    | succ i => simp [i2 i]

/-- `samplepts` with a distribution: `npts` points of `len(lb)` coordinates, each STRICTLY inside its range -/
theorem sampleptsDist_spec (draw : Nat → Nat → K) (lb ub : List K) (npts : Nat) (init : List (List K)) (n c : Nat)
    (pts : List (List K)) (h : sampleptsDist draw lb ub npts init n = .ok (c, pts))
    (hrows : ∀ row ∈ init, row.length = npts)
    (hb : ∀ (i : Nat) (l u : K), lb[i]? = some l → ub[i]? = some u → l ≤ u) :
    pts.length = npts ∧ ∀ p ∈ pts, p.length = lb.length ∧
      ∀ (i : Nat) (v : K), p[i]? = some v → ∃ l u, lb[i]? = some l ∧ ub[i]? = some u ∧ l < v ∧ v < u := by
  simp only [sampleptsDist] at h
  cases hr : randomSamplesDist draw lb ub init false n with
  | error e => simp [hr] at h
  | ok r =>
    obtain ⟨c0, q⟩ := r
    simp only [hr, Except.ok.injEq, Prod.mk.injEq] at h
    obtain ⟨_, rfl⟩ := h
    obtain ⟨s1, s2, s3⟩ := randomSamplesDist_spec draw lb ub init false n c0 q hr hb
    have hq : ∀ row ∈ q, row.length = npts := by
      intro row hrow
      obtain ⟨i, hi⟩ := List.getElem?_of_mem hrow
      have e1 : (q.map List.length)[i]? = some row.length := by simp [hi]
      rw [s1] at e1
      simp only [List.getElem?_map, Option.map_eq_some_iff] at e1
      obtain ⟨r0, hr0, hr1⟩ := e1
      rw [← hr1]
      exact hrows r0 (List.mem_of_getElem? hr0)
    refine ⟨by simp, ?_⟩
    intro p hp
    simp only [List.mem_map, List.mem_range] at hp
    obtain ⟨j, hj, rfl⟩ := hp
    obtain ⟨c1, c2⟩ := filterMap_col j q (fun row hrow => by rw [hq row hrow]; exact hj)
    refine ⟨by rw [c1, s2], ?_⟩
    intro i v hv
    rw [c2 i] at hv
    cases hqi : q[i]? with
    | none => simp [hqi] at hv
    | some row =>
      simp only [hqi, Option.bind_some] at hv
      obtain ⟨l, u, b1, b2, b3⟩ := s3 i row hqi
      have := b3 v (List.mem_of_getElem? hv)
      exact ⟨l, u, b1, b2, (this.2.2 rfl).1, (this.2.2 rfl).2⟩

end DistSamples
end MysticVerif.Ens

/-! ## member creation with object identity -/
namespace MysticVerif.Ens
section Template
variable {S : Type}

/-- a new ensemble: the `n` members are the `n` next free addresses, each holds the template's state with its id set,
nothing allocated before is changed -/
theorem initMembers_new (setId : S → Nat → S) (t at_ : Nat) : ∀ (n i : Nat) (h : Store S), t < h.next →
    (initMembers setId t at_ i h (List.replicate n none)).2 = List.range' h.next n ∧
    (initMembers setId t at_ i h (List.replicate n none)).1.next = h.next + n ∧
    (∀ a, a < h.next → (initMembers setId t at_ i h (List.replicate n none)).1.get a = h.get a) ∧
    (∀ k, k < n → (initMembers setId t at_ i h (List.replicate n none)).1.get (h.next + k) = setId (h.get t) (i + k + at_)) := by
  intro n
  induction n with
  | zero => intro i h _; simp [initMembers]
  | succ n ih =>
    intro i h ht
    have ht' : t < (h.alloc (setId (h.get t) (i + at_))).next := by simp only [Store.alloc]; omega
    obtain ⟨a1, a2, a3, a4⟩ := ih (i + 1) (h.alloc (setId (h.get t) (i + at_))) ht'
    have hne : t ≠ h.next := by omega
    have hget : (h.alloc (setId (h.get t) (i + at_))).get t = h.get t := by simp [Store.alloc, hne]
    have hnext : (h.alloc (setId (h.get t) (i + at_))).next = h.next + 1 := rfl
    simp only [List.replicate_succ, initMembers]
    refine ⟨?_, ?_, ?_, ?_⟩
    · rw [a1, hnext]; simp [List.range'_succ]
    · rw [a2, hnext]; omega
    · intro a ha
      rw [a3 a (by rw [hnext]; omega)]
      have : a ≠ h.next := by omega
      simp [Store.alloc, this]
    · intro k hk
      cases k with
      | zero =>
        simp only [Nat.add_zero]
        rw [a3 h.next (by rw [hnext]; omega)]
        simp [Store.alloc]
      | succ k =>
        have := a4 k (by omega)
        rw [hnext, hget] at this
        have e : h.next + (k + 1) = h.next + 1 + k := by omega
        rw [e, this]
        congr 1; omega

/-- running the members at the consecutive addresses `b, b+1, .., b+n-1` advances exactly those objects -/
theorem runMembers_range (run : Nat → S → S) : ∀ (n i0 b : Nat) (h : Store S),
    (runMembers run i0 h (List.range' b n)).next = h.next ∧
    (∀ a, (a < b ∨ b + n ≤ a) → (runMembers run i0 h (List.range' b n)).get a = h.get a) ∧
    (∀ k, k < n → (runMembers run i0 h (List.range' b n)).get (b + k) = run (i0 + k) (h.get (b + k))) := by
  intro n
  induction n with
  | zero => intro i0 b h; simp [runMembers]
  | succ n ih =>
    intro i0 b h
    obtain ⟨a1, a2, a3⟩ := ih (i0 + 1) (b + 1) (h.modify b (run i0))
    simp only [List.range'_succ, runMembers]
    refine ⟨by rw [a1]; rfl, ?_, ?_⟩
    · intro a ha
      rw [a2 a (by omega)]
      have : a ≠ b := by omega
      simp [Store.modify, this]
    · intro k hk
      cases k with
      | zero =>
        simp only [Nat.add_zero]
        rw [a2 b (by omega)]
        simp [Store.modify]
      | succ k =>
        have := a3 k (by omega)
        have e : b + (k + 1) = b + 1 + k := by omega
        have hne : b + 1 + k ≠ b := by omega
        rw [e, this]
        simp only [Store.modify, hne, if_false]
        congr 1; omega

/-- a first solve of a new ensemble -/
theorem solveNew_spec (setId : S → Nat → S) (run : Nat → S → S) (t at_ n : Nat) (h : Store S) (ht : t < h.next) :
    (solveNew setId run t at_ n h).2 = List.range' h.next n ∧
    (solveNew setId run t at_ n h).1.next = h.next + n ∧
    (∀ a, a < h.next → (solveNew setId run t at_ n h).1.get a = h.get a) ∧
    (∀ k, k < n → (solveNew setId run t at_ n h).1.get (h.next + k) = run k (setId (h.get t) (k + at_))) := by
  obtain ⟨a1, a2, a3, a4⟩ := initMembers_new setId t at_ n 0 h ht
  simp only [solveNew]
  rw [a1]
  obtain ⟨b1, b2, b3⟩ := runMembers_range run n 0 h.next (initMembers setId t at_ 0 h (List.replicate n none)).1
  refine ⟨rfl, by rw [b1, a2], ?_, ?_⟩
  · intro a ha
    rw [b2 a (Or.inl ha), a3 a ha]
  · intro k hk
    rw [b3 k hk, a4 k hk]
    simp

/-- `__init_allSolvers` in general (some slots already occupied, e.g. a second `Step`): every EMPTY slot receives a
fresh object (an address that was not allocated before - so neither the template nor any existing member) holding the
template's state with its id set; occupied slots are kept; no existing object is changed -/
theorem initMembers_general (setId : S → Nat → S) (t at_ : Nat) : ∀ (slots : List (Option Nat)) (i : Nat) (h : Store S),
    t < h.next →
    (initMembers setId t at_ i h slots).2.length = slots.length ∧
    h.next ≤ (initMembers setId t at_ i h slots).1.next ∧
    (∀ a, a < h.next → (initMembers setId t at_ i h slots).1.get a = h.get a) ∧
    (∀ k : Nat, slots[k]? = some none → ∃ a, (initMembers setId t at_ i h slots).2[k]? = some a ∧ h.next ≤ a ∧
        a < (initMembers setId t at_ i h slots).1.next ∧
        (initMembers setId t at_ i h slots).1.get a = setId (h.get t) (i + k + at_)) ∧
    (∀ (k a : Nat), slots[k]? = some (some a) → (initMembers setId t at_ i h slots).2[k]? = some a) := by
  intro slots
  induction slots with
  | nil => intro i h _; simp [initMembers]
  | cons s rest ih =>
    intro i h ht
    cases s with
    | none =>
      have ht' : t < (h.alloc (setId (h.get t) (i + at_))).next := by simp only [Store.alloc]; omega
      obtain ⟨a1, a2, a3, a4, a5⟩ := ih (i + 1) (h.alloc (setId (h.get t) (i + at_))) ht'
      have hne : t ≠ h.next := by omega
      have hget : (h.alloc (setId (h.get t) (i + at_))).get t = h.get t := by simp [Store.alloc, hne]
      have hnext : (h.alloc (setId (h.get t) (i + at_))).next = h.next + 1 := rfl
      simp only [initMembers]
      refine ⟨by simp [a1], by omega, ?_, ?_, ?_⟩
      · intro a ha
        rw [a3 a (by rw [hnext]; omega)]
        have : a ≠ h.next := by omega
        simp [Store.alloc, this]
      · intro k hk
        cases k with
        | zero =>
          refine ⟨h.next, by simp, le_refl _, by omega, ?_⟩
          rw [a3 h.next (by rw [hnext]; omega)]
          simp [Store.alloc]
        | succ k =>
          simp only [List.getElem?_cons_succ] at hk
          obtain ⟨a, b1, b2, b3, b4⟩ := a4 k hk
          refine ⟨a, by simpa using b1, by omega, b3, ?_⟩
          rw [b4, hget]
          congr 1; omega
      · intro k a hk
        cases k with
        | zero => simp at hk
        | succ k =>
          simp only [List.getElem?_cons_succ] at hk ⊢
          exact a5 k a hk
    | some a0 =>
      obtain ⟨a1, a2, a3, a4, a5⟩ := ih (i + 1) h ht
      simp only [initMembers]
      refine ⟨by simp [a1], a2, a3, ?_, ?_⟩
      · intro k hk
        cases k with
        | zero => simp at hk
        | succ k =>
          simp only [List.getElem?_cons_succ] at hk
          obtain ⟨a, b1, b2, b3, b4⟩ := a4 k hk
          refine ⟨a, by simpa using b1, b2, b3, ?_⟩
          rw [b4]
          congr 1; omega
      · intro k a hk
        cases k with
        | zero => simp at hk; simp [hk]
        | succ k =>
          simp only [List.getElem?_cons_succ] at hk ⊢
          exact a5 k a hk

end Template
end MysticVerif.Ens
