/- helper lemmas for the Powell part of C06: the two bookkeeping fields of the Powell-in-S model
   (`reqs`: requested line searches, output only; `nls`: index into the Brent oracle) are framed out of every
   function of `Model/PowellS.lean`, and the dispatching step `stepAt` is related to `gen1` / `genN` / `reach`. -/
import MysticVerif.Model.PowellResume
import MysticVerif.Proofs.PowellS

namespace MysticVerif.PowellS
open MysticVerif.Solver

variable {R E : Type}

/-! ### `reqs` is written, never read -/

theorem dirStep_setReqs (o : Obj (Pt R) E) (c : PwCfg R E) (ls : Nat → Pt R → Pt R → LsRec R) (d : Pt R) (i : Nat)
    (s : Pw R E) (r : List (Pt R × Pt R)) :
    dirStep o c ls d i (setReqs r s) = setReqs (r ++ [(s.x, d)]) (dirStep o c ls d i s) := rfl

theorem dirLoop_setReqs (o : Obj (Pt R) E) (c : PwCfg R E) (ls : Nat → Pt R → Pt R → LsRec R) :
    ∀ (ds : List (Pt R)) (i : Nat) (s : Pw R E),
      ∃ t, ∀ r, dirLoop o c ls ds i (setReqs r s) = setReqs (r ++ t) (dirLoop o c ls ds i s) := by
  intro ds
  induction ds with
  | nil => intro i s; exact ⟨[], fun r => by simp [dirLoop]⟩
  | cons d ds ih =>
    intro i s
    obtain ⟨t, ht⟩ := ih (i + 1) (dirStep o c ls d i s)
    refine ⟨(s.x, d) :: t, fun r => ?_⟩
    simp only [dirLoop, dirStep_setReqs]
    rw [ht]
    simp

theorem sweep_setReqs (o : Obj (Pt R) E) (c : PwCfg R E) (ls : Nat → Pt R → Pt R → LsRec R) (s : Pw R E) :
    ∃ t, ∀ r, sweep o c ls (setReqs r s) = setReqs (r ++ t) (sweep o c ls s) := by
  obtain ⟨t, ht⟩ := dirLoop_setReqs o c ls s.direc 0 { s with fx := s.fval, bigind := 0, delta := c.zeroE }
  refine ⟨t, fun r => ?_⟩
  have := ht r
  unfold sweep
  simp only [setReqs] at this ⊢
  rw [this]

theorem extrapolate_setReqs [Sub R] [Mul R] [LT E] [DecidableLT E] (o : Obj (Pt R) E) (c : PwCfg R E)
    (ls : Nat → Pt R → Pt R → LsRec R) (s : Pw R E) :
    ∃ t, ∀ r, extrapolate o c ls (setReqs r s) = setReqs (r ++ t) (extrapolate o c ls s) := by
  by_cases h1 : (o.objK (vsub (vscale c.two s.x) s.x1) s.log).1 < s.fx
  · by_cases h2 : c.tneg s.fx (o.objK (vsub (vscale c.two s.x) s.x1) s.log).1 s.fval s.delta = true
    · exact ⟨[(s.x, vsub s.x s.x1)], fun r => by simp [extrapolate, setReqs, h1, h2]⟩
    · exact ⟨[], fun r => by simp [extrapolate, setReqs, h1, h2]⟩
  · exact ⟨[], fun r => by simp [extrapolate, setReqs, h1]⟩

theorem genN_setReqs [Sub R] [Mul R] [LT E] [DecidableLT E] (o : Obj (Pt R) E) (c : PwCfg R E)
    (ls : Nat → Pt R → Pt R → LsRec R) (s : Pw R E) :
    ∃ t, ∀ r, genN o c ls (setReqs r s) = setReqs (r ++ t) (genN o c ls s) := by
  obtain ⟨t1, h1⟩ := extrapolate_setReqs o c ls s
  obtain ⟨t2, h2⟩ := sweep_setReqs o c ls (extrapolate o c ls s)
  refine ⟨t1 ++ t2, fun r => ?_⟩
  unfold genN
  rw [h1, h2, List.append_assoc]

theorem gen1_setReqs (o : Obj (Pt R) E) (c : PwCfg R E) (ls : Nat → Pt R → Pt R → LsRec R) (s : Pw R E) :
    ∃ t, ∀ r, gen1 o c ls (setReqs r s) = setReqs (r ++ t) (gen1 o c ls s) := by
  obtain ⟨t, ht⟩ := sweep_setReqs o c ls { s with x1 := s.x }
  exact ⟨t, fun r => ht r⟩

theorem generations_setReqs (s : Pw R E) (r : List (Pt R × Pt R)) : (setReqs r s).generations = s.generations := rfl

theorem stepAt_setReqs [Sub R] [Mul R] [LT E] [DecidableLT E] (o : Obj (Pt R) E) (c : PwCfg R E)
    (ls : Nat → Pt R → Pt R → LsRec R) (s : Pw R E) :
    ∃ t, ∀ r, stepAt o c ls (setReqs r s) = setReqs (r ++ t) (stepAt o c ls s) := by
  by_cases h : s.generations = 0
  · have e : ∀ r, stepAt o c ls (setReqs r s) = gen1 o c ls (setReqs r s) := fun r => by
      unfold stepAt; rw [if_pos (by rw [generations_setReqs]; exact h)]
    have e0 : stepAt o c ls s = gen1 o c ls s := by unfold stepAt; rw [if_pos h]
    obtain ⟨t, ht⟩ := gen1_setReqs o c ls s
    exact ⟨t, fun r => by rw [e, e0]; exact ht r⟩
  · have e : ∀ r, stepAt o c ls (setReqs r s) = genN o c ls (setReqs r s) := fun r => by
      unfold stepAt; rw [if_neg (by rw [generations_setReqs]; exact h)]
    have e0 : stepAt o c ls s = genN o c ls s := by unfold stepAt; rw [if_neg h]
    obtain ⟨t, ht⟩ := genN_setReqs o c ls s
    exact ⟨t, fun r => by rw [e, e0]; exact ht r⟩

theorem steps_setReqs [Sub R] [Mul R] [LT E] [DecidableLT E] (o : Obj (Pt R) E) (c : PwCfg R E)
    (ls : Nat → Pt R → Pt R → LsRec R) :
    ∀ (n : Nat) (s : Pw R E), ∃ t, ∀ r, steps o c ls n (setReqs r s) = setReqs (r ++ t) (steps o c ls n s) := by
  intro n
  induction n with
  | zero => intro s; exact ⟨[], fun r => by simp [steps]⟩
  | succ n ih =>
    intro s
    obtain ⟨t1, h1⟩ := stepAt_setReqs o c ls s
    obtain ⟨t2, h2⟩ := ih (stepAt o c ls s)
    refine ⟨t1 ++ t2, fun r => ?_⟩
    simp only [steps]
    rw [h1, h2, List.append_assoc]

theorem setReqs_self (s : Pw R E) : setReqs s.reqs s = s := rfl

theorem setReqs_setReqs (a b : List (Pt R × Pt R)) (s : Pw R E) : setReqs a (setReqs b s) = setReqs a s := rfl

theorem save_setReqs (r : List (Pt R × Pt R)) (s : Pw R E) : PwSnap.save (setReqs r s) = PwSnap.save s := rfl

theorem restore_save (s : Pw R E) : (PwSnap.save s).restore = setReqs [] s := rfl

theorem save_restore (p : PwSnap R E) : PwSnap.save p.restore = p := rfl

/-- two states with the same snapshot differ in the output field only -/
theorem eq_of_save_eq {s s' : Pw R E} (h : PwSnap.save s = PwSnap.save s') : s' = setReqs s'.reqs s := by
  have h2 := congrArg PwSnap.restore h
  rw [restore_save, restore_save] at h2
  have h3 := congrArg (setReqs s'.reqs) h2
  rw [setReqs_setReqs, setReqs_setReqs, setReqs_self] at h3
  exact h3.symm

/-! ### `nls` is only the index into the oracle -/

theorem dirStep_addNls (o : Obj (Pt R) E) (c : PwCfg R E) (ls : Nat → Pt R → Pt R → LsRec R) (k : Nat) (d : Pt R) (i : Nat)
    (s : Pw R E) : dirStep o c ls d i (addNls k s) = addNls k (dirStep o c (shift k ls) d i s) := by
  have h : s.nls + k + 1 = s.nls + 1 + k := Nat.add_right_comm _ _ _
  simp only [dirStep, addNls, shift, h]
  rfl

theorem dirLoop_addNls (o : Obj (Pt R) E) (c : PwCfg R E) (ls : Nat → Pt R → Pt R → LsRec R) (k : Nat) :
    ∀ (ds : List (Pt R)) (i : Nat) (s : Pw R E),
      dirLoop o c ls ds i (addNls k s) = addNls k (dirLoop o c (shift k ls) ds i s) := by
  intro ds
  induction ds with
  | nil => intro i s; rfl
  | cons d ds ih => intro i s; simp only [dirLoop, dirStep_addNls, ih]

theorem sweep_addNls (o : Obj (Pt R) E) (c : PwCfg R E) (ls : Nat → Pt R → Pt R → LsRec R) (k : Nat) (s : Pw R E) :
    sweep o c ls (addNls k s) = addNls k (sweep o c (shift k ls) s) := by
  have := dirLoop_addNls o c ls k s.direc 0 { s with fx := s.fval, bigind := 0, delta := c.zeroE }
  unfold sweep
  simp only [addNls] at this ⊢
  rw [this]

theorem extrapolate_addNls [Sub R] [Mul R] [LT E] [DecidableLT E] (o : Obj (Pt R) E) (c : PwCfg R E)
    (ls : Nat → Pt R → Pt R → LsRec R) (k : Nat) (s : Pw R E) :
    extrapolate o c ls (addNls k s) = addNls k (extrapolate o c (shift k ls) s) := by
  by_cases h1 : (o.objK (vsub (vscale c.two s.x) s.x1) s.log).1 < s.fx
  · by_cases h2 : c.tneg s.fx (o.objK (vsub (vscale c.two s.x) s.x1) s.log).1 s.fval s.delta = true
    · simp [extrapolate, addNls, shift, h1, h2, Nat.add_right_comm]
    · simp [extrapolate, addNls, h1, h2]
  · simp [extrapolate, addNls, h1]

theorem stepAt_addNls [Sub R] [Mul R] [LT E] [DecidableLT E] (o : Obj (Pt R) E) (c : PwCfg R E)
    (ls : Nat → Pt R → Pt R → LsRec R) (k : Nat) (s : Pw R E) :
    stepAt o c ls (addNls k s) = addNls k (stepAt o c (shift k ls) s) := by
  have hg : (addNls k s).generations = s.generations := rfl
  unfold stepAt
  rw [hg]
  split
  · exact sweep_addNls o c ls k { s with x1 := s.x }
  · unfold genN
    rw [extrapolate_addNls, sweep_addNls]

theorem steps_addNls [Sub R] [Mul R] [LT E] [DecidableLT E] (o : Obj (Pt R) E) (c : PwCfg R E)
    (ls : Nat → Pt R → Pt R → LsRec R) (k : Nat) :
    ∀ (n : Nat) (s : Pw R E), steps o c ls n (addNls k s) = addNls k (steps o c (shift k ls) n s) := by
  intro n
  induction n with
  | zero => intro s; rfl
  | succ n ih => intro s; simp only [steps, stepAt_addNls, ih]

/-! ### the dispatch: generation counts along a run -/

theorem steps_add [Sub R] [Mul R] [LT E] [DecidableLT E] (o : Obj (Pt R) E) (c : PwCfg R E)
    (ls : Nat → Pt R → Pt R → LsRec R) :
    ∀ (m n : Nat) (s : Pw R E), steps o c ls (m + n) s = steps o c ls n (steps o c ls m s) := by
  intro m
  induction m with
  | zero => intro n s; simp [steps]
  | succ m ih =>
    intro n s
    have : m + 1 + n = (m + n) + 1 := by omega
    rw [this]
    simp only [steps]
    exact ih n _

theorem hist_length (s : Pw R E) : s.hist.length = s.stepLog.length + (if s.pending then 1 else 0) := by
  unfold Pw.hist
  cases s.pending <;> simp

theorem sweep_generations (o : Obj (Pt R) E) (c : PwCfg R E) (ls : Nat → Pt R → Pt R → LsRec R) (s : Pw R E) :
    (sweep o c ls s).generations = s.stepLog.length := by
  unfold Pw.generations
  rw [hist_length, (sweep_stepLog o c ls s).1, (sweep_stepLog o c ls s).2]
  simp

theorem genN_generations [Sub R] [Mul R] [LinearOrder E] (o : Obj (Pt R) E) (c : PwCfg R E)
    (ls : Nat → Pt R → Pt R → LsRec R) (s : Pw R E) : (genN o c ls s).generations = s.stepLog.length + 1 := by
  unfold genN
  rw [sweep_generations, (extrapolate_stepLog_length o c ls s).1]

theorem genN_stepLog_length [Sub R] [Mul R] [LinearOrder E] (o : Obj (Pt R) E) (c : PwCfg R E)
    (ls : Nat → Pt R → Pt R → LsRec R) (s : Pw R E) : (genN o c ls s).stepLog.length = s.stepLog.length + 1 := by
  unfold genN
  rw [(sweep_stepLog o c ls _).1, (extrapolate_stepLog_length o c ls s).1]

/-- once one iteration has been completed, `_Step` is always the `else` branch -/
theorem steps_eq_run [Sub R] [Mul R] [LinearOrder E] (o : Obj (Pt R) E) (c : PwCfg R E)
    (ls : Nat → Pt R → Pt R → LsRec R) :
    ∀ (n : Nat) (s : Pw R E), 0 < s.generations → steps o c ls n s = run o c ls n s := by
  intro n
  induction n with
  | zero => intro s _; rfl
  | succ n ih =>
    intro s hs
    have hstep : stepAt o c ls s = genN o c ls s := by
      unfold stepAt
      rw [if_neg (by omega)]
    simp only [steps, run, hstep]
    exact ih _ (by rw [genN_generations]; omega)

end MysticVerif.PowellS
