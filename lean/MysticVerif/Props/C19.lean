/-
C19 - discrete measures: parameter-vector round trips and product structure.
Property theorems only (helper lemmas: Proofs/Discrete.lean, Proofs/DiscretePack.lean, Proofs/DiscreteNum.lean, ...).

Model: `MysticVerif.Discrete` (Model/Discrete.lean).  `some`/`.ok` = the call returned, `none`/`.error` = it raised.
Structural theorems hold for EVERY payload type; numeric ones for every linearly ordered field `K`
(the code's `numpy.inf` / `nan` / `sqrt` are parameters `inf nan : K`, `sqrt : K → K`).

Every theorem listed for C19 in DESIGN.md section 5 is proved below, plus (helper lemmas in Proofs/DiscreteImpose.lean,
Proofs/DiscreteUpdate.lean, Proofs/DiscreteStats.lean; model additions in Model/DiscreteExt.lean):
`constraints.impose_measure` (shape / frame / round trip, total weight and centre of mass of every factor, noweight
indices exactly 0, tracked pairs on one position), `update` for EVERY parameter length and EVERY shape (frame property),
the maximum / minimum / ptp / ess_* family, measure-level expect / support, `pof_value`, `mean_value`, `set_mean_value`,
the product-level `center_mass` setter and `measure.normalize`.
NOT covered by a theorem (correspondence + monitor only): `tools.connected` (the impose theorems take its grouping of
the pairs as given; `impose_collapse` depends on python set iteration order for chained pairs: C18), `compose(x)` with
default uniform weights (`composeU`), the malformed-shape error enum of `_unpack`, and rounding (the numeric theorems are
field statements; python's compensated `sum` and numpy reductions are not modelled).  Outside the model: `set_expect*`
(an optimizer run) and the `sampled_*` family (random sampling).
-/
import MysticVerif.Proofs.Discrete
import MysticVerif.Proofs.DiscretePack
import MysticVerif.Proofs.DiscreteNum
import MysticVerif.Proofs.DiscreteImpose
import MysticVerif.Proofs.DiscreteUpdate
import MysticVerif.Proofs.DiscreteStats
import MysticVerif.Proofs.DiscreteHeap
import Mathlib.Algebra.Order.Field.Rat
import Mathlib.Tactic.NormNum

set_option linter.unusedSectionVars false

namespace MysticVerif.C19
open MysticVerif.Discrete

variable {α : Type}

/-! ## `_nested` / `_flat` -/

/-- **nested/flat.** Re-nesting a flattened nested list with its own shape gives it back (all shapes,
empty rows included). -/
theorem nested_flat (p : List (List α)) : nested (flat p) (p.map List.length) = p := by
  have := nested_flat_aux p []
  simpa using this

/-- **flat/nested.** Flattening `_nested(params, npts)` gives the first `sum npts` parameters - all of
them when the shape fits (`flat_nested_fit`). -/
theorem flat_nested (params : List α) (npts : List Nat) :
    flat (nested params npts) = params.take npts.sum := flat_nested_take params npts

theorem flat_nested_fit (params : List α) (npts : List Nat) (h : npts.sum = params.length) :
    flat (nested params npts) = params := by
  rw [flat_nested, h, List.take_length]

/-! ## flatten -> unflatten / load (product measure and scenario) -/

/-- **unflatten ∘ flatten.** For every product measure (any number of factors, any factor sizes incl. 0
and 1, any payload) unflattening its parameter vector with its own shape returns an equal measure. -/
theorem unflatten_flatten (c : PM α) : unflatten (flatten c) (pts c) = some c := by
  have h := nestedSplit_flatten c []
  simp only [List.append_nil] at h
  simp only [unflatten, compose, h]
  exact listOfMeasures_self c

/-- **load ∘ flatten.** `self.load(c.flatten() + surplus, c.pts)` appends exactly `c` to `self`
(surplus "Y-values" are ignored); in particular `product_measure().load(c.flatten(), c.pts) = c`. -/
theorem load_flatten (self c : PM α) (surplus : List α) :
    load self (flatten c ++ surplus) (pts c) = some (self ++ c) := by
  simp only [load, truncParams_flatten, unflatten_flatten, Option.map_some]

theorem load_flatten_empty (c : PM α) : load [] (flatten c) (pts c) = some c := by
  have := load_flatten [] c []
  simpa using this

/-- **scenario load ∘ flatten.** Loading `s.flatten(all=True)` with `s`'s shape into a scenario that holds
no measures yet returns `s`'s measures; the values become `s.values` (the old ones survive only when `s`
carries none).  For a fresh `scenario()` the result equals `s` (`scenario_load_flatten_fresh`). -/
theorem scenario_load_flatten (s : Scen α) (old : List α) :
    sload ⟨[], old⟩ (sflatten s true) (pts s.pm)
      = some ⟨s.pm, if s.values = [] then old else s.values⟩ := by
  have hl := length_flatten s.pm
  simp only [sload, sflatten, if_true, load_flatten, Option.map_some, List.nil_append,
    extraParams_flatten, List.length_append, hl]
  congr 2
  by_cases hv : s.values = []
  · simp [hv]
  · have : 0 < s.values.length := List.length_pos_iff.mpr hv
    simp [hv]

theorem scenario_load_flatten_fresh (s : Scen α) :
    sload ⟨[], []⟩ (sflatten s true) (pts s.pm) = some s := by
  rw [scenario_load_flatten]
  by_cases hv : s.values = []
  · cases s; simp_all
  · cases s; simp_all

/-- the constructor `scenario(pm, values)` stores `pm` and `values` -/
theorem mkScen_spec (pm : PM α) (values : List α) : mkScen pm values = some ⟨pm, values⟩ := by
  unfold mkScen
  split
  · rename_i h; simp at h; simp [h]
  · simp [load_flatten_empty]

/-! ## compose / decompose -/

/-- **compose ∘ decompose.** -/
theorem compose_decompose (c : PM α) : compose (decompose c).1 (decompose c).2 = some c := by
  have h := nestedSplit_flatten c []
  simp only [List.append_nil] at h
  simp only [decompose, compose, h]
  exact listOfMeasures_self c

/-- what `decompose` returns: the factor positions and the factor weights -/
theorem decompose_spec (c : PM α) : decompose c = (pos c, wts c) := by
  have h := nestedSplit_flatten c []
  simp only [List.append_nil] at h
  simp [decompose, h]

/-- **decompose ∘ compose.** Whenever `compose(x, w)` returns for weights of the same shape as `x`,
decomposing gives `(x, w)` back.  (Surplus weights are silently dropped by the code, hence the shape
hypothesis; the positions come back unconditionally: `decompose_compose_positions`.) -/
theorem decompose_compose (x w : List (List α)) (c : PM α) (h : compose x w = some c)
    (hshape : x.map List.length = w.map List.length) : decompose c = (x, w) := by
  rw [decompose_spec, listOfMeasures_some h, listOfMeasures_some_wts h hshape]

theorem decompose_compose_positions (x w : List (List α)) (c : PM α) (h : compose x w = some c) :
    (decompose c).1 = x := by
  rw [decompose_spec]; exact listOfMeasures_some h

/-! ## update -/

/-- **update.** On a product measure whose factors all have at least one point, `update(params)` with
`len(params) ≥ 2*sum(pts)` returns a measure of the SAME shape whose parameter vector is exactly the first
`2*sum(pts)` parameters: every addressed weight and position takes the given number, nothing else exists to
change.  (By `unflatten_flatten` shape + parameter vector determine the measure.) -/
theorem update_spec (self : PM α) (params : List α) (hne : ∀ m ∈ self, m ≠ [])
    (hlen : 2 * (pts self).sum ≤ params.length) :
    ∃ c, update self params = some c ∧ pts c = pts self ∧
      flatten c = params.take (2 * (pts self).sum) := by
  obtain ⟨ht, hl⟩ := truncParams_length params (pts self) hlen
  obtain ⟨c, hc1, hc2, hc3⟩ := unflatten_of_length _ _ hl
  refine ⟨c, ?_, hc2, by rw [hc3, ht]⟩
  have hlen' : c.length = self.length := by
    have := congrArg List.length hc2
    simpa [pts] using this
  have hne' : ∀ m ∈ c, m ≠ [] := by
    intro m hm hm0
    have hmem : m.length ∈ pts c := List.mem_map.mpr ⟨m, hm, rfl⟩
    rw [hc2] at hmem
    obtain ⟨m', hm', hl'⟩ := List.mem_map.mp hmem
    have : m' = [] := List.eq_nil_of_length_eq_zero (by rw [hl', hm0]; rfl)
    exact hne m' hm' this
  simp only [update, hc1, Option.map_some, countP_isEmpty_zero c hne', Nat.sub_zero, hlen']
  rw [← hlen', List.take_length, hlen', List.drop_length, List.append_nil]

/-- the shape hypothesis of `update_spec` cannot be dropped: with an EMPTY first factor the code counts it
in `zo = pm.count([])` and keeps the old last factor (shape (0,1): the update is lost).  Outside the
property's quantifier (factor sizes ≥ 1); recorded so that the model provably mirrors the code here. -/
theorem update_empty_factor_witness :
    update ([[], [⟨0, 1⟩]] : PM Nat) [5, 7] = some [[], [⟨0, 1⟩]] := by decide

/-- **scenario update.** As `update_spec` for the measures; the values: the list keeps its length, its
first `min (#given) (#old)` entries are replaced by the given surplus parameters, the rest is kept. -/
theorem supdate_spec (self : Scen α) (params : List α) (hne : ∀ m ∈ self.pm, m ≠ [])
    (hlen : 2 * (pts self.pm).sum ≤ params.length) :
    ∃ s, supdate self params = some s ∧ pts s.pm = pts self.pm ∧
      flatten s.pm = params.take (2 * (pts self.pm).sum) ∧
      s.values.length = self.values.length ∧
      ∀ i, s.values[i]? =
        if i < (params.drop (2 * (pts self.pm).sum)).length ∧ i < self.values.length
        then (params.drop (2 * (pts self.pm).sum))[i]? else self.values[i]? := by
  obtain ⟨c, hc1, hc2, hc3⟩ := update_spec self.pm params hne hlen
  have hs : supdate self params = some ⟨c,
      if params.length > 2 * (pts self.pm).sum
      then (extraParams params (pts self.pm)).take self.values.length
        ++ self.values.drop (extraParams params (pts self.pm)).length
      else self.values⟩ := by
    simp only [supdate, hc1, Option.map_some]
  refine ⟨_, hs, hc2, hc3, ?_, ?_⟩
  · simp only [extraParams]
    split
    · simp; omega
    · rfl
  · intro i
    simp only [extraParams]
    generalize hv : params.drop (2 * (pts self.pm).sum) = v
    split
    · by_cases hi : i < v.length ∧ i < self.values.length
      · rw [if_pos hi, List.getElem?_append_left (by rw [List.length_take]; omega),
          List.getElem?_take_of_lt hi.2]
      · rw [if_neg hi]
        by_cases h1 : i < self.values.length
        · have h2 : v.length ≤ i := by
            by_contra hc; exact hi ⟨by omega, h1⟩
          have hmin : (List.take self.values.length v).length = v.length := by
            rw [List.length_take]; omega
          rw [List.getElem?_append_right (by omega), hmin, List.getElem?_drop]
          congr 1; omega
        · have h3 : self.values.length ≤ i := by omega
          rw [List.getElem?_eq_none (by rw [List.length_append, List.length_take, List.length_drop]; omega),
            List.getElem?_eq_none h3]
    · rename_i hle
      have : v = [] := by
        apply List.eq_nil_of_length_eq_zero
        rw [← hv, List.length_drop]; omega
      simp [this]

/-! ### update for EVERY parameter length and EVERY shape (the frame property) -/

/-- **update, every prefix length** (factors of at least one point; NO assumption on `len(params)`).
`update(params)` always returns a measure `r` with the same number of factors, and there is a cut `k` with:
* every factor from `k` on is UNCHANGED (`r[i] = self[i]`): nothing past the addressed prefix is touched;
* factor `i` lies before the cut exactly when the parameters reach past its weights block
  (`2*sum(pts[:i]) + pts[i] < len(params)`), and then it is non-empty and is the factor built from the parameters
  (`updU`: weights block zipped with the positions block as far as the positions go);
* whenever the parameters cover the first `j` factors completely (`2*sum(pts[:j]) ≤ len(params)`), those factors
  keep their sizes and their parameter vector is EXACTLY `params[:2*sum(pts[:j])]`.
`j = len(self)` gives `update_spec` back.  The factor at the cut whose positions block is only partly given is
rebuilt SHORTER (`update_short_params_witness`): the docstring assumes `len(params) >= 2*sum(pts)`. -/
theorem update_every_prefix (self : PM α) (params : List α) (hne : ∀ m ∈ self, m ≠ []) :
    ∃ k r, update self params = some r ∧ r.length = self.length ∧ k ≤ self.length ∧
      r = (updU self params).take k ++ self.drop k ∧
      (∀ i, k ≤ i → r[i]? = self[i]?) ∧
      (∀ i, i < k → ∃ m, r[i]? = some m ∧ m ≠ []) ∧
      (∀ i (hi : i < (pts self).length),
        (i < k ↔ 2 * ((pts self).take i).sum + (pts self)[i] < params.length)) ∧
      (∀ j, j ≤ self.length → 2 * ((pts self).take j).sum ≤ params.length →
        j ≤ k ∧ pts (r.take j) = (pts self).take j ∧
          flatten (r.take j) = params.take (2 * ((pts self).take j).sum)) :=
  Discrete.update_every_prefix self params hne

/-- outside the documented precondition (`len(params) < 2*sum(pts)`): a weights block without any position is
dropped (the addressed weights are NOT applied), a partly given positions block SHRINKS the factor. -/
theorem update_short_params_witness :
    update ([[⟨1, 10⟩, ⟨2, 20⟩]] : PM Nat) [5, 6] = some [[⟨1, 10⟩, ⟨2, 20⟩]] ∧
    update ([[⟨1, 10⟩, ⟨2, 20⟩]] : PM Nat) [5, 6, 7] = some [[⟨5, 7⟩]] ∧
    update ([[⟨1, 10⟩], [⟨2, 20⟩, ⟨3, 30⟩]] : PM Nat) [5, 6, 7, 8] = some [[⟨5, 6⟩], [⟨2, 20⟩, ⟨3, 30⟩]] := by decide

/-- **update, every shape** (empty factors included; parameters long enough).  With `z` empty factors in the
shape, the first `len - z` factors of the result are exactly the factors described by the parameters (`c`, the
measure of the same shape whose parameter vector is `params[:2*sum(pts)]`) and the LAST `z` factors are the old
ones: `zo = pm.count([])` also counts the factors that are empty by shape.  Without empty factors (`z = 0`) this
is `update_spec`; with the empty factors at the end nothing is lost either; `update_empty_factor_witness` is the
other case. -/
theorem update_any_shape (self : PM α) (params : List α) (hlen : 2 * (pts self).sum ≤ params.length) :
    ∃ c, unflatten (params.take (2 * (pts self).sum)) (pts self) = some c ∧ pts c = pts self ∧
      flatten c = params.take (2 * (pts self).sum) ∧
      update self params = some (c.take (self.length - (pts self).count 0) ++
        self.drop (self.length - (pts self).count 0)) :=
  Discrete.update_any_shape self params hlen

/-- **scenario update, every parameter length and shape.**  `scenario.update` always returns; its measures are
those of `product_measure.update`; the values keep their number, entry `i` is replaced by surplus parameter `i`
exactly when both exist (a prefix of length `min(#surplus, #values)`), every other value is unchanged. -/
theorem supdate_every_prefix (self : Scen α) (params : List α) :
    ∃ s, supdate self params = some s ∧ update self.pm params = some s.pm ∧
      s.values.length = self.values.length ∧
      ∀ i, s.values[i]? =
        if i < (params.drop (2 * (pts self.pm).sum)).length ∧ i < self.values.length
        then (params.drop (2 * (pts self.pm).sum))[i]? else self.values[i]? := by
  obtain ⟨c, hc1⟩ : ∃ c, update self.pm params = some c := ⟨_, update_eq self.pm params⟩
  have hs : supdate self params = some ⟨c,
      if params.length > 2 * (pts self.pm).sum
      then (extraParams params (pts self.pm)).take self.values.length
        ++ self.values.drop (extraParams params (pts self.pm)).length
      else self.values⟩ := by
    simp only [supdate, hc1, Option.map_some]
  refine ⟨_, hs, hc1, ?_, ?_⟩
  · simp only [extraParams]
    split
    · simp; omega
    · rfl
  · intro i
    simp only [extraParams]
    generalize hv : params.drop (2 * (pts self.pm).sum) = v
    split
    · by_cases hi : i < v.length ∧ i < self.values.length
      · rw [if_pos hi, List.getElem?_append_left (by rw [List.length_take]; omega),
          List.getElem?_take_of_lt hi.2]
      · rw [if_neg hi]
        by_cases h1 : i < self.values.length
        · have h2 : v.length ≤ i := by
            by_contra hc; exact hi ⟨by omega, h1⟩
          have hmin : (List.take self.values.length v).length = v.length := by
            rw [List.length_take]; omega
          rw [List.getElem?_append_right (by omega), hmin, List.getElem?_drop]
          congr 1; omega
        · have h3 : self.values.length ≤ i := by omega
          rw [List.getElem?_eq_none (by rw [List.length_append, List.length_take, List.length_drop]; omega),
            List.getElem?_eq_none h3]
    · rename_i hle
      have : v = [] := by
        apply List.eq_nil_of_length_eq_zero
        rw [← hv, List.length_drop]; omega
      simp [this]

/-! ## `_pack` / `_unpack` and the product structure -/

/-- **unpack ∘ pack.** For a non-empty list of non-empty factors `_unpack(_pack(s), shape of s)` returns `s`
(all shapes: unequal sizes, size 1). -/
theorem unpack_pack (s : List (List α)) (hs : s ≠ []) (hne : ∀ r ∈ s, r ≠ []) :
    unpack (pack s) (s.map List.length) = .ok s := Discrete.unpack_pack s hs hne

/-- the positions setter round trip `c.positions = c.positions` un-packs to the factor positions -/
theorem unpack_positions (c : PM α) (hc : c ≠ []) (hne : ∀ m ∈ c, m ≠ []) :
    unpack (positions c) (pts c) = .ok (pos c) := Discrete.unpack_positions c hc hne

/-- **pack order** (the documented one: FIRST factor fastest).  Entry `k` of `_pack(s0 :: rest)` is entry
`k % |s0|` of the first factor followed by entry `k / |s0|` of `_pack(rest)`; with `pack [] = [()]` this
determines every entry: coordinate `i` of entry `k` is `s_i[(k / (n_0⋯n_{i-1})) % n_i]`. -/
theorem pack_order (s0 : List α) (rest : List (List α)) (k : Nat) (h0 : 0 < s0.length) :
    (pack (s0 :: rest))[k]? = (pack rest)[k / s0.length]?.bind (fun t => s0[k % s0.length]?.map (· :: t)) :=
  pack_getElem?_divmod s0 rest k h0

/-- the number of product points is `npts = ∏ pts` -/
theorem positions_length (c : PM α) : (positions c).length = npts c := Discrete.positions_length c

/-- the product positions are tuples with one coordinate per factor -/
theorem positions_tuple_length (c : PM α) : ∀ t ∈ positions c, t.length = c.length := by
  intro t ht
  have := pack_mem_length (pos c) t ht
  simpa [pos] using this

section field
variable {K : Type} [Field K] [LinearOrder K] [IsStrictOrderedRing K]

/-- **product weights.** The weight of product point `k` is (weight `k % n_0` of the first factor) ×
(weight `k / n_0` of the product of the remaining factors); the empty product has the single weight 1.
Same indexing as `pack_order`, so weight `k` belongs to position `k`. -/
theorem product_weights (m : Measure K) (c : PM K) (k : Nat) (h0 : 0 < m.length) :
    (weights (m :: c))[k]? =
      (weights c)[k / m.length]?.bind (fun wr => (mweights m)[k % m.length]?.map (· * wr)) :=
  weights_getElem? m c k h0

theorem product_weights_nil : weights ([] : PM K) = [1] := by
  simp [weights, wts, pack, prodL]

theorem weights_length (c : PM K) : (weights c).length = npts c := by
  simp only [weights, List.length_map, pack_length, npts, pts, wts, List.map_map]
  congr 1
  apply List.map_congr_left
  intro m _
  simp

/-- **total mass = product of the factor masses.** -/
theorem mass_prod (c : PM K) : (weights c).sum = (mass c).prod := weights_sum_eq c

/-- the model's sequential sums/products are the ordinary `List.sum` / `List.prod` over a field -/
theorem mass_def (c : PM K) : mass c = c.map (fun m => (mweights m).sum) := by
  simp [mass, sumL_eq_sum]

/-! ## statistics = explicit sums over the weighted product points

`L = zip positions weights` are the weighted points; `positions_length`/`weights_length` show no point is
lost by the zip. -/

/-- **expect.** If the total weight is non-zero, `expect(f) = (Σ_p w_p f(p)) / Σ_p w_p`
(the points of weight zero, which the code skips without evaluating `f`, contribute nothing). -/
theorem expect_def (inf : K) (c : PM K) (f : List K → K)
    (hw : (weights c).sum ≠ 0) :
    expect inf c f =
      ((List.zip (positions c) (weights c)).map fun xw => xw.2 * f xw.1).sum / (weights c).sum := by
  have hlen : (positions c).length = (weights c).length := by
    rw [positions_length, weights_length]
  exact expectation_eq inf f (positions c) (weights c) hlen hw

/-- **expect_var.** `expect_var(f) = (Σ_p w_p (f(p) - E)^2) / Σ_p w_p` with `E = expect(f)`. -/
theorem expect_var_def (inf : K) (c : PM K) (f : List K → K)
    (hw : (weights c).sum ≠ 0) :
    expectVar inf c f =
      ((List.zip (positions c) (weights c)).map fun xw =>
        xw.2 * ((f xw.1 - expect inf c f) * (f xw.1 - expect inf c f))).sum / (weights c).sum := by
  have hlen : (positions c).length = (weights c).length := by
    rw [positions_length, weights_length]
  exact expectedVariance_eq inf f (positions c) (weights c) hlen hw

/-- **pof.** `pof(f)` is the total weight of the product points with `f(p) ≤ 0`. -/
theorem pof_def (c : PM K) (f : List K → K) :
    pof c f = (((List.zip (positions c) (weights c)).filter fun xw => decide (f xw.1 ≤ 0)).map (·.2)).sum :=
  pofL_eq f (positions c) (weights c)

/-- **support.** `support(tol)` returns, in order, the product positions whose weight exceeds `tol`, and
`support_index(tol)` their indices. -/
theorem support_def (c : PM K) (tol : K) :
    support c tol = some (((List.zip (positions c) (weights c)).filter fun xw => decide (tol < xw.2)).map (·.1))
    ∧ ∀ i, i ∈ supportIndex c tol ↔ ∃ w, (weights c)[i]? = some w ∧ tol < w := by
  have hlen : (positions c).length = (weights c).length := by
    rw [positions_length, weights_length]
  exact ⟨supportL_eq (positions c) (weights c) tol hlen, fun i => mem_supportIndexL (weights c) tol i⟩

/-! ## setting center_mass / range / var on a measure achieves the value -/

/-- **center_mass.** With non-zero total weight, `m.center_mass = v` makes the weighted mean `v`
(weights untouched). -/
theorem set_center_mass (inf : K) (m : Measure K) (v : K) (hw : (mweights m).sum ≠ 0) :
    centerMass inf (setCenterMass inf m v) = v ∧ mweights (setCenterMass inf m v) = mweights m :=
  setCenterMass_spec inf m v hw

/-- **range.** With non-zero total weight, a non-degenerate spread and a target `r ≥ 0`,
`m.range = r` makes `max - min` of the positions equal to `r`, keeps the weighted mean and the weights. -/
theorem set_range (inf nan : K) (m : Measure K) (r sr : K) (hw : (mweights m).sum ≠ 0)
    (hsr : range m = some sr) (hsr0 : sr ≠ 0) (hr : 0 ≤ r) :
    ∃ m', setRange inf nan m r = some m' ∧ range m' = some r ∧
      centerMass inf m' = centerMass inf m ∧ mweights m' = mweights m :=
  setRange_spec inf nan m r sr hw hsr hsr0 hr

/-- **var.** With non-zero total weight and non-zero variance, `m.var = v` (with `sqrt` a function that
satisfies `sqrt(v/var)^2 = v/var` at the one argument used) makes the weighted variance `v` and keeps the
weighted mean and the weights. -/
theorem set_var (inf nan : K) (sqrt : K → K) (m : Measure K) (v : K) (hw : (mweights m).sum ≠ 0)
    (hv0 : variance inf m ≠ 0)
    (hsqrt : sqrt (v / variance inf m) * sqrt (v / variance inf m) = v / variance inf m) :
    variance inf (setVar inf nan sqrt m v) = v ∧
      centerMass inf (setVar inf nan sqrt m v) = centerMass inf m ∧
      mweights (setVar inf nan sqrt m v) = mweights m :=
  setVar_spec inf nan sqrt m v hw hv0 hsqrt

end field

/-! ## `constraints.impose_measure(npts, tracking, noweight)` (constraints.py l.1758-1826)

`imposeMeasure inf npts tracking noweight x` is what the decorated function hands to `f`.  `tracking` is the
sequence of `(factor, groups)` items in the order the code visits them (`groups` = `tools.connected(pairs)`
of that factor, each group `(key, members)`), `noweight` the sequence of `(factor, indices)` items.
The loaded measure is `c = unflatten(x[:2*sum(npts)], npts)`, the result is `flatten (imposeOn .. c)`. -/

section impose
variable {K : Type} [Field K] [LinearOrder K] [IsStrictOrderedRing K]

/-- **impose_measure: shape, frame, round trip.**  For every parameter vector of at least `2*sum(npts)`
numbers: the result is the flattening of a measure `c'` of the SAME shape (so unflattening it with `npts` gives
`c'` back, surplus parameters are dropped), and every factor that neither `tracking` nor `noweight` addresses
is, in `c'`, exactly the factor loaded from `x` - flatten -> impose -> unflatten only changes what it addresses. -/
theorem impose_measure_frame (inf : K) (npts : List Nat) (tr : List (Nat × List (Nat × List Nat)))
    (nw : List (Nat × List Nat)) (x : List K) (hlen : 2 * npts.sum ≤ x.length) :
    ∃ c, unflatten (x.take (2 * npts.sum)) npts = some c ∧ pts c = npts ∧
      imposeMeasure inf npts tr nw x = some (flatten (imposeOn inf tr nw c)) ∧
      (flatten (imposeOn inf tr nw c)).length = 2 * npts.sum ∧
      pts (imposeOn inf tr nw c) = npts ∧
      unflatten (flatten (imposeOn inf tr nw c)) npts = some (imposeOn inf tr nw c) ∧
      ∀ k, (∀ kv ∈ tr, kv.1 ≠ k) → (∀ kv ∈ nw, kv.1 ≠ k) → (imposeOn inf tr nw c)[k]? = c[k]? := by
  obtain ⟨c, h1, h2, _, h4⟩ := imposeMeasure_eq inf npts tr nw x hlen
  have hp := imposeOn_pts inf tr nw c
  refine ⟨c, h1, h2, h4, ?_, by rw [hp, h2], ?_, fun k a b => imposeOn_frame inf tr nw c k a b⟩
  · rw [length_flatten, hp, h2]
  · have := unflatten_flatten (imposeOn inf tr nw c)
    rwa [hp, h2] at this

/-- **impose_measure keeps the weight norm and the centre of mass of EVERY factor** (what `impose_collapse` and
`impose_unweighted` document as "norm-preserving for weights, mean-preserving for samples").  For a factor `m`
of the loaded measure with non-negative weights of positive total, whose collapse groups are well formed (key in
range and not among its own members) and whose `noweight` selections leave at least one point: the factor `m'`
of the result has the same number of points, non-negative weights, the same total weight and the same centre of
mass - whatever the other factors are and however many items address it. -/
theorem impose_measure_kept (inf : K) (tr : List (Nat × List (Nat × List Nat))) (nw : List (Nat × List Nat))
    (c : PM K) (k : Nat) (m : Measure K) (hm : c[k]? = some m)
    (hnn : ∀ w ∈ mweights m, 0 ≤ w) (hpos : 0 < (mweights m).sum)
    (htr : ∀ kv ∈ tr, kv.1 = k → ∀ g ∈ kv.2, GroupOK m.length g)
    (hnw : ∀ kv ∈ nw, kv.1 = k → ∃ i, i < m.length ∧ i ∉ kv.2) :
    ∃ m', (imposeOn inf tr nw c)[k]? = some m' ∧ m'.length = m.length ∧
      (∀ w ∈ mweights m', 0 ≤ w) ∧ (mweights m').sum = (mweights m).sum ∧
      centerMass inf m' = centerMass inf m := by
  obtain ⟨m', h1, h2⟩ := imposeOn_kept inf tr nw c k m hm hnn hpos htr hnw
  exact ⟨m', h1, h2.len, h2.nonneg, h2.mass, h2.cm⟩

/-- **noweight: the selected weights are zero.**  With one `noweight` dict (distinct factor keys), for the item
`(k, indices)`: every selected in-range index of factor `k` has weight exactly 0 in the result (hypotheses on the
factor as in `impose_measure_kept`). -/
theorem impose_measure_noweight_zero (inf : K) (tr : List (Nat × List (Nat × List Nat)))
    (nw : List (Nat × List Nat)) (c : PM K) (hnd : (nw.map (·.1)).Nodup) (kv : Nat × List Nat) (hkv : kv ∈ nw)
    (m : Measure K) (hm : c[kv.1]? = some m) (hnn : ∀ w ∈ mweights m, 0 ≤ w) (hpos : 0 < (mweights m).sum)
    (htr : ∀ t ∈ tr, t.1 = kv.1 → ∀ g ∈ t.2, GroupOK m.length g)
    (hout : ∃ i, i < m.length ∧ i ∉ kv.2) :
    ∃ m', (imposeOn inf tr nw c)[kv.1]? = some m' ∧
      ∀ p ∈ kv.2, p < m.length → (mweights m')[p]? = some 0 := by
  obtain ⟨m1, h1, hk⟩ := imposeOn_kept inf tr [] c kv.1 m hm hnn hpos htr (by simp)
  have e1 : imposeOn inf tr [] c = applyOps (collapseM inf) tr c := rfl
  rw [e1] at h1
  refine ⟨unweightM inf kv.2 m1, ?_, ?_⟩
  · rw [imposeOn_eq, applyOps_nodup (unweightM inf) nw _ hnd kv hkv, h1]; rfl
  · intro p hp hpn
    rw [(unweightM_parts inf kv.2 m1).2]
    have hl : (mpositions m1).length = (mweights m1).length := by simp
    obtain ⟨_, _, _, _, _, h6⟩ := imposeUnweighted_spec inf kv.2 (mpositions m1) (mweights m1) hl hk.nonneg
      (by rw [hk.mass]; exact hpos) (by rw [length_mweights, hk.len]; exact hout)
    exact h6 p hp (by rw [length_mweights, hk.len]; exact hpn)

/-- **tracking: the paired positions coincide (and the removed weight is zero).**  With one `tracking` dict
(distinct factor keys), for the item `(k, groups)` with well-formed, pairwise disjoint groups: every in-range
member `p` of a group with key `i` has, in the result, the position of `i` - also after any `noweight` items -
and, when no `noweight` item addresses factor `k`, weight exactly 0. -/
theorem impose_measure_collapsed (inf : K) (tr : List (Nat × List (Nat × List Nat)))
    (nw : List (Nat × List Nat)) (c : PM K) (hnd : (tr.map (·.1)).Nodup)
    (kv : Nat × List (Nat × List Nat)) (hkv : kv ∈ tr) (m : Measure K) (hm : c[kv.1]? = some m)
    (hok : ∀ g ∈ kv.2, GroupOK m.length g)
    (hdis : kv.2.Pairwise fun a b => ∀ p, inGroup a p → ¬ inGroup b p)
    (g : Nat × List Nat) (hg : g ∈ kv.2) (p : Nat) (hp : p ∈ g.2) (hpn : p < m.length) :
    ∃ m', (imposeOn inf tr nw c)[kv.1]? = some m' ∧
      (mpositions m')[p]? = (mpositions m')[g.1]? ∧
      ((∀ t ∈ nw, t.1 ≠ kv.1) → (mweights m')[p]? = some 0) := by
  have h1 : (applyOps (collapseM inf) tr c)[kv.1]? = some (collapseM inf kv.2 m) := by
    rw [applyOps_nodup (collapseM inf) tr c hnd kv hkv, hm]; rfl
  obtain ⟨hpos', hw'⟩ := collapseM_member inf kv.2 m hok hdis g hg p hp hpn
  rw [imposeOn_eq]
  have hlt : kv.1 < (applyOps (unweightM inf) nw (applyOps (collapseM inf) tr c)).length := by
    rw [applyOps_length, applyOps_length]; exact (List.getElem?_eq_some_iff.mp hm).1
  refine ⟨_, List.getElem?_eq_getElem hlt, ?_, ?_⟩
  · apply applyOps_inv (unweightM inf) nw kv.1 (fun a => (mpositions a)[p]? = (mpositions a)[g.1]?)
      (fun t _ _ a ha => unweightM_samepos inf t.2 a p g.1 ha) _ _ _ (List.getElem?_eq_getElem hlt)
    intro a ha
    rw [h1] at ha
    rw [← Option.some.inj ha]; exact hpos'
  · intro hfree
    have := applyOps_frame (unweightM inf) nw (applyOps (collapseM inf) tr c) kv.1 hfree
    rw [List.getElem?_eq_getElem hlt, h1] at this
    rw [Option.some.inj this]; exact hw'

end impose

/-! ## the other deterministic statistics: maximum / minimum / ptp / ess_*, measure-level expect / support,
`pof_value`, `mean_value`, product-level `center_mass`, `normalize` (Model/DiscreteExt.lean)

`product_measure.maximum(f)` is, in the code, `max([i.maximum(f) for i in self])`: `f` is applied to the 1-tuples
`(x,)` of every FACTOR's positions (not to the product positions) and the maximum over all factors is returned. -/

section stats
variable {K : Type} [Field K] [LinearOrder K] [IsStrictOrderedRing K]

/-- **measure.expect / expect_var** = the explicit weighted sums over the measure's points (as 1-tuples). -/
theorem measure_expect_def (inf : K) (m : Measure K) (f : List K → K) (hw : (mweights m).sum ≠ 0) :
    mExpect inf m f = ((List.zip (singles m) (mweights m)).map fun xw => xw.2 * f xw.1).sum / (mweights m).sum ∧
    mExpectVar inf m f = ((List.zip (singles m) (mweights m)).map fun xw =>
        xw.2 * ((f xw.1 - mExpect inf m f) * (f xw.1 - mExpect inf m f))).sum / (mweights m).sum :=
  ⟨expectation_eq inf f (singles m) (mweights m) (by simp [singles]) hw,
   expectedVariance_eq inf f (singles m) (mweights m) (by simp [singles]) hw⟩

/-- **measure.support / support_index**: the positions / indices with `weight > tol`, in order. -/
theorem measure_support_def (m : Measure K) (tol : K) :
    mSupport m tol = some (((List.zip (mpositions m) (mweights m)).filter fun xw => decide (tol < xw.2)).map (·.1))
    ∧ ∀ i, i ∈ mSupportIndex m tol ↔ ∃ w, (mweights m)[i]? = some w ∧ tol < w :=
  ⟨supportL_eq (mpositions m) (mweights m) tol (by simp), fun i => mem_supportIndexL (mweights m) tol i⟩

/-- **measure.maximum / minimum**: raise exactly on the empty measure; otherwise the greatest / least value of
`f((x,))` over the measure's positions, attained at one of them. -/
theorem measure_maximum_def (f : List K → K) (m : Measure K) : (mMaximum f m = none ↔ m = []) ∧
    ∀ v, mMaximum f m = some v → (∃ p ∈ m, f [p.position] = v) ∧ ∀ p ∈ m, f [p.position] ≤ v :=
  mMaximum_spec f m

theorem measure_minimum_def (f : List K → K) (m : Measure K) : (mMinimum f m = none ↔ m = []) ∧
    ∀ v, mMinimum f m = some v → (∃ p ∈ m, f [p.position] = v) ∧ ∀ p ∈ m, v ≤ f [p.position] :=
  mMinimum_spec f m

/-- **measure.ess_maximum / ess_minimum**: the same over the points with `weight > tol`; raise exactly when no
point has support. -/
theorem measure_ess_maximum_def (f : List K → K) (tol : K) (m : Measure K) :
    (mEssMaximum f tol m = none ↔ ∀ p ∈ m, ¬ tol < p.weight) ∧
    ∀ v, mEssMaximum f tol m = some v →
      (∃ p ∈ m, tol < p.weight ∧ f [p.position] = v) ∧ ∀ p ∈ m, tol < p.weight → f [p.position] ≤ v :=
  mEssMaximum_spec f tol m

theorem measure_ess_minimum_def (f : List K → K) (tol : K) (m : Measure K) :
    (mEssMinimum f tol m = none ↔ ∀ p ∈ m, ¬ tol < p.weight) ∧
    ∀ v, mEssMinimum f tol m = some v →
      (∃ p ∈ m, tol < p.weight ∧ f [p.position] = v) ∧ ∀ p ∈ m, tol < p.weight → v ≤ f [p.position] :=
  mEssMinimum_spec f tol m

/-- **measure.ptp / ess_ptp** = maximum − minimum (resp. over the support). -/
theorem measure_ptp_def (f : List K → K) (tol : K) (m : Measure K) :
    (mPtp f m = match mMaximum f m, mMinimum f m with
      | some a, some b => some (a - b)
      | _, _ => none) ∧
    (mEssPtp f tol m = match mEssMaximum f tol m, mEssMinimum f tol m with
      | some a, some b => some (a - b)
      | _, _ => none) :=
  ⟨mPtp_eq f m, mEssPtp_eq f tol m⟩

/-- **product_measure.maximum**: raises exactly when there is no factor or an empty factor; otherwise the
greatest value of `f((x,))` over ALL positions of ALL factors, attained at one of them. -/
theorem maximum_def (f : List K → K) (c : PM K) :
    (pmMaximum f c = none ↔ c = [] ∨ [] ∈ c) ∧
    ∀ v, pmMaximum f c = some v →
      (∃ m ∈ c, ∃ p ∈ m, f [p.position] = v) ∧ ∀ m ∈ c, ∀ p ∈ m, f [p.position] ≤ v := by
  obtain ⟨h1, h2⟩ := bind_allSome_maxL (mMaximum f) c
  constructor
  · rw [pmMaximum, h1]
    constructor
    · rintro (h | ⟨m, hm, hg⟩)
      · left; exact h
      · right; rw [(mMaximum_spec f m).1] at hg; rw [← hg]; exact hm
    · rintro (h | h)
      · left; exact h
      · right; exact ⟨[], h, (mMaximum_spec f []).1.mpr rfl⟩
  · intro v hv
    obtain ⟨⟨m, hm, hg⟩, h4⟩ := h2 v hv
    constructor
    · exact ⟨m, hm, ((mMaximum_spec f m).2 v hg).1⟩
    · intro m' hm' p hp
      cases hg' : mMaximum f m' with
      | none => rw [(mMaximum_spec f m').1] at hg'; rw [hg'] at hp; simp at hp
      | some y => exact le_trans (((mMaximum_spec f m').2 y hg').2 p hp) (h4 m' hm' y hg')

/-- **product_measure.minimum** (dual). -/
theorem minimum_def (f : List K → K) (c : PM K) :
    (pmMinimum f c = none ↔ c = [] ∨ [] ∈ c) ∧
    ∀ v, pmMinimum f c = some v →
      (∃ m ∈ c, ∃ p ∈ m, f [p.position] = v) ∧ ∀ m ∈ c, ∀ p ∈ m, v ≤ f [p.position] := by
  obtain ⟨h1, h2⟩ := bind_allSome_minL (mMinimum f) c
  constructor
  · rw [pmMinimum, h1]
    constructor
    · rintro (h | ⟨m, hm, hg⟩)
      · left; exact h
      · right; rw [(mMinimum_spec f m).1] at hg; rw [← hg]; exact hm
    · rintro (h | h)
      · left; exact h
      · right; exact ⟨[], h, (mMinimum_spec f []).1.mpr rfl⟩
  · intro v hv
    obtain ⟨⟨m, hm, hg⟩, h4⟩ := h2 v hv
    constructor
    · exact ⟨m, hm, ((mMinimum_spec f m).2 v hg).1⟩
    · intro m' hm' p hp
      cases hg' : mMinimum f m' with
      | none => rw [(mMinimum_spec f m').1] at hg'; rw [hg'] at hp; simp at hp
      | some y => exact le_trans (h4 m' hm' y hg') (((mMinimum_spec f m').2 y hg').2 p hp)

/-- **product_measure.ess_maximum / ess_minimum**: over the supported points (`weight > tol`) of all factors;
raise exactly when there is no factor or a factor without support. -/
theorem ess_maximum_def (f : List K → K) (tol : K) (c : PM K) :
    (pmEssMaximum f tol c = none ↔ c = [] ∨ ∃ m ∈ c, ∀ p ∈ m, ¬ tol < p.weight) ∧
    ∀ v, pmEssMaximum f tol c = some v →
      (∃ m ∈ c, ∃ p ∈ m, tol < p.weight ∧ f [p.position] = v) ∧
      ∀ m ∈ c, ∀ p ∈ m, tol < p.weight → f [p.position] ≤ v := by
  obtain ⟨h1, h2⟩ := bind_allSome_maxL (mEssMaximum f tol) c
  constructor
  · rw [pmEssMaximum, h1]
    constructor
    · rintro (h | ⟨m, hm, hg⟩)
      · left; exact h
      · right; exact ⟨m, hm, (mEssMaximum_spec f tol m).1.mp hg⟩
    · rintro (h | ⟨m, hm, hg⟩)
      · left; exact h
      · right; exact ⟨m, hm, (mEssMaximum_spec f tol m).1.mpr hg⟩
  · intro v hv
    obtain ⟨⟨m, hm, hg⟩, h4⟩ := h2 v hv
    constructor
    · exact ⟨m, hm, ((mEssMaximum_spec f tol m).2 v hg).1⟩
    · intro m' hm' p hp hw
      cases hg' : mEssMaximum f tol m' with
      | none => exact absurd hw ((mEssMaximum_spec f tol m').1.mp hg' p hp)
      | some y => exact le_trans (((mEssMaximum_spec f tol m').2 y hg').2 p hp hw) (h4 m' hm' y hg')

theorem ess_minimum_def (f : List K → K) (tol : K) (c : PM K) :
    (pmEssMinimum f tol c = none ↔ c = [] ∨ ∃ m ∈ c, ∀ p ∈ m, ¬ tol < p.weight) ∧
    ∀ v, pmEssMinimum f tol c = some v →
      (∃ m ∈ c, ∃ p ∈ m, tol < p.weight ∧ f [p.position] = v) ∧
      ∀ m ∈ c, ∀ p ∈ m, tol < p.weight → v ≤ f [p.position] := by
  obtain ⟨h1, h2⟩ := bind_allSome_minL (mEssMinimum f tol) c
  constructor
  · rw [pmEssMinimum, h1]
    constructor
    · rintro (h | ⟨m, hm, hg⟩)
      · left; exact h
      · right; exact ⟨m, hm, (mEssMinimum_spec f tol m).1.mp hg⟩
    · rintro (h | ⟨m, hm, hg⟩)
      · left; exact h
      · right; exact ⟨m, hm, (mEssMinimum_spec f tol m).1.mpr hg⟩
  · intro v hv
    obtain ⟨⟨m, hm, hg⟩, h4⟩ := h2 v hv
    constructor
    · exact ⟨m, hm, ((mEssMinimum_spec f tol m).2 v hg).1⟩
    · intro m' hm' p hp hw
      cases hg' : mEssMinimum f tol m' with
      | none => exact absurd hw ((mEssMinimum_spec f tol m').1.mp hg' p hp)
      | some y => exact le_trans (h4 m' hm' y hg') (((mEssMinimum_spec f tol m').2 y hg').2 p hp hw)

/-- **product_measure.ptp / ess_ptp**: the greatest per-factor spread (a factor's `ptp`, see `measure_ptp_def`),
attained by one factor. -/
theorem ptp_def (f : List K → K) (tol : K) (c : PM K) :
    (∀ v, pmPtp f c = some v → (∃ m ∈ c, mPtp f m = some v) ∧ ∀ m ∈ c, ∀ y, mPtp f m = some y → y ≤ v) ∧
    (∀ v, pmEssPtp f tol c = some v →
      (∃ m ∈ c, mEssPtp f tol m = some v) ∧ ∀ m ∈ c, ∀ y, mEssPtp f tol m = some y → y ≤ v) :=
  ⟨(bind_allSome_maxL (mPtp f) c).2, (bind_allSome_maxL (mEssPtp f tol) c).2⟩

/-- **scenario.pof_value**: the total weight of the (value, weight) pairs with `f(value) ≤ 0`
(`zip(values, weights)`: the shorter list decides). -/
theorem pof_value_def (s : Scen K) (f : K → K) :
    pofValue s f = (((List.zip s.values (weights s.pm)).filter fun vw => decide (f vw.1 ≤ 0)).map (·.2)).sum :=
  pofG_eq f s.values (weights s.pm)

/-- **scenario.mean_value / set_mean_value**: the weighted mean of the values over the product weights; setting
it achieves the target (one value per product point, total weight non-zero) and leaves the measures alone. -/
theorem mean_value_def (inf : K) (s : Scen K) (hw : (weights s.pm).sum ≠ 0) :
    meanValue inf s = (List.zipWith (· * ·) s.values (weights s.pm)).sum / (weights s.pm).sum :=
  mean_eq inf s.values (weights s.pm) hw

theorem set_mean_value (inf : K) (s : Scen K) (v : K) (hl : s.values.length = npts s.pm)
    (hw : (weights s.pm).sum ≠ 0) :
    meanValue inf (setMeanValue inf s v) = v ∧ (setMeanValue inf s v).pm = s.pm ∧
      (setMeanValue inf s v).values.length = s.values.length := by
  refine ⟨?_, rfl, by simp [setMeanValue, imposeMean]⟩
  unfold meanValue setMeanValue
  exact mean_imposeMean inf v s.values (weights s.pm) (by rw [hl, weights_length]) hw

/-- **product_measure.center_mass = v**: raises exactly when `v` has fewer entries than there are factors;
otherwise every factor's centre of mass becomes its entry (non-zero factor masses), weights untouched. -/
theorem set_center_masses (inf : K) (c : PM K) (vs : List K) :
    (vs.length < c.length → pmSetCenterMass inf c vs = none) ∧
    (c.length ≤ vs.length → (∀ m ∈ c, (mweights m).sum ≠ 0) →
      ∃ c', pmSetCenterMass inf c vs = some c' ∧ pmCenterMass inf c' = vs.take c.length ∧ wts c' = wts c) :=
  ⟨pmSetCenterMass_short inf c vs, pmSetCenterMass_spec inf c vs⟩

/-- **measure.normalize()**: non-negative weights of positive total get total weight 1; the number of points
and the centre of mass are kept. -/
theorem measure_normalize (inf : K) (m : Measure K) (hnn : ∀ w ∈ mweights m, 0 ≤ w)
    (hpos : 0 < (mweights m).sum) :
    (mNormalize inf m).length = m.length ∧ (mweights (mNormalize inf m)).sum = 1 ∧
      centerMass inf (mNormalize inf m) = centerMass inf m :=
  mNormalize_spec inf m hnn hpos

end stats

/-! ## non-vacuity: concrete, non-trivial instances -/

/-- a 3x2x1 product measure over `Nat` payloads -/
def exC : PM Nat := [[⟨1, 10⟩, ⟨2, 20⟩, ⟨3, 30⟩], [⟨4, 40⟩, ⟨5, 50⟩], [⟨6, 60⟩]]

example : flatten exC = [1, 2, 3, 10, 20, 30, 4, 5, 40, 50, 6, 60] ∧ pts exC = [3, 2, 1] := by decide
example : unflatten (flatten exC) (pts exC) = some exC := by decide
example : load [[⟨7, 70⟩]] (flatten exC ++ [99, 98]) (pts exC) = some ([[⟨7, 70⟩]] ++ exC) := by decide
example : positions exC = [[10, 40, 60], [20, 40, 60], [30, 40, 60], [10, 50, 60], [20, 50, 60], [30, 50, 60]] := by
  decide
example : update exC [9, 9, 9, 1, 1, 1, 8, 8, 2, 2, 7, 3, 55] =
    some [[⟨9, 1⟩, ⟨9, 1⟩, ⟨9, 1⟩], [⟨8, 2⟩, ⟨8, 2⟩], [⟨7, 3⟩]] := by decide
example : supdate ⟨exC, [0, 0, 0, 0, 0, 0]⟩ ([9, 9, 9, 1, 1, 1, 8, 8, 2, 2, 7, 3] ++ [55, 56]) =
    some ⟨[[⟨9, 1⟩, ⟨9, 1⟩, ⟨9, 1⟩], [⟨8, 2⟩, ⟨8, 2⟩], [⟨7, 3⟩]], [55, 56, 0, 0, 0, 0]⟩ := by decide
example : decompose exC = ([[10, 20, 30], [40, 50], [60]], [[1, 2, 3], [4, 5], [6]]) := by decide
example : (∀ m ∈ exC, m ≠ []) ∧ exC ≠ [] := by decide

/-- numeric clauses: a 2x2 product measure over `ℚ` with a zero weight (hypotheses of `expect_def`,
`expect_var_def`, `mass_prod` are met and the statistics take non-trivial values) -/
def exQ : PM ℚ := [[⟨1/2, 1⟩, ⟨1/2, 3⟩], [⟨1, 2⟩, ⟨0, 5⟩]]
theorem exQ_weights : weights exQ = [1/2, 1/2, 0, 0] := by
  norm_num [exQ, weights, wts, mweights, pack, prodL]
example : (weights exQ).sum ≠ 0 := by rw [exQ_weights]; norm_num
example : positions exQ = [[1, 2], [3, 2], [1, 5], [3, 5]] := by
  simp [exQ, positions, pos, mpositions, pack]
example : expect 0 exQ (fun x => x.headD 0) = 2 := by
  rw [expect_def 0 exQ _ (by rw [exQ_weights]; norm_num), exQ_weights]
  norm_num [exQ, positions, pos, mpositions, pack]

/-- hypotheses of the setter theorems: non-zero mass, spread 2, variance 1, and a `sqrt` for `v = 4` -/
def exM : Measure ℚ := [⟨1, 0⟩, ⟨1, 2⟩]
example : (mweights exM).sum ≠ 0 := by norm_num [exM, mweights]
example : range exM = some 2 := by norm_num [exM, range, spread, mpositions, maxL, minL]
theorem exM_var : variance 0 exM = 1 := by
  norm_num [exM, variance, moment2, mean, mpositions, mweights, sumL, truthy, absR]
example : variance 0 exM ≠ 0 ∧
    (fun _ : ℚ => (2 : ℚ)) (4 / variance 0 exM) * (fun _ : ℚ => (2 : ℚ)) (4 / variance 0 exM)
      = 4 / variance 0 exM := by
  rw [exM_var]; norm_num

/-- `impose_measure`: the docstring's first factor (`tracking = {0: {(0,1)}}`, npts (3,)) and a run with both
kinds of items; the hypotheses of the impose theorems hold for them -/
example : imposeMeasure (0 : ℚ) [3] [(0, [(0, [1])])] [] [1/2, 0, 1/2, 2, 4, 6] = some [1/2, 0, 1/2, 2, 2, 6] := by
  norm_num [imposeMeasure, load, truncParams, unflatten, nestedSplit, compose, listOfMeasures, zipMeasure, imposeOn,
    collapseAt, unweightAt, imposeCollapse, collapseGroup, collapseStep, imposeMean, mean, sumL, truthy, absR,
    rebuild, flatten, mweights, mpositions, List.modify]
example : imposeMeasure (0 : ℚ) [3] [(0, [(0, [1])])] [(0, [2])] [1/4, 1/4, 1/2, 2, 4, 6]
    = some [1, 0, 0, 9/2, 9/2, 17/2] := by
  norm_num [imposeMeasure, load, truncParams, unflatten, nestedSplit, compose, listOfMeasures, zipMeasure, imposeOn,
    collapseAt, unweightAt, imposeCollapse, imposeUnweighted, normalizeMass, collapseGroup, collapseStep, imposeMean,
    mean, sumL, truthy, absR, rebuild, flatten, mweights, mpositions, List.modify, List.mapIdx_cons]
example : GroupOK 3 (0, [1]) ∧ (∃ i, i < 3 ∧ i ∉ [2]) ∧ ([(0, [(0, [1])])].map (·.1)).Nodup ∧
    [((0 : Nat), [1])].Pairwise (fun a b => ∀ p, inGroup a p → ¬ inGroup b p) := by
  refine ⟨⟨by decide, by decide⟩, ⟨0, by decide, by decide⟩, by decide, by simp⟩

/-- update for every prefix length on the 3x2x1 example: 7 parameters cover factor 0 completely and reach one
position into factor 1 (cut k = 2, factor 2 untouched); 6 parameters stop at the cut k = 1 -/
example : update exC [9, 8, 7, 1, 2, 3, 5] = some [[⟨9, 1⟩, ⟨8, 2⟩, ⟨7, 3⟩], [⟨4, 40⟩, ⟨5, 50⟩], [⟨6, 60⟩]] := by decide
example : update exC [9, 8, 7, 1, 2, 3, 5, 6, 41] = some [[⟨9, 1⟩, ⟨8, 2⟩, ⟨7, 3⟩], [⟨5, 41⟩], [⟨6, 60⟩]] := by decide
/-- an empty factor at the end loses nothing; in front it makes the last factor keep its old numbers -/
example : update ([[⟨1, 10⟩], []] : PM Nat) [5, 7] = some [[⟨5, 7⟩], []] := by decide

/-- the statistics family on concrete measures: maximum over ALL factors' positions, ess_* with a zero weight,
a raising case, pof_value -/
example : pmMaximum (fun x : List ℚ => x.headD 0) exQ = some 5 ∧ pmMinimum (fun x : List ℚ => x.headD 0) exQ = some 1 := by
  norm_num [pmMaximum, pmMinimum, mMaximum, mMinimum, maximumL, minimumL, singles, exQ, mpositions, allSome, maxL, minL]
example : pmEssMaximum (fun x : List ℚ => x.headD 0) 0 exQ = some 3 := by
  norm_num [pmEssMaximum, mEssMaximum, essMaximumL, maximumL, singles, exQ, mpositions, mweights, allSome, maxL, supportL]
example : pmMaximum (fun x : List ℚ => x.headD 0) ([[⟨1, 2⟩], []] : PM ℚ) = none := by
  simp [pmMaximum, mMaximum, maximumL, singles, mpositions, allSome, maxL]
example : pofValue (⟨exQ, [-1, 2, -3, 4]⟩ : Scen ℚ) (fun v => v) = 1/2 := by
  rw [pof_value_def, exQ_weights]; norm_num

/-! ## shared objects (Model/DiscreteHeap): `update` / `load` on a collection whose factor objects are shared

python's containers hold OBJECTS: `product_measure([m]*2 + [n])` uses one measure object for two factors,
`product_measure(c)`, `c[:]`, `copy.copy(c)` hold the factor objects of `c`.  On the object graph (`Heap`: cells,
measure objects, collection objects) with ARBITRARY sharing: -/

section heap
open MysticVerif.DiscreteHeap

/-- **update, addressed collection (any sharing).** Whatever objects the collection shares with itself or with other
collections, what python shows for it after `update(params)` is exactly the value-level `update` of what it showed
before (and it raises exactly when that raises): so `update_spec` / `update_every_prefix` / `update_any_shape` hold for
the addressed collection object, in particular `update(p).flatten() = p`. -/
theorem heap_update_obs (h : Heap α) (hw : WF h) (cid : Nat) (hc : cid < h.colls.length) (params : List α) :
    (hUpdate h cid params).map (fun h' => obsC h' cid) = update (obsC h cid) params := by
  unfold hUpdate update
  cases hu : unflatten (truncParams params (pts (obsC h cid))) (pts (obsC h cid)) with
  | none => rfl
  | some pm =>
    obtain ⟨he, _, ho, _⟩ := allocPM_spec pm hw
    have hc' : cid < (allocPM h pm).1.colls.length := by rw [he.2.2.1]; exact hc
    simp only [Option.map_some]
    rw [obsC_setColl_same hc', List.map_append, List.map_take, ho, List.map_drop, map_obsM_ext hw he cid]
    simp [obsC]

/-- **update, frame (any sharing).** `update` on one collection object changes nothing that python shows for ANY other
collection object (also one built over the very same factor objects), for their values, or for any existing measure
object: it only allocates new objects and rebinds the entries of the addressed list. -/
theorem heap_update_frame (h h' : Heap α) (hw : WF h) (cid : Nat) (params : List α)
    (hu : hUpdate h cid params = some h') :
    (∀ cid', cid' ≠ cid → obsC h' cid' = obsC h cid') ∧ h'.vals = h.vals ∧
      (∀ mid, mid < h.meas.length → obsM h' mid = obsM h mid) := by
  unfold hUpdate at hu
  cases hq : unflatten (truncParams params (pts (obsC h cid))) (pts (obsC h cid)) with
  | none => rw [hq] at hu; cases hu
  | some pm =>
    rw [hq] at hu
    simp only [Option.map_some, Option.some.injEq] at hu
    subst hu
    obtain ⟨he, _, _, _⟩ := allocPM_spec pm hw
    refine ⟨?_, he.2.2.2.1, ?_⟩
    · intro cid' hne
      rw [obsC_setColl_other hne, obsC_ext hw he]
    · intro mid hm
      rw [obsM_setColl, obsM_ext hw he hm]

/-- **load, addressed collection (any sharing).** What python shows for the collection after `load(params, pts)` is
the value-level `load` of what it showed before: the factors already present keep their numbers, the new ones are
appended. -/
theorem heap_load_obs (h : Heap α) (hw : WF h) (cid : Nat) (hc : cid < h.colls.length) (params : List α) (p : List Nat) :
    (hLoad h cid params p).map (fun h' => obsC h' cid) = load (obsC h cid) params p := by
  unfold hLoad load
  cases hu : unflatten (truncParams params p) p with
  | none => rfl
  | some pm =>
    obtain ⟨he, _, ho, _⟩ := allocPM_spec pm hw
    have hc' : cid < (allocPM h pm).1.colls.length := by rw [he.2.2.1]; exact hc
    simp only [Option.map_some]
    rw [obsC_setColl_same hc', List.map_append, ho, map_obsM_ext hw he cid]

/-- **load, frame (any sharing).** `load` changes nothing that python shows for any other collection, for the values,
or for any existing measure object. -/
theorem heap_load_frame (h h' : Heap α) (hw : WF h) (cid : Nat) (params : List α) (p : List Nat)
    (hu : hLoad h cid params p = some h') :
    (∀ cid', cid' ≠ cid → obsC h' cid' = obsC h cid') ∧ h'.vals = h.vals ∧
      (∀ mid, mid < h.meas.length → obsM h' mid = obsM h mid) := by
  unfold hLoad at hu
  cases hq : unflatten (truncParams params p) p with
  | none => rw [hq] at hu; cases hu
  | some pm =>
    rw [hq] at hu
    simp only [Option.map_some, Option.some.injEq] at hu
    subst hu
    obtain ⟨he, _, _, _⟩ := allocPM_spec pm hw
    refine ⟨?_, he.2.2.2.1, ?_⟩
    · intro cid' hne
      rw [obsC_setColl_other hne, obsC_ext hw he]
    · intro mid hm
      rw [obsM_setColl, obsM_ext hw he hm]

/-- `product_measure([m, m])` (one two-point measure object used for both factors) and a second collection over the
same object: after `update` with four different blocks the first collection shows the four blocks, the second
collection and the measure object `m` show the old numbers -/
def exHeap : Heap Nat :=
  { cells := [⟨1, 10⟩, ⟨2, 20⟩], meas := [[0, 1]], colls := [[0, 0], [0]], vals := [[], []], scen := [false, false] }

example : WF exHeap := by
  refine ⟨?_, ?_⟩ <;> simp [exHeap]

example : (hUpdate exHeap 0 [3, 4, 30, 40, 5, 6, 50, 60]).map (fun h' => (obsC h' 0, obsC h' 1, obsM h' 0)) =
    some ([[⟨3, 30⟩, ⟨4, 40⟩], [⟨5, 50⟩, ⟨6, 60⟩]], [[⟨1, 10⟩, ⟨2, 20⟩]], [⟨1, 10⟩, ⟨2, 20⟩]) := by decide

end heap

end MysticVerif.C19
