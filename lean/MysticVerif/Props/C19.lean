/-
C19 - discrete measures: parameter-vector round trips and product structure.
Property theorems only (helper lemmas: Proofs/Discrete.lean, Proofs/DiscretePack.lean, Proofs/DiscreteNum.lean).

Model: `MysticVerif.Discrete` (Model/Discrete.lean).  `some`/`.ok` = the call returned, `none`/`.error` = it raised.
Structural theorems hold for EVERY payload type; numeric ones for every linearly ordered field `K`
(the code's `numpy.inf` / `nan` / `sqrt` are parameters `inf nan : K`, `sqrt : K → K`).

Every theorem listed for C19 in DESIGN.md section 5 is proved below.  NOT covered by a theorem (correspondence +
monitor only): `constraints.impose_measure` / `impose_collapse` / `impose_unweighted` (modelled in
Model/Discrete.lean `imposeMeasure`; `impose_collapse` depends on python set iteration order for chained pairs),
`compose(x)` with default uniform weights (`composeU`), the malformed-shape error enum of `_unpack`, and rounding
(the numeric theorems are field statements; python's compensated `sum` and numpy reductions are not modelled).
-/
import MysticVerif.Proofs.Discrete
import MysticVerif.Proofs.DiscretePack
import MysticVerif.Proofs.DiscreteNum
import Mathlib.Algebra.Order.Field.Rat
import Mathlib.Tactic.NormNum

set_option linter.unusedSectionVars false

namespace MysticVerif.C19
open MysticVerif.Discrete

variable {α : Type}

/-! ## `_nested` / `_flat` -/

/-- **nested/flat.** Re-nesting a flattened nested list with its own shape gives it back (all shapes,
empty rows included). -/
theorem nested_flat (p : List (List α)) : nested (flat p) (p.map List.length) = p := by
  have := nested_flat_aux p []
  simpa using this

/-- **flat/nested.** Flattening `_nested(params, npts)` gives the first `sum npts` parameters - all of
them when the shape fits (`flat_nested_fit`). -/
theorem flat_nested (params : List α) (npts : List Nat) :
    flat (nested params npts) = params.take npts.sum := flat_nested_take params npts

theorem flat_nested_fit (params : List α) (npts : List Nat) (h : npts.sum = params.length) :
    flat (nested params npts) = params := by
  rw [flat_nested, h, List.take_length]

/-! ## flatten -> unflatten / load (product measure and scenario) -/

/-- **unflatten ∘ flatten.** For every product measure (any number of factors, any factor sizes incl. 0
and 1, any payload) unflattening its parameter vector with its own shape returns an equal measure. -/
theorem unflatten_flatten (c : PM α) : unflatten (flatten c) (pts c) = some c := by
  have h := nestedSplit_flatten c []
  simp only [List.append_nil] at h
  simp only [unflatten, compose, h]
  exact listOfMeasures_self c

/-- **load ∘ flatten.** `self.load(c.flatten() + surplus, c.pts)` appends exactly `c` to `self`
(surplus "Y-values" are ignored); in particular `product_measure().load(c.flatten(), c.pts) = c`. -/
theorem load_flatten (self c : PM α) (surplus : List α) :
    load self (flatten c ++ surplus) (pts c) = some (self ++ c) := by
  simp only [load, truncParams_flatten, unflatten_flatten, Option.map_some]

theorem load_flatten_empty (c : PM α) : load [] (flatten c) (pts c) = some c := by
  have := load_flatten [] c []
  simpa using this

/-- **scenario load ∘ flatten.** Loading `s.flatten(all=True)` with `s`'s shape into a scenario that holds
no measures yet returns `s`'s measures; the values become `s.values` (the old ones survive only when `s`
carries none).  For a fresh `scenario()` the result equals `s` (`scenario_load_flatten_fresh`). -/
theorem scenario_load_flatten (s : Scen α) (old : List α) :
    sload ⟨[], old⟩ (sflatten s true) (pts s.pm)
      = some ⟨s.pm, if s.values = [] then old else s.values⟩ := by
  have hl := length_flatten s.pm
  simp only [sload, sflatten, if_true, load_flatten, Option.map_some, List.nil_append,
    extraParams_flatten, List.length_append, hl]
  congr 2
  by_cases hv : s.values = []
  · simp [hv]
  · have : 0 < s.values.length := List.length_pos_iff.mpr hv
    simp [hv]

theorem scenario_load_flatten_fresh (s : Scen α) :
    sload ⟨[], []⟩ (sflatten s true) (pts s.pm) = some s := by
  rw [scenario_load_flatten]
  by_cases hv : s.values = []
  · cases s; simp_all
  · cases s; simp_all

/-- the constructor `scenario(pm, values)` stores `pm` and `values` -/
theorem mkScen_spec (pm : PM α) (values : List α) : mkScen pm values = some ⟨pm, values⟩ := by
  unfold mkScen
  split
  · rename_i h; simp at h; simp [h]
  · simp [load_flatten_empty]

/-! ## compose / decompose -/

/-- **compose ∘ decompose.** -/
theorem compose_decompose (c : PM α) : compose (decompose c).1 (decompose c).2 = some c := by
  have h := nestedSplit_flatten c []
  simp only [List.append_nil] at h
  simp only [decompose, compose, h]
  exact listOfMeasures_self c

/-- what `decompose` returns: the factor positions and the factor weights -/
theorem decompose_spec (c : PM α) : decompose c = (pos c, wts c) := by
  have h := nestedSplit_flatten c []
  simp only [List.append_nil] at h
  simp [decompose, h]

/-- **decompose ∘ compose.** Whenever `compose(x, w)` returns for weights of the same shape as `x`,
decomposing gives `(x, w)` back.  (Surplus weights are silently dropped by the code, hence the shape
hypothesis; the positions come back unconditionally: `decompose_compose_positions`.) -/
theorem decompose_compose (x w : List (List α)) (c : PM α) (h : compose x w = some c)
    (hshape : x.map List.length = w.map List.length) : decompose c = (x, w) := by
  rw [decompose_spec, listOfMeasures_some h, listOfMeasures_some_wts h hshape]

theorem decompose_compose_positions (x w : List (List α)) (c : PM α) (h : compose x w = some c) :
    (decompose c).1 = x := by
  rw [decompose_spec]; exact listOfMeasures_some h

/-! ## update -/

/-- **update.** On a product measure whose factors all have at least one point, `update(params)` with
`len(params) ≥ 2*sum(pts)` returns a measure of the SAME shape whose parameter vector is exactly the first
`2*sum(pts)` parameters: every addressed weight and position takes the given number, nothing else exists to
change.  (By `unflatten_flatten` shape + parameter vector determine the measure.) -/
theorem update_spec (self : PM α) (params : List α) (hne : ∀ m ∈ self, m ≠ [])
    (hlen : 2 * (pts self).sum ≤ params.length) :
    ∃ c, update self params = some c ∧ pts c = pts self ∧
      flatten c = params.take (2 * (pts self).sum) := by
  obtain ⟨ht, hl⟩ := truncParams_length params (pts self) hlen
  obtain ⟨c, hc1, hc2, hc3⟩ := unflatten_of_length _ _ hl
  refine ⟨c, ?_, hc2, by rw [hc3, ht]⟩
  have hlen' : c.length = self.length := by
    have := congrArg List.length hc2
    simpa [pts] using this
  have hne' : ∀ m ∈ c, m ≠ [] := by
    intro m hm hm0
    have hmem : m.length ∈ pts c := List.mem_map.mpr ⟨m, hm, rfl⟩
    rw [hc2] at hmem
    obtain ⟨m', hm', hl'⟩ := List.mem_map.mp hmem
    have : m' = [] := List.eq_nil_of_length_eq_zero (by rw [hl', hm0]; rfl)
    exact hne m' hm' this
  simp only [update, hc1, Option.map_some, countP_isEmpty_zero c hne', Nat.sub_zero, hlen']
  rw [← hlen', List.take_length, hlen', List.drop_length, List.append_nil]

/-- the shape hypothesis of `update_spec` cannot be dropped: with an EMPTY first factor the code counts it
in `zo = pm.count([])` and keeps the old last factor (shape (0,1): the update is lost).  Outside the
property's quantifier (factor sizes ≥ 1); recorded so that the model provably mirrors the code here. -/
theorem update_empty_factor_witness :
    update ([[], [⟨0, 1⟩]] : PM Nat) [5, 7] = some [[], [⟨0, 1⟩]] := by decide

/-- **scenario update.** As `update_spec` for the measures; the values: the list keeps its length, its
first `min (#given) (#old)` entries are replaced by the given surplus parameters, the rest is kept. -/
theorem supdate_spec (self : Scen α) (params : List α) (hne : ∀ m ∈ self.pm, m ≠ [])
    (hlen : 2 * (pts self.pm).sum ≤ params.length) :
    ∃ s, supdate self params = some s ∧ pts s.pm = pts self.pm ∧
      flatten s.pm = params.take (2 * (pts self.pm).sum) ∧
      s.values.length = self.values.length ∧
      ∀ i, s.values[i]? =
        if i < (params.drop (2 * (pts self.pm).sum)).length ∧ i < self.values.length
        then (params.drop (2 * (pts self.pm).sum))[i]? else self.values[i]? := by
  obtain ⟨c, hc1, hc2, hc3⟩ := update_spec self.pm params hne hlen
  have hs : supdate self params = some ⟨c,
      if params.length > 2 * (pts self.pm).sum
      then (extraParams params (pts self.pm)).take self.values.length
        ++ self.values.drop (extraParams params (pts self.pm)).length
      else self.values⟩ := by
    simp only [supdate, hc1, Option.map_some]
  refine ⟨_, hs, hc2, hc3, ?_, ?_⟩
  · simp only [extraParams]
    split
    · simp; omega
    · rfl
  · intro i
    simp only [extraParams]
    generalize hv : params.drop (2 * (pts self.pm).sum) = v
    split
    · by_cases hi : i < v.length ∧ i < self.values.length
      · rw [if_pos hi, List.getElem?_append_left (by rw [List.length_take]; omega),
          List.getElem?_take_of_lt hi.2]
      · rw [if_neg hi]
        by_cases h1 : i < self.values.length
        · have h2 : v.length ≤ i := by
            by_contra hc; exact hi ⟨by omega, h1⟩
          have hmin : (List.take self.values.length v).length = v.length := by
            rw [List.length_take]; omega
          rw [List.getElem?_append_right (by omega), hmin, List.getElem?_drop]
          congr 1; omega
        · have h3 : self.values.length ≤ i := by omega
          rw [List.getElem?_eq_none (by rw [List.length_append, List.length_take, List.length_drop]; omega),
            List.getElem?_eq_none h3]
    · rename_i hle
      have : v = [] := by
        apply List.eq_nil_of_length_eq_zero
        rw [← hv, List.length_drop]; omega
      simp [this]

/-! ## `_pack` / `_unpack` and the product structure -/

/-- **unpack ∘ pack.** For a non-empty list of non-empty factors `_unpack(_pack(s), shape of s)` returns `s`
(all shapes: unequal sizes, size 1). -/
theorem unpack_pack (s : List (List α)) (hs : s ≠ []) (hne : ∀ r ∈ s, r ≠ []) :
    unpack (pack s) (s.map List.length) = .ok s := Discrete.unpack_pack s hs hne

/-- the positions setter round trip `c.positions = c.positions` un-packs to the factor positions -/
theorem unpack_positions (c : PM α) (hc : c ≠ []) (hne : ∀ m ∈ c, m ≠ []) :
    unpack (positions c) (pts c) = .ok (pos c) := Discrete.unpack_positions c hc hne

/-- **pack order** (the documented one: FIRST factor fastest).  Entry `k` of `_pack(s0 :: rest)` is entry
`k % |s0|` of the first factor followed by entry `k / |s0|` of `_pack(rest)`; with `pack [] = [()]` this
determines every entry: coordinate `i` of entry `k` is `s_i[(k / (n_0⋯n_{i-1})) % n_i]`. -/
theorem pack_order (s0 : List α) (rest : List (List α)) (k : Nat) (h0 : 0 < s0.length) :
    (pack (s0 :: rest))[k]? = (pack rest)[k / s0.length]?.bind (fun t => s0[k % s0.length]?.map (· :: t)) :=
  pack_getElem?_divmod s0 rest k h0

/-- the number of product points is `npts = ∏ pts` -/
theorem positions_length (c : PM α) : (positions c).length = npts c := Discrete.positions_length c

/-- the product positions are tuples with one coordinate per factor -/
theorem positions_tuple_length (c : PM α) : ∀ t ∈ positions c, t.length = c.length := by
  intro t ht
  have := pack_mem_length (pos c) t ht
  simpa [pos] using this

section field
variable {K : Type} [Field K] [LinearOrder K] [IsStrictOrderedRing K]

/-- **product weights.** The weight of product point `k` is (weight `k % n_0` of the first factor) ×
(weight `k / n_0` of the product of the remaining factors); the empty product has the single weight 1.
Same indexing as `pack_order`, so weight `k` belongs to position `k`. -/
theorem product_weights (m : Measure K) (c : PM K) (k : Nat) (h0 : 0 < m.length) :
    (weights (m :: c))[k]? =
      (weights c)[k / m.length]?.bind (fun wr => (mweights m)[k % m.length]?.map (· * wr)) :=
  weights_getElem? m c k h0

theorem product_weights_nil : weights ([] : PM K) = [1] := by
  simp [weights, wts, pack, prodL]

theorem weights_length (c : PM K) : (weights c).length = npts c := by
  simp only [weights, List.length_map, pack_length, npts, pts, wts, List.map_map]
  congr 1
  apply List.map_congr_left
  intro m _
  simp

/-- **total mass = product of the factor masses.** -/
theorem mass_prod (c : PM K) : (weights c).sum = (mass c).prod := weights_sum_eq c

/-- the model's sequential sums/products are the ordinary `List.sum` / `List.prod` over a field -/
theorem mass_def (c : PM K) : mass c = c.map (fun m => (mweights m).sum) := by
  simp [mass, sumL_eq_sum]

/-! ## statistics = explicit sums over the weighted product points

`L = zip positions weights` are the weighted points; `positions_length`/`weights_length` show no point is
lost by the zip. -/

/-- **expect.** If the total weight is non-zero, `expect(f) = (Σ_p w_p f(p)) / Σ_p w_p`
(the points of weight zero, which the code skips without evaluating `f`, contribute nothing). -/
theorem expect_def (inf : K) (c : PM K) (f : List K → K)
    (hw : (weights c).sum ≠ 0) :
    expect inf c f =
      ((List.zip (positions c) (weights c)).map fun xw => xw.2 * f xw.1).sum / (weights c).sum := by
  have hlen : (positions c).length = (weights c).length := by
    rw [positions_length, weights_length]
  exact expectation_eq inf f (positions c) (weights c) hlen hw

/-- **expect_var.** `expect_var(f) = (Σ_p w_p (f(p) - E)^2) / Σ_p w_p` with `E = expect(f)`. -/
theorem expect_var_def (inf : K) (c : PM K) (f : List K → K)
    (hw : (weights c).sum ≠ 0) :
    expectVar inf c f =
      ((List.zip (positions c) (weights c)).map fun xw =>
        xw.2 * ((f xw.1 - expect inf c f) * (f xw.1 - expect inf c f))).sum / (weights c).sum := by
  have hlen : (positions c).length = (weights c).length := by
    rw [positions_length, weights_length]
  exact expectedVariance_eq inf f (positions c) (weights c) hlen hw

/-- **pof.** `pof(f)` is the total weight of the product points with `f(p) ≤ 0`. -/
theorem pof_def (c : PM K) (f : List K → K) :
    pof c f = (((List.zip (positions c) (weights c)).filter fun xw => decide (f xw.1 ≤ 0)).map (·.2)).sum :=
  pofL_eq f (positions c) (weights c)

/-- **support.** `support(tol)` returns, in order, the product positions whose weight exceeds `tol`, and
`support_index(tol)` their indices. -/
theorem support_def (c : PM K) (tol : K) :
    support c tol = some (((List.zip (positions c) (weights c)).filter fun xw => decide (tol < xw.2)).map (·.1))
    ∧ ∀ i, i ∈ supportIndex c tol ↔ ∃ w, (weights c)[i]? = some w ∧ tol < w := by
  have hlen : (positions c).length = (weights c).length := by
    rw [positions_length, weights_length]
  exact ⟨supportL_eq (positions c) (weights c) tol hlen, fun i => mem_supportIndexL (weights c) tol i⟩

/-! ## setting center_mass / range / var on a measure achieves the value -/

/-- **center_mass.** With non-zero total weight, `m.center_mass = v` makes the weighted mean `v`
(weights untouched). -/
theorem set_center_mass (inf : K) (m : Measure K) (v : K) (hw : (mweights m).sum ≠ 0) :
    centerMass inf (setCenterMass inf m v) = v ∧ mweights (setCenterMass inf m v) = mweights m :=
  setCenterMass_spec inf m v hw

/-- **range.** With non-zero total weight, a non-degenerate spread and a target `r ≥ 0`,
`m.range = r` makes `max - min` of the positions equal to `r`, keeps the weighted mean and the weights. -/
theorem set_range (inf nan : K) (m : Measure K) (r sr : K) (hw : (mweights m).sum ≠ 0)
    (hsr : range m = some sr) (hsr0 : sr ≠ 0) (hr : 0 ≤ r) :
    ∃ m', setRange inf nan m r = some m' ∧ range m' = some r ∧
      centerMass inf m' = centerMass inf m ∧ mweights m' = mweights m :=
  setRange_spec inf nan m r sr hw hsr hsr0 hr

/-- **var.** With non-zero total weight and non-zero variance, `m.var = v` (with `sqrt` a function that
satisfies `sqrt(v/var)^2 = v/var` at the one argument used) makes the weighted variance `v` and keeps the
weighted mean and the weights. -/
theorem set_var (inf nan : K) (sqrt : K → K) (m : Measure K) (v : K) (hw : (mweights m).sum ≠ 0)
    (hv0 : variance inf m ≠ 0)
    (hsqrt : sqrt (v / variance inf m) * sqrt (v / variance inf m) = v / variance inf m) :
    variance inf (setVar inf nan sqrt m v) = v ∧
      centerMass inf (setVar inf nan sqrt m v) = centerMass inf m ∧
      mweights (setVar inf nan sqrt m v) = mweights m :=
  setVar_spec inf nan sqrt m v hw hv0 hsqrt

end field

/-! ## non-vacuity: concrete, non-trivial instances -/

/-- a 3x2x1 product measure over `Nat` payloads -/
def exC : PM Nat := [[⟨1, 10⟩, ⟨2, 20⟩, ⟨3, 30⟩], [⟨4, 40⟩, ⟨5, 50⟩], [⟨6, 60⟩]]

example : flatten exC = [1, 2, 3, 10, 20, 30, 4, 5, 40, 50, 6, 60] ∧ pts exC = [3, 2, 1] := by decide
example : unflatten (flatten exC) (pts exC) = some exC := by decide
example : load [[⟨7, 70⟩]] (flatten exC ++ [99, 98]) (pts exC) = some ([[⟨7, 70⟩]] ++ exC) := by decide
example : positions exC = [[10, 40, 60], [20, 40, 60], [30, 40, 60], [10, 50, 60], [20, 50, 60], [30, 50, 60]] := by
  decide
example : update exC [9, 9, 9, 1, 1, 1, 8, 8, 2, 2, 7, 3, 55] =
    some [[⟨9, 1⟩, ⟨9, 1⟩, ⟨9, 1⟩], [⟨8, 2⟩, ⟨8, 2⟩], [⟨7, 3⟩]] := by decide
example : supdate ⟨exC, [0, 0, 0, 0, 0, 0]⟩ ([9, 9, 9, 1, 1, 1, 8, 8, 2, 2, 7, 3] ++ [55, 56]) =
    some ⟨[[⟨9, 1⟩, ⟨9, 1⟩, ⟨9, 1⟩], [⟨8, 2⟩, ⟨8, 2⟩], [⟨7, 3⟩]], [55, 56, 0, 0, 0, 0]⟩ := by decide
example : decompose exC = ([[10, 20, 30], [40, 50], [60]], [[1, 2, 3], [4, 5], [6]]) := by decide
example : (∀ m ∈ exC, m ≠ []) ∧ exC ≠ [] := by decide

/-- numeric clauses: a 2x2 product measure over `ℚ` with a zero weight (hypotheses of `expect_def`,
`expect_var_def`, `mass_prod` are met and the statistics take non-trivial values) -/
def exQ : PM ℚ := [[⟨1/2, 1⟩, ⟨1/2, 3⟩], [⟨1, 2⟩, ⟨0, 5⟩]]
theorem exQ_weights : weights exQ = [1/2, 1/2, 0, 0] := by
  norm_num [exQ, weights, wts, mweights, pack, prodL]
example : (weights exQ).sum ≠ 0 := by rw [exQ_weights]; norm_num
example : positions exQ = [[1, 2], [3, 2], [1, 5], [3, 5]] := by
  simp [exQ, positions, pos, mpositions, pack]
example : expect 0 exQ (fun x => x.headD 0) = 2 := by
  rw [expect_def 0 exQ _ (by rw [exQ_weights]; norm_num), exQ_weights]
  norm_num [exQ, positions, pos, mpositions, pack]

/-- hypotheses of the setter theorems: non-zero mass, spread 2, variance 1, and a `sqrt` for `v = 4` -/
def exM : Measure ℚ := [⟨1, 0⟩, ⟨1, 2⟩]
example : (mweights exM).sum ≠ 0 := by norm_num [exM, mweights]
example : range exM = some 2 := by norm_num [exM, range, spread, mpositions, maxL, minL]
theorem exM_var : variance 0 exM = 1 := by
  norm_num [exM, variance, moment2, mean, mpositions, mweights, sumL, truthy, absR]
example : variance 0 exM ≠ 0 ∧
    (fun _ : ℚ => (2 : ℚ)) (4 / variance 0 exM) * (fun _ : ℚ => (2 : ℚ)) (4 / variance 0 exM)
      = 4 / variance 0 exM := by
  rw [exM_var]; norm_num

end MysticVerif.C19
