/-
C03 - hard constraints hold at every evaluation and for the reported result.

`o.K` is the constraints as the solver applies them before an evaluation: the user's constraints, or under
strict ranges `and_(constraints, bounds, onfail=bounds)`.  `K_common_fixpoint` (from C17) is what makes `K`
land on a point left unchanged by BOTH members when the user's constraints are idempotent.
-/
import MysticVerif.Proofs.Solver
import MysticVerif.Proofs.NelderMead
import MysticVerif.Proofs.PowellS
import MysticVerif.Props.C17
import MysticVerif.Props.C01

namespace MysticVerif.C03
open MysticVerif.Solver

variable {X E R : Type}

/-- **DE / DE2**: every point at which the user's cost is evaluated is left unchanged by the constraints -/
theorem de_evaluations_constrained [LinearOrder E] (o : Obj X E) (h : Hyp o) (pop : List X) (x0 : X)
    (trialss : List (List X)) : ∀ p ∈ (DE.run1 o trialss (DE.init o pop x0)).log, o.K p.1 = p.1 := by
  intro p hp
  exact ((DE.run1_inv h trialss _ (DE.init_inv pop x0)).logOK p hp).2.1

/-- **DE / DE2**: the reported solution satisfies the constraints and its reported energy is the energy of that
constrained point (wherever the run is stopped: `trialss` is any prefix of any run) -/
theorem de_reported_constrained [LinearOrder E] (o : Obj X E) (h : Hyp o) (pop : List X) (x0 : X)
    (trialss : List (List X)) (hfin : (DE.run1 o trialss (DE.init o pop x0)).bestE ≠ o.top) :
    let s := DE.run1 o trialss (DE.init o pop x0)
    o.K s.best = s.best ∧ s.bestE = o.add (o.raw s.best) (o.pen s.best) :=
  let g := (DE.run1_inv h trialss _ (DE.init_inv pop x0)).best hfin
  ⟨g.2.2.1, g.1⟩

/-- **Nelder-Mead**: every evaluated point satisfies the constraints, for pure and in-place constraints functions -/
theorem nm_evaluations_constrained [Add R] [Sub R] [Mul R] [Div R] [LinearOrder E] (o : Obj (Pt R) E) (h : Hyp o)
    (c : Coef R) (st : Pt R → Pt R) (hst : ∀ x, o.K (st x) = o.K x) (s : NM R E) (hs : NMInv o s) :
    ∀ p ∈ (NM.update o c st s).1.log, o.K p.1 = p.1 := by
  intro p hp
  exact ((NM.update_inv h c st hst s hs).logOK p hp).2.1

/-- **Nelder-Mead, reported solution (partial)**: the reported energy is the energy of the CONSTRAINED vertex
`K best`, which was evaluated.  That `best` itself satisfies the constraints is false of the code whenever `K`
moves it (known finding F3, witness `C01.nm_best_not_evaluated_witness`). -/
theorem nm_reported_constrained_partial [LinearOrder E] (o : Obj (Pt R) E) (s : NM R E) (hs : NMInv o s)
    (x : Pt R) (e : E) (tl : List (Pt R × E)) (hsx : s.simplex = (x, e) :: tl) (hne : e ≠ o.top) :
    e = o.energy (o.K x) ∧ (o.K x, o.raw (o.K x)) ∈ s.log := by
  have hg := hs.good (x, e) (by rw [hsx]; simp) hne
  exact ⟨hg.1, hg.2.1⟩

/-- **the coupling of constraints and bounds**: when `and_(cons, bnd)` reports success with an intact history
window and both members are idempotent, the returned point is left unchanged by the constraints AND by the
bounds (this is C17.and_success_fixed at n = 2). -/
theorem K_common_fixpoint {D : Type} [BEq X] [LawfulBEq X] (cons bnd : X → X)
    (hc : ∀ x, cons (cons x) = cons x) (hb : ∀ x, bnd (bnd x) = bnd x)
    (rand : D → X → X) (cap : Nat) (x : X) (draws : List D) (y : X) (t links : Nat) (st : Comb.Stats)
    (hr : Comb.and_ (fun i v => if i = 0 then some (cons v) else some (bnd v)) rand 2 cap x draws
      = (.success y t links, st)) (hl : 2 ≤ links) : cons y = y ∧ bnd y = y := by
  have hid : ∀ i, i < 2 → C17.Idem ((fun i v => if i = 0 then some (cons v) else some (bnd v)) i) := by
    intro i _ a b hab
    by_cases h0 : i = 0
    · simp only [h0, if_true, Option.some.injEq] at hab ⊢; rw [← hab, hc]
    · simp only [h0, if_false, Option.some.injEq] at hab ⊢; rw [← hab, hb]
  have := C17.and_success_fixed _ rand 2 cap x draws y t links st hid hr hl
  have h0 := this 0 (by omega)
  have h1 := this 1 (by omega)
  simp at h0 h1
  exact ⟨h0, h1⟩

/-- non-vacuity of `K_common_fixpoint`: pin-to-3 and clip-to-[0,2] conflict-free variant on `Int` -/
example : (Comb.and_ (fun i (v : Int) => if i = 0 then some (max v 1) else some (min (max v 0) 2))
    (fun (d : Int) _ => d) 2 20 (-5) []).1 = .success 1 1 2 := by decide

/-! ## Powell on the decorated objective (any line-search oracle) -/
open MysticVerif.PowellS

/-- **Powell**: every point at which the user's cost is evaluated is left unchanged by the constraints -/
theorem pw_evaluations_constrained [Sub R] [Mul R] [LinearOrder E] (o : Obj (Pt R) E) (h : Hyp o) (c : PwCfg R E)
    (ls : Nat → Pt R → Pt R → LsRec R) (record : Bool) (x0 : Pt R) (direc : List (Pt R)) (hd : direc ≠ []) (n : Nat) :
    ∀ p ∈ (reach o c ls record x0 direc n).log, o.K p.1 = p.1 := by
  intro p hp
  exact ((reach_inv h c ls record x0 direc hd n).logOK p hp).2.1

/-- **Powell, reported result**: wherever the run is stopped (any `_Step` boundary) the reported solution satisfies
the constraints and a finite reported energy is the energy of that constrained point -/
theorem pw_reported_constrained [Sub R] [Mul R] [LinearOrder E] (o : Obj (Pt R) E) (h : Hyp o) (c : PwCfg R E)
    (ls : Nat → Pt R → Pt R → LsRec R) (record : Bool) (x0 : Pt R) (direc : List (Pt R)) (hd : direc ≠ []) (n : Nat)
    (hfin : (reach o c ls record x0 direc n).fval ≠ o.top) :
    let s := reach o c ls record x0 direc n
    o.K s.x = s.x ∧ s.fval = o.add (o.raw s.x) (o.pen s.x) := by
  intro s
  have g := (reach_inv h c ls record x0 direc hd n).best hfin
  exact ⟨g.2.2.1, g.1⟩

/-- **Powell, intermediate step records (partial).** Every record of the step monitor carries the energy of its
CONSTRAINED image, which was evaluated.  The record itself is constrained unless the extrapolation line search was
taken in that iteration: the code does not re-apply the constraints there (`# x = asarray(constraints(x))` is
commented out, scipy_optimize.py l.711) - `pw_step_record_unconstrained_witness`.  The reported solution is not
affected: the direction loop that follows in the same `_Step` constrains it (`pw_reported_constrained`). -/
theorem pw_step_record_partial [Sub R] [Mul R] [LinearOrder E] (o : Obj (Pt R) E) (h : Hyp o) (c : PwCfg R E)
    (ls : Nat → Pt R → Pt R → LsRec R) (record : Bool) (x0 : Pt R) (direc : List (Pt R)) (hd : direc ≠ []) (n : Nat) :
    ∀ p ∈ (reach o c ls record x0 direc n).stepLog, p.2 ≠ o.top →
      p.2 = o.energy (o.K p.1) ∧ (o.K p.1, o.raw (o.K p.1)) ∈ (reach o c ls record x0 direc n).log := by
  intro p hp hne
  have g := (reach_inv h c ls record x0 direc hd n).recs p hp hne
  exact ⟨g.1, g.2.1⟩

/-- the record written after an extrapolation line search violates the constraints (one dimension, cost `x^2`,
constraints `x ↦ max x 1`): the step monitor holds `([-1], 1)`, `K [-1] = [1]` -/
theorem pw_step_record_unconstrained_witness :
    ([-1], 1) ∈ (reach C01.pwObj C01.pwCfg C01.pwLs true [5] [[-1]] 1).stepLog ∧ C01.pwObj.K [-1] ≠ [-1] ∧
      C01.pwObj.K (reach C01.pwObj C01.pwCfg C01.pwLs true [5] [[-1]] 1).x = (reach C01.pwObj C01.pwCfg C01.pwLs true [5] [[-1]] 1).x := by
  decide

end MysticVerif.C03
