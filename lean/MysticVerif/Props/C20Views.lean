/-
C20 (part 2) - tuple indices, CustomMonitor, `all=False` / `best`, verbose intervals and the measure views of
a monitor: property theorems about Model/MonitorViews.lean.  Imported by Props/C20.lean.
-/
import MysticVerif.Proofs.Monitor
import MysticVerif.Model.MonitorViews
import Mathlib.Tactic.FieldSimp

namespace MysticVerif.C20
open MysticVerif.Mon

variable {α : Type} {R : Type}

/-! ## tuple indices -/

/-- `range(*slice(None).indices(n))` -/
theorem sliceIdx_all (n : Nat) : sliceIdx n none none 1 = List.range' 0 n := by
  unfold sliceIdx sliceStart sliceStop
  simp only [Int.one_pos, if_true, Int.reduceLT, if_false]
  have := rangeUp_one n 0 n (by omega)
  simpa using this

theorem gather_all (l : List α) : gather l (sliceIdx l.length none none 1) = l := by
  rw [sliceIdx_all, gather_range' l l.length 0 (by omega)]
  simp

/-- **`m[i, :]` is the i-th record** (tuple form of `m[i]`): on a table whose rows have `c` columns, a valid
integer row index `i` (negative allowed) with the full column slice returns row `i` unchanged. -/
theorem tuple_record_spec (X : List (List α)) (c : Nat) (hX : Rect X c) (i : Int) (j : Nat)
    (hi : pyIdx X.length i = some j) :
    ∃ row, X[j]? = some row ∧ full2 X c (.int i) (.slice none none 1) = .ok (.d1 row) := by
  have hj := pyIdx_lt hi
  refine ⟨X[j], by simp [hj], ?_⟩
  have hrow : (X[j]).length = c := hX _ (List.getElem_mem hj)
  unfold full2
  simp only [Sel.adv, pick, hi]
  simp only [Int.reduceEq, if_false, List.getElem?_eq_getElem hj]
  rw [← hrow, gather_all]

/-- **`m[rows, :]` is the slice `m[rows]`** of the record list: the rows `range(*slice(s,e,t).indices(n))`,
every one unchanged. -/
theorem tuple_rows_spec (X : List (List α)) (c : Nat) (hX : Rect X c) (s e : Option Int) (t : Int) (ht : t ≠ 0) :
    full2 X c (.slice s e t) (.slice none none 1) = .ok (.d2 (gather X (sliceIdx X.length s e t))) := by
  unfold full2
  simp only [Sel.adv, pick, ht, if_false, Int.reduceEq]
  congr 2
  have : ∀ r ∈ gather X (sliceIdx X.length s e t), gather r (sliceIdx c none none 1) = r := by
    intro r hr
    have hmem : r ∈ X := by
      unfold gather at hr
      simp only [List.mem_filterMap] at hr
      obtain ⟨k, _, hk⟩ := hr
      exact List.mem_of_getElem? hk
    rw [← hX r hmem, gather_all]
  rw [List.map_congr_left this]
  exact List.map_id _

/-- **`m[:, j]` is column `j` of the trajectory** (a projection of the record list): one entry per record, the
`r`-th being `X[r][j]`. -/
theorem tuple_column_spec (X : List (List α)) (c : Nat) (hX : Rect X c) (i : Int) (j : Nat) (hj : pyIdx c i = some j) :
    ∃ col, full2 X c (.slice none none 1) (.int i) = .ok (.d1 col) ∧ col.length = X.length ∧
      ∀ r (hr : r < X.length), col[r]? = (X[r])[j]? := by
  have hjc := pyIdx_lt hj
  refine ⟨X.filterMap (·[j]?), ?_, ?_, ?_⟩
  · unfold full2
    simp only [Sel.adv, pick, hj, Int.reduceEq, if_false, gather_all]
  · induction X with
    | nil => rfl
    | cons a t ih =>
      have ha : a.length = c := hX a (by simp)
      have : a[j]? = some a[j] := List.getElem?_eq_getElem (by omega)
      simp only [List.filterMap_cons, this, List.length_cons]
      rw [ih (fun r hr => hX r (by simp [hr]))]
  · induction X with
    | nil => intro r hr; simp at hr
    | cons a t ih =>
      intro r hr
      have ha : a.length = c := hX a (by simp)
      have h1 : a[j]? = some a[j] := List.getElem?_eq_getElem (by omega)
      simp only [List.filterMap_cons, h1]
      cases r with
      | zero => simp
      | succ r =>
        simp only [List.getElem?_cons_succ, List.getElem_cons_succ]
        exact ih (fun q hq => hX q (by simp [hq])) r (by simpa using hr)

/-- **`m[[i0, i1, ...]]` through a 1-tuple** is the gather of those records (the same as the list index). -/
theorem tuple_list_spec (l : List α) (idx : List Int) (js : List Nat) (h : resolveIdx l.length idx = some js) :
    full1 l (.list idx) = .ok (.d1 (gather l js)) := by
  simp [full1, pick, h]

/-- an index outside `-n .. n-1` is an `IndexError`, never a wrong record -/
theorem tuple_record_bounds (X : List (List α)) (c : Nat) (i : Int) (b : Sel) (hb : b.adv = none)
    (hi : pyIdx X.length i = none) : full2 X c (.int i) b = .error .index := by
  unfold full2
  cases b <;> simp_all [Sel.adv, pick]

/-! ## CustomMonitor -/

private theorem appendOpt_length {V : Type} : ∀ (fs : List (List V)) (vals : List (Option V)),
    (appendOpt fs vals).length = fs.length := by
  intro fs
  induction fs with
  | nil => intro vals; rfl
  | cons f fs ih =>
    intro vals
    cases vals with
    | nil => rfl
    | cons o os => simp [appendOpt, ih]

private theorem appendOpt_getD {V : Type} : ∀ (fs : List (List V)) (vals : List (Option V)) (f : Nat), f < fs.length →
    (appendOpt fs vals).getD f [] = fs.getD f [] ++ ((vals[f]?).join).toList := by
  intro fs
  induction fs with
  | nil => intro vals f h; simp at h
  | cons g fs ih =>
    intro vals f h
    cases vals with
    | nil => simp [appendOpt]
    | cons o os =>
      cases f with
      | zero => cases o <;> simp [appendOpt]
      | succ f =>
        simp only [appendOpt, List.getD_cons_succ, List.getElem?_cons_succ]
        exact ih os f (by simpa using h)

/-- **CustomMonitor records exactly what it is given.** After the calls `cs`, field `f` holds its earlier
contents followed by the values supplied for `f`, in call order, unchanged; calls that do not supply `f` leave
it alone (so fields may have different lengths). -/
theorem cmon_field_spec {V : Type} (cs : List (List (Option V))) : ∀ (c : CMon V) (f : Nat), f < c.fields.length →
    (c.calls cs).field f = c.field f ++ cs.filterMap (fun vals => (vals[f]?).join) := by
  induction cs with
  | nil => intro c f _; simp [CMon.calls]
  | cons v vs ih =>
    intro c f hf
    have h1 : (c.call v).fields.length = c.fields.length := appendOpt_length _ _
    have := ih (c.call v) f (by omega)
    simp only [CMon.calls, List.foldl_cons] at this ⊢
    rw [this]
    simp only [CMon.field, CMon.call, appendOpt_getD c.fields v f hf, List.filterMap_cons]
    cases h : (v[f]?).join <;> simp

/-- a required (positional) field: every call supplies it, so after `n` calls on a new monitor it has length
`n` and its `i`-th entry is the `i`-th value -/
theorem cmon_required_field {V : Type} (nf f : Nat) (hf : f < nf) (cs : List (List (Option V))) (vs : List V)
    (hall : cs.map (fun vals => (vals[f]?).join) = vs.map some) :
    ((CMon.new nf : CMon V).calls cs).field f = vs := by
  rw [cmon_field_spec cs _ f (by simp [CMon.new, hf])]
  have h0 : (CMon.new nf : CMon V).field f = [] := by
    simp [CMon.field, CMon.new, List.getD, hf]
  rw [h0, List.nil_append]
  have : cs.filterMap (fun vals => (vals[f]?).join) = (cs.map (fun vals => (vals[f]?).join)).filterMap id := by
    rw [List.filterMap_map]; rfl
  rw [this, hall]
  simp [List.filterMap_map]

/-! ## `all`, `best`, `k=True` and the verbose intervals -/

/-- **`all=True` (the default) with `k=False`** is the logging rule of `Model/Monitor` (`log_record_spec`),
whatever `best` is. -/
theorem logOfB_all [Mul R] [Div R] (m : Mon R) (best : Int) (x y : PV R) (id : Option Int) :
    m.logOfB true best false x y id = .ok (m.logOf x y id) := by
  unfold Mon.logOfB Mon.logOf shownY shownX
  cases m.interval with
  | none => rfl
  | some n =>
    by_cases h0 : n = 0
    · simp [h0]
    · by_cases h1 : m.len % n = 0 <;> simp [h0, h1]

private theorem shownY_vec {K : Type} [Field K] (m : Mon K) (hk : m.k ≠ some 0) (best : Int) (ys : List K) :
    shownY m false best false (.vec ys) =
      match pyIdx ys.length best with
      | some j => (match ys[j]? with | some v => .ok (.sc v) | none => .error .index)
      | none => .error .index := by
  unfold shownY
  have hc : ¬ (false = true ∨ (PV.vec ys).isSeq = false) := by simp [PV.isSeq]
  simp only [if_neg hc]
  cases hkk : m.k with
  | none =>
    simp only [cmul, cdiv, PV.at]
    cases hp : pyIdx ys.length best with
    | none => simp
    | some j => cases h : ys[j]? <;> simp [h]
  | some n =>
    have hn : n ≠ 0 := fun h => hk (by rw [hkk, h])
    simp only [cmul, cdiv, PV.map, PV.at, List.length_map]
    cases hp : pyIdx ys.length best with
    | none => simp
    | some j =>
      cases h : ys[j]? with
      | none => simp [h]
      | some v =>
        simp [h]
        field_simp

private theorem shownX_vec (best : Int) (xs : List R) :
    shownX false best (.vec xs) =
      match pyIdx xs.length best with
      | some j => (match xs[j]? with | some v => .ok (.sc v) | none => .error .index)
      | none => .error .index := by
  unfold shownX
  have hc : ¬ (false = true ∨ (PV.vec xs).isSeq = false) := by simp [PV.isSeq]
  simp only [if_neg hc, PV.at]
  cases pyIdx xs.length best with
  | none => rfl
  | some j => cases h : xs[j]? <;> simp [h]

/-- **`all=False`** (complete characterisation; `k ≠ 0`, field statement for the division).  Of a vector cost
and a parameter vector the log line shows entry `best` of each - the cost as it was passed in, the parameter
wrapped in a list - at the iteration `len m`, and only when `interval` divides it; an out-of-range `best`
(`pyIdx = none`: outside `-len .. len-1`) is an `IndexError`, never another entry.  (`pyIdx .. = some j`
implies `j < length`, so the inner `none` branches are unreachable.) -/
theorem log_best_spec {K : Type} [Field K] (m : Mon K) (hk : m.k ≠ some 0) (best : Int) (xs ys : List K) (id : Option Int) :
    m.logOfB false best false (.vec xs) (.vec ys) id =
      match m.interval with
      | none => .ok none
      | some n =>
        if n = 0 ∨ m.len % n ≠ 0 then .ok none else
        match pyIdx ys.length best, pyIdx xs.length best with
        | some jy, some jx =>
          (match ys[jy]?, xs[jx]? with
           | some vy, some vx => .ok (some { step := m.len, id := id, y := .sc vy, x := .vec [vx] })
           | _, _ => .error .index)
        | _, _ => .error .index := by
  unfold Mon.logOfB
  rw [shownY_vec m hk, shownX_vec]
  cases m.interval with
  | none => rfl
  | some n =>
    simp only
    by_cases h0 : n = 0
    · simp [h0]
    · by_cases h1 : m.len % n = 0
      · simp only [h0, h1, if_true, if_false, ne_eq, not_true_eq_false, or_self]
        cases pyIdx ys.length best with
        | none => simp
        | some jy =>
          cases hy : ys[jy]? with
          | none => cases pyIdx xs.length best <;> simp [hy]
          | some vy =>
            cases pyIdx xs.length best with
            | none => simp [hy]
            | some jx => cases hx : xs[jx]? <;> simp [hy, hx, logX]
      · simp [h0, h1]

private theorem hitIv_iff (len : Nat) (iv : Option Nat) :
    hitIv len iv = true ↔ ∃ n, iv = some n ∧ 0 < n ∧ len % n = 0 := by
  cases iv with
  | none => simp [hitIv]
  | some n => simp [hitIv, Nat.pos_iff_ne_zero]

private theorem evPart_ok (hit : Bool) (r : Except Err (PV R)) (mk : PV R → VEv R) (l : List (VEv R))
    (h : evPart hit r mk = .ok l) : (hit = false ∧ l = []) ∨ (hit = true ∧ ∃ v, l = [mk v]) := by
  unfold evPart at h
  cases hit with
  | false => simp at h; exact Or.inl ⟨rfl, h⟩
  | true =>
    cases r with
    | error e => simp at h
    | ok v => simp at h; exact Or.inr ⟨rfl, v, h.symm⟩

/-- **verbose intervals.** Whatever a verbose monitor prints during a call carries the iteration number
`len m` and the id of the call; a cost line is printed exactly when `yinterval` (finite, non-zero) divides
`len m`, a parameter line exactly when `xinterval` does; at most one of each. -/
theorem verb_interval_spec [Mul R] [Div R] (m : Mon R) (yint xint : Option Nat) (all : Bool) (best : Int) (kflag : Bool)
    (x y : PV R) (id : Option Int) (evs : List (VEv R)) (h : m.verbOf yint xint all best kflag x y id = .ok evs) :
    (∀ e ∈ evs, e.gen = m.len ∧ e.id = id) ∧
    ((∃ e ∈ evs, e.isX = false) ↔ ∃ n, yint = some n ∧ 0 < n ∧ m.len % n = 0) ∧
    ((∃ e ∈ evs, e.isX = true) ↔ ∃ n, xint = some n ∧ 0 < n ∧ m.len % n = 0) ∧
    evs.length ≤ 2 := by
  unfold Mon.verbOf at h
  split at h
  · simp at h
  · rename_i ey hey
    split at h
    · simp at h
    · rename_i ex hex
      simp only [Except.ok.injEq] at h
      subst h
      have hy := hitIv_iff m.len yint
      have hx := hitIv_iff m.len xint
      rcases evPart_ok _ _ _ _ hey with ⟨hy0, rfl⟩ | ⟨hy1, vy, rfl⟩ <;>
        rcases evPart_ok _ _ _ _ hex with ⟨hx0, rfl⟩ | ⟨hx1, vx, rfl⟩
      · refine ⟨by simp, ?_, ?_, by simp⟩
        · rw [← hy, hy0]; simp
        · rw [← hx, hx0]; simp
      · refine ⟨by simp, ?_, ?_, by simp⟩
        · rw [← hy, hy0]; simp
        · rw [← hx, hx1]; simp
      · refine ⟨by simp, ?_, ?_, by simp⟩
        · rw [← hy, hy1]; simp
        · rw [← hx, hx0]; simp
      · refine ⟨by simp, ?_, ?_, by simp⟩
        · rw [← hy, hy1]; simp
        · rw [← hx, hx1]; simp

/-! ## measure views -/

private theorem iposGo_eq_layout (n0 : Nat) : ∀ (l : List Nat) (b : Nat), (∀ n ∈ l, n = n0) →
    iposGo n0 b l = iposLayoutGo b l := by
  intro l
  induction l with
  | nil => intro b _; rfl
  | cons n rest ih =>
    intro b h
    have hn : n = n0 := h n (by simp)
    simp only [iposGo, iposLayoutGo, hn]
    rw [ih (b + n0) (fun q hq => h q (by simp [hq]))]

/-- **position columns, uniform `npts`** (`_partial`: the full statement `ipos npts = iposLayout npts` for ALL
`npts` is false, see `ipos_nonuniform_witness`).  When every measure has the same number of points the
columns `Monitor._pos` selects are the position blocks of the layout `[w_0.., x_0.., w_1.., x_1.., ...]` that
`product_measure.flatten` produces. -/
theorem ipos_uniform_partial (npts : List Nat) (h : ∀ n ∈ npts, n = npts.headD 0) : ipos npts = iposLayout npts :=
  iposGo_eq_layout _ npts 0 h

/-- the code as it is: with `npts = (2, 3)` the position view takes column 6 (a weight of the second measure)
and misses column 9 -/
theorem ipos_nonuniform_witness : ipos [2, 3] = [2, 3, 6, 7, 8] ∧ iposLayout [2, 3] = [2, 3, 7, 8, 9] ∧
    iwts [2, 3] = [0, 1, 4, 5, 6] := by decide

private theorem blocks_cover : ∀ (l : List Nat) (b : Nat),
    ∃ wb pb : List (List Nat), iwtsGo b l = wb.flatten ∧ iposLayoutGo b l = pb.flatten ∧
      wb.length = l.length ∧ pb.length = l.length ∧
      (List.zipWith (· ++ ·) wb pb).flatten = List.range' (2 * b) (2 * l.sum) := by
  intro l
  induction l with
  | nil => intro b; exact ⟨[], [], rfl, rfl, rfl, rfl, by simp⟩
  | cons n rest ih =>
    intro b
    obtain ⟨wb, pb, h1, h2, h3, h4, h5⟩ := ih (b + n)
    refine ⟨List.range' (2 * b) n :: wb, List.range' (2 * b + n) n :: pb, ?_, ?_, by simp [h3], by simp [h4], ?_⟩
    · simp [iwtsGo, h1]
    · simp [iposLayoutGo, h2]
    · simp only [List.zipWith_cons_cons, List.flatten_cons, h5, List.sum_cons]
      rw [List.append_assoc]
      have e1 : List.range' (2 * b + n) n ++ List.range' (2 * (b + n)) (2 * rest.sum) =
          List.range' (2 * b + n) (n + 2 * rest.sum) := by
        rw [← List.range'_append (s := 2 * b + n) (m := n) (n := 2 * rest.sum) (step := 1)]
        congr 2
        omega
      rw [e1]
      have e2 : List.range' (2 * b) n ++ List.range' (2 * b + n) (n + 2 * rest.sum) =
          List.range' (2 * b) (2 * (n + rest.sum)) := by
        have h := List.range'_append (s := 2 * b) (m := n) (n := n + 2 * rest.sum) (step := 1)
        rw [Nat.one_mul] at h
        rw [h]
        congr 1
        omega
      exact e2

/-- **weights and positions partition the record**: the weight columns `Monitor._wts` and the position
columns of the layout split, measure by measure, the columns `0 .. 2*sum(npts) - 1` of a flattened product
measure (block `i` = weights of measure `i` followed by its positions) - nothing is lost or duplicated. -/
theorem wts_pos_partition (npts : List Nat) :
    ∃ wb pb : List (List Nat), iwts npts = wb.flatten ∧ iposLayout npts = pb.flatten ∧
      wb.length = npts.length ∧ pb.length = npts.length ∧
      (List.zipWith (· ++ ·) wb pb).flatten = List.range' 0 (2 * npts.sum) := by
  have := blocks_cover npts 0
  simpa [iwts, iposLayout] using this

/-! ## non-vacuity -/

/-- `m[1:, 0]`, `m[[2, 0], [1, 0]]` (paired), `m[-1, :]`, `m[(0, 1),]` on a 3 x 2 trajectory -/
example :
    let X : List (List Nat) := [[10, 11], [20, 21], [30, 31]]
    full2 X 2 (.slice (some 1) none 1) (.int 0) = .ok (.d1 [20, 30]) ∧
    full2 X 2 (.list [2, 0]) (.list [1, 0]) = .ok (.d1 [31, 10]) ∧
    full2 X 2 (.int (-1)) (.slice none none 1) = .ok (.d1 [30, 31]) ∧
    first (.d2 X) (.tup [0, 1]) = .ok (.d0 11) ∧
    full2 X 2 (.list [0, 1]) (.list [0, 1, 0]) = .error .index := by decide

/-- a whole monitor: `m[1:, 1]` keeps costs and ids of the selected records; `m[0, 0]` needs integer ids -/
def exMon : Mon Nat :=
  { x := [.vec [1, 2], .vec [3, 4], .vec [5, 6]], y := [.sc 7, .sc 8, .sc 9], id := [none, some 1, none] }

example : (exMon.tuple [.slice (some 1) none 1, .int 1]).toOption.map (fun t => (t.x, t.y, t.id)) =
    some (.d1 [4, 6], .d1 [8, 9], .d1 [some 1, none]) := by decide

example : (exMon.tuple [.int 0, .int 0]).toOption.isNone = true ∧
    (({ exMon with id := [some 4, some 1, some 0] } : Mon Nat).tuple [.int 0, .int 0]).toOption.map (fun t => (t.x, t.y, t.id)) =
      some (.d0 1, .d0 7, .d0 (some 4)) := by decide

/-- a CustomMonitor with fields (x, y, e): `e` is supplied by the second call only -/
example : ((CMon.new 3 : CMon Nat).calls [[some 1, some 2, none], [some 3, some 4, some 5]]).fields = [[1, 3], [2, 4], [5]] := by
  decide

/-- `all=False`, `best=1`, interval 2, third record (iteration 2): entry 1 of cost and parameters -/
example :
    let m : Mon ℚ := { x := [.sc 0, .sc 0], y := [.sc 0, .sc 0], id := [none, none], interval := some 2 }
    (match m.logOfB false 1 false (.vec [5, 6]) (.vec [7, 8]) none with
      | .ok (some r) => r.step = 2 ∧ r.x = .vec [6] ∧ r.y = .sc 8
      | _ => False) := by
  simp [Mon.logOfB, Mon.len, shownY, shownX, cmul, cdiv, PV.at, PV.isSeq, pyIdx, logX]

/-- uniform `npts = (2, 2)`: weights `[0,1,4,5]`, positions `[2,3,6,7]` -/
example : iwts [2, 2] = [0, 1, 4, 5] ∧ ipos [2, 2] = [2, 3, 6, 7] ∧ ipos [2, 2] = iposLayout [2, 2] := by decide

end MysticVerif.C20
