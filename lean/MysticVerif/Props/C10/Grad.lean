/-
C10, deepening (1): GradientNormTolerance for EVERY `norm` (termination.py l.363-383, math/distance.py `Lnorm`
l.13-38) on the gradient the code really uses: the solver's last gradient or - when the solver has none, as every
mystic solver - `approx_fprime` of the RAW cost at `bestSolution` (_scipy060optimize.py l.611-619).
Model: `Prim.gradnormP`, `gradOf`, `lnorm`, `approxFprime`, `approxPoints` in Model/Termination.lean.
-/
import MysticVerif.Proofs.Termination
import Mathlib.Tactic.Linarith
import Mathlib.Tactic.Ring
import Mathlib.Tactic.FieldSimp
import Mathlib.Algebra.Order.Ring.Abs
import Mathlib.Algebra.Order.Field.Rat
import Mathlib.Algebra.Order.BigOperators.Group.List

namespace MysticVerif.C10
open MysticVerif.Term

set_option linter.unusedSectionVars false

section GradGeneric
variable {R : Type} [Add R] [Sub R] [Mul R] [Div R] [Neg R] [LT R] [DecidableLT R] [LE R] [DecidableLE R]
  [BEq R] [OfNat R 0] [OfNat R 2]

/-- a primitive that does not warn evaluates to its test -/
theorem eval_eq_test' (v : View R) (p : Prim R) (h : p.warns v = false) : p.eval v = p.test v := by
  unfold Prim.eval Prim.out
  rw [h]
  cases p.test v <;> simp [POut.truthy]

/-- **GradientNormTolerance, as coded**: satisfied iff no exception is raised on the way and `gnorm <= tolerance`. -/
theorem gradp_eval (v : View R) (tol : R) (n : Norm R) (eps : R) :
    (Prim.gradnormP tol n eps).eval v = true ↔ ∃ g, gnormOf v n eps = .ok g ∧ g ≤ tol := by
  have key : ∀ a : Except Err R, leExc a tol = true ↔ ∃ g, a = .ok g ∧ g ≤ tol := by
    intro a
    cases a <;> simp [leExc]
  rw [← key, eval_eq_test' v _ rfl]
  simp only [Prim.test]

/-- a solver that supplies a gradient: the condition works on `gradient[-1]` as given, the cost is not touched -/
theorem gradp_given (v : View R) (n : Norm R) (eps : R) (h : v.gradNone = false) :
    gnormOf v n eps = lnorm n v.grad := by
  simp [gnormOf, gradOf, h]

/-- a solver WITHOUT a gradient (every mystic solver): the condition differentiates the RAW cost `_cost[1]` at
`bestSolution` by forward differences of step `eps`; without `_cost` it is an AttributeError -/
theorem gradp_fallback (v : View R) (n : Norm R) (eps : R) (h : v.gradNone = true) :
    gnormOf v n eps = (match v.cost with
      | none => .error .attr
      | some f => lnorm n (approxFprime f v.best eps)) := by
  simp only [gnormOf, gradOf, h, if_true]
  cases v.cost <;> rfl

/-- `norm = -inf` never yields a verdict: `Lnorm` calls the BUILTIN `min(..., axis=)` (TypeError) -/
theorem gradp_neginf_raises (v : View R) (tol eps : R) (h : v.gradNone = false) :
    (Prim.gradnormP tol .neginf eps).err v = some .type := by
  simp [Prim.err, gnormOf, gradOf, h, lnorm]

/-- **finding F11, the mechanism**: the fallback evaluates the raw cost at exactly `len(x) + 1` points - `x` itself
first, then `x` with one coordinate stepped - none of them counted -/
theorem approx_points_count (x : List R) (eps : R) : (approxPoints x eps).length = x.length + 1 := by
  simp [approxPoints]

theorem approx_points_head (x : List R) (eps : R) : (approxPoints x eps).head? = some x := by
  simp [approxPoints]

/-- the `k`-th stepped point differs from `x` in coordinate `k` only, by `+ eps` (`+ 0` elsewhere) -/
theorem bump_getElem? (x : List R) (k j : Nat) (eps : R) :
    (bump x k eps)[j]? = (x[j]?).map (fun xj => xj + (if j = k then eps else 0)) := by
  simp [bump, List.getElem?_mapIdx]

theorem approxFprime_length (f : List R → R) (x : List R) (eps : R) : (approxFprime f x eps).length = x.length := by
  simp [approxFprime]

end GradGeneric

section GradField
variable {K : Type} [Field K] [LinearOrder K] [IsStrictOrderedRing K]

/-- with the solver's gradient, `norm = inf` is the primitive of `gradnorm_spec` -/
theorem gradp_inf_eq_gradnorm (v : View K) (tol eps : K) (h : v.gradNone = false) :
    (Prim.gradnormP tol .inf eps).eval v = (Prim.gradnorm tol).eval v := by
  have key : leExc (gnormOf v .inf eps) tol = leOpt (npMax? (v.grad.map absR)) tol := by
    rw [gradp_given v _ eps h]
    simp only [lnorm, lnormInf]
    cases npMax? (v.grad.map absR) <;> simp [leOpt, leExc]
  rw [eval_eq_test' v _ rfl, eval_eq_test' v _ rfl]
  simp only [Prim.test]
  exact key

/-- **GradientNormTolerance, `norm = inf`** on the gradient `g` the code uses (non-empty): `max |g_i| <= tolerance`. -/
theorem gradp_spec_inf (v : View K) (tol eps : K) (g : List K) (hg : gradOf v eps = .ok g) (hne : g ≠ []) :
    (Prim.gradnormP tol .inf eps).eval v = true ↔ ∀ x ∈ g, |x| ≤ tol := by
  rw [gradp_eval]
  simp only [gnormOf, hg, lnorm, lnormInf]
  have key := leOpt_npMax (g.map absR) tol
  cases hm : npMax? (g.map absR) with
  | none =>
    cases g with
    | nil => exact absurd rfl hne
    | cons a t => simp [npMax?] at hm
  | some m =>
    rw [hm] at key
    simp only [leOpt, decide_eq_true_eq] at key
    simp only [Except.ok.injEq, exists_eq_left']
    rw [key]
    simp [hne, absR_eq_abs]

/-- **GradientNormTolerance, `norm = 0`**: the number of non-zero gradient entries is `<= tolerance`. -/
theorem gradp_spec_zero (v : View K) (tol eps : K) (g : List K) (hg : gradOf v eps = .ok g) :
    (Prim.gradnormP tol (.zero (fun n => (n : K))) eps).eval v = true ↔
      (((g.filter (fun x => x ≠ 0)).length : ℕ) : K) ≤ tol := by
  rw [gradp_eval]
  simp only [gnormOf, hg, lnorm, Except.ok.injEq, exists_eq_left']
  have : g.filter (fun x => (x == 0) = false) = g.filter (fun x => x ≠ 0) := by
    congr 1; funext x; simp
  rw [this]

/-- the sum the code forms for a finite `p`: `sum(abs(w**p))` -/
theorem addReduce_abs_pow (g : List K) (p : ℕ) :
    addReduce (g.map (fun x => absR (x ^ p))) = (g.map (fun x => |x| ^ p)).sum := by
  rw [addReduce_eq_sum]
  congr 1
  apply List.map_congr_left
  intro x _
  rw [absR_eq_abs, abs_pow]

/-- **GradientNormTolerance, finite `norm = p >= 1`** (`powp x = x^p`; `root` is a `p`-th root AT the sum formed;
no floating-point exception): satisfied iff `0 <= tolerance` and `sum |g_i|^p <= tolerance^p`, i.e. the documented
`sum(abs(gradient)**norm)**(1.0/norm) <= tolerance`. -/
theorem gradp_spec_fin (v : View K) (tol eps : K) (g : List K) (hg : gradOf v eps = .ok g) (p : ℕ) (hp : p ≠ 0)
    (root : K → K) (raises : List K → Bool) (hr : raises g = false)
    (hroot : 0 ≤ root ((g.map (fun x => |x| ^ p)).sum) ∧ root ((g.map (fun x => |x| ^ p)).sum) ^ p = (g.map (fun x => |x| ^ p)).sum) :
    (Prim.gradnormP tol (.fin (fun x => x ^ p) root raises) eps).eval v = true ↔
      0 ≤ tol ∧ (g.map (fun x => |x| ^ p)).sum ≤ tol ^ p := by
  rw [gradp_eval]
  simp only [gnormOf, hg, lnorm, hr, Bool.false_eq_true, if_false, Except.ok.injEq, exists_eq_left',
    addReduce_abs_pow]
  obtain ⟨h0, hs⟩ := hroot
  constructor
  · intro h
    have ht : 0 ≤ tol := le_trans h0 h
    refine ⟨ht, ?_⟩
    rw [← hs]
    exact pow_le_pow_left₀ h0 h p
  · rintro ⟨ht, h⟩
    rw [← hs] at h
    exact (pow_le_pow_iff_left₀ h0 ht hp).mp h

/-- **the floating-point fallback, as coded** (math/distance.py l.35-36): when the evaluation of the `p`-norm raises
FloatingPointError (overflow, or a negative entry under a fractional power: the code takes `abs` AFTER the power),
`Lnorm` silently answers with the infinity norm - the condition then tests `max |g_i| <= tolerance`, not the
documented inequality (`gradp_fallback_witness`). -/
theorem gradp_spec_fallback (v : View K) (tol eps : K) (g : List K) (hg : gradOf v eps = .ok g) (hne : g ≠ [])
    (powp root : K → K) (raises : List K → Bool) (hr : raises g = true) :
    (Prim.gradnormP tol (.fin powp root raises) eps).eval v = true ↔ ∀ x ∈ g, |x| ≤ tol := by
  rw [← gradp_spec_inf v tol eps g hg hne, gradp_eval, gradp_eval]
  simp [gnormOf, hg, lnorm, hr]

/-- `approx_fprime` is exact on a cost that is affine along each coordinate step: if `f(x + eps e_k) - f(x) = a_k eps`
for every `k` (and `eps ≠ 0`) the gradient it returns is `a`. -/
theorem approxFprime_affine (f : List K → K) (x a : List K) (eps : K) (he : eps ≠ 0) (hl : a.length = x.length)
    (hf : ∀ k (hk : k < x.length), f (bump x k eps) - f x = a[k]'(by omega) * eps) :
    approxFprime f x eps = a := by
  apply List.ext_getElem
  · simp [approxFprime, hl]
  · intro k h1 h2
    have hk : k < x.length := by simpa [approxFprime] using h1
    simp only [approxFprime, List.getElem_map, List.getElem_range]
    rw [hf k hk]
    field_simp

end GradField

/-! ### witnesses and non-vacuity (closed terms, evaluated by the kernel) -/

section GradWitness

/-- a view over `Int` whose solver supplies the gradient `[3, -4]` -/
def gv : View Int :=
  { hist := [], pop := [], popE := [], best := [1, 2], trial := [], trial2d := false, grad := [3, -4],
    gens := 0, fcalls := 0, earlyExit := false, tTime := 0, tPerf := 0, tProc := 0 }

/-- **known finding (gradp/fp-error-falls-back-to-inf-norm)**: gradient `[3, -4]`, `norm = 2`, `tolerance = 4`.
When the evaluation of the 2-norm raises, the condition is satisfied (`max = 4 <= 4`) although the documented
`sum |g_i|^2 = 25 <= 4^2` is false; without the exception (root of 25 is 5) it is not satisfied. -/
theorem gradp_fallback_witness :
    (Prim.gradnormP 4 (.fin (fun x => x * x) (fun s => if s = 25 then 5 else s) (fun _ => true)) 1).eval gv = true
    ∧ (Prim.gradnormP 4 (.fin (fun x => x * x) (fun s => if s = 25 then 5 else s) (fun _ => false)) 1).eval gv = false
    ∧ ¬ ((3 : Int) * 3 + (-4) * (-4) ≤ 4 * 4) := by
  decide

/-- the fallback on a solver without gradient: cost `f(x) = 3 x_0 + x_1^2` at `best = [1, 2]`, step 1: the raw cost
is evaluated at `[1,2], [2,2], [1,3]` (3 = dim + 1 uncounted evaluations) and the gradient is `[3, 5]` -/
example :
    let f : List Int → Int := fun x => 3 * x.headD 0 + (x.getD 1 0) * (x.getD 1 0)
    approxPoints [1, 2] (1 : Int) = [[1, 2], [2, 2], [1, 3]] ∧ approxFprime f [1, 2] 1 = [3, 5]
    ∧ gnormOf { gv with gradNone := true, cost := some f } .inf 1 = .ok 5
    ∧ gnormOf { gv with gradNone := true } .inf 1 = .error .attr
    ∧ gnormOf gv (.zero (fun n => (n : Int))) 1 = .ok 2
    ∧ gnormOf gv .neginf 1 = .error .type := by
  decide

/-- non-vacuity of `gradp_spec_fin` over ℚ: gradient `[3, -4]`, `p = 2`, root of 25 is 5: satisfied at tolerance 5,
through the theorem itself -/
example : ∃ (v : View ℚ) (tol : ℚ), (Prim.gradnormP tol (.fin (fun x => x ^ 2) (fun _ => 5) (fun _ => false)) 1).eval v = true :=
  ⟨{ hist := [], pop := [], popE := [], best := [], trial := [], trial2d := false, grad := [3, -4],
     gens := 0, fcalls := 0, earlyExit := false, tTime := 0, tPerf := 0, tProc := 0 }, 5,
   (gradp_spec_fin _ 5 1 [3, -4] rfl 2 (by decide) (fun _ => 5) (fun _ => false) rfl
      (by norm_num)).mpr (by norm_num)⟩

end GradWitness

end MysticVerif.C10
