/-
C10, deepening (2)/(3): conditions as dict keys (tuple equality ignores the class) and the keys of `state(condition)`.
-/
import MysticVerif.Proofs.Termination

namespace MysticVerif.C10
open MysticVerif.Term

variable {R : Type}

mutual
/-- a condition equals itself as a dict key -/
theorem keyEq_refl : (c : Cond R) → Cond.keyEq c c = true
  | .prim _ _ _ => by simp [Cond.keyEq]
  | .node _ cs => by simp [Cond.keyEq, keyEqs_refl cs]
theorem keyEqs_refl : (cs : List (Cond R)) → Cond.keyEqs cs cs = true
  | [] => by simp [Cond.keyEqs]
  | c :: cs => by simp [Cond.keyEqs, keyEq_refl c, keyEqs_refl cs]
end

/-- **compound conditions are tuples: `And(a, b) == Or(a, b) == When`-tuple with the same members** - whatever the
classes `k`, `k'`, two compounds with the same members are EQUAL keys (and collide in the dict `stop`; the damage
is `sibling_collision_witness`) -/
theorem keyEq_ignores_class (k k' : Kind) (cs : List (Cond R)) :
    Cond.keyEq (.node k cs) (.node k' cs) = true := by
  simp [Cond.keyEq, keyEqs_refl cs]

/-- a primitive never equals a compound; two primitives are equal iff they are the same object -/
theorem keyEq_prim (o d o' d' : Nat) (p p' : Prim R) (k : Kind) (cs : List (Cond R)) :
    Cond.keyEq (.prim o d p) (.node k cs) = false ∧ Cond.keyEq (.node k cs) (.prim o d p) = false
    ∧ (Cond.keyEq (.prim o d p) (.prim o' d' p') = true ↔ o = o') := by
  simp [Cond.keyEq]

/-! ### `state(condition)`: one entry per distinct DOC STRING of the tree's primitives -/

theorem mem_docInsert (ks : List Nat) (d x : Nat) : x ∈ docInsert ks d ↔ x ∈ ks ∨ x = d := by
  unfold docInsert
  split
  · rename_i h
    constructor
    · exact Or.inl
    · rintro (h' | h')
      · exact h'
      · subst h'; simpa using h
  · simp

theorem nodup_docInsert (ks : List Nat) (d : Nat) (h : ks.Nodup) : (docInsert ks d).Nodup := by
  unfold docInsert
  split
  · exact h
  · rename_i hn
    rw [List.nodup_append]
    refine ⟨h, by simp, ?_⟩
    intro a ha b hb
    simp only [List.mem_singleton] at hb
    subst hb
    intro hab; subst hab
    exact hn (by simpa using ha)

mutual
theorem mem_stateKeysAux : (c : Cond R) → (ks : List Nat) → (x : Nat) →
    (x ∈ Cond.stateKeysAux c ks ↔ x ∈ ks ∨ ∃ l ∈ c.leaves, l.1 = x)
  | .prim _ d _, ks, x => by
    simp only [Cond.stateKeysAux, mem_docInsert, Cond.leaves, List.mem_singleton, exists_eq_left]
    constructor
    · rintro (h | h)
      · exact Or.inl h
      · exact Or.inr h.symm
    · rintro (h | h)
      · exact Or.inl h
      · exact Or.inr h.symm
  | .node _ cs, ks, x => by
    simp only [Cond.stateKeysAux, Cond.leaves]
    exact mem_stateKeysL cs ks x
theorem mem_stateKeysL : (cs : List (Cond R)) → (ks : List Nat) → (x : Nat) →
    (x ∈ Cond.stateKeysL cs ks ↔ x ∈ ks ∨ ∃ l ∈ Cond.leavesL cs, l.1 = x)
  | [], ks, x => by simp [Cond.stateKeysL, Cond.leavesL]
  | c :: cs, ks, x => by
    simp only [Cond.stateKeysL, Cond.leavesL, List.mem_append]
    rw [mem_stateKeysL cs _ x, mem_stateKeysAux c ks x]
    constructor
    · rintro ((h | ⟨l, hl, h⟩) | ⟨l, hl, h⟩)
      · exact Or.inl h
      · exact Or.inr ⟨l, Or.inl hl, h⟩
      · exact Or.inr ⟨l, Or.inr hl, h⟩
    · rintro (h | ⟨l, hl | hl, h⟩)
      · exact Or.inl (Or.inl h)
      · exact Or.inl (Or.inr ⟨l, hl, h⟩)
      · exact Or.inr ⟨l, hl, h⟩
end

mutual
theorem nodup_stateKeysAux : (c : Cond R) → (ks : List Nat) → ks.Nodup → (Cond.stateKeysAux c ks).Nodup
  | .prim _ d _, ks, h => by simpa [Cond.stateKeysAux] using nodup_docInsert ks d h
  | .node _ cs, ks, h => by simpa [Cond.stateKeysAux] using nodup_stateKeysL cs ks h
theorem nodup_stateKeysL : (cs : List (Cond R)) → (ks : List Nat) → ks.Nodup → (Cond.stateKeysL cs ks).Nodup
  | [], ks, h => by simpa [Cond.stateKeysL] using h
  | c :: cs, ks, h => by
    simp only [Cond.stateKeysL]
    exact nodup_stateKeysL cs _ (nodup_stateKeysAux c ks h)
end

/-- **`state(condition)` reports exactly the doc strings of the tree's primitives, each once** - to any nesting depth,
whatever the classes.  The FIXME "assumes NO DUPLICATE TYPES" (l.29) is stale: the key is the full doc
(`_state[termdoc]`, l.45), so two members of the same TYPE with different settings are both reported; two members
with the same type AND settings share one entry (they are interchangeable: `rebuild_same`).  What `state` does not
report is the tree (classes, nesting, multiplicity): a compound cannot be rebuilt from `state` alone. -/
theorem state_keys_spec (c : Cond R) :
    (∀ d, d ∈ c.stateKeys ↔ ∃ l ∈ c.leaves, l.1 = d) ∧ c.stateKeys.Nodup := by
  constructor
  · intro d
    simpa [Cond.stateKeys] using mem_stateKeysAux c [] d
  · exact nodup_stateKeysAux c [] List.nodup_nil

/-- two VTRs with different settings (docs 0 and 1) inside nested compounds are both reported; the repeated one once;
and `state` is blind to the classes: `And(a, Or(b, a))` and `Or(a, b)` report the same keys -/
example :
    (Cond.node .and [.prim 0 0 (.vtr (0 : Int) 1), .node .or [.prim 1 1 (.vtr 0 5), .prim 0 0 (.vtr 0 1)]]).stateKeys = [0, 1]
    ∧ (Cond.node .or [.prim 0 0 (.vtr (0 : Int) 1), .prim 1 1 (.vtr 0 5)]).stateKeys = [0, 1] := by
  decide

end MysticVerif.C10
