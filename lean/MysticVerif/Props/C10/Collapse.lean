/-
C10, deepening (1b): the Collapse* conditions AS TERMINATION CONDITIONS (termination.py l.504-554: CollapseAt,
CollapseAs): verdict, what is reported after `' at '`, and the `mask` keyword through state()/type().
The detectors themselves are `Clps.collapseAt / collapseAs` of Model/Collapse.lean (property C11), reused as they are.
-/
import MysticVerif.Proofs.Termination
import MysticVerif.Props.C10.Grad

namespace MysticVerif.C10
open MysticVerif.Term

set_option linter.unusedSectionVars false

section CollapseCond
variable {R : Type} [Add R] [Sub R] [Mul R] [Div R] [Neg R] [LT R] [DecidableLT R] [LE R] [DecidableLE R]
  [BEq R] [OfNat R 0] [OfNat R 2]

/-- **CollapseAt as a termination condition**: satisfied iff the energy history is longer than `generations` and
`collapse_at(stepmon, target, tolerance, generations, mask)` returns a NON-EMPTY set (`bool(collapse_at(...))`, the
documented test), which is then exactly what is reported after `' at '`. -/
theorem collapse_at_spec (v : View R) (tgt : Clps.Target R) (tols : List R) (g : Int) (mask : Clps.SetMask) :
    (Prim.collapseAt tgt tols g mask).eval v = true ↔
      g < v.hist.length ∧ ∃ l, Clps.collapseAt v.steps tgt tols (some g) mask = .ok l ∧ l ≠ [] ∧
        (Prim.collapseAt tgt tols g mask).payload v = l.map (fun i => [i]) := by
  rw [eval_eq_test' v _ rfl]
  simp only [Prim.test, Prim.payload, collapsedOf]
  by_cases h0 : v.hist.length = 0
  · simp [h0]
  · by_cases h1 : (v.hist.length : Int) ≤ g
    · simp [h0, h1]
    · have h2 : g < (v.hist.length : Int) := by omega
      simp only [h0, h1, if_false, h2, true_and]
      cases hc : Clps.collapseAt v.steps tgt tols (some g) mask with
      | error e => simp
      | ok l => cases l <;> simp

/-- **CollapseAs as a termination condition**: the same with `collapse_as` and index pairs. -/
theorem collapse_as_spec (v : View R) (off : Bool) (tol : R) (g : Int) (mask : Clps.SetMask) :
    (Prim.collapseAs off tol g mask).eval v = true ↔
      g < v.hist.length ∧ ∃ l, Clps.collapseAs v.steps off tol (some g) mask = .ok l ∧ l ≠ [] ∧
        (Prim.collapseAs off tol g mask).payload v = l.map (fun p => [p.1, p.2]) := by
  rw [eval_eq_test' v _ rfl]
  simp only [Prim.test, Prim.payload, collapsedOf]
  by_cases h0 : v.hist.length = 0
  · simp [h0]
  · by_cases h1 : (v.hist.length : Int) ≤ g
    · simp [h0, h1]
    · have h2 : g < (v.hist.length : Int) := by omega
      simp only [h0, h1, if_false, h2, true_and]
      cases hc : Clps.collapseAs v.steps off tol (some g) mask with
      | error e => simp
      | ok l => cases l <;> simp

/-- a Collapse* condition reports something after `' at '` exactly when it is satisfied (its info is its doc plus
the report: truthy iff satisfied) -/
theorem collapse_report_iff (v : View R) (p : Prim R) (h : p.kind = .collapseAt ∨ p.kind = .collapseAs) :
    p.payload v ≠ [] ↔ p.eval v = true := by
  rw [eval_eq_test' v p (by cases p <;> simp_all [Prim.warns, Prim.kind])]
  cases p <;> simp_all [Prim.kind, Prim.test]

/-- the window guard: while the energy history is not longer than `generations` the detector is not even called
(no exception whatever the mask / monitor) -/
theorem collapse_guard (v : View R) (p : Prim R) (g : Int)
    (hp : (∃ tgt tols mask, p = .collapseAt tgt tols g mask) ∨ (∃ off tol mask, p = .collapseAs off tol g mask))
    (h : (v.hist.length : Int) ≤ g) : p.err v = none ∧ p.eval v = false := by
  rcases hp with ⟨tgt, tols, mask, rfl⟩ | ⟨off, tol, mask, rfl⟩
  · constructor
    · simp only [Prim.err, collapsedOf]
      by_cases h0 : v.hist.length = 0 <;> simp [h0, h]
    · rw [eval_eq_test' v _ rfl]
      simp only [Prim.test, Prim.payload, collapsedOf]
      by_cases h0 : v.hist.length = 0 <;> simp [h0, h]
  · constructor
    · simp only [Prim.err, collapsedOf]
      by_cases h0 : v.hist.length = 0 <;> simp [h0, h]
    · rw [eval_eq_test' v _ rfl]
      simp only [Prim.test, Prim.payload, collapsedOf]
      by_cases h0 : v.hist.length = 0 <;> simp [h0, h]

end CollapseCond

/-! ### non-vacuity (closed terms) -/

section CollapseWitness

/-- energy history of length 3; monitor `x` history: column 0 settles at 1, column 1 keeps moving, column 2 is 1 too -/
def cv : View Int :=
  { hist := [5, 4, 3], pop := [], popE := [], best := [], trial := [], trial2d := false, grad := [],
    gens := 3, fcalls := 7, earlyExit := false, tTime := 0, tPerf := 0, tProc := 0,
    steps := [[9, 0, 1], [1, 5, 1], [1, 9, 1]] }

/-- `CollapseAt(generations=2)` reports `{0, 2}`; masking `{0}` leaves `{2}`; `generations=3` (not shorter than the
history) is not satisfied; a list mask is a TypeError once the window fits and no error before;
`CollapseAs(generations=2)` reports the pair `(0, 2)`; the mask round trip: rebuilt from type and state it is the
same condition -/
example :
    (Prim.collapseAt (R := Int) .none [0] 2 .none).payload cv = [[0], [2]]
    ∧ (Prim.collapseAt (R := Int) .none [0] 2 (.set [.idx 0])).payload cv = [[2]]
    ∧ (Prim.collapseAt (R := Int) .none [0] 2 (.set [.idx 0])).eval cv = true
    ∧ (Prim.collapseAt (R := Int) .none [0] 3 .none).eval cv = false
    ∧ (Prim.collapseAt (R := Int) .none [0] 2 .other).err cv = some .type
    ∧ (Prim.collapseAt (R := Int) .none [0] 3 .other).err cv = none
    ∧ (Prim.collapseAs (R := Int) false 0 2 .none).payload cv = [[0, 2]]
    ∧ (Prim.collapseAs (R := Int) false 0 2 (.set [.seq [2, 0]])).eval cv = false := by
  decide

example : Prim.make (Prim.collapseAt (R := Int) .none [0] 2 (.set [.idx 0])).kind
    (Prim.collapseAt (R := Int) .none [0] 2 (.set [.idx 0])).state 0 0 0 0
    = some (Prim.collapseAt .none [0] 2 (.set [.idx 0])) := rfl

end CollapseWitness

end MysticVerif.C10
