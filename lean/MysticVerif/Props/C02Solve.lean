/-
C02 wherever `Solve()` stops (closed loop, Model/ClosedLoop.lean): whatever the termination condition tree, the
limits, the trial vectors / line searches and the number of iterations the run performs, every call made to the user's
cost - every record of the evaluation monitor of the state `Solve` leaves - is at a point inside the box, and a finite
reported best lies in the box.
-/
import MysticVerif.Props.C02
import MysticVerif.Props.Solve
import MysticVerif.Props.Reconfig

namespace MysticVerif.C02
open MysticVerif.Solver MysticVerif.Closed MysticVerif.SolveProps MysticVerif.PowellS

variable {R : Type} [Add R] [Sub R] [Mul R] [Div R] [Neg R] [LinearOrder R] [BEq R] [OfNat R 0] [OfNat R 2]

/-- differential evolution (1 and 2) -/
theorem solve_de_in_box (two : Bool) (o : Obj (List R) R) (h : Hyp o) (hu : o.useRange = true) (cond : Term.Cond R)
    (pop0 : List (List R)) (x0 : List R) (trialss : List (List (List R))) (fuel : Nat) (c : Ctl) :
    let s := (solve (deAlg two o cond pop0 trialss) fuel c (DE.init o pop0 x0) 0 0).st
    (∀ p ∈ s.log, o.inBox p.1 = true) ∧ (s.bestE ≠ o.top → o.inBox s.best = true) := by
  intro s
  have hi := solve_de_inv two o h cond pop0 x0 trialss fuel c
  exact ⟨fun p hp => (hi.logOK p hp).2.2 hu, fun hne => (hi.best hne).2.2.2 hu⟩

/-- Nelder-Mead (from the first `_Step` on; before it nothing was evaluated by this run) -/
theorem solve_nm_in_box (o : Obj (Pt R) R) (h : Hyp o) (hu : o.useRange = true) (coef : Coef R)
    (st clip0 mkVal : Pt R → Pt R) (hst : ∀ x, o.K (st x) = o.K x)
    (hclip : ∀ x, (o.useRange = true → o.inBox x = true) → clip0 x = x)
    (cond : Term.Cond R) (x0 : Pt R) (fuel : Nat) (c : Ctl) (s0 : NM R R)
    (hran : 1 ≤ (solve (nmAlg o coef st clip0 mkVal cond x0) fuel c s0 0 0).iters) :
    ∀ p ∈ (solve (nmAlg o coef st clip0 mkVal cond x0) fuel c s0 0 0).st.log, o.inBox p.1 = true := by
  intro p hp
  exact ((solve_nm_inv o h coef st clip0 mkVal hst hclip cond x0 fuel c s0 hran).logOK p hp).2.2 hu

/-- Powell -/
theorem solve_pw_in_box (o : Obj (Pt R) R) (h : Hyp o) (hu : o.useRange = true) (cfg : PwCfg R R)
    (ls : Nat → Pt R → Pt R → LsRec R) (cond : Term.Cond R) (record : Bool) (x0 : Pt R) (direc : List (Pt R))
    (hd : direc ≠ []) (fuel : Nat) (c : Ctl) (s0 : Pw R R)
    (hran : 1 ≤ (solve (pwAlg o cfg ls cond record x0 direc) fuel c s0 0 0).iters) :
    let s := (solve (pwAlg o cfg ls cond record x0 direc) fuel c s0 0 0).st
    (∀ p ∈ s.log, o.inBox p.1 = true) ∧ (s.fval ≠ o.top → o.inBox s.x = true) := by
  intro s
  have hi := solve_pw_inv o h cfg ls cond record x0 direc hd fuel c s0 hran
  exact ⟨fun p hp => (hi.logOK p hp).2.2 hu, fun hne => (hi.best hne).2.2.2 hu⟩

end MysticVerif.C02
