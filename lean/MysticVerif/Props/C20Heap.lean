/-
C20 (part 3) - "never alters the monitor passed to it", as theorems about the aliasing model
Model/MonitorHeap.lean: which list cells an operation writes, which it allocates, and that the heap model
refines the functional model of Model/Monitor.lean (`Heap.view`).  Imported by Props/C20.lean.
-/
import MysticVerif.Proofs.Monitor
import MysticVerif.Model.MonitorHeap

namespace MysticVerif.C20
open MysticVerif.Mon MysticVerif.MonHeap

variable {R : Type} {α : Type}

/-! ### cells -/

private theorem rd_append_old (s : List (List α)) (v : List α) (a : Nat) (h : a < s.length) :
    rd (s ++ [v]) a = rd s a := by
  simp [rd, List.getD, List.getElem?_append_left h]

private theorem rd_append_new (s : List (List α)) (v : List α) : rd (s ++ [v]) s.length = v := by
  simp [rd, List.getD]

private theorem rd_wr_other (s : List (List α)) (v : List α) (a b : Nat) (h : a ≠ b) : rd (wr s b v) a = rd s a := by
  simp [rd, wr, List.getD, List.getElem?_set, Ne.symm h]

private theorem rd_wr_same (s : List (List α)) (v : List α) (a : Nat) (h : a < s.length) : rd (wr s a v) a = v := by
  simp [rd, wr, List.getD, List.getElem?_set, h]

/-- `view` forgets the logging interval (an attribute of the Python object, not of its list cells) -/
def noIv (m : Mon R) : Mon R := { m with interval := none }

private theorem view_ext (m n : Mon R) (h1 : m.x = n.x) (h2 : m.y = n.y) (h3 : m.id = n.id) (h4 : m.info = n.info)
    (h5 : m.k = n.k) (h6 : m.interval = n.interval) : m = n := by
  cases m; cases n; simp_all

/-! ### frame lemmas -/

/-- writing the cells of `o` does not change what any object with disjoint cells holds -/
theorem store_frame (h : Heap R) (o p : Obj R) (m : Mon R) (hd : p.Disj o) : (h.store o m).view p = h.view p := by
  obtain ⟨d1, d2, d3, d4⟩ := hd
  simp [Heap.view, Heap.store, rd_wr_other, d1, d2, d3, d4]

theorem store_view (h : Heap R) (o : Obj R) (m : Mon R) (hv : o.Valid h) (hk : m.k = o.k) :
    (h.store o m).view o = noIv m := by
  obtain ⟨v1, v2, v3, v4⟩ := hv
  apply view_ext <;> simp [Heap.view, Heap.store, noIv, rd_wr_same, v1, v2, v3, v4, hk]

theorem store_valid (h : Heap R) (o p : Obj R) (m : Mon R) (hv : p.Valid h) : p.Valid (h.store o m) := by
  simpa [Obj.Valid, Heap.store, wr] using hv

/-- allocation: the new object holds the given contents in four cells that no allocated object uses; nothing
that was allocated changes -/
theorem alloc_spec (h : Heap R) (m : Mon R) :
    (h.allocMon m).1.view (h.allocMon m).2 = noIv m ∧ (h.allocMon m).2.Valid (h.allocMon m).1 ∧
    ∀ p : Obj R, p.Valid h → (h.allocMon m).1.view p = h.view p ∧ (h.allocMon m).2.Disj p ∧ p.Disj (h.allocMon m).2 ∧
      p.Valid (h.allocMon m).1 := by
  refine ⟨?_, ?_, ?_⟩
  · apply view_ext <;> simp [Heap.view, Heap.allocMon, noIv, rd_append_new]
  · simp [Obj.Valid, Heap.allocMon]
  · intro p ⟨v1, v2, v3, v4⟩
    refine ⟨?_, ?_, ?_, ?_⟩
    · simp [Heap.view, Heap.allocMon, rd_append_old, v1, v2, v3, v4]
    · simp only [Obj.Disj, Heap.allocMon]; omega
    · simp only [Obj.Disj, Heap.allocMon]; omega
    · simp only [Obj.Valid, Heap.allocMon, List.length_append, List.length_singleton]; omega

/-! ## the property -/

/-- **`__call__` writes only its own monitor.** The receiver afterwards holds one more record (exactly
`Mon.call` of the functional model); every monitor object that shares no list cell with it holds what it
held before. -/
theorem heap_call_spec [Mul R] (h : Heap R) (o : Obj R) (hv : o.Valid h) (x y : PV R) (id : Option Int) :
    (h.call o x y id).view o = noIv ((h.view o).call x y id) ∧
    (∀ p : Obj R, p.Disj o → (h.call o x y id).view p = h.view p) ∧
    (∀ p : Obj R, p.Valid h → p.Valid (h.call o x y id)) :=
  ⟨store_view h o _ hv rfl, fun p hd => store_frame h o p _ hd, fun p hp => store_valid h o p _ hp⟩

/-- **later calls do not show up elsewhere.** Any number of calls through `r` leave every object with
disjoint cells unchanged. -/
theorem heap_calls_invisible [Mul R] (cs : List (PV R × PV R × Option Int)) :
    ∀ (h : Heap R) (r p : Obj R), p.Disj r → (h.calls r cs).view p = h.view p := by
  induction cs with
  | nil => intro h r p _; rfl
  | cons c cs ih =>
    intro h r p hd
    simp only [Heap.calls]
    rw [ih _ r p hd]
    exact store_frame h r p _ hd

/-- **`a.extend(b)` / `a.prepend(b)` never alter `b`** (nor any other monitor that shares no cell with `a`),
and `a` afterwards holds exactly the functional `extend` / `prepend` of the two contents. -/
theorem heap_extend_spec [Div R] [OfNat R 1] (h : Heap R) (a b : Obj R) (ha : a.Valid h) (hab : b.Disj a) :
    (h.extend a b).view b = h.view b ∧ (h.extend a b).view a = noIv ((h.view a).extend (h.view b)) ∧
    (∀ p : Obj R, p.Disj a → (h.extend a b).view p = h.view p) ∧
    (h.prepend a b).view b = h.view b ∧ (h.prepend a b).view a = noIv ((h.view a).prepend (h.view b)) ∧
    (∀ p : Obj R, p.Disj a → (h.prepend a b).view p = h.view p) :=
  ⟨store_frame h a b _ hab, store_view h a _ ha rfl, fun p hd => store_frame h a p _ hd,
   store_frame h a b _ hab, store_view h a _ ha rfl, fun p hd => store_frame h a p _ hd⟩

/-- **`a + b` never alters `a` or `b` and shares no list with them.** The sum is a new object whose four
cells are disjoint from the cells of every monitor allocated before (in particular `a` and `b`, also when
`a` and `b` are the same object); `a`, `b` and every other monitor hold what they held; the sum holds exactly
the functional `Mon.add`.  Together with `heap_calls_invisible`: later calls on the sum do not show up in an
operand, and later calls on an operand do not show up in the sum. -/
theorem heap_add_spec [Div R] [OfNat R 1] (h : Heap R) (a b : Obj R) (ha : a.Valid h) (hb : b.Valid h) :
    let h' := (h.add a b).1
    let r := (h.add a b).2
    h'.view a = h.view a ∧ h'.view b = h.view b ∧ r.Disj a ∧ r.Disj b ∧ a.Disj r ∧ b.Disj r ∧
    r.Valid h' ∧ a.Valid h' ∧ b.Valid h' ∧
    (∀ p : Obj R, p.Valid h → h'.view p = h.view p ∧ p.Disj r) ∧
    h'.view r = noIv ((h.view a).add (h.view b)) := by
  intro h' r
  obtain ⟨c1, c2, c3⟩ := alloc_spec h (h.view a)
  have hframe : ∀ p : Obj R, p.Valid h → h'.view p = h.view p ∧ p.Disj r := by
    intro p hp
    obtain ⟨p1, p2, p3, p4⟩ := c3 p hp
    refine ⟨?_, p3⟩
    simp only [h', Heap.add, Heap.deepcopy, Heap.extend]
    rw [store_frame _ _ p _ p3, p1]
  obtain ⟨a1, a2, a3, a4⟩ := c3 a ha
  obtain ⟨b1, b2, b3, b4⟩ := c3 b hb
  refine ⟨(hframe a ha).1, (hframe b hb).1, a2, b2, a3, b3, ?_, ?_, ?_, hframe, ?_⟩
  · exact store_valid _ _ _ _ c2
  · exact store_valid _ _ _ _ a4
  · exact store_valid _ _ _ _ b4
  · simp only [h', r, Heap.add, Heap.deepcopy, Heap.extend]
    refine (store_view _ _ (((h.allocMon (h.view a)).1.view (h.allocMon (h.view a)).2).extend
      ((h.allocMon (h.view a)).1.view b)) c2 rfl).trans ?_
    rw [c1, b1]
    apply view_ext <;> simp [noIv, Mon.add, Mon.extend, yFor]

/-- **`m[start:stop:step]` never alters `m` and shares no list with it** (the same holds for list / array
indices through `Heap.fancy`, which allocates the same way). -/
theorem heap_slice_spec (h : Heap R) (o : Obj R) (ho : o.Valid h) (s e : Option Int) (t : Int) :
    let h' := (h.slice o s e t).1
    let r := (h.slice o s e t).2
    h'.view o = h.view o ∧ r.Disj o ∧ o.Disj r ∧ r.Valid h' ∧ o.Valid h' ∧
    (∀ p : Obj R, p.Valid h → h'.view p = h.view p ∧ p.Disj r) ∧
    h'.view r = noIv ((h.view o).slice s e t) := by
  intro h' r
  obtain ⟨c1, c2, c3⟩ := alloc_spec h ((h.view o).slice s e t)
  obtain ⟨o1, o2, o3, o4⟩ := c3 o ho
  exact ⟨o1, o2, o3, c2, o4, fun p hp => ⟨(c3 p hp).1, (c3 p hp).2.2.1⟩, c1⟩

theorem heap_fancy_spec (h : Heap R) (o : Obj R) (ho : o.Valid h) (sel : Nat → Option (List Nat))
    (h' : Heap R) (r : Obj R) (hr : h.fancy o sel = .ok (h', r)) :
    h'.view o = h.view o ∧ r.Disj o ∧ r.Valid h' ∧ (∀ p : Obj R, p.Valid h → h'.view p = h.view p ∧ p.Disj r) := by
  unfold Heap.fancy at hr
  split at hr
  · rename_i m _
    simp only [Except.ok.injEq, Prod.mk.injEq] at hr
    obtain ⟨rfl, rfl⟩ := hr
    obtain ⟨_, c2, c3⟩ := alloc_spec h m
    obtain ⟨o1, o2, _, _⟩ := c3 o ho
    exact ⟨o1, o2, c2, fun p hp => ⟨(c3 p hp).1, (c3 p hp).2.2.1⟩⟩
  · simp at hr

/-- **hand-over to a solver** (`SetGenerationMonitor / SetEvaluationMonitor(monitor, new)`).  The solver's slot
afterwards IS `monitor` (the same object: what the solver records shows up in the caller's monitor - by design);
the previous monitor `cur` is only read: it holds what it held, and when `new` is false and it is a different
object its records are prepended to `monitor`; with `None` the slot is a new object sharing nothing. -/
theorem heap_handover_spec [Div R] [OfNat R 1] (h : Heap R) (cur m : Obj R) (hm : m.Valid h) (hcur : cur.Valid h)
    (hd : cur.Disj m) (new : Bool) :
    (h.handOver cur (some m) new).2 = m ∧
    (h.handOver cur (some m) new).1.view cur = h.view cur ∧
    (h.handOver cur (some m) new).1.view m =
      (if new = true then h.view m else noIv ((h.view m).prepend (h.view cur))) ∧
    ((h.handOver cur none new).2.Disj cur ∧ (h.handOver cur none new).1.view cur = h.view cur ∧
      (∀ p : Obj R, p.Valid h → (h.handOver cur none new).1.view p = h.view p ∧ p.Disj (h.handOver cur none new).2)) := by
  have hns : cur.same m = false := by
    obtain ⟨d1, _, _, _⟩ := hd
    simp [Obj.same, d1]
  obtain ⟨n1, n2, n3⟩ := alloc_spec h ({ k := none } : Mon R)
  obtain ⟨q1, q2, q3, q4⟩ := n3 cur hcur
  refine ⟨?_, ?_, ?_, ?_, ?_, ?_⟩
  · unfold Heap.handOver; simp only [hns]; split <;> rfl
  · unfold Heap.handOver; simp only [hns]
    split
    · rfl
    · exact store_frame h m cur _ hd
  · unfold Heap.handOver; simp only [hns]
    cases new with
    | true => simp
    | false => simp only [Bool.false_eq_true, or_self, if_false]; exact store_view h m _ hm rfl
  · unfold Heap.handOver Heap.new
    cases new with
    | true => simpa using q2
    | false => simpa using q2
  · unfold Heap.handOver Heap.new
    cases new with
    | true => simpa using q1
    | false =>
      simp only [Bool.false_eq_true, if_false, Heap.prepend]
      rw [store_frame _ _ cur _ q3, q1]
  · intro p hp
    obtain ⟨p1, p2, p3, p4⟩ := n3 p hp
    unfold Heap.handOver Heap.new
    cases new with
    | true => exact ⟨by simpa using p1, by simpa using p3⟩
    | false =>
      simp only [Bool.false_eq_true, if_false, Heap.prepend]
      exact ⟨by rw [store_frame _ _ p _ p3, p1], p3⟩

/-! ## non-vacuity -/

/-- `r = a + a` on a real heap: three objects, `a` untouched by a later call through `r` -/
def exA : Heap Int × Obj Int := ({} : Heap Int).new none
def exH1 : Heap Int := exA.1.call exA.2 (.vec [1, 2]) (.sc 3) none
def exQ : Heap Int × Obj Int := exH1.add exA.2 exA.2
def exH2 : Heap Int := exQ.1.call exQ.2 (.vec [7, 8]) (.sc 9) (some 1)

example : (exH2.view exA.2).x = [.vec [1, 2]] ∧ (exH2.view exQ.2).x = [.vec [1, 2], .vec [1, 2], .vec [7, 8]] ∧
    (exH2.view exQ.2).id = [none, none, some 1] ∧ exQ.2.cx ≠ exA.2.cx := by decide

/-- hand-over: the solver's slot and the caller's monitor are one object; the old monitor keeps its records -/
def exM : Heap Int × Obj Int := exH1.new none
def exH3 : Heap Int := exM.1.call exM.2 (.sc 3) (.sc 4) none
def exS : Heap Int × Obj Int := exH3.handOver exA.2 (some exM.2) false
def exH4 : Heap Int := exS.1.call exS.2 (.sc 5) (.sc 6) none

example : (exH4.view exM.2).x = [.vec [1, 2], .sc 3, .sc 5] ∧ (exH4.view exA.2).x = [.vec [1, 2]] ∧ exS.2.cx = exM.2.cx := by
  decide

end MysticVerif.C20
