/-
C12 - symbolic rewriting preserves the solution set (verified validator).
Property theorems only (helper lemmas live in Proofs/Symbolic.lean).

`K` is an arbitrary linearly ordered field; a point is `x : Nat → K`.  The harness parses the input text
and the text the real `simplify / solve / linear_symbolic / symbolic_bounds` returned on THIS run into
`Item`s / `Line`s with exact rational coefficients and runs `validate / solveOK / sameSystem` at `K := Rat`
(`Drv/C12.lean`).  The theorems below say: whenever those Boolean functions answer `true`, the two texts are
satisfied by exactly the same points - for every system, every number of variables and lines, every
coefficient, every comparator.  (Nothing is claimed when they answer `false`: then the harness searches a
separating point.)

DESIGN.md C12 list -> names here:
  canonLine_sound -> canonLine_sound      canonSys_sound -> canonSys_sound     isolate_sound -> isolate_sound
  signcase_sound -> signcase_sound (+ signcase_sound_general)                  cert_sound -> cert_sound, solve_validator_sound
  matrix_text_sound -> matrix_rows_spec + matrix_text_sound, bounds_rows_spec + bounds_text_sound
  (new) simplify_validator_sound = the end-to-end statement for `simplify(..., all=True)`
  (new) merge_exclusive_sound / merge_exclusive_none / merge_inclusive_partial / merge_inclusive_drops_witness /
        merge_inclusive_ne_witness : the literal `merge` decision table, incl. the defect of applying the
        inclusive table to a conjunction (symbolic.py l.582)
  (second layer, Model/Symbolic2.lean) abs_expand_sound, signcase_product_sound, simplify_validator_sound_ext,
        simplify_validator_sound_abs : absolute values (absval pre-pass) and product divisors;
        flip_neg_factor_sound, flip_pos_factor_sound, flipB_complement, comparator_single_token,
        comparator_priority_witness, equals_spec, testpoint_decides_flip, testpoint_on_boundary_witness,
        merge_exclusive_none_iff_partial_witness : the string-free cores of symbolic.py
  (third layer, Model/SymbolicTop.lean) simplify_top_all_complete, simplify_top_all_sound, simplify_top_inside,
        simplify_top_single_member, single_case_not_whole_witness : the top level of `simplify` (absval cases ->
        one `_simplify` per case -> flatten -> select) as a function of THIS call's values only
-/
import MysticVerif.Proofs.Symbolic
import MysticVerif.Proofs.Symbolic2
import MysticVerif.Proofs.SymbolicTop

namespace MysticVerif.C12
open MysticVerif.Sym

variable {K : Type} [Field K] [LinearOrder K] [IsStrictOrderedRing K]

/-- all lines of a system hold at `x` -/
def satAll (s : List (Line K)) (x : Nat → K) : Prop := ∀ ln ∈ s, ln.sat x

/-! ## the flip rule -/

/-- **isolate / flip rule.**  Isolating `x_i` from `c * x_i + r ⋈ 0` divides by `c`: the comparator is kept
for `0 < c` and flipped (`_flip`, `=` and `!=` untouched) for `c < 0`. -/
theorem isolate_sound (cmp : Cmp) (c xi r : K) (hc : c ≠ 0) :
    cmp.holds (c * xi + r) 0 ↔ (if 0 < c then cmp else cmp.flip).holds xi (-r / c) := by
  have key : (c * xi + r) / c = xi - -r / c := by field_simp; ring
  rw [Cmp.holds_sub _ xi, ← key]
  rcases lt_or_gt_of_ne hc with h | h
  · rw [if_neg (not_lt.mpr (le_of_lt h))]; exact Cmp.holds_div_neg _ _ _ h
  · rw [if_pos h]; exact Cmp.holds_div_pos _ _ _ h

/-- the flip is necessary: without it the rewritten line is wrong (witness `-x > 2` vs `x > -2` at `x = 0`) -/
theorem isolate_noflip_wrong : ¬ (∀ (c xi r : ℚ), c ≠ 0 → (Cmp.gt.holds (c * xi + r) 0 ↔ Cmp.gt.holds xi (-r / c))) := by
  intro h
  have := h (-1) 0 (-2) (by norm_num)
  simp only [Cmp.holds] at this
  norm_num at this

/-- `_flip` leaves `=` and `!=` alone and is an involution -/
theorem flip_eq_ne : Cmp.eq.flip = .eq ∧ Cmp.ne.flip = .ne ∧ ∀ c : Cmp, c.flip.flip = c := by
  refine ⟨rfl, rfl, fun c => ?_⟩; cases c <;> rfl

/-- **sign cases (general divisor).** Where the divisor `q` is non-zero, `p / q ⋈ r` holds iff
`0 < q ∧ p ⋈ r*q` or `q < 0 ∧ p (flip ⋈) r*q`. -/
theorem signcase_sound_general (cmp : Cmp) (p q r : K) (hq : q ≠ 0) :
    cmp.holds (p / q) r ↔ (0 < q ∧ cmp.holds p (r * q)) ∨ (q < 0 ∧ cmp.flip.holds p (r * q)) :=
  Cmp.signcase cmp p q r hq

/-- **sign cases, as in the property: the direction depends on the sign of one variable factor.**
With `q = c * x_k`, `c ≠ 0`: the cases are the sign of `x_k` (swapped when `c < 0`). -/
theorem signcase_sound (cmp : Cmp) (p c xk r : K) (hc : c ≠ 0) (hx : xk ≠ 0) :
    cmp.holds (p / (c * xk)) r ↔
      ((if 0 < c then 0 < xk else xk < 0) ∧ cmp.holds p (r * (c * xk))) ∨
      ((if 0 < c then xk < 0 else 0 < xk) ∧ cmp.flip.holds p (r * (c * xk))) := by
  rw [Cmp.signcase cmp p (c * xk) r (mul_ne_zero hc hx)]
  rcases lt_or_gt_of_ne hc with h | h
  · rw [if_neg (not_lt.mpr (le_of_lt h)), if_neg (not_lt.mpr (le_of_lt h))]
    have e1 : 0 < c * xk ↔ xk < 0 := by
      constructor
      · intro hh; by_contra hn; push Not at hn
        exact absurd hh (not_lt.mpr (mul_nonpos_of_nonpos_of_nonneg (le_of_lt h) hn))
      · intro hh; exact mul_pos_of_neg_of_neg h hh
    have e2 : c * xk < 0 ↔ 0 < xk := by
      constructor
      · intro hh; by_contra hn; push Not at hn
        exact absurd hh (not_lt.mpr (mul_nonneg_of_nonpos_of_nonpos (le_of_lt h) hn))
      · intro hh; exact mul_neg_of_neg_of_pos h hh
    rw [e1, e2]
  · rw [if_pos h, if_pos h]
    have e1 : 0 < c * xk ↔ 0 < xk := by
      constructor
      · intro hh; exact (pos_iff_pos_of_mul_pos hh).mp h
      · intro hh; exact mul_pos h hh
    have e2 : c * xk < 0 ↔ xk < 0 := by
      constructor
      · intro hh; by_contra hn; push Not at hn
        exact absurd hh (not_lt.mpr (mul_nonneg (le_of_lt h) hn))
      · intro hh; exact mul_neg_of_pos_of_neg h hh
    rw [e1, e2]

/-! ## canonical forms -/

/-- **canonLine.** The canonical lines of a line (difference of the sides, trailing zeros stripped, divided by
the leading coefficient with the comparator flipped for a negative one, `=` split into `≥`,`≤`) hold exactly
where the line holds. -/
theorem canonLine_sound (ln : Line K) (x : Nat → K) : (∀ c ∈ canonLine ln, c.sat x) ↔ ln.sat x :=
  canonLine_sat ln x

/-- **canonSys.** Systems with the same set of canonical lines have the same solutions. -/
theorem canonSys_sound (a b : List (Line K)) (h : sameSet (canonSys a) (canonSys b) = true) (x : Nat → K) :
    satAll a x ↔ satAll b x := by
  unfold satAll
  rw [← canonSys_sat a x, ← canonSys_sat b x]
  have hm := sameSet_mem h
  exact ⟨fun hh c hc => hh c ((hm c).mpr hc), fun hh c hc => hh c ((hm c).mp hc)⟩

/-! ## `simplify(..., all=True)` -/

/-- **simplify, end to end.** If the validator accepts, then the input system (linear lines and rational
relations `p / q ⋈ r`, the latter unsatisfied where `q = 0`) is satisfied at `x` iff SOME returned case has
all its lines (its sign conditions included) satisfied at `x`. -/
theorem simplify_validator_sound (inp : List (Item K)) (out : List (List (Line K)))
    (h : validate inp out = true) (x : Nat → K) :
    (∀ it ∈ inp, it.sat x) ↔ ∃ s ∈ out, satAll s x := by
  rw [expand_sound]
  have := dnfEquiv_sound h x
  simp only [List.mem_map, exists_exists_and_eq_and, canonSys_sat] at this
  exact this

/-- for a purely linear input and a single returned text: same points -/
theorem simplify_validator_sound_linear (inp out : List (Line K))
    (h : validate (inp.map Item.lin) [out] = true) (x : Nat → K) : satAll inp x ↔ satAll out x := by
  have := simplify_validator_sound _ _ h x
  simpa [Item.sat, satAll] using this

/-! ## `solve` -/

/-- **certificate.** If every output equation is the stated combination of the input equations and vice versa
(checked exactly), both systems `p = 0` have the same solutions. -/
theorem cert_sound (inp out : List (Form K)) (A B : List (List K)) (h : certOK inp out A B = true)
    (x : Nat → K) : (∀ p ∈ inp, p.eval x = 0) ↔ (∀ p ∈ out, p.eval x = 0) := by
  simp only [certOK, Bool.and_eq_true] at h
  exact ⟨combOK_sound A inp out h.1 x, combOK_sound B out inp h.2 x⟩

/-- **solve, end to end.** If `solveOK` accepts the parsed input and the parsed solved form, they have exactly
the same solutions. -/
theorem solve_validator_sound (inp out : List (Line K)) (A B : List (List K))
    (h : solveOK inp out A B = true) (x : Nat → K) : satAll inp x ↔ satAll out x := by
  unfold solveOK at h
  split at h
  · rename_i fi fo hi ho
    unfold satAll
    rw [eqForms_sat inp fi hi x, eqForms_sat out fo ho x]
    exact cert_sound fi fo A B h x
  · simp at h

/-! ## `linear_symbolic`, `symbolic_bounds` -/

/-- the rows built from the matrices mean `A x = b ∧ G x ≤ h` (row by row) -/
theorem matrix_rows_spec (A : List (List K)) (b : List K) (G : List (List K)) (h : List K) (x : Nat → K) :
    satAll (matrixRows A b G h) x ↔
      (∀ p ∈ A.zip b, dot p.1 x 0 = p.2) ∧ (∀ p ∈ G.zip h, dot p.1 x 0 ≤ p.2) := by
  unfold satAll matrixRows
  simp only [List.mem_append]
  rw [← eqRows_sat, ← leRows_sat]
  constructor
  · intro hh; exact ⟨fun ln h1 => hh ln (Or.inr h1), fun ln h1 => hh ln (Or.inl h1)⟩
  · rintro ⟨h1, h2⟩ ln (hl | hl)
    · exact h2 ln hl
    · exact h1 ln hl

/-- **linear_symbolic.** If the validator accepts the parsed text against the rows of the matrices, the text
holds exactly where `A x = b` and `G x ≤ h`. -/
theorem matrix_text_sound (A : List (List K)) (b : List K) (G : List (List K)) (h : List K)
    (txt : List (Line K)) (hv : sameSystem (matrixRows A b G h) txt = true) (x : Nat → K) :
    satAll txt x ↔ (∀ p ∈ A.zip b, dot p.1 x 0 = p.2) ∧ (∀ p ∈ G.zip h, dot p.1 x 0 ≤ p.2) := by
  rw [← matrix_rows_spec]
  exact (simplify_validator_sound_linear _ _ hv x).symm

/-- the rows built from the bounds mean `lo_i ≤ x_i ≤ hi_i`, infinite sides (`none`) omitted -/
theorem bounds_rows_spec (lo hi : List (Option K)) (x : Nat → K) :
    satAll (boundRows lo hi) x ↔
      (∀ i v, lo[i]? = some (some v) → v ≤ x i) ∧ (∀ i v, hi[i]? = some (some v) → x i ≤ v) := by
  unfold satAll boundRows
  simp only [List.mem_append]
  have h1 := loRows_sat 0 lo x
  have h2 := hiRows_sat 0 hi x
  simp only [Nat.zero_add] at h1 h2
  rw [← h1, ← h2]
  constructor
  · intro hh; exact ⟨fun ln h => hh ln (Or.inl h), fun ln h => hh ln (Or.inr h)⟩
  · rintro ⟨a, b⟩ ln (hl | hl)
    · exact a ln hl
    · exact b ln hl

/-- **symbolic_bounds.** If the validator accepts, the text holds exactly inside the box. -/
theorem bounds_text_sound (lo hi : List (Option K)) (txt : List (Line K))
    (hv : sameSystem (boundRows lo hi) txt = true) (x : Nat → K) :
    satAll txt x ↔ (∀ i v, lo[i]? = some (some v) → v ≤ x i) ∧ (∀ i v, hi[i]? = some (some v) → x i ≤ v) := by
  rw [← bounds_rows_spec]
  exact (simplify_validator_sound_linear _ _ hv x).symm

/-! ## `merge` (the literal decision tables of symbolic.py l.277-303) -/

/-- **merge, exclusive table** (the one `_simplify` applies to each product of cases, l.786): when it returns
lines, they hold exactly where all the given lines hold (for every meaning `v` of the line texts). -/
theorem merge_exclusive_sound {E : Type} [DecidableEq E] (v : E → K × K) (eqs out : List (TLine E))
    (h : mergeExcl eqs = some out) : (∀ l ∈ eqs, l.holds v) ↔ ∀ l ∈ out, l.holds v :=
  mergeExcl_some v eqs out h

/-- when the exclusive table answers `None`, the lines have no common solution (dropping the case is right) -/
theorem merge_exclusive_none {E : Type} [DecidableEq E] (v : E → K × K) (eqs : List (TLine E))
    (h : mergeExcl eqs = none) : ¬ ∀ l ∈ eqs, l.holds v :=
  mergeExcl_none v eqs h

/-- **merge, inclusive table - what is true of it (partial).**  Full statement wanted (and FALSE, see the two
witnesses below): `(∀ l ∈ eqs, l.holds v) ↔ ∀ l ∈ mergeIncl eqs, l.holds v`.  Only `→` holds: the inclusive table
only weakens a conjunction. `absval` (l.582) applies it to the conjunction of the input lines of `simplify`. -/
theorem merge_inclusive_partial {E : Type} [DecidableEq E] (v : E → K × K) (eqs : List (TLine E))
    (h : ∀ l ∈ eqs, l.holds v) : ∀ l ∈ mergeIncl eqs, l.holds v :=
  mergeIncl_weakens v eqs h

/-- witness: `['A >= B', 'A <= B', 'C > D']` is merged (inclusive) to `['C > D']`; at `A=5, B=1, C=1, D=0` the
result holds and the input does not.  (`simplify("x0 >= 1\nx0 <= 1\nx1 > 0")` returns `"x1 > 0"`.) -/
theorem merge_inclusive_drops_witness :
    mergeIncl [(⟨0, .ge⟩ : TLine Nat), ⟨0, .le⟩, ⟨1, .gt⟩] = [⟨1, .gt⟩] ∧
    ∃ v : Nat → ℚ × ℚ, (∀ l ∈ mergeIncl [(⟨0, .ge⟩ : TLine Nat), ⟨0, .le⟩, ⟨1, .gt⟩], l.holds v) ∧
      ¬ ∀ l ∈ [(⟨0, .ge⟩ : TLine Nat), ⟨0, .le⟩, ⟨1, .gt⟩], l.holds v := by
  have e : mergeIncl [(⟨0, .ge⟩ : TLine Nat), ⟨0, .le⟩, ⟨1, .gt⟩] = [⟨1, .gt⟩] := by decide
  refine ⟨e, fun n => if n = 0 then (5, 1) else (1, 0), ?_, ?_⟩
  · rw [e]; simp [TLine.holds, Cmp.holds]
  · simp [TLine.holds, Cmp.holds]

/-- witness: `['A > B', 'A < B']` (no solution) is merged (inclusive) to `['A != B']` (almost everything) -/
theorem merge_inclusive_ne_witness :
    mergeIncl [(⟨0, .gt⟩ : TLine Nat), ⟨0, .lt⟩] = [⟨0, .ne⟩] ∧
    ∃ v : Nat → ℚ × ℚ, (∀ l ∈ mergeIncl [(⟨0, .gt⟩ : TLine Nat), ⟨0, .lt⟩], l.holds v) ∧
      ¬ ∀ l ∈ [(⟨0, .gt⟩ : TLine Nat), ⟨0, .lt⟩], l.holds v := by
  have e : mergeIncl [(⟨0, .gt⟩ : TLine Nat), ⟨0, .lt⟩] = [⟨0, .ne⟩] := by decide
  refine ⟨e, fun _ => (1, 0), ?_, ?_⟩
  · rw [e]; simp [TLine.holds, Cmp.holds]
  · simp [TLine.holds, Cmp.holds]

/-! ## second layer: absolute values, product divisors (Model/Symbolic2.lean) -/

/-- **absval pre-pass (symbolic.py l.490-583).** A relation with terms `c_k * abs(a_k)` on its left side / in its
numerator holds at `x` iff for SOME choice of signs all conditions (`a_k >= 0` where abs was replaced by `+`,
`a_k <= 0` where by `-`) hold and the relation with `abs` replaced accordingly holds.  For all term lists, items, points. -/
theorem abs_expand_sound (ts : List (K × Form K)) (it : Item K) (x : Nat → K) :
    (XItem.absl ts it).sat x ↔ ∃ p ∈ absExpand ts it, (∀ ln ∈ p.1, ln.sat x) ∧ p.2.sat x :=
  absExpand_sound ts it x

/-- `absK` (the model of python's `abs`) is the absolute value of the field -/
theorem absK_spec (a : K) : absK a = |a| := absK_eq_abs a

/-- **sign cases for a divisor that is a product of two factors**: four cases, the comparator flipped exactly when
one factor is negative. -/
theorem signcase_product_sound (cmp : Cmp) (p q1 q2 r : K) (h : q1 * q2 ≠ 0) :
    cmp.holds (p / (q1 * q2)) r ↔
      (0 < q1 ∧ 0 < q2 ∧ cmp.holds p (r * (q1 * q2))) ∨ (0 < q1 ∧ q2 < 0 ∧ cmp.flip.holds p (r * (q1 * q2))) ∨
      (q1 < 0 ∧ 0 < q2 ∧ cmp.flip.holds p (r * (q1 * q2))) ∨ (q1 < 0 ∧ q2 < 0 ∧ cmp.holds p (r * (q1 * q2))) :=
  Cmp.signcase2 cmp p q1 q2 r h

/-- **simplify, end to end, extended class.** If the extended validator accepts, then at every point `x` at which the
extra variables mean the monomials they stand for (`x m = x i * x j` for every product divisor), the input - linear
lines, rational relations, relations with absolute values, rational relations with a product divisor - holds iff some
returned case holds. -/
theorem simplify_validator_sound_ext (inp : List (XItem K)) (out : List (List (Line K)))
    (h : validateX inp out = true) (x : Nat → K) (hy : ∀ it ∈ inp, it.hyp x) :
    (∀ it ∈ inp, it.sat x) ↔ ∃ s ∈ out, satAll s x := by
  rw [expandX_sound inp x hy]
  have := dnfEquiv_sound h x
  simp only [List.mem_map, exists_exists_and_eq_and, canonSys_sat] at this
  exact this

/-- without product divisors there is no side condition: absolute values, all points -/
theorem simplify_validator_sound_abs (inp : List (List (K × Form K) × Item K)) (out : List (List (Line K)))
    (h : validateX (inp.map fun p => XItem.absl p.1 p.2) out = true) (x : Nat → K) :
    (∀ it ∈ inp.map (fun p => XItem.absl p.1 p.2), it.sat x) ↔ ∃ s ∈ out, satAll s x :=
  simplify_validator_sound_ext _ out h x (by
    intro it hit
    obtain ⟨p, _, rfl⟩ := List.mem_map.mp hit
    trivial)

/-! ## the string-free cores: `flip`, `comparator`, `equals`, the test-point decision -/

/-- **flip.** Multiplying both sides by a negative factor: the relation holds iff the FLIPPED relation holds between
the products (`flip`, symbolic.py l.200-212; `=`, `!=` untouched). -/
theorem flip_neg_factor_sound (cmp : Cmp) (c a b : K) (hc : c < 0) :
    cmp.holds a b ↔ cmp.flip.holds (c * a) (c * b) := by
  cases cmp <;> simp only [Cmp.holds, Cmp.flip]
  · exact (mul_lt_mul_left_of_neg hc).symm
  · exact (mul_le_mul_left_of_neg hc).symm
  · exact (mul_lt_mul_left_of_neg hc).symm
  · exact (mul_le_mul_left_of_neg hc).symm
  · exact (mul_right_inj' (ne_of_lt hc)).symm
  · exact not_congr (mul_right_inj' (ne_of_lt hc)).symm

/-- ... and by a positive factor the relation is kept -/
theorem flip_pos_factor_sound (cmp : Cmp) (c a b : K) (hc : 0 < c) :
    cmp.holds a b ↔ cmp.holds (c * a) (c * b) := by
  cases cmp <;> simp only [Cmp.holds]
  · exact (mul_lt_mul_iff_right₀ hc).symm
  · exact (mul_le_mul_iff_right₀ hc).symm
  · exact (mul_lt_mul_iff_right₀ hc).symm
  · exact (mul_le_mul_iff_right₀ hc).symm
  · exact (mul_right_inj' (ne_of_gt hc)).symm
  · exact not_congr (mul_right_inj' (ne_of_gt hc)).symm

omit [Field K] [IsStrictOrderedRing K] in
/-- **flip(bounds=True)** of an inequality is its complement (l.197-199) -/
theorem flipB_complement (cmp : Cmp) (hi : cmp.isIneq = true) (a b : K) : cmp.flipB.holds a b ↔ ¬ cmp.holds a b := by
  cases cmp <;> simp_all [Cmp.holds, Cmp.flipB, Cmp.isIneq]

/-- **comparator.** On a line that contains exactly one comparator text (and maybe a second copy of it), the priority
table over `str.count` (l.189-192) returns that text although `<=` also contains `<` and `=` etc. -/
theorem comparator_single_token (c : CTok) : comparatorOf c.toks = some c ∧ comparatorOf Toks.none = none := by
  cases c <;> decide

/-- with two different comparator texts on a line the result is the one of higher priority, not the first one
(`a > b <= c` gives `<=`): lines of constraints contain one comparator -/
theorem comparator_priority_witness : comparatorOf (CTok.gt.toks.or CTok.le.toks) = some .le := by decide

/-- **equals** (l.425-487): when both texts evaluate, the answer is whether the two truth values agree; with
`error=False` two failing evaluations count as equal, one failing as different; with `error=True` any failure is re-raised -/
theorem equals_spec (errors : Bool) (b a : Bool) :
    equalsM errors (some b) (some a) = .val (b == a) ∧
    equalsM false none none = .val true ∧ equalsM false (some b) none = .val false ∧
    equalsM false none (some a) = .val false ∧
    equalsM true none none = .zde ∧ equalsM true (some b) none = .zde ∧ equalsM true none (some a) = .zde := by
  cases errors <;> cases a <;> cases b <;> decide

/-- **the test-point decision of `_simplify1` (l.738-741).** Let the isolated form be `a cmp b` and let the original
line be equivalent, in the sign region of the test point, to `a cmp b` (`s = true`) or to `a flip(cmp) b`
(`s = false`).  If the test point is not on the boundary (`a ≠ b`), then `equals` answers `s`, i.e. the comparator that
is emitted, `flipDecision cmp eq`, is the right one. -/
theorem testpoint_decides_flip (cmp : Cmp) (hi : cmp.isIneq = true) (s : Bool) (a b : K) (hab : a ≠ b) (before : Bool)
    (hb : before = true ↔ (if s = true then cmp else cmp.flip).holds a b) (errors : Bool) :
    equalsM errors (some before) (some (cmp.test a b)) = .val s ∧
    flipDecision cmp (before == cmp.test a b) = (if s = true then cmp else cmp.flip) := by
  have hf : cmp.flip.holds a b ↔ ¬ cmp.holds a b := by
    rcases lt_or_gt_of_ne hab with h | h <;>
      cases cmp <;> simp_all [Cmp.holds, Cmp.flip, Cmp.isIneq, le_of_lt, not_lt_of_gt, not_le_of_gt]
  have ht := Cmp.test_iff cmp a b
  have key : (before == cmp.test a b) = s := by
    cases s
    · simp only [Bool.false_eq_true, if_false] at hb
      rw [hf, ← ht] at hb
      cases hbf : before <;> cases htt : cmp.test a b <;> simp_all
    · simp only [if_true] at hb
      rw [← ht] at hb
      cases hbf : before <;> cases htt : cmp.test a b <;> simp_all
  refine ⟨by simp [equalsM, key], ?_⟩
  rw [key]; cases s <;> simp [flipDecision]

/-- the hypothesis `a ≠ b` is needed: at a test point ON the boundary of a weak inequality both directions hold, `equals`
answers True and the comparator is kept even when it has to be flipped (`-x0 <= 0` tested at `x0 = 0` gives `x0 <= 0`;
the real test point is random in (-1,1), so this has probability zero - reproduced with `rand=lambda: 0.5`). -/
theorem testpoint_on_boundary_witness :
    ∃ (cmp : Cmp) (a b : ℚ) (before : Bool), cmp.isIneq = true ∧ (before = true ↔ cmp.flip.holds a b) ∧
      equalsM true (some before) (some (cmp.test a b)) = .val true ∧ flipDecision cmp (before == cmp.test a b) ≠ cmp.flip := by
  refine ⟨.le, 0, 0, true, rfl, ?_, ?_, ?_⟩
  · simp [Cmp.holds, Cmp.flip]
  · simp [equalsM, Cmp.test]
  · simp [flipDecision, Cmp.test, Cmp.flip]

/-- **merge(inclusive=False) answers None only for SOME empty systems (partial).**  Full statement wanted (FALSE):
`mergeExcl eqs = none ↔ ¬ ∃ point, all lines hold`.  `→` is `merge_exclusive_none`; for `←` the table only sees
opposite bounds with literally the same sides: `['A > 3', 'A < 2']` is empty and is returned unchanged. -/
theorem merge_exclusive_none_iff_partial_witness :
    mergeExcl [(⟨0, .gt⟩ : TLine Nat), ⟨1, .lt⟩] = some [⟨0, .gt⟩, ⟨1, .lt⟩] ∧
    ∀ A : ℚ, ¬ ∀ l ∈ [(⟨0, .gt⟩ : TLine Nat), ⟨1, .lt⟩], l.holds (fun e => if e = 0 then (A, 3) else (A, 2)) := by
  refine ⟨by decide, fun A h => ?_⟩
  have h0 := h ⟨0, .gt⟩ (by simp)
  have h1 := h ⟨1, .lt⟩ (by simp)
  simp [TLine.holds, Cmp.holds] at h0 h1
  linarith

/-! ## the top level of `simplify` (third layer, Model/SymbolicTop.lean): every call computes every case anew -/

section top
variable {T U X : Type}

/-- the points at which what `_simplify` returned for one case holds: SOME returned text holds (`None` = a case
without solutions contributes nothing) -/
def retHolds (sat : U → X → Prop) (r : Ret U) (x : X) : Prop := ∃ u, some u ∈ r.elems ∧ sat u x

/-- the points at which what `simplify` returned holds: some returned case holds -/
def topHolds (sat : U → X → Prop) (t : TopRet U) (x : X) : Prop := ∃ u, some u ∈ t.cases ∧ sat u x

/-- **simplify(all=True) returns EVERY case of EVERY `_simplify` result of this call** (l.807-810): the returned
cases are the elements of `simple ci` for the case texts `ci` of `absval`, in order, nothing selected away.  (This is
the statement a remembered single-case answer of an earlier `all=False` call breaks.) -/
theorem simplify_top_all_complete (r : Nat) (cons : Ret T) (simple : T → Ret U) :
    (simplifyTop true r cons simple).cases = cons.texts.flatMap fun c => (simple c).elems := by
  rw [simplifyTop, selectTop_all_cases, topEqns_eq_flatMap]

/-- **simplify(all=True), end to end over the abs cases.**  If for every case text `c` of `absval` the value
`_simplify` returns for `c` IN THIS CALL holds exactly where `c` holds, then what `simplify` returns holds exactly
where some abs case holds (which, by `abs_expand_sound`, is where the input holds). -/
theorem simplify_top_all_sound (satT : T → X → Prop) (sat : U → X → Prop) (r : Nat) (cons : Ret T)
    (simple : T → Ret U) (h : ∀ c ∈ cons.texts, ∀ x, retHolds sat (simple c) x ↔ satT c x) (x : X) :
    topHolds sat (simplifyTop true r cons simple) x ↔ ∃ c ∈ cons.texts, satT c x := by
  unfold topHolds
  rw [simplify_top_all_complete]
  constructor
  · rintro ⟨u, hu, hs⟩
    obtain ⟨c, hc, hcu⟩ := List.mem_flatMap.mp hu
    exact ⟨c, hc, (h c hc x).mp ⟨u, hcu, hs⟩⟩
  · rintro ⟨c, hc, hs⟩
    obtain ⟨u, hcu, hu⟩ := (h c hc x).mpr hs
    exact ⟨u, List.mem_flatMap.mpr ⟨c, hc, hcu⟩, hu⟩

/-- **any keywords (all=False included): what is returned lies inside the input.**  Every returned case is a case
of some `_simplify` result of this call, so where it holds some abs case holds. -/
theorem simplify_top_inside (satT : T → X → Prop) (sat : U → X → Prop) (all : Bool) (r : Nat) (cons : Ret T)
    (simple : T → Ret U) (h : ∀ c ∈ cons.texts, ∀ x, retHolds sat (simple c) x → satT c x) (x : X)
    (hx : topHolds sat (simplifyTop all r cons simple) x) : ∃ c ∈ cons.texts, satT c x := by
  obtain ⟨u, hu, hs⟩ := hx
  have hu2 := selectTop_cases_sub all r _ u hu
  rw [topEqns_eq_flatMap] at hu2
  obtain ⟨c, hc, hcu⟩ := List.mem_flatMap.mp hu2
  exact ⟨c, hc, h c hc x ⟨u, hcu, hs⟩⟩

/-- **all=False returns one of the cases all=True returns** (for a draw `r` inside the range, which
`random.randint(0, len-1)` guarantees) -/
theorem simplify_top_single_member (r : Nat) (cons : Ret T) (simple : T → Ret U)
    (hr : r < (topEqns cons simple).length) :
    ∃ a ∈ (simplifyTop true r cons simple).cases, simplifyTop false r cons simple = .single a := by
  rw [simplifyTop, selectTop_all_cases]
  exact selectTop_single r _ hr

end top

/-- **one sign case is NOT the whole answer (witness).**  `x0/x1 <= 2`: `_simplify(all=True)` yields the two cases
`x1 > 0, x0 <= 2*x1` and `x1 < 0, x0 >= 2*x1`; answering `all=True` with the first case alone (what a result
remembered from an `all=False` call amounts to) is rejected by the validator, and the point `(-1, -1)` satisfies the
input but not the returned case. -/
theorem single_case_not_whole_witness :
    validate [Item.rat (⟨[1], 0⟩ : Form ℚ) ⟨[0, 1], 0⟩ .le 2]
      [[⟨⟨[0, 1], 0⟩, .gt, ⟨[], 0⟩⟩, ⟨⟨[1], 0⟩, .le, ⟨[0, 2], 0⟩⟩]] = false ∧
    (Item.rat (⟨[1], 0⟩ : Form ℚ) ⟨[0, 1], 0⟩ .le 2).sat (fun _ => -1) ∧
    ¬ satAll [(⟨⟨[0, 1], 0⟩, .gt, ⟨[], 0⟩⟩ : Line ℚ), ⟨⟨[1], 0⟩, .le, ⟨[0, 2], 0⟩⟩] (fun _ => -1) := by
  refine ⟨by decide +kernel, ?_, ?_⟩
  · simp [Item.sat, Form.eval, dot, Cmp.holds]
  · intro h
    have h0 := h ⟨⟨[0, 1], 0⟩, .gt, ⟨[], 0⟩⟩ (by simp)
    simp [Line.sat, Form.eval, dot, Cmp.holds] at h0
    norm_num at h0

/-! ## non-vacuity: the validators accept real rewrites and reject the targeted mistakes (at `ℚ`) -/

section examples
/-- `-7/2*x0 + 2*x1 < 4`  vs  `x0 > 4/7*x1 - 8/7` : accepted -/
example : validate [Item.lin (⟨⟨[-7/2, 2], 0⟩, .lt, ⟨[], 4⟩⟩ : Line ℚ)]
    [[⟨⟨[1], 0⟩, .gt, ⟨[0, 4/7], -8/7⟩⟩]] = true := by decide +kernel
/-- the same without the flip (`x0 < ...`): rejected -/
example : validate [Item.lin (⟨⟨[-7/2, 2], 0⟩, .lt, ⟨[], 4⟩⟩ : Line ℚ)]
    [[⟨⟨[1], 0⟩, .lt, ⟨[0, 4/7], -8/7⟩⟩]] = false := by decide +kernel
/-- `<` turned into `<=`: rejected -/
example : validate [Item.lin (⟨⟨[-7/2, 2], 0⟩, .lt, ⟨[], 4⟩⟩ : Line ℚ)]
    [[⟨⟨[1], 0⟩, .ge, ⟨[0, 4/7], -8/7⟩⟩]] = false := by decide +kernel
/-- `x0/x1 <= 3` vs `(x1 > 0, x0 <= 3*x1) | (x0 >= 3*x1, x1 < 0)` : accepted -/
example : validate [Item.rat (⟨[1], 0⟩ : Form ℚ) ⟨[0, 1], 0⟩ .le 3]
    [[⟨⟨[0, 1], 0⟩, .gt, ⟨[], 0⟩⟩, ⟨⟨[1], 0⟩, .le, ⟨[0, 3], 0⟩⟩],
     [⟨⟨[1], 0⟩, .ge, ⟨[0, 3], 0⟩⟩, ⟨⟨[0, 1], 0⟩, .lt, ⟨[], 0⟩⟩]] = true := by decide +kernel
/-- sign conditions swapped: rejected -/
example : validate [Item.rat (⟨[1], 0⟩ : Form ℚ) ⟨[0, 1], 0⟩ .le 3]
    [[⟨⟨[0, 1], 0⟩, .lt, ⟨[], 0⟩⟩, ⟨⟨[1], 0⟩, .le, ⟨[0, 3], 0⟩⟩],
     [⟨⟨[1], 0⟩, .ge, ⟨[0, 3], 0⟩⟩, ⟨⟨[0, 1], 0⟩, .gt, ⟨[], 0⟩⟩]] = false := by decide +kernel
/-- a dropped line (`x0 >= 1, x0 <= 1, x1 > 0` -> `x1 > 0`): rejected -/
example : validate [Item.lin (⟨⟨[1], 0⟩, .ge, ⟨[], 1⟩⟩ : Line ℚ), .lin ⟨⟨[1], 0⟩, .le, ⟨[], 1⟩⟩,
      .lin ⟨⟨[0, 1], 0⟩, .gt, ⟨[], 0⟩⟩]
    [[⟨⟨[0, 1], 0⟩, .gt, ⟨[], 0⟩⟩]] = false := by decide +kernel
/-- ... while the correct merge (`x0 = 1, x1 > 0`) is accepted -/
example : validate [Item.lin (⟨⟨[1], 0⟩, .ge, ⟨[], 1⟩⟩ : Line ℚ), .lin ⟨⟨[1], 0⟩, .le, ⟨[], 1⟩⟩,
      .lin ⟨⟨[0, 1], 0⟩, .gt, ⟨[], 0⟩⟩]
    [[⟨⟨[1], 0⟩, .eq, ⟨[], 1⟩⟩, ⟨⟨[0, 1], 0⟩, .gt, ⟨[], 0⟩⟩]] = true := by decide +kernel
/-- `solve`: `x0 - x2 = 2, x2 = 2*x3`  vs  `x0 = 2*x3 + 2, x2 = 2*x3` with `out = [[1,1],[0,1]]·inp`, `inp = [[1,-1],[0,1]]·out` -/
example : solveOK [(⟨⟨[1, 0, -1], 0⟩, .eq, ⟨[], 2⟩⟩ : Line ℚ), ⟨⟨[0, 0, 1], 0⟩, .eq, ⟨[0, 0, 0, 2], 0⟩⟩]
    [⟨⟨[1], 0⟩, .eq, ⟨[0, 0, 0, 2], 2⟩⟩, ⟨⟨[0, 0, 1], 0⟩, .eq, ⟨[0, 0, 0, 2], 0⟩⟩]
    [[1, 1], [0, 1]] [[1, -1], [0, 1]] = true := by decide +kernel
/-- a wrong solved form (`x0 = 2*x3 - 2`): no certificate of this shape passes -/
example : solveOK [(⟨⟨[1, 0, -1], 0⟩, .eq, ⟨[], 2⟩⟩ : Line ℚ), ⟨⟨[0, 0, 1], 0⟩, .eq, ⟨[0, 0, 0, 2], 0⟩⟩]
    [⟨⟨[1], 0⟩, .eq, ⟨[0, 0, 0, 2], -2⟩⟩, ⟨⟨[0, 0, 1], 0⟩, .eq, ⟨[0, 0, 0, 2], 0⟩⟩]
    [[1, 1], [0, 1]] [[1, -1], [0, 1]] = false := by decide +kernel
/-- bounds `[-10, None] .. [10, 69]` vs `x0 >= -10, x0 <= 10, x1 <= 69` -/
example : sameSystem (boundRows [some (-10 : ℚ), none] [some 10, some 69])
    [⟨⟨[1], 0⟩, .ge, ⟨[], -10⟩⟩, ⟨⟨[1], 0⟩, .le, ⟨[], 10⟩⟩, ⟨⟨[0, 1], 0⟩, .le, ⟨[], 69⟩⟩] = true := by decide +kernel
/-- the exclusive merge table on a satisfiable and on a contradictory system -/
example : mergeExcl [(⟨0, .ge⟩ : TLine Nat), ⟨0, .le⟩, ⟨1, .gt⟩] = some [⟨0, .eq⟩, ⟨1, .gt⟩] := by decide
example : mergeExcl [(⟨0, .gt⟩ : TLine Nat), ⟨0, .le⟩] = none := by decide
/-- the hypotheses of `isolate_sound` / `signcase_sound` are satisfiable with a negative divisor -/
example : Cmp.lt.holds ((-2 : ℚ) * 3 + 1) 0 ∧ (if (0 : ℚ) < -2 then Cmp.lt else Cmp.lt.flip).holds (3 : ℚ) (-1 / -2) := by
  constructor <;> norm_num [Cmp.holds, Cmp.flip]
/-- `abs(x0 - 1) <= 2` vs `(x0 >= 1, x0 <= 3) | (x0 >= -1, x0 <= 1)` : accepted; with the second condition not flipped: rejected -/
example : validateX [XItem.absl [((1 : ℚ), ⟨[1], -1⟩)] (.lin ⟨⟨[], 0⟩, .le, ⟨[], 2⟩⟩)]
    [[⟨⟨[1], 0⟩, .ge, ⟨[], 1⟩⟩, ⟨⟨[1], 0⟩, .le, ⟨[], 3⟩⟩], [⟨⟨[1], 0⟩, .ge, ⟨[], -1⟩⟩, ⟨⟨[1], 0⟩, .le, ⟨[], 1⟩⟩]] = true := by
  decide +kernel
example : validateX [XItem.absl [((1 : ℚ), ⟨[1], -1⟩)] (.lin ⟨⟨[], 0⟩, .le, ⟨[], 2⟩⟩)]
    [[⟨⟨[1], 0⟩, .ge, ⟨[], 1⟩⟩, ⟨⟨[1], 0⟩, .le, ⟨[], 3⟩⟩], [⟨⟨[1], 0⟩, .ge, ⟨[], -1⟩⟩, ⟨⟨[1], 0⟩, .ge, ⟨[], 1⟩⟩]] = false := by
  decide +kernel
/-- `x1/(x0*x2) = 3` vs `x0 != 0, x2 != 0, x1 = 3*x0*x2` (the monomial `x0*x2` is variable 3): accepted -/
example : validateX [XItem.rat2 (⟨[0, 1], 0⟩ : Form ℚ) 1 0 0 1 0 2 3 .eq 3]
    [[⟨⟨[1], 0⟩, .ne, ⟨[], 0⟩⟩, ⟨⟨[0, 0, 1], 0⟩, .ne, ⟨[], 0⟩⟩, ⟨⟨[0, 1], 0⟩, .eq, ⟨[0, 0, 0, 3], 0⟩⟩]] = true := by
  decide +kernel
/-- the hypotheses of `testpoint_decides_flip` are satisfiable: `-x0 <= 0` isolated as `x0 <= 0`, tested at `x0 = 1/2` -/
example : equalsM true (some true) (some (Cmp.le.test (1/2 : ℚ) 0)) = .val false ∧
    flipDecision .le (true == Cmp.le.test (1/2 : ℚ) 0) = .ge := by
  constructor <;> norm_num [equalsM, flipDecision, Cmp.test, Cmp.flip]
end examples

end MysticVerif.C12
