/-
C12 - symbolic rewriting preserves the solution set (verified validator).
Property theorems only (helper lemmas live in Proofs/Symbolic.lean).

`K` is an arbitrary linearly ordered field; a point is `x : Nat → K`.  The harness parses the input text
and the text the real `simplify / solve / linear_symbolic / symbolic_bounds` returned on THIS run into
`Item`s / `Line`s with exact rational coefficients and runs `validate / solveOK / sameSystem` at `K := Rat`
(`Drv/C12.lean`).  The theorems below say: whenever those Boolean functions answer `true`, the two texts are
satisfied by exactly the same points - for every system, every number of variables and lines, every
coefficient, every comparator.  (Nothing is claimed when they answer `false`: then the harness searches a
separating point.)

DESIGN.md C12 list -> names here:
  canonLine_sound -> canonLine_sound      canonSys_sound -> canonSys_sound     isolate_sound -> isolate_sound
  signcase_sound -> signcase_sound (+ signcase_sound_general)                  cert_sound -> cert_sound, solve_validator_sound
  matrix_text_sound -> matrix_rows_spec + matrix_text_sound, bounds_rows_spec + bounds_text_sound
  (new) simplify_validator_sound = the end-to-end statement for `simplify(..., all=True)`
  (new) merge_exclusive_sound / merge_exclusive_none / merge_inclusive_partial / merge_inclusive_drops_witness /
        merge_inclusive_ne_witness : the literal `merge` decision table, incl. the defect of applying the
        inclusive table to a conjunction (symbolic.py l.582)
-/
import MysticVerif.Proofs.Symbolic

namespace MysticVerif.C12
open MysticVerif.Sym

variable {K : Type} [Field K] [LinearOrder K] [IsStrictOrderedRing K]

/-- all lines of a system hold at `x` -/
def satAll (s : List (Line K)) (x : Nat → K) : Prop := ∀ ln ∈ s, ln.sat x

/-! ## the flip rule -/

/-- **isolate / flip rule.**  Isolating `x_i` from `c * x_i + r ⋈ 0` divides by `c`: the comparator is kept
for `0 < c` and flipped (`_flip`, `=` and `!=` untouched) for `c < 0`. -/
theorem isolate_sound (cmp : Cmp) (c xi r : K) (hc : c ≠ 0) :
    cmp.holds (c * xi + r) 0 ↔ (if 0 < c then cmp else cmp.flip).holds xi (-r / c) := by
  have key : (c * xi + r) / c = xi - -r / c := by field_simp; ring
  rw [Cmp.holds_sub _ xi, ← key]
  rcases lt_or_gt_of_ne hc with h | h
  · rw [if_neg (not_lt.mpr (le_of_lt h))]; exact Cmp.holds_div_neg _ _ _ h
  · rw [if_pos h]; exact Cmp.holds_div_pos _ _ _ h

/-- the flip is necessary: without it the rewritten line is wrong (witness `-x > 2` vs `x > -2` at `x = 0`) -/
theorem isolate_noflip_wrong : ¬ (∀ (c xi r : ℚ), c ≠ 0 → (Cmp.gt.holds (c * xi + r) 0 ↔ Cmp.gt.holds xi (-r / c))) := by
  intro h
  have := h (-1) 0 (-2) (by norm_num)
  simp only [Cmp.holds] at this
  norm_num at this

/-- `_flip` leaves `=` and `!=` alone and is an involution -/
theorem flip_eq_ne : Cmp.eq.flip = .eq ∧ Cmp.ne.flip = .ne ∧ ∀ c : Cmp, c.flip.flip = c := by
  refine ⟨rfl, rfl, fun c => ?_⟩; cases c <;> rfl

/-- **sign cases (general divisor).** Where the divisor `q` is non-zero, `p / q ⋈ r` holds iff
`0 < q ∧ p ⋈ r*q` or `q < 0 ∧ p (flip ⋈) r*q`. -/
theorem signcase_sound_general (cmp : Cmp) (p q r : K) (hq : q ≠ 0) :
    cmp.holds (p / q) r ↔ (0 < q ∧ cmp.holds p (r * q)) ∨ (q < 0 ∧ cmp.flip.holds p (r * q)) :=
  Cmp.signcase cmp p q r hq

/-- **sign cases, as in the property: the direction depends on the sign of one variable factor.**
With `q = c * x_k`, `c ≠ 0`: the cases are the sign of `x_k` (swapped when `c < 0`). -/
theorem signcase_sound (cmp : Cmp) (p c xk r : K) (hc : c ≠ 0) (hx : xk ≠ 0) :
    cmp.holds (p / (c * xk)) r ↔
      ((if 0 < c then 0 < xk else xk < 0) ∧ cmp.holds p (r * (c * xk))) ∨
      ((if 0 < c then xk < 0 else 0 < xk) ∧ cmp.flip.holds p (r * (c * xk))) := by
  rw [Cmp.signcase cmp p (c * xk) r (mul_ne_zero hc hx)]
  rcases lt_or_gt_of_ne hc with h | h
  · rw [if_neg (not_lt.mpr (le_of_lt h)), if_neg (not_lt.mpr (le_of_lt h))]
    have e1 : 0 < c * xk ↔ xk < 0 := by
      constructor
      · intro hh; by_contra hn; push Not at hn
        exact absurd hh (not_lt.mpr (mul_nonpos_of_nonpos_of_nonneg (le_of_lt h) hn))
      · intro hh; exact mul_pos_of_neg_of_neg h hh
    have e2 : c * xk < 0 ↔ 0 < xk := by
      constructor
      · intro hh; by_contra hn; push Not at hn
        exact absurd hh (not_lt.mpr (mul_nonneg_of_nonpos_of_nonpos (le_of_lt h) hn))
      · intro hh; exact mul_neg_of_neg_of_pos h hh
    rw [e1, e2]
  · rw [if_pos h, if_pos h]
    have e1 : 0 < c * xk ↔ 0 < xk := by
      constructor
      · intro hh; exact (pos_iff_pos_of_mul_pos hh).mp h
      · intro hh; exact mul_pos h hh
    have e2 : c * xk < 0 ↔ xk < 0 := by
      constructor
      · intro hh; by_contra hn; push Not at hn
        exact absurd hh (not_lt.mpr (mul_nonneg (le_of_lt h) hn))
      · intro hh; exact mul_neg_of_pos_of_neg h hh
    rw [e1, e2]

/-! ## canonical forms -/

/-- **canonLine.** The canonical lines of a line (difference of the sides, trailing zeros stripped, divided by
the leading coefficient with the comparator flipped for a negative one, `=` split into `≥`,`≤`) hold exactly
where the line holds. -/
theorem canonLine_sound (ln : Line K) (x : Nat → K) : (∀ c ∈ canonLine ln, c.sat x) ↔ ln.sat x :=
  canonLine_sat ln x

/-- **canonSys.** Systems with the same set of canonical lines have the same solutions. -/
theorem canonSys_sound (a b : List (Line K)) (h : sameSet (canonSys a) (canonSys b) = true) (x : Nat → K) :
    satAll a x ↔ satAll b x := by
  unfold satAll
  rw [← canonSys_sat a x, ← canonSys_sat b x]
  have hm := sameSet_mem h
  exact ⟨fun hh c hc => hh c ((hm c).mpr hc), fun hh c hc => hh c ((hm c).mp hc)⟩

/-! ## `simplify(..., all=True)` -/

/-- **simplify, end to end.** If the validator accepts, then the input system (linear lines and rational
relations `p / q ⋈ r`, the latter unsatisfied where `q = 0`) is satisfied at `x` iff SOME returned case has
all its lines (its sign conditions included) satisfied at `x`. -/
theorem simplify_validator_sound (inp : List (Item K)) (out : List (List (Line K)))
    (h : validate inp out = true) (x : Nat → K) :
    (∀ it ∈ inp, it.sat x) ↔ ∃ s ∈ out, satAll s x := by
  rw [expand_sound]
  have := dnfEquiv_sound h x
  simp only [List.mem_map, exists_exists_and_eq_and, canonSys_sat] at this
  exact this

/-- for a purely linear input and a single returned text: same points -/
theorem simplify_validator_sound_linear (inp out : List (Line K))
    (h : validate (inp.map Item.lin) [out] = true) (x : Nat → K) : satAll inp x ↔ satAll out x := by
  have := simplify_validator_sound _ _ h x
  simpa [Item.sat, satAll] using this

/-! ## `solve` -/

/-- **certificate.** If every output equation is the stated combination of the input equations and vice versa
(checked exactly), both systems `p = 0` have the same solutions. -/
theorem cert_sound (inp out : List (Form K)) (A B : List (List K)) (h : certOK inp out A B = true)
    (x : Nat → K) : (∀ p ∈ inp, p.eval x = 0) ↔ (∀ p ∈ out, p.eval x = 0) := by
  simp only [certOK, Bool.and_eq_true] at h
  exact ⟨combOK_sound A inp out h.1 x, combOK_sound B out inp h.2 x⟩

/-- **solve, end to end.** If `solveOK` accepts the parsed input and the parsed solved form, they have exactly
the same solutions. -/
theorem solve_validator_sound (inp out : List (Line K)) (A B : List (List K))
    (h : solveOK inp out A B = true) (x : Nat → K) : satAll inp x ↔ satAll out x := by
  unfold solveOK at h
  split at h
  · rename_i fi fo hi ho
    unfold satAll
    rw [eqForms_sat inp fi hi x, eqForms_sat out fo ho x]
    exact cert_sound fi fo A B h x
  · simp at h

/-! ## `linear_symbolic`, `symbolic_bounds` -/

/-- the rows built from the matrices mean `A x = b ∧ G x ≤ h` (row by row) -/
theorem matrix_rows_spec (A : List (List K)) (b : List K) (G : List (List K)) (h : List K) (x : Nat → K) :
    satAll (matrixRows A b G h) x ↔
      (∀ p ∈ A.zip b, dot p.1 x 0 = p.2) ∧ (∀ p ∈ G.zip h, dot p.1 x 0 ≤ p.2) := by
  unfold satAll matrixRows
  simp only [List.mem_append]
  rw [← eqRows_sat, ← leRows_sat]
  constructor
  · intro hh; exact ⟨fun ln h1 => hh ln (Or.inr h1), fun ln h1 => hh ln (Or.inl h1)⟩
  · rintro ⟨h1, h2⟩ ln (hl | hl)
    · exact h2 ln hl
    · exact h1 ln hl

/-- **linear_symbolic.** If the validator accepts the parsed text against the rows of the matrices, the text
holds exactly where `A x = b` and `G x ≤ h`. -/
theorem matrix_text_sound (A : List (List K)) (b : List K) (G : List (List K)) (h : List K)
    (txt : List (Line K)) (hv : sameSystem (matrixRows A b G h) txt = true) (x : Nat → K) :
    satAll txt x ↔ (∀ p ∈ A.zip b, dot p.1 x 0 = p.2) ∧ (∀ p ∈ G.zip h, dot p.1 x 0 ≤ p.2) := by
  rw [← matrix_rows_spec]
  exact (simplify_validator_sound_linear _ _ hv x).symm

/-- the rows built from the bounds mean `lo_i ≤ x_i ≤ hi_i`, infinite sides (`none`) omitted -/
theorem bounds_rows_spec (lo hi : List (Option K)) (x : Nat → K) :
    satAll (boundRows lo hi) x ↔
      (∀ i v, lo[i]? = some (some v) → v ≤ x i) ∧ (∀ i v, hi[i]? = some (some v) → x i ≤ v) := by
  unfold satAll boundRows
  simp only [List.mem_append]
  have h1 := loRows_sat 0 lo x
  have h2 := hiRows_sat 0 hi x
  simp only [Nat.zero_add] at h1 h2
  rw [← h1, ← h2]
  constructor
  · intro hh; exact ⟨fun ln h => hh ln (Or.inl h), fun ln h => hh ln (Or.inr h)⟩
  · rintro ⟨a, b⟩ ln (hl | hl)
    · exact a ln hl
    · exact b ln hl

/-- **symbolic_bounds.** If the validator accepts, the text holds exactly inside the box. -/
theorem bounds_text_sound (lo hi : List (Option K)) (txt : List (Line K))
    (hv : sameSystem (boundRows lo hi) txt = true) (x : Nat → K) :
    satAll txt x ↔ (∀ i v, lo[i]? = some (some v) → v ≤ x i) ∧ (∀ i v, hi[i]? = some (some v) → x i ≤ v) := by
  rw [← bounds_rows_spec]
  exact (simplify_validator_sound_linear _ _ hv x).symm

/-! ## `merge` (the literal decision tables of symbolic.py l.277-303) -/

/-- **merge, exclusive table** (the one `_simplify` applies to each product of cases, l.786): when it returns
lines, they hold exactly where all the given lines hold (for every meaning `v` of the line texts). -/
theorem merge_exclusive_sound {E : Type} [DecidableEq E] (v : E → K × K) (eqs out : List (TLine E))
    (h : mergeExcl eqs = some out) : (∀ l ∈ eqs, l.holds v) ↔ ∀ l ∈ out, l.holds v :=
  mergeExcl_some v eqs out h

/-- when the exclusive table answers `None`, the lines have no common solution (dropping the case is right) -/
theorem merge_exclusive_none {E : Type} [DecidableEq E] (v : E → K × K) (eqs : List (TLine E))
    (h : mergeExcl eqs = none) : ¬ ∀ l ∈ eqs, l.holds v :=
  mergeExcl_none v eqs h

/-- **merge, inclusive table - what is true of it (partial).**  Full statement wanted (and FALSE, see the two
witnesses below): `(∀ l ∈ eqs, l.holds v) ↔ ∀ l ∈ mergeIncl eqs, l.holds v`.  Only `→` holds: the inclusive table
only weakens a conjunction. `absval` (l.582) applies it to the conjunction of the input lines of `simplify`. -/
theorem merge_inclusive_partial {E : Type} [DecidableEq E] (v : E → K × K) (eqs : List (TLine E))
    (h : ∀ l ∈ eqs, l.holds v) : ∀ l ∈ mergeIncl eqs, l.holds v :=
  mergeIncl_weakens v eqs h

/-- witness: `['A >= B', 'A <= B', 'C > D']` is merged (inclusive) to `['C > D']`; at `A=5, B=1, C=1, D=0` the
result holds and the input does not.  (`simplify("x0 >= 1\nx0 <= 1\nx1 > 0")` returns `"x1 > 0"`.) -/
theorem merge_inclusive_drops_witness :
    mergeIncl [(⟨0, .ge⟩ : TLine Nat), ⟨0, .le⟩, ⟨1, .gt⟩] = [⟨1, .gt⟩] ∧
    ∃ v : Nat → ℚ × ℚ, (∀ l ∈ mergeIncl [(⟨0, .ge⟩ : TLine Nat), ⟨0, .le⟩, ⟨1, .gt⟩], l.holds v) ∧
      ¬ ∀ l ∈ [(⟨0, .ge⟩ : TLine Nat), ⟨0, .le⟩, ⟨1, .gt⟩], l.holds v := by
  have e : mergeIncl [(⟨0, .ge⟩ : TLine Nat), ⟨0, .le⟩, ⟨1, .gt⟩] = [⟨1, .gt⟩] := by decide
  refine ⟨e, fun n => if n = 0 then (5, 1) else (1, 0), ?_, ?_⟩
  · rw [e]; simp [TLine.holds, Cmp.holds]
  · simp [TLine.holds, Cmp.holds]

/-- witness: `['A > B', 'A < B']` (no solution) is merged (inclusive) to `['A != B']` (almost everything) -/
theorem merge_inclusive_ne_witness :
    mergeIncl [(⟨0, .gt⟩ : TLine Nat), ⟨0, .lt⟩] = [⟨0, .ne⟩] ∧
    ∃ v : Nat → ℚ × ℚ, (∀ l ∈ mergeIncl [(⟨0, .gt⟩ : TLine Nat), ⟨0, .lt⟩], l.holds v) ∧
      ¬ ∀ l ∈ [(⟨0, .gt⟩ : TLine Nat), ⟨0, .lt⟩], l.holds v := by
  have e : mergeIncl [(⟨0, .gt⟩ : TLine Nat), ⟨0, .lt⟩] = [⟨0, .ne⟩] := by decide
  refine ⟨e, fun _ => (1, 0), ?_, ?_⟩
  · rw [e]; simp [TLine.holds, Cmp.holds]
  · simp [TLine.holds, Cmp.holds]

/-! ## non-vacuity: the validators accept real rewrites and reject the targeted mistakes (at `ℚ`) -/

section examples
/-- `-7/2*x0 + 2*x1 < 4`  vs  `x0 > 4/7*x1 - 8/7` : accepted -/
example : validate [Item.lin (⟨⟨[-7/2, 2], 0⟩, .lt, ⟨[], 4⟩⟩ : Line ℚ)]
    [[⟨⟨[1], 0⟩, .gt, ⟨[0, 4/7], -8/7⟩⟩]] = true := by decide +kernel
/-- the same without the flip (`x0 < ...`): rejected -/
example : validate [Item.lin (⟨⟨[-7/2, 2], 0⟩, .lt, ⟨[], 4⟩⟩ : Line ℚ)]
    [[⟨⟨[1], 0⟩, .lt, ⟨[0, 4/7], -8/7⟩⟩]] = false := by decide +kernel
/-- `<` turned into `<=`: rejected -/
example : validate [Item.lin (⟨⟨[-7/2, 2], 0⟩, .lt, ⟨[], 4⟩⟩ : Line ℚ)]
    [[⟨⟨[1], 0⟩, .ge, ⟨[0, 4/7], -8/7⟩⟩]] = false := by decide +kernel
/-- `x0/x1 <= 3` vs `(x1 > 0, x0 <= 3*x1) | (x0 >= 3*x1, x1 < 0)` : accepted -/
example : validate [Item.rat (⟨[1], 0⟩ : Form ℚ) ⟨[0, 1], 0⟩ .le 3]
    [[⟨⟨[0, 1], 0⟩, .gt, ⟨[], 0⟩⟩, ⟨⟨[1], 0⟩, .le, ⟨[0, 3], 0⟩⟩],
     [⟨⟨[1], 0⟩, .ge, ⟨[0, 3], 0⟩⟩, ⟨⟨[0, 1], 0⟩, .lt, ⟨[], 0⟩⟩]] = true := by decide +kernel
/-- sign conditions swapped: rejected -/
example : validate [Item.rat (⟨[1], 0⟩ : Form ℚ) ⟨[0, 1], 0⟩ .le 3]
    [[⟨⟨[0, 1], 0⟩, .lt, ⟨[], 0⟩⟩, ⟨⟨[1], 0⟩, .le, ⟨[0, 3], 0⟩⟩],
     [⟨⟨[1], 0⟩, .ge, ⟨[0, 3], 0⟩⟩, ⟨⟨[0, 1], 0⟩, .gt, ⟨[], 0⟩⟩]] = false := by decide +kernel
/-- a dropped line (`x0 >= 1, x0 <= 1, x1 > 0` -> `x1 > 0`): rejected -/
example : validate [Item.lin (⟨⟨[1], 0⟩, .ge, ⟨[], 1⟩⟩ : Line ℚ), .lin ⟨⟨[1], 0⟩, .le, ⟨[], 1⟩⟩,
      .lin ⟨⟨[0, 1], 0⟩, .gt, ⟨[], 0⟩⟩]
    [[⟨⟨[0, 1], 0⟩, .gt, ⟨[], 0⟩⟩]] = false := by decide +kernel
/-- ... while the correct merge (`x0 = 1, x1 > 0`) is accepted -/
example : validate [Item.lin (⟨⟨[1], 0⟩, .ge, ⟨[], 1⟩⟩ : Line ℚ), .lin ⟨⟨[1], 0⟩, .le, ⟨[], 1⟩⟩,
      .lin ⟨⟨[0, 1], 0⟩, .gt, ⟨[], 0⟩⟩]
    [[⟨⟨[1], 0⟩, .eq, ⟨[], 1⟩⟩, ⟨⟨[0, 1], 0⟩, .gt, ⟨[], 0⟩⟩]] = true := by decide +kernel
/-- `solve`: `x0 - x2 = 2, x2 = 2*x3`  vs  `x0 = 2*x3 + 2, x2 = 2*x3` with `out = [[1,1],[0,1]]·inp`, `inp = [[1,-1],[0,1]]·out` -/
example : solveOK [(⟨⟨[1, 0, -1], 0⟩, .eq, ⟨[], 2⟩⟩ : Line ℚ), ⟨⟨[0, 0, 1], 0⟩, .eq, ⟨[0, 0, 0, 2], 0⟩⟩]
    [⟨⟨[1], 0⟩, .eq, ⟨[0, 0, 0, 2], 2⟩⟩, ⟨⟨[0, 0, 1], 0⟩, .eq, ⟨[0, 0, 0, 2], 0⟩⟩]
    [[1, 1], [0, 1]] [[1, -1], [0, 1]] = true := by decide +kernel
/-- a wrong solved form (`x0 = 2*x3 - 2`): no certificate of this shape passes -/
example : solveOK [(⟨⟨[1, 0, -1], 0⟩, .eq, ⟨[], 2⟩⟩ : Line ℚ), ⟨⟨[0, 0, 1], 0⟩, .eq, ⟨[0, 0, 0, 2], 0⟩⟩]
    [⟨⟨[1], 0⟩, .eq, ⟨[0, 0, 0, 2], -2⟩⟩, ⟨⟨[0, 0, 1], 0⟩, .eq, ⟨[0, 0, 0, 2], 0⟩⟩]
    [[1, 1], [0, 1]] [[1, -1], [0, 1]] = false := by decide +kernel
/-- bounds `[-10, None] .. [10, 69]` vs `x0 >= -10, x0 <= 10, x1 <= 69` -/
example : sameSystem (boundRows [some (-10 : ℚ), none] [some 10, some 69])
    [⟨⟨[1], 0⟩, .ge, ⟨[], -10⟩⟩, ⟨⟨[1], 0⟩, .le, ⟨[], 10⟩⟩, ⟨⟨[0, 1], 0⟩, .le, ⟨[], 69⟩⟩] = true := by decide +kernel
/-- the exclusive merge table on a satisfiable and on a contradictory system -/
example : mergeExcl [(⟨0, .ge⟩ : TLine Nat), ⟨0, .le⟩, ⟨1, .gt⟩] = some [⟨0, .eq⟩, ⟨1, .gt⟩] := by decide
example : mergeExcl [(⟨0, .gt⟩ : TLine Nat), ⟨0, .le⟩] = none := by decide
/-- the hypotheses of `isolate_sound` / `signcase_sound` are satisfiable with a negative divisor -/
example : Cmp.lt.holds ((-2 : ℚ) * 3 + 1) 0 ∧ (if (0 : ℚ) < -2 then Cmp.lt else Cmp.lt.flip).holds (3 : ℚ) (-1 / -2) := by
  constructor <;> norm_num [Cmp.holds, Cmp.flip]
end examples

end MysticVerif.C12
