/-
The closed loop `Solve()` (Model/ClosedLoop.lean): control loop + algorithm step + termination condition, all three
evaluated by the model.  These theorems lift what C01-C05 prove about arbitrary numbers of iterations to WHEREVER a
real run stops: for every termination condition (any And/Or/When tree of the built-in conditions), every limit
setting, every objective and every stream of trial vectors.
-/
import MysticVerif.Proofs.ClosedLoop
import MysticVerif.Proofs.ClosedLoopAlgs
import MysticVerif.Props.C01
import MysticVerif.Props.Reconfig
import MysticVerif.Props.C01Ensemble
import MysticVerif.Props.C05
import MysticVerif.Props.C04
import MysticVerif.Props.C04Brent

namespace MysticVerif.SolveProps
open MysticVerif.Solver MysticVerif.Closed

variable {S : Type}

/-- **C05, Solve always returns**: with a numeric generation limit `g` installed, `_Solve` gets a stop message within
`g - generations + 1` calls of `Step`, for EVERY algorithm step and EVERY termination condition -/
theorem solve_always_returns (a : Alg S) (g j : Nat) (c : Ctl) (s : S) (k n : Nat)
    (hlim : c.maxiter = .val g) (hp : c.powell = false) (hn : c.nstep ≠ 0) (hg : g ≤ c.gens + j) :
    (solve a (j + 1) c s k n).msg.isSome = true :=
  Closed.solve_returns a g j c s k n hlim hp hn hg

/-- **C05, the stop message of `Solve` is true of the state it leaves**, for every algorithm and condition -/
theorem solve_message_truthful (a : Alg S) (fuel : Nat) (c : Ctl) (s : S) (k n : Nat) (m : Msg)
    (h : (solve a fuel c s k n).msg = some m) :
    (m = .lim → (solve a fuel c s k n).ctl.maxfun.reached (solve a fuel c s k n).ctl.evals = true ∨
                (solve a fuel c s k n).ctl.maxiter.reached (solve a fuel c s k n).ctl.gens = true) ∧
    (m = .sig → (solve a fuel c s k n).ctl.earlyExit = true) :=
  Closed.solve_msg_truthful a fuel c s k n m h

/-- **`Solve` only iterates**: the state it leaves is the algorithm's open loop run for exactly `iters` iterations -/
theorem solve_state_is_open_loop (a : Alg S) (fuel : Nat) (c : Ctl) (s : S) :
    (solve a fuel c s 0 0).st = iterate a (solve a fuel c s 0 0).iters s 0 := by
  have := (Closed.solve_is_iterate a fuel c s 0 0).2
  simpa using this


/-- **C04, the evaluation counter IS the number of calls made to the user's cost**: for every algorithm whose step
only appends to its evaluation log, after `Solve` the counter has grown by exactly the number of records appended -/
theorem solve_evaluations_are_the_log (a : Alg S) (hmono : ∀ s k, a.nlog s ≤ a.nlog (a.step s k))
    (fuel : Nat) (c : Ctl) (s : S) :
    (solve a fuel c s 0 0).ctl.evals + a.nlog s = c.evals + a.nlog (solve a fuel c s 0 0).st :=
  Closed.solve_evals_eq_log a hmono fuel c s 0 0

section DE
variable {R : Type} [Add R] [Sub R] [Mul R] [Div R] [Neg R] [LinearOrder R] [BEq R] [OfNat R 0] [OfNat R 2]

theorem run_eq_run1 (two : Bool) (o : Obj (List R) R) (tss : List (List (List R))) (s : DE (List R) R) :
    Checkpoint.DE.run two o tss s = DE.run1 o tss s := by
  unfold Checkpoint.DE.run DE.run1
  congr 1
  funext s ts
  cases two
  · simp
  · simp [DE.step2_eq_step1]

/-- **C01/C02/C03 wherever a differential-evolution `Solve` stops** (DE1 and DE2; any termination condition tree,
limits, strategy / random draws): a finite reported best energy is cost + penalty at the reported best solution, which
was passed to the user's cost, is left unchanged by the constraints and lies in the box; every logged evaluation is a
constrained in-box point logged with the user's cost; the best-energy history is non-increasing. -/
theorem solve_de_inv (two : Bool) (o : Obj (List R) R) (h : Hyp o) (cond : Term.Cond R) (pop0 : List (List R))
    (x0 : List R) (trialss : List (List (List R))) (fuel : Nat) (c : Ctl) :
    DEInv o (solve (deAlg two o cond pop0 trialss) fuel c (DE.init o pop0 x0) 0 0).st := by
  rw [solve_state_is_open_loop]
  obtain ⟨tss, _, hr⟩ := Closed.iterate_deAlg two o cond pop0 trialss
    (solve (deAlg two o cond pop0 trialss) fuel c (DE.init o pop0 x0) 0 0).iters (DE.init o pop0 x0)
  rw [hr, run_eq_run1]
  exact DE.run1_inv h tss _ (DE.init_inv pop0 x0)

theorem solve_de_best (two : Bool) (o : Obj (List R) R) (h : Hyp o) (cond : Term.Cond R) (pop0 : List (List R))
    (x0 : List R) (trialss : List (List (List R))) (fuel : Nat) (c : Ctl)
    (hfin : (solve (deAlg two o cond pop0 trialss) fuel c (DE.init o pop0 x0) 0 0).st.bestE ≠ o.top) :
    let s := (solve (deAlg two o cond pop0 trialss) fuel c (DE.init o pop0 x0) 0 0).st
    s.bestE = o.add (o.raw s.best) (o.pen s.best) ∧ (s.best, o.raw s.best) ∈ s.log ∧ o.K s.best = s.best ∧
      (o.useRange = true → o.inBox s.best = true) :=
  (solve_de_inv two o h cond pop0 x0 trialss fuel c).best hfin

theorem deAlg_nlog_mono (two : Bool) (o : Obj (List R) R) (cond : Term.Cond R) (pop0 : List (List R))
    (trialss : List (List (List R))) (s : DE (List R) R) (k : Nat) :
    (deAlg two o cond pop0 trialss).nlog s ≤ (deAlg two o cond pop0 trialss).nlog ((deAlg two o cond pop0 trialss).step s k) := by
  simp only [deAlg]
  have key : ∀ ts, s.log.length ≤ (DE.step1 o ts s).log.length := by
    intro ts
    unfold DE.step1
    simp only
    exact (C04.de_log_prefix o ts 0 s).length_le
  cases two
  · simpa using key _
  · simp only [if_true]
    rw [DE.step2_eq_step1]
    exact key _

/-- **differential evolution (1 and 2), whole `Solve()` runs**: `evaluations` = number of records in the evaluation
monitor = number of calls made to the user's cost, whatever the termination condition, limits and trial vectors -/
theorem solve_de_evaluations (two : Bool) (o : Obj (List R) R) (cond : Term.Cond R) (pop0 : List (List R))
    (x0 : List R) (trialss : List (List (List R))) (fuel : Nat) (c : Ctl) (hc : c.evals = 0) :
    (solve (deAlg two o cond pop0 trialss) fuel c (DE.init o pop0 x0) 0 0).ctl.evals
      = (solve (deAlg two o cond pop0 trialss) fuel c (DE.init o pop0 x0) 0 0).st.log.length := by
  have h := solve_evaluations_are_the_log (deAlg two o cond pop0 trialss)
    (fun s k => deAlg_nlog_mono two o cond pop0 trialss s k) fuel c (DE.init o pop0 x0)
  have hn : ∀ s, (deAlg two o cond pop0 trialss).nlog s = s.log.length := fun _ => rfl
  have hl : (DE.init o pop0 x0).log.length = 0 := rfl
  rw [hn, hn, hl, hc] at h
  omega

end DE


section NMPW
variable {R : Type} [Add R] [Sub R] [Mul R] [Div R] [Neg R] [LinearOrder R] [BEq R] [OfNat R 0] [OfNat R 2]
open MysticVerif.PowellS

/-- the number of iterations a run performed is 0, 1 or `n + 2` -/
theorem iters_cases (k : Nat) : k = 0 ∨ k = 1 ∨ ∃ n, k = n + 2 := by
  rcases k with _ | _ | n
  · exact Or.inl rfl
  · exact Or.inr (Or.inl rfl)
  · exact Or.inr (Or.inr ⟨n, rfl⟩)

/-- **C01-C04 wherever a Nelder-Mead `Solve` stops** (any termination condition tree, limits, coefficients, pure or
in-place constraints `st`): as soon as one `_Step` ran, every stored vertex with a finite energy carries the objective
at its constrained image, which was passed to the user's cost; every logged evaluation is a constrained in-box point
logged with the user's cost; the simplex is sorted, the history non-increasing and its last entry is the best. -/
theorem solve_nm_inv (o : Obj (Pt R) R) (h : Hyp o) (coef : Coef R) (st clip0 mkVal : Pt R → Pt R)
    (hst : ∀ x, o.K (st x) = o.K x) (hclip : ∀ x, (o.useRange = true → o.inBox x = true) → clip0 x = x)
    (cond : Term.Cond R) (x0 : Pt R) (fuel : Nat) (c : Ctl) (s0 : NM R R)
    (hran : 1 ≤ (solve (nmAlg o coef st clip0 mkVal cond x0) fuel c s0 0 0).iters) :
    NMInv o (solve (nmAlg o coef st clip0 mkVal cond x0) fuel c s0 0 0).st := by
  rw [solve_state_is_open_loop]
  rcases iters_cases (solve (nmAlg o coef st clip0 mkVal cond x0) fuel c s0 0 0).iters with h0 | h1 | ⟨n, hn⟩
  · omega
  · rw [h1, Closed.iterate_nmAlg_one]
    exact NM.gen0_inv h 0 _
  · rw [hn, Closed.iterate_nmAlg]
    exact C01.nm_inv_reachable o h coef st hst 0 (clip0 x0) clip0 mkVal hclip n

/-- **Nelder-Mead `Solve`: member clause, history clause** read off the invariant -/
theorem solve_nm_members (o : Obj (Pt R) R) (h : Hyp o) (coef : Coef R) (st clip0 mkVal : Pt R → Pt R)
    (hst : ∀ x, o.K (st x) = o.K x) (hclip : ∀ x, (o.useRange = true → o.inBox x = true) → clip0 x = x)
    (cond : Term.Cond R) (x0 : Pt R) (fuel : Nat) (c : Ctl) (s0 : NM R R)
    (hran : 1 ≤ (solve (nmAlg o coef st clip0 mkVal cond x0) fuel c s0 0 0).iters) :
    let s := (solve (nmAlg o coef st clip0 mkVal cond x0) fuel c s0 0 0).st
    (∀ p ∈ s.simplex, p.2 ≠ o.top → p.2 = o.energy (o.K p.1) ∧ (o.K p.1, o.raw (o.K p.1)) ∈ s.log) ∧
    (∀ p ∈ s.log, p.2 = o.raw p.1 ∧ o.K p.1 = p.1 ∧ (o.useRange = true → o.inBox p.1 = true)) ∧
    (s.stepLog.map Prod.snd).Pairwise (· ≥ ·) ∧ s.stepLog.getLast? = s.simplex.head? := by
  intro s
  have hi := solve_nm_inv o h coef st clip0 mkVal hst hclip cond x0 fuel c s0 hran
  refine ⟨?_, hi.logOK, hi.hist, hi.lastIsBest⟩
  intro p hp hne
  have := hi.good p hp hne
  exact ⟨this.1, this.2.1⟩

/-- **C01-C03 wherever a Powell `Solve` stops** (any termination condition tree, limits, line-search oracle): as soon
as one `_Step` ran, a finite best energy is cost + penalty at the reported best solution, which was passed to the
user's cost, is left unchanged by the constraints and lies in the box; every logged evaluation is a constrained in-box
point logged with the user's cost. -/
theorem solve_pw_inv (o : Obj (Pt R) R) (h : Hyp o) (cfg : PwCfg R R) (ls : Nat → Pt R → Pt R → LsRec R)
    (cond : Term.Cond R) (record : Bool) (x0 : Pt R) (direc : List (Pt R)) (hd : direc ≠ []) (fuel : Nat) (c : Ctl)
    (s0 : Pw R R) (hran : 1 ≤ (solve (pwAlg o cfg ls cond record x0 direc) fuel c s0 0 0).iters) :
    PwInv o (solve (pwAlg o cfg ls cond record x0 direc) fuel c s0 0 0).st := by
  rw [solve_state_is_open_loop]
  rcases iters_cases (solve (pwAlg o cfg ls cond record x0 direc) fuel c s0 0 0).iters with h0 | h1 | ⟨n, hn⟩
  · omega
  · rw [h1, Closed.iterate_pwAlg_one]
    exact gen0_inv h cfg record x0 direc hd
  · rw [hn, Closed.iterate_pwAlg]
    exact reach_inv h cfg ls record x0 direc hd n

theorem solve_pw_best (o : Obj (Pt R) R) (h : Hyp o) (cfg : PwCfg R R) (ls : Nat → Pt R → Pt R → LsRec R)
    (cond : Term.Cond R) (record : Bool) (x0 : Pt R) (direc : List (Pt R)) (hd : direc ≠ []) (fuel : Nat) (c : Ctl)
    (s0 : Pw R R) (hran : 1 ≤ (solve (pwAlg o cfg ls cond record x0 direc) fuel c s0 0 0).iters)
    (hfin : (solve (pwAlg o cfg ls cond record x0 direc) fuel c s0 0 0).st.fval ≠ o.top) :
    let s := (solve (pwAlg o cfg ls cond record x0 direc) fuel c s0 0 0).st
    s.fval = o.add (o.raw s.x) (o.pen s.x) ∧ (s.x, o.raw s.x) ∈ s.log ∧ o.K s.x = s.x ∧
      (o.useRange = true → o.inBox s.x = true) :=
  (solve_pw_inv o h cfg ls cond record x0 direc hd fuel c s0 hran).best hfin

/-- **C04 wherever a Powell `Solve` stops**: with a line search that never returns a worse point than its start
(`LsMono`; discharged for the modelled Brent search in Props/C04Brent.lean) the best-energy history is non-increasing
and bounded below by the reported best energy -/
theorem solve_pw_history (o : Obj (Pt R) R) (h : Hyp o) (cfg : PwCfg R R) (ls : Nat → Pt R → Pt R → LsRec R)
    (hm : LsMono o ls) (cond : Term.Cond R) (record : Bool) (x0 : Pt R) (direc : List (Pt R)) (hd : direc ≠ [])
    (fuel : Nat) (c : Ctl) (s0 : Pw R R)
    (hran : 1 ≤ (solve (pwAlg o cfg ls cond record x0 direc) fuel c s0 0 0).iters) :
    let s := (solve (pwAlg o cfg ls cond record x0 direc) fuel c s0 0 0).st
    s.hist.Pairwise (· ≥ ·) ∧ ∀ e ∈ s.hist, s.fval ≤ e := by
  intro s
  have key : HistInv s := by
    show HistInv (solve (pwAlg o cfg ls cond record x0 direc) fuel c s0 0 0).st
    rw [solve_state_is_open_loop]
    rcases iters_cases (solve (pwAlg o cfg ls cond record x0 direc) fuel c s0 0 0).iters with h0 | h1 | ⟨n, hn⟩
    · omega
    · rw [h1, Closed.iterate_pwAlg_one]
      exact (gen0_hist o cfg record x0 direc).1
    · rw [hn, Closed.iterate_pwAlg]
      exact reach_hist h cfg ls hm record x0 direc hd n
  exact ⟨key.anti, key.le⟩

/-- Nelder-Mead and Powell `Solve()` runs: `evaluations` grows by exactly the number of records appended to the
evaluation monitor (= calls made to the user's cost) -/
theorem solve_pw_evaluations (o : Obj (Pt R) R) (cfg : PwCfg R R) (ls : Nat → Pt R → Pt R → LsRec R)
    (cond : Term.Cond R) (record : Bool) (x0 : Pt R) (direc : List (Pt R)) (fuel : Nat) (c : Ctl) (s0 : Pw R R)
    (hmono : ∀ s k, (pwAlg o cfg ls cond record x0 direc).nlog s ≤
      (pwAlg o cfg ls cond record x0 direc).nlog ((pwAlg o cfg ls cond record x0 direc).step s k)) :
    (solve (pwAlg o cfg ls cond record x0 direc) fuel c s0 0 0).ctl.evals + s0.log.length
      = c.evals + (solve (pwAlg o cfg ls cond record x0 direc) fuel c s0 0 0).st.log.length :=
  solve_evaluations_are_the_log _ hmono fuel c s0

end NMPW

/-! non-vacuity: a closed-loop run over `Int` energies that is stopped by its generation limit -/

/-- toy algorithm: the state is a counter, each iteration logs 2 evaluations, the condition never holds -/
def toyAlg : Alg Nat := { step := fun s _ => s + 1, nlog := fun s => 2 * s, nrec := fun s => s, term := fun _ _ => false }

example : (solve toyAlg 10 { maxiter := .val 3, maxfun := .val 100 } 0 0 0).iters = 4 ∧
    (solve toyAlg 10 { maxiter := .val 3, maxfun := .val 100 } 0 0 0).steps = 4 ∧
    (solve toyAlg 10 { maxiter := .val 3, maxfun := .val 100 } 0 0 0).msg = some .lim ∧
    (solve toyAlg 10 { maxiter := .val 3, maxfun := .val 100 } 0 0 0).ctl.gens = 3 ∧
    (solve toyAlg 10 { maxiter := .val 3, maxfun := .val 100 } 0 0 0).ctl.evals = 8 := by decide

/-- non-vacuity of the Powell statements: a concrete closed-loop run (cost `x^2`, constraints `x ↦ max x 1`, scripted
line searches, condition `VTR(0,0)`, generation limit 2) performs 4 `_Step`s, stops with a message and reports 1 -/
example :
    let out := solve (pwAlg C01.pwObj C01.pwCfg C01.pwLs (.prim 0 0 (.vtr 0 0)) true [5] [[-1]]) 10
      { maxiter := .val 2, maxfun := .val 100, powell := true } (PowellS.gen0 C01.pwObj C01.pwCfg true [5] [[-1]]) 0 0
    out.iters = 4 ∧ out.st.fval = 1 ∧ out.msg.isSome = true := by decide

end MysticVerif.SolveProps
