/-
The closed loop `Solve()` (Model/ClosedLoop.lean): control loop + algorithm step + termination condition, all three
evaluated by the model.  These theorems lift what C01-C05 prove about arbitrary numbers of iterations to WHEREVER a
real run stops: for every termination condition (any And/Or/When tree of the built-in conditions), every limit
setting, every objective and every stream of trial vectors.
-/
import MysticVerif.Proofs.ClosedLoop
import MysticVerif.Props.C01
import MysticVerif.Props.C01Ensemble
import MysticVerif.Props.C05
import MysticVerif.Props.C04
import MysticVerif.Props.C04Brent

namespace MysticVerif.SolveProps
open MysticVerif.Solver MysticVerif.Closed

variable {S : Type}

/-- **C05, Solve always returns**: with a numeric generation limit `g` installed, `_Solve` gets a stop message within
`g - generations + 1` calls of `Step`, for EVERY algorithm step and EVERY termination condition -/
theorem solve_always_returns (a : Alg S) (g j : Nat) (c : Ctl) (s : S) (k n : Nat)
    (hlim : c.maxiter = .val g) (hp : c.powell = false) (hn : c.nstep ≠ 0) (hg : g ≤ c.gens + j) :
    (solve a (j + 1) c s k n).msg.isSome = true :=
  Closed.solve_returns a g j c s k n hlim hp hn hg

/-- **C05, the stop message of `Solve` is true of the state it leaves**, for every algorithm and condition -/
theorem solve_message_truthful (a : Alg S) (fuel : Nat) (c : Ctl) (s : S) (k n : Nat) (m : Msg)
    (h : (solve a fuel c s k n).msg = some m) :
    (m = .lim → (solve a fuel c s k n).ctl.maxfun.reached (solve a fuel c s k n).ctl.evals = true ∨
                (solve a fuel c s k n).ctl.maxiter.reached (solve a fuel c s k n).ctl.gens = true) ∧
    (m = .sig → (solve a fuel c s k n).ctl.earlyExit = true) :=
  Closed.solve_msg_truthful a fuel c s k n m h

/-- **`Solve` only iterates**: the state it leaves is the algorithm's open loop run for exactly `iters` iterations -/
theorem solve_state_is_open_loop (a : Alg S) (fuel : Nat) (c : Ctl) (s : S) :
    (solve a fuel c s 0 0).st = iterate a (solve a fuel c s 0 0).iters s 0 := by
  have := (Closed.solve_is_iterate a fuel c s 0 0).2
  simpa using this


/-- **C04, the evaluation counter IS the number of calls made to the user's cost**: for every algorithm whose step
only appends to its evaluation log, after `Solve` the counter has grown by exactly the number of records appended -/
theorem solve_evaluations_are_the_log (a : Alg S) (hmono : ∀ s k, a.nlog s ≤ a.nlog (a.step s k))
    (fuel : Nat) (c : Ctl) (s : S) :
    (solve a fuel c s 0 0).ctl.evals + a.nlog s = c.evals + a.nlog (solve a fuel c s 0 0).st :=
  Closed.solve_evals_eq_log a hmono fuel c s 0 0

section DE
variable {R : Type} [Add R] [Sub R] [Mul R] [Div R] [Neg R] [LinearOrder R] [BEq R] [OfNat R 0] [OfNat R 2]

theorem run_eq_run1 (two : Bool) (o : Obj (List R) R) (tss : List (List (List R))) (s : DE (List R) R) :
    Checkpoint.DE.run two o tss s = DE.run1 o tss s := by
  unfold Checkpoint.DE.run DE.run1
  congr 1
  funext s ts
  cases two
  · simp
  · simp [DE.step2_eq_step1]

/-- **C01/C02/C03 wherever a differential-evolution `Solve` stops** (DE1 and DE2; any termination condition tree,
limits, strategy / random draws): a finite reported best energy is cost + penalty at the reported best solution, which
was passed to the user's cost, is left unchanged by the constraints and lies in the box; every logged evaluation is a
constrained in-box point logged with the user's cost; the best-energy history is non-increasing. -/
theorem solve_de_inv (two : Bool) (o : Obj (List R) R) (h : Hyp o) (cond : Term.Cond R) (pop0 : List (List R))
    (x0 : List R) (trialss : List (List (List R))) (fuel : Nat) (c : Ctl) :
    DEInv o (solve (deAlg two o cond pop0 trialss) fuel c (DE.init o pop0 x0) 0 0).st := by
  rw [solve_state_is_open_loop]
  obtain ⟨tss, _, hr⟩ := Closed.iterate_deAlg two o cond pop0 trialss
    (solve (deAlg two o cond pop0 trialss) fuel c (DE.init o pop0 x0) 0 0).iters (DE.init o pop0 x0)
  rw [hr, run_eq_run1]
  exact DE.run1_inv h tss _ (DE.init_inv pop0 x0)

theorem solve_de_best (two : Bool) (o : Obj (List R) R) (h : Hyp o) (cond : Term.Cond R) (pop0 : List (List R))
    (x0 : List R) (trialss : List (List (List R))) (fuel : Nat) (c : Ctl)
    (hfin : (solve (deAlg two o cond pop0 trialss) fuel c (DE.init o pop0 x0) 0 0).st.bestE ≠ o.top) :
    let s := (solve (deAlg two o cond pop0 trialss) fuel c (DE.init o pop0 x0) 0 0).st
    s.bestE = o.add (o.raw s.best) (o.pen s.best) ∧ (s.best, o.raw s.best) ∈ s.log ∧ o.K s.best = s.best ∧
      (o.useRange = true → o.inBox s.best = true) :=
  (solve_de_inv two o h cond pop0 x0 trialss fuel c).best hfin

theorem deAlg_nlog_mono (two : Bool) (o : Obj (List R) R) (cond : Term.Cond R) (pop0 : List (List R))
    (trialss : List (List (List R))) (s : DE (List R) R) (k : Nat) :
    (deAlg two o cond pop0 trialss).nlog s ≤ (deAlg two o cond pop0 trialss).nlog ((deAlg two o cond pop0 trialss).step s k) := by
  simp only [deAlg]
  have key : ∀ ts, s.log.length ≤ (DE.step1 o ts s).log.length := by
    intro ts
    unfold DE.step1
    simp only
    exact (C04.de_log_prefix o ts 0 s).length_le
  cases two
  · simpa using key _
  · simp only [if_true]
    rw [DE.step2_eq_step1]
    exact key _

/-- **differential evolution (1 and 2), whole `Solve()` runs**: `evaluations` = number of records in the evaluation
monitor = number of calls made to the user's cost, whatever the termination condition, limits and trial vectors -/
theorem solve_de_evaluations (two : Bool) (o : Obj (List R) R) (cond : Term.Cond R) (pop0 : List (List R))
    (x0 : List R) (trialss : List (List (List R))) (fuel : Nat) (c : Ctl) (hc : c.evals = 0) :
    (solve (deAlg two o cond pop0 trialss) fuel c (DE.init o pop0 x0) 0 0).ctl.evals
      = (solve (deAlg two o cond pop0 trialss) fuel c (DE.init o pop0 x0) 0 0).st.log.length := by
  have h := solve_evaluations_are_the_log (deAlg two o cond pop0 trialss)
    (fun s k => deAlg_nlog_mono two o cond pop0 trialss s k) fuel c (DE.init o pop0 x0)
  have hn : ∀ s, (deAlg two o cond pop0 trialss).nlog s = s.log.length := fun _ => rfl
  have hl : (DE.init o pop0 x0).log.length = 0 := rfl
  rw [hn, hn, hl, hc] at h
  omega

end DE

/-! non-vacuity: a closed-loop run over `Int` energies that is stopped by its generation limit -/

/-- toy algorithm: the state is a counter, each iteration logs 2 evaluations, the condition never holds -/
def toyAlg : Alg Nat := { step := fun s _ => s + 1, nlog := fun s => 2 * s, nrec := fun s => s, term := fun _ _ => false }

example : (solve toyAlg 10 { maxiter := .val 3, maxfun := .val 100 } 0 0 0).iters = 4 ∧
    (solve toyAlg 10 { maxiter := .val 3, maxfun := .val 100 } 0 0 0).steps = 4 ∧
    (solve toyAlg 10 { maxiter := .val 3, maxfun := .val 100 } 0 0 0).msg = some .lim ∧
    (solve toyAlg 10 { maxiter := .val 3, maxfun := .val 100 } 0 0 0).ctl.gens = 3 ∧
    (solve toyAlg 10 { maxiter := .val 3, maxfun := .val 100 } 0 0 0).ctl.evals = 8 := by decide

end MysticVerif.SolveProps
