/-
C01 - the reported optimum is a genuinely evaluated point with its true energy.

Model: Model/Solver.lean (decorated objective, differential evolution 1 and 2), Model/NelderMead.lean.
`Hyp o` = the property's own hypotheses: constraints (coupled with the bounds) idempotent, `inf + p = inf`,
energies totally ordered below `inf` (no NaN).  All statements hold for ANY cost, penalty, constraints, box,
trial vectors (i.e. any strategy and any random draws), population size, dimension and number of steps.
-/
import MysticVerif.Proofs.Solver
import MysticVerif.Proofs.NelderMead
import MysticVerif.Proofs.PowellS

namespace MysticVerif.C01
open MysticVerif.Solver

variable {X E R : Type}

/-- **DE / DE2, member clause.** After any number of iterations every member with a finite stored energy
stores exactly cost + penalty at that member, which is a point the user's cost was called at, left unchanged by
the constraints. -/
theorem de_member_inv [LinearOrder E] (o : Obj X E) (h : Hyp o) (pop : List X) (x0 : X) (trialss : List (List X))
    (i : Nat) (y : X) (e : E)
    (hy : (DE.run1 o trialss (DE.init o pop x0)).pop[i]? = some y)
    (he : (DE.run1 o trialss (DE.init o pop x0)).popE[i]? = some e) (hfin : e ≠ o.top) :
    e = o.add (o.raw y) (o.pen y) ∧ (y, o.raw y) ∈ (DE.run1 o trialss (DE.init o pop x0)).log ∧ o.K y = y :=
  let inv := DE.run1_inv h trialss _ (DE.init_inv pop x0)
  let g := inv.mem i y e hy he hfin
  ⟨g.1, g.2.1, g.2.2.1⟩

/-- **DE / DE2, reported best.** A finite reported best energy is cost + penalty at the reported best solution,
and the user's cost was called at exactly that vector. -/
theorem de_best_inv [LinearOrder E] (o : Obj X E) (h : Hyp o) (pop : List X) (x0 : X) (trialss : List (List X))
    (hfin : (DE.run1 o trialss (DE.init o pop x0)).bestE ≠ o.top) :
    let s := DE.run1 o trialss (DE.init o pop x0)
    s.bestE = o.add (o.raw s.best) (o.pen s.best) ∧ (s.best, o.raw s.best) ∈ s.log ∧ o.K s.best = s.best :=
  let inv := DE.run1_inv h trialss _ (DE.init_inv pop x0)
  let g := inv.best hfin
  ⟨g.1, g.2.1, g.2.2.1⟩

/-- **DE / DE2.** The reported best energy is never above any member's stored energy. -/
theorem de_best_le_members [LinearOrder E] (o : Obj X E) (h : Hyp o) (pop : List X) (x0 : X)
    (trialss : List (List X)) :
    ∀ e ∈ (DE.run1 o trialss (DE.init o pop x0)).popE, (DE.run1 o trialss (DE.init o pop x0)).bestE ≤ e :=
  (DE.run1_inv h trialss _ (DE.init_inv pop x0)).bestLe

/-- **DE2 = DE1.** With a map that returns results in input order, the map-based solver produces exactly the
state (population, energies, best, evaluation log, step log) of the sequential one: every theorem above holds
for DifferentialEvolutionSolver2 verbatim. -/
theorem de2_step_eq_de1_step [LinearOrder E] (o : Obj X E) (trials : List X) (s : DE X E) :
    DE.step2 o trials s = DE.step1 o trials s := DE.step2_eq_step1 o trials s

/-- the best is never worse than the energy of the first member (the initial guess) once one iteration ran -/
theorem de_best_le_initial_guess [LinearOrder E] (o : Obj X E) (h : Hyp o) (x0 : X) (rest : List X)
    (trialss : List (List X)) :
    (DE.run1 o trialss (DE.step1 o (x0 :: rest) (DE.init o (x0 :: rest) x0))).bestE ≤ o.energy (o.K x0) := by
  -- after the first candidate of generation 0 the best is at most its energy; it only decreases afterwards
  have hmono : ∀ (tss : List (List X)) (s : DE X E), (DE.run1 o tss s).bestE ≤ s.bestE := by
    intro tss
    induction tss with
    | nil => intro s; exact le_refl _
    | cons ts tss ih =>
      intro s
      refine le_trans (ih _) ?_
      unfold DE.step1
      exact DE.candidates1_bestE_le o ts 0 s
  refine le_trans (hmono trialss _) ?_
  unfold DE.step1
  simp only
  unfold DE.candidates1
  refine le_trans (DE.candidates1_bestE_le o rest 1 _) ?_
  -- selection of candidate 0 against the initial energy `inf`
  unfold DE.select
  simp only [DE.init, List.map_cons, List.getElem?_cons_zero]
  rw [objAt_fst]
  split
  · exact le_refl _
  · rename_i hnl
    have : o.energy (o.K x0) = o.top := le_antisymm (h.leTop _) (not_lt.mp hnl)
    rw [this]

/-! ## Nelder-Mead -/

/-- **Nelder-Mead, member clause** (the objective the solver minimises: cost plus penalty AFTER bounds and
constraints).  Every stored (vertex, energy) pair with a finite energy satisfies energy = objective(K vertex), and
`K vertex` was passed to the user's cost. Holds for pure and for in-place constraints functions (`st`). -/
theorem nm_member_inv [Add R] [Sub R] [Mul R] [Div R] [LinearOrder E] (o : Obj (Pt R) E) (h : Hyp o) (c : Coef R)
    (st : Pt R → Pt R) (hst : ∀ x, o.K (st x) = o.K x) (s : NM R E) (hs : NMInv o s) :
    ∀ p ∈ (NM.update o c st s).1.simplex, p.2 ≠ o.top →
      p.2 = o.energy (o.K p.1) ∧ (o.K p.1, o.raw (o.K p.1)) ∈ (NM.update o c st s).1.log := by
  intro p hp hne
  have := (NM.update_inv h c st hst s hs).good p hp hne
  exact ⟨this.1, this.2.1⟩

/-- the invariant is established by generation 0 and kept by generation 1 and every later iteration -/
theorem nm_inv_reachable [Add R] [Sub R] [Mul R] [Div R] [LinearOrder E] (o : Obj (Pt R) E) (h : Hyp o) (c : Coef R)
    (st : Pt R → Pt R) (hst : ∀ x, o.K (st x) = o.K x) (zero : R) (x0 : Pt R) (clip0 mkVal : Pt R → Pt R)
    (hclip : ∀ x, (o.useRange = true → o.inBox x = true) → clip0 x = x) (n : Nat) :
    NMInv o (Nat.iterate (fun s => (NM.update o c st s).1) n (NM.gen1 o clip0 mkVal (NM.gen0 o zero x0))) := by
  have h0 := NM.gen0_inv h zero x0
  have h1 : NMInv o (NM.gen1 o clip0 mkVal (NM.gen0 o zero x0)) := by
    apply NM.gen1_inv h clip0 mkVal _ h0
    intro x0' f0 tl hsx hne
    -- the head vertex of generation 0 is `K x0`, evaluated; a finite energy means it lies in the box
    unfold NM.gen0 at hsx
    simp only [List.cons.injEq, Prod.mk.injEq] at hsx
    obtain ⟨⟨rfl, rfl⟩, _⟩ := hsx
    apply hclip
    have hg := objK_good h id (fun _ => rfl) (o.K x0) [] hne
    simp only [id, h.idem] at hg
    exact hg.2.2
  induction n with
  | zero => exact h1
  | succ n ih =>
    rw [Function.iterate_succ_apply']
    exact NM.update_inv h c st hst _ ih

/-- **Nelder-Mead, reported best, when the constraints do not move it.** If `K` leaves the stored best vertex
unchanged (in particular: no constraints), a finite best energy is cost + penalty at the reported best solution,
which is an evaluated point. -/
theorem nm_best_evaluated_of_fixed [LinearOrder E] (o : Obj (Pt R) E) (s : NM R E) (hs : NMInv o s)
    (x : Pt R) (e : E) (tl : List (Pt R × E)) (hsx : s.simplex = (x, e) :: tl) (hfix : o.K x = x) (hne : e ≠ o.top) :
    e = o.add (o.raw x) (o.pen x) ∧ (x, o.raw x) ∈ s.log := by
  have hg := hs.good (x, e) (by rw [hsx]; simp) hne
  simp only [hfix] at hg
  refine ⟨?_, hg.2.1⟩
  rw [hg.1]
  unfold Obj.energy
  have hb : (o.useRange && !o.inBox x) = false := by
    cases hu : o.useRange
    · simp
    · simp [hg.2.2 hu]
  simp [hb]

/-- **the best never worsens / is sorted first**: the first vertex carries the least energy -/
theorem nm_best_le_members [LinearOrder E] (o : Obj (Pt R) E) (s : NM R E) (hs : NMInv o s)
    (b : Pt R × E) (tl : List (Pt R × E)) (hsx : s.simplex = b :: tl) : ∀ q ∈ s.simplex, b.2 ≤ q.2 := by
  intro q hq
  have := hs.sorted
  rw [hsx] at this hq
  unfold SortedE at this
  rw [List.pairwise_cons] at this
  rcases List.mem_cons.mp hq with rfl | hq
  · exact le_refl _
  · exact this.1 q hq

/-! ### known finding F3: with constraints that move the best vertex the first clause is FALSE of the code

One-dimensional instance over `Int`: cost `x ↦ x*x`, constraints `x ↦ max x 1` (idempotent), guess `[5]`.
After the simplex is built and updated once the solver reports the vertex `[-1]`... -/

def f3Obj : Obj (Pt Int) Int :=
  { raw := fun x => (x.headD 0) * (x.headD 0), pen := fun _ => 0, K := fun x => x.map (fun v => max v 1),
    inBox := fun _ => true, useRange := false, top := 1000000, add := (· + ·) }

def f3Run : NM Int Int :=
  (NM.update f3Obj { one := 1, rho := 1, chi := 2, psi := 1, sigma := 1, n := 1 } id
    (NM.gen1 f3Obj id (fun x => x.map (· - 3)) (NM.gen0 f3Obj 0 [5]))).1

/-- the reported best vertex is `[-1]` with finite energy `1` = cost at `K [-1] = [1]`; the user's cost was never
called at `[-1]` (only at `[5]`, `[2]`, `[1]`), and `[-1]` violates the constraints. -/
theorem nm_best_not_evaluated_witness :
    f3Run.simplex.head? = some ([-1], 1) ∧ ([-1], f3Obj.raw [-1]) ∉ f3Run.log ∧ f3Obj.K [-1] ≠ [-1]
      ∧ (∀ x, f3Obj.K (f3Obj.K x) = f3Obj.K x) := by
  refine ⟨by decide, by decide, by decide, ?_⟩
  intro x
  simp only [f3Obj, List.map_map]
  congr 1
  funext v
  simp only [Function.comp]
  omega

/-! ## non-vacuity -/

/-- a concrete DE run over `Int` (two members, one iteration with real replacements) meeting `Hyp` -/
def exObj : Obj Int Int :=
  { raw := fun x => x * x, pen := fun x => if x < 0 then 5 else 0, K := fun x => max x (-2),
    inBox := fun x => decide (-3 ≤ x ∧ x ≤ 9), useRange := true, top := 1000000, add := (· + ·) }

example : (DE.run1 exObj [[7, 3], [1, -8]] (DE.init exObj [7, 3] 7)).pop = [1, 3]
    ∧ (DE.run1 exObj [[7, 3], [1, -8]] (DE.init exObj [7, 3] 7)).popE = [1, 9]
    ∧ (DE.run1 exObj [[7, 3], [1, -8]] (DE.init exObj [7, 3] 7)).bestE = 1 := by decide

/-! ## Powell's direction-set solver on the decorated objective (Model/PowellS.lean)

`ls` is an ARBITRARY line-search oracle (any Brent implementation, any tolerance): for the k-th search it names the
points the decorated cost is called at and the one it returns.  `reach .. n` is the state after generation 0,
generation 1 and `n` further `_Step`s. -/
open MysticVerif.PowellS

/-- **Powell, reported best and its only member.** At every `_Step` boundary a finite best energy is cost + penalty
at the reported best solution, which is a point the user's cost was called at and which the constraints leave
unchanged (the direction loop re-applies them to every new point). -/
theorem pw_best_inv [Sub R] [Mul R] [LinearOrder E] (o : Obj (Pt R) E) (h : Hyp o) (c : PwCfg R E)
    (ls : Nat → Pt R → Pt R → LsRec R) (record : Bool) (x0 : Pt R) (direc : List (Pt R)) (hd : direc ≠ []) (n : Nat)
    (hfin : (reach o c ls record x0 direc n).fval ≠ o.top) :
    let s := reach o c ls record x0 direc n
    s.fval = o.add (o.raw s.x) (o.pen s.x) ∧ (s.x, o.raw s.x) ∈ s.log ∧ o.K s.x = s.x := by
  intro s
  have g := (reach_inv h c ls record x0 direc hd n).best hfin
  exact ⟨g.1, g.2.1, g.2.2.1⟩

/-- the same at generation 0 (the initial evaluation) -/
theorem pw_best_inv_gen0 [LinearOrder E] (o : Obj (Pt R) E) (h : Hyp o) (c : PwCfg R E) (record : Bool) (x0 : Pt R)
    (direc : List (Pt R)) (hd : direc ≠ []) (hfin : (gen0 o c record x0 direc).fval ≠ o.top) :
    let s := gen0 o c record x0 direc
    s.fval = o.add (o.raw s.x) (o.pen s.x) ∧ (s.x, o.raw s.x) ∈ s.log ∧ o.K s.x = s.x := by
  intro s
  have g := (gen0_inv h c record x0 direc hd).best hfin
  exact ⟨g.1, g.2.1, g.2.2.1⟩

/-- **Powell: the best is never worse than the energy of the initial guess**, given the contract of the line search
(Brent's bracket starts at `alpha = 0` and returns the best point it evaluated: `LsMono`, checked on every
recorded search of every real run by the correspondence). -/
theorem pw_best_le_initial_guess [Sub R] [Mul R] [LinearOrder E] (o : Obj (Pt R) E) (h : Hyp o) (c : PwCfg R E)
    (ls : Nat → Pt R → Pt R → LsRec R) (hm : LsMono o ls) (record : Bool) (x0 : Pt R) (direc : List (Pt R))
    (hd : direc ≠ []) (n : Nat) :
    (reach o c ls record x0 direc n).fval ≤ (gen0 o c record x0 direc).fval := by
  have h0 := gen0_inv h c record x0 direc hd
  have h1 := gen1_inv h c ls _ h0.toPwInvK
  refine le_trans (run_fval_le h c ls hm n _ h1) ?_
  exact sweep_fval_le h c ls hm _ (h0.toPwInvK.withInternals _ _ _ _ _)

/-! non-vacuity: a concrete one-dimensional Powell run over `Int` (cost `x^2`, constraints `x ↦ max x 1`) -/

def pwObj : Obj (Pt Int) Int :=
  { raw := fun x => (x.headD 0) * (x.headD 0), pen := fun _ => 0, K := fun x => x.map (fun v => max v 1),
    inBox := fun _ => true, useRange := false, top := 1000000, add := (· + ·) }

/-- the energy arithmetic of the code on `Int` -/
def pwCfg : PwCfg Int Int :=
  { diff := fun a b => a - b, gain := fun fx2 fval delta => decide (delta < fx2 - fval),
    tneg := fun fx fx2 fval delta =>
      decide (2 * (fx + fx2 - 2 * fval) * ((fx - fval - delta) * (fx - fval - delta)) - delta * (fx - fx2) * (fx - fx2) < 0),
    zeroE := 0, two := 2 }

/-- a scripted oracle: three searches -/
def pwLs : Nat → Pt Int → Pt Int → LsRec Int
  | 0, _, _ => { pre := [[5], [4]], y := [2], post := [], xi := [-3] }
  | 1, _, _ => { pre := [[2]], y := [-1], post := [], xi := [-3] }
  | _, p, _ => { pre := [], y := p, post := [], xi := [0] }

example : (reach pwObj pwCfg pwLs true [5] [[-1]] 1).x = [1] ∧ (reach pwObj pwCfg pwLs true [5] [[-1]] 1).fval = 1 ∧
    (reach pwObj pwCfg pwLs true [5] [[-1]] 1).log = [([5], 25), ([5], 25), ([4], 16), ([2], 4), ([1], 1), ([2], 4), ([1], 1), ([1], 1)] ∧
    (reach pwObj pwCfg pwLs true [5] [[-1]] 1).stepLog = [([5], 25), ([-1], 1)] := by decide

end MysticVerif.C01
