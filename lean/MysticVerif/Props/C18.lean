/-
C18 - moment-imposing transforms hit their target and keep what they promise to keep; the statistical
definitions, the L-p norms and the point-to-point metrics equal their textbook (weighted) definitions.
Property theorems only (helper lemmas live in Proofs/Measures.lean).

`K` is an arbitrary linearly ordered field; `C : Consts K` carries the constants a field need not have
(`inf`, `nan`, `sqrt`, p-th roots) - every statement holds for ALL choices of them, the square root /
p-th root enter only through the stated hypothesis (e.g. `C.sqrt t * C.sqrt t = t` at the one argument used).
`ws : Option (List K)` is the `weights=None` / `weights=[...]` argument.  `Valid xs ws` is the property's own
"for which the operation is defined": a non-empty sample list, resp. equally many weights with `∑ w ≠ 0`.
`gmean`, `gmom`, `wsum` are the textbook sums (Proofs/Measures.lean):
  gmean xs none = (∑ xᵢ)/n,  gmean xs (some w) = (∑ xᵢ wᵢ)/(∑ wᵢ),  gmom xs ws k = gmean ((xᵢ - gmean xs ws)^k) ws.
-/
import MysticVerif.Proofs.Measures
import MysticVerif.Proofs.Trimmed
import MysticVerif.Proofs.MeasuresX
import MysticVerif.Props.C18X
import MysticVerif.Props.C18Dist
import Mathlib.Tactic.NormNum

set_option linter.unusedSectionVars false

namespace MysticVerif.C18
open MysticVerif.Meas

variable {K : Type} [Field K] [LinearOrder K] [IsStrictOrderedRing K]

/-! ## definitions -/

/-- **mean** (measures.py l.276) is the textbook (weighted) mean. -/
theorem mean_def (C : Consts K) (xs : List K) (ws : Option (List K)) (h : Valid xs ws) :
    mean C xs ws 0 = gmean xs ws := mean_eq C xs ws h

/-- **mean, tolerance cut**: with `tol ≥ 0` the result is the textbook mean, or `0` when that is within `tol`. -/
theorem mean_tol_def (C : Consts K) (xs : List K) (ws : Option (List K)) (tol : K) (h : Valid xs ws) :
    mean C xs ws tol = if |gmean xs ws| ≤ tol then 0 else gmean xs ws := by
  cases ws with
  | none =>
    simp only [mean, lsum_eq, gmean, absR_eq, div_one]
    rw [if_pos ((truthy_iff _).mpr one_ne_zero)]
    exact ite_congr rfl (fun _ => rfl) (fun _ => rfl)
  | some w =>
    simp only [mean, lsum_eq, gmean, absR_eq, wsum]
    rw [if_pos ((truthy_iff _).mpr h.2)]
    exact ite_congr rfl (fun _ => rfl) (fun _ => rfl)

/-- **moment** (l.326): order 0 is 1, order 1 is 0, order `n ≥ 2` is the textbook central moment. -/
theorem moment_def (C : Consts K) (xs : List K) (ws : Option (List K)) (n : Nat) (h : Valid xs ws) :
    moment C xs ws n 0 = if n = 0 then 1 else if n = 1 then 0 else gmom xs ws n := by
  by_cases h0 : n = 0
  · simp [moment, h0]
  by_cases h1 : n = 1
  · simp [moment, h1]
  rw [if_neg h0, if_neg h1]
  exact moment_eq C xs ws n h (by omega)

/-- **variance** (l.362) is the textbook (weighted) variance `∑ wᵢ (xᵢ - mean)² / ∑ wᵢ`. -/
theorem variance_def (C : Consts K) (xs : List K) (ws : Option (List K)) (h : Valid xs ws) :
    variance C xs ws = gmom xs ws 2 := moment_eq C xs ws 2 h (le_refl _)

example : Valid [(1 : ℚ), 2, 4] (some [1, 0, 3]) := by simp [Valid]; norm_num
example : Valid [(1 : ℚ), 2, 4] none := by simp [Valid]

/-- **spread** (l.62) of a non-empty list is (greatest element) - (least element). -/
theorem spread_def (x : K) (l : List K) :
    ∃ M m, M ∈ x :: l ∧ m ∈ x :: l ∧ (∀ y ∈ x :: l, m ≤ y ∧ y ≤ M) ∧ spread (x :: l) = M - m :=
  ⟨pymaxFrom x l, pyminFrom x l, (pymax_spec x l).1, (pymin_spec x l).1,
    fun y hy => ⟨(pymin_spec x l).2 y hy, (pymax_spec x l).2 y hy⟩, rfl⟩

/-- **support_index / support** (l.301, l.313): exactly the positions whose weight exceeds `tol`. -/
theorem support_def {X : Type} (xs : List X) (ws : List K) (tol : K) :
    (∀ i, i ∈ supportIndex ws tol ↔ ∃ h : i < ws.length, tol < ws[i]) ∧
    support xs ws tol = ((xs.zip ws).filter fun p => decide (tol < p.2)).map Prod.fst :=
  ⟨supportIndex_mem ws tol, support_eq xs ws tol⟩

/-- **ess_maximum / ess_minimum / ess_ptp** (l.103-185): the greatest / least value of `f` over the support
(all samples without weights), and their difference; `none` (Python: `ValueError`) iff the support is empty. -/
theorem ess_def {X : Type} (f : X → K) (xs : List X) (ws : Option (List K)) (tol : K) :
    let S := match ws with | none => xs | some w => support xs w tol
    (S = [] → essMaximum f xs ws tol = none ∧ essMinimum f xs ws tol = none ∧ essPtp f xs ws tol = none) ∧
    (S ≠ [] → ∃ M m, M ∈ S.map f ∧ m ∈ S.map f ∧ (∀ y ∈ S.map f, m ≤ y ∧ y ≤ M) ∧
      essMaximum f xs ws tol = some M ∧ essMinimum f xs ws tol = some m ∧ essPtp f xs ws tol = some (M - m)) := by
  intro S
  have hmax : essMaximum f xs ws tol = pymax? (S.map f) := by cases ws <;> rfl
  have hmin : essMinimum f xs ws tol = pymin? (S.map f) := by cases ws <;> rfl
  have hptp : essPtp f xs ws tol = ptp f S := by cases ws <;> rfl
  constructor
  · intro hS
    rw [hmax, hmin, hptp, hS]; exact ⟨rfl, rfl, rfl⟩
  · intro hS
    rw [hmax, hmin, hptp]
    unfold ptp
    cases hc : S.map f with
    | nil => simp at hc; exact absurd hc hS
    | cons y ys =>
      exact ⟨pymaxFrom y ys, pyminFrom y ys, (pymax_spec y ys).1, (pymin_spec y ys).1,
        fun z hz => ⟨(pymin_spec y ys).2 z hz, (pymax_spec y ys).2 z hz⟩, rfl, rfl, rfl⟩

/-- **expectation** (l.187): without weights the plain mean of `f`; with weights the weighted mean of `f`
over the points whose weight has `|w| > tol` (when their total weight is non-zero). -/
theorem expectation_def {X : Type} (C : Consts K) (f : X → K) (xs : List X) (w : List K) (tol : K)
    (hs : ((heavy xs w tol).map (·.2)).sum ≠ 0) :
    expectation C f xs (some w) tol =
      wsum ((heavy xs w tol).map fun p => f p.1) ((heavy xs w tol).map (·.2)) / ((heavy xs w tol).map (·.2)).sum ∧
    heavy xs w tol = (xs.zip w).filter (fun p => decide (tol < |p.2|)) ∧
    expectation C f xs none tol = gmean (xs.map f) none := by
  refine ⟨?_, ?_, mean_plain C _⟩
  · unfold expectation
    dsimp only
    split
    · rename_i h0
      rw [heavy_nil_of_filter xs w tol h0] at hs
      simp at hs
    · exact mean_weighted C _ _ hs
  · unfold heavy
    apply List.filter_congr; intro p _
    rw [absR_eq]

/-- **_expected_moment** (l.218): for order `n ≥ 2` the textbook central moment of `f` over the `|w| > tol` points. -/
theorem expected_moment_def {X : Type} (C : Consts K) (f : X → K) (xs : List X) (w : List K) (tol : K) (n : Nat)
    (hn : 2 ≤ n) (hs : ((heavy xs w tol).map (·.2)).sum ≠ 0) :
    expectedMoment C f xs (some w) n tol =
      gmom ((heavy xs w tol).map fun p => f p.1) (some ((heavy xs w tol).map (·.2))) n := by
  unfold expectedMoment
  dsimp only
  split
  · rename_i h0
    rw [heavy_nil_of_filter xs w tol h0] at hs
    simp at hs
  · exact moment_eq C _ _ n (show _ ∧ _ from ⟨by simp, hs⟩) hn

/-- **expected_variance / expected_std** (l.245, l.260): the textbook variance of `f` over the `|w| > tol` points, and
its square root. -/
theorem expected_variance_def {X : Type} (C : Consts K) (f : X → K) (xs : List X) (w : List K) (tol : K)
    (hs : ((heavy xs w tol).map (·.2)).sum ≠ 0) :
    expectedVariance C f xs (some w) tol =
      gmom ((heavy xs w tol).map fun p => f p.1) (some ((heavy xs w tol).map (·.2))) 2 ∧
    expectedStd C f xs (some w) tol = C.sqrt (expectedVariance C f xs (some w) tol) :=
  ⟨expected_moment_def C f xs w tol 2 (le_refl _) hs, rfl⟩

/-! ## impose_mean -/

/-- **impose_mean / target** (l.414): the result has the requested (weighted) mean. -/
theorem impose_mean_mean (C : Consts K) (m : K) (xs : List K) (ws : Option (List K)) (h : Valid xs ws) :
    gmean (imposeMean C m xs ws) ws = m := by
  unfold imposeMean
  rw [gmean_map_add_const xs ws _ h, mean_eq C xs ws h]; ring

/-- **impose_mean / keeps**: spread and every central moment (in particular the variance) are unchanged. -/
theorem impose_mean_keeps (C : Consts K) (m : K) (xs : List K) (ws : Option (List K)) (h : Valid xs ws) :
    spread (imposeMean C m xs ws) = spread xs ∧ ∀ n, gmom (imposeMean C m xs ws) ws n = gmom xs ws n := by
  unfold imposeMean
  exact ⟨spread_map_add_const xs _, fun n => gmom_map_add_const xs ws _ n h⟩

/-! ## impose_variance / impose_std / impose_spread -/

/-- **impose_variance** (l.436): for a non-degenerate input (variance ≠ 0) and a target `v` for which the
supplied square root is a square root of `v / variance`, the result has variance `v` and the old mean. -/
theorem impose_variance_spec (C : Consts K) (v : K) (xs : List K) (ws : Option (List K)) (h : Valid xs ws)
    (hv : gmom xs ws 2 ≠ 0) (hs : C.sqrt (v / gmom xs ws 2) * C.sqrt (v / gmom xs ws 2) = v / gmom xs ws 2) :
    gmom (imposeVariance C v xs ws) ws 2 = v ∧ gmean (imposeVariance C v xs ws) ws = gmean xs ws := by
  unfold imposeVariance
  rw [variance_def C xs ws h, if_pos ((truthy_iff _).mpr hv)]
  constructor
  · rw [(impose_mean_keeps C _ _ ws (h.map _)).2 2, gmom_map_mul_const, pow_two, hs]
    field_simp
  · rw [impose_mean_mean C _ _ ws (h.map _), mean_eq C xs ws h]

/-- **impose_std** (l.469): target standard deviation `s`, i.e. variance `s²`; mean kept. -/
theorem impose_std_spec (C : Consts K) (s : K) (xs : List K) (ws : Option (List K)) (h : Valid xs ws)
    (hv : gmom xs ws 2 ≠ 0)
    (hs : C.sqrt (s * s / gmom xs ws 2) * C.sqrt (s * s / gmom xs ws 2) = s * s / gmom xs ws 2) :
    gmom (imposeStd C s xs ws) ws 2 = s * s ∧ gmean (imposeStd C s xs ws) ws = gmean xs ws :=
  impose_variance_spec C (s * s) xs ws h hv hs

/-- **impose_variance, degenerate input** (l.453-457): zero variance and target 0 returns the samples,
zero variance and a non-zero target returns `nan`s (the property excludes this case). -/
theorem impose_variance_degenerate (C : Consts K) (v : K) (xs : List K) (ws : Option (List K)) (h : Valid xs ws)
    (hv : gmom xs ws 2 = 0) :
    imposeVariance C v xs ws = if v = 0 then xs else List.replicate xs.length C.nan := by
  unfold imposeVariance
  rw [variance_def C xs ws h, if_neg ((truthy_false_iff _).mpr hv)]
  by_cases h0 : v = 0
  · rw [if_neg ((truthy_false_iff _).mpr h0), if_pos h0]
  · rw [if_pos ((truthy_iff _).mpr h0), if_neg h0]

/-- **impose_spread** (l.548): for a non-degenerate input (spread ≠ 0) and a target `r ≥ 0` the result has
spread `r` and the old mean. -/
theorem impose_spread_spec (C : Consts K) (r : K) (xs : List K) (ws : Option (List K)) (h : Valid xs ws)
    (hr : 0 ≤ r) (hsp : spread xs ≠ 0) :
    spread (imposeSpread C r xs ws) = r ∧ gmean (imposeSpread C r xs ws) ws = gmean xs ws := by
  unfold imposeSpread
  rw [if_pos ((truthy_iff _).mpr hsp)]
  have hpos : 0 ≤ spread xs := by
    cases xs with
    | nil => simp [spread]
    | cons x t =>
      simp only [spread, pymaxFrom_eq, pyminFrom_eq]
      have h1 := (foldl_max_ge x t).1
      have h2 := (foldl_min_le x t).1
      linarith
  constructor
  · rw [(impose_mean_keeps C _ _ ws (h.map _)).1, spread_map_mul_const _ _ (div_nonneg hr hpos)]
    field_simp
  · rw [impose_mean_mean C _ _ ws (h.map _), mean_eq C xs ws h]

/-- non-vacuity: a weighted sample with non-zero variance and spread, target variance 9 with square root 3/ ... -/
example : gmom [(0 : ℚ), 2] (some [1, 1]) 2 = 1 ∧ spread [(0 : ℚ), 2] = 2 := by
  constructor
  · simp [gmom, gmean, wsum]; norm_num
  · simp [spread, pymaxFrom, pyminFrom]

/-! ## weights: normalize / impose_sum / impose_weight_norm -/

/-- **normalize / impose_sum, value** (l.1329, l.1807): for `∑ w ≠ 0` (and `mass ≠ 0` or no `zsum`)
every weight is rescaled by the same factor `mass / ∑ w`. -/
theorem normalize_proportional (C : Consts K) (ws : List K) (mass zmass : K) (zsum : Bool)
    (hs : ws.sum ≠ 0) (hz : mass ≠ 0 ∨ zsum = false) :
    normalize C ws mass zsum zmass = ws.map (fun w => mass * w / ws.sum) :=
  normalize_eq C ws mass zmass zsum hs hz

/-- **normalize / impose_sum, total**: the result sums to the requested `mass`. -/
theorem normalize_total (C : Consts K) (ws : List K) (mass zmass : K) (zsum : Bool)
    (hs : ws.sum ≠ 0) (hz : mass ≠ 0 ∨ zsum = false) :
    (normalize C ws mass zsum zmass).sum = mass :=
  normalize_sum C ws mass zmass zsum hs hz

/-- **normalize, counterbalance** (`mass = 0`, `zsum=True`, l.1376-1379): the result sums to 0. -/
theorem normalize_zsum_total (C : Consts K) (ws : List K) (zmass : K) (hW : (ws.map fun x => |x|).sum ≠ 0) :
    (normalize C ws 0 true zmass).sum = 0 := by
  apply normalize_zsum_sum
  rwa [show ws.map absR = ws.map (fun x => |x|) from List.map_congr_left (fun x _ => absR_eq x)]

/-- **impose_weight_norm** (l.1315): the new weights sum to `mass` and the weighted mean is kept. -/
theorem impose_weight_norm_spec (C : Consts K) (xs ws : List K) (mass : K)
    (hl : xs.length = ws.length) (hs : ws.sum ≠ 0) (hm : mass ≠ 0) :
    (imposeWeightNorm C xs ws mass).2.sum = mass ∧
    gmean (imposeWeightNorm C xs ws mass).1 (some (imposeWeightNorm C xs ws mass).2) = gmean xs (some ws) := by
  unfold imposeWeightNorm
  have h1 := normalize_sum C ws mass 1 false hs (Or.inl hm)
  have hv : Valid xs (some (normalize C ws mass false 1)) :=
    ⟨by rw [normalize_length C ws mass 1 false hs (Or.inl hm)]; exact hl, by rw [h1]; exact hm⟩
  exact ⟨h1, by rw [impose_mean_mean C _ xs _ hv, mean_eq C xs (some ws) ⟨hl, hs⟩]⟩

/-! ## support surgery: impose_support / impose_unweighted / impose_collapse -/

/-- **impose_support** (l.1702): with `kept = ∑_{i ∈ index} wᵢ ≠ 0`: (1) the new weights are exactly
`0` off the index and the old weight times `∑w / kept` on it - so exactly the designated weights are zeroed;
(2) the total weight is kept; (3) the weighted mean is kept. -/
theorem impose_support_spec (C : Consts K) (index : List Int) (xs ws : List K)
    (hl : xs.length = ws.length) (hk : (keptW index ws).sum ≠ 0) (hs : ws.sum ≠ 0) :
    (imposeSupport C index xs ws).2 =
      (mapIdx ws fun i w => if inIndex ws.length index i = true then ws.sum * w / (keptW index ws).sum else 0) ∧
    (imposeSupport C index xs ws).2.sum = ws.sum ∧
    gmean (imposeSupport C index xs ws).1 (some (imposeSupport C index xs ws).2) = gmean xs (some ws) := by
  refine ⟨imposeSupport_weights C index xs ws hk, ?_, ?_⟩
  · simp only [imposeSupport, lsum_eq]
    exact normalize_sum C _ _ _ _ hk (Or.inr rfl)
  · have hsum : (imposeSupport C index xs ws).2.sum = ws.sum := by
      simp only [imposeSupport, lsum_eq]; exact normalize_sum C _ _ _ _ hk (Or.inr rfl)
    have hlen : (imposeSupport C index xs ws).2.length = ws.length := by
      rw [imposeSupport_weights C index xs ws hk, mapIdx_length]
    have hv : Valid xs (some (imposeSupport C index xs ws).2) := ⟨by rw [hlen]; exact hl, by rw [hsum]; exact hs⟩
    show gmean (imposeMean C _ xs (some (imposeSupport C index xs ws).2)) _ = _
    rw [impose_mean_mean C _ xs _ hv, mean_eq C xs (some ws) ⟨hl, hs⟩]

/-- **impose_support / zero set**, pointwise form of (1): weight `i` of the result is `0` iff `i` is off
the index or the old weight was `0`. -/
theorem impose_support_zero_iff (C : Consts K) (index : List Int) (xs ws : List K)
    (hk : (keptW index ws).sum ≠ 0) (hs : ws.sum ≠ 0) (i : Nat) (hi : i < ws.length) :
    ∃ w', (imposeSupport C index xs ws).2[i]? = some w' ∧
      (w' = 0 ↔ (inIndex ws.length index i = false ∨ ws[i] = 0)) := by
  rw [imposeSupport_weights C index xs ws hk, mapIdx_getElem?, List.getElem?_eq_getElem hi]
  refine ⟨_, rfl, ?_⟩
  by_cases hin : inIndex ws.length index i = true
  · simp only [hin, if_true, Bool.true_eq_false, false_or]
    constructor
    · intro h0
      have := div_eq_zero_iff.mp h0
      rcases this with h | h
      · exact (mul_eq_zero.mp h).resolve_left hs
      · exact absurd h hk
    · intro h0; rw [h0]; simp
  · simp [hin]

/-- **impose_unweighted** (l.1733): with `rest = ∑_{i ∉ index} wᵢ ≠ 0` (any `nullable`): the new weights are
exactly `0` on the index and rescaled by `∑w / rest` off it; total weight and weighted mean are kept. -/
theorem impose_unweighted_spec (C : Consts K) (index : List Int) (xs ws : List K) (nullable : Bool)
    (hl : xs.length = ws.length) (hk : (droppedW index ws).sum ≠ 0) (hs : ws.sum ≠ 0) :
    (imposeUnweighted C index xs ws nullable).2 =
      (mapIdx ws fun i w => if inIndex ws.length index i = true then 0 else ws.sum * w / (droppedW index ws).sum) ∧
    (imposeUnweighted C index xs ws nullable).2.sum = ws.sum ∧
    gmean (imposeUnweighted C index xs ws nullable).1 (some (imposeUnweighted C index xs ws nullable).2)
      = gmean xs (some ws) := by
  have hw := imposeUnweighted_weights C index xs ws nullable hk
  have hc : ¬ ((!nullable && !truthy (droppedW index ws).sum) = true) := by
    simp [(truthy_iff _).mpr hk]
  have hsum : (imposeUnweighted C index xs ws nullable).2.sum = ws.sum := by
    simp only [imposeUnweighted, lsum_eq]
    rw [show (mapIdx ws fun i w => if inIndex ws.length index i = true then 0 else w) = droppedW index ws from rfl,
      if_neg hc]
    exact normalize_sum C _ _ _ _ hk (Or.inr rfl)
  refine ⟨hw, hsum, ?_⟩
  have hlen : (imposeUnweighted C index xs ws nullable).2.length = ws.length := by rw [hw, mapIdx_length]
  have hv : Valid xs (some (imposeUnweighted C index xs ws nullable).2) :=
    ⟨by rw [hlen]; exact hl, by rw [hsum]; exact hs⟩
  show gmean (imposeMean C _ xs (some (imposeUnweighted C index xs ws nullable).2)) _ = _
  rw [impose_mean_mean C _ xs _ hv, mean_eq C xs (some ws) ⟨hl, hs⟩]

example : keptW [0, -1] [(1 : ℚ), 2, 0, 5] = [1, 0, 0, 5] := by decide
example : droppedW [0, -1] [(1 : ℚ), 2, 0, 5] = [0, 2, 0, 0] := by decide

/-- **impose_collapse** (l.1763): when every group that `tools.connected` builds from the pairs has its
indices in range and does not contain its own key (`GroupOK`; true for every acyclic pair selection), the
total weight is kept, and (for `∑ w ≠ 0`) so is the weighted mean. -/
theorem impose_collapse_spec (C : Consts K) (pairs : List (Int × Int)) (xs ws : List K)
    (hl : xs.length = ws.length) (hs : ws.sum ≠ 0)
    (hok : ∀ g ∈ collapseGroups ws.length pairs, GroupOK ws.length g) :
    (imposeCollapse C pairs xs ws).2.sum = ws.sum ∧
    gmean (imposeCollapse C pairs xs ws).1 (some (imposeCollapse C pairs xs ws).2) = gmean xs (some ws) := by
  have h := collapse_groups_total (collapseGroups ws.length pairs) xs ws hl hok
  refine ⟨h.1, ?_⟩
  have hv : Valid ((collapseGroups ws.length pairs).foldl collapseGroup (xs, ws)).1
      (some ((collapseGroups ws.length pairs).foldl collapseGroup (xs, ws)).2) :=
    ⟨by rw [h.2.1, h.2.2], by rw [h.1]; exact hs⟩
  have e : (imposeCollapse C pairs xs ws).2 = ((collapseGroups ws.length pairs).foldl collapseGroup (xs, ws)).2 := rfl
  rw [e]
  show gmean (imposeMean C _ _ (some _)) (some _) = _
  rw [impose_mean_mean C _ _ _ hv, mean_eq C xs (some ws) ⟨hl, hs⟩]

/-- **impose_collapse / exactly the designated weights are zeroed** (l.1790-1796): when the groups built by
`tools.connected` are in range, list every member once, do not contain their own key (`GroupOK`) and have pairwise no
node in common (true for every acyclic pair selection in which no pair joins two groups that both already exist),
then for every group: the key is the ONE survivor and carries the group's weight, every other member has weight
exactly `0` and is moved onto the key's position, and every weight outside all groups is unchanged. -/
theorem impose_collapse_survivor_spec (C : Consts K) (pairs : List (Int × Int)) (xs ws : List K)
    (hl : xs.length = ws.length)
    (hok : ∀ g ∈ collapseGroups ws.length pairs, GroupOK ws.length g)
    (hnd : ∀ g ∈ collapseGroups ws.length pairs, g.2.Nodup)
    (hdis : (collapseGroups ws.length pairs).Pairwise fun a b => ∀ t ∈ gnodes a, t ∉ gnodes b) :
    (∀ g ∈ collapseGroups ws.length pairs,
      (imposeCollapse C pairs xs ws).2.getD g.1 0 = ws.getD g.1 0 + (g.2.map (ws.getD · 0)).sum ∧
      ∀ k ∈ g.2, (imposeCollapse C pairs xs ws).2.getD k 0 = 0 ∧
        (imposeCollapse C pairs xs ws).1[k]? = (imposeCollapse C pairs xs ws).1[g.1]?) ∧
    (∀ t, (∀ g ∈ collapseGroups ws.length pairs, t ∉ gnodes g) →
      (imposeCollapse C pairs xs ws).2.getD t 0 = ws.getD t 0) := by
  have hs := collapse_groups_spec (collapseGroups ws.length pairs) xs ws hl hok hnd hdis
  have hlen := collapse_groups_total (collapseGroups ws.length pairs) xs ws hl hok
  refine ⟨?_, ?_⟩
  · intro g hg
    have h := hs g hg
    refine ⟨h.1, ?_⟩
    intro k hk
    refine ⟨(h.2.2 k hk).1, ?_⟩
    have hk' : k < ((collapseGroups ws.length pairs).foldl collapseGroup (xs, ws)).1.length := by
      rw [hlen.2.2]; exact ((hok g hg).2 k hk).1
    have hg' : g.1 < ((collapseGroups ws.length pairs).foldl collapseGroup (xs, ws)).1.length := by
      rw [hlen.2.2]; exact (hok g hg).1
    have e := (h.2.2 k hk).2.trans h.2.1.symm
    simp only [List.getD_eq_getElem?_getD, List.getElem?_eq_getElem hk', List.getElem?_eq_getElem hg',
      Option.getD_some] at e
    simp only [imposeCollapse, imposeMean, List.getElem?_map, List.getElem?_eq_getElem hk',
      List.getElem?_eq_getElem hg', Option.map_some, e]
  · intro t ht
    exact (collapse_groups_untouched (collapseGroups ws.length pairs) xs ws hl hok hnd t ht).1

/-- non-vacuity: the groups of a chain and a star written with negative indices in both slots -/
example : collapseGroups 6 [(0, -1), (5, 2), (3, -2)] = [(0, [5, 2]), (3, [4])] := by decide
example : (collapseGroups 6 [(0, -1), (5, 2), (3, -2)]).Pairwise fun a b => ∀ t ∈ gnodes a, t ∉ gnodes b := by
  rw [show collapseGroups 6 [(0, -1), (5, 2), (3, -2)] = [(0, [5, 2]), (3, [4])] from by decide]
  simp [gnodes]

/-- non-vacuity: a chain and a star (with a negative index) give `GroupOK` groups -/
example : collapseGroups 5 [(0, 1), (1, 2), (3, -1)] = [(0, [1, 2]), (3, [4])] := by decide
example : ∀ g ∈ collapseGroups 5 [(0, 1), (1, 2), (3, -1)], GroupOK 5 g := by
  simp [show collapseGroups 5 [(0, 1), (1, 2), (3, -1)] = [(0, [1, 2]), (3, [4])] from by decide, GroupOK]

/-- **F16 witness (the clause fails on the code as it is)**: a reversed duplicate pair makes `connected`
put key 0 into its own member set; the collapse then counts `w₀` twice: total weight 6 becomes 7. -/
theorem collapse_total_not_kept_witness :
    collapseGroups 6 [(0, 1), (1, 0)] = [(0, [1, 0])] ∧
    ((collapseGroups 6 [(0, 1), (1, 0)]).foldl collapseGroup
      ([(1 : Int), 2, 3, 4, 5, 6], [(1 : Int), 1, 1, 1, 1, 1])).2 = [3, 0, 1, 1, 1, 1] := by decide

/-- **F17 witness**: `connected` does not merge the groups `0:{5}` and `1:{2}` that the later pair `(0,1)`
joins; the selected pair `(0,1)` keeps two non-zero weights (3 and 1). -/
theorem collapse_pair_not_zeroed_witness :
    collapseGroups 6 [(0, 5), (1, 2), (0, 1)] = [(0, [5, 1]), (1, [2])] ∧
    ((collapseGroups 6 [(0, 5), (1, 2), (0, 1)]).foldl collapseGroup
      ([(1 : Int), 2, 3, 4, 5, 6], [(1 : Int), 1, 1, 1, 1, 1])).2 = [3, 1, 0, 1, 1, 0] := by decide

/-! ## L-p norms, point-to-point metrics, approx -/

private theorem absdiff_eq (x y : List K) : absdiff x y = List.zipWith (fun a b => |a - b|) x y := by
  unfold absdiff
  congr 1; funext a b; exact absR_eq _

/-- **Lnorm, p = 0** (distance.py l.27): the number of non-zero entries. -/
theorem lnorm_zero (C : Consts K) (ws : List K) : lnorm C ws 0 = ((ws.filter fun w => decide (w ≠ 0)).length : K) := by
  unfold lnorm
  rw [if_pos rfl]
  congr 2
  apply List.filter_congr; intro w _
  by_cases h : w = 0 <;> simp [truthy, h]

/-- **Lnorm, general p ≥ 1** (l.35): the `p`-th power of the result is `∑ |wᵢ|^p`, for any root function
that is a `p`-th root at that one argument. -/
theorem lnorm_pow (C : Consts K) (ws : List K) (p : Nat) (hp : 1 ≤ p)
    (hroot : C.root p (ws.map fun w => |w| ^ p).sum ^ p = (ws.map fun w => |w| ^ p).sum) :
    lnorm C ws p ^ p = (ws.map fun w => |w| ^ p).sum := by
  unfold lnorm
  rw [if_neg (by omega), lsum_eq]
  have e : (ws.map fun x => absR (powN x p)) = ws.map fun w => |w| ^ p := by
    apply List.map_congr_left; intro w _; rw [absR_eq, powN_eq, abs_pow]
  rw [e, hroot]

/-- **Lnorm, p = 1**: `∑ |wᵢ|` (the root of order 1 being the identity). -/
theorem lnorm_one (C : Consts K) (ws : List K) (hroot : ∀ t, C.root 1 t = t) :
    lnorm C ws 1 = (ws.map fun w => |w|).sum := by
  have := lnorm_pow C ws 1 (le_refl _) (by rw [hroot]; simp)
  simpa using this

/-- **Lnorm, p = inf** (l.29): the greatest `|wᵢ|`. -/
theorem lnorm_inf (w : K) (ws : List K) :
    lnormInf (w :: ws) ∈ (w :: ws).map (fun t => |t|) ∧ ∀ t ∈ w :: ws, |t| ≤ lnormInf (w :: ws) := by
  have e : (w :: ws).map absR = (w :: ws).map (fun t => |t|) := List.map_congr_left (fun x _ => absR_eq x)
  unfold lnormInf
  rw [e]
  simp only [List.map_cons]
  refine ⟨by simpa using (pymax_spec |w| (ws.map fun t => |t|)).1, ?_⟩
  intro t ht
  apply (pymax_spec |w| (ws.map fun t => |t|)).2
  rcases List.mem_cons.mp ht with rfl | h
  · simp
  · exact List.mem_cons_of_mem _ (List.mem_map_of_mem h)

/-- **chebyshev** (l.115): the greatest coordinate distance `|xᵢ - yᵢ|` (points with ≥ 1 coordinate). -/
theorem chebyshev_def (a b : K) (x y : List K) :
    chebyshev (a :: x) (b :: y) ∈ List.zipWith (fun s t => |s - t|) (a :: x) (b :: y) ∧
    ∀ d ∈ List.zipWith (fun s t => |s - t|) (a :: x) (b :: y), d ≤ chebyshev (a :: x) (b :: y) := by
  unfold chebyshev
  rw [absdiff_eq]
  simp only [List.zipWith_cons_cons]
  exact pymax_spec _ _

/-- **hamming** (l.138): the number of coordinates that differ. -/
theorem hamming_def (x y : List K) :
    hamming x y = (((x.zip y).filter fun p => decide (p.1 ≠ p.2)).length : K) := by
  unfold hamming absdiff
  congr 1
  induction x generalizing y with
  | nil => simp
  | cons a x ih =>
    cases y with
    | nil => simp
    | cons b y =>
      simp only [List.zipWith_cons_cons, List.zip_cons_cons, List.filter_cons]
      have ht : truthy (absR (a - b)) = decide (a ≠ b) := by
        by_cases hab : a = b
        · simp [truthy, absR_eq, hab]
        · simp [truthy, absR_eq, hab, sub_eq_zero]
      rw [ht]
      by_cases hab : a = b
      · simp [hab, ih]
      · simp [hab, ih]

/-- **minkowski** (l.161): the `p`-th power of the result is `∑ |xᵢ - yᵢ|^p` for any `p`-th root at that argument. -/
theorem minkowski_pow (C : Consts K) (p : Nat) (x y : List K)
    (hroot : C.root p (List.zipWith (fun s t => |s - t| ^ p) x y).sum ^ p = (List.zipWith (fun s t => |s - t| ^ p) x y).sum) :
    minkowski C p x y ^ p = (List.zipWith (fun s t => |s - t| ^ p) x y).sum := by
  unfold minkowski minkowskiSum
  have e : (absdiff x y).map (powN · p) = List.zipWith (fun s t => |s - t| ^ p) x y := by
    rw [absdiff_eq, List.map_zipWith]
    congr 1; funext s t; exact powN_eq _ _
  rw [lsum_eq, e, hroot]

/-- **euclidean** (l.193): its square is `∑ (xᵢ - yᵢ)²`. -/
theorem euclidean_sq (C : Consts K) (x y : List K)
    (hroot : C.root 2 (List.zipWith (fun s t => (s - t) ^ 2) x y).sum ^ 2 = (List.zipWith (fun s t => (s - t) ^ 2) x y).sum) :
    euclidean C x y ^ 2 = (List.zipWith (fun s t => (s - t) ^ 2) x y).sum := by
  have e : List.zipWith (fun s t : K => |s - t| ^ 2) x y = List.zipWith (fun s t => (s - t) ^ 2) x y := by
    congr 1; funext s t; exact sq_abs _
  unfold euclidean
  rw [← e] at hroot ⊢
  exact minkowski_pow C 2 x y hroot

/-- **manhattan** (l.215): `∑ |xᵢ - yᵢ|`. -/
theorem manhattan_def (C : Consts K) (x y : List K) (hroot : ∀ t, C.root 1 t = t) :
    manhattan C x y = (List.zipWith (fun s t => |s - t|) x y).sum := by
  have := minkowski_pow C 1 x y (by rw [hroot]; simp)
  simpa [manhattan] using this

/-- **approx.tolerance** (l.124) and **almostEqual** (l.81) -/
theorem tolerance_def (x tol rel : K) : tolerance x tol rel = tol + |x| * rel := by
  unfold tolerance; rw [absR_eq]

theorem almostEqual_def (x y : List K) (tol rel : K) :
    almostEqual x y tol rel = true ↔ ∀ p ∈ x.zip y, |p.1 - p.2| ≤ tol + rel * |p.2| := by
  unfold almostEqual
  induction x generalizing y with
  | nil => simp
  | cons a x ih =>
    cases y with
    | nil => simp
    | cons b y =>
      have := ih y
      simp only [List.zipWith_cons_cons, List.all_cons, Bool.and_eq_true, List.zip_cons_cons, List.mem_cons,
        forall_eq_or_imp, absR_eq, id, decide_eq_true_eq] at this ⊢
      rw [this]

/-! ## median (extension; mad: see the note at the end) -/

/-- **median is shift-equivariant** (l.1491; `medianSel` = the one or two selected order statistics,
non-empty e.g. for non-negative weights with a positive total). -/
theorem median_shift_equivariant (C : Consts K) (c : K) (xs : List K) (ws : Option (List K))
    (h : medianSel xs ws ≠ []) : median C (xs.map (· + c)) ws = median C xs ws + c :=
  median_shift C c xs ws h

/-- **impose_median** (l.1516): the result has the requested (weighted) median, and the same spread. -/
theorem impose_median_spec (C : Consts K) (m : K) (xs : List K) (ws : Option (List K))
    (h : medianSel xs ws ≠ []) :
    median C (imposeMedian C m xs ws) ws = m ∧ spread (imposeMedian C m xs ws) = spread xs := by
  unfold imposeMedian
  exact ⟨by rw [median_shift C _ xs ws h]; ring, spread_map_add_const xs _⟩

example : medianSel [(3 : ℚ), 1, 2, 5] (some [1, 1, 2, 1]) = [2, 3] := by
  norm_num [medianSel, sortPairs, insertBy, pairsOf, cumsumFrom, lsum]
example : medianSel [(3 : ℚ), 1, 2] none = [2] := by
  norm_num [medianSel, sortPairs, insertBy, pairsOf, cumsumFrom, lsum]

/-- rational constants for the examples -/
def CQ0 : Consts ℚ := { inf := 0, nan := 0, sqrt := id, root := fun _ x => x }

/-! ### median / mad / impose_median / impose_mad, second round (l.1491-1546)

`MedValid xs ws`: at least one (sample, weight) pair and a NON-NEGATIVE total weight (single weights may be zero or
negative) - then the selection `x[s/2. - cumsum(w) <= 0][0:2-x.size%2]` is never empty.  All statements are about the
model's STABLE sort, for all inputs including ties; which of two EQUAL samples carrying different weights numpy's
`argsort` puts first is outside the model, and in binary64 the rescaling can break an exact tie of two deviations the
other way (F18): at such ties the weighted median of an even number of points jumps. -/

/-- **median, as the code defines the weighted median** (l.1499-1501): with the (sample, weight) pairs sorted by sample,
`S` the total weight and `cₖ = w₀ + … + wₖ` the cumulative weights of the sorted pairs, the median is the mean of the
first `2 - n % 2` sorted samples whose cumulative weight reaches `S / 2`; the selection is non-empty, consists of
samples, and the median lies between any bounds of the samples. -/
theorem median_def (C : Consts K) (xs : List K) (ws : Option (List K)) (h : MedValid xs ws) :
    median C xs ws = meanUpTo2 C (((((sortedX xs ws).zip (cumsumFrom 0 ((sortedOf xs ws).map (·.2)))).filter
        fun p => decide (((pairsOf xs ws).map (·.2)).sum / 2 ≤ p.2)).map (·.1)).take (2 - (pairsOf xs ws).length % 2)) ∧
    (∀ k, k < ((sortedOf xs ws).map (·.2)).length →
      (cumsumFrom 0 ((sortedOf xs ws).map (·.2)))[k]? = some ((((sortedOf xs ws).map (·.2)).take (k + 1)).sum)) ∧
    medianSel xs ws ≠ [] ∧ (∀ x ∈ medianSel xs ws, x ∈ xs) ∧
    ∀ lo hi, (∀ x ∈ xs, lo ≤ x ∧ x ≤ hi) → lo ≤ median C xs ws ∧ median C xs ws ≤ hi := by
  refine ⟨?_, ?_, medianSel_ne_nil xs ws h, medianSel_subset xs ws, fun lo hi hb => median_bounds C xs ws h lo hi hb⟩
  · unfold median medianSel sortedX sortedOf
    have hsum : ((sortPairs (pairsOf xs ws)).map (·.2)).sum = ((pairsOf xs ws).map (·.2)).sum :=
      ((sortPairs_perm (pairsOf xs ws)).map _).sum_eq
    rw [lsum_eq, hsum, sortPairs_length]
    congr 4
    funext p
    simp only [decide_eq_decide]
    constructor <;> intro h' <;> linarith
  · intro k hk
    have := cumsumFrom_getElem? (0 : K) ((sortedOf xs ws).map (·.2)) k hk
    rw [this, zero_add]

/-- **impose_median keeps the mad** (docstring l.1518 'mad-preserving'). -/
theorem impose_median_keeps_mad (C : Consts K) (m : K) (xs : List K) (ws : Option (List K)) (h : MedValid xs ws) :
    mad C (imposeMedian C m xs ws) ws = mad C xs ws := by
  unfold imposeMedian
  exact mad_shift C _ xs ws (medianSel_ne_nil xs ws h)

/-- **mad** is non-negative, invariant under shifts and equivariant under positive scalings of the samples. -/
theorem mad_affine (C : Consts K) (xs : List K) (ws : Option (List K)) (h : MedValid xs ws) (c s : K) (hs : 0 < s) :
    0 ≤ mad C xs ws ∧ mad C (xs.map (· + c)) ws = mad C xs ws ∧ mad C (xs.map (· * s)) ws = mad C xs ws * s ∧
    median C (xs.map (· * s)) ws = median C xs ws * s :=
  ⟨mad_nonneg C xs ws h, mad_shift C c xs ws (medianSel_ne_nil xs ws h), mad_scale C s hs xs ws h,
    median_scale C s hs xs ws (medianSel_ne_nil xs ws h)⟩

/-- **impose_mad** (l.1529): for a non-degenerate input (mad ≠ 0) and a POSITIVE target `s`, the result has median
absolute deviation `s` and the old median. -/
theorem impose_mad_spec (C : Consts K) (s : K) (xs : List K) (ws : Option (List K)) (h : MedValid xs ws)
    (hm : mad C xs ws ≠ 0) (hs : 0 < s) :
    mad C (imposeMad C s xs ws) ws = s ∧ median C (imposeMad C s xs ws) ws = median C xs ws := by
  have hpos : 0 < mad C xs ws := lt_of_le_of_ne (mad_nonneg C xs ws h) (Ne.symm hm)
  have hc : 0 < s / mad C xs ws := div_pos hs hpos
  unfold imposeMad
  rw [if_pos ((truthy_iff _).mpr hm)]
  have hv := h.map (· * (s / mad C xs ws))
  constructor
  · rw [impose_median_keeps_mad C _ _ ws hv, mad_scale C _ hc xs ws h]; field_simp
  · exact (impose_median_spec C _ _ ws (medianSel_ne_nil _ ws hv)).1

/-- **impose_mad, target 0**: every sample lands on the old median; mad 0, median kept. -/
theorem impose_mad_zero_spec (C : Consts K) (xs : List K) (ws : Option (List K)) (h : MedValid xs ws)
    (hm : mad C xs ws ≠ 0) :
    mad C (imposeMad C 0 xs ws) ws = 0 ∧ median C (imposeMad C 0 xs ws) ws = median C xs ws ∧
    ∀ y ∈ imposeMad C 0 xs ws, y = median C xs ws := by
  unfold imposeMad
  rw [if_pos ((truthy_iff _).mpr hm)]
  have hv := h.map (· * (0 / mad C xs ws))
  have h0 : median C (xs.map (· * (0 / mad C xs ws))) ws = 0 :=
    median_const C _ ws hv 0 (by intro y hy; obtain ⟨x, _, rfl⟩ := List.mem_map.mp hy; simp)
  have hall : ∀ y ∈ imposeMedian C (median C xs ws) (xs.map (· * (0 / mad C xs ws))) ws, y = median C xs ws := by
    intro y hy
    unfold imposeMedian at hy
    rw [h0] at hy
    obtain ⟨z, hz, rfl⟩ := List.mem_map.mp hy
    obtain ⟨x, _, rfl⟩ := List.mem_map.mp hz
    simp
  have hv2 : MedValid (imposeMedian C (median C xs ws) (xs.map (· * (0 / mad C xs ws))) ws) ws := by
    unfold imposeMedian; exact hv.map _
  have hmed := median_const C _ ws hv2 _ hall
  exact ⟨mad_const C _ ws hv2 _ hall, hmed, hall⟩

/-- **impose_mad, degenerate input** (l.1542-1543): zero mad returns `nan`s (excluded by the property). -/
theorem impose_mad_degenerate (C : Consts K) (s : K) (xs : List K) (ws : Option (List K)) (hm : mad C xs ws = 0) :
    imposeMad C s xs ws = List.replicate xs.length C.nan := by
  unfold imposeMad
  rw [if_neg ((truthy_false_iff _).mpr hm)]

/-- non-vacuity: weighted samples with a tie of two deviations carrying different weights (the F18 input) -/
example : MedValid [(1 / 4 : ℚ), -15 / 4, 25 / 4, -2] (some [4, 1, 2, 1]) := by
  constructor
  · simp [pairsOf]
  · norm_num [pairsOf]
example : median CQ0 [(1 / 4 : ℚ), -15 / 4, 25 / 4, -2] (some [4, 1, 2, 1]) = 13 / 4 ∧
    mad CQ0 [(1 / 4 : ℚ), -15 / 4, 25 / 4, -2] (some [4, 1, 2, 1]) = 3 := by decide +kernel
/-- in exact arithmetic (stable sort) the F18 input DOES reach its target 7/2: the defect is one of rounding at the tie -/
example : mad CQ0 (imposeMad CQ0 (7 / 2) [(1 / 4 : ℚ), -15 / 4, 25 / 4, -2] (some [4, 1, 2, 1])) (some [4, 1, 2, 1]) = 7 / 2 := by
  decide +kernel

/-! ## trimmed / winsorised variants: `_sort`, `_k`, tmean, tvariance, tstd and their imposers (l.1480, l.1549-1697)

`T : TConsts K` carries `ndarray.round(15)`, the literal `.01` and `isfinite`: every statement holds for ALL choices.
`sortedX xs ws` are the sorted samples, `trimW T xs ws klo khi clip` the trimmed (`clip = false`) or winsorised
(`clip = true`) weights `_k` gives to them (`klo`, `khi` in percent; a number `k` is `klo = khi = k`).
The hypothesis `(trimW ..).sum ≠ 0` is the docstring's "if all samples are excluded, will return nan". -/

/-- **_sort** (l.1480): the (sample, weight) pairs are permuted, and the samples are in non-decreasing order. -/
theorem sort_def (xs : List K) (ws : Option (List K)) :
    (sortedOf xs ws).Perm (pairsOf xs ws) ∧ (sortedOf xs ws).Pairwise (fun a b => a.1 ≤ b.1) :=
  ⟨sortPairs_perm _, sortPairs_sorted _⟩

/-- **the trimmed weights depend only on the ORDER of the samples and on the weights**: a shift of all samples, and
a scaling of all samples by a positive factor, leave the weights `_k` attaches to the sorted samples unchanged
(and move the sorted samples along). -/
theorem trim_weights_order_only (T : TConsts K) (xs : List K) (ws : Option (List K)) (klo khi : K) (clip : Bool)
    (c s : K) (hs : 0 < s) :
    trimW T (xs.map (· + c)) ws klo khi clip = trimW T xs ws klo khi clip ∧
    sortedX (xs.map (· + c)) ws = (sortedX xs ws).map (· + c) ∧
    trimW T (xs.map (· * s)) ws klo khi clip = trimW T xs ws klo khi clip ∧
    sortedX (xs.map (· * s)) ws = (sortedX xs ws).map (· * s) ∧
    (trimW T xs ws klo khi clip).length = (sortedX xs ws).length :=
  ⟨trimW_shift T c xs ws klo khi clip, sortedX_shift c xs ws, trimW_scale T s hs xs ws klo khi clip,
    sortedX_scale s hs xs ws, trimW_length T xs ws klo khi clip⟩

/-- **tmean** (l.1599) is the weighted mean of the sorted samples under the trimmed weights. -/
theorem tmean_def (T : TConsts K) (xs : List K) (ws : Option (List K)) (klo khi : K) (clip : Bool) :
    tmean T xs ws klo khi clip =
      wsum (sortedX xs ws) (trimW T xs ws klo khi clip) / (trimW T xs ws klo khi clip).sum :=
  tmean_eq T xs ws klo khi clip

/-- **tvariance / tstd** (l.1615, l.1632): the weighted variance `∑ w'ᵢ (xᵢ - m)² / ∑ w'ᵢ` of the sorted samples
under the trimmed weights `w'`, about the trimmed mean `m` OF THE SAME trimmed weights; `tstd` is its root. -/
theorem tvariance_def (C : Consts K) (T : TConsts K) (xs : List K) (ws : Option (List K)) (klo khi : K) (clip : Bool)
    (h : (trimW T xs ws klo khi clip).sum ≠ 0) :
    tvariance C T xs ws klo khi clip =
      wsum ((sortedX xs ws).map fun x => (x - tmean T xs ws klo khi clip) ^ 2) (trimW T xs ws klo khi clip)
        / (trimW T xs ws klo khi clip).sum ∧
    tstd C T xs ws klo khi clip = C.sqrt (tvariance C T xs ws klo khi clip) := by
  refine ⟨?_, rfl⟩
  rw [tvariance_eq C T xs ws klo khi clip h, tmean_eq]
  rfl

/-- **_k, tmean, tvariance at the default cut `k = 0`** (strictly positive weights or none, trimming or winsorising,
any `round` that keeps the sign of its argument): `_k` returns the weights unchanged, `tmean` is the textbook weighted
mean and `tvariance` the textbook weighted variance of the samples AS GIVEN (sorting does not matter). -/
theorem trimmed_k0_def (C : Consts K) (T : TConsts K) (hr : ∀ x : K, 0 < T.rnd x ↔ 0 < x) (xs : List K)
    (ws : Option (List K)) (h : PosValid xs ws) (clip : Bool) :
    trimW T xs ws 0 0 clip = (sortedOf xs ws).map (·.2) ∧
    tmean T xs ws 0 0 clip = gmean xs ws ∧
    tvariance C T xs ws 0 0 clip = gmom xs ws 2 :=
  ⟨trimW_k0 T hr xs ws h clip, tmean_k0_eq T hr xs ws h clip, tvariance_k0_eq C T hr xs ws h clip⟩

/-- `_k(weights, 0)` on strictly positive weights is the identity (l.1549-1596 with `lo = 0`, `hi = len(w)-1`). -/
theorem k_zero_cut (T : TConsts K) (hr : ∀ x : K, 0 < T.rnd x ↔ 0 < x) (ws : List K) (hpos : ∀ x ∈ ws, 0 < x)
    (hne : ws ≠ []) (clip : Bool) : kTrim T ws 0 0 clip false = ws :=
  kTrim_zero T hr ws hpos hne clip

example : PosValid [(3 : ℚ), 1, 2, 5] (some [1, 1, 2, 4]) := by
  refine ⟨rfl, by simp, ?_⟩
  intro x hx; simp at hx; rcases hx with rfl | rfl | rfl <;> norm_num

/-- **impose_tmean** (l.1648): the result has the requested trimmed mean, and the trimmed variance is kept. -/
theorem impose_tmean_spec (C : Consts K) (T : TConsts K) (m : K) (xs : List K) (ws : Option (List K)) (klo khi : K)
    (clip : Bool) (h : (trimW T xs ws klo khi clip).sum ≠ 0) :
    tmean T (imposeTmean T m xs ws klo khi clip) ws klo khi clip = m ∧
    tvariance C T (imposeTmean T m xs ws klo khi clip) ws klo khi clip = tvariance C T xs ws klo khi clip := by
  unfold imposeTmean
  have hv := trim_valid T xs ws klo khi clip h
  have hw := trimW_shift T (m - tmean T xs ws klo khi clip) xs ws klo khi clip
  constructor
  · rw [tmean_eq, hw, sortedX_shift, gmean_map_add_const _ _ _ hv, ← tmean_eq]; ring
  · rw [tvariance_eq C T _ ws klo khi clip (by rw [hw]; exact h), tvariance_eq C T xs ws klo khi clip h, hw,
      sortedX_shift, gmom_map_add_const _ _ _ _ hv]

/-- **impose_tvariance** (l.1663): for a non-degenerate input (trimmed variance ≠ 0) and a target `v` for which the
supplied square root is a positive square root of `v / tvariance`, the result has trimmed variance `v` and the old
trimmed mean. -/
theorem impose_tvariance_spec (C : Consts K) (T : TConsts K) (v : K) (xs : List K) (ws : Option (List K))
    (klo khi : K) (clip : Bool) (h : (trimW T xs ws klo khi clip).sum ≠ 0)
    (hv : tvariance C T xs ws klo khi clip ≠ 0)
    (hs : C.sqrt (v / tvariance C T xs ws klo khi clip) * C.sqrt (v / tvariance C T xs ws klo khi clip)
            = v / tvariance C T xs ws klo khi clip)
    (hpos : 0 < C.sqrt (v / tvariance C T xs ws klo khi clip)) :
    tvariance C T (imposeTvariance C T v xs ws klo khi clip) ws klo khi clip = v ∧
    tmean T (imposeTvariance C T v xs ws klo khi clip) ws klo khi clip = tmean T xs ws klo khi clip := by
  unfold imposeTvariance
  rw [if_pos ((truthy_iff _).mpr hv)]
  have hw := trimW_scale T _ hpos xs ws klo khi clip
  have h' : (trimW T (xs.map (· * C.sqrt (v / tvariance C T xs ws klo khi clip))) ws klo khi clip).sum ≠ 0 := by
    rw [hw]; exact h
  have key := impose_tmean_spec C T (tmean T xs ws klo khi clip)
    (xs.map (· * C.sqrt (v / tvariance C T xs ws klo khi clip))) ws klo khi clip h'
  refine ⟨?_, key.1⟩
  rw [key.2, tvariance_eq C T _ ws klo khi clip h', hw, sortedX_scale _ hpos, gmom_map_mul_const,
    ← tvariance_eq C T xs ws klo khi clip h, pow_two, hs]
  field_simp

/-- **impose_tstd** (l.1686): target trimmed standard deviation `s`, i.e. trimmed variance `s²`; trimmed mean kept. -/
theorem impose_tstd_spec (C : Consts K) (T : TConsts K) (s : K) (xs : List K) (ws : Option (List K))
    (klo khi : K) (clip : Bool) (h : (trimW T xs ws klo khi clip).sum ≠ 0)
    (hv : tvariance C T xs ws klo khi clip ≠ 0)
    (hs : C.sqrt (s * s / tvariance C T xs ws klo khi clip) * C.sqrt (s * s / tvariance C T xs ws klo khi clip)
            = s * s / tvariance C T xs ws klo khi clip)
    (hpos : 0 < C.sqrt (s * s / tvariance C T xs ws klo khi clip)) :
    tvariance C T (imposeTstd C T s xs ws klo khi clip) ws klo khi clip = s * s ∧
    tmean T (imposeTstd C T s xs ws klo khi clip) ws klo khi clip = tmean T xs ws klo khi clip :=
  impose_tvariance_spec C T (s * s) xs ws klo khi clip h hv hs hpos

/-- **impose_tvariance, degenerate input** (l.1679-1680): zero trimmed variance returns `nan`s (excluded by the
property). -/
theorem impose_tvariance_degenerate (C : Consts K) (T : TConsts K) (v : K) (xs : List K) (ws : Option (List K))
    (klo khi : K) (clip : Bool) (hv : tvariance C T xs ws klo khi clip = 0) :
    imposeTvariance C T v xs ws klo khi clip = List.replicate xs.length C.nan := by
  unfold imposeTvariance
  rw [if_neg ((truthy_false_iff _).mpr hv)]

/-- non-vacuity: rationals with `round = id`, `.01 = 1/100`. Trimming 25% from each tail of four unit weights keeps
the two middle samples; winsorising weighted samples moves the tail mass onto the boundary samples; a tuple `k`
that cuts inside a sample keeps the fraction of its weight inside the cut. -/
def TQ : TConsts ℚ := { rnd := id, c01 := 1 / 100, fin := fun _ => true }
def CQ : Consts ℚ := { inf := 0, nan := 0, sqrt := id, root := fun _ x => x }
example : sortedX [3, 1, 2, (5 : ℚ)] (some [1, 1, 2, 4]) = [1, 2, 3, 5] := by decide +kernel
example : trimW TQ [3, 1, 2, 5] none 25 25 false = [0, 1, 1, 0] := by decide +kernel
example : trimW TQ [3, 1, 2, 5] (some [1, 1, 2, 4]) 25 25 true = [0, 3, 1, 4] := by decide +kernel
example : trimW TQ [3, 1, 2, 5] (some [1, 1, 2, 4]) 10 30 false = [1 / 5, 2, 1, 8 / 5] := by decide +kernel
example : (trimW TQ [3, 1, 2, 5] (some [1, 1, 2, 4]) 10 30 false).sum ≠ 0 := by decide +kernel
example : tmean TQ [3, 1, 2, 5] none 25 25 false = 5 / 2 ∧ tvariance CQ TQ [3, 1, 2, 5] none 25 25 false = 1 / 4 := by
  decide +kernel
example : tvariance CQ TQ [3, 1, 2, 5] (some [1, 1, 2, 4]) 10 30 false = 17 / 9 := by decide +kernel

/-
NOT PROVED:
  a closed form of `_k` for a general cut (retained mass `max 0 (min Wᵢ b - max Wᵢ₋₁ a)` of the sorted sample `i`):
                         the model `kTrim` is the code as written and is compared bit-exactly; the closed form is what the
                         harness monitor computes independently in exact rationals (harness/c18.py `tb_trim`);
  `connected`-level characterisation of `GroupOK` (acyclic pair selections give `GroupOK` groups);
  impose_mad for a NEGATIVE target (the code then reflects the samples; with ties the stable selection is not symmetric).
impose_mad_spec / impose_median_keeps_mad / median_def are proved above (second round); the standardised moments,
impose_moment, impose_product, normalize 'l<p>' are in Props/C18X.lean, the shape logic of distance.py in Props/C18Dist.lean.
-/

end MysticVerif.C18
