/-
C13 - compiled constraint functions enforce exactly the stated relation.

Objects (Model/Emitted.lean): `Rel` = the relation `x_i ⋈ rhs` the TEXT states; `Assign` = one statement
`x[i] = e` of the source that `generate_solvers` exec's (parsed from the current tree on every run by the
harness); `recognise r code` = "`code` is one of the shapes `constraints_parser` may emit for `r`"
(the decidable validator run on every generated program); `Assign.exec` = running that statement;
`chain` = `generate_constraint` (inner-nested composition).  `K` is ANY linearly ordered field,
`env.ι` ANY reading of the numerals, `x` ANY vector.

Property clause                                   theorem
  relation holds on the output (strictly ..)      solver_enforces (from solver_enforces_margin)
  differs from the input at most in x_i           solver_frame
  equals the input when it already satisfies ..   solver_identity_nonstrict  (=, <=, >=, != : full strength)
                                                  solver_identity_partial    (<, > : needs the tolerance margin;
                                                  the unrestricted clause is FALSE for the code as it is:
                                                  strict_band_moves_feasible_point, DESIGN F9)
  several relations not feeding one another       chain_independent, chain_frame, chain_identity
  bounds constraint clips into the box / identity bounds_in_box, bounds_identity_inside
`chain_opt_eq` ties the exception-aware `chain?` the driver runs to the total `chain` of the theorems.

Composition modes of `generate_constraint` (Model/EmittedJoin.lean):
  ctype= any mix of inner / outer couplers          compose_eq_chain_order, compose_opt_eq, compose_independent,
                                                    compose_frame (independent systems: EVERY order works)
  relations that DO feed one another                compose_feeding_partial (only the relation applied last is guaranteed),
                                                    compose_feeding_order_matters (closed witness: the default inner nesting
                                                    of `x0 = x1 ; x1 = 5` violates `x0 = x1`, the outer nesting satisfies both)
  join=and_ / or_ (mystic.constraints)              fixed_point_margin (a vector a solver leaves unchanged satisfies its
                                                    relation - for ALL systems, fed or not), member_idem,
                                                    join_and_all_hold, join_and_independent (independent systems: and_ ALWAYS succeeds,
                                                    draws nothing, all relations hold; generic part Proofs/AndSuccess.lean),
                                                    join_and_identity, join_or_some_holds, join_or_total (or_ ALWAYS succeeds on statements that do
                                                    not read their own target, draws nothing, one relation holds), join_or_identity;
                                                    compose_identity (every coupler list is the identity on feasible input)

Argument SHAPES of `generate_constraint` (Model/EmittedShape.lean: one solver / a list / any nesting of lists and tuples, as
`generate_solvers` returns for a tuple of texts; `ctype` = None / one coupler / a (nested) list):
  every solver of the nesting is compiled in           gc_shape_compiles_every_solver (None, one coupler, a list with an entry per solver)
  the nesting is irrelevant                             gc_shape_default_eq_chain (= `chain` of the flattening)
  independent systems, any nesting, any couplers        gc_shape_independent, gc_shape_frame, gc_shape_identity
  a list as long as the OUTER sequence of nested        gc_shape_short_ctype_drops (closed witness: `zip` silently leaves the
  solvers                                               trailing solvers out - the code as it is; recorded finding)
  join= over GROUPS (every top-level item one member)   group_fixed_all_hold (distinct targets: a group that leaves y unchanged
                                                        satisfies all its relations there), join_groups_or_member_holds,
                                                        join_groups_and_all_hold (idempotent members),
                                                        group_member_idem (a group of independent, division-free lines IS idempotent:
                                                        chain_independent_margin, compose_independent_margin, compose_idempotent),
                                                        join_groups_and_indep_all_hold (groups may feed one another),
                                                        join_groups_and_feeding_false_success (closed witness: a group whose lines
                                                        feed one another makes `constraints.and_` report a false success)
-/
import MysticVerif.Proofs.Emitted
import MysticVerif.Proofs.EmittedJoin
import MysticVerif.Proofs.EmittedShape
import MysticVerif.Props.C17
import MysticVerif.Proofs.AndSuccess

set_option linter.unusedSectionVars false
set_option linter.unusedVariables false

namespace MysticVerif.C13
open MysticVerif.Emitted

variable {K : Type} [Field K] [LinearOrder K] [IsStrictOrderedRing K] {C : Type}

/-! ## one relation -/

private theorem emitG_i (r : Rel C) (B : Expr C) (c : C) : (emitG r B c).i = r.i := by
  unfold emitG; cases r.cmp <;> rfl

private theorem margin_emitG {r : Rel C} {B : Expr C} {c : C} (env : Env C K) (pos : 0 < env.ι c ∨ r.cmp ≠ Cmp.ne)
    (htol : 0 ≤ env.tol) (hrel : 0 ≤ env.rel) (x : List K)
    (hi : r.i < x.length) (hfree : r.rhs.mentions r.i = false) (hB : B.mentions r.i = false)
    (hne : r.cmp = Cmp.ne → 0 < env.tol) :
    r.margin env B ((emitG r B c).exec env x) := by
  have hself : ((emitG r B c).exec env x).getD r.i 0 = (emitG r B c).e.eval env x := by
    have := exec_getD_self env (emitG r B c) x (by rw [emitG_i]; exact hi)
    rw [emitG_i] at this; exact this
  have hrhs : r.rhs.eval env ((emitG r B c).exec env x) = r.rhs.eval env x := by
    unfold Assign.exec; rw [emitG_i]; exact eval_set_of_not_mentions env x r.i _ _ hfree
  have hBv : B.eval env ((emitG r B c).exec env x) = B.eval env x := by
    unfold Assign.exec; rw [emitG_i]; exact eval_set_of_not_mentions env x r.i _ _ hB
  obtain ⟨i, cmp, rhs⟩ := r
  cases cmp <;> simp only [Rel.margin] <;> rw [hself, hrhs] <;> (try rw [hBv]) <;>
    simp only [emitG, Expr.eval]
  · exact pyMin_le_left _ _
  · exact le_pyMax_left _ _
  · exact pyMin_le_left _ _
  · exact le_pyMax_left _ _
  · -- !=
    have ht := tolf_pos env (hne rfl) hrel (rhs.eval env x)
    have hc : 0 < env.ι c := by rcases pos with h | h; exact h; exact absurd rfl h
    by_cases hx : x.getD i 0 = rhs.eval env x
    · have : (x.getD i 0 == rhs.eval env x) = true := by simpa using hx
      rw [this]; simp only [b2r, if_true, one_mul]
      have := mul_pos ht hc
      rw [hx]; intro h; linarith
    · have : (x.getD i 0 == rhs.eval env x) = false := by simpa using hx
      rw [this]; simp only [b2r, Bool.false_eq_true, if_false, zero_mul, add_zero]; exact hx

/-- **Clause 1, with the margin the code works with.** For every statement the validator accepts for
`x_i ⋈ rhs` (`i ∉ vars rhs`, `0 ≤ tol`, `0 ≤ rel`, and `0 < tol` for `!=`), the output satisfies the
relation with its margin: `x_i' ≤ rhs - tol(rhs)` for `<`, `≥ rhs + tol(rhs)` for `>`, the plain relation
for `=`, `<=`, `>=` (margin `tol(rhs)*B`, `B ∈ {0,1}`) and `!=`. -/
theorem solver_enforces_margin [DecidableEq C] (env : Env C K) (isPos : C → Bool) (d : C)
    (hpos : ∀ c, isPos c = true → 0 < env.ι c) (htol : 0 ≤ env.tol) (hrel : 0 ≤ env.rel)
    (r : Rel C) (code : Assign C) (x : List K)
    (hrec : recognise isPos d r code = true) (hi : r.i < x.length)
    (hfree : r.rhs.mentions r.i = false) (hB : code.factor.mentions r.i = false)
    (hne : r.cmp = .ne → 0 < env.tol) :
    r.margin env code.factor (code.exec env x) := by
  obtain ⟨hcode, _, hp⟩ := recognise_spec hrec
  have pos : 0 < env.ι (code.scale d) ∨ r.cmp ≠ .ne := by
    by_cases h : r.cmp = .ne
    · exact Or.inl (hpos _ (hp h))
    · exact Or.inr h
  have := margin_emitG (c := code.scale d) (B := code.factor) env pos htol hrel x hi hfree hB hne
  rw [← hcode] at this; exact this

/-- the margin implies the relation (strictly for `<`, `>` when `0 < tol`) -/
theorem margin_holds (env : Env C K) (htol : 0 ≤ env.tol) (hrel : 0 ≤ env.rel) (r : Rel C) (B : Expr C)
    (x : List K) (hBnn : (r.cmp = .le ∨ r.cmp = .ge) → 0 ≤ B.eval env x)
    (hstrict : r.cmp.strict = true → 0 < env.tol) (h : r.margin env B x) : r.holds env x := by
  obtain ⟨i, cmp, rhs⟩ := r
  have htn := tolf_nonneg env htol hrel (rhs.eval env x)
  cases cmp <;> simp only [Rel.margin, Rel.holds, Cmp.holds] at h ⊢
  · exact h
  · have := mul_nonneg htn (hBnn (Or.inl rfl)); linarith
  · have := mul_nonneg htn (hBnn (Or.inr rfl)); linarith
  · have := tolf_pos env (hstrict rfl) hrel (rhs.eval env x); linarith
  · have := tolf_pos env (hstrict rfl) hrel (rhs.eval env x); linarith
  · exact h

/-- **Clause 1.** The vector returned by an accepted statement satisfies the stated relation -
strictly for `<`, `>`, and `≠` for `!=` (these three need `0 < tol`; the default is `1e-15`). -/
theorem solver_enforces [DecidableEq C] (env : Env C K) (isPos : C → Bool) (d : C)
    (hpos : ∀ c, isPos c = true → 0 < env.ι c) (htol : 0 ≤ env.tol) (hrel : 0 ≤ env.rel)
    (r : Rel C) (code : Assign C) (x : List K)
    (hrec : recognise isPos d r code = true) (hi : r.i < x.length)
    (hfree : r.rhs.mentions r.i = false) (hB : code.factor.mentions r.i = false)
    (hstrict : r.cmp.strict = true → 0 < env.tol) :
    r.holds env (code.exec env x) := by
  refine margin_holds env htol hrel r code.factor _ ?_ hstrict
    (solver_enforces_margin env isPos d hpos htol hrel r code x hrec hi hfree hB
      (fun h => hstrict (by rw [h]; rfl)))
  intro hc
  exact isBool_eval_nonneg env _ _ ((recognise_spec hrec).2.1 hc)

/-- **Clause 2 (frame).** The output has the input's length and differs from it at most in `x_i`. -/
theorem solver_frame [DecidableEq C] (env : Env C K) (isPos : C → Bool) (d : C)
    (r : Rel C) (code : Assign C) (x : List K) (hrec : recognise isPos d r code = true) :
    (code.exec env x).length = x.length ∧ ∀ j, j ≠ r.i → (code.exec env x).getD j 0 = x.getD j 0 := by
  refine ⟨exec_length env code x, fun j hj => exec_getD_ne env code x j ?_⟩
  rw [recognise_i hrec]; exact hj

private theorem identity_emitG (env : Env C K) (r : Rel C) (B : Expr C) (c : C) (x : List K)
    (h : r.margin env B x) : (emitG r B c).exec env x = x := by
  have key : (emitG r B c).e.eval env x = x.getD r.i 0 → (emitG r B c).exec env x = x := by
    intro hv; unfold Assign.exec; rw [emitG_i, hv]; exact set_getD_self x r.i
  apply key
  obtain ⟨i, cmp, rhs⟩ := r
  cases cmp <;> simp only [Rel.margin] at h <;> simp only [emitG, Expr.eval]
  · exact h.symm
  · exact pyMin_eq_right h
  · exact pyMax_eq_right h
  · exact pyMin_eq_right h
  · exact pyMax_eq_right h
  · have : (x.getD i 0 == rhs.eval env x) = false := by simpa using h
    rw [this]; simp [b2r]

/-- **Clause 3, partial (`<`, `>` need the margin).** If the input satisfies the relation with the margin
of the emitted code, the statement returns the input unchanged.
Full clause: `r.holds env x → code.exec env x = x`; see `solver_identity_nonstrict` for `= <= >= !=`
and `strict_band_moves_feasible_point` for why it fails for `<`, `>`. -/
theorem solver_identity_partial [DecidableEq C] (env : Env C K) (isPos : C → Bool) (d : C)
    (r : Rel C) (code : Assign C) (x : List K) (hrec : recognise isPos d r code = true)
    (h : r.margin env code.factor x) : code.exec env x = x := by
  have := identity_emitG env r code.factor (code.scale d) x h
  rw [← (recognise_spec hrec).1] at this; exact this

/-- **Clause 3 at full strength for `=`, `<=`, `>=`, `!=`** (whenever the boolean factor of the statement
is 0 at `x`, in particular always for a text without `!=` lines, where it is the literal `any([])`). -/
theorem solver_identity_nonstrict [DecidableEq C] (env : Env C K) (isPos : C → Bool) (d : C)
    (r : Rel C) (code : Assign C) (x : List K) (hrec : recognise isPos d r code = true)
    (hlt : r.cmp ≠ .lt) (hgt : r.cmp ≠ .gt) (hfac : code.factor.eval env x = 0)
    (h : r.holds env x) : code.exec env x = x := by
  apply solver_identity_partial env isPos d r code x hrec
  obtain ⟨i, cmp, rhs⟩ := r
  cases cmp <;> simp only [Rel.margin, Rel.holds, Cmp.holds] at h ⊢
  · exact h
  · rw [hfac]; simpa using h
  · rw [hfac]; simpa using h
  · exact absurd rfl hlt
  · exact absurd rfl hgt
  · exact h

/-- **Clause 3 fails for strict comparators on the code as it is (F9).** `x0 < x1` with `tol = 1`, `rel = 0`
at `x = [1/2, 1]`: the relation holds strictly, the accepted statement `x[0] = min(x[1] - _tol(x[1]), x[0])`
nevertheless moves `x0` to `0`. (Over `ℚ`; with the default `tol = rel = 1e-15` the same happens for
`x0 = 1 - 2^-53`.) -/
theorem strict_band_moves_feasible_point :
    ∃ (env : Env Nat ℚ) (r : Rel Nat) (code : Assign Nat) (x : List ℚ),
      recognise (fun c => decide (0 < c)) 1 r code = true ∧ r.rhs.mentions r.i = false ∧
      0 < env.tol ∧ 0 ≤ env.rel ∧ r.holds env x ∧ code.exec env x ≠ x := by
  refine ⟨{ ι := fun n => (n : ℚ), tol := 1, rel := 0 }, ⟨0, .lt, .var 1⟩, emitG ⟨0, .lt, .var 1⟩ .false_ 1, [1 / 2, 1],
    by decide, by decide, by norm_num, by norm_num, ?_, ?_⟩
  · simp only [Rel.holds, Cmp.holds, Expr.eval]; norm_num
  · simp only [emitG, Assign.exec, Expr.eval, tolf, absR, pyMin]; norm_num

/-- **Argument order of the outer `min`/`max` does not matter.** The driver validates `code.canon`; every theorem of
this file about an accepted `code.canon` is a theorem about `code` itself, because they compute the same vector. -/
theorem canon_exec (env : Env C K) (code : Assign C) (x : List K) : code.canon.exec env x = code.exec env x := by
  have hmin : ∀ a b : K, pyMin a b = pyMin b a := by
    intro a b; unfold pyMin
    rcases lt_trichotomy a b with h | h | h
    · simp [h, not_lt.mpr h.le]
    · subst h; rfl
    · simp [h, not_lt.mpr h.le]
  have hmax : ∀ a b : K, pyMax a b = pyMax b a := by
    intro a b; unfold pyMax
    rcases lt_trichotomy a b with h | h | h
    · simp [h, not_lt.mpr h.le]
    · subst h; rfl
    · simp [h, not_lt.mpr h.le]
  obtain ⟨i, e⟩ := code
  unfold Assign.canon
  split
  · rename_i j b he; simp only at he; subst he
    split
    · simp only [Assign.exec, Expr.eval]; rw [hmin]
    · rfl
  · rename_i j b he; simp only at he; subst he
    split
    · simp only [Assign.exec, Expr.eval]; rw [hmax]
    · rfl
  · rfl

theorem chain_canon (env : Env C K) (codes : List (Assign C)) (x : List K) :
    chain env (codes.map Assign.canon) x = chain env codes x := by
  induction codes with
  | nil => rfl
  | cons c cs ih => simp only [List.map_cons, chain_cons, ih, canon_exec]

/-! ## several relations (`generate_constraint`) -/

/-- `chain?` (what the driver runs, with python's exceptions) agrees with the total `chain` -/
theorem chain_opt_eq (env : Env C K) (codes : List (Assign C)) (x y : List K)
    (h : chain? env codes x = some y) : y = chain env codes x := by
  induction codes generalizing y with
  | nil => simp only [chain?, chain, List.foldr, Option.some.injEq] at h ⊢; exact h.symm
  | cons c cs ih =>
    simp only [chain?, List.foldr] at h
    cases hz : List.foldr (fun c acc => acc.bind fun v =>
        if c.defined env v = true then some (c.exec env v) else none) (some x) cs with
    | none => rw [hz] at h; simp at h
    | some z =>
      rw [hz] at h
      have hz' := ih z hz
      simp only [Option.bind] at h
      split at h
      · simp only [Option.some.injEq] at h; rw [chain_cons, ← hz']; exact h.symm
      · simp at h

/-- **Frame of the composition.** Coordinates that are no statement's target are untouched. -/
theorem chain_frame (env : Env C K) (codes : List (Assign C)) (x : List K) :
    (chain env codes x).length = x.length ∧
    ∀ j, (∀ c ∈ codes, c.i ≠ j) → (chain env codes x).getD j 0 = x.getD j 0 := by
  refine ⟨chain_length env codes x, ?_⟩
  induction codes with
  | nil => intro j _; rfl
  | cons c cs ih =>
    intro j hj
    rw [chain_cons, exec_getD_ne env c _ j (Ne.symm (hj c (by simp)))]
    exact ih j (fun c' hc' => hj c' (by simp [hc']))

private theorem holds_exec_other (env : Env C K) (r' : Rel C) (c : Assign C) (z : List K)
    (hne : r'.i ≠ c.i) (hfree : r'.rhs.mentions c.i = false) (h : r'.holds env z) :
    r'.holds env (c.exec env z) := by
  unfold Rel.holds at h ⊢
  rw [exec_getD_ne env c z _ hne]
  have : r'.rhs.eval env (c.exec env z) = r'.rhs.eval env z :=
    eval_set_of_not_mentions env z c.i _ _ hfree
  rw [this]; exact h

/-- **Independent systems.** Accepted statements for relations with pairwise distinct left-hand variables,
none of which occurs in any right-hand side (nor in a `!=` factor), composed as `generate_constraint`
composes them: the output satisfies ALL relations at once. -/
theorem chain_independent [DecidableEq C] (env : Env C K) (isPos : C → Bool) (d : C)
    (hpos : ∀ c, isPos c = true → 0 < env.ι c) (htol : 0 ≤ env.tol) (hrel : 0 ≤ env.rel)
    (rels : List (Rel C)) (codes : List (Assign C)) (x : List K)
    (hrec : List.Forall₂ (fun r c => recognise isPos d r c = true) rels codes)
    (hlen : ∀ r ∈ rels, r.i < x.length)
    (hnodup : (rels.map (·.i)).Nodup)
    (hfree : ∀ r ∈ rels, ∀ r' ∈ rels, r'.rhs.mentions r.i = false)
    (hB : ∀ c ∈ codes, ∀ r ∈ rels, c.factor.mentions r.i = false)
    (hstrict : ∀ r ∈ rels, r.cmp.strict = true → 0 < env.tol) :
    ∀ r ∈ rels, r.holds env (chain env codes x) := by
  induction hrec with
  | nil => intro r hr; simp at hr
  | @cons r c rs cs hrc _ ih =>
    have ih' := ih (fun r hr => hlen r (by simp [hr]))
      (by simp only [List.map_cons, List.nodup_cons] at hnodup; exact hnodup.2)
      (fun r hr r' hr' => hfree r (by simp [hr]) r' (by simp [hr']))
      (fun c hc r hr => hB c (by simp [hc]) r (by simp [hr]))
      (fun r hr => hstrict r (by simp [hr]))
    intro r' hr'
    rw [chain_cons]
    rcases List.mem_cons.mp hr' with rfl | hmem
    · exact solver_enforces env isPos d hpos htol hrel r' c _ hrc
        (by rw [chain_length]; exact hlen r' (by simp))
        (hfree r' (by simp) r' (by simp)) (hB c (by simp) r' (by simp)) (hstrict r' (by simp))
    · have hci : c.i = r.i := recognise_i hrc
      refine holds_exec_other env r' c _ ?_ ?_ (ih' r' hmem)
      · rw [hci]
        simp only [List.map_cons, List.nodup_cons, List.mem_map, not_exists, not_and] at hnodup
        exact fun h => hnodup.1 r' hmem h
      · rw [hci]; exact hfree r (by simp) r' (by simp [hmem])

/-- **Identity of the composition.** If the input satisfies every relation with its margin, the composed
function returns the input unchanged. -/
theorem chain_identity [DecidableEq C] (env : Env C K) (isPos : C → Bool) (d : C)
    (rels : List (Rel C)) (codes : List (Assign C)) (x : List K)
    (hrec : List.Forall₂ (fun r c => recognise isPos d r c = true ∧ r.margin env c.factor x) rels codes) :
    chain env codes x = x := by
  induction hrec with
  | nil => rfl
  | @cons r c rs cs hrc _ ih =>
    rw [chain_cons, ih]
    exact solver_identity_partial env isPos d r c x hrc.1 hrc.2

/-! ## bounds (`boundsconstrain`, `symbolic_bounds`) -/

/-- a bound line `x_i >= c` / `x_i <= c` with a numeral right-hand side -/
def IsBound (r : Rel C) : Prop := (r.cmp = .le ∨ r.cmp = .ge) ∧ ∃ c, r.rhs = .num c

/-- every lower bound of a variable is below every upper bound of the same variable (`min[i] <= max[i]`) -/
def Consistent (env : Env C K) (rels : List (Rel C)) : Prop :=
  ∀ r ∈ rels, ∀ r' ∈ rels, r.i = r'.i → r.cmp = .ge → r'.cmp = .le →
    r.rhs.eval env [] ≤ r'.rhs.eval env []

private theorem bound_exec_val [DecidableEq C] (env : Env C K) (isPos : C → Bool) (d : C)
    (r : Rel C) (c : Assign C) (z : List K) (hrc : recognise isPos d r c = true)
    (hb : IsBound r) (hf : c.factor = .false_) (hi : r.i < z.length) :
    (r.cmp = .le → (c.exec env z).getD r.i 0 = pyMin (r.rhs.eval env []) (z.getD r.i 0)) ∧
    (r.cmp = .ge → (c.exec env z).getD r.i 0 = pyMax (r.rhs.eval env []) (z.getD r.i 0)) := by
  have hcode := (recognise_spec hrc).1
  have hci : c.i = r.i := recognise_i hrc
  have hself := exec_getD_self env c z (by rw [hci]; exact hi)
  rw [hci] at hself
  obtain ⟨_, k, hk⟩ := hb
  obtain ⟨i, cmp, rhs⟩ := r
  simp only at hk; subst hk
  rw [hself, hcode, hf]
  constructor <;> intro hc <;> simp only at hc <;> subst hc <;>
    simp [emitG, Expr.eval]

/-- **Bounds: into the box.** The composition of accepted statements for any list of consistent bound
lines (any order, any number of lines per variable, no `!=` lines) returns a vector inside the box. -/
theorem bounds_in_box [DecidableEq C] (env : Env C K) (isPos : C → Bool) (d : C)
    (rels : List (Rel C)) (codes : List (Assign C)) (x : List K)
    (hrec : List.Forall₂ (fun r c => recognise isPos d r c = true ∧ c.factor = .false_) rels codes)
    (hbound : ∀ r ∈ rels, IsBound r) (hcons : Consistent env rels)
    (hlen : ∀ r ∈ rels, r.i < x.length) :
    ∀ r ∈ rels, r.holds env (chain env codes x) := by
  induction hrec with
  | nil => intro r hr; simp at hr
  | @cons r c rs cs hrc _ ih =>
    have ih' := ih (fun r hr => hbound r (by simp [hr]))
      (fun a ha b hb => hcons a (by simp [ha]) b (by simp [hb]))
      (fun r hr => hlen r (by simp [hr]))
    have hzlen : r.i < (chain env cs x).length := by rw [chain_length]; exact hlen r (by simp)
    obtain ⟨hle, hge⟩ := bound_exec_val env isPos d r c (chain env cs x) hrc.1 (hbound r (by simp)) hrc.2 hzlen
    have hci : c.i = r.i := recognise_i hrc.1
    have numeval : ∀ (q : Rel C), IsBound q → ∀ w : List K, q.rhs.eval env w = q.rhs.eval env [] := by
      intro q hq w; obtain ⟨_, k, hk⟩ := hq; rw [hk]; rfl
    intro r' hr'
    rw [chain_cons]
    have hb' := hbound r' hr'
    rcases List.mem_cons.mp hr' with rfl | hmem
    · -- the head relation itself
      unfold Rel.holds
      rw [numeval r' hb']
      rcases hb'.1 with hc | hc
      · rw [hc, hle hc]; exact pyMin_le_left _ _
      · rw [hc, hge hc]; exact le_pyMax_left _ _
    · have hz := ih' r' hmem
      by_cases hii : r'.i = r.i
      · unfold Rel.holds at hz ⊢
        rw [numeval r' hb'] at hz ⊢
        rw [hii] at hz ⊢
        rcases (hbound r (by simp)).1 with hc | hc <;> rcases hb'.1 with hc' | hc'
        · rw [hc'] at hz ⊢; rw [hle hc]; exact le_trans (pyMin_le_right _ _) hz
        · rw [hc'] at hz ⊢; rw [hle hc]
          have := hcons r' (by simp [hmem]) r (by simp) hii hc' hc
          rcases pyMin_cases (r.rhs.eval env []) ((chain env cs x).getD r.i 0) with h | h <;> rw [h]
          · exact this
          · exact hz
        · rw [hc'] at hz ⊢; rw [hge hc]
          have := hcons r (by simp) r' (by simp [hmem]) hii.symm hc hc'
          rcases pyMax_cases (r.rhs.eval env []) ((chain env cs x).getD r.i 0) with h | h <;> rw [h]
          · exact this
          · exact hz
        · rw [hc'] at hz ⊢; rw [hge hc]; exact le_trans hz (le_pyMax_right _ _)
      · refine holds_exec_other env r' c _ (by rw [hci]; exact hii) ?_ hz
        obtain ⟨_, k, hk⟩ := hb'; rw [hk]; rfl

/-- **Bounds: identity inside the box.** If the input satisfies every bound line, the composition returns it
unchanged. -/
theorem bounds_identity_inside [DecidableEq C] (env : Env C K) (isPos : C → Bool) (d : C)
    (rels : List (Rel C)) (codes : List (Assign C)) (x : List K)
    (hrec : List.Forall₂ (fun r c => recognise isPos d r c = true ∧ c.factor = .false_) rels codes)
    (hbound : ∀ r ∈ rels, IsBound r) (hin : ∀ r ∈ rels, r.holds env x) :
    chain env codes x = x := by
  apply chain_identity env isPos d rels codes x
  induction hrec with
  | nil => exact List.Forall₂.nil
  | @cons r c rs cs hrc _ ih =>
    refine List.Forall₂.cons ⟨hrc.1, ?_⟩
      (ih (fun r hr => hbound r (by simp [hr])) (fun r hr => hin r (by simp [hr])))
    have h := hin r (by simp)
    have hb := (hbound r (by simp)).1
    obtain ⟨i, cmp, rhs⟩ := r
    rw [hrc.2]
    rcases hb with hc | hc <;> simp only at hc <;> subst hc <;>
      simp only [Rel.margin, Rel.holds, Cmp.holds, Expr.eval] at h ⊢ <;> simpa using h


/-! ## composition modes of `generate_constraint`: `ctype=` (inner / outer couplers) -/

/-- **`ctype=` is a reordering.** `generate_constraint(solvers, ctype=[..])` with any mix of `inner` and `outer`
couplers computes `chain` of the statements in the order `order ws`, which is a permutation of the solvers
(`order_perm`): an `inner` level runs its solver before, an `outer` level after everything wrapped so far. -/
theorem compose_eq_chain_order (env : Env C K) (ws : List (CType × Assign C)) (x : List K) :
    compose env ws x = chain env (order ws) x ∧ (order ws).Perm (ws.map (·.2)) :=
  ⟨compose_from env ws id [] (fun _ => rfl) x, order_perm ws⟩

/-- `compose?` (what the driver runs, with python's exceptions) agrees with the total `compose` -/
theorem compose_opt_eq (env : Env C K) (ws : List (CType × Assign C)) (x y : List K)
    (h : compose? env ws x = some y) : y = compose env ws x :=
  composeOpt_from env ws some id (fun _ _ h => by simpa using h.symm) x y h

private theorem forall2_of_pairs {α β : Type} (P : α → β → Prop) :
    ∀ l : List (α × β), (∀ p ∈ l, P p.1 p.2) → List.Forall₂ P (l.map (·.1)) (l.map (·.2))
  | [], _ => List.Forall₂.nil
  | p :: l, h => List.Forall₂.cons (h p (by simp)) (forall2_of_pairs P l (fun q hq => h q (by simp [hq])))

/-- **Independent systems, every order (property clause 4 for every `ctype`).** Accepted statements for relations
with pairwise distinct left-hand variables, none of which occurs in any right-hand side (nor in a `!=` factor),
composed through ANY list of `inner` / `outer` couplers: the output satisfies ALL relations at once. -/
theorem compose_independent [DecidableEq C] (env : Env C K) (isPos : C → Bool) (d : C)
    (hpos : ∀ c, isPos c = true → 0 < env.ι c) (htol : 0 ≤ env.tol) (hrel : 0 ≤ env.rel)
    (items : List (CType × Rel C × Assign C)) (x : List K)
    (hrec : ∀ t ∈ items, recognise isPos d t.2.1 t.2.2 = true)
    (hlen : ∀ t ∈ items, t.2.1.i < x.length)
    (hnodup : (items.map (·.2.1.i)).Nodup)
    (hfree : ∀ t ∈ items, ∀ t' ∈ items, t'.2.1.rhs.mentions t.2.1.i = false)
    (hB : ∀ t ∈ items, ∀ t' ∈ items, t.2.2.factor.mentions t'.2.1.i = false)
    (hstrict : ∀ t ∈ items, t.2.1.cmp.strict = true → 0 < env.tol) :
    ∀ t ∈ items, t.2.1.holds env (compose env (items.map fun t => (t.1, t.2.2)) x) := by
  have hperm : (order items).Perm (items.map (·.2)) := order_perm items
  have hmem : ∀ p, p ∈ order items ↔ ∃ t ∈ items, t.2 = p := by
    intro p; rw [hperm.mem_iff]; simp
  have hcodes : order (items.map fun t => (t.1, t.2.2)) = (order items).map (·.2) :=
    order_map (fun q : Rel C × Assign C => q.2) items
  rw [(compose_eq_chain_order env _ x).1, hcodes]
  have key := chain_independent env isPos d hpos htol hrel ((order items).map (·.1)) ((order items).map (·.2)) x
    (forall2_of_pairs _ _ (fun p hp => by obtain ⟨t, ht, rfl⟩ := (hmem p).mp hp; exact hrec t ht))
    (by intro r hr; simp only [List.mem_map] at hr; obtain ⟨p, hp, rfl⟩ := hr
        obtain ⟨t, ht, rfl⟩ := (hmem p).mp hp; exact hlen t ht)
    (by have h1 : ((order items).map (·.1)).Perm ((items.map (·.2)).map (·.1)) := hperm.map _
        have h2 : (((order items).map (·.1)).map (·.i)).Perm (items.map (·.2.1.i)) := by
          have := h1.map (fun r : Rel C => r.i)
          simpa [List.map_map, Function.comp_def] using this
        exact h2.nodup_iff.mpr hnodup)
    (by intro r hr r' hr'; simp only [List.mem_map] at hr hr'
        obtain ⟨p, hp, rfl⟩ := hr; obtain ⟨p', hp', rfl⟩ := hr'
        obtain ⟨t, ht, rfl⟩ := (hmem p).mp hp; obtain ⟨t', ht', rfl⟩ := (hmem p').mp hp'
        exact hfree t ht t' ht')
    (by intro c hc r hr; simp only [List.mem_map] at hc hr
        obtain ⟨p, hp, rfl⟩ := hc; obtain ⟨p', hp', rfl⟩ := hr
        obtain ⟨t, ht, rfl⟩ := (hmem p).mp hp; obtain ⟨t', ht', rfl⟩ := (hmem p').mp hp'
        exact hB t ht t' ht')
    (by intro r hr; simp only [List.mem_map] at hr; obtain ⟨p, hp, rfl⟩ := hr
        obtain ⟨t, ht, rfl⟩ := (hmem p).mp hp; exact hstrict t ht)
  intro t ht
  exact key t.2.1 (by simp only [List.mem_map]; exact ⟨t.2, (hmem t.2).mpr ⟨t, ht, rfl⟩, rfl⟩)

/-- **Identity of every composition mode.** If the input satisfies every relation with its margin, the function composed
through ANY list of couplers returns the input unchanged (no independence hypothesis). -/
theorem compose_identity [DecidableEq C] (env : Env C K) (isPos : C → Bool) (d : C)
    (items : List (CType × Rel C × Assign C)) (x : List K)
    (h : ∀ t ∈ items, recognise isPos d t.2.1 t.2.2 = true ∧ t.2.1.margin env t.2.2.factor x) :
    compose env (items.map fun t => (t.1, t.2.2)) x = x := by
  have hperm : (order items).Perm (items.map (·.2)) := order_perm items
  have hmem : ∀ p, p ∈ order items → ∃ t ∈ items, t.2 = p := by
    intro p hp; have := hperm.mem_iff.mp hp; simpa using this
  have hcodes : order (items.map fun t => (t.1, t.2.2)) = (order items).map (·.2) :=
    order_map (fun q : Rel C × Assign C => q.2) items
  rw [(compose_eq_chain_order env _ x).1, hcodes]
  exact chain_identity env isPos d ((order items).map (·.1)) ((order items).map (·.2)) x
    (forall2_of_pairs _ _ (fun p hp => by obtain ⟨t, ht, rfl⟩ := hmem p hp; exact h t ht))

/-- **Frame of every composition mode.** Coordinates that are no statement's target are untouched, whatever the couplers. -/
theorem compose_frame (env : Env C K) (ws : List (CType × Assign C)) (x : List K) :
    (compose env ws x).length = x.length ∧
    ∀ j, (∀ w ∈ ws, w.2.i ≠ j) → (compose env ws x).getD j 0 = x.getD j 0 := by
  rw [(compose_eq_chain_order env ws x).1]
  refine ⟨(chain_frame env _ x).1, fun j hj => (chain_frame env _ x).2 j ?_⟩
  intro c hc
  have : c ∈ ws.map (·.2) := (order_perm ws).mem_iff.mp hc
  simp only [List.mem_map] at this
  obtain ⟨w, hw, rfl⟩ := this
  exact hj w hw

/-- **Relations that feed one another, partial.** Without independence only the relation whose statement runs LAST
is guaranteed (for `ctype=None`: the LAST line of the text, because `constraints_parser` reverses the lines and
`inner` nesting reverses them again). Full clause (`∀ r, r.holds ..`) is false: `compose_feeding_order_matters`. -/
theorem compose_feeding_partial [DecidableEq C] (env : Env C K) (isPos : C → Bool) (d : C)
    (hpos : ∀ c, isPos c = true → 0 < env.ι c) (htol : 0 ≤ env.tol) (hrel : 0 ≤ env.rel)
    (r : Rel C) (code : Assign C) (rest : List (Assign C)) (x : List K)
    (hrec : recognise isPos d r code = true) (hi : r.i < x.length)
    (hfree : r.rhs.mentions r.i = false) (hB : code.factor.mentions r.i = false)
    (hstrict : r.cmp.strict = true → 0 < env.tol) :
    r.holds env (chain env (code :: rest) x) := by
  rw [chain_cons]
  exact solver_enforces env isPos d hpos htol hrel r code _ hrec (by rw [chain_length]; exact hi) hfree hB hstrict

/-- **Order matters when a left-hand variable feeds another line (closed witness).** The text `x0 = x1 ; x1 = 5`
(accepted statements, distinct left-hand variables, but `x1` feeds the first line) at `x = [0, 0]`:
the default inner nesting stores `x0 := x1` BEFORE `x1 := 5` and returns `[0, 5]`, where `x0 = x1` fails;
the same solvers under `ctype=outer` return `[5, 5]`, where both relations hold. -/
theorem compose_feeding_order_matters :
    ∃ (env : Env Nat ℚ) (r0 r1 : Rel Nat) (c0 c1 : Assign Nat) (x : List ℚ),
      recognise (fun c => decide (0 < c)) 1 r0 c0 = true ∧ recognise (fun c => decide (0 < c)) 1 r1 c1 = true ∧
      r0.i ≠ r1.i ∧ r0.rhs.mentions r1.i = true ∧
      compose env [(.inner, c1), (.inner, c0)] x = [0, 5] ∧ ¬ r0.holds env [0, 5] ∧
      compose env [(.outer, c1), (.outer, c0)] x = [5, 5] ∧ r0.holds env [5, 5] ∧ r1.holds env [5, 5] := by
  refine ⟨{ ι := fun n => (n : ℚ), tol := 0, rel := 0 }, ⟨0, .eq, .var 1⟩, ⟨1, .eq, .num 5⟩,
    ⟨0, .var 1⟩, ⟨1, .num 5⟩, [0, 0], by decide, by decide, by decide, by decide, ?_, ?_, ?_, ?_, ?_⟩
  · simp [compose, step, Assign.exec, Expr.eval]
  · simp [Rel.holds, Cmp.holds, Expr.eval]
  · simp [compose, step, Assign.exec, Expr.eval]
  · simp [Rel.holds, Cmp.holds, Expr.eval]
  · simp [Rel.holds, Cmp.holds, Expr.eval]

/-! ## composition modes of `generate_constraint`: `join=and_ / or_` -/

/-- **A vector that a solver leaves unchanged satisfies its relation** (with the margin of the code; NO independence
hypothesis: this holds for systems whose lines feed one another, too). It is what turns the fixed-point
guarantees of `constraints.and_ / or_` (C17) into statements about the relations of the text. -/
theorem fixed_point_margin [DecidableEq C] (env : Env C K) (isPos : C → Bool) (d : C)
    (hpos : ∀ c, isPos c = true → 0 < env.ι c) (hrel : 0 ≤ env.rel)
    (r : Rel C) (code : Assign C) (x : List K)
    (hrec : recognise isPos d r code = true) (hi : r.i < x.length)
    (hne : r.cmp = .ne → 0 < env.tol) (hfix : code.exec env x = x) :
    r.margin env code.factor x := by
  obtain ⟨hcode, _, hp⟩ := recognise_spec hrec
  have hci : code.i = r.i := recognise_i hrec
  have hv : code.e.eval env x = x.getD r.i 0 := by
    have := exec_getD_self env code x (by rw [hci]; exact hi)
    rw [hfix, hci] at this; exact this.symm
  rw [hcode] at hv
  obtain ⟨i, cmp, rhs⟩ := r
  cases cmp <;> simp only [Rel.margin] <;> simp only [emitG, Expr.eval] at hv
  · exact hv.symm
  · rw [← hv]; exact pyMin_le_left _ _
  · rw [← hv]; exact le_pyMax_left _ _
  · rw [← hv]; exact pyMin_le_left _ _
  · rw [← hv]; exact le_pyMax_left _ _
  · intro hx
    have ht := tolf_pos env (hne rfl) hrel (rhs.eval env x)
    have hc : 0 < env.ι (code.scale d) := hpos _ (hp rfl)
    have hb : (x.getD i 0 == rhs.eval env x) = true := by simpa using hx
    rw [hb] at hv; simp only [b2r, if_true, one_mul] at hv
    have := mul_pos ht hc
    linarith

private theorem emitG_defined_exec (env : Env C K) (r : Rel C) (B : Expr C) (s : C) (a : List K)
    (hfr : r.rhs.mentions r.i = false) (hBc : B.mentions r.i = false)
    (hdef : (emitG r B s).defined env a = true) :
    (emitG r B s).defined env ((emitG r B s).exec env a) = true := by
  unfold Assign.defined at hdef ⊢
  simp only [Bool.and_eq_true, decide_eq_true_eq] at hdef ⊢
  refine ⟨by rw [exec_length]; exact hdef.1, ?_⟩
  have hd2 := hdef.2
  unfold Assign.exec
  rw [emitG_i]
  have e1 := defined_set_of_not_mentions env a r.i
  have e2 := eval_set_of_not_mentions env a r.i
  have hia : r.i < a.length := by have := hdef.1; rwa [emitG_i] at this
  obtain ⟨ri, cmp, rhs⟩ := r
  simp only at hfr hBc e1 e2 hia
  cases cmp <;>
    simp only [emitG, Expr.defined, Bool.and_eq_true, decide_eq_true_eq, List.length_set] at hd2 ⊢ <;>
    simp only [e1 _ rhs hfr, e1 _ B hBc, e2 _ rhs hfr, e2 _ B hBc] <;>
    first | exact hd2 | simp_all

/-- **Solver members are idempotent** (the hypothesis of C17's `and_success_fixed`): where an accepted statement
whose right-hand side and `!=` factor do not read `x_i` runs without raising, running it again raises nothing
and changes nothing. -/
theorem member_idem [DecidableEq C] (env : Env C K) (isPos : C → Bool) (d : C)
    (hpos : ∀ c, isPos c = true → 0 < env.ι c) (htol : 0 ≤ env.tol) (hrel : 0 ≤ env.rel)
    (rels : List (Rel C)) (codes : List (Assign C))
    (hrec : List.Forall₂ (fun r c => recognise isPos d r c = true) rels codes)
    (hfree : ∀ r ∈ rels, r.rhs.mentions r.i = false)
    (hB : List.Forall₂ (fun r (c : Assign C) => c.factor.mentions r.i = false) rels codes)
    (hne : ∀ r ∈ rels, r.cmp = .ne → 0 < env.tol) (i : Nat) :
    C17.Idem (member env codes i) := by
  intro a b hab
  unfold member at hab ⊢
  cases hc : codes[i]? with
  | none => rfl
  | some c =>
    rw [hc] at hab; simp only at hab ⊢
    split at hab
    · rename_i hdef
      simp only [Option.some.injEq] at hab
      subst hab
      -- the relation this statement was emitted for
      have hlt : i < codes.length := by
        rcases Nat.lt_or_ge i codes.length with h | h
        · exact h
        · rw [List.getElem?_eq_none h] at hc; exact absurd hc (by simp)
      have hlen := hrec.length_eq
      have hci : codes[i] = c := by rw [List.getElem?_eq_getElem hlt] at hc; exact Option.some.inj hc
      have hri : i < rels.length := by omega
      have hrc : recognise isPos d rels[i] c = true := by
        have := List.forall₂_iff_get.mp hrec |>.2 i hri hlt
        simpa [hci] using this
      have hBc : c.factor.mentions rels[i].i = false := by
        have := List.forall₂_iff_get.mp hB |>.2 i hri hlt
        simpa [hci] using this
      have hmem : rels[i] ∈ rels := List.getElem_mem hri
      have hfr := hfree _ hmem
      have hcode := (recognise_spec hrc).1
      have hcidx : c.i = rels[i].i := recognise_i hrc
      have hia : rels[i].i < a.length := by
        unfold Assign.defined at hdef
        simp only [Bool.and_eq_true, decide_eq_true_eq] at hdef
        rw [← hcidx]; exact hdef.1
      have hm := solver_enforces_margin env isPos d hpos htol hrel rels[i] c a hrc hia hfr hBc (hne _ hmem)
      have hid := solver_identity_partial env isPos d rels[i] c (c.exec env a) hrc hm
      have hdefb : c.defined env (c.exec env a) = true := by
        have := emitG_defined_exec env rels[i] c.factor (c.scale d) a hfr hBc (by rw [← hcode]; exact hdef)
        rw [← hcode] at this; exact this
      rw [if_pos hdefb, hid]
    · simp at hab

/-- **`join=and_`: a success is a solution of the whole text.** If `constraints.and_` over the solver members
reports success with an intact history window (`n ≤ links`: no random replacement inside it, in particular on
every run that draws nothing), every relation holds at the returned vector - for ANY accepted system whose
statements do not read their own target, whether or not the lines feed one another. -/
theorem join_and_all_hold [DecidableEq C] (env : Env C K) (isPos : C → Bool) (d : C)
    (hpos : ∀ c, isPos c = true → 0 < env.ι c) (htol : 0 ≤ env.tol) (hrel : 0 ≤ env.rel)
    (rels : List (Rel C)) (codes : List (Assign C)) (x : List K) (draws : List (List K))
    (hrec : List.Forall₂ (fun r c => recognise isPos d r c = true) rels codes)
    (hfree : ∀ r ∈ rels, r.rhs.mentions r.i = false)
    (hB : List.Forall₂ (fun r (c : Assign C) => c.factor.mentions r.i = false) rels codes)
    (hstrict : ∀ r ∈ rels, r.cmp.strict = true → 0 < env.tol)
    (y : List K) (t links : Nat) (st : Comb.Stats)
    (hr : joinAnd env codes x draws = (.success y t links, st)) (hlinks : codes.length ≤ links) :
    ∀ r ∈ rels, r.holds env y := by
  have hne : ∀ r ∈ rels, r.cmp = .ne → 0 < env.tol := fun r hr h => hstrict r hr (by rw [h]; rfl)
  have hfix := C17.and_success_fixed (member env codes) (fun d _ => d) codes.length (100 * codes.length) x draws
    y t links st (fun i _ => member_idem env isPos d hpos htol hrel rels codes hrec hfree hB hne i) hr hlinks
  intro r hrm
  obtain ⟨i, hi, rfl⟩ := List.getElem_of_mem hrm
  have hlen := hrec.length_eq
  have hlt : i < codes.length := by omega
  have hrc : recognise isPos d rels[i] codes[i] = true := List.forall₂_iff_get.mp hrec |>.2 i hi hlt
  have hm := hfix i hlt
  unfold member at hm
  rw [List.getElem?_eq_getElem hlt] at hm
  simp only at hm
  split at hm
  · rename_i hdef
    have hex : codes[i].exec env y = y := Option.some.inj hm
    have hiy : rels[i].i < y.length := by
      unfold Assign.defined at hdef
      simp only [Bool.and_eq_true, decide_eq_true_eq] at hdef
      rw [← recognise_i hrc]; exact hdef.1
    refine margin_holds env htol hrel rels[i] codes[i].factor y ?_ (hstrict _ hrm)
      (fixed_point_margin env isPos d hpos hrel rels[i] codes[i] y hrc hiy (hne _ hrm) hex)
    intro hc
    exact isBool_eval_nonneg env _ _ ((recognise_spec hrc).2.1 hc)
  · simp at hm

private theorem andFirst_fixed {X : Type} (c : Nat → X → Option X) (n : Nat) (x : X)
    (hfix : ∀ j, c (j % n) x = some x) :
    ∀ (k i : Nat) (h : List X) (links : Nat),
      Comb.andFirst c n k i h x false links = (List.replicate k x ++ h, x, false, links + k) := by
  intro k
  induction k with
  | zero => intro i h links; simp [Comb.andFirst]
  | succ k ih =>
    intro i h links
    unfold Comb.andFirst
    have hy : Comb.applyM (c (i % n)) x = (x, false) := by unfold Comb.applyM; rw [hfix i]
    simp only [hy, Bool.or_false, Bool.false_eq_true, if_false]
    rw [ih (i + 1) (x :: h) (links + 1)]
    have e1 : List.replicate k x ++ x :: h = List.replicate (k + 1) x ++ h := by
      rw [List.replicate_succ', List.append_assoc]; rfl
    rw [e1]
    have e2 : links + 1 + k = links + (k + 1) := by omega
    rw [e2]

/-- **`join=and_` is the identity on jointly feasible input.** If every statement runs without raising at `x` and
`x` satisfies every relation with its margin, `constraints.and_` over the solver members succeeds in its first pass
(`n` member calls, no random draw) and returns `x` itself. -/
theorem join_and_identity [DecidableEq C] (env : Env C K) (isPos : C → Bool) (d : C)
    (rels : List (Rel C)) (codes : List (Assign C)) (x : List K) (draws : List (List K))
    (hrec : List.Forall₂ (fun r c => recognise isPos d r c = true ∧ r.margin env c.factor x) rels codes)
    (hdef : ∀ c ∈ codes, c.defined env x = true) (hn : codes ≠ []) :
    joinAnd env codes x draws = (.success x (codes.length - 1) codes.length, { calls := codes.length }) := by
  have hn' : codes.length ≠ 0 := by simpa using hn
  have hfix : ∀ j, member env codes (j % codes.length) x = some x := by
    intro j
    have hlt : j % codes.length < codes.length := Nat.mod_lt _ (by omega)
    unfold member
    rw [List.getElem?_eq_getElem hlt]
    simp only
    rw [if_pos (hdef _ (List.getElem_mem hlt))]
    have hlen := hrec.length_eq
    have := List.forall₂_iff_get.mp hrec |>.2 (j % codes.length) (by omega) hlt
    have hid := solver_identity_partial env isPos d _ _ x this.1 this.2
    simp only [List.get_eq_getElem] at hid
    rw [hid]
  unfold joinAnd Comb.and_
  rw [if_neg hn']
  simp only [andFirst_fixed (member env codes) codes.length x hfix codes.length 0 [] 0]
  have hw : Comb.lastAllEq (codes.length - 1) (List.replicate codes.length x) x = true := by
    unfold Comb.lastAllEq
    simp only [List.all_eq_true]
    intro y hy
    have := List.mem_of_mem_take hy
    rw [List.eq_of_mem_replicate this]; simp
  simp [hw]

private theorem orFirst_fixed {X : Type} [BEq X] [LawfulBEq X] (c : Nat → X → Option X) (x : X) (i0 : Nat)
    (hfix : c i0 x = some x) :
    ∀ (k i : Nat) (h : List X) (calls : Nat), i ≤ i0 → i0 < i + k → (∀ j, i ≤ j → j ≤ i0 → c j x ≠ none) →
      ∃ h' calls', Comb.orFirst c x k i h false calls = (some x, h', calls') := by
  intro k
  induction k with
  | zero => intro i h calls h1 h2; omega
  | succ k ih =>
    intro i h calls h1 h2 hdef
    unfold Comb.orFirst
    cases hci : c i x with
    | none => exact absurd hci (hdef i (Nat.le_refl _) h1)
    | some y =>
      have hy : Comb.applyM (c i) x = (y, false) := by unfold Comb.applyM; rw [hci]
      simp only [hy, Bool.or_false, Bool.not_false, Bool.and_true]
      by_cases hyx : y = x
      · subst hyx; simp
      · have hne : (y == x) = false := by simpa using hyx
        simp only [hne, Bool.false_eq_true, if_false]
        have hlt : i < i0 := by
          rcases Nat.lt_or_ge i i0 with h | h
          · exact h
          · have : i = i0 := by omega
            subst this; rw [hfix] at hci; exact absurd (Option.some.inj hci).symm hyx
        exact ih (i + 1) (y :: h) (calls + 1) (by omega) (by omega) (fun j hj1 hj2 => hdef j (by omega) hj2)

/-- **`join=or_` is the identity where one line already holds.** If the input satisfies the relation of member `i0` with
its margin and members `0..i0` run without raising at `x`, `constraints.or_` over the solver members succeeds in its
first pass and returns `x` itself. -/
theorem join_or_identity [DecidableEq C] (env : Env C K) (isPos : C → Bool) (d : C)
    (codes : List (Assign C)) (x : List K) (draws : List Nat) (i0 : Nat) (hi0 : i0 < codes.length)
    (r : Rel C) (hrec : recognise isPos d r codes[i0] = true) (hm : r.margin env codes[i0].factor x)
    (hdef : ∀ j, j ≤ i0 → ∀ (hj : j < codes.length), codes[j].defined env x = true) :
    ∃ t l st, joinOr env codes x draws = (.success x t l, st) := by
  have hfix : member env codes i0 x = some x := by
    unfold member
    rw [List.getElem?_eq_getElem hi0]
    simp only
    rw [if_pos (hdef i0 (Nat.le_refl _) hi0), solver_identity_partial env isPos d r _ x hrec hm]
  have hnone : ∀ j, 0 ≤ j → j ≤ i0 → member env codes j x ≠ none := by
    intro j _ hj
    have hlt : j < codes.length := by omega
    unfold member
    rw [List.getElem?_eq_getElem hlt]
    simp only
    rw [if_pos (hdef j hj hlt)]; simp
  obtain ⟨h', calls', hof⟩ := orFirst_fixed (member env codes) x i0 hfix codes.length 0 [x] 0 (by omega) (by omega) hnone
  unfold joinOr Comb.or_
  rw [hof]
  exact ⟨0, 1, _, rfl⟩

/-- **`join=or_`: a success satisfies at least one line.** Every success of `constraints.or_` over the solver members
returns a vector at which at least one relation of the text holds (no independence hypothesis). -/
theorem join_or_some_holds [DecidableEq C] (env : Env C K) (isPos : C → Bool) (d : C)
    (hpos : ∀ c, isPos c = true → 0 < env.ι c) (htol : 0 ≤ env.tol) (hrel : 0 ≤ env.rel)
    (rels : List (Rel C)) (codes : List (Assign C)) (x : List K) (draws : List Nat)
    (hrec : List.Forall₂ (fun r c => recognise isPos d r c = true) rels codes)
    (hstrict : ∀ r ∈ rels, r.cmp.strict = true → 0 < env.tol)
    (y : List K) (t links : Nat) (st : Comb.Stats)
    (hr : joinOr env codes x draws = (.success y t links, st)) :
    ∃ r ∈ rels, r.holds env y := by
  obtain ⟨i, hlt, hm⟩ := C17.or_success_fixed (member env codes) id codes.length (100 * codes.length) x draws
    y t links st (fun h => by omega) hr
  have hlen := hrec.length_eq
  have hi : i < rels.length := by omega
  have hrc : recognise isPos d rels[i] codes[i] = true := List.forall₂_iff_get.mp hrec |>.2 i hi hlt
  have hrm : rels[i] ∈ rels := List.getElem_mem hi
  have hne : rels[i].cmp = .ne → 0 < env.tol := fun h => hstrict _ hrm (by rw [h]; rfl)
  unfold member at hm
  rw [List.getElem?_eq_getElem hlt] at hm
  simp only at hm
  split at hm
  · rename_i hdef
    have hex : codes[i].exec env y = y := Option.some.inj hm
    have hiy : rels[i].i < y.length := by
      unfold Assign.defined at hdef
      simp only [Bool.and_eq_true, decide_eq_true_eq] at hdef
      rw [← recognise_i hrc]; exact hdef.1
    refine ⟨rels[i], hrm, margin_holds env htol hrel rels[i] codes[i].factor y ?_ (hstrict _ hrm)
      (fixed_point_margin env isPos d hpos hrel rels[i] codes[i] y hrc hiy hne hex)⟩
    intro hc
    exact isBool_eval_nonneg env _ _ ((recognise_spec hrc).2.1 hc)
  · simp at hm

/-- **`join=or_` always succeeds on statements that do not read their own target.** If the first solver member runs
without raising at the input, `constraints.or_` over accepted, non-self-referential statements (fed or not) reports
success without a random draw, and at least one relation of the text holds at the vector it returns. -/
theorem join_or_total [DecidableEq C] (env : Env C K) (isPos : C → Bool) (d : C)
    (hpos : ∀ c, isPos c = true → 0 < env.ι c) (htol : 0 ≤ env.tol) (hrel : 0 ≤ env.rel)
    (rels : List (Rel C)) (codes : List (Assign C)) (x : List K) (draws : List Nat)
    (hrec : List.Forall₂ (fun r c => recognise isPos d r c = true) rels codes)
    (hfree : ∀ r ∈ rels, r.rhs.mentions r.i = false)
    (hB : List.Forall₂ (fun r (c : Assign C) => c.factor.mentions r.i = false) rels codes)
    (hstrict : ∀ r ∈ rels, r.cmp.strict = true → 0 < env.tol)
    (hn : 0 < codes.length) (hdef0 : codes[0].defined env x = true) :
    ∃ y t l st, joinOr env codes x draws = (.success y t l, st) ∧ st.draws = 0 ∧ ∃ r ∈ rels, r.holds env y := by
  have hne : ∀ r ∈ rels, r.cmp = .ne → 0 < env.tol := fun r hr h => hstrict r hr (by rw [h]; rfl)
  have h0 : member env codes 0 x = some (codes[0].exec env x) := by
    unfold member
    rw [List.getElem?_eq_getElem hn]
    simp only
    rw [if_pos hdef0]
  have hid := member_idem env isPos d hpos htol hrel rels codes hrec hfree hB hne 0 _ _ h0
  obtain ⟨y, t, l, st, hr, hd⟩ := Comb.or_succeeds (member env codes) id codes.length (100 * codes.length) x draws
    hn (by omega) _ h0 hid
  exact ⟨y, t, l, st, hr, hd, join_or_some_holds env isPos d hpos htol hrel rels codes x draws hrec hstrict y t l st hr⟩

/-! ## `join=and_` on independent systems: guaranteed success -/

/-- a statement for another variable preserves the margin of a relation that does not read that variable -/
private theorem margin_exec_other (env : Env C K) (r' : Rel C) (B' : Expr C) (c : Assign C) (z : List K)
    (hne : r'.i ≠ c.i) (hfree : r'.rhs.mentions c.i = false) (hB : B'.mentions c.i = false)
    (h : r'.margin env B' z) : r'.margin env B' (c.exec env z) := by
  have h1 : (c.exec env z).getD r'.i 0 = z.getD r'.i 0 := exec_getD_ne env c z _ hne
  have h2 : r'.rhs.eval env (c.exec env z) = r'.rhs.eval env z := eval_set_of_not_mentions env z c.i _ _ hfree
  have h3 : B'.eval env (c.exec env z) = B'.eval env z := eval_set_of_not_mentions env z c.i _ _ hB
  obtain ⟨i, cmp, rhs⟩ := r'
  cases cmp <;> simp only [Rel.margin] at h h1 h2 ⊢ <;> rw [h1, h2] <;> (try rw [h3]) <;> exact h

/-- the hypotheses "independent isolated-form system, compiled by the current tree, at the input `x`" -/
structure Indep [DecidableEq C] (env : Env C K) (isPos : C → Bool) (d : C) (rels : List (Rel C))
    (codes : List (Assign C)) (x : List K) : Prop where
  hrec : List.Forall₂ (fun r c => recognise isPos d r c = true) rels codes
  hnodup : (rels.map (·.i)).Nodup
  hfree : ∀ r ∈ rels, ∀ r' ∈ rels, r'.rhs.mentions r.i = false
  hB : ∀ c ∈ codes, ∀ r ∈ rels, c.factor.mentions r.i = false
  hlen : ∀ r ∈ rels, r.i < x.length
  hne : ∀ r ∈ rels, r.cmp = .ne → 0 < env.tol
  /-- no statement raises at a vector that has the input's non-target coordinates -/
  hdef : ∀ c ∈ codes, ∀ z : List K, z.length = x.length →
    (∀ j, (∀ r ∈ rels, r.i ≠ j) → z.getD j 0 = x.getD j 0) → c.defined env z = true

section
variable [DecidableEq C] {env : Env C K} {isPos : C → Bool} {d : C} {rels : List (Rel C)} {codes : List (Assign C)}
  {x : List K}

/-- first-pass states of `and_` over the solver members -/
private abbrev S (env : Env C K) (codes : List (Assign C)) (x : List K) (k : Nat) : List K :=
  Comb.seqF (member env codes) codes.length x k

private theorem pair_at (h : Indep env isPos d rels codes x) (m : Nat) (hm : m < codes.length) :
    ∃ (hm' : m < rels.length), recognise isPos d rels[m] codes[m] = true ∧ codes[m].i = rels[m].i ∧
      rels[m] ∈ rels ∧ codes[m] ∈ codes := by
  have hl := h.hrec.length_eq
  have hm' : m < rels.length := by omega
  have hr : recognise isPos d rels[m] codes[m] = true := List.forall₂_iff_get.mp h.hrec |>.2 m hm' hm
  exact ⟨hm', hr, recognise_i hr, List.getElem_mem hm', List.getElem_mem hm⟩

private theorem targets_ne (h : Indep env isPos d rels codes x) (m k : Nat) (hm : m < rels.length) (hk : k < rels.length)
    (hmk : m ≠ k) : rels[m].i ≠ rels[k].i := by
  intro heq
  have h1 : (rels.map (·.i))[m]'(by simpa using hm) = (rels.map (·.i))[k]'(by simpa using hk) := by simpa using heq
  exact hmk ((List.Nodup.getElem_inj_iff h.hnodup).mp h1)

private theorem step (h : Indep env isPos d rels codes x) (k : Nat) (hk : k < codes.length)
    (hl : (S env codes x k).length = x.length)
    (hfr : ∀ j, (∀ r ∈ rels, r.i ≠ j) → (S env codes x k).getD j 0 = x.getD j 0) :
    S env codes x (k + 1) = codes[k].exec env (S env codes x k) ∧
      (Comb.applyM (member env codes (k % codes.length)) (S env codes x k)).2 = false := by
  have hmod : k % codes.length = k := Nat.mod_eq_of_lt hk
  have hmem : member env codes k (S env codes x k) = some (codes[k].exec env (S env codes x k)) := by
    unfold member
    rw [List.getElem?_eq_getElem hk]
    simp only
    rw [if_pos (h.hdef _ (List.getElem_mem hk) _ hl hfr)]
  constructor
  · show (Comb.applyM (member env codes (k % codes.length)) (S env codes x k)).1 = _
    rw [hmod]; unfold Comb.applyM; rw [hmem]
  · rw [hmod]; unfold Comb.applyM; rw [hmem]

private theorem inv (h : Indep env isPos d rels codes x) (hpos : ∀ c, isPos c = true → 0 < env.ι c)
    (htol : 0 ≤ env.tol) (hrel : 0 ≤ env.rel) :
    ∀ k, k ≤ codes.length →
      (S env codes x k).length = x.length ∧
      (∀ j, (∀ r ∈ rels, r.i ≠ j) → (S env codes x k).getD j 0 = x.getD j 0) ∧
      (∀ m (hm : m < k) (hmc : m < codes.length) (hmr : m < rels.length),
        rels[m].margin env codes[m].factor (S env codes x k)) := by
  intro k
  induction k with
  | zero => intro _; exact ⟨rfl, fun _ _ => rfl, fun m hm => by omega⟩
  | succ k ih =>
    intro hk
    obtain ⟨hl, hfr, hmg⟩ := ih (by omega)
    have hkc : k < codes.length := by omega
    obtain ⟨hs, _⟩ := step h k hkc hl hfr
    obtain ⟨hkr, hrc, hci, hrmem, hcmem⟩ := pair_at h k hkc
    rw [hs]
    refine ⟨by rw [exec_length]; exact hl, ?_, ?_⟩
    · intro j hj
      rw [exec_getD_ne env _ _ j (by rw [hci]; exact (hj _ hrmem).symm)]
      exact hfr j hj
    · intro m hm hmc hmr
      by_cases hmk : m = k
      · subst hmk
        exact solver_enforces_margin env isPos d hpos htol hrel rels[m] codes[m] _ hrc
          (by rw [hl]; exact h.hlen _ hrmem) (h.hfree _ hrmem _ hrmem) (h.hB _ hcmem _ hrmem) (h.hne _ hrmem)
      · have hmr' : rels[m] ∈ rels := List.getElem_mem hmr
        have hmc' : codes[m] ∈ codes := List.getElem_mem hmc
        refine margin_exec_other env rels[m] codes[m].factor codes[k] _ ?_ ?_ ?_ (hmg m (by omega) hmc hmr)
        · rw [hci]; exact targets_ne h m k hmr hkr hmk
        · rw [hci]; exact h.hfree _ hrmem _ hmr'
        · rw [hci]; exact h.hB _ hmc' _ hrmem

/-- coordinates that are not written between two first-pass states agree -/
private theorem coord (h : Indep env isPos d rels codes x) (hpos : ∀ c, isPos c = true → 0 < env.ι c)
    (htol : 0 ≤ env.tol) (hrel : 0 ≤ env.rel) (k : Nat) :
    ∀ j, k ≤ j → j ≤ codes.length → ∀ m (hmr : m < rels.length), (m < k ∨ j ≤ m) →
      (S env codes x j).getD rels[m].i 0 = (S env codes x k).getD rels[m].i 0 := by
  intro j hkj
  induction j, hkj using Nat.le_induction with
  | base => intro _ m hmr _; rfl
  | succ j hkj ih =>
    intro hj m hmr hm
    have hjc : j < codes.length := by omega
    obtain ⟨hl, hfr, _⟩ := inv h hpos htol hrel j (by omega)
    obtain ⟨hs, _⟩ := step h j hjc hl hfr
    obtain ⟨hjr, _, hci, _, _⟩ := pair_at h j hjc
    rw [hs, exec_getD_ne env _ _ _ (by rw [hci]; exact targets_ne h m j hmr hjr (by omega))]
    exact ih (by omega) m hmr (by omega)

/-- **`join=and_` on an independent system always succeeds, without a random draw, at a vector satisfying ALL
relations.** (Completes `join_and_all_hold`: the success it assumes is guaranteed for systems whose left-hand variables
are distinct and feed no right-hand side, provided no statement raises.) -/
theorem join_and_independent (h : Indep env isPos d rels codes x) (hpos : ∀ c, isPos c = true → 0 < env.ι c)
    (htol : 0 ≤ env.tol) (hrel : 0 ≤ env.rel) (hstrict : ∀ r ∈ rels, r.cmp.strict = true → 0 < env.tol)
    (hn : codes ≠ []) (draws : List (List K)) :
    ∃ y t l st, joinAnd env codes x draws = (.success y t l, st) ∧ st.draws = 0 ∧ ∀ r ∈ rels, r.holds env y := by
  have hn' : 0 < codes.length := List.length_pos_iff.mpr hn
  have hleq := h.hrec.length_eq
  obtain ⟨hlN, hfrN, hmgN⟩ := inv h hpos htol hrel codes.length (Nat.le_refl _)
  have hok : ∀ k, k < codes.length →
      (Comb.applyM (member env codes (k % codes.length)) (S env codes x k)).2 = false := by
    intro k hk
    obtain ⟨hl, hfr, _⟩ := inv h hpos htol hrel k (by omega)
    exact (step h k hk hl hfr).2
  have hfix : ∀ j, member env codes (j % codes.length) (S env codes x codes.length) = some (S env codes x codes.length) := by
    intro j
    have hlt : j % codes.length < codes.length := Nat.mod_lt _ hn'
    obtain ⟨hjr, hrc, _, _, hcmem⟩ := pair_at h _ hlt
    unfold member
    rw [List.getElem?_eq_getElem hlt]
    simp only
    rw [if_pos (h.hdef _ hcmem _ hlN hfrN),
      solver_identity_partial env isPos d _ _ _ hrc (hmgN _ hlt hlt hjr)]
  have hmono : ∀ k, 1 ≤ k → k ≤ codes.length → S env codes x k = S env codes x codes.length →
      ∀ k', k ≤ k' → k' ≤ codes.length → S env codes x k' = S env codes x codes.length := by
    intro k _ hk heq k' hkk'
    induction k', hkk' using Nat.le_induction with
    | base => intro _; exact heq
    | succ k' hkk' ih =>
      intro hk'
      have hk'c : k' < codes.length := by omega
      have ihk := ih (by omega)
      obtain ⟨hl, hfr, _⟩ := inv h hpos htol hrel k' (by omega)
      obtain ⟨hs, _⟩ := step h k' hk'c hl hfr
      obtain ⟨hk'r, _, hci, hrmem, _⟩ := pair_at h k' hk'c
      -- the coordinate written at step k' is not written again, and the state before it already equals the final one
      have hc := coord h hpos htol hrel (k' + 1) codes.length (by omega) (Nat.le_refl _) k' hk'r (Or.inl (by omega))
      have hself : (S env codes x (k' + 1)).getD rels[k'].i 0 = codes[k'].e.eval env (S env codes x k') := by
        rw [hs]
        have := exec_getD_self env codes[k'] (S env codes x k') (by rw [hci, hl]; exact h.hlen _ hrmem)
        rw [hci] at this; exact this
      have hv : codes[k'].e.eval env (S env codes x k') = (S env codes x k').getD rels[k'].i 0 := by
        rw [← hself, ← hc, ihk]
      rw [hs]
      unfold Assign.exec
      rw [hv, hci, set_getD_self]
      exact ihk
  obtain ⟨t, l, st, hr, hd⟩ := Comb.and_succeeds (member env codes) (fun d _ => d) codes.length (100 * codes.length) x draws
    hn' (by omega) hok hfix hmono
  refine ⟨_, t, l, st, hr, hd, ?_⟩
  intro r hrm
  obtain ⟨m, hm, rfl⟩ := List.getElem_of_mem hrm
  have hmc : m < codes.length := by omega
  obtain ⟨_, hrc, _, _, _⟩ := pair_at h m hmc
  refine margin_holds env htol hrel rels[m] codes[m].factor _ ?_ (hstrict _ hrm) (hmgN m hmc hmc hm)
  intro hc
  exact isBool_eval_nonneg env _ _ ((recognise_spec hrc).2.1 hc)

end

/-! ## argument shapes of `generate_constraint`: nested solver collections, forms of `ctype` (Model/EmittedShape.lean) -/

/-- **Every solver is compiled in, whatever the nesting.** For `ctype=None`, one coupler, or a (nested) list whose
flattening has an entry for every solver, the statements `generate_constraint` composes are EXACTLY the flattening of the
`conditions` argument - a flat tuple, the tuple of tuples `generate_solvers` returns for a tuple of texts, a one-element
wrapper, any hand-made nesting: no relation is left out and none is added. (The coupler list is sized by the FLATTENED
length, symbolic.py l.1503-1510; sizing it by the outer length loses the tail in the `zip` of l.1517.) -/
theorem gc_shape_compiles_every_solver {α : Type} (conds : Nest α) (ct : CArg)
    (hcov : ct.covers (Nest.flatL conds.top).length) :
    (gcItems conds ct).map (·.2) = Nest.flatL conds.top := gcItems_snd conds ct hcov

private theorem orderFrom_all_inner {α : Type} : ∀ (L L0 : List α),
    orderFrom L0 ((List.replicate L.length CType.inner).zip L) = L0 ++ L
  | [], L0 => by simp [orderFrom]
  | a :: L, L0 => by
    rw [List.length_cons, List.replicate_succ, List.zip_cons_cons, orderFrom_cons]
    simp only
    rw [orderFrom_all_inner L (L0 ++ [a])]; simp

/-- **The nesting is irrelevant.** With the default couplers, `generate_constraint` of ANY nesting of the solvers is `chain`
(the default inner composition) of their flattening. -/
theorem gc_shape_default_eq_chain (env : Env C K) (conds : Nest (Assign C)) (x : List K) :
    gcShaped env conds .none x = chain env (Nest.flatL conds.top) x := by
  unfold gcShaped
  rw [(compose_eq_chain_order env _ x).1, order_eq]
  unfold gcItems ctypeList
  rw [orderFrom_all_inner]; rfl

/-- **Independent systems, any nesting, any couplers (property clause 4 for every shape of the arguments).** Accepted
statements for relations with pairwise distinct left-hand variables, none of which occurs in a right-hand side, handed to
`generate_constraint` in ANY nesting with `ctype` = None, one coupler, or a (nested) list covering the solvers: the output
satisfies ALL relations at once. -/
theorem gc_shape_independent [DecidableEq C] (env : Env C K) (isPos : C → Bool) (d : C)
    (hpos : ∀ c, isPos c = true → 0 < env.ι c) (htol : 0 ≤ env.tol) (hrel : 0 ≤ env.rel)
    (items : Nest (Rel C × Assign C)) (ct : CArg) (x : List K)
    (hcov : ct.covers (Nest.flatL items.top).length)
    (hrec : ∀ t ∈ Nest.flatL items.top, recognise isPos d t.1 t.2 = true)
    (hlen : ∀ t ∈ Nest.flatL items.top, t.1.i < x.length)
    (hnodup : ((Nest.flatL items.top).map (·.1.i)).Nodup)
    (hfree : ∀ t ∈ Nest.flatL items.top, ∀ t' ∈ Nest.flatL items.top, t'.1.rhs.mentions t.1.i = false)
    (hB : ∀ t ∈ Nest.flatL items.top, ∀ t' ∈ Nest.flatL items.top, t.2.factor.mentions t'.1.i = false)
    (hstrict : ∀ t ∈ Nest.flatL items.top, t.1.cmp.strict = true → 0 < env.tol) :
    ∀ t ∈ Nest.flatL items.top, t.1.holds env (gcShaped env (Nest.map (·.2) items) ct x) := by
  have hsnd := gcItems_snd items ct hcov
  have hmem : ∀ w ∈ gcItems items ct, w.2 ∈ Nest.flatL items.top := gcItems_snd_mem items ct
  unfold gcShaped
  rw [gcItems_map]
  have key := compose_independent env isPos d hpos htol hrel (gcItems items ct) x
    (fun w hw => hrec _ (hmem w hw)) (fun w hw => hlen _ (hmem w hw))
    (by have : (gcItems items ct).map (·.2.1.i) = ((gcItems items ct).map (·.2)).map (·.1.i) := by
          rw [List.map_map]; rfl
        rw [this, hsnd]; exact hnodup)
    (fun w hw w' hw' => hfree _ (hmem w hw) _ (hmem w' hw'))
    (fun w hw w' hw' => hB _ (hmem w hw) _ (hmem w' hw'))
    (fun w hw => hstrict _ (hmem w hw))
  intro t ht
  rw [← hsnd] at ht
  obtain ⟨w, hw, rfl⟩ := List.mem_map.mp ht
  exact key w hw

/-- **Frame, any nesting, any `ctype`.** Coordinates that are no statement's target are untouched. -/
theorem gc_shape_frame (env : Env C K) (conds : Nest (Assign C)) (ct : CArg) (x : List K) :
    (gcShaped env conds ct x).length = x.length ∧
    ∀ j, (∀ c ∈ Nest.flatL conds.top, c.i ≠ j) → (gcShaped env conds ct x).getD j 0 = x.getD j 0 := by
  unfold gcShaped
  refine ⟨(compose_frame env _ x).1, fun j hj => (compose_frame env _ x).2 j ?_⟩
  intro w hw
  exact hj w.2 (gcItems_snd_mem conds ct w hw)

/-- **Identity, any nesting, any `ctype`.** If the input satisfies every relation with its margin, the composed function
returns the input unchanged. -/
theorem gc_shape_identity [DecidableEq C] (env : Env C K) (isPos : C → Bool) (d : C)
    (items : Nest (Rel C × Assign C)) (ct : CArg) (x : List K)
    (h : ∀ t ∈ Nest.flatL items.top, recognise isPos d t.1 t.2 = true ∧ t.1.margin env t.2.factor x) :
    gcShaped env (Nest.map (·.2) items) ct x = x := by
  unfold gcShaped
  rw [gcItems_map]
  exact compose_identity env isPos d (gcItems items ct) x (fun w hw => h _ (gcItems_snd_mem items ct w hw))

/-- **A `ctype` list as long as the OUTER sequence of nested solvers loses relations (closed witness; the code as it is).**
The solvers of `x0 = 1 ; x1 = 2` and of `x2 = 3`, nested as `generate_solvers` returns them for the two texts, with
`ctype=[inner, outer]` - "a list of the same length as conditions" read literally: both arguments are flattened, `zip` pairs
two couplers with the first two of three solvers, and `x2 = 3` is not enforced at `[0, 0, 0]` (no error is raised). -/
theorem gc_shape_short_ctype_drops :
    ∃ (env : Env Nat ℚ) (r2 : Rel Nat) (c0 c1 c2 : Assign Nat),
      recognise (fun c => decide (0 < c)) 1 r2 c2 = true ∧
      (gcItems (.node [.node [.leaf c0, .leaf c1], .node [.leaf c2]]) (.many [.leaf .inner, .leaf .outer])).map (·.2)
        = [c0, c1] ∧
      gcShaped env (.node [.node [.leaf c0, .leaf c1], .node [.leaf c2]]) (.many [.leaf .inner, .leaf .outer]) [0, 0, 0]
        = [1, 2, 0] ∧
      ¬ r2.holds env [1, 2, 0] := by
  refine ⟨{ ι := fun n => (n : ℚ), tol := 0, rel := 0 }, ⟨2, .eq, .num 3⟩, ⟨0, .num 1⟩, ⟨1, .num 2⟩, ⟨2, .num 3⟩,
    by decide, ?_, ?_, ?_⟩
  · simp [gcItems, ctypeList, Nest.top, Nest.flatL, Nest.flat]
  · simp [gcShaped, gcItems, ctypeList, Nest.top, Nest.flatL, Nest.flat, compose]
    simp [Emitted.step, Assign.exec, Expr.eval]
  · simp [Rel.holds, Cmp.holds, Expr.eval]

/-! ### `join=` over groups: every top-level item of `conditions` is one member -/

/-- **A group that leaves a vector unchanged satisfies all its relations there.** For accepted statements with pairwise
distinct left-hand variables composed through ANY couplers (one member of a joined constraint): if the composition returns
`y` itself, every relation of the group holds at `y` with its margin - whether or not the lines feed one another. -/
theorem group_fixed_all_hold [DecidableEq C] (env : Env C K) (isPos : C → Bool) (d : C)
    (hpos : ∀ c, isPos c = true → 0 < env.ι c) (hrel : 0 ≤ env.rel)
    (g : List (CType × Rel C × Assign C)) (y : List K)
    (hrec : ∀ t ∈ g, recognise isPos d t.2.1 t.2.2 = true)
    (hnodup : (g.map (·.2.1.i)).Nodup)
    (hlen : ∀ t ∈ g, t.2.1.i < y.length)
    (hne : ∀ t ∈ g, t.2.1.cmp = .ne → 0 < env.tol)
    (hfix : compose env (g.map fun t => (t.1, t.2.2)) y = y) :
    ∀ t ∈ g, t.2.1.margin env t.2.2.factor y := by
  have hnd : ((g.map fun t => (t.1, t.2.2)).map (·.2.i)).Nodup := by
    rw [List.map_map]
    have : g.map ((fun w : CType × Assign C => w.2.i) ∘ fun t => (t.1, t.2.2)) = g.map (·.2.1.i) :=
      List.map_congr_left (fun t ht => recognise_i (hrec t ht))
    rw [this]; exact hnodup
  have hall := compose_fixed_all_fixed env _ y hnd hfix
  intro t ht
  have hex : t.2.2.exec env y = y := hall (t.1, t.2.2) (List.mem_map.mpr ⟨t, ht, rfl⟩)
  exact fixed_point_margin env isPos d hpos hrel t.2.1 t.2.2 y (hrec t ht) (hlen t ht) (hne t ht) hex

/-- **`join=or_` over groups: a success satisfies ALL relations of at least one member.** Members are the top-level items
of `conditions` (single solvers or whole groups, each composed through its own couplers); the lines of a group have
pairwise distinct left-hand variables. No independence hypothesis. -/
theorem join_groups_or_member_holds [DecidableEq C] (env : Env C K) (isPos : C → Bool) (d : C)
    (hpos : ∀ c, isPos c = true → 0 < env.ι c) (htol : 0 ≤ env.tol) (hrel : 0 ≤ env.rel)
    (groups : List (List (CType × Rel C × Assign C))) (x : List K) (draws : List Nat)
    (hrec : ∀ g ∈ groups, ∀ t ∈ g, recognise isPos d t.2.1 t.2.2 = true)
    (hnodup : ∀ g ∈ groups, (g.map (·.2.1.i)).Nodup)
    (hstrict : ∀ g ∈ groups, ∀ t ∈ g, t.2.1.cmp.strict = true → 0 < env.tol)
    (y : List K) (t links : Nat) (st : Comb.Stats)
    (hr : joinOrG env (groups.map fun g => g.map fun t => (t.1, t.2.2)) x draws = (.success y t links, st)) :
    ∃ g ∈ groups, ∀ t ∈ g, t.2.1.holds env y := by
  unfold joinOrG at hr
  obtain ⟨i, hlt, hm⟩ := C17.or_success_fixed _ id _ _ x draws y t links st (fun h => by omega) hr
  rw [List.length_map] at hlt
  unfold gmember at hm
  rw [List.getElem?_map, List.getElem?_eq_getElem hlt] at hm
  simp only [Option.map_some] at hm
  have hg : groups[i] ∈ groups := List.getElem_mem hlt
  have hfix : compose env (groups[i].map fun t => (t.1, t.2.2)) y = y := (compose_opt_eq env _ y y hm).symm
  have hlen : ∀ t ∈ groups[i], t.2.1.i < y.length := by
    intro t ht
    have := composeOpt_target_lt env _ y y hm (t.1, t.2.2) (List.mem_map.mpr ⟨t, ht, rfl⟩)
    rw [← recognise_i (hrec _ hg t ht)]; exact this
  have hne : ∀ t ∈ groups[i], t.2.1.cmp = .ne → 0 < env.tol := fun t ht h => hstrict _ hg t ht (by rw [h]; rfl)
  refine ⟨groups[i], hg, fun t ht => ?_⟩
  refine margin_holds env htol hrel t.2.1 t.2.2.factor y ?_ (hstrict _ hg t ht)
    (group_fixed_all_hold env isPos d hpos hrel groups[i] y (hrec _ hg) (hnodup _ hg) hlen hne hfix t ht)
  intro hc
  exact isBool_eval_nonneg env _ _ ((recognise_spec (hrec _ hg t ht)).2.1 hc)

/-- **`join=and_` over groups: a success is a solution of the whole text**, for idempotent members (a single solver that
does not read its own target is: `member_idem`; a group is when running it twice equals running it once, e.g. when its
lines do not feed one another) and an intact history window. For a member that is NOT idempotent - a group whose lines
feed one another - `constraints.and_` may report success at a vector that the member would still move. -/
theorem join_groups_and_all_hold [DecidableEq C] (env : Env C K) (isPos : C → Bool) (d : C)
    (hpos : ∀ c, isPos c = true → 0 < env.ι c) (htol : 0 ≤ env.tol) (hrel : 0 ≤ env.rel)
    (groups : List (List (CType × Rel C × Assign C))) (x : List K) (draws : List (List K))
    (hrec : ∀ g ∈ groups, ∀ t ∈ g, recognise isPos d t.2.1 t.2.2 = true)
    (hnodup : ∀ g ∈ groups, (g.map (·.2.1.i)).Nodup)
    (hstrict : ∀ g ∈ groups, ∀ t ∈ g, t.2.1.cmp.strict = true → 0 < env.tol)
    (hidem : ∀ i, i < groups.length → C17.Idem (gmember env (groups.map fun g => g.map fun t => (t.1, t.2.2)) i))
    (y : List K) (t links : Nat) (st : Comb.Stats)
    (hr : joinAndG env (groups.map fun g => g.map fun t => (t.1, t.2.2)) x draws = (.success y t links, st))
    (hlinks : groups.length ≤ links) :
    ∀ g ∈ groups, ∀ t ∈ g, t.2.1.holds env y := by
  unfold joinAndG at hr
  have hfixall := C17.and_success_fixed _ (fun d _ => d) _ _ x draws
    y t links st (fun i hi => hidem i (by simpa using hi)) hr (by simpa using hlinks)
  intro g hg
  obtain ⟨i, hlt, rfl⟩ := List.getElem_of_mem hg
  have hm := hfixall i (by simpa using hlt)
  unfold gmember at hm
  rw [List.getElem?_map, List.getElem?_eq_getElem hlt] at hm
  simp only [Option.map_some] at hm
  have hfix : compose env (groups[i].map fun t => (t.1, t.2.2)) y = y := (compose_opt_eq env _ y y hm).symm
  have hlen : ∀ t ∈ groups[i], t.2.1.i < y.length := by
    intro t ht
    have := composeOpt_target_lt env _ y y hm (t.1, t.2.2) (List.mem_map.mpr ⟨t, ht, rfl⟩)
    rw [← recognise_i (hrec _ hg t ht)]; exact this
  have hne : ∀ t ∈ groups[i], t.2.1.cmp = .ne → 0 < env.tol := fun t ht h => hstrict _ hg t ht (by rw [h]; rfl)
  intro t ht
  refine margin_holds env htol hrel t.2.1 t.2.2.factor y ?_ (hstrict _ hg t ht)
    (group_fixed_all_hold env isPos d hpos hrel groups[i] y (hrec _ hg) (hnodup _ hg) hlen hne hfix t ht)
  intro hc
  exact isBool_eval_nonneg env _ _ ((recognise_spec (hrec _ hg t ht)).2.1 hc)

/-! ### groups whose lines do not feed one another are idempotent members -/

/-- **Independent systems, with margins.** The output of the default composition satisfies every relation with the margin\nthe code works with (what makes a second run the identity). -/
theorem chain_independent_margin [DecidableEq C] (env : Env C K) (isPos : C → Bool) (d : C)
    (hpos : ∀ c, isPos c = true → 0 < env.ι c) (htol : 0 ≤ env.tol) (hrel : 0 ≤ env.rel)
    (rels : List (Rel C)) (codes : List (Assign C)) (x : List K)
    (hrec : List.Forall₂ (fun r c => recognise isPos d r c = true) rels codes)
    (hlen : ∀ r ∈ rels, r.i < x.length)
    (hnodup : (rels.map (·.i)).Nodup)
    (hfree : ∀ r ∈ rels, ∀ r' ∈ rels, r'.rhs.mentions r.i = false)
    (hB : ∀ c ∈ codes, ∀ r ∈ rels, c.factor.mentions r.i = false)
    (hne : ∀ r ∈ rels, r.cmp = .ne → 0 < env.tol) :
    List.Forall₂ (fun r c => recognise isPos d r c = true ∧ r.margin env c.factor (chain env codes x)) rels codes := by
  induction hrec with
  | nil => exact List.Forall₂.nil
  | @cons r c rs cs hrc hrest ih =>
    have ih' := ih (fun r hr => hlen r (by simp [hr]))
      (by simp only [List.map_cons, List.nodup_cons] at hnodup; exact hnodup.2)
      (fun r hr r' hr' => hfree r (by simp [hr]) r' (by simp [hr']))
      (fun c hc r hr => hB c (by simp [hc]) r (by simp [hr]))
      (fun r hr => hne r (by simp [hr]))
    have hci : c.i = r.i := recognise_i hrc
    rw [chain_cons]
    refine List.Forall₂.cons ⟨hrc, ?_⟩ ?_
    · exact solver_enforces_margin env isPos d hpos htol hrel r c _ hrc
        (by rw [chain_length]; exact hlen r (by simp))
        (hfree r (by simp) r (by simp)) (hB c (by simp) r (by simp)) (hne r (by simp))
    · -- the other relations keep their margins: `c` writes a variable none of them reads
      have key : ∀ (rs' : List (Rel C)) (cs' : List (Assign C)),
          List.Forall₂ (fun r c => recognise isPos d r c = true ∧ r.margin env c.factor (chain env cs x)) rs' cs' →
          (∀ r' ∈ rs', r'.i ≠ r.i ∧ r'.rhs.mentions r.i = false) → (∀ c' ∈ cs', c'.factor.mentions r.i = false) →
          List.Forall₂ (fun r' c' => recognise isPos d r' c' = true ∧ r'.margin env c'.factor (c.exec env (chain env cs x))) rs' cs' := by
        intro rs' cs' h
        induction h with
        | nil => intro _ _; exact List.Forall₂.nil
        | @cons r' c' rs'' cs'' h1 _ ih2 =>
          intro ha hb
          refine List.Forall₂.cons ⟨h1.1, ?_⟩ (ih2 (fun q hq => ha q (by simp [hq])) (fun q hq => hb q (by simp [hq])))
          exact margin_exec_other env r' c'.factor c _ (by rw [hci]; exact (ha r' (by simp)).1)
            (by rw [hci]; exact (ha r' (by simp)).2) (by rw [hci]; exact hb c' (by simp)) h1.2
      refine key rs cs ih' ?_ ?_
      · intro r' hr'
        simp only [List.map_cons, List.nodup_cons, List.mem_map, not_exists, not_and] at hnodup
        exact ⟨fun h => hnodup.1 r' hr' h, hfree r (by simp) r' (by simp [hr'])⟩
      · intro c' hc'; exact hB c' (by simp [hc']) r (by simp)


private theorem pairs_of_forall2 {α β : Type} (P : α → β → Prop) :
    ∀ l : List (α × β), List.Forall₂ P (l.map (·.1)) (l.map (·.2)) → ∀ p ∈ l, P p.1 p.2
  | [], _ => by intro p hp; simp at hp
  | q :: l, h => by
    simp only [List.map_cons, List.forall₂_cons] at h
    intro p hp
    rcases List.mem_cons.mp hp with rfl | hm
    · exact h.1
    · exact pairs_of_forall2 P l h.2 p hm

/-- **Independent systems, every order, with margins.** -/
theorem compose_independent_margin [DecidableEq C] (env : Env C K) (isPos : C → Bool) (d : C)
    (hpos : ∀ c, isPos c = true → 0 < env.ι c) (htol : 0 ≤ env.tol) (hrel : 0 ≤ env.rel)
    (items : List (CType × Rel C × Assign C)) (x : List K)
    (hrec : ∀ t ∈ items, recognise isPos d t.2.1 t.2.2 = true)
    (hlen : ∀ t ∈ items, t.2.1.i < x.length)
    (hnodup : (items.map (·.2.1.i)).Nodup)
    (hfree : ∀ t ∈ items, ∀ t' ∈ items, t'.2.1.rhs.mentions t.2.1.i = false)
    (hB : ∀ t ∈ items, ∀ t' ∈ items, t.2.2.factor.mentions t'.2.1.i = false)
    (hne : ∀ t ∈ items, t.2.1.cmp = .ne → 0 < env.tol) :
    ∀ t ∈ items, t.2.1.margin env t.2.2.factor (compose env (items.map fun t => (t.1, t.2.2)) x) := by
  have hperm : (order items).Perm (items.map (·.2)) := order_perm items
  have hmem : ∀ p, p ∈ order items ↔ ∃ t ∈ items, t.2 = p := by
    intro p; rw [hperm.mem_iff]; simp
  have hcodes : order (items.map fun t => (t.1, t.2.2)) = (order items).map (·.2) :=
    order_map (fun q : Rel C × Assign C => q.2) items
  rw [(compose_eq_chain_order env _ x).1, hcodes]
  have key := chain_independent_margin env isPos d hpos htol hrel ((order items).map (·.1)) ((order items).map (·.2)) x
    (by
      have : ∀ l : List (Rel C × Assign C), (∀ p ∈ l, recognise isPos d p.1 p.2 = true) →
          List.Forall₂ (fun r c => recognise isPos d r c = true) (l.map (·.1)) (l.map (·.2)) := by
        intro l; induction l with
        | nil => intro _; exact List.Forall₂.nil
        | cons q l ih => intro h; exact List.Forall₂.cons (h q (by simp)) (ih (fun p hp => h p (by simp [hp])))
      exact this _ (fun p hp => by obtain ⟨t, ht, rfl⟩ := (hmem p).mp hp; exact hrec t ht))
    (by intro r hr; simp only [List.mem_map] at hr; obtain ⟨p, hp, rfl⟩ := hr
        obtain ⟨t, ht, rfl⟩ := (hmem p).mp hp; exact hlen t ht)
    (by have h1 : ((order items).map (·.1)).Perm ((items.map (·.2)).map (·.1)) := hperm.map _
        have h2 : (((order items).map (·.1)).map (·.i)).Perm (items.map (·.2.1.i)) := by
          have := h1.map (fun r : Rel C => r.i)
          simpa [List.map_map, Function.comp_def] using this
        exact h2.nodup_iff.mpr hnodup)
    (by intro r hr r' hr'; simp only [List.mem_map] at hr hr'
        obtain ⟨p, hp, rfl⟩ := hr; obtain ⟨p', hp', rfl⟩ := hr'
        obtain ⟨t, ht, rfl⟩ := (hmem p).mp hp; obtain ⟨t', ht', rfl⟩ := (hmem p').mp hp'
        exact hfree t ht t' ht')
    (by intro c hc r hr; simp only [List.mem_map] at hc hr
        obtain ⟨p, hp, rfl⟩ := hc; obtain ⟨p', hp', rfl⟩ := hr
        obtain ⟨t, ht, rfl⟩ := (hmem p).mp hp; obtain ⟨t', ht', rfl⟩ := (hmem p').mp hp'
        exact hB t ht t' ht')
    (by intro r hr; simp only [List.mem_map] at hr; obtain ⟨p, hp, rfl⟩ := hr
        obtain ⟨t, ht, rfl⟩ := (hmem p).mp hp; exact hne t ht)
  intro t ht
  exact (pairs_of_forall2 _ (order items) key t.2 ((hmem t.2).mpr ⟨t, ht, rfl⟩)).2

/-- **A group of independent lines is idempotent**: running it on its own output changes nothing. -/
theorem compose_idempotent [DecidableEq C] (env : Env C K) (isPos : C → Bool) (d : C)
    (hpos : ∀ c, isPos c = true → 0 < env.ι c) (htol : 0 ≤ env.tol) (hrel : 0 ≤ env.rel)
    (items : List (CType × Rel C × Assign C)) (x : List K)
    (hrec : ∀ t ∈ items, recognise isPos d t.2.1 t.2.2 = true)
    (hlen : ∀ t ∈ items, t.2.1.i < x.length)
    (hnodup : (items.map (·.2.1.i)).Nodup)
    (hfree : ∀ t ∈ items, ∀ t' ∈ items, t'.2.1.rhs.mentions t.2.1.i = false)
    (hB : ∀ t ∈ items, ∀ t' ∈ items, t.2.2.factor.mentions t'.2.1.i = false)
    (hne : ∀ t ∈ items, t.2.1.cmp = .ne → 0 < env.tol) :
    compose env (items.map fun t => (t.1, t.2.2)) (compose env (items.map fun t => (t.1, t.2.2)) x)
      = compose env (items.map fun t => (t.1, t.2.2)) x :=
  compose_identity env isPos d items _ (fun t ht => ⟨hrec t ht,
    compose_independent_margin env isPos d hpos htol hrel items x hrec hlen hnodup hfree hB hne t ht⟩)


/-- **Group members are idempotent when their lines do not feed one another.** A member of a joined constraint whose
accepted statements have distinct left-hand variables, none of which occurs in a right-hand side of the SAME group (other
groups may read them), and whose statements cannot raise ZeroDivisionError (definedness depends on the vector's length
only): where the member runs without raising, running it again raises nothing and changes nothing. -/
theorem group_member_idem [DecidableEq C] (env : Env C K) (isPos : C → Bool) (d : C)
    (hpos : ∀ c, isPos c = true → 0 < env.ι c) (htol : 0 ≤ env.tol) (hrel : 0 ≤ env.rel)
    (groups : List (List (CType × Rel C × Assign C)))
    (hrec : ∀ g ∈ groups, ∀ t ∈ g, recognise isPos d t.2.1 t.2.2 = true)
    (hnodup : ∀ g ∈ groups, (g.map (·.2.1.i)).Nodup)
    (hfree : ∀ g ∈ groups, ∀ t ∈ g, ∀ t' ∈ g, t'.2.1.rhs.mentions t.2.1.i = false)
    (hB : ∀ g ∈ groups, ∀ t ∈ g, ∀ t' ∈ g, t.2.2.factor.mentions t'.2.1.i = false)
    (hne : ∀ g ∈ groups, ∀ t ∈ g, t.2.1.cmp = .ne → 0 < env.tol)
    (hdef : ∀ g ∈ groups, ∀ t ∈ g, ∀ z z' : List K, z.length = z'.length →
      t.2.2.defined env z = true → t.2.2.defined env z' = true)
    (i : Nat) : C17.Idem (gmember env (groups.map fun g => g.map fun t => (t.1, t.2.2)) i) := by
  intro a b hab
  unfold gmember at hab ⊢
  rw [List.getElem?_map] at hab ⊢
  cases hg : groups[i]? with
  | none => rw [hg] at hab; simp only [Option.map_none] at hab ⊢
  | some g =>
    rw [hg] at hab; simp only [Option.map_some] at hab ⊢
    have hgm : g ∈ groups := List.mem_of_getElem? hg
    have hb : b = compose env (g.map fun t => (t.1, t.2.2)) a := compose_opt_eq env _ a b hab
    have hbl : b.length = a.length := by rw [hb]; exact (compose_frame env _ a).1
    have hlen : ∀ t ∈ g, t.2.1.i < a.length := by
      intro t ht
      have := composeOpt_target_lt env _ a b hab (t.1, t.2.2) (List.mem_map.mpr ⟨t, ht, rfl⟩)
      rw [← recognise_i (hrec g hgm t ht)]; exact this
    have hdefall : ∀ w ∈ (g.map fun t => (t.1, t.2.2)), ∀ z : List K, z.length = a.length → w.2.defined env z = true := by
      intro w hw z hz
      obtain ⟨z0, hz0, hd0⟩ := composeOpt_defined env _ some (fun x y h => by simp at h; rw [h]) a b hab w hw
      obtain ⟨t, ht, rfl⟩ := List.mem_map.mp hw
      exact hdef g hgm t ht z0 z (by rw [hz0, hz]) hd0
    have htot := composeOpt_total env a.length (g.map fun t => (t.1, t.2.2)) some id (fun x hx => ⟨rfl, hx⟩) hdefall b hbl
    have hidem := compose_idempotent env isPos d hpos htol hrel g a (hrec g hgm) hlen (hnodup g hgm) (hfree g hgm) (hB g hgm)
      (hne g hgm)
    unfold compose? 
    rw [htot]
    have : (List.foldl (Emitted.step env) id (g.map fun t => (t.1, t.2.2))) b = b := by
      have h2 := hidem
      unfold compose at h2
      rw [hb]; unfold compose; exact h2
    rw [this]


/-- **`join=and_` over groups of independent lines: a success is a solution of the whole text.** Groups may feed ONE ANOTHER
(that is what `and_` iterates for); inside a group the lines are independent and division-free. -/
theorem join_groups_and_indep_all_hold [DecidableEq C] (env : Env C K) (isPos : C → Bool) (d : C)
    (hpos : ∀ c, isPos c = true → 0 < env.ι c) (htol : 0 ≤ env.tol) (hrel : 0 ≤ env.rel)
    (groups : List (List (CType × Rel C × Assign C))) (x : List K) (draws : List (List K))
    (hrec : ∀ g ∈ groups, ∀ t ∈ g, recognise isPos d t.2.1 t.2.2 = true)
    (hnodup : ∀ g ∈ groups, (g.map (·.2.1.i)).Nodup)
    (hfree : ∀ g ∈ groups, ∀ t ∈ g, ∀ t' ∈ g, t'.2.1.rhs.mentions t.2.1.i = false)
    (hB : ∀ g ∈ groups, ∀ t ∈ g, ∀ t' ∈ g, t.2.2.factor.mentions t'.2.1.i = false)
    (hstrict : ∀ g ∈ groups, ∀ t ∈ g, t.2.1.cmp.strict = true → 0 < env.tol)
    (hdef : ∀ g ∈ groups, ∀ t ∈ g, ∀ z z' : List K, z.length = z'.length →
      t.2.2.defined env z = true → t.2.2.defined env z' = true)
    (y : List K) (t links : Nat) (st : Comb.Stats)
    (hr : joinAndG env (groups.map fun g => g.map fun t => (t.1, t.2.2)) x draws = (.success y t links, st))
    (hlinks : groups.length ≤ links) :
    ∀ g ∈ groups, ∀ t ∈ g, t.2.1.holds env y :=
  join_groups_and_all_hold env isPos d hpos htol hrel groups x draws hrec hnodup hstrict
    (fun i _ => group_member_idem env isPos d hpos htol hrel groups hrec hnodup hfree hB
      (fun g hg t ht h => hstrict g hg t ht (by rw [h]; rfl)) hdef i)
    y t links st hr hlinks

/-- **`and_` over a group whose lines feed one another may report success at a non-solution (closed witness; why
`join_groups_and_all_hold` asks for idempotent members).** Members: the group `x0 = x1 ; x1 = 5` under `outer` couplers (it
stores `x0 := x1` first, then `x1 := 5`) and an empty group. At `[0, 0]` the first pass of `constraints.and_` produces
`[0, 5]` twice, which it takes for convergence (intact window, no random draw) - but `x0 = x1` fails at `[0, 5]`, and
the group applied once more returns `[5, 5]`. -/
theorem join_groups_and_feeding_false_success :
    ∃ (env : Env Nat ℚ) (r0 r1 : Rel Nat) (c0 c1 : Assign Nat),
      recognise (fun c => decide (0 < c)) 1 r0 c0 = true ∧ recognise (fun c => decide (0 < c)) 1 r1 c1 = true ∧
      r0.i ≠ r1.i ∧
      joinAndG env [[(.outer, c0), (.outer, c1)], []] [0, 0] [] = (.success [0, 5] 1 2, { calls := 2, draws := 0 }) ∧
      ¬ r0.holds env [0, 5] ∧ gmember env [[(.outer, c0), (.outer, c1)], []] 0 [0, 5] = some [5, 5] := by
  refine ⟨{ ι := fun n => (n : ℚ), tol := 0, rel := 0 }, ⟨0, .eq, .var 1⟩, ⟨1, .eq, .num 5⟩, ⟨0, .var 1⟩, ⟨1, .num 5⟩,
    by decide, by decide, by decide, by decide, ?_, by decide⟩
  simp [Rel.holds, Cmp.holds, Expr.eval]

/-! ## non-vacuity: the hypotheses are satisfiable by a concrete, non-trivial instance -/

/-- argument shapes: the solvers of the two texts `x0 > x2` and `x1 != 5` nested as `generate_solvers` returns them, with a
`ctype` list nested the same way, satisfy the hypotheses of `gc_shape_independent`; a single function and `None` do, too -/
example :
    let items : Nest (Rel Nat × Assign Nat) :=
      .node [.node [.leaf (⟨0, .gt, .var 2⟩, emit ⟨0, .gt, .var 2⟩ [] 11)], .node [.leaf (⟨1, .ne, .num 5⟩, emit ⟨1, .ne, .num 5⟩ [] 11)]]
    let ct : CArg := .many [.node [.leaf .outer], .node [.leaf .inner]]
    Nest.flatL items.top = [(⟨0, .gt, .var 2⟩, emit ⟨0, .gt, .var 2⟩ [] 11), (⟨1, .ne, .num 5⟩, emit ⟨1, .ne, .num 5⟩ [] 11)] ∧
    ct.covers (Nest.flatL items.top).length ∧ CArg.none.covers 7 ∧
    (gcItems (Nest.map (·.2) items) ct).map (·.1) = [.outer, .inner] ∧
    (gcItems (Nest.leaf (emit (⟨0, .gt, .var 2⟩ : Rel Nat) [] 11)) .none).length = 1 := by
  refine ⟨by simp [Nest.top, Nest.flatL, Nest.flat], ?_, trivial, ?_, ?_⟩
  · simp [CArg.covers, Nest.top, Nest.flatL, Nest.flat]
  · simp [gcItems, ctypeList, Nest.top, Nest.flatL, Nest.flat, Nest.map, Nest.mapL]
  · simp [gcItems, ctypeList, Nest.top, Nest.flatL, Nest.flat]

/-- `join=or_` over groups: the members `[x0 = 1 ; x1 = 2]` and `[x2 = 3]` at `[0, 0, 3]`: the first member moves the input,
the second leaves it unchanged - success at the input, where all relations of the second member hold -/
example :
    let env : Env Nat ℚ := { ι := fun n => (n : ℚ), tol := 0, rel := 0 }
    joinOrG env [[(.inner, ⟨0, .num 1⟩), (.inner, ⟨1, .num 2⟩)], [(.outer, ⟨2, .num 3⟩)]] [0, 0, 3] []
      = (.success [0, 0, 3] 0 1, { calls := 2, draws := 0 }) := by
  decide

/-- `x0 <= x1*3` (no `!=` lines), numerals read as rationals, `tol = rel = 1/1000`, at `x = [10, 2]` -/
example :
    let env : Env Nat ℚ := { ι := fun n => (n : ℚ), tol := 1 / 1000, rel := 1 / 1000 }
    let r : Rel Nat := ⟨0, .le, .mul (.var 1) (.num 3)⟩
    let code := emit r [] 11
    recognise (fun c => decide (0 < c)) 1 r code = true ∧ r.rhs.mentions r.i = false ∧
      code.factor.mentions r.i = false ∧ code.exec env [10, 2] = [6, 2] ∧ ¬ r.holds env [10, 2] := by
  refine ⟨by decide, by decide, by decide, ?_, ?_⟩
  · simp only [emit, emitG, anyEq, Assign.exec, Expr.eval, tolf, absR, pyMin]; norm_num
  · simp only [Rel.holds, Cmp.holds, Expr.eval]; norm_num

/-- a two-line independent system `x0 > x2`, `x1 != 5` and a consistent pair of bounds are accepted -/
example :
    List.Forall₂ (fun r c => recognise (fun c => decide (0 < c)) 1 r c = true)
      [⟨0, .gt, .var 2⟩, ⟨1, .ne, .num 5⟩]
      [emit (⟨0, .gt, .var 2⟩ : Rel Nat) [] 11, emit ⟨1, .ne, .num 5⟩ [] 11] ∧
    ([⟨0, .gt, .var 2⟩, ⟨1, .ne, .num 5⟩].map (fun r : Rel Nat => r.i)).Nodup := by
  refine ⟨List.Forall₂.cons (by decide) (List.Forall₂.cons (by decide) List.Forall₂.nil), by decide⟩

example :
    let env : Env Nat ℚ := { ι := fun n => (n : ℚ), tol := 0, rel := 0 }
    Consistent env [⟨0, .ge, .num 1⟩, ⟨0, .le, .num 4⟩] ∧ IsBound (⟨0, .ge, .num 1⟩ : Rel Nat) ∧
      (emit (⟨0, .ge, .num 1⟩ : Rel Nat) [] 11).factor = .false_ := by
  refine ⟨?_, ⟨Or.inr rfl, 1, rfl⟩, rfl⟩
  intro r hr r' hr' _ hge hle
  simp only [List.mem_cons, List.mem_nil_iff, or_false] at hr hr'
  rcases hr with rfl | rfl <;> rcases hr' with rfl | rfl <;> simp_all [Expr.eval]

/-- composition modes: an independent two-line system `x0 > x2`, `x1 != 5` wrapped by an `outer` and an `inner` coupler
satisfies the hypotheses of `compose_independent`; the couplers run the second statement first -/
example :
    let items : List (CType × Rel Nat × Assign Nat) :=
      [(.outer, ⟨0, .gt, .var 2⟩, emit ⟨0, .gt, .var 2⟩ [] 11), (.inner, ⟨1, .ne, .num 5⟩, emit ⟨1, .ne, .num 5⟩ [] 11)]
    (∀ t ∈ items, recognise (fun c => decide (0 < c)) 1 t.2.1 t.2.2 = true) ∧ (items.map (·.2.1.i)).Nodup ∧
    (∀ t ∈ items, ∀ t' ∈ items, t'.2.1.rhs.mentions t.2.1.i = false) ∧
    (∀ t ∈ items, ∀ t' ∈ items, t.2.2.factor.mentions t'.2.1.i = false) ∧
    (order (items.map fun t => (t.1, t.2.2))).map (·.i) = [0, 1] := by
  decide

/-- `join=and_` / `join=or_` on the FED system `x1 = 5 ; x0 = x1` (solver order as `constraints_parser` emits it) at `[0, 0]`:
`and_` succeeds after 3 member calls with an intact window (`links = 3 ≥ 2`) at `[5, 5]`, where both relations hold;
`or_` returns the input, at which `x0 = x1` already holds (hypotheses of `join_and_all_hold` / `join_or_some_holds`) -/
example :
    let env : Env Nat ℚ := { ι := fun n => (n : ℚ), tol := 0, rel := 0 }
    let rels : List (Rel Nat) := [⟨1, .eq, .num 5⟩, ⟨0, .eq, .var 1⟩]
    let codes : List (Assign Nat) := [⟨1, .num 5⟩, ⟨0, .var 1⟩]
    joinAnd env codes [0, 0] [] = (.success [5, 5] 2 3, { calls := 3, draws := 0 }) ∧
    joinOr env codes [0, 0] [] = (.success [0, 0] 0 1, { calls := 2, draws := 0 }) ∧
    (List.zipWith (fun r c => recognise (fun c => decide (0 < c)) 1 r c) rels codes = [true, true]) ∧
    (∀ r ∈ rels, r.rhs.mentions r.i = false) := by
  decide

/-- the independent system `x0 > x2`, `x1 != 5` (statements as the parser emits them) at `[0, 0, 0]` satisfies `Indep` -/
example :
    Indep (K := ℚ) (C := Nat) { ι := fun n => (n : ℚ), tol := 1 / 1000, rel := 1 / 1000 } (fun c => decide (0 < c)) 1
      [⟨0, .gt, .var 2⟩, ⟨1, .ne, .num 5⟩]
      [emit (⟨0, .gt, .var 2⟩ : Rel Nat) [] 11, emit ⟨1, .ne, .num 5⟩ [] 11] [0, 0, 0] where
  hrec := List.Forall₂.cons (by decide) (List.Forall₂.cons (by decide) List.Forall₂.nil)
  hnodup := by decide
  hfree := by decide
  hB := by decide
  hlen := by decide
  hne := by intro _ _ _; norm_num
  hdef := by
    intro c hc z hz _
    simp only [List.mem_cons, List.mem_nil_iff, or_false] at hc
    rcases hc with rfl | rfl <;>
      simp [emit, emitG, anyEq, Assign.defined, Expr.defined, hz]

end MysticVerif.C13
