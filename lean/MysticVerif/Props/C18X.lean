/-
C18, second deepening - property theorems for the functions modelled in Model/MeasuresX.lean:
standard_moment / skewness / kurtosis, impose_moment, impose_product, normalize with an 'l<p>' mass.
(The theorems on the shape logic of distance.py are in Props/C18Dist.lean; the median / mad theorems in Props/C18.lean.)
Same conventions as Props/C18.lean: `K` an arbitrary linearly ordered field, roots enter as parameters with the one
hypothesis that they are roots at the argument used.
-/
import MysticVerif.Proofs.MeasuresX
import Mathlib.Tactic.NormNum

set_option linter.unusedSectionVars false

namespace MysticVerif.C18
open MysticVerif.Meas

variable {K : Type} [Field K] [LinearOrder K] [IsStrictOrderedRing K]

/-- rational constants for the witnesses (`sqrt`, `root` the identity: exact on the arguments used) -/
def CQX : Consts ℚ := { inf := 0, nan := 0, sqrt := id, root := fun n x => if n = 2 ∧ x = 4 then 2 else x }

private theorem cut0 (g : K) : (if |g| ≤ 0 then 0 else g) = g := by
  split
  · rename_i h0; exact (abs_nonpos_iff.mp h0).symm
  · rfl

/-! ## standardised moments -/

/-- **standard_moment** (measures.py l.345): for order `n ≥ 3` the central moment of order `n` (cut to `0` when within
`tol`) divided by the `n`-th power of the standard deviation; `1` for order 2. -/
theorem standard_moment_def (C : Consts K) (xs : List K) (ws : Option (List K)) (n : Nat) (tol : K)
    (h : Valid xs ws) (hn : 3 ≤ n) :
    standardMoment C xs ws n tol =
      (if |gmom xs ws n| ≤ tol then 0 else gmom xs ws n) / (C.sqrt (gmom xs ws 2)) ^ n ∧
    standardMoment C xs ws 2 tol = 1 := by
  refine ⟨?_, by simp [standardMoment]⟩
  unfold standardMoment std variance
  rw [if_neg (by omega), moment_tol_eq C xs ws n tol h (by omega), moment_eq C xs ws 2 h (le_refl _), powN_eq]

/-- **skewness / kurtosis** (l.387, l.399): with `σ² = variance` (the supplied square root being one at the variance),
skewness is `μ₃ / (σ² σ)` and kurtosis is `μ₄ / (σ²)²`. -/
theorem skewness_kurtosis_def (C : Consts K) (xs : List K) (ws : Option (List K)) (h : Valid xs ws)
    (hs : C.sqrt (gmom xs ws 2) * C.sqrt (gmom xs ws 2) = gmom xs ws 2) :
    skewness C xs ws = gmom xs ws 3 / (gmom xs ws 2 * C.sqrt (gmom xs ws 2)) ∧
    kurtosis C xs ws = gmom xs ws 4 / (gmom xs ws 2) ^ 2 := by
  unfold skewness kurtosis
  rw [(standard_moment_def C xs ws 3 0 h (le_refl _)).1, (standard_moment_def C xs ws 4 0 h (by omega)).1, cut0, cut0]
  constructor
  · congr 1
    calc C.sqrt (gmom xs ws 2) ^ 3 = (C.sqrt (gmom xs ws 2) * C.sqrt (gmom xs ws 2)) * C.sqrt (gmom xs ws 2) := by ring
      _ = gmom xs ws 2 * C.sqrt (gmom xs ws 2) := by rw [hs]
  · congr 1
    calc C.sqrt (gmom xs ws 2) ^ 4 = (C.sqrt (gmom xs ws 2) * C.sqrt (gmom xs ws 2)) ^ 2 := by ring
      _ = gmom xs ws 2 ^ 2 := by rw [hs]

/-- non-vacuity: weights (4, 1) on (-1/2, 2): mean 0, variance 1, third moment 3/2, fourth 13/4 -/
example : skewness CQX [(-1 / 2 : ℚ), 2] (some [4, 1]) = 3 / 2 ∧ kurtosis CQX [(-1 / 2 : ℚ), 2] (some [4, 1]) = 13 / 4 := by
  decide +kernel

/-! ## impose_moment -/

/-- **impose_moment** (l.486), orders 0 and 1 (l.506-515): nothing can be imposed; the samples come back when the
target is the only possible value (1 resp. 0), `nan`s otherwise. -/
theorem impose_moment_order01 (C : Consts K) (m : K) (xs : List K) (ws : Option (List K)) (tol : K)
    (skew : Option Bool) :
    imposeMoment C m xs ws 0 tol skew = (if m = 1 then xs else List.replicate xs.length C.nan) ∧
    imposeMoment C m xs ws 1 tol skew = (if m = 0 then xs else List.replicate xs.length C.nan) := by
  constructor
  · simp [imposeMoment, nans]
  · by_cases h0 : m = 0 <;> simp [imposeMoment, nans, truthy, h0]

private theorem momentSamples_valid (skew : Option Bool) (n : Nat) (xs : List K) (ws : Option (List K))
    (h : Valid xs ws) : Valid (momentSamples skew n xs) ws := by
  unfold momentSamples
  split <;> split <;> first | exact h.map _ | exact h

/-- **impose_moment** (l.486), order `n ≥ 2`, `samples' = samples` or their squares (`skew`, default: odd orders):
when the `n`-th central moment `sv` of `samples'` is non-zero and outside the `tol` cut, the target is reachable
(even order: `m ≥ 0` and `m / sv ≥ 0`) and the supplied `n`-th root is one at `|m / sv|`, the result has `n`-th central
moment `m` and the weighted mean OF THE ORIGINAL samples (for an odd order and `m / sv < 0` the samples are reflected
first, l.535-542). -/
theorem impose_moment_spec (C : Consts K) (m : K) (xs : List K) (ws : Option (List K)) (n : Nat) (tol : K)
    (skew : Option Bool) (h : Valid xs ws) (hn : 2 ≤ n)
    (hsv : gmom (momentSamples skew n xs) ws n ≠ 0)
    (htol : ¬ |gmom (momentSamples skew n xs) ws n| ≤ tol)
    (heven : n % 2 = 0 → 0 ≤ m ∧ 0 ≤ m / gmom (momentSamples skew n xs) ws n)
    (hroot : C.root n |m / gmom (momentSamples skew n xs) ws n| ^ n = |m / gmom (momentSamples skew n xs) ws n|) :
    gmom (imposeMoment C m xs ws n tol skew) ws n = m ∧
    gmean (imposeMoment C m xs ws n tol skew) ws = gmean xs ws := by
  have hys : Valid (momentSamples skew n xs) ws := momentSamples_valid skew n xs ws h
  have hmom : moment C (momentSamples skew n xs) ws n tol = gmom (momentSamples skew n xs) ws n := by
    rw [moment_tol_eq C _ ws n tol hys hn, if_neg htol]
  unfold imposeMoment
  rw [if_neg (by omega), if_neg (by omega),
    if_neg (by rintro ⟨he, hm⟩; exact absurd (heven he).1 (not_le.mpr hm)), hmom, if_pos ((truthy_iff _).mpr hsv)]
  rw [absR_eq]
  by_cases hc : (decide (n % 2 = 1) && decide (m / gmom (momentSamples skew n xs) ws n < 0)) = true
  · rw [if_pos hc]
    simp only [Bool.and_eq_true, decide_eq_true_eq] at hc
    obtain ⟨c, hflip⟩ := flipSamples_eq (momentSamples skew n xs)
    rw [hflip]
    have hv : Valid (((momentSamples skew n xs).map fun y => c - y).map
        (· * C.root n |m / gmom (momentSamples skew n xs) ws n|)) ws := (hys.map _).map _
    constructor
    · unfold imposeMean
      rw [gmom_map_add_const _ ws _ n hv, gmom_map_mul_const, gmom_reflect _ ws c n hys, hroot,
        Odd.neg_one_pow (Nat.odd_iff.mpr hc.1), abs_of_neg hc.2]
      field_simp
    · unfold imposeMean
      rw [gmean_map_add_const _ ws _ hv, mean_eq C _ ws hv, mean_eq C xs ws h]; ring
  · rw [if_neg hc]
    simp only [Bool.and_eq_true, decide_eq_true_eq, not_and, not_lt] at hc
    have hnn : 0 ≤ m / gmom (momentSamples skew n xs) ws n := by
      rcases Nat.mod_two_eq_zero_or_one n with he | ho
      · exact (heven he).2
      · exact hc ho
    have hv : Valid ((momentSamples skew n xs).map (· * C.root n |m / gmom (momentSamples skew n xs) ws n|)) ws :=
      hys.map _
    constructor
    · unfold imposeMean
      rw [gmom_map_add_const _ ws _ n hv, gmom_map_mul_const, hroot, abs_of_nonneg hnn]
      field_simp
    · unfold imposeMean
      rw [gmean_map_add_const _ ws _ hv, mean_eq C _ ws hv, mean_eq C xs ws h]; ring

/-- non-vacuity: order 2 without skew (variance 9/4 -> 9, root 2) and order 3 with the default skew and a reflected
target -/
example : imposeMoment CQX 9 [(0 : ℚ), 3] none 2 0 none = [-3 / 2, 9 / 2] ∧
    gmom (imposeMoment CQX 9 [(0 : ℚ), 3] none 2 0 none) none 2 = 9 := by decide +kernel
example : gmom (momentSamples none 3 [(0 : ℚ), 1, 1, 2]) none 3 = 3 ∧
    imposeMoment CQX (-3) [(0 : ℚ), 1, 1, 2] none 3 0 none = [5 / 2, 3 / 2, 3 / 2, -3 / 2] ∧
    gmom (imposeMoment CQX (-3) [(0 : ℚ), 1, 1, 2] none 3 0 none) none 3 = -3 ∧
    gmean (imposeMoment CQX (-3) [(0 : ℚ), 1, 1, 2] none 3 0 none) none = 1 := by decide +kernel

/-! ## impose_product -/

/-- **impose_product** (l.1818): for a non-zero product `w` of the weights and a non-zero target, when the sign can be
reached (`w / mass < 0` only with an ODD number of weights) and the supplied root is an `n`-th root at `|w / mass|`,
the result has product `mass`. -/
theorem impose_product_spec (C : Consts K) (mass : K) (ws : List K) (zsum : Bool) (zmass : K)
    (hw : ws.prod ≠ 0) (hm : mass ≠ 0) (hsign : ws.prod / mass < 0 → ws.length % 2 = 1)
    (hroot : C.root ws.length |ws.prod / mass| ^ ws.length = |ws.prod / mass|) :
    (imposeProduct C mass ws zsum zmass).prod = mass := by
  unfold imposeProduct
  rw [lprod_eq, if_pos ((truthy_iff _).mpr hw), if_pos ((truthy_iff _).mpr hm)]
  split
  · rename_i hneg
    have habs : |ws.prod / mass| = -ws.prod / mass := by rw [abs_of_neg hneg]; ring
    rw [habs] at hroot
    rw [prod_map_negdiv, hroot, Odd.neg_one_pow (Nat.odd_iff.mpr (hsign hneg))]
    field_simp
  · rename_i hpos
    have habs : |ws.prod / mass| = ws.prod / mass := abs_of_nonneg (not_lt.mp hpos)
    rw [habs] at hroot
    rw [prod_map_div, hroot]; field_simp

/-- **impose_product, the clause FAILS for an even number of weights and a target of the opposite sign** (`_partial`:
what holds instead): the result has product `-mass`. Full statement `(imposeProduct ..).prod = mass` is false there,
see `impose_product_even_sign_witness`. -/
theorem impose_product_even_sign_partial (C : Consts K) (mass : K) (ws : List K) (zsum : Bool) (zmass : K)
    (hw : ws.prod ≠ 0) (hm : mass ≠ 0) (hneg : ws.prod / mass < 0) (heven : ws.length % 2 = 0)
    (hroot : C.root ws.length |ws.prod / mass| ^ ws.length = |ws.prod / mass|) :
    (imposeProduct C mass ws zsum zmass).prod = -mass := by
  unfold imposeProduct
  rw [lprod_eq, if_pos ((truthy_iff _).mpr hw), if_pos ((truthy_iff _).mpr hm), if_pos hneg]
  have habs : |ws.prod / mass| = -ws.prod / mass := by rw [abs_of_neg hneg]; ring
  rw [habs] at hroot
  rw [prod_map_negdiv, hroot, Even.neg_one_pow (Nat.even_iff.mpr heven)]
  field_simp

/-- **witness (C18-K1)**: `impose_product(-1, [1, 1])` is `[-1, -1]`, whose product is `1`, not `-1`. -/
theorem impose_product_even_sign_witness :
    imposeProduct CQX (-1) [(1 : ℚ), 1] false 1 = [-1, -1] ∧ (imposeProduct CQX (-1) [(1 : ℚ), 1] false 1).prod ≠ -1 := by
  decide +kernel

/-- **impose_product, target 0** (l.1838-1848): with or without the counterbalance the result has product `0`. -/
theorem impose_product_zero (C : Consts K) (ws : List K) (zsum : Bool) (zmass : K) (hw : ws.prod ≠ 0) (hne : ws ≠ []) :
    (imposeProduct C 0 ws zsum zmass).prod = 0 := by
  unfold imposeProduct
  rw [lprod_eq, if_pos ((truthy_iff _).mpr hw), if_neg ((truthy_false_iff _).mpr rfl)]
  split
  · split <;> simp
  · cases ws with
    | nil => exact absurd rfl hne
    | cons w t => simp

/-- **impose_product, target 0 with the counterbalance** (`zsum=True`, l.1841-1848): the last weight is zeroed and,
when the sign can be reached and the supplied root is an `(n-1)`-th root at `|w' / zmass|` (`w'` the product of the
other weights), the other weights are rescaled to the product `zmass`. -/
theorem impose_product_zsum_spec (C : Consts K) (hd : List K) (last zmass : K)
    (hw : (hd ++ [last]).prod ≠ 0) (hz : zmass ≠ 0)
    (hsign : hd.prod / zmass < 0 → hd.length % 2 = 1)
    (hroot : C.root hd.length |hd.prod / zmass| ^ hd.length = |hd.prod / zmass|) :
    ∃ hd', imposeProduct C 0 (hd ++ [last]) true zmass = hd' ++ [0] ∧ hd'.length = hd.length ∧ hd'.prod = zmass := by
  have hl : last ≠ 0 := by
    intro h0; apply hw; simp [h0]
  have hh : hd.prod ≠ 0 := by
    intro h0; apply hw; simp [h0]
  have e : (hd ++ [last]).prod / last = hd.prod := by
    rw [List.prod_append, List.prod_singleton]; field_simp
  unfold imposeProduct
  rw [lprod_eq, if_pos ((truthy_iff _).mpr hw), if_neg ((truthy_false_iff _).mpr rfl), if_pos rfl]
  simp only [List.getLastD_concat, List.dropLast_concat, List.length_append, List.length_singleton,
    Nat.add_sub_cancel, e]
  split
  · rename_i hpos
    have habs : |hd.prod / zmass| = hd.prod / zmass := abs_of_nonneg hpos
    rw [habs] at hroot
    refine ⟨_, rfl, by simp, ?_⟩
    rw [prod_map_div, hroot]; field_simp
  · rename_i hneg
    have hneg' : hd.prod / zmass < 0 := not_le.mp hneg
    have habs : |hd.prod / zmass| = -hd.prod / zmass := by rw [abs_of_neg hneg']; ring
    rw [habs] at hroot
    refine ⟨_, rfl, by simp, ?_⟩
    rw [prod_map_negdiv, hroot, Odd.neg_one_pow (Nat.odd_iff.mpr (hsign hneg'))]
    field_simp

example : imposeProduct CQX 8 [(1 : ℚ), 2, 1 / 2] false 1 = [8, 16, 4] := by decide +kernel

/-! ## normalize with an 'l<p>' mass -/

private theorem lnorm_pow' (C : Consts K) (ws : List K) (q : Nat) (hq : 1 ≤ q)
    (hroot : C.root q (ws.map fun w => |w| ^ q).sum ^ q = (ws.map fun w => |w| ^ q).sum) :
    lnorm C ws q ^ q = (ws.map fun w => |w| ^ q).sum := by
  unfold lnorm
  rw [if_neg (by omega), lsum_eq]
  have e : (ws.map fun x => absR (powN x q)) = ws.map fun w => |w| ^ q := by
    apply List.map_congr_left; intro w _; rw [absR_eq, powN_eq, abs_pow]
  rw [e, hroot]

/-- **normalize(weights, 'l<p>')** (l.1341, l.1351-1353, l.1362-1363), `q = min(200, p) ≥ 1`: every weight is divided
by the L-q norm of the weights, and (for a non-negative q-th root that is one at `∑ |wᵢ|^q`) the L-q norm of the result
is 1: `∑ |wᵢ'|^q = 1`. -/
theorem normalize_lp_spec (C : Consts K) (ws : List K) (p : Nat) (zsum : Bool) (hq : 1 ≤ min 200 p)
    (hW : lnorm C ws (min 200 p) ≠ 0) (hnn : 0 ≤ lnorm C ws (min 200 p))
    (hroot : C.root (min 200 p) (ws.map fun w => |w| ^ (min 200 p)).sum ^ (min 200 p) =
      (ws.map fun w => |w| ^ (min 200 p)).sum) :
    normalizeL C ws p zsum = ws.map (· / lnorm C ws (min 200 p)) ∧
    ((normalizeL C ws p zsum).map fun w => |w| ^ (min 200 p)).sum = 1 := by
  have e1 : normalizeL C ws p zsum = ws.map (· / lnorm C ws (min 200 p)) := by
    unfold normalizeL
    simp only
    rw [if_pos ((truthy_iff _).mpr hW)]
  refine ⟨e1, ?_⟩
  rw [e1, List.map_map]
  have e2 : (ws.map ((fun w => |w| ^ (min 200 p)) ∘ fun x => x / lnorm C ws (min 200 p))) =
      (ws.map fun w => |w| ^ (min 200 p)).map (· / lnorm C ws (min 200 p) ^ (min 200 p)) := by
    rw [List.map_map]
    apply List.map_congr_left; intro w _
    simp only [Function.comp]
    rw [abs_div, div_pow, abs_of_nonneg hnn]
  rw [e2, sum_map_div_right, lnorm_pow' C ws _ hq hroot]
  exact div_self (by rw [← lnorm_pow' C ws _ hq hroot]; exact pow_ne_zero _ hW)

example : normalizeL CQX [(1 : ℚ), -3, 0, 4] 1 false = [1 / 8, -3 / 8, 0, 1 / 2] := by decide +kernel

end MysticVerif.C18
