/-
C20 (part 5) - the ids of a trajectory through the parameter files, and the matching readers:
"write_support_file / write_raw_file / write_converge_file output can be read back by the matching readers to
the same trajectory" - entry by entry the id that was recorded.  Property theorems about Model/Monitor.lean
(`idsWritten`, `processIds`, `countIds`) and Model/MungeFormats.lean (`idColumn`, `perIdIter`, `readSupportParams`,
`readConvergeParams`).  Imported by Props/C20.lean.
-/
import MysticVerif.Proofs.Monitor
import MysticVerif.Model.MungeFormats

namespace MysticVerif.C20
open MysticVerif.Mon

variable {R : Type}

/-! ### helper facts (private) -/

private theorem all_beq_replicate (a : Option Int) : ∀ (l : List (Option Int)), l.all (· == a) = true → l = List.replicate l.length a := by
  intro l
  induction l with
  | nil => intro _; rfl
  | cons b t ih =>
    intro h
    simp only [List.all_cons, Bool.and_eq_true, beq_iff_eq] at h
    rw [List.length_cons, List.replicate_succ, h.1, ← ih h.2]

private theorem map_const_replicate {α β : Type} (f : α → β) (b : β) (hf : ∀ s, f s = b) :
    ∀ (c : List α), c.map f = List.replicate c.length b := by
  intro c
  induction c with
  | nil => rfl
  | cons a t ih => simp [List.replicate_succ, hf, ih]

private theorem countIds_length : ∀ (l seen : List (Option Int)), (countIds seen l).length = l.length := by
  intro l
  induction l with
  | nil => intro _; rfl
  | cons j t ih => intro seen; simp [countIds, ih]

private theorem countIds_idOf : ∀ (l seen : List (Option Int)), (countIds seen l).map Step.idOf = l := by
  intro l
  induction l with
  | nil => intro _; rfl
  | cons j t ih => intro seen; simp [countIds, ih, Step.idOf]

private theorem countIds_id_ne_none : ∀ (l seen : List (Option Int)) (s : Step), s ∈ countIds seen l → s.id ≠ none := by
  intro l
  induction l with
  | nil => intro seen s hs; simp [countIds] at hs
  | cons j t ih =>
    intro seen s hs
    simp only [countIds, List.mem_cons] at hs
    rcases hs with rfl | hs
    · simp
    · exact ih _ s hs

/-- the `i`-th counter of `_process_ids`: occurrences of the `i`-th id among the ids seen before the list plus
among the earlier entries of the list -/
private theorem countIds_iter : ∀ (l seen : List (Option Int)) (i : Nat) (h : i < l.length),
    ((countIds seen l).map (·.i))[i]? = some (seen.count l[i] + (l.take i).count l[i]) := by
  intro l
  induction l with
  | nil => intro _ i h; simp at h
  | cons j t ih =>
    intro seen i h
    cases i with
    | zero => simp [countIds]
    | succ i =>
      have hi : i < t.length := by simpa using h
      simp only [countIds, List.map_cons, List.getElem?_cons_succ, List.getElem_cons_succ, List.take_succ_cons]
      rw [ih (j :: seen) i hi]
      simp only [List.count_cons]
      congr 1
      omega

private theorem perIdIter_getElem? (l : List (Option Int)) (i : Nat) (h : i < l.length) :
    (perIdIter l)[i]? = some ((l.take i).count l[i]) := by
  unfold perIdIter
  rw [List.getElem?_map, List.getElem?_range h]
  simp [List.getD_eq_getElem?_getD, List.getElem?_eq_getElem h]

private theorem countIds_perIdIter (l : List (Option Int)) : (countIds [] l).map (·.i) = perIdIter l := by
  apply List.ext_getElem?
  intro i
  by_cases h : i < l.length
  · rw [countIds_iter l [] i h, perIdIter_getElem? l i h]; simp
  · have h1 : ((countIds [] l).map (·.i)).length ≤ i := by simp [countIds_length]; omega
    have h2 : (perIdIter l).length ≤ i := by simp [perIdIter]; omega
    rw [List.getElem?_eq_none h1, List.getElem?_eq_none h2]

private theorem perIdIter_replicate (a : Option Int) (n : Nat) : perIdIter (List.replicate n a) = List.range n := by
  apply List.ext_getElem?
  intro i
  by_cases h : i < n
  · rw [perIdIter_getElem? _ i (by simpa using h), List.getElem?_range h]
    simp [List.take_replicate, List.count_replicate_self, Nat.min_eq_left (Nat.le_of_lt h)]
  · have h1 : (perIdIter (List.replicate n a)).length ≤ i := by simp [perIdIter]; omega
    rw [List.getElem?_eq_none h1, List.getElem?_eq_none (by simp; omega)]

/-- what `read_raw_file(f, iter=True)` returns for the id LIST `l` found in a file of `l.length` records -/
private theorem many_spec (l : List (Option Int)) (_hne : l ≠ []) :
    ∃ st, processIds (.many l) l.length = some st ∧ st.map Step.idOf = l ∧ st.map (·.i) = perIdIter l ∧
      (l.all (· == none) = true → ∀ s ∈ st, s.id = none) ∧ (l.all (· == none) = false → ∀ s ∈ st, s.id ≠ none) := by
  have hlen : (countIds [] l).length = l.length := countIds_length l []
  by_cases hall : l.all (· == none) = true
  · refine ⟨((countIds [] l).map (fun s => { s with id := none })), ?_, ?_, ?_, ?_, ?_⟩
    · simp only [processIds, hall, if_true]
      rw [List.take_of_length_le (by simp [hlen])]
    · have hr := all_beq_replicate none l hall
      rw [List.map_map]
      have h0 := map_const_replicate (Step.idOf ∘ fun s : Step => ({ s with id := none } : Step)) none (fun s => rfl) (countIds [] l)
      rw [h0, hlen]
      exact hr.symm
    · rw [List.map_map, ← countIds_perIdIter]
      apply List.map_congr_left
      intro s _; rfl
    · intro _ s hs
      simp only [List.mem_map] at hs
      obtain ⟨q, _, rfl⟩ := hs
      rfl
    · intro h; rw [hall] at h; exact absurd h (by simp)
  · have hall' : l.all (· == none) = false := by simpa using hall
    refine ⟨countIds [] l, ?_, countIds_idOf l [], countIds_perIdIter l, ?_, ?_⟩
    · simp only [processIds, hall', Bool.false_eq_true, if_false]
      rw [List.take_of_length_le (by simp [hlen])]
    · intro h; rw [hall'] at h; exact absurd h (by simp)
    · intro _ s hs
      exact countIds_id_ne_none l [] s hs

/-! ## the id column of the three files -/

/-- **ids are read back unchanged, one iteration counter per id.**  For EVERY recorded id sequence `ids` (no ids,
one id, several ids in any order, `None` between ints, equal first and last id around different ones, ...): what
`write_raw_file` puts into the file (`idsWritten`: nothing / the single id / the list, munge.py l.265-269) and what
`read_raw_file(f, iter=True)` makes of it for a file of `ids.length` records (`_process_ids`, l.163-188) is a list
with one entry per record, whose id column is `ids` itself and whose iteration numbers count, for every entry, the
earlier entries recorded with the same id; the entries are 1-tuples exactly when no id was recorded at all.
(`write_support_file` and `write_converge_file` hand a copy with the same id list to `write_raw_file`.) -/
theorem file_ids_roundtrip (ids : List (Option Int)) :
    idColumn (processIds (idsWritten ids) ids.length) ids.length = ids ∧
    (ids ≠ [] → ∃ st, processIds (idsWritten ids) ids.length = some st ∧ st.length = ids.length ∧
        st.map Step.idOf = ids ∧ st.map (·.i) = perIdIter ids ∧
        (ids.all (· == none) = true → ∀ s ∈ st, s.id = none) ∧ (ids.all (· == none) = false → ∀ s ∈ st, s.id ≠ none)) := by
  have main : ids ≠ [] → ∃ st, processIds (idsWritten ids) ids.length = some st ∧ st.length = ids.length ∧
        st.map Step.idOf = ids ∧ st.map (·.i) = perIdIter ids ∧
        (ids.all (· == none) = true → ∀ s ∈ st, s.id = none) ∧ (ids.all (· == none) = false → ∀ s ∈ st, s.id ≠ none) := by
    intro hne
    obtain ⟨a, t, rfl⟩ : ∃ a t, ids = a :: t := by
      cases ids with
      | nil => exact absurd rfl hne
      | cons a t => exact ⟨a, t, rfl⟩
    by_cases hall : (a :: t).all (· == a) = true
    · have hrep := all_beq_replicate a (a :: t) hall
      have hn : (a :: t).length ≠ 0 := by simp
      cases a with
      | none =>
        refine ⟨(List.range (none :: t).length).map (fun i => { i := i, id := none }), ?_, by simp, ?_, ?_, ?_, ?_⟩
        · simp only [idsWritten, hall, if_true, processIds, hn, if_false]
        · rw [List.map_map]
          have h0 := map_const_replicate (Step.idOf ∘ fun i : Nat => ({ i := i, id := none } : Step)) none (fun s => rfl) (List.range (none :: t).length)
          rw [h0, List.length_range]
          exact hrep.symm
        · rw [List.map_map, hrep, perIdIter_replicate, List.length_replicate]
          simp [Function.comp_def]
        · intro _ s hs
          simp only [List.mem_map] at hs
          obtain ⟨q, _, rfl⟩ := hs
          rfl
        · intro h; rw [hall] at h; exact absurd h (by simp)
      | some v =>
        refine ⟨(List.range (some v :: t).length).map (fun i => { i := i, id := some (some v) }), ?_, by simp, ?_, ?_, ?_, ?_⟩
        · simp only [idsWritten, hall, if_true, processIds]
        · rw [List.map_map]
          have h0 := map_const_replicate (Step.idOf ∘ fun i : Nat => ({ i := i, id := some (some v) } : Step)) (some v) (fun s => rfl)
            (List.range (some v :: t).length)
          rw [h0, List.length_range]
          exact hrep.symm
        · rw [List.map_map, hrep, perIdIter_replicate, List.length_replicate]
          simp [Function.comp_def]
        · intro h; simp at h
        · intro _ s hs
          simp only [List.mem_map] at hs
          obtain ⟨q, _, rfl⟩ := hs
          simp
    · have hw : idsWritten (a :: t) = .many (a :: t) := by
        simp only [idsWritten]
        rw [if_neg hall]
      obtain ⟨st, h1, h2, h3, h4, h5⟩ := many_spec (a :: t) (by simp)
      refine ⟨st, by rw [hw]; exact h1, ?_, h2, h3, h4, h5⟩
      have := congrArg List.length h2
      simpa using this
  refine ⟨?_, main⟩
  cases hids : ids with
  | nil => simp [idsWritten, processIds, idColumn]
  | cons a t =>
    obtain ⟨st, h1, _, h2, _⟩ := main (by rw [hids]; simp)
    rw [← hids, h1]
    exact h2

/-- **the three writers, over all call sequences.**  After the calls `cs` on a new monitor (any `k`, any logging
interval) the file written by `write_raw_file`, by `write_support_file` and by `write_converge_file`, read with
`iter=True`, and `read_history(monitor, iter=True)`, all carry the id column `cs.map (·.id)`: the id given to the
`i`-th call comes back with the `i`-th entry. -/
theorem files_ids_spec [Mul R] [Div R] (k : Option R) (iv : Option Nat) (cs : List (Call R)) :
    let m := Mon.calls ({ k := k, interval := iv } : Mon R) cs
    idColumn m.writeRaw.ids cs.length = cs.map (·.id) ∧
    (∀ f, m.writeSupport = some f → idColumn f.ids cs.length = cs.map (·.id)) ∧
    (∀ f, m.writeConverge = some f → idColumn f.ids cs.length = cs.map (·.id)) ∧
    (∀ f, m.readHistory = some f → idColumn f.ids cs.length = cs.map (·.id)) := by
  intro m
  have hid : m.id = cs.map (·.id) := by simp [m, calls_id]
  have hy : m.y.length = cs.length := by simp [m, calls_y]
  have key : idColumn (processIds (idsWritten m.id) m.y.length) cs.length = cs.map (·.id) := by
    have := (file_ids_roundtrip (cs.map (·.id))).1
    rw [hid, hy]
    simpa using this
  refine ⟨key, ?_, ?_, ?_⟩
  · intro f hf
    unfold Mon.writeSupport at hf
    split at hf
    · simp at hf
    · simp only [Option.some.injEq] at hf
      rw [← hf]; exact key
  · intro f hf
    unfold Mon.writeConverge at hf
    split at hf
    · simp at hf
    · simp only [Option.some.injEq] at hf
      rw [← hf]; exact key
  · intro f hf
    unfold Mon.readHistory at hf
    split at hf
    · simp at hf
    · simp only [Option.some.injEq] at hf
      rw [← hf]
      simp only
      cases hcs : cs with
      | nil => simp [hid, hcs, hy, processIds, idColumn]
      | cons c rest =>
        have hne : m.id ≠ [] := by rw [hid, hcs]; simp
        obtain ⟨st, h1, h2, _⟩ := many_spec m.id hne
        have hl : m.id.length = m.y.length := by rw [hy, hid]; simp
        cases hmid : m.id with
        | nil => exact absurd hmid hne
        | cons a t =>
          simp only
          rw [← hmid, ← hl, h1]
          simp only [idColumn]
          rw [h2, hid, hcs]

/-- `read_trajectories(monitor, iter=True)` (`_process_ids(mon.id, n)`, l.149): the id column is the monitor's id
list, the iteration numbers are the per-id counters -/
theorem monitor_ids_spec (ids : List (Option Int)) (hne : ids ≠ []) :
    (processIdsL ids ids.length).map Step.idOf = ids ∧ (processIdsL ids ids.length).map (·.i) = perIdIter ids := by
  obtain ⟨st, h1, h2, h3, _⟩ := many_spec ids hne
  have : processIdsL ids ids.length = st := by
    cases hids : ids with
    | nil => exact absurd hids hne
    | cons a t =>
      rw [hids] at h1
      simp only [processIds] at h1
      simp only [processIdsL]
      split at h1 <;> rename_i hc
      · rw [if_pos hc]; exact Option.some.inj h1
      · rw [if_neg hc]; exact Option.some.inj h1
  rw [this]
  exact ⟨h2, h3⟩

/-- two interleaved solvers: the list is written, read back as `(0,0) (0,1) (1,1) (1,0)` -/
example : processIds (idsWritten [some 0, some 1, some 1, some 0]) 4 =
    some [⟨0, some (some 0)⟩, ⟨0, some (some 1)⟩, ⟨1, some (some 1)⟩, ⟨1, some (some 0)⟩] := by decide

/-- entries without id around entries with id; no ids at all; one id -/
example : idColumn (processIds (idsWritten [none, some 1, some 1, none]) 4) 4 = [none, some 1, some 1, none] ∧
    processIds (idsWritten [none, none]) 2 = some [⟨0, none⟩, ⟨1, none⟩] ∧
    processIds (idsWritten [some 3, some 3]) 2 = some [⟨0, some (some 3)⟩, ⟨1, some (some 3)⟩] := by decide

/-- why "one id" must be decided by looking at EVERY entry (`ids.count(ids[0]) == len(ids)`): writing the single
value `ids[0]` whenever the first and the last entry agree would read `[0, 1, 1, 0]` back as `[0, 0, 0, 0]` -/
example : idColumn (processIds (.single (some 0)) 4) 4 = [some 0, some 0, some 0, some 0] ∧
    idColumn (processIds (.single (some 0)) 4) 4 ≠ [some 0, some 1, some 1, some 0] := by decide

/-! ## the matching readers -/

private theorem mapM_trans_wrapped (xs : List (List R)) (h : ∀ x ∈ xs, x ≠ []) :
    ((xs.map (·.map ([·]))).map PV.mat).mapM transStep = .ok (xs.map ([·])) := by
  induction xs with
  | nil => rfl
  | cons x t ih =>
    have hx : x ≠ [] := h x (by simp)
    have iht := ih (fun q hq => h q (by simp [hq]))
    simp only [List.map_cons, List.mapM_cons, iht]
    have : transStep (PV.mat (x.map ([·]))) = .ok [x] := by
      cases x with
      | nil => exact absurd rfl hx
      | cons a r =>
        simp only [transStep, List.map_cons, zipStar, List.length_cons, List.length_nil, Nat.zero_add]
        have hh : ∀ (l : List R), heads? (l.map ([·])) = some l := by
          intro l
          induction l with
          | nil => rfl
          | cons b s ihs => simp [heads?, ihs]
        have := hh (a :: r)
        simp only [List.map_cons] at this
        simp only [zipStarGo, this]
    rw [this]
    rfl

/-- **converge format through its reader.**  `read_converge_file` applies `raw_to_converge` to the table found in
the file; on what `write_converge_file` wrote for a trajectory of non-empty parameter vectors (of any, also
different, lengths) it returns every step as ONE tuple holding the step's parameters: `params[i][0][j] = xs[i][j]`. -/
theorem read_converge_roundtrip (xs : List (List R)) (h : ∀ x ∈ xs, x ≠ []) :
    readConvergeParams (rawToConverge xs) = .ok (xs.map ([·])) ∧
    ((xs.map ([·])).map List.flatten = xs) := by
  constructor
  · unfold readConvergeParams rawToConverge
    cases xs with
    | nil => rfl
    | cons x t =>
      have hx : x ≠ [] := h x (by simp)
      have := mapM_trans_wrapped (x :: t) h
      cases x with
      | nil => exact absurd rfl hx
      | cons a r =>
        simp only [List.map_cons] at this ⊢
        simp only [rawToConvergePV]
        exact this
  · rw [List.map_map]
    apply List.map_id''
    intro x
    simp

private theorem conv_mats (row : List (List R)) (rest : List (List (List R))) (h : row ≠ []) :
    rawToConvergePV ((row :: rest).map PV.mat) = ((row :: rest).map PV.mat).mapM transStep := by
  cases row with
  | nil => exact absurd rfl h
  | cons a b => rfl

private theorem mapM_trans_cols (d : R) : ∀ (rows : List (List (List R))), (∀ row ∈ rows, row ≠ [] ∧ Rect row 1) →
    (rows.map PV.mat).mapM transStep = .ok (rows.map (fun row => [row.map (·.getD 0 d)])) := by
  intro rows
  induction rows with
  | nil => intro _; rfl
  | cons row t ih =>
    intro h
    have hr := h row (by simp)
    have iht := ih (fun q hq => h q (by simp [hq]))
    have h1 : transStep (PV.mat row) = .ok [row.map (·.getD 0 d)] := by
      simp only [transStep]
      rw [zipStar_rect d 1 row hr.2 hr.1]
      rfl
    simp only [List.map_cons, List.mapM_cons, iht, h1]
    rfl

/-- **support format through its reader.**  `read_support_file` applies `raw_to_support` to the table found in the
file; on what `write_support_file` wrote for a rectangular, non-empty trajectory (`r > 0` iterations of `c > 0`
parameters) it returns ONE block holding the transposed trajectory - `params[0][j][i] = xs[i][j]` - and transposing
that block gives the trajectory back. -/
theorem read_support_roundtrip (xs : List (List R)) (c : Nat) (hrect : Rect xs c) (hne : xs ≠ []) (hc : 0 < c) :
    readSupportParams (rawToSupport xs) = .ok [zipStar xs] ∧ zipStar (zipStar xs) = xs := by
  obtain ⟨r0, rs, rfl⟩ : ∃ r0 rs, xs = r0 :: rs := by
    cases xs with
    | nil => exact absurd rfl hne
    | cons a b => exact ⟨a, b, rfl⟩
  have hr0 : r0.length = c := hrect r0 (by simp)
  obtain ⟨d, _⟩ : ∃ d, d ∈ r0 := by
    cases r0 with
    | nil => simp at hr0; omega
    | cons a _ => exact ⟨a, by simp⟩
  refine ⟨?_, zipStar_zipStar d c _ hrect hne hc⟩
  have hW : Rect ((r0 :: rs).map (·.map ([·]))) c := by
    intro r hr
    simp only [List.mem_map] at hr
    obtain ⟨q, hq, rfl⟩ := hr
    simp [hrect q hq]
  -- the table in the file: row j = the 1-tuples of parameter j over the iterations
  have hT : rawToSupport (r0 :: rs) = (List.range c).map (fun j => (r0 :: rs).map (fun x => [x.getD j d])) := by
    unfold rawToSupport convergeToSupport rawToConverge
    rw [zipStar_rect [] c _ hW (by simp)]
    apply List.map_congr_left
    intro j hj
    have hj' : j < c := by simpa using hj
    rw [List.map_map]
    apply List.map_congr_left
    intro x hx
    have hxl : j < x.length := by rw [hrect x hx]; exact hj'
    simp [List.getD_eq_getElem?_getD, List.getElem?_eq_getElem hxl]
  obtain ⟨c', rfl⟩ : ∃ c', c = c' + 1 := ⟨c - 1, by omega⟩
  have hrows : ∀ row ∈ (List.range (c' + 1)).map (fun j => (r0 :: rs).map (fun x => [x.getD j d])), row ≠ [] ∧ Rect row 1 := by
    intro row hrow
    simp only [List.mem_map, List.mem_range] at hrow
    obtain ⟨j, _, rfl⟩ := hrow
    refine ⟨by simp, ?_⟩
    intro cell hcell
    simp only [List.mem_map] at hcell
    obtain ⟨x, _, rfl⟩ := hcell
    rfl
  have hM := mapM_trans_cols d _ hrows
  unfold readSupportParams rawToSupportPV
  rw [hT]
  have hform : (List.range (c' + 1)).map (fun j => (r0 :: rs).map (fun x => [x.getD j d])) =
      ((r0 :: rs).map (fun x => [x.getD 0 d])) :: ((List.range c').map (fun j => (r0 :: rs).map (fun x => [x.getD (j + 1) d]))) := by
    rw [List.range_succ_eq_map]
    simp [List.map_map, Function.comp_def]
  rw [hform] at hM ⊢
  rw [conv_mats _ _ (by simp), hM]
  simp only
  rw [← hform]
  unfold convergeToSupport
  have hR : Rect ((List.range (c' + 1)).map (fun j => (r0 :: rs).map (fun x => [x.getD j d])) |>.map
      (fun row => [row.map (·.getD 0 d)])) 1 := by
    intro q hq
    simp only [List.mem_map] at hq
    obtain ⟨row, _, rfl⟩ := hq
    rfl
  rw [zipStar_rect [] 1 _ hR (by simp)]
  rw [zipStar_rect d (c' + 1) _ hrect hne]
  simp [List.map_map, Function.comp_def]

/-- a 2 x 3 trajectory through `write_support_file` / `read_support_file` -/
example : readSupportParams (rawToSupport [[1, 2, 3], [4, 5, 6]]) = .ok [[[1, 4], [2, 5], [3, 6]]] := by
  have := (read_support_roundtrip [[1, 2, 3], [4, 5, 6]] 3 (by intro r hr; simp at hr; rcases hr with rfl | rfl <;> rfl) (by simp) (by omega)).1
  simpa [zipStar, zipStarGo, heads?] using this

/-- a 2 x 3 trajectory through `write_converge_file` / `read_converge_file` -/
example : readConvergeParams (rawToConverge [[1, 2, 3], [4, 5, 6]]) = .ok [[[1, 2, 3]], [[4, 5, 6]]] :=
  (read_converge_roundtrip [[1, 2, 3], [4, 5, 6]] (by simp)).1

end MysticVerif.C20
