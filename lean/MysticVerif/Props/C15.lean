/-
C15 - penalty methods are zero on the feasible set and follow their formulas.
Property theorems only (helper lemmas live in Proofs/Penalty.lean, the model in Model/Penalty.lean).

Reading.  `K` is an arbitrary linearly ordered field.  The scalar operations of the Python code that are not
field operations (`pow(h,n)`, `x**2`, `abs`, `x**0.5`) are read through `LawfulPenOps` / `LawfulRoot`
(integer power, `x*x`, absolute value, the non-negative root).  A condition value is `some c`, or `none`
when the user's condition raised `ZeroDivisionError`.  `evalStack ps fx` is `p(x)` for the stack of levels
`ps` (outermost first, each paired with its condition value at `x`) over a decorated function with `f(x) = fx`;
`.ok v` is a returned value, `.error e` an escaping Python exception.  `pow(0, negative)` raises in Python, hence
the side condition `¬ (h = 0 ∧ n < 0)` wherever the multiplier `k*h^n` is actually computed.
-/
import MysticVerif.Proofs.Penalty
import MysticVerif.Proofs.PenaltyTree
import Mathlib.Analysis.Real.Sqrt

set_option linter.unusedSectionVars false

namespace MysticVerif.C15
open MysticVerif.Pen

variable {K : Type} [Field K] [LinearOrder K] [IsStrictOrderedRing K] [PenOps K] [LawfulPenOps K]

/-! ## the documented expression, per type (`formula`) -/

/-- quadratic_equality: `p(x) = k*h^n*c^2 + f(x)` -/
theorem formula_quadratic_equality (k h : K) (n : Int) (y : List K) (c fx : K) (hp : ¬ (h = 0 ∧ n < 0)) :
    evalStack [({ t := .qEq, k := k, h := h, n := n, y := y }, some c)] fx = .ok (k * h ^ n * c ^ 2 + fx) :=
  evalStack_single_add fx (term_qEq k h n y c hp)

/-- linear_equality: `p(x) = k*h^n*|c| + f(x)` -/
theorem formula_linear_equality (k h : K) (n : Int) (y : List K) (c fx : K) (hp : ¬ (h = 0 ∧ n < 0)) :
    evalStack [({ t := .lEq, k := k, h := h, n := n, y := y }, some c)] fx = .ok (k * h ^ n * |c| + fx) :=
  evalStack_single_add fx (term_lEq k h n y c hp)

/-- uniform_equality: `k*h^n` is added iff `c ≠ 0` (and `pow` is not even evaluated where `c = 0`) -/
theorem formula_uniform_equality (k h : K) (n : Int) (y : List K) (c fx : K) (hp : ¬ (h = 0 ∧ n < 0)) :
    evalStack [({ t := .uEq, k := k, h := h, n := n, y := y }, some c)] fx =
      .ok ((if c = 0 then 0 else k * h ^ n) + fx) := by
  by_cases hc : c = 0
  · subst hc; rw [if_pos rfl]; exact evalStack_single_add fx (term_uEq_zero k h n y)
  · rw [if_neg hc]; exact evalStack_single_add fx (term_uEq_ne k h n y c hc hp)

/-- uniform_inequality: `k*h^n` is added iff `c > 0` -/
theorem formula_uniform_inequality (k h : K) (n : Int) (y : List K) (c fx : K) (hp : ¬ (h = 0 ∧ n < 0)) :
    evalStack [({ t := .uIneq, k := k, h := h, n := n, y := y }, some c)] fx =
      .ok ((if 0 < c then k * h ^ n else 0) + fx) := by
  by_cases hc : 0 < c
  · rw [if_pos hc]; exact evalStack_single_add fx (term_uIneq_gt k h n y c hc hp)
  · rw [if_neg hc]; exact evalStack_single_add fx (term_uIneq_le k h n y c (not_lt.mp hc))

/-- quadratic_inequality: `p(x) = 2*k*h^n*max(0,c)^2 + f(x)` (the factor 2) -/
theorem formula_quadratic_inequality (k h : K) (n : Int) (y : List K) (c fx : K) (hp : ¬ (h = 0 ∧ n < 0)) :
    evalStack [({ t := .qIneq, k := k, h := h, n := n, y := y }, some c)] fx =
      .ok (2 * k * h ^ n * (max 0 c) ^ 2 + fx) :=
  evalStack_single_add fx (term_qIneq k h n y c hp)

/-- linear_inequality: `p(x) = 2*k*h^n*max(0,c) + f(x)` -/
theorem formula_linear_inequality (k h : K) (n : Int) (y : List K) (c fx : K) (hp : ¬ (h = 0 ∧ n < 0)) :
    evalStack [({ t := .lIneq, k := k, h := h, n := n, y := y }, some c)] fx =
      .ok (2 * k * h ^ n * max 0 c + fx) :=
  evalStack_single_add fx (term_lIneq k h n y c hp)

/-- barrier_inequality: `inf` where violated (the decorated function is not even called), otherwise
`-1/(2*k*h^n) * log(-c) + f(x)` -/
theorem formula_barrier_inequality (k h : K) (n : Int) (y : List K) (c fx : K) (hp : ¬ (h = 0 ∧ n < 0))
    (hk : k * h ^ n ≠ 0) :
    evalStack [({ t := .barrier, k := k, h := h, n := n, y := y }, some c)] fx =
      .ok (if 0 < c then PenOps.inf else -1 / (2 * (k * h ^ n)) * PenOps.log (-c) + fx) := by
  by_cases hc : 0 < c
  · rw [if_pos hc]; simp only [evalStack, term_barrier_viol k h n y c hc]
  · rw [if_neg hc, evalStack_single_add fx (term_barrier_sat k h n y c (not_lt.mp hc) hp hk)]
    congr 3
    field_simp

/-- lagrange_equality: `p(x) = K_n*c^2 + λ_n*c + f(x)` with `K_n = k*h^n` and the accumulated multiplier
`λ_n = Σ_{i<n} 2*k*h^i*stored(i)` (a missing `stored(i)` counts as 0; `n < 0` behaves as `n = 0`) -/
theorem formula_lagrange_equality (k h : K) (n : Int) (y : List K) (c fx : K) :
    evalStack [({ t := .lagEq, k := k, h := h, n := n, y := y }, some c)] fx =
      .ok (k * h ^ n.toNat * c ^ 2 + (∑ i ∈ Finset.range n.toNat, 2 * k * h ^ i * storedAt y (i : Int)) * c + fx) :=
  evalStack_single_add fx (term_lagEq k h n y c)

/-- lagrange_inequality, the multiplier loop: with `k, h > 0` the code's
`beta += 2*_k*max(-beta/(2*_k), stored(i)); _k *= h` never divides by zero and computes
`β_0 = 0, β_{i+1} = max 0 (β_i + 2*k*h^i*stored(i))` (the clipped accumulation `betaLoop`), `_k = k*h^n`;
in particular `β_n ≥ 0`. -/
theorem lagrange_inequality_multiplier (k h : K) (y : List K) (m : Nat) (hk : 0 < k) (hh : 0 < h) :
    lagIneqLoop h y m 0 0 k = .ok (betaLoop h y m 0 0 k) ∧ (betaLoop h y m 0 0 k).2 = k * h ^ m
      ∧ 0 ≤ (betaLoop h y m 0 0 k).1
      ∧ (∀ (i : Nat) (b q : K), betaLoop h y (m + 1) i b q
          = betaLoop h y m (i + 1) (max 0 (b + 2 * q * storedAt y (i : Int))) (q * h)) :=
  ⟨lagIneqLoop_eq h y hh m 0 0 k hk, betaLoop_snd h y m 0 0 k, betaLoop_nonneg h y m 0 0 k (le_refl 0),
   fun _ _ _ => rfl⟩

/-- lagrange_inequality: `p(x) = K_n*m^2 + β_n*m + f(x)` with `m = max(-β_n/(2*K_n), c)` -/
theorem formula_lagrange_inequality (k h : K) (n : Int) (y : List K) (c fx : K) (hk : 0 < k) (hh : 0 < h) :
    evalStack [({ t := .lagIneq, k := k, h := h, n := n, y := y }, some c)] fx =
      .ok (k * h ^ n.toNat * (max (-(betaLoop h y n.toNat 0 0 k).1 / (2 * (k * h ^ n.toNat))) c) ^ 2
        + (betaLoop h y n.toNat 0 0 k).1 * max (-(betaLoop h y n.toNat 0 0 k).1 / (2 * (k * h ^ n.toNat))) c + fx) :=
  evalStack_single_add fx (term_lagIneq k h n y c hk hh)

/-! ## zero on the feasible set, strictly positive where violated -/

/-- **no added penalty where satisfied**: for the six conforming types, `p(x) = f(x)` exactly wherever the
condition holds (`== 0` / `<= 0`), for every `k`, `h`, iteration and stored history. -/
theorem zero_on_feasible (l : Level K) (c fx : K) (hconf : conforming l.t) (hp : ¬ (l.h = 0 ∧ l.n < 0))
    (hsat : satisfied l.t c) : evalStack [(l, some c)] fx = .ok fx := by
  obtain ⟨t, k, h, n, y⟩ := l
  simp only at hconf hp hsat
  rcases hconf with rfl | rfl | rfl | rfl | rfl | rfl
  · have hc : c = 0 := by simpa [satisfied, PType.isEq] using hsat
    rw [formula_quadratic_equality k h n y c fx hp, hc]; simp
  · have hc : c = 0 := by simpa [satisfied, PType.isEq] using hsat
    rw [formula_linear_equality k h n y c fx hp, hc]; simp
  · have hc : c = 0 := by simpa [satisfied, PType.isEq] using hsat
    rw [formula_uniform_equality k h n y c fx hp, if_pos hc]; simp
  · have hc : c ≤ 0 := by simpa [satisfied, PType.isEq] using hsat
    rw [formula_uniform_inequality k h n y c fx hp, if_neg (not_lt.mpr hc)]; simp
  · have hc : c ≤ 0 := by simpa [satisfied, PType.isEq] using hsat
    rw [formula_quadratic_inequality k h n y c fx hp, max_eq_left hc]; simp
  · have hc : c ≤ 0 := by simpa [satisfied, PType.isEq] using hsat
    rw [formula_linear_inequality k h n y c fx hp, max_eq_left hc]; simp

/-- **strictly positive where violated**: for the six conforming types with `k, h > 0`, `p(x) > f(x)` wherever
the condition is violated. -/
theorem positive_on_violation (l : Level K) (c fx : K) (hconf : conforming l.t) (hk : 0 < l.k) (hh : 0 < l.h)
    (hviol : ¬ satisfied l.t c) : ∃ v, evalStack [(l, some c)] fx = .ok v ∧ fx < v := by
  obtain ⟨t, k, h, n, y⟩ := l
  simp only at hconf hk hh hviol
  have hp : ¬ (h = 0 ∧ n < 0) := fun hh0 => (ne_of_gt hh) hh0.1
  have hK : 0 < k * h ^ n := mul_pos hk (zpow_pos hh n)
  rcases hconf with rfl | rfl | rfl | rfl | rfl | rfl
  · have hc : c ≠ 0 := by simpa [satisfied, PType.isEq] using hviol
    refine ⟨_, formula_quadratic_equality k h n y c fx hp, ?_⟩
    have : 0 < c ^ 2 := by positivity
    nlinarith [mul_pos hK this]
  · have hc : c ≠ 0 := by simpa [satisfied, PType.isEq] using hviol
    refine ⟨_, formula_linear_equality k h n y c fx hp, ?_⟩
    have : 0 < |c| := abs_pos.mpr hc
    nlinarith [mul_pos hK this]
  · have hc : c ≠ 0 := by simpa [satisfied, PType.isEq] using hviol
    refine ⟨_, formula_uniform_equality k h n y c fx hp, ?_⟩
    rw [if_neg hc]; linarith
  · have hc : 0 < c := by simpa [satisfied, PType.isEq] using hviol
    refine ⟨_, formula_uniform_inequality k h n y c fx hp, ?_⟩
    rw [if_pos hc]; linarith
  · have hc : 0 < c := by simpa [satisfied, PType.isEq] using hviol
    refine ⟨_, formula_quadratic_inequality k h n y c fx hp, ?_⟩
    rw [max_eq_right (le_of_lt hc)]
    have : 0 < c ^ 2 := by positivity
    nlinarith [mul_pos hK this]
  · have hc : 0 < c := by simpa [satisfied, PType.isEq] using hviol
    refine ⟨_, formula_linear_inequality k h n y c fx hp, ?_⟩
    rw [max_eq_right (le_of_lt hc)]
    nlinarith [mul_pos hK hc]

/-! ## stacked penalties add; a condition that divides by zero yields `inf` -/

/-- **stacked penalties add**: if level `i` contributes the amount `a_i` (any of the formulas above), the
stack returns `a_1 + (a_2 + (... + f(x)))`, i.e. `f(x) + Σ a_i` -/
theorem stacked_add (ps : List (Level K × K)) (as : List K) (fx : K)
    (h : List.Forall₂ (fun p a => term p.1 p.2 = .ok (.add a)) ps as) :
    evalStack (ps.map fun p => (p.1, some p.2)) fx = .ok (fx + as.sum) := by
  induction h with
  | nil => simp [evalStack]
  | cons hpa _ ih =>
    rw [List.map_cons, evalStack_cons_add _ fx hpa, ih]
    simp only [List.sum_cons]
    congr 1; ring

/-- a conforming level always reaches `... + f(x)` (it never returns early) -/
theorem term_conforming (l : Level K) (c : K) (hconf : conforming l.t) (hp : ¬ (l.h = 0 ∧ l.n < 0)) :
    ∃ a, term l c = .ok (.add a) := by
  obtain ⟨t, k, h, n, y⟩ := l
  simp only at hconf hp
  rcases hconf with rfl | rfl | rfl | rfl | rfl | rfl
  · exact ⟨_, term_qEq k h n y c hp⟩
  · exact ⟨_, term_lEq k h n y c hp⟩
  · by_cases hc : c = 0
    · subst hc; exact ⟨_, term_uEq_zero k h n y⟩
    · exact ⟨_, term_uEq_ne k h n y c hc hp⟩
  · by_cases hc : 0 < c
    · exact ⟨_, term_uIneq_gt k h n y c hc hp⟩
    · exact ⟨_, term_uIneq_le k h n y c (not_lt.mp hc)⟩
  · exact ⟨_, term_qIneq k h n y c hp⟩
  · exact ⟨_, term_lIneq k h n y c hp⟩

/-- the amount a conforming level adds (`k, h > 0`): never negative, zero where satisfied, positive where violated -/
theorem amount_sign (l : Level K) (c : K) (hconf : conforming l.t) (hk : 0 < l.k) (hh : 0 < l.h) :
    ∃ a, term l c = .ok (.add a) ∧ 0 ≤ a ∧ (satisfied l.t c → a = 0) ∧ (¬ satisfied l.t c → 0 < a) := by
  have hp : ¬ (l.h = 0 ∧ l.n < 0) := fun h0 => (ne_of_gt hh) h0.1
  obtain ⟨a, hta⟩ := term_conforming l c hconf hp
  have hz : satisfied l.t c → a = 0 := by
    intro hs
    have h1 := zero_on_feasible l c 0 hconf hp hs
    rw [evalStack_single_add 0 hta] at h1
    have := Except.ok.inj h1
    linarith
  have hpos : ¬ satisfied l.t c → 0 < a := by
    intro hs
    obtain ⟨v, hv, hlt⟩ := positive_on_violation l c 0 hconf hk hh hs
    rw [evalStack_single_add 0 hta] at hv
    have := Except.ok.inj hv
    linarith
  refine ⟨a, hta, ?_, hz, hpos⟩
  by_cases hs : satisfied l.t c
  · exact le_of_eq (hz hs).symm
  · exact le_of_lt (hpos hs)

/-- a whole stack of conforming levels adds nothing where every condition is satisfied -/
theorem stack_zero_on_feasible (ps : List (Level K × K)) (fx : K)
    (h : ∀ p ∈ ps, conforming p.1.t ∧ ¬ (p.1.h = 0 ∧ p.1.n < 0) ∧ satisfied p.1.t p.2) :
    evalStack (ps.map fun p => (p.1, some p.2)) fx = .ok fx := by
  induction ps with
  | nil => simp [evalStack]
  | cons p ps ih =>
    obtain ⟨h1, h2, h3⟩ := h p (by simp)
    obtain ⟨a, hta⟩ := term_conforming p.1 p.2 h1 h2
    have hz := zero_on_feasible p.1 p.2 fx h1 h2 h3
    rw [evalStack_single_add fx hta] at hz
    have ha : a + fx = fx := Except.ok.inj hz
    rw [List.map_cons, evalStack_cons_add _ fx hta, ih (fun q hq => h q (by simp [hq]))]
    simp only [ha]

/-- a whole stack of conforming levels (`k, h > 0`) never returns less than `f(x)`, and strictly more as soon
as one of the conditions is violated -/
theorem stack_positive_on_violation (ps : List (Level K × K)) (fx : K)
    (h : ∀ p ∈ ps, conforming p.1.t ∧ 0 < p.1.k ∧ 0 < p.1.h) :
    ∃ v, evalStack (ps.map fun p => (p.1, some p.2)) fx = .ok v ∧ fx ≤ v ∧
      ((∃ p ∈ ps, ¬ satisfied p.1.t p.2) → fx < v) := by
  induction ps with
  | nil => exact ⟨fx, by simp [evalStack], le_refl _, by simp⟩
  | cons p ps ih =>
    obtain ⟨h1, h2, h3⟩ := h p (by simp)
    obtain ⟨a, hta, ha0, _, hapos⟩ := amount_sign p.1 p.2 h1 h2 h3
    obtain ⟨v, hv, hle, hlt⟩ := ih (fun q hq => h q (by simp [hq]))
    refine ⟨a + v, ?_, by linarith, ?_⟩
    · rw [List.map_cons, evalStack_cons_add _ fx hta, hv]
    · rintro ⟨q, hq, hqv⟩
      rcases List.mem_cons.mp hq with rfl | hq'
      · have := hapos hqv; linarith
      · have := hlt ⟨q, hq', hqv⟩; linarith

/-- **division by zero**: a condition that raises `ZeroDivisionError` makes `p(x) = inf`
(and nothing further in is evaluated) -/
theorem div_zero_top (l : Level K) (rest : List (Level K × Option K)) (fx : K) :
    evalStack ((l, none) :: rest) fx = .ok PenOps.inf := rfl

/-- ... also from inside a stack, for every scalar structure in which `inf` absorbs addition
(true of `+inf` against every float except `-inf` and `nan`) -/
theorem div_zero_top_stack {R : Type} [Add R] [Mul R] [Div R] [Neg R] [LT R] [DecidableLT R] [BEq R]
    [OfNat R 0] [OfNat R 1] [OfNat R 2] [PenOps R] (habs : ∀ a : R, a + PenOps.inf = PenOps.inf)
    (outer : List (Level R × R)) (as : List R) (l : Level R) (rest : List (Level R × Option R)) (fx : R)
    (h : List.Forall₂ (fun p a => term p.1 p.2 = .ok (.add a)) outer as) :
    evalStack ((outer.map fun p => (p.1, some p.2)) ++ (l, none) :: rest) fx = .ok PenOps.inf := by
  induction h with
  | nil => rfl
  | cons hpa _ ih =>
    simp only [List.map_cons, List.cons_append, evalStack, hpa, ih, habs]

/-- `coupler.additive(p)(f)(x) = f(x) + p(x)` -/
theorem additive_spec (px fx : K) : additive px fx = fx + px := rfl

/-! ## `error(x)` is the violation magnitude -/

/-- single penalty: `error(x) = |c|` for equality types and `max(0, c)` for inequality types -/
theorem error_spec [LawfulRoot K] (l : Level K) (c : K) :
    errStack [(l, some c)] = if l.t.isEq = true then |c| else max 0 c := by
  simp only [errStack, root_sq_eq_abs, viol]
  split
  · rfl
  · rw [pyMax_eq, abs_of_nonneg (le_max_left 0 c)]

/-- nested penalties: `error(x)` is the non-negative root of the sum of the squared violations of all levels -/
theorem error_nested [LawfulRoot K] (ps : List (Level K × K)) (hne : ps ≠ []) :
    0 ≤ errStack (ps.map fun p => (p.1, some p.2)) ∧
    errStack (ps.map fun p => (p.1, some p.2)) * errStack (ps.map fun p => (p.1, some p.2))
      = (ps.map fun p => viol p.1.t p.2 * viol p.1.t p.2).sum := by
  induction ps with
  | nil => exact absurd rfl hne
  | cons p ps ih =>
    cases ps with
    | nil =>
      simp only [List.map_cons, List.map_nil, errStack, root_sq_eq_abs, List.sum_cons, List.sum_nil, add_zero]
      exact ⟨abs_nonneg _, abs_mul_abs_self _⟩
    | cons q qs =>
      obtain ⟨h1, h2⟩ := ih (by simp)
      simp only [List.map_cons] at h1 h2 ⊢
      simp only [errStack, LawfulPenOps.sq_eq, List.sum_cons]
      have hs : 0 ≤ viol p.1.t p.2 * viol p.1.t p.2
          + errStack ((q.1, some q.2) :: List.map (fun p => (p.1, some p.2)) qs)
            * errStack ((q.1, some q.2) :: List.map (fun p => (p.1, some p.2)) qs) :=
        add_nonneg (mul_self_nonneg _) (mul_self_nonneg _)
      refine ⟨LawfulRoot.root_nonneg _ hs, ?_⟩
      rw [LawfulRoot.root_mul_self _ hs, h2]
      simp only [List.sum_cons]

/-- a condition that divides by zero makes `error(x) = inf` -/
theorem error_div_zero (l : Level K) (rest : List (Level K × Option K)) :
    errStack ((l, none) :: rest) = PenOps.inf := by
  cases rest <;> rfl

/-- ... also from inside a stack, for every scalar structure in which `inf` absorbs the root of a sum of squares
(true of the floats: `sqrt(a + inf) = inf` for every `a` that is not `nan`) -/
theorem error_div_zero_nested {R : Type} [Add R] [LT R] [DecidableLT R] [OfNat R 0] [PenOps R]
    (hroot : ∀ a : R, PenOps.root (a + PenOps.sq PenOps.inf) = PenOps.inf)
    (outer : List (Level R × R)) (l : Level R) (rest : List (Level R × Option R)) :
    errStack ((outer.map fun p => (p.1, some p.2)) ++ (l, none) :: rest) = PenOps.inf := by
  induction outer with
  | nil => cases rest <;> rfl
  | cons p ps ih =>
    cases hps : (ps.map fun p => (p.1, some p.2)) ++ (l, none) :: rest with
    | nil => simp at hps
    | cons q qs =>
      rw [hps] at ih
      simp only [List.map_cons, List.cons_append, hps, errStack, ih, hroot]

/-! ## `iter`, `clear`, `store`: exactly the iteration state changes, at every nesting level -/

/-- `iter()` advances the iteration of every level by one -/
theorem iter_advances (ls : List (Level K)) :
    (iterStack none ls).map (·.n) = ls.map (·.n + 1) := by
  simp [iterStack, Function.comp_def]

/-- `iter(i)` sets the iteration of every level to `i` -/
theorem iter_sets (i : Int) (ls : List (Level K)) :
    (iterStack (some i) ls).map (·.n) = ls.map (fun _ => i) := by
  simp [iterStack, Function.comp_def]

/-- `clear()` resets the iteration and empties the stored values at every level -/
theorem clear_resets (ls : List (Level K)) :
    ∀ l ∈ clearStack ls, l.n = 0 ∧ l.y = [] := by
  intro l hl
  simp only [clearStack, List.mem_map] at hl
  obtain ⟨l0, _, rfl⟩ := hl
  exact ⟨rfl, rfl⟩

/-- ... and touch nothing else: type, `k`, `h` (and for `iter` the stored values) of every level are unchanged,
no level appears or disappears -/
theorem iter_clear_frame (i : Option Int) (ls : List (Level K)) :
    (iterStack i ls).map (fun l => (l.t, l.k, l.h, l.y)) = ls.map (fun l => (l.t, l.k, l.h, l.y)) ∧
    (clearStack ls).map (fun l => (l.t, l.k, l.h)) = ls.map (fun l => (l.t, l.k, l.h)) := by
  constructor <;> simp [iterStack, clearStack, Function.comp_def]

/-- an operation through the handle of level `j` leaves the levels outside it alone -/
theorem handle_frame (j : Nat) (f : List (Level K) → List (Level K)) (ls : List (Level K)) (hj : j ≤ ls.length) :
    (onFrom j f ls).take j = ls.take j ∧ (onFrom j f ls).drop j = f (ls.drop j) := by
  unfold onFrom
  have hl : (ls.take j).length = j := by simp [hj]
  constructor
  · rw [List.take_append_of_le_length (by omega), List.take_of_length_le (by omega)]
  · rw [List.drop_append_of_le_length (by omega), List.drop_of_length_le (by omega), List.nil_append]

/-- the iteration counter after ANY history of `iter()` / `iter(i)` / `clear()` calls -/
inductive CtrOp where
  | iter | iterI (i : Int) | clear

def CtrOp.apply (o : CtrOp) (ls : List (Level K)) : List (Level K) :=
  match o with
  | .iter => iterStack none ls
  | .iterI i => iterStack (some i) ls
  | .clear => clearStack ls

def CtrOp.count (o : CtrOp) (n : Int) : Int :=
  match o with
  | .iter => n + 1
  | .iterI i => i
  | .clear => 0

/-- for every history `os`, every level's `iteration()` is the counter semantics applied to its initial value
(so nested penalties that start together stay together) -/
theorem iteration_history (os : List CtrOp) (ls : List (Level K)) :
    (os.foldl (fun s o => o.apply s) ls).map (·.n) = ls.map (fun l => os.foldl (fun n o => o.count n) l.n) := by
  induction os generalizing ls with
  | nil => simp
  | cons o os ih =>
    simp only [List.foldl_cons]
    rw [ih]
    cases o <;> simp [CtrOp.apply, CtrOp.count, iterStack, clearStack, Function.comp_def]

/-- `store` changes no type, `k`, `h` or iteration, and only Lagrange levels record anything -/
theorem store_frame (i : Option Int) (ps : List (Level K × Option K)) :
    (storeStack i ps).1.map (fun l => (l.t, l.k, l.h, l.n)) = ps.map (fun p => (p.1.t, p.1.k, p.1.h, p.1.n)) ∧
    List.Forall₂ (fun l' p => p.1.t.isLag = false → l'.y = p.1.y) (storeStack i ps).1 ps := by
  induction ps generalizing i with
  | nil => simp [storeStack]
  | cons p ps ih =>
    obtain ⟨l, c⟩ := p
    by_cases hlag : l.t.isLag = true
    · simp only [storeStack, hlag, if_true]
      obtain ⟨h1, h2⟩ := ih (some (storeIdx i l.n))
      by_cases hA : (l.y.length : Int) ≤ storeIdx i l.n
      · rw [if_pos hA]
        exact ⟨by simp [h1], List.Forall₂.cons (by simp [hlag]) h2⟩
      · rw [if_neg hA]
        by_cases hB : -(l.y.length : Int) ≤ storeIdx i l.n
        · rw [if_pos hB]
          exact ⟨by simp [h1], List.Forall₂.cons (by simp [hlag]) h2⟩
        · rw [if_neg hB]
          refine ⟨by simp [Function.comp_def], List.Forall₂.cons (fun _ => rfl) ?_⟩
          rw [List.forall₂_map_left_iff]
          exact List.forall₂_same.mpr (fun _ _ _ => rfl)
    · simp only [storeStack, hlag]
      obtain ⟨h1, h2⟩ := ih i
      exact ⟨by simp [h1], List.Forall₂.cons (fun _ => rfl) h2⟩

/-- `store(x)` at a Lagrange level with iteration `n ≥ 0` records the condition value (`inf` if it divided by
zero) as `stored(n)` and leaves every other `stored(i)` as it was (a gap is filled with zeros) -/
theorem store_spec (l : Level K) (c : Option K) (hlag : l.t.isLag = true) (hn : 0 ≤ l.n) :
    ∃ l', (storeStack none [(l, c)]) = ([l'], none) ∧
      storedAt l'.y l.n = (match c with | some a => a | none => PenOps.inf) ∧
      ∀ i : Nat, (i : Int) ≠ l.n → storedAt l'.y i = storedAt l.y i := by
  obtain ⟨m, hm⟩ := Int.eq_ofNat_of_zero_le hn
  simp only [storeStack, hlag, if_true, storeIdx, hm]
  by_cases hlen : (l.y.length : Int) ≤ (m : Int)
  · rw [if_pos hlen]
    refine ⟨_, rfl, ?_, ?_⟩
    · have hl : l.y.length ≤ m := by omega
      simp only [storedAt]
      rw [if_pos (by omega)]
      have e : ((m : Int) - (l.y.length : Int)).toNat = m - l.y.length := by omega
      simp only [Int.toNat_natCast, e]
      rw [List.getElem?_append_right (by omega), List.getElem?_append_right (by simp)]
      simp
      cases c <;> rfl
    · intro i hi
      have hne : i ≠ m := by intro h; apply hi; rw [h]
      have e : ((m : Int) - (l.y.length : Int)).toNat = m - l.y.length := by omega
      simp only [storedAt]
      rw [if_pos (by omega), if_pos (by omega)]
      simp only [Int.toNat_natCast, e]
      by_cases h1 : i < l.y.length
      · rw [List.getElem?_append_left h1]
      · rw [List.getElem?_append_right (by omega)]
        rw [List.getElem?_eq_none (by omega : l.y.length ≤ i)]
        by_cases h2 : i - l.y.length < m - l.y.length
        · rw [List.getElem?_append_left (by simpa using h2)]
          simp [h2]
        · rw [List.getElem?_append_right (by simpa using Nat.le_of_not_lt h2)]
          have : 0 < i - l.y.length - (List.replicate (m - l.y.length) (0 : K)).length := by
            simp; omega
          rw [List.getElem?_eq_none (by simp; omega)]
  · rw [if_neg hlen, if_pos (by omega)]
    refine ⟨_, rfl, ?_, ?_⟩
    · simp only [storedAt, setPy]
      rw [if_pos (by omega), if_pos (by omega)]
      simp only [Int.toNat_natCast]
      rw [List.getElem?_set_self (by omega)]
      rfl
    · intro i hi
      have hne : m ≠ i := by intro h; apply hi; rw [h]
      simp only [storedAt, setPy]
      rw [if_pos (by omega), if_pos (by omega), if_pos (by omega)]
      simp only [Int.toNat_natCast]
      rw [List.getElem?_set_ne hne]

/-! ## adapters and combinators: `constraints.as_penalty`, `coupler.and_ / or_ / not_` -/

/-- `as_penalty`: the condition `rnorm` is non-negative and zero exactly where the constraint leaves `x` unchanged -/
theorem rnorm_zero_iff [LawfulRoot K] (x cx : List K) (hlen : cx.length = x.length) :
    0 ≤ rnorm x cx ∧ (rnorm x cx = 0 ↔ cx = x) := by
  unfold rnorm
  rw [rnorm_fold, zero_add]
  have h0 := sumsq_nonneg (List.zip cx x)
  have hr := LawfulRoot.root_mul_self _ h0
  refine ⟨LawfulRoot.root_nonneg _ h0, ?_⟩
  rw [← zip_eq_iff cx x hlen, ← sumsq_zero_iff]
  constructor
  · intro h; rw [h] at hr; simpa using hr.symm
  · intro h
    rw [h] at hr ⊢
    exact mul_self_eq_zero.mp hr

/-- the conditions the `coupler` combinators hand to their penalty type: `and_` the sum of the member penalties,
`or_` their minimum, `not_` the negated condition (inequality types) / the indicator of `c = 0` (equality types) -/
theorem combinator_conditions (v : K) (vals : List K) (t : PType) (c : K) :
    andCond vals = vals.sum ∧ orCond v vals = vals.foldl min v ∧
    (t.isEq = false → notCond t c = -c) ∧ (t.isEq = true → notCond t c = if c = 0 then 1 else 0) := by
  refine ⟨?_, ?_, ?_, ?_⟩
  · unfold andCond; rw [foldl_add_eq]; simp
  · unfold orCond
    have : (pyMin : K → K → K) = min := by funext a b; exact pyMin_eq a b
    rw [this]
  · intro h; simp [notCond, h]
  · intro h; simp [notCond, h]

/-! ## the three types whose documented formula does NOT satisfy the zero / positivity clause (F8)

Negations on concrete witnesses, over every ordered field; the same inputs are replayed on the implementation
by the harness (`c15.witness_specs`) and listed in `known_findings.d/C15.json`. -/

/-- barrier_inequality (k=100, h=5, n=0): `c = -1/2` satisfies `c ≤ 0`, yet `-log(1/2)/200` is added -
non-zero whenever `log(1/2) ≠ 0` -/
theorem barrier_not_zero_on_feasible_witness (hlog : PenOps.log (1 / 2 : K) ≠ 0) :
    satisfied (K := K) .barrier (-1 / 2) ∧
    evalStack [(({ t := .barrier, k := 100, h := 5, n := 0, y := [] } : Level K), some (-1 / 2 : K))] 1 ≠ .ok 1 := by
  refine ⟨by simp [satisfied, PType.isEq]; norm_num, ?_⟩
  rw [formula_barrier_inequality 100 5 0 [] (-1 / 2) 1 (by simp) (by norm_num)]
  rw [if_neg (by norm_num)]
  intro h
  have h1 : (-1 : K) / (2 * (100 * 5 ^ (0 : Int))) * PenOps.log (-(-1 / 2)) + 1 = 1 := Except.ok.inj h
  have e : (-(-1 / 2) : K) = 1 / 2 := by norm_num
  rw [e] at h1
  have h2 : (-1 : K) / (2 * (100 * 5 ^ (0 : Int))) * PenOps.log (1 / 2) = 0 := by linarith
  rcases mul_eq_zero.mp h2 with h3 | h3
  · norm_num at h3
  · exact hlog h3

/-- lagrange_inequality (k=20, h=5) after `store` of a violated value `1` and one `iter()`: `β = 40`, `K = 100`;
at the SATISFIED value `c = -1/8` the amount `100/64 - 5 < 0` is added -/
theorem lagrange_inequality_negative_on_feasible_witness :
    satisfied (K := K) .lagIneq (-1 / 8) ∧
    evalStack [(({ t := .lagIneq, k := 20, h := 5, n := 1, y := [1] } : Level K), some (-1 / 8 : K))] 1
      = .ok (100 * (-1 / 8) ^ 2 + 40 * (-1 / 8) + 1) ∧ (100 * (-1 / 8 : K) ^ 2 + 40 * (-1 / 8) + 1) < 1 := by
  refine ⟨by simp [satisfied, PType.isEq]; norm_num, ?_, by norm_num⟩
  rw [formula_lagrange_inequality 20 5 1 [1] (-1 / 8) 1 (by norm_num) (by norm_num)]
  have hb : (betaLoop (5 : K) [1] (1 : Int).toNat 0 0 20).1 = 40 := by
    simp [betaLoop, storedAt]; norm_num
  rw [hb]
  have hm : max (-(40 : K) / (2 * (20 * 5 ^ (1 : Int).toNat))) (-1 / 8) = -1 / 8 := by
    apply max_eq_right; norm_num
  rw [hm]
  congr 1; norm_num

/-- lagrange_equality (k=20, h=5) after `store` of `1` and one `iter()`: `λ = 40`, `K = 100`; at the VIOLATED
value `c = -1/8` the amount `100/64 - 5 < 0` is added: the penalty rewards the violation -/
theorem lagrange_equality_negative_on_violation_witness :
    ¬ satisfied (K := K) .lagEq (-1 / 8) ∧
    evalStack [(({ t := .lagEq, k := 20, h := 5, n := 1, y := [1] } : Level K), some (-1 / 8 : K))] 1
      = .ok (100 * (-1 / 8) ^ 2 + 40 * (-1 / 8) + 1) ∧ (100 * (-1 / 8 : K) ^ 2 + 40 * (-1 / 8) + 1) < 1 := by
  refine ⟨by simp [satisfied, PType.isEq], ?_, by norm_num⟩
  rw [formula_lagrange_equality]
  congr 1
  simp [storedAt]; norm_num

/-! ## non-vacuity: the hypotheses are satisfiable by concrete, non-trivial instances -/

section examples

/-- the rationals with the exact operations (root: junk, not used without `LawfulRoot`) -/
local instance : PenOps ℚ := ⟨fun a n => a ^ n, fun a => a * a, fun _ => 0, fun a => |a|, fun _ => 0, 0⟩
local instance : LawfulPenOps ℚ := ⟨fun _ _ => rfl, fun _ => rfl, fun _ => rfl⟩

-- a violated and a satisfied point of a quadratic_inequality at iteration 2 (k=100, h=5): 2*100*25*(1/2)^2 = 1250
example : evalStack [(({ t := .qIneq, k := 100, h := 5, n := 2, y := [] } : Level ℚ), some (1 / 2 : ℚ))] 3 = .ok 1253 := by
  rw [formula_quadratic_inequality _ _ _ _ _ _ (by norm_num)]; congr 1; norm_num
example : conforming PType.qIneq ∧ satisfied PType.qIneq (-3 : ℚ) ∧ ¬ satisfied PType.qIneq (1 / 2 : ℚ)
    ∧ ¬ ((5 : ℚ) = 0 ∧ (2 : Int) < 0) := by
  refine ⟨by simp [conforming], by simp [satisfied, PType.isEq], by simp [satisfied, PType.isEq], by norm_num⟩

-- a two-level stack whose terms are both `add` (hypothesis of `stacked_add`)
example : List.Forall₂ (fun (p : Level ℚ × ℚ) a => term p.1 p.2 = .ok (.add a))
    [({ t := .lEq, k := 2, h := 3, n := 1, y := [] }, -2), ({ t := .uIneq, k := 7, h := 1, n := 0, y := [] }, 1)]
    [2 * 3 ^ (1 : Int) * |(-2 : ℚ)|, 7 * 1 ^ (0 : Int)] :=
  .cons (term_lEq _ _ _ _ _ (by norm_num)) (.cons (term_uIneq_gt _ _ _ _ _ (by norm_num) (by norm_num)) .nil)

/-- the reals: `x**0.5` read as `Real.sqrt` satisfies `LawfulRoot` -/
noncomputable local instance : PenOps ℝ := ⟨fun a n => a ^ n, fun a => a * a, Real.sqrt, fun a => |a|, fun _ => 0, 0⟩
local instance : LawfulPenOps ℝ := ⟨fun _ _ => rfl, fun _ => rfl, fun _ => rfl⟩
local instance : LawfulRoot ℝ := ⟨fun a _ => Real.sqrt_nonneg a, fun _ h => Real.mul_self_sqrt h⟩

-- nested error of a violated equality (c = 3) over a violated inequality (c = 4): the 3-4-5 triangle
example : errStack [(({ t := .lEq, k := 1, h := 1, n := 0, y := [] } : Level ℝ), some (3 : ℝ)),
    (({ t := .lIneq, k := 1, h := 1, n := 0, y := [] } : Level ℝ), some (4 : ℝ))] = 5 := by
  obtain ⟨h1, h2⟩ := error_nested (K := ℝ)
    [(({ t := .lEq, k := 1, h := 1, n := 0, y := [] } : Level ℝ), (3 : ℝ)),
     (({ t := .lIneq, k := 1, h := 1, n := 0, y := [] } : Level ℝ), (4 : ℝ))] (by simp)
  simp only [List.map_cons, List.map_nil] at h1 h2
  have hv : viol PType.lIneq (4 : ℝ) = 4 := by rw [viol]; simp [PType.isEq, pyMax_eq]
  have hw : viol PType.lEq (3 : ℝ) = 3 := by simp [viol, PType.isEq]
  simp only [hv, hw, List.sum_cons, List.sum_nil] at h2
  nlinarith

/-- a scalar structure in which `inf` absorbs addition (hypothesis of `div_zero_top_stack`): `Option ℚ`, `none = inf` -/
def Ext := Option ℚ
local instance : Add Ext := ⟨fun a b => match a, b with | some x, some y => some (x + y) | _, _ => none⟩
local instance : Mul Ext := ⟨fun a b => match a, b with | some x, some y => some (x * y) | _, _ => none⟩
local instance : Div Ext := ⟨fun a b => match a, b with | some x, some y => some (x / y) | _, _ => none⟩
local instance : Neg Ext := ⟨fun a => match a with | some x => some (-x) | none => none⟩
local instance : LT Ext := ⟨fun a b => match a, b with | some x, some y => x < y | some _, none => True | _, _ => False⟩
local instance : DecidableLT Ext := fun a b => by
  cases a <;> cases b <;> simp only [LT.lt] <;> infer_instance
local instance : BEq Ext := ⟨fun a b => match a, b with | some x, some y => x == y | none, none => true | _, _ => false⟩
local instance (n : Nat) : OfNat Ext n := ⟨some (n : ℚ)⟩
local instance : PenOps Ext := ⟨fun a n => a.map (· ^ n), fun a => a.map (fun x => x * x), fun a => a,
  fun a => a.map (|·|), fun a => a, none⟩
example : ∀ a : Ext, a + PenOps.inf = PenOps.inf := by
  intro a; cases a <;> rfl
example : ∀ a : Ext, PenOps.root (a + PenOps.sq PenOps.inf) = PenOps.inf := by
  intro a; cases a <;> rfl

end examples

end MysticVerif.C15

/-! # Penalty OBJECTS: trees built by `coupler.and_ / or_ / not_`, live member penalties, the operation state machine

`Model/PenaltyTree.lean`.  Every object of a tree is a chain of levels; its condition values come from the user's
callables (`env`) and from the member objects.  On every chain the tree functions are the flat ones, so every
theorem above applies to every object of every tree. -/

namespace MysticVerif.C15
open MysticVerif.Pen

section tree
variable {K : Type} [Field K] [LinearOrder K] [IsStrictOrderedRing K] [PenOps K] [LawfulPenOps K]

/-- `p(x)` of ANY object of a tree is `evalStack` of its chain with the condition values the combinators compute -/
theorem tree_eval (env : Env K) (t : PT K) :
    evalT env t = evalStack (chainVals env t) (env.f (baseOf t)) := evalT_eq_evalStack env t

/-- `p.error(x)` likewise -/
theorem tree_error (env : Env K) (t : PT K) : errT env t = errStack (chainVals env t) := errT_eq_errStack env t

/-- **stacked penalties add**, for every object of a tree: `p(x) = f(x) + Σ a_i` over its chain -/
theorem tree_stacked_add (env : Env K) (t : PT K) (ps : List (Level K × K)) (as : List K)
    (hc : chainVals env t = ps.map fun p => (p.1, some p.2))
    (h : List.Forall₂ (fun p a => term p.1 p.2 = .ok (.add a)) ps as) :
    evalT env t = .ok (env.f (baseOf t) + as.sum) := by
  rw [tree_eval, hc]; exact stacked_add ps as _ h

/-- `iter()` / `iter(i)` / `clear()` on an object: its chain gets exactly the flat operation; the CONDITIONS - and with
them every member penalty and its iteration state - and the decorated function are untouched -/
theorem tree_iter_clear (i : Option Int) (t : PT K) :
    (chainLevels (iterT i t) = iterStack i (chainLevels t) ∧ chainConds (iterT i t) = chainConds t
      ∧ baseOf (iterT i t) = baseOf t) ∧
    (chainLevels (clearT t) = clearStack (chainLevels t) ∧ chainConds (clearT t) = chainConds t
      ∧ baseOf (clearT t) = baseOf t) :=
  ⟨chain_iterT i t, chain_clearT t⟩

/-- `store(x, i)` on an object: the flat `store` along its chain with the condition values at `x`; members untouched -/
theorem tree_store (env : Env K) (i : Option Int) (t : PT K) :
    chainLevels (storeT env i t).1 = (storeStack i (chainVals env t)).1
      ∧ (storeT env i t).2 = (storeStack i (chainVals env t)).2
      ∧ chainConds (storeT env i t).1 = chainConds t ∧ baseOf (storeT env i t).1 = baseOf t :=
  chain_storeT env t i

/-- a call on the object at the end of a path acts on exactly that object -/
theorem tree_op_reaches_object (g : PT K → PT K) (p : List Step) (t : PT K) :
    getT p (modT g p t) = (getT p t).map g := get_modT g p t

/-- **nothing but iteration state ever changes**: for EVERY history of `iter / iter(i) / clear / store` calls on
ARBITRARY objects (outer levels, decorated levels, member penalties at any nesting depth) of an arbitrarily nested
tree, the tree with the iteration state (`_n[0]`, `_y`) erased is the same: no type, `k`, `h`, condition, member,
decorated function or shape changes, no level appears or disappears -/
theorem tree_ops_touch_only_iteration_state (os : List (TOp K)) (t : PT K) :
    skelT (os.foldl (fun s o => o.apply s) t) = skelT t := by
  induction os generalizing t with
  | nil => rfl
  | cons o os ih =>
    rw [List.foldl_cons, ih]
    cases o with
    | iter p i => exact skel_modT _ (skel_iterT i) p t
    | clear p => exact skel_modT _ skel_clearT p t
    | store p env i => exact skel_modT _ (fun s => skel_storeT env s i) p t

/-- the counter operations on an object -/
def CtrOp.applyT (o : CtrOp) (t : PT K) : PT K :=
  match o with
  | .iter => iterT none t
  | .iterI i => iterT (some i) t
  | .clear => clearT t

/-- **iter() advances and clear() resets through nested penalties**: after ANY history of `iter()` / `iter(i)` /
`clear()` calls on an object, the iteration of every level of its chain is the counter semantics applied to its
initial value; the conditions (member penalties and their state) and the decorated function are as before -/
theorem tree_iteration_history (os : List CtrOp) (t : PT K) :
    (chainLevels (os.foldl (fun s o => o.applyT s) t)).map (·.n)
        = (chainLevels t).map (fun l => os.foldl (fun n o => o.count n) l.n)
    ∧ chainConds (os.foldl (fun s o => o.applyT s) t) = chainConds t
    ∧ baseOf (os.foldl (fun s o => o.applyT s) t) = baseOf t := by
  have key : ∀ (os : List CtrOp) (t : PT K),
      chainLevels (os.foldl (fun s o => o.applyT s) t) = os.foldl (fun s o => o.apply s) (chainLevels t)
      ∧ chainConds (os.foldl (fun s o => o.applyT s) t) = chainConds t
      ∧ baseOf (os.foldl (fun s o => o.applyT s) t) = baseOf t := by
    intro os
    induction os with
    | nil => intro t; exact ⟨rfl, rfl, rfl⟩
    | cons o os ih =>
      intro t
      simp only [List.foldl_cons]
      obtain ⟨h1, h2, h3⟩ := ih (o.applyT t)
      rw [h1, h2, h3]
      cases o with
      | iter => obtain ⟨a, b, c⟩ := chain_iterT none t; exact ⟨by rw [CtrOp.applyT, a]; rfl, b, c⟩
      | iterI i => obtain ⟨a, b, c⟩ := chain_iterT (some i) t; exact ⟨by rw [CtrOp.applyT, a]; rfl, b, c⟩
      | clear => obtain ⟨a, b, c⟩ := chain_clearT t; exact ⟨by rw [CtrOp.applyT, a]; rfl, b, c⟩
  obtain ⟨h1, h2, h3⟩ := key os t
  exact ⟨by rw [h1]; exact iteration_history os (chainLevels t), h2, h3⟩

/-! ## the combinators -/

/-- `coupler.and_(p1, .., pm, ptype=T, k, h)`: the penalty of type `T` whose condition value is the SUM of the
member penalties' values; a member that raises makes it `inf` -/
theorem and_penalty (env : Env K) (l : Level K) (ms : PL K) (z : Nat) :
    (∀ vals, valsL env ms = some vals →
      evalT env (.pen l (.and ms) (.base z)) = evalStack [(l, some vals.sum)] (env.f z)) ∧
    (valsL env ms = none → evalT env (.pen l (.and ms) (.base z)) = .ok PenOps.inf) := by
  constructor
  · intro vals hv
    rw [tree_eval]
    simp only [chainVals, chain, List.map_cons, List.map_nil, condV, hv, baseOf]
    rw [(combinator_conditions (0 : K) vals .qEq 0).1]
  · intro hv
    simp only [evalT, condV, hv]

/-- `coupler.or_`: the condition value is the MINIMUM of the member penalties' values -/
theorem or_penalty (env : Env K) (l : Level K) (m : PT K) (ms : PL K) (z : Nat) (v : K) (vals : List K)
    (hm : evalT env m = .ok v) (hv : valsL env ms = some vals) :
    evalT env (.pen l (.or m ms) (.base z)) = evalStack [(l, some (vals.foldl min v))] (env.f z) := by
  rw [tree_eval]
  simp only [chainVals, chain, List.map_cons, List.map_nil, condV, hm, hv, baseOf]
  rw [(combinator_conditions v vals .qEq 0).2.1]

/-- `coupler.not_`: the condition value is `-c` (inequality types: satisfied where `c >= 0`) / the indicator of
`c == 0` (equality types: satisfied where `c != 0`); a raising condition gives `inf` -/
theorem not_penalty (env : Env K) (l : Level K) (c : PC K) (z : Nat) (v : K) (hc : condV env c = some v) :
    evalT env (.pen l (.not l.t c) (.base z)) = evalStack [(l, some (notCond l.t v))] (env.f z)
    ∧ (l.t.isEq = false → (satisfied l.t (notCond l.t v) ↔ 0 ≤ v))
    ∧ (l.t.isEq = true → (satisfied l.t (notCond l.t v) ↔ v ≠ 0)) := by
  refine ⟨?_, ?_, ?_⟩
  · rw [tree_eval]
    simp only [chainVals, chain, List.map_cons, List.map_nil, condV, hc, baseOf]
  · intro h
    rw [(combinator_conditions (0 : K) [] l.t v).2.2.1 h]
    simp [satisfied, h]
  · intro h
    rw [(combinator_conditions (0 : K) [] l.t v).2.2.2 h]
    by_cases hv : v = 0 <;> simp [satisfied, h, hv]

/-- a member object made of conforming levels (`k, h > 0`) over a zero base: its value is never negative and is
zero exactly where ALL its conditions are satisfied -/
theorem member_sign (env : Env K) (t : PT K) (ps : List (Level K × K))
    (hc : chainVals env t = ps.map fun p => (p.1, some p.2)) (hz : env.f (baseOf t) = 0)
    (h : ∀ p ∈ ps, conforming p.1.t ∧ 0 < p.1.k ∧ 0 < p.1.h) :
    ∃ v, evalT env t = .ok v ∧ 0 ≤ v ∧ (v = 0 ↔ ∀ p ∈ ps, satisfied p.1.t p.2) := by
  obtain ⟨v, hv, hle, hlt⟩ := stack_positive_on_violation ps 0 h
  refine ⟨v, by rw [tree_eval, hc, hz]; exact hv, hle, ?_, ?_⟩
  · intro h0 p hp
    by_contra hns
    have := hlt ⟨p, hp, hns⟩
    linarith
  · intro hall
    have hz0 := stack_zero_on_feasible ps 0 (fun p hp =>
      ⟨(h p hp).1, fun hh0 => (ne_of_gt (h p hp).2.2) hh0.1, hall p hp⟩)
    rw [hv] at hz0
    exact Except.ok.inj hz0

/-- members of a combination, as a list -/
def membersOf : PL K → List (PT K)
  | .nil => []
  | .cons m rest => m :: membersOf rest

theorem valsL_spec (env : Env K) : ∀ (ms : PL K) (vals : List K),
    valsL env ms = some vals ↔ List.Forall₂ (fun m v => evalT env m = .ok v) (membersOf ms) vals
  | .nil, vals => by
    simp only [valsL, membersOf, Option.some.injEq]
    constructor
    · intro h; rw [← h]; exact .nil
    · intro h; cases h; rfl
  | .cons m rest, vals => by
    simp only [valsL, membersOf]
    cases hm : evalT env m with
    | error e =>
      simp only [reduceCtorEq, false_iff]
      intro h; cases h with | cons h1 _ => rw [hm] at h1; cases h1
    | ok v =>
      cases hr : valsL env rest with
      | none =>
        simp only [reduceCtorEq, false_iff]
        intro h
        cases h with
        | cons h1 h2 => rw [(valsL_spec env rest _).mpr h2] at hr; cases hr
      | some vs =>
        simp only [Option.some.injEq]
        constructor
        · intro h; rw [← h]; exact .cons hm ((valsL_spec env rest vs).mp hr)
        · intro h
          cases h with
          | cons h1 h2 =>
            rw [hm] at h1
            have := (valsL_spec env rest _).mpr h2
            rw [hr] at this
            rw [Except.ok.inj h1, Option.some.inj this]

/-- **and_ = intersection**: with members whose values are never negative, the condition of `and_` is never negative
and is zero exactly where EVERY member is zero -/
theorem and_zero_iff (vals : List K) (h0 : ∀ v ∈ vals, 0 ≤ v) :
    0 ≤ andCond vals ∧ (andCond vals = 0 ↔ ∀ v ∈ vals, v = 0) := by
  rw [(combinator_conditions (0 : K) vals .qEq 0).1]
  induction vals with
  | nil => simp
  | cons a vs ih =>
    obtain ⟨h1, h2⟩ := ih (fun v hv => h0 v (by simp [hv]))
    have ha := h0 a (by simp)
    simp only [List.sum_cons, List.mem_cons, forall_eq_or_imp]
    refine ⟨by linarith, ?_⟩
    constructor
    · intro hs
      have hvs : vs.sum = 0 := by linarith
      exact ⟨by linarith, h2.mp hvs⟩
    · rintro ⟨ha0, hvs⟩
      rw [ha0, h2.mpr hvs]; simp

/-- **or_ = union**: with members whose values are never negative, the condition of `or_` is never negative and is
zero exactly where SOME member is zero -/
theorem or_zero_iff (v : K) (vals : List K) (hv : 0 ≤ v) (h0 : ∀ u ∈ vals, 0 ≤ u) :
    0 ≤ orCond v vals ∧ (orCond v vals = 0 ↔ v = 0 ∨ ∃ u ∈ vals, u = 0) := by
  rw [(combinator_conditions v vals .qEq 0).2.1]
  induction vals generalizing v with
  | nil => simp [hv]
  | cons a vs ih =>
    have ha := h0 a (by simp)
    obtain ⟨h1, h2⟩ := ih (min v a) (le_min hv ha) (fun u hu => h0 u (by simp [hu]))
    simp only [List.foldl_cons]
    refine ⟨h1, ?_⟩
    rw [h2]
    simp only [List.mem_cons, exists_eq_or_imp]
    constructor
    · rintro (hm | hm)
      · rcases le_total v a with hle | hle
        · rw [min_eq_left hle] at hm; exact Or.inl hm
        · rw [min_eq_right hle] at hm; exact Or.inr (Or.inl hm)
      · exact Or.inr (Or.inr hm)
    · rintro (hm | hm | hm)
      · left; rw [hm]; exact min_eq_left ha
      · left; rw [hm]; exact min_eq_right hv
      · exact Or.inr hm

/-! ## the multiplier state machine of the two Lagrange types (`store` / `iter` cycles) -/

/-- one cycle of the augmented-Lagrangian outer loop on a Lagrange level whose history is complete
(`iteration() == len(stored())`): `store(x); iter()` appends the condition value and advances the iteration -/
theorem store_iter_cycle (l : Level K) (c : K) (hlag : l.t.isLag = true) (hn : l.n = l.y.length) :
    (storeStack none [(l, some c)]).2 = none ∧
    iterStack none (storeStack none [(l, some c)]).1 = [{ l with n := l.n + 1, y := l.y ++ [c] }] := by
  simp only [storeStack, hlag, if_true, storeIdx, hn, le_refl, sub_self, Int.toNat_zero, List.replicate_zero,
    List.nil_append, iterStack, List.map_cons, List.map_nil, and_self]

/-- the whole history: `m` cycles `store(x_i); iter()` on a fresh Lagrange penalty leave `iteration() == m` and
`stored() == [c(x_0), .., c(x_{m-1})]` -/
theorem lagrange_cycles (t : PType) (k h : K) (hlag : t.isLag = true) (cs : List K) :
    cs.foldl (fun (ls : List (Level K)) c => iterStack none (storeStack none (ls.map fun l => (l, some c))).1)
      [{ t := t, k := k, h := h, n := 0, y := [] }]
    = [{ t := t, k := k, h := h, n := cs.length, y := cs }] := by
  have key : ∀ (cs y0 : List K),
      cs.foldl (fun (ls : List (Level K)) c => iterStack none (storeStack none (ls.map fun l => (l, some c))).1)
        [{ t := t, k := k, h := h, n := y0.length, y := y0 }]
      = [{ t := t, k := k, h := h, n := (y0 ++ cs).length, y := y0 ++ cs }] := by
    intro cs
    induction cs with
    | nil => intro y0; simp
    | cons c cs ih =>
      intro y0
      simp only [List.foldl_cons, List.map_cons, List.map_nil]
      rw [(store_iter_cycle { t := t, k := k, h := h, n := y0.length, y := y0 } c hlag rfl).2]
      have := ih (y0 ++ [c])
      simp only [List.length_append, List.length_cons, List.length_nil, List.append_assoc, List.cons_append,
        List.nil_append, Nat.cast_add, Nat.cast_one, zero_add] at this ⊢
      exact this
  simpa using key cs []

/-- lagrange_equality after `m` cycles: `p(x) = k*h^m*c^2 + λ_m*c + f(x)` with `λ_m = Σ_{i<m} 2*k*h^i*c_i` -/
theorem lagrange_equality_after_cycles (k h : K) (cs : List K) (c fx : K) :
    evalStack [({ t := .lagEq, k := k, h := h, n := cs.length, y := cs }, some c)] fx =
      .ok (k * h ^ cs.length * c ^ 2 + (∑ i ∈ Finset.range cs.length, 2 * k * h ^ i * cs.getD i 0) * c + fx) := by
  rw [formula_lagrange_equality]
  simp only [Int.toNat_natCast]
  have e : ∑ i ∈ Finset.range cs.length, 2 * k * h ^ i * storedAt cs (i : Int)
      = ∑ i ∈ Finset.range cs.length, 2 * k * h ^ i * cs.getD i 0 := by
    apply Finset.sum_congr rfl
    intro i hi
    rw [storedAt_eq_getElem cs i (Finset.mem_range.mp hi)]
    simp [Finset.mem_range.mp hi]
  rw [e]

/-- the documented multiplier update `lam += 2*pk*f(x)`: one more cycle with condition value `c'` adds `2*k*h^m*c'` -/
theorem lagrange_equality_multiplier_update (k h : K) (cs : List K) (c' : K) :
    (∑ i ∈ Finset.range (cs ++ [c']).length, 2 * k * h ^ i * (cs ++ [c']).getD i 0)
      = (∑ i ∈ Finset.range cs.length, 2 * k * h ^ i * cs.getD i 0) + 2 * k * h ^ cs.length * c' := by
  simp only [List.length_append, List.length_cons, List.length_nil, zero_add, Finset.sum_range_succ]
  congr 1
  · apply Finset.sum_congr rfl
    intro i hi
    have := Finset.mem_range.mp hi
    simp [List.getD, List.getElem?_append_left this]
  · simp [List.getD]

/-- lagrange_inequality: the multiplier after one more cycle with condition value `c'` is
`β_{m+1} = max(0, β_m + 2*k*h^m*c')` - the clipped update, for every stored history -/
theorem lagrange_inequality_multiplier_update (k h : K) (cs : List K) (c' : K) :
    (betaLoop h (cs ++ [c']) (cs.length + 1) 0 0 k).1
      = max 0 ((betaLoop h cs cs.length 0 0 k).1 + 2 * (k * h ^ cs.length) * c') := by
  rw [betaLoop_succ]
  simp only [Nat.zero_add]
  rw [storedAt_append_self, betaLoop_congr h (cs ++ [c']) cs cs.length 0 0 k
    (fun j _ hj => storedAt_append_left cs c' j (by omega)), betaLoop_snd]

/-- barrier_inequality with a vanishing multiplier (`k = 0`, or `h = 0` after an `iter()`): `-.5/_k` divides by zero
and the `ZeroDivisionError` escapes from `p(x)` on the feasible side -/
theorem barrier_zero_multiplier_raises (k h : K) (n : Int) (y : List K) (c fx : K) (hc : c ≤ 0)
    (hp : ¬ (h = 0 ∧ n < 0)) (hk : k * h ^ n = 0) :
    evalStack [({ t := .barrier, k := k, h := h, n := n, y := y }, some c)] fx = .error .zerodiv := by
  simp only [evalStack, term, not_lt.mpr hc, if_false, pyPow_ok h n hp, hk, pyDiv_err]

end tree

end MysticVerif.C15

/-! # an infinite multiplier `k = inf` (the documented default of the two uniform types)

An ordered field has no `inf`; the statements below are over `XQ`, the rationals extended by `+inf, -inf, nan` with the
IEEE-754 conventions the floats follow (`inf * 0 = nan`, `inf - inf = nan`, `nan` absorbs, every comparison with
`nan` is false).  Uniform types: nothing is added where the condition is satisfied, `+inf` where it is violated.
Quadratic / linear types: `+inf` where violated, but `nan` (= `inf * 0`) where SATISFIED - the clause "no added
penalty where satisfied" fails for them at `k = inf` (known finding F8d, replayed on the implementation). -/

namespace MysticVerif.C15
open MysticVerif.Pen

inductive XQ where
  | fin (q : ℚ) | pinf | ninf | nan
  deriving DecidableEq

namespace XQ

def sgnMul (pos : Bool) (q : ℚ) : XQ := if q = 0 then nan else if (0 < q) = pos then pinf else ninf

def add : XQ → XQ → XQ
  | fin a, fin b => fin (a + b)
  | nan, _ => nan | _, nan => nan
  | pinf, ninf => nan | ninf, pinf => nan
  | pinf, _ => pinf | _, pinf => pinf
  | ninf, _ => ninf | _, ninf => ninf

def neg : XQ → XQ
  | fin a => fin (-a) | pinf => ninf | ninf => pinf | nan => nan

def mul : XQ → XQ → XQ
  | fin a, fin b => fin (a * b)
  | nan, _ => nan | _, nan => nan
  | pinf, fin b => sgnMul true b | fin a, pinf => sgnMul true a
  | ninf, fin b => sgnMul false b | fin a, ninf => sgnMul false a
  | pinf, pinf => pinf | ninf, ninf => pinf | pinf, ninf => ninf | ninf, pinf => ninf

def div : XQ → XQ → XQ
  | fin a, fin b => fin (a / b)        -- python raises on b = 0 before (pyDiv)
  | nan, _ => nan | _, nan => nan
  | fin _, _ => fin 0
  | pinf, fin b => if 0 ≤ b then pinf else ninf
  | ninf, fin b => if 0 ≤ b then ninf else pinf
  | _, _ => nan

def ltb : XQ → XQ → Bool
  | fin a, fin b => decide (a < b)
  | nan, _ => false | _, nan => false
  | ninf, ninf => false | ninf, _ => true
  | _, ninf => false
  | pinf, _ => false
  | fin _, pinf => true

def beq : XQ → XQ → Bool
  | fin a, fin b => decide (a = b)
  | pinf, pinf => true | ninf, ninf => true
  | _, _ => false

def abs : XQ → XQ
  | fin a => fin |a| | pinf => pinf | ninf => pinf | nan => nan

instance : Add XQ := ⟨add⟩
instance : Sub XQ := ⟨fun a b => add a (neg b)⟩
instance : Mul XQ := ⟨mul⟩
instance : Div XQ := ⟨div⟩
instance : Neg XQ := ⟨neg⟩
instance : LT XQ := ⟨fun a b => ltb a b = true⟩
instance : DecidableLT XQ := fun a b => inferInstanceAs (Decidable (ltb a b = true))
instance : BEq XQ := ⟨beq⟩
instance (n : Nat) : OfNat XQ n := ⟨fin n⟩
instance : PenOps XQ where
  powi a n := match a with
    | fin q => fin (q ^ n)
    | pinf => if 0 < n then pinf else if n = 0 then fin 1 else fin 0
    | _ => nan
  sq a := mul a a
  root a := a
  abs := abs
  log _ := nan
  inf := pinf

end XQ

namespace XQ

theorem zero_def : (0 : XQ) = fin 0 := by show fin ((0 : Nat) : ℚ) = fin 0; simp
theorem two_def : (2 : XQ) = fin 2 := by show fin ((2 : Nat) : ℚ) = fin 2; simp
theorem fin_add (a b : ℚ) : (fin a + fin b : XQ) = fin (a + b) := rfl
theorem pinf_add_fin (b : ℚ) : (pinf + fin b : XQ) = pinf := rfl
theorem nan_add (b : XQ) : (nan + b : XQ) = nan := by cases b <;> rfl
theorem fin_mul (a b : ℚ) : (fin a * fin b : XQ) = fin (a * b) := rfl
theorem pinf_mul_fin (b : ℚ) : (pinf * fin b : XQ) = if b = 0 then nan else if 0 < b then pinf else ninf := by
  show sgnMul true b = _
  unfold sgnMul
  by_cases h0 : b = 0
  · simp [h0]
  · by_cases hp : 0 < b <;> simp [h0, hp]
theorem fin_mul_pinf (a : ℚ) : (fin a * pinf : XQ) = if a = 0 then nan else if 0 < a then pinf else ninf := by
  show sgnMul true a = _
  unfold sgnMul
  by_cases h0 : a = 0
  · simp [h0]
  · by_cases hp : 0 < a <;> simp [h0, hp]
theorem beq_fin (a b : ℚ) : ((fin a == fin b) = true) ↔ a = b := by
  show (XQ.beq (fin a) (fin b) = true) ↔ a = b
  simp [XQ.beq]
theorem lt_fin (a b : ℚ) : (fin a < fin b) ↔ a < b := by
  show (XQ.ltb (fin a) (fin b) = true) ↔ a < b
  simp [XQ.ltb]
theorem sq_fin (a : ℚ) : (PenOps.sq (fin a) : XQ) = fin (a * a) := rfl
theorem abs_fin (a : ℚ) : (PenOps.abs (fin a) : XQ) = fin |a| := rfl
theorem powi_fin (a : ℚ) (n : Int) : (PenOps.powi (fin a) n : XQ) = fin (a ^ n) := rfl
theorem inf_def : (PenOps.inf : XQ) = pinf := rfl

theorem pyPow_fin (h : ℚ) (hh : 0 < h) (n : Int) : pyPow (fin h) n = .ok (fin (h ^ n)) := by
  unfold pyPow
  rw [if_neg, powi_fin]
  rintro ⟨h0, _⟩
  rw [zero_def, beq_fin] at h0
  exact (ne_of_gt hh) h0

theorem pyMax_zero_fin (c : ℚ) : pyMax (0 : XQ) (fin c) = fin (max 0 c) := by
  unfold pyMax
  by_cases hc : 0 < c
  · have hl : (0 : XQ) < fin c := by rw [zero_def, lt_fin]; exact hc
    rw [if_pos hl, max_eq_right (le_of_lt hc)]
  · have hl : ¬ (0 : XQ) < fin c := by rw [zero_def, lt_fin]; exact hc
    rw [if_neg hl, max_eq_left (not_lt.mp hc), zero_def]

end XQ

open XQ in
/-- `k = inf` with the two uniform types (their default): `p(x) = f(x)` exactly where the condition is satisfied and
`+inf` where it is violated - for every finite `h > 0`, iteration, stored history, condition value and `f(x)` -/
theorem infinite_k_uniform (h : ℚ) (hh : 0 < h) (n : Int) (y : List XQ) (c fx : ℚ) :
    evalStack [(({ t := .uEq, k := pinf, h := fin h, n := n, y := y } : Level XQ), some (fin c))] (fin fx)
      = .ok (if c = 0 then fin fx else pinf) ∧
    evalStack [(({ t := .uIneq, k := pinf, h := fin h, n := n, y := y } : Level XQ), some (fin c))] (fin fx)
      = .ok (if c ≤ 0 then fin fx else pinf) := by
  have hpos : (0 : ℚ) < h ^ n := zpow_pos hh n
  have hmul : (pinf : XQ) * fin (h ^ n) = pinf := by
    rw [pinf_mul_fin, if_neg (ne_of_gt hpos), if_pos hpos]
  constructor
  · by_cases hc : c = 0
    · have hb : ((fin c : XQ) == 0) = true := by rw [zero_def, beq_fin]; exact hc
      simp only [evalStack, term]
      rw [if_pos hb, if_pos hc]
      simp only [zero_def, fin_add, zero_add]
    · have hb : ¬ (((fin c : XQ) == 0) = true) := by rw [zero_def, beq_fin]; exact hc
      simp only [evalStack, term]
      rw [if_neg hb, if_neg hc]
      simp only [pyPow_fin h hh n, hmul, pinf_add_fin]
  · by_cases hc : c ≤ 0
    · have hl : ¬ ((0 : XQ) < fin c) := by rw [zero_def, lt_fin]; exact not_lt.mpr hc
      simp only [evalStack, term]
      rw [if_neg hl, if_pos hc]
      simp only [zero_def, fin_add, zero_add]
    · have hl : ((0 : XQ) < fin c) := by rw [zero_def, lt_fin]; exact not_le.mp hc
      simp only [evalStack, term]
      rw [if_pos hl, if_neg hc]
      simp only [pyPow_fin h hh n, hmul, pinf_add_fin]

open XQ in
/-- `k = inf` with the quadratic / linear types: `+inf` where the condition is violated, but `nan` (`inf * 0`) where it
is SATISFIED - for every finite `h > 0`, iteration, stored history and `f(x)`: the clause "no added penalty where
satisfied" fails for these four types at `k = inf` (F8d) -/
theorem infinite_k_quadratic_linear (h : ℚ) (hh : 0 < h) (n : Int) (y : List XQ) (c fx : ℚ) :
    evalStack [(({ t := .qEq, k := pinf, h := fin h, n := n, y := y } : Level XQ), some (fin c))] (fin fx)
      = .ok (if c = 0 then nan else pinf) ∧
    evalStack [(({ t := .lEq, k := pinf, h := fin h, n := n, y := y } : Level XQ), some (fin c))] (fin fx)
      = .ok (if c = 0 then nan else pinf) ∧
    evalStack [(({ t := .qIneq, k := pinf, h := fin h, n := n, y := y } : Level XQ), some (fin c))] (fin fx)
      = .ok (if c ≤ 0 then nan else pinf) ∧
    evalStack [(({ t := .lIneq, k := pinf, h := fin h, n := n, y := y } : Level XQ), some (fin c))] (fin fx)
      = .ok (if c ≤ 0 then nan else pinf) := by
  have hpos : (0 : ℚ) < h ^ n := zpow_pos hh n
  have hmul : (pinf : XQ) * fin (h ^ n) = pinf := by
    rw [pinf_mul_fin, if_neg (ne_of_gt hpos), if_pos hpos]
  have h2 : (2 : XQ) * pinf = pinf := by rw [two_def, fin_mul_pinf]; norm_num
  have key : ∀ a : ℚ, 0 ≤ a → ((pinf : XQ) * fin a + fin fx) = if a = 0 then nan else pinf := by
    intro a ha
    rw [pinf_mul_fin]
    by_cases h0 : a = 0
    · rw [if_pos h0, if_pos h0, nan_add]
    · rw [if_neg h0, if_neg h0, if_pos (lt_of_le_of_ne ha (Ne.symm h0)), pinf_add_fin]
  refine ⟨?_, ?_, ?_, ?_⟩
  · simp only [evalStack, term, pyPow_fin h hh n, hmul, sq_fin, key (c * c) (mul_self_nonneg c), mul_self_eq_zero]
  · simp only [evalStack, term, pyPow_fin h hh n, hmul, abs_fin, key |c| (abs_nonneg c), abs_eq_zero]
  · simp only [evalStack, term, pyPow_fin h hh n, hmul, h2, pyMax_zero_fin, sq_fin,
      key (max 0 c * max 0 c) (mul_self_nonneg _), mul_self_eq_zero]
    congr 1
    by_cases hc : c ≤ 0
    · simp [hc]
    · have : ¬ max 0 c = 0 := by rw [max_eq_right (le_of_lt (not_le.mp hc))]; exact ne_of_gt (not_le.mp hc)
      simp [hc, this]
  · simp only [evalStack, term, pyPow_fin h hh n, hmul, h2, pyMax_zero_fin, abs_fin,
      key |max 0 c| (abs_nonneg _), abs_eq_zero]
    congr 1
    by_cases hc : c ≤ 0
    · simp [hc]
    · have : ¬ max 0 c = 0 := by rw [max_eq_right (le_of_lt (not_le.mp hc))]; exact ne_of_gt (not_le.mp hc)
      simp [hc, this]

open XQ in
/-- the concrete witnesses replayed on the implementation (`c15.witness_specs`): quadratic_equality(k=inf, h=5) over
`f(x) = 1` returns `nan` at the satisfied value `c = 0` and `+inf` at the violated value `c = 1/2`; the linear and
inequality variants return `nan` at satisfied values -/
theorem infinite_k_nan_on_feasible_witness :
    evalStack [(({ t := .qEq, k := pinf, h := fin 5, n := 0, y := [] } : Level XQ), some (fin 0))] (fin 1) = .ok nan ∧
    evalStack [(({ t := .qEq, k := pinf, h := fin 5, n := 0, y := [] } : Level XQ), some (fin (1 / 2)))] (fin 1) = .ok pinf ∧
    evalStack [(({ t := .lEq, k := pinf, h := fin 5, n := 0, y := [] } : Level XQ), some (fin 0))] (fin 1) = .ok nan ∧
    evalStack [(({ t := .qIneq, k := pinf, h := fin 5, n := 0, y := [] } : Level XQ), some (fin (-1)))] (fin 1) = .ok nan ∧
    evalStack [(({ t := .lIneq, k := pinf, h := fin 5, n := 0, y := [] } : Level XQ), some (fin (-1)))] (fin 1) = .ok nan := by
  have h5 : (0 : ℚ) < 5 := by norm_num
  refine ⟨?_, ?_, ?_, ?_, ?_⟩
  · rw [(infinite_k_quadratic_linear 5 h5 0 [] 0 1).1]; simp
  · rw [(infinite_k_quadratic_linear 5 h5 0 [] (1 / 2) 1).1]; norm_num
  · rw [(infinite_k_quadratic_linear 5 h5 0 [] 0 1).2.1]; simp
  · rw [(infinite_k_quadratic_linear 5 h5 0 [] (-1) 1).2.2.1]; norm_num
  · rw [(infinite_k_quadratic_linear 5 h5 0 [] (-1) 1).2.2.2]; norm_num

end MysticVerif.C15

/-! ## non-vacuity of the tree / state-machine theorems -/

namespace MysticVerif.C15
open MysticVerif.Pen

section examples2

local instance : PenOps ℚ := ⟨fun a n => a ^ n, fun a => a * a, fun _ => 0, fun a => |a|, fun _ => 0, 0⟩
local instance : LawfulPenOps ℚ := ⟨fun _ _ => rfl, fun _ => rfl, fun _ => rfl⟩

/-- conditions: #0 = 3 (violated), #1 = 0 (satisfied), #2 raises; decorated functions: #0 = 0, #1 = 7 -/
def exEnv : Env ℚ := ⟨fun i => if i = 0 then some 3 else if i = 1 then some 0 else none, fun j => if j = 0 then 0 else 7⟩

/-- `quadratic_equality(c0, k=2, h=5)` at iteration 1 over a zero base: 2*5*9 = 90 -/
def exM1 : PT ℚ := .pen { t := .qEq, k := 2, h := 5, n := 1, y := [] } (.leaf 0) (.base 0)
/-- `linear_inequality(c1, k=1, h=5)` over a zero base: satisfied -/
def exM2 : PT ℚ := .pen { t := .lIneq, k := 1, h := 5, n := 0, y := [] } (.leaf 1) (.base 0)
/-- `and_(m1, m2)` (defaults: linear_equality, k=1, h=5) decorated once more by `uniform_inequality(c0, k=4, h=1)(...)` -/
def exTree : PT ℚ :=
  .pen { t := .uIneq, k := 4, h := 1, n := 0, y := [] } (.leaf 0)
    (.pen { t := .lEq, k := 1, h := 5, n := 0, y := [] } (.and (.cons exM1 (.cons exM2 .nil))) (.base 0))

-- the member values, the combined condition and the stacked result 4 + 1*|90 + 0| + 0
example : valsL exEnv (.cons exM1 (.cons exM2 .nil)) = some [90, 0] := by
  simp [valsL, evalT, condV, exM1, exM2, exEnv, term, pyPow, PenOps.powi, PenOps.sq, PenOps.abs, pyMax]
  norm_num
example : evalT exEnv exTree = .ok 94 := by
  simp [exTree, valsL, evalT, condV, exM1, exM2, exEnv, term, pyPow, PenOps.powi, PenOps.sq, PenOps.abs, pyMax, andCond]
  norm_num
-- a member whose condition divides by zero makes the and_ penalty (default type, k = 1) infinite: `inf` is 0 in this toy instance
example : evalT exEnv (.pen { t := .lEq, k := 1, h := 5, n := 0, y := [] }
    (.and (.cons (.pen { t := .qEq, k := 2, h := 5, n := 0, y := [] } (.leaf 2) (.base 0)) .nil)) (.base 0))
    = .ok (1 * 5 ^ (0 : Int) * |(PenOps.inf : ℚ)| + 0) := by
  simp [valsL, evalT, condV, exEnv, term, pyPow, PenOps.powi, PenOps.abs, andCond, PenOps.inf]
-- hypotheses of `member_sign` / `tree_stacked_add` on the member m1
example : chainVals exEnv exM1 = [(({ t := .qEq, k := 2, h := 5, n := 1, y := [] } : Level ℚ), (3 : ℚ))].map
    fun p => (p.1, some p.2) := by
  simp [chainVals, chain, exM1, condV, exEnv]
-- an operation history on three different objects (root, decorated level, member m1): only iteration state moves
example : skelT ([TOp.iter [] none, TOp.iter [.down] (some 4), TOp.store [.down, .member 0] exEnv none,
    TOp.clear [.down, .member 1]].foldl (fun s o => o.apply s) exTree) = skelT exTree :=
  tree_ops_touch_only_iteration_state _ _
example : getT [.down, .member 0] exTree = some exM1 := by
  simp [getT, getC, getL, exTree]
-- two cycles of the Lagrange outer loop
example : [(3 : ℚ), -1].foldl
    (fun (ls : List (Level ℚ)) c => iterStack none (storeStack none (ls.map fun l => (l, some c))).1)
      [{ t := .lagEq, k := 20, h := 5, n := 0, y := [] }]
    = [{ t := .lagEq, k := 20, h := 5, n := 2, y := [3, -1] }] :=
  lagrange_cycles .lagEq 20 5 rfl [3, -1]

end examples2

end MysticVerif.C15

/-! ## counter calls interleaved over the handles of different levels of one stack -/

namespace MysticVerif.C15
open MysticVerif.Pen

section handles
variable {K : Type} [Field K] [LinearOrder K] [IsStrictOrderedRing K] [PenOps K] [LawfulPenOps K]

/-- the counter operation on ONE level -/
def CtrOp.lvl (o : CtrOp) (l : Level K) : Level K :=
  match o with
  | .iter => { l with n := l.n + 1 }
  | .iterI i => { l with n := i }
  | .clear => { l with n := 0, y := [] }

theorem CtrOp.apply_eq_map (o : CtrOp) (ls : List (Level K)) : o.apply ls = ls.map o.lvl := by
  cases o <;> simp [CtrOp.apply, CtrOp.lvl, iterStack, clearStack]

theorem mapIdx_const {α β : Type} (g : α → β) : ∀ ls : List α, List.mapIdx (fun _ l => g l) ls = List.map g ls
  | [] => rfl
  | l :: ls => by
    rw [List.mapIdx_cons, List.map_cons]
    exact congrArg _ (mapIdx_const g ls)

theorem onFrom_map (g : Level K → Level K) : ∀ (ls : List (Level K)) (j : Nat),
    onFrom j (List.map g) ls = ls.mapIdx (fun idx l => if j ≤ idx then g l else l) := by
  intro ls
  induction ls with
  | nil => intro j; simp [onFrom]
  | cons l ls ih =>
    intro j
    cases j with
    | zero => simp [onFrom, List.mapIdx_cons, mapIdx_const]
    | succ j =>
      have := ih j
      simp only [onFrom, List.take_succ_cons, List.drop_succ_cons, List.cons_append] at this ⊢
      rw [this, List.mapIdx_cons]
      simp

/-- **interleaved handles**: after ANY history of `iter()` / `iter(i)` / `clear()` calls, each made through the handle
of an arbitrary level `j` of the stack, level `idx` has seen exactly the calls with `j ≤ idx`, in order -/
theorem iteration_history_handles (os : List (Nat × CtrOp)) : ∀ ls : List (Level K),
    os.foldl (fun s o => onFrom o.1 o.2.apply s) ls
      = ls.mapIdx (fun idx l => os.foldl (fun l o => if o.1 ≤ idx then o.2.lvl l else l) l) := by
  induction os with
  | nil => intro ls; simpa using (mapIdx_const (fun l : Level K => l) ls).symm
  | cons o os ih =>
    intro ls
    simp only [List.foldl_cons]
    rw [ih]
    have e : onFrom o.1 o.2.apply ls = onFrom o.1 (List.map o.2.lvl) ls := by
      unfold onFrom; rw [CtrOp.apply_eq_map]
    rw [e, onFrom_map, List.mapIdx_mapIdx]
    rfl

-- calls through the handles of levels 0, 1, 0 of a two-level stack: level 0 sees iter(), iter(); level 1 all three
example : ([(0, CtrOp.iter), (1, CtrOp.iterI 7), (0, CtrOp.iter)].foldl (fun s o => onFrom o.1 o.2.apply s)
    [({ t := .qEq, k := 1, h := 5, n := 0, y := [] } : Level ℚ), { t := .lagEq, k := 1, h := 5, n := 0, y := [] }]).map (·.n)
    = [2, 8] := by
  simp [onFrom, CtrOp.apply, iterStack]

end handles

end MysticVerif.C15

/-! ## the lists handed out by `stored()`: the penalty and its caller share nothing

The property's "equal to the documented expression in ... the stored multiplier histories" and "clear() resets the
iteration state ... without touching anything else" quantify over HISTORIES of calls; a caller that keeps (and edits)
what `stored()` returned is part of such a history.  `Sess` = the tree plus the caller's lists (`Model/PenaltyTree`). -/

namespace MysticVerif.C15
open MysticVerif.Pen

section readings
variable {K : Type} [Field K] [LinearOrder K] [IsStrictOrderedRing K] [PenOps K] [LawfulPenOps K]

/-- **a penalty depends only on the calls made on it**: after ANY session - mutating calls on arbitrary objects of
the tree interleaved with the caller reading `stored()` and editing the lists it received in any way - the whole tree
(hence `p(x)`, `error(x)`, `iteration()`, `stored()` of every object) is what the mutating calls ALONE produce -/
theorem reading_edits_never_reach_penalty (os : List (SOp K)) (s : Sess K) :
    (runS os s).t = (treeOps os).foldl (fun t o => o.apply t) s.t := runS_tree os s

/-- one edit of a list the caller holds: the tree, and every OTHER list the caller holds, is untouched -/
theorem reading_edit_frame (i : Nat) (new : List K) (s : Sess K) :
    ((SOp.hmut i new).apply s).t = s.t ∧
    (∀ (env : Env K) (p : List Step), (getT p ((SOp.hmut i new).apply s).t).map (evalT env) = (getT p s.t).map (evalT env)
      ∧ (getT p ((SOp.hmut i new).apply s).t).map storedT = (getT p s.t).map storedT) ∧
    ∀ j, j ≠ i → ((SOp.hmut i new).apply s).held[j]? = s.held[j]? := by
  refine ⟨rfl, fun env p => ⟨rfl, rfl⟩, fun j hj => ?_⟩
  simp only [SOp.apply]
  rw [List.getElem?_set_ne (Ne.symm hj)]

/-- `r = obj.stored()` is a snapshot: the caller's new list holds the history of that object at that moment, the tree
and the lists already held are unchanged -/
theorem reading_is_copy (p : List Step) (s : Sess K) (sub : PT K) (h : getT p s.t = some sub) :
    ((SOp.hold p).apply s).t = s.t ∧ ((SOp.hold p).apply s).held = s.held ++ [storedT sub] := by
  simp only [SOp.apply, h, and_self]

/-- **`clear()` (and `iter`, `store`) touch nothing the caller holds**: a mutating call on any object of the tree leaves
every list obtained from `stored()` exactly as the caller left it -/
theorem tree_ops_leave_readings (os : List (TOp K)) (s : Sess K) :
    (runS (os.map SOp.tree) s).held = s.held := by
  induction os generalizing s with
  | nil => rfl
  | cons o os ih =>
    simp only [List.map_cons, runS, List.foldl_cons]
    exact ih _

/-- **a type without multipliers never has a history**: start from freshly built penalties (every non-Lagrange level
with an empty `_y`); after ANY session, `stored()` of any object of the tree whose type is not a Lagrange type is `[]`
and `stored(i)` is `0.0` for every `i` -/
theorem non_lagrange_never_has_history (os : List (SOp K)) (s : Sess K) (hfresh : cleanT s.t = true)
    (p : List Step) (l : Level K) (c : PC K) (inner : PT K)
    (hget : getT p (runS os s).t = some (.pen l c inner)) (hnl : l.t.isLag = false) :
    storedT (.pen l c inner) = [] ∧ ∀ i : Int, storedAt (storedT (PT.pen l c inner)) i = 0 := by
  have h1 : cleanT (runS os s).t = true := by rw [runS_tree]; exact clean_fold _ _ hfresh
  have h2 := clean_getT p _ _ h1 hget
  simp only [cleanT, Bool.and_eq_true, hnl, Bool.false_or, List.isEmpty_iff] at h2
  have hy : l.y = [] := h2.1.1
  refine ⟨by simp only [storedT, hy], fun i => ?_⟩
  simp only [storedT, hy, storedAt]
  split <;> simp

end readings

section examples3
local instance : PenOps ℚ := ⟨fun a n => a ^ n, fun a => a * a, fun _ => 0, fun a => |a|, fun _ => 0, 0⟩

/-- a Lagrange level with two stored multipliers around a quadratic level -/
def exLag : PT ℚ := .pen { t := .lagEq, k := 20, h := 5, n := 2, y := [3, -1] } (.leaf 0)
  (.pen { t := .qEq, k := 2, h := 5, n := 2, y := [] } (.leaf 1) (.base 0))

-- read, sort / scale / extend the reading, read the inner level, clear: the caller's lists are its own, the tree is
-- what `clear` alone produces
example : runS [SOp.hold [], SOp.hmut 0 [-1000, 3, 99], SOp.hold [.down], SOp.hmut 1 [5], SOp.hold [],
      SOp.tree (TOp.clear [])] ⟨exLag, []⟩
    = ⟨clearT exLag, [[-1000, 3, 99], [5], [3, -1]]⟩ := by
  simp [runS, SOp.apply, TOp.apply, modT, getT, storedT, exLag]
example : cleanT exLag = true := by simp [cleanT, cleanC, exLag, PType.isLag]
end examples3

end MysticVerif.C15
